#!/bin/sh
# Build everything the checks need from files on disk only (offline).
set -e
cd /verif
export CARGO_NET_OFFLINE=true
mkdir -p .build evidence replays
cp /repo/Cargo.lock harness/Cargo.lock
(cd harness && cargo build --offline)
(cd /repo && CARGO_TARGET_DIR=/verif/.build/cli-target cargo build --offline -p chiritori-cli)
(cd lean && lake build Chiritori chiritori_driver)
echo "setup ok"
