import Chiritori.Model.Api
import Chiritori.Model.Cli
import Chiritori.Spec.All
/-
  Line-protocol driver for the model (see harness/src/main.rs for the protocol).
-/
open Chiritori

def hexVal (c : Char) : Nat :=
  if '0' ≤ c ∧ c ≤ '9' then c.toNat - 48
  else if 'a' ≤ c ∧ c ≤ 'f' then c.toNat - 87
  else if 'A' ≤ c ∧ c ≤ 'F' then c.toNat - 55 else 0

def unhexBytes : List Char → ByteArray → ByteArray
  | a :: b :: rest, acc => unhexBytes rest (acc.push (UInt8.ofNat (hexVal a * 16 + hexVal b)))
  | _, acc => acc

def unhex (s : String) : List Char :=
  match String.fromUTF8? (unhexBytes s.toList ByteArray.empty) with
  | some str => str.toList
  | none => []

def hexNib (n : Nat) : Char := if n < 10 then Char.ofNat (48 + n) else Char.ofNat (87 + n)

def hex (s : List Char) : String :=
  let bytes := (String.ofList s).toUTF8
  String.ofList (bytes.toList.flatMap fun b => [hexNib (b.toNat / 16), hexNib (b.toNat % 16)])

structure Req where
  op : String
  src : List Char
  ds : List Char
  de : List Char
  cfg : Cfg
  args : List Int
  raw : List String

def parseInt (s : String) : Int :=
  match s.toInt? with
  | some v => v
  | none => 0

def parseReq (line : String) : Option Req :=
  match line.splitOn "\t" with
  | op :: src :: ds :: de :: tl :: rm :: now :: off :: targets :: args :: rest =>
    let (secs, nanos) := match now.splitOn "." with
      | [a, b] => (parseInt a, (parseInt b).toNat)
      | [a] => (parseInt a, 0)
      | _ => (0, 0)
    let ts := if targets == "-" then [] else (targets.splitOn ",").map fun t => unhex (t.drop 1).toString
    let as := if args == "-" then [] else (args.splitOn ",").map parseInt
    some ⟨op, unhex src, unhex ds, unhex de,
          ⟨unhex tl, unhex rm, secs, nanos, unhex off, ts⟩, as, rest⟩
  | _ => none

def optStr : Option Nat → String
  | some v => toString v
  | none => "-"

def elStr : Option Element → String
  | none => "-"
  | some e => "n" ++ hex e.name ++ String.join (e.attrs.map fun a =>
      ";" ++ hex a.name ++ (match a.value with | some v => "=" ++ hex v | none => ""))

def markerStr (m : Marker) : String := s!"{m.start}-{m.stop}:{optStr m.pair}"

def rngs (l : List (Nat × Nat)) (sep : String) : String :=
  " ".intercalate (l.map fun r => s!"{r.1}{sep}{r.2}")

def argNat (r : Req) (i : Nat) : Nat := (r.args.getD i 0).toNat

def res (x : R String) : String :=
  match x with
  | .ok s => "ok\t" ++ s
  | .error p => "panic\t" ++ p.name

def attrsFor (r : Req) (n : String) : List Attr :=
  match r.args.getD 0 2 with
  | 0 => []
  | 1 => [⟨n.toList, none⟩]
  | _ => [⟨n.toList, some r.src⟩]

def handle (r : Req) : String :=
  let b := bytesOf r.src
  match r.op with
  | "clean" => res ((clean r.src r.ds r.de r.cfg).map hex)
  | "list:json" => res ((list r.src r.ds r.de r.cfg true).map hex)
  | "list:pretty" => res ((list r.src r.ds r.de r.cfg false).map hex)
  | "list_all:json" => res ((listAll r.src r.ds r.de r.cfg true).map hex)
  | "list_all:pretty" => res ((listAll r.src r.ds r.de r.cfg false).map hex)
  | "tokenize" =>
    "ok\t" ++ " ".intercalate ((tokenize r.src r.ds r.de).map fun t =>
      s!"{if t.kind = .element then "E" else "T"}:{t.start}:{t.stop}:{t.bstart}:{t.bstop}:{hex t.value}")
  | "elparse" =>
    "ok\t" ++ " ".intercalate ((tokenize r.src r.ds r.de).map fun t => elStr (elparse r.ds r.de t))
  | "tree" => "ok\t" ++ Spec.treeString (parseSource r.src r.ds r.de)
  | "time" => "ok\t" ++ toString (timeIsRemoval r.cfg ⟨"tl".toList, attrsFor r "to"⟩)
  | "marker" => "ok\t" ++ toString (markerIsRemoval r.cfg ⟨"rm".toList, attrsFor r "name"⟩)
  | "trace" =>
    res ((trace r.src r.ds r.de r.cfg).map fun t =>
      " ".intercalate (t.markers.map markerStr) ++ "|" ++
      " ".intercalate (t.markersAll.map fun (m, rdy) => markerStr m ++ (if rdy then ":R" else ":P")) ++ "|" ++
      hex (charsOf t.removed) ++ "|" ++
      " ".intercalate (t.removedPos.map fun (p, q) => s!"{p}:{optStr q}"))
  | "fmt:indent" => res ((fmtIndent b (argNat r 0)).map fun (s, e) => s!"{s}:{e}")
  | "fmt:empty" => res ((fmtEmpty b (argNat r 0)).map fun (s, e) => s!"{s}:{e}")
  | "fmt:prev" => res ((fmtPrev b (argNat r 0)).map fun (s, e) => s!"{s}:{e}")
  | "fmt:next" => res ((fmtNext b (argNat r 0)).map fun (s, e) => s!"{s}:{e}")
  | "fmt:block" => "ok\t" ++ rngs (fmtBlockIndent b (argNat r 0) (argNat r 1)) "-"
  | "format" =>
    let rec pairs : List Int → List (Nat × Option Nat)
      | a :: p :: rest => (a.toNat, if p < 0 then none else some p.toNat) :: pairs rest
      | _ => []
    res ((format b (pairs r.args)).map fun o => hex (charsOf o))
  | "findnext" => "ok\t" ++ optStr (findNextLB b (argNat r 0) (argNat r 1 != 0))
  | "findprev" => "ok\t" ++ optStr (findPrevLB b (argNat r 0) (argNat r 1 != 0))
  | "findchar" => "ok\t" ++ optStr (findNextChar b (argNat r 0))
  | "item" =>
    let start := argNat r 0
    let stop := argNat r 1
    let lm := buildLineMap b
    let lr := if argNat r 4 != 0 ∧ stop > start then some (findLine lm start, findLine lm (stop - 1)) else none
    res ((buildItem b start stop (argNat r 2 != 0) (argNat r 3 != 0) lr).map hex)
  | "linemap" =>
    let lm := buildLineMap b
    "ok\t" ++ " ".intercalate (lm.map toString) ++ "|" ++
      " ".intercalate (r.args.map fun n => toString (findLine lm n.toNat))
  | "cli" =>
    -- extra: config file content (hex) or "-", list, listAll, listJson
    match r.raw with
    | [cfgFile, l, la, lj] =>
      let inPath := "in".toList
      let cfgPath := "cfg".toList
      let args : Cli.Args := {
        filename := some inPath, delimiterStart := r.ds, delimiterEnd := r.de,
        timeLimitedTagName := r.cfg.tlName, timeLimitedTimeOffset := r.cfg.offset,
        timeLimitedCurrent := some (r.cfg.now, r.cfg.nowNanos), removalMarkerTagName := r.cfg.rmName,
        removalMarkerTargetName := r.cfg.targets,
        removalMarkerTargetConfig := if cfgFile == "-" then none else some cfgPath,
        list := l == "1", listAll := la == "1", listJson := lj == "1" }
      let world : Cli.World := {
        files := fun p => if p = inPath then some r.src else if p = cfgPath ∧ cfgFile != "-" then some (unhex cfgFile) else none,
        stdin := [], now := (0, 0) }
      let o := Cli.run args world
      s!"ok\t{o.exit}:{hex o.stdout}"
    | _ => "ok\tbad-cli-request"
  | "spec" => Spec.dispatch r.raw r.src r.ds r.de r.cfg r.args
  | _ => "ok\tbad-op"

partial def loop (h : IO.FS.Stream) (out : IO.FS.Stream) : IO Unit := do
  let line ← h.getLine
  if line.isEmpty then return ()
  let line := (line.dropEndWhile (· == '\n')).toString
  if line.isEmpty then loop h out
  else
    match parseReq line with
    | some r => out.putStrLn (handle r)
    | none => out.putStrLn "ok\tbad-request"
    loop h out

def main : IO Unit := do
  let stdin ← IO.getStdin
  let stdout ← IO.getStdout
  loop stdin stdout
  stdout.flush
