import Chiritori.Model.Text
import Chiritori.Model.Tokenizer
import Chiritori.Model.ElementParser
import Chiritori.Model.Parser
