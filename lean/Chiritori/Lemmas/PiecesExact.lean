import Chiritori.Lemmas.PiecesOut
/-
  `pieces_after` once more, recording for every token exactly what was deleted inside it (`PExact`): the text pieces of
  the output are the texts of the surviving text tokens minus the deleted bytes, the tags are untouched.
-/
namespace Chiritori
open Spec

/-- piece by piece: tags as they are, texts with exactly the bytes `F` covers taken out -/
def PExact (ds de : List Char) (F : List Rng) : List Piece → List Token → Nat → Prop
  | [], [], _ => True
  | .text v :: ps, t :: L, off =>
    t.kind = .text ∧ bytesOf v = minusFrom (bytesOf t.value) off F ∧ PExact ds de F ps L (off + (bytesOf t.value).length)
  | .tag b0 rest :: ps, t :: L, off =>
    t.kind = .element ∧ t.value = ds ++ (b0 :: (rest ++ de)) ∧ PExact ds de F ps L (off + (bytesOf t.value).length)
  | _, _, _ => False

/-- Lemma P: tokens of a well-delimited text, whitespace deleted outside the cores: again a well-delimited text,
    with the same tags -/
theorem pieces_exact (d0 : Char) (dr : List Char) (e0 : Char) (er : List Char) (hd0 : wsChar d0 = false)
    (hel : ∀ w c, (e0 :: er) = w ++ [c] → wsChar c = false) (F : List Rng) (K : Bytes)
    (hF : ∀ d, inAny F d = true → ∃ y, K[d]? = some y ∧ isWs y = true) :
    ∀ (L : List Token) (off : Nat) (pre : Bytes),
    K = pre ++ (L.map fun t => bytesOf t.value).flatten → pre.length = off →
    (∀ t ∈ L, TokShape d0 e0 (d0 :: dr) (e0 :: er) (t.kind, t.value)) →
    CoresKept F (layoutOf (L.map fun t => bytesOf t.value)) off →
    ∃ ps, (∀ p ∈ ps, p.ok d0 e0) ∧
      bytesOf (renderAll (d0 :: dr) (e0 :: er) ps) = minusFrom (L.map fun t => bytesOf t.value).flatten off F ∧
      PExact (d0 :: dr) (e0 :: er) F ps L off
  | [], _, _, _, _, _, _ => ⟨[], by simp, by simp [renderAll, bytesOf, minusFrom], trivial⟩
  | t :: L, off, pre, hK, hpre, hsh, hck => by
    have hsht := hsh t (by simp)
    obtain ⟨hs, _, _, _, _⟩ := trimWs_decomp (bytesOf t.value)
    have hlen : (bytesOf t.value).length =
        (trimL (bytesOf t.value)).length + (trimWs (bytesOf t.value)).length + (trimR (bytesOf t.value)).length := by
      conv => lhs; rw [hs]
      simp [Nat.add_assoc]
    simp only [List.map_cons, layoutOf, CoresKept, List.length_nil, Nat.add_zero] at hck
    obtain ⟨hcore, _, hrest⟩ := hck
    obtain ⟨ps, p1, p2, p5⟩ := pieces_exact d0 dr e0 er hd0 hel F K hF L (off + (bytesOf t.value).length)
      (pre ++ bytesOf t.value) (by rw [hK]; simp) (by simp [hpre]) (fun u hu => hsh u (by simp [hu]))
      (by rw [hlen]; simpa [Nat.add_assoc] using hrest)
    simp only [List.map_cons, List.flatten_cons]
    rw [minusFrom_append, ← p2]
    cases hk : t.kind with
    | element =>
      -- a tag: it begins and ends with a non-whitespace byte, so it is its own core and stays as it is
      simp only [TokShape, hk] at hsht
      obtain ⟨b0, rest, hv, hrest'⟩ := hsht
      obtain ⟨w, c, hwc⟩ := exists_snoc (e0 :: er) (by simp)
      have hcw := hel w c hwc
      have hval : t.value = (d0 :: (dr ++ (b0 :: rest) ++ w)) ++ [c] := by
        rw [hv, hwc]; simp
      obtain ⟨y, hy, hyc⟩ := bytesOf_last (d0 :: (dr ++ (b0 :: rest) ++ w)) c
      rw [← hval] at hy
      have hyw : isWs y = false := by
        rcases hyc with rfl | rfl
        · exact isWs_cont
        · rw [isWs_lead]; exact hcw
      have hhead : (bytesOf t.value).head? = some (.lead d0) := by rw [hv]; exact bytesOf_head d0 _
      obtain ⟨t1, t2, t3⟩ := trim_full (bytesOf t.value) _ y hhead (by rw [isWs_lead]; exact hd0) hy hyw
      have hkeep : minusFrom (bytesOf t.value) off F = bytesOf t.value := by
        apply minusFrom_keep
        intro i hi1 hi2
        rw [t1, t2] at hcore
        exact hcore i (by simpa using hi1) (by simpa using hi2)
      rw [hkeep]
      refine ⟨.tag b0 rest :: ps, ?_, ?_, ⟨hk, hv, p5⟩⟩
      · intro p hp
        rcases List.mem_cons.mp hp with rfl | hp
        · exact hrest'
        · exact p1 p hp
      · simp only [renderAll, Piece.render]
        rw [← hv, bytesOf_append]
    | text =>
      simp only [TokShape, hk] at hsht
      obtain ⟨v', hv', hsub, hnw⟩ := minusFrom_encoded F t.value off (by
        intro k hk' hFk
        obtain ⟨y, hy, hyw⟩ := hF (off + k) hFk
        refine ⟨y, ?_, hyw⟩
        rw [hK, List.getElem?_append_right (by omega), hpre] at hy
        simp only [List.map_cons, List.flatten_cons] at hy
        rw [Nat.add_sub_cancel_left, List.getElem?_append_left hk'] at hy
        exact hy)
      rw [hv']
      refine ⟨.text v' :: ps, ?_, ?_, ⟨hk, hv'.symm, p5⟩⟩
      · intro p hp
        rcases List.mem_cons.mp hp with rfl | hp
        · intro c hc; exact hsht c (hsub c hc)
        · exact p1 p hp
      · simp only [renderAll, Piece.render, bytesOf_append]

end Chiritori
