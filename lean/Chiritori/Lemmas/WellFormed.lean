import Chiritori.Lemmas.Finders
/-
  Consequences of well-formedness (`b = bytesOf s`) for runs of bytes the finders step over.
-/
namespace Chiritori

def isBlankByte (x : ABy) : Prop := x = .lead ' ' ∨ x = .lead '\t'
def isWsByte (x : ABy) : Prop := x = .lead ' ' ∨ x = .lead '\t' ∨ x = .lead '\n'

theorem utf8Size_space : (' ' : Char).utf8Size = 1 := by decide
theorem utf8Size_tab : ('\t' : Char).utf8Size = 1 := by decide
theorem utf8Size_nl : ('\n' : Char).utf8Size = 1 := by decide

/-- at a boundary inside the text there is a lead byte, and the position behind that character is a boundary -/
theorem lead_at_boundary (s : List Char) (i : Nat) (hi : i < blen s) (hb : isBoundary (bytesOf s) i = true) :
    ∃ c, (bytesOf s)[i]? = some (.lead c) ∧ i + c.utf8Size ≤ blen s ∧ isBoundary (bytesOf s) (i + c.utf8Size) = true := by
  obtain ⟨s1, s2, hs, hl, _, hd⟩ := split_at_boundary s i (by omega) hb
  cases s2 with
  | nil =>
    rw [hs] at hi; simp [blen_append] at hi; omega
  | cons c cs =>
    refine ⟨c, ?_, ?_, ?_⟩
    · have : (bytesOf s)[i]? = ((bytesOf s).drop i)[0]? := by simp
      rw [this, hd]; simp [charBytes]
    · rw [hs, blen_append, hl]; simp
    · have e : s = (s1 ++ [c]) ++ cs := by rw [hs]; simp
      have := isBoundary_blen_prefix (s1 ++ [c]) cs
      rw [← e, blen_append, hl] at this
      simpa using this

/-- the position behind a one-byte character is a boundary -/
theorem boundary_after_lead (s : List Char) (i : Nat) (c : Char) (h : (bytesOf s)[i]? = some (.lead c)) :
    isBoundary (bytesOf s) i = true := by
  unfold isBoundary
  rw [h]; simp

theorem lt_of_getElem?_some {α} (l : List α) (i : Nat) (x : α) (h : l[i]? = some x) : i < l.length := by
  by_cases hlt : i < l.length
  · exact hlt
  · rw [List.getElem?_eq_none (by omega)] at h; simp at h

/-- A run of skippable bytes (blank or continuation) that starts at a boundary consists of blanks only. -/
theorem skip_run_blank (s : List Char) (a z : Nat) (hb : isBoundary (bytesOf s) a = true)
    (hrun : ∀ i, a ≤ i → i < z → ∃ x, (bytesOf s)[i]? = some x ∧ isSkipByte x) :
    (∀ i, a ≤ i → i < z → ∃ x, (bytesOf s)[i]? = some x ∧ isBlankByte x) ∧
    (z ≤ blen s → a ≤ z → isBoundary (bytesOf s) z = true) := by
  induction hn : z - a generalizing a with
  | zero =>
    refine ⟨by intro i h1 h2; omega, ?_⟩
    intro _ haz
    have : z = a := by omega
    rw [this]; exact hb
  | succ n ih =>
    have haz : a < z := by omega
    obtain ⟨x, hx, hsk⟩ := hrun a (Nat.le_refl _) haz
    have halt : a < blen s := by
      have := lt_of_getElem?_some _ _ _ hx; simpa using this
    obtain ⟨c, hc, hle, hb'⟩ := lead_at_boundary s a halt hb
    rw [hc] at hx
    injection hx with hx
    subst hx
    have hcblank : c = ' ' ∨ c = '\t' := by
      rcases hsk with h | h | h
      · exact absurd h (by simp)
      · injection h with h; exact Or.inl h
      · injection h with h; exact Or.inr h
    have hsz : c.utf8Size = 1 := by
      rcases hcblank with h | h <;> rw [h]
      · exact utf8Size_space
      · exact utf8Size_tab
    rw [hsz] at hb' hle
    obtain ⟨r1, r2⟩ := ih (a + 1) hb' (fun i h1 h2 => hrun i (by omega) h2) (by omega)
    refine ⟨?_, ?_⟩
    · intro i h1 h2
      by_cases hia : i = a
      · subst hia
        refine ⟨.lead c, hc, ?_⟩
        rcases hcblank with h | h <;> simp [isBlankByte, h]
      · exact r1 i (by omega) h2
    · intro hz _
      exact r2 hz (by omega)

theorem nl_next_boundary (s : List Char) (p : Nat) (h : (bytesOf s)[p]? = some (.lead '\n')) :
    isBoundary (bytesOf s) (p + 1) = true ∧ p + 1 ≤ blen s := by
  have hlt : p < blen s := by have := lt_of_getElem?_some _ _ _ h; simpa using this
  obtain ⟨c, hc, hle, hb⟩ := lead_at_boundary s p hlt (boundary_after_lead s p _ h)
  rw [h] at hc
  injection hc with hc
  injection hc with hc
  subst hc
  rw [utf8Size_nl] at hb hle
  exact ⟨hb, hle⟩

end Chiritori
