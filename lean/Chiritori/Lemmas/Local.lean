import Chiritori.Lemmas.FormatWs
/-
  Locality of the whitespace tidying at a seam.

  Every seam formatter (`IndentRemover`, `EmptyLineRemover`, `PrevLineBreakRemover`, `NextLineBreakRemover`) looks at
  the text only through the bytes in front of the seam, read backwards (`ctxL`), and the bytes behind it (`ctxR`);
  its range is `[pos - kl, pos + kr)` with `kl`, `kr` computed from those two lists alone (`formatBlock_rel`).
  And the two numbers depend on the lists only up to the first byte that is not whitespace: two contexts that
  agree on their whitespace and then both stop (or both end) give the same numbers (`relHull_agree`).
-/
namespace Chiritori

/-! ### the scanners, relative to where they start -/

/-- backward indentation scan: the number of bytes stepped over when a line break is reached -/
def indentRel : Bytes → Option Nat
  | [] => none
  | .cont :: rest => (indentRel rest).map (· + 1)
  | .lead c :: rest =>
    if c = ' ' ∨ c = '\t' then (indentRel rest).map (· + 1) else if c = '\n' then some 0 else none

theorem indentScan_rel : ∀ (x : Bytes) (cursor : Nat), indentScan x cursor = (indentRel x).map (fun k => cursor - k)
  | [], _ => rfl
  | .cont :: rest, cursor => by
    simp only [indentScan, indentRel, indentScan_rel rest (cursor - 1), Option.map_map]
    congr 1; funext k; simp only [Function.comp]; omega
  | .lead c :: rest, cursor => by
    simp only [indentScan, indentRel]
    split
    · simp only [indentScan_rel rest (cursor - 1), Option.map_map]
      congr 1; funext k; simp only [Function.comp]; omega
    · split <;> simp

/-- backward line-break scan (pausing): index of the line break found; the last byte of the list is never examined -/
def prevRel : Bytes → Option Nat
  | [] => none
  | [_] => none
  | x :: y :: rest =>
    match lbCheck (some x) with
    | .skip => (prevRel (y :: rest)).map (· + 1)
    | .found => some 0
    | .none => none

theorem prevScan_rel : ∀ (x : Bytes) (cursor : Nat), x.length = cursor + 1 →
    prevScan true x cursor = (prevRel x).map (fun k => cursor - k)
  | [], _, h => by simp at h
  | [_], cursor, h => by
    have : cursor = 0 := by simpa using h
    subst this
    simp [prevScan, prevRel]
  | x :: y :: rest, cursor, h => by
    have hc : cursor ≠ 0 := by simp at h; omega
    rw [prevScan]
    simp only [prevRel, if_neg hc]
    cases hx : lbCheck (some x) with
    | skip =>
      simp only
      rw [prevScan_rel (y :: rest) (cursor - 1) (by simp at h ⊢; omega), Option.map_map]
      congr 1; funext k; simp only [Function.comp]; omega
    | found => simp
    | none => simp

/-- forward line-break scan (pausing): index of the line break found -/
def nextRel : Bytes → Option Nat
  | [] => none
  | x :: rest =>
    match lbCheck (some x) with
    | .skip => (nextRel rest).map (· + 1)
    | .found => some 0
    | .none => none

theorem nextScan_rel : ∀ (x : Bytes) (cur : Nat), nextScan true x cur = (nextRel x).map (fun k => cur + k)
  | [], _ => rfl
  | x :: rest, cur => by
    simp only [nextScan, nextRel]
    cases hx : lbCheck (some x) with
    | skip =>
      simp only
      rw [nextScan_rel rest (cur + 1), Option.map_map]
      congr 1; funext k; simp only [Function.comp]; omega
    | found => simp
    | none => simp

theorem prevRel_lt : ∀ (x : Bytes) (k : Nat), prevRel x = some k → k + 1 < x.length ∧ x[k]? = some NL
  | [], _, h => by simp [prevRel] at h
  | [_], _, h => by simp [prevRel] at h
  | x :: y :: rest, k, h => by
    simp only [prevRel] at h
    cases hx : lbCheck (some x) with
    | skip =>
      rw [hx] at h
      simp only [Option.map_eq_some_iff] at h
      obtain ⟨k', hk', rfl⟩ := h
      obtain ⟨g1, g2⟩ := prevRel_lt (y :: rest) k' hk'
      exact ⟨by simp at g1 ⊢; omega, by simpa using g2⟩
    | found =>
      rw [hx] at h
      simp only [Option.some.injEq] at h
      subst h
      have := (lbCheck_found x).mp hx
      exact ⟨by simp, by simp [this]⟩
    | none => rw [hx] at h; simp at h

theorem nextRel_lt : ∀ (x : Bytes) (k : Nat), nextRel x = some k → k < x.length ∧ x[k]? = some NL
  | [], _, h => by simp [nextRel] at h
  | x :: rest, k, h => by
    simp only [nextRel] at h
    cases hx : lbCheck (some x) with
    | skip =>
      rw [hx] at h
      simp only [Option.map_eq_some_iff] at h
      obtain ⟨k', hk', rfl⟩ := h
      obtain ⟨g1, g2⟩ := nextRel_lt rest k' hk'
      exact ⟨by simp; omega, by simpa using g2⟩
    | found =>
      rw [hx] at h
      simp only [Option.some.injEq] at h
      subst h
      have := (lbCheck_found x).mp hx
      exact ⟨by simp, by simp [this]⟩
    | none => rw [hx] at h; simp at h

/-! ### the finders in terms of the two contexts -/

/-- the bytes in front of `pos`, nearest first -/
def ctxL (b : Bytes) (pos : Nat) : Bytes := (b.take pos).reverse
/-- the bytes from `pos` on -/
def ctxR (b : Bytes) (pos : Nat) : Bytes := b.drop pos

theorem ctxL_length (b : Bytes) (pos : Nat) (h : pos ≤ b.length) : (ctxL b pos).length = pos := by
  simp [ctxL, Nat.min_eq_left h]

theorem ctxL_drop (b : Bytes) (pos k : Nat) (h : pos ≤ b.length) (hk : k ≤ pos) :
    (ctxL b pos).drop k = ctxL b (pos - k) := by
  unfold ctxL
  apply List.ext_getElem?
  intro n
  rw [List.getElem?_drop]
  by_cases hn : k + n < pos
  · rw [rev_take_getElem? b pos (k + n) h hn, rev_take_getElem? b (pos - k) n (by omega) (by omega)]
    congr 1; omega
  · rw [List.getElem?_eq_none (by simp [Nat.min_eq_left h]; omega),
      List.getElem?_eq_none (by simp [Nat.min_eq_left (show pos - k ≤ b.length by omega)]; omega)]

theorem findPrevLB_ctx (b : Bytes) (pos : Nat) (h : pos ≤ b.length) :
    findPrevLB b pos true = (prevRel (ctxL b pos)).map (fun k => pos - 1 - k) := by
  unfold findPrevLB
  by_cases h0 : pos = 0
  · subst h0; simp [ctxL, prevRel]
  · rw [if_neg h0, if_neg (by omega)]
    exact prevScan_rel _ _ (by rw [show (b.take pos).reverse = ctxL b pos from rfl, ctxL_length b pos h]; omega)

theorem findNextLB_ctx (b : Bytes) (pos : Nat) :
    findNextLB b pos true = if pos = 0 then none else (nextRel (ctxR b pos)).map (fun k => pos + k) := by
  unfold findNextLB
  by_cases h0 : pos = 0
  · simp [h0]
  · rw [if_neg h0]
    by_cases hl : pos ≥ b.length
    · rw [if_pos (Or.inl hl)]
      simp [ctxR, List.drop_of_length_le hl, nextRel]
    · rw [if_neg (by omega)]
      exact nextScan_rel _ _

/-! ### the four formatters, relative to the seam -/

/-- two line breaks backwards, with blanks only between and in front: how far behind the seam the range starts -/
def prev2Rel (l : Bytes) : Option Nat :=
  (prevRel l).bind fun k => (prevRel (l.drop (k + 1))).map fun k2 => k + k2 + 1

/-- two line breaks forwards: how far the range reaches -/
def next2Rel (l r : Bytes) : Option Nat :=
  if l = [] then none else (nextRel r).bind fun k => (nextRel (r.drop (k + 1))).map fun k2 => k + 1 + k2

theorem prev2_ctx (b : Bytes) (pos : Nat) (h : pos ≤ b.length) :
    ((findPrevLB b pos true).bind fun p => findPrevLB b p true) = (prev2Rel (ctxL b pos)).map (fun kk => pos - 1 - kk) := by
  rw [findPrevLB_ctx b pos h]
  unfold prev2Rel
  cases hk : prevRel (ctxL b pos) with
  | none => rfl
  | some k =>
    obtain ⟨g1, _⟩ := prevRel_lt _ k hk
    rw [ctxL_length b pos h] at g1
    simp only [Option.map_some, Option.bind_some]
    rw [findPrevLB_ctx b (pos - 1 - k) (by omega), ctxL_drop b pos (k + 1) h (by omega),
      show pos - (k + 1) = pos - 1 - k by omega, Option.map_map]
    cases hk2 : prevRel (ctxL b (pos - 1 - k)) with
    | none => rfl
    | some k2 =>
      obtain ⟨g2, _⟩ := prevRel_lt _ k2 hk2
      rw [ctxL_length b _ (by omega)] at g2
      simp only [Option.map_some, Function.comp]
      congr 1; omega

theorem next2_ctx (b : Bytes) (pos : Nat) (h : pos ≤ b.length) :
    ((findNextLB b pos true).bind fun p => findNextLB b (p + 1) true) =
      (next2Rel (ctxL b pos) (ctxR b pos)).map (fun kk => pos + kk) := by
  rw [findNextLB_ctx b pos]
  unfold next2Rel
  by_cases h0 : pos = 0
  · subst h0; simp [ctxL]
  · have hl : ctxL b pos ≠ [] := by
      intro hh
      have := ctxL_length b pos h
      rw [hh] at this; simp at this; omega
    rw [if_neg h0, if_neg hl]
    cases hk : nextRel (ctxR b pos) with
    | none => rfl
    | some k =>
      simp only [Option.map_some, Option.bind_some]
      rw [findNextLB_ctx b (pos + k + 1), if_neg (by omega), Option.map_map]
      have : ctxR b (pos + k + 1) = (ctxR b pos).drop (k + 1) := by
        simp only [ctxR, List.drop_drop, Nat.add_assoc]
      rw [this]
      cases hk2 : nextRel ((ctxR b pos).drop (k + 1)) with
      | none => rfl
      | some k2 =>
        simp only [Option.map_some, Function.comp]
        congr 1; omega

/-- the head of the right context decides whether a formatter fires at all -/
theorem ctxR_head (b : Bytes) (pos : Nat) : (ctxR b pos).head? = b[pos]? := by
  simp [ctxR, List.head?_drop]

def relIndent (l r : Bytes) : Nat :=
  if r.head? = some NL then (indentRel l).getD 0 else 0

def relPrev (l : Bytes) : Nat := (prev2Rel l).getD 0

def relNext (l r : Bytes) : Nat := (next2Rel l r).getD 0

/-- `EmptyLineRemover`: one byte (the line break at the seam), or nothing; an error if the seam is not a boundary -/
def relEmpty (l r : Bytes) : R Nat :=
  match r.head? with
  | some .cont => .error .explicit
  | some (.lead c) =>
    if c = '\n' then
      (if (next2Rel l r).isNone ∧ (prev2Rel l).isNone then .ok 1 else .ok 0)
    else .ok 0
  | none => .ok 0

/-- the hull of the four ranges, relative to the seam: bytes in front, bytes behind -/
def relHull (l r : Bytes) : R (Nat × Nat) :=
  match relEmpty l r with
  | .error e => .error e
  | .ok ke => .ok (max (relIndent l r) (relPrev l), max ke (relNext l r))

theorem indentRel_le : ∀ (x : Bytes) (k : Nat), indentRel x = some k → k < x.length
  | [], _, h => by simp [indentRel] at h
  | .cont :: rest, k, h => by
    simp only [indentRel, Option.map_eq_some_iff] at h
    obtain ⟨k', hk', rfl⟩ := h
    have := indentRel_le rest k' hk'
    simp; omega
  | .lead c :: rest, k, h => by
    simp only [indentRel] at h
    split at h
    · simp only [Option.map_eq_some_iff] at h
      obtain ⟨k', hk', rfl⟩ := h
      have := indentRel_le rest k' hk'
      simp; omega
    · split at h
      · simp only [Option.some.injEq] at h; subst h; simp
      · simp at h

theorem fmtIndent_rel (b : Bytes) (pos : Nat) (h : pos ≤ b.length) :
    fmtIndent b pos = .ok (pos - relIndent (ctxL b pos) (ctxR b pos), pos) := by
  unfold fmtIndent relIndent
  rw [ctxR_head]
  by_cases hnl : b[pos]? = some NL
  · have hlt : pos < b.length := lt_of_getElem?_some _ _ _ hnl
    have hb : isBoundary b pos = true := by simp [isBoundary, hnl]
    have hby : byteIs b pos '\n' = true := by simp [byteIs, hnl]
    rw [if_neg (by simp [hb, hby]; omega), if_pos hnl]
    rw [show (b.take pos).reverse = ctxL b pos from rfl, indentScan_rel]
    cases hk : indentRel (ctxL b pos) with
    | none => simp
    | some k => simp
  · rw [if_neg hnl]
    have : (pos ≥ b.length ∨ (!isBoundary b pos) = true ∨ (!byteIs b pos '\n') = true) := by
      by_cases hlt : pos < b.length
      · right; right
        simp only [byteIs, Bool.not_eq_true']
        cases hx : b[pos]? with
        | none => rfl
        | some x =>
          cases x with
          | cont => rfl
          | lead d =>
            simp only [beq_eq_false_iff_ne, ne_eq]
            intro hd; subst hd
            exact hnl hx
      · left; omega
    rw [if_pos this]
    simp

theorem fmtPrev_rel (b : Bytes) (pos : Nat) (h : pos ≤ b.length) :
    fmtPrev b pos = .ok (pos - relPrev (ctxL b pos), pos) := by
  unfold fmtPrev relPrev
  rw [prev2_ctx b pos h]
  cases hk : prev2Rel (ctxL b pos) with
  | none => simp
  | some kk =>
    simp only [Option.map_some, Option.getD_some]
    -- kk + 1 < pos: the second line break lies at index ≥ 1
    have hb : kk + 1 < pos := by
      unfold prev2Rel at hk
      cases h1 : prevRel (ctxL b pos) with
      | none => rw [h1] at hk; simp at hk
      | some k =>
        rw [h1] at hk
        simp only [Option.bind_some, Option.map_eq_some_iff] at hk
        obtain ⟨k2, hk2, rfl⟩ := hk
        obtain ⟨g1, _⟩ := prevRel_lt _ k h1
        obtain ⟨g2, _⟩ := prevRel_lt _ k2 hk2
        rw [ctxL_length b pos h] at g1
        simp only [List.length_drop, ctxL_length b pos h] at g2
        omega
    congr 2; omega

theorem fmtNext_rel (b : Bytes) (pos : Nat) (h : pos ≤ b.length) :
    fmtNext b pos = .ok (pos, pos + relNext (ctxL b pos) (ctxR b pos)) := by
  unfold fmtNext relNext
  rw [next2_ctx b pos h]
  cases hk : next2Rel (ctxL b pos) (ctxR b pos) with
  | none => simp
  | some kk => simp

theorem fmtEmpty_rel (b : Bytes) (pos : Nat) (h : pos ≤ b.length) :
    fmtEmpty b pos = (relEmpty (ctxL b pos) (ctxR b pos)).map (fun ke => (pos, pos + ke)) := by
  unfold fmtEmpty relEmpty
  rw [ctxR_head, next2_ctx b pos h, prev2_ctx b pos h]
  cases hx : b[pos]? with
  | none =>
    have hlen : pos = b.length := by
      have := List.getElem?_eq_none_iff.mp hx; omega
    have hb : isBoundary b pos = true := by simp [isBoundary, hlen]
    have hby : byteIs b pos '\n' = false := by simp [byteIs, hx]
    simp [hb, hby, Except.map]
  | some x =>
    cases x with
    | cont =>
      have hlt : pos < b.length := lt_of_getElem?_some _ _ _ hx
      have hb : isBoundary b pos = false := by
        simp only [isBoundary, hx, Bool.or_false, beq_eq_false_iff_ne]; omega
      simp [hb, Except.map]
    | lead c =>
      have hb : isBoundary b pos = true := by simp [isBoundary, hx]
      by_cases hc : c = '\n'
      · subst hc
        have hby : byteIs b pos '\n' = true := by simp [byteIs, hx]
        simp only [hb, hby, Bool.not_true, Bool.false_eq_true, ite_false, ite_true, Option.isNone_map]
        split <;> simp [Except.map]
      · have hby : byteIs b pos '\n' = false := by simp [byteIs, hx, hc]
        simp [hb, hby, hc, Except.map]

/-- every seam formatter, and their hull, is a function of the two contexts -/
theorem formatBlock_rel (b : Bytes) (pos : Nat) (h : pos ≤ b.length) :
    formatBlock b pos seamFormatters (pos, pos) =
      (relHull (ctxL b pos) (ctxR b pos)).map (fun k => (pos - k.1, pos + k.2)) := by
  unfold seamFormatters relHull
  simp only [formatBlock, fmtIndent_rel b pos h, fmtEmpty_rel b pos h, fmtPrev_rel b pos h, fmtNext_rel b pos h]
  cases he : relEmpty (ctxL b pos) (ctxR b pos) with
  | error e => simp [Except.map]
  | ok ke =>
    simp only [Except.map]
    congr 2 <;> omega

/-! ### only the whitespace next to the seam matters -/

/-- a byte at which every pausing scan gives up -/
def isStopB (x : ABy) : Prop := ∃ c, x = .lead c ∧ c ≠ ' ' ∧ c ≠ '\t' ∧ c ≠ '\n'

def isWsB (x : ABy) : Prop := x = .lead ' ' ∨ x = .lead '\t' ∨ x = NL

/-- left contexts that agree on their whitespace and then both end, or both reach a character that is not
    whitespace (possibly over its continuation bytes) -/
def AgreeL (x y : Bytes) : Prop :=
  ∃ w tx ty, x = w ++ tx ∧ y = w ++ ty ∧ (∀ z ∈ w, isWsB z) ∧
    ((tx = [] ∧ ty = []) ∨
     ((∃ cs s rest, tx = cs ++ s :: rest ∧ (∀ z ∈ cs, z = .cont) ∧ isStopB s) ∧
      (∃ cs s rest, ty = cs ++ s :: rest ∧ (∀ z ∈ cs, z = .cont) ∧ isStopB s)))

/-- right contexts: the same, the stopping character standing directly behind the whitespace -/
def AgreeR (x y : Bytes) : Prop :=
  ∃ w tx ty, x = w ++ tx ∧ y = w ++ ty ∧ (∀ z ∈ w, isWsB z) ∧
    ((tx = [] ∧ ty = []) ∨ ((∃ s rest, tx = s :: rest ∧ isStopB s) ∧ (∃ s rest, ty = s :: rest ∧ isStopB s)))

theorem lbCheck_stop (s : ABy) (h : isStopB s) : lbCheck (some s) = .none := by
  obtain ⟨c, rfl, h1, h2, h3⟩ := h
  simp [lbCheck, h1, h2, h3]

theorem lbCheck_cont : lbCheck (some .cont) = .skip := rfl

/-- a tail that stops: the scans find nothing in it -/
theorem indentRel_stopped : ∀ (cs : Bytes) (s : ABy) (rest : Bytes), (∀ z ∈ cs, z = .cont) → isStopB s →
    indentRel (cs ++ s :: rest) = none
  | [], s, rest, _, hs => by
    obtain ⟨c, rfl, h1, h2, h3⟩ := hs
    simp [indentRel, h1, h2, h3]
  | z :: cs, s, rest, hc, hs => by
    have : z = .cont := hc z (by simp)
    subst this
    simp [indentRel, indentRel_stopped cs s rest (fun z hz => hc z (by simp [hz])) hs]

theorem prevRel_stopped : ∀ (cs : Bytes) (s : ABy) (rest : Bytes), (∀ z ∈ cs, z = .cont) → isStopB s →
    prevRel (cs ++ s :: rest) = none
  | [], s, [], _, _ => rfl
  | [], s, y :: rest, _, hs => by simp [prevRel, lbCheck_stop s hs]
  | z :: cs, s, rest, hc, hs => by
    have : z = .cont := hc z (by simp)
    subst this
    have ih := prevRel_stopped cs s rest (fun z hz => hc z (by simp [hz])) hs
    cases hl : cs ++ s :: rest with
    | nil => simp at hl
    | cons y ys =>
      simp only [List.cons_append, hl, prevRel, lbCheck_cont]
      rw [← hl, ih]; rfl

theorem nextRel_stopped (s : ABy) (rest : Bytes) (hs : isStopB s) : nextRel (s :: rest) = none := by
  simp [nextRel, lbCheck_stop s hs]

theorem lbCheck_ws (z : ABy) (h : isWsB z) : lbCheck (some z) = .skip ∨ (lbCheck (some z) = .found ∧ z = NL) := by
  rcases h with rfl | rfl | rfl
  · left; simp [lbCheck]
  · left; simp [lbCheck]
  · right; exact ⟨by simp [lbCheck], rfl⟩

theorem indentRel_agree : ∀ (w tx ty : Bytes), (∀ z ∈ w, isWsB z) → indentRel tx = indentRel ty →
    indentRel (w ++ tx) = indentRel (w ++ ty)
  | [], _, _, _, h => h
  | z :: w, tx, ty, hw, h => by
    have ih := indentRel_agree w tx ty (fun z hz => hw z (by simp [hz])) h
    rcases hw z (by simp) with rfl | rfl | rfl <;> simp [indentRel, ih]

theorem indentRel_agreeL (x y : Bytes) (h : AgreeL x y) : indentRel x = indentRel y := by
  obtain ⟨w, tx, ty, rfl, rfl, hw, ht⟩ := h
  apply indentRel_agree w tx ty hw
  rcases ht with ⟨rfl, rfl⟩ | ⟨⟨cs, s, rest, rfl, h1, h2⟩, ⟨cs', s', rest', rfl, h1', h2'⟩⟩
  · rfl
  · rw [indentRel_stopped cs s rest h1 h2, indentRel_stopped cs' s' rest' h1' h2']

/-- the pausing backward scan over whitespace followed by a tail: what it finds lies in the whitespace -/
theorem prevRel_ws : ∀ (w t t' : Bytes), (∀ z ∈ w, isWsB z) → t ≠ [] → t' ≠ [] → prevRel t = none → prevRel t' = none →
    prevRel (w ++ t) = prevRel (w ++ t') ∧ ∀ k, prevRel (w ++ t) = some k → k < w.length
  | [], t, t', _, _, _, h1, h2 => by simp [h1, h2]
  | z :: w, t, t', hw, ht, ht', h1, h2 => by
    obtain ⟨ih1, ih2⟩ := prevRel_ws w t t' (fun z hz => hw z (by simp [hz])) ht ht' h1 h2
    have hne : w ++ t ≠ [] := by simp [ht]
    have hne' : w ++ t' ≠ [] := by simp [ht']
    cases hl : w ++ t with
    | nil => exact absurd hl hne
    | cons a as =>
      cases hl' : w ++ t' with
      | nil => exact absurd hl' hne'
      | cons a' as' =>
        simp only [List.cons_append, hl, hl', prevRel]
        rcases lbCheck_ws z (hw z (by simp)) with hz | ⟨hz, _⟩
        · simp only [hz]
          rw [← hl, ← hl', ih1]
          refine ⟨rfl, ?_⟩
          intro k hk
          simp only [Option.map_eq_some_iff] at hk
          obtain ⟨k', hk', rfl⟩ := hk
          rw [← ih1] at hk'
          have := ih2 k' hk'
          simp; omega
        · simp only [hz]
          exact ⟨trivial, by intro k hk; injection hk with hk; subst hk; simp⟩

theorem prevRel_agreeL (x y : Bytes) (h : AgreeL x y) :
    prevRel x = prevRel y ∧ ∀ k, prevRel x = some k → AgreeL (x.drop (k + 1)) (y.drop (k + 1)) := by
  obtain ⟨w, tx, ty, rfl, rfl, hw, ht⟩ := h
  rcases ht with ⟨rfl, rfl⟩ | ⟨⟨cs, s, rest, rfl, h1, h2⟩, ⟨cs', s', rest', rfl, h1', h2'⟩⟩
  · refine ⟨rfl, ?_⟩
    intro k hk
    obtain ⟨g1, _⟩ := prevRel_lt _ k hk
    simp only [List.append_nil] at g1 ⊢
    exact ⟨w.drop (k + 1), [], [], by simp, by simp, fun z hz => hw z (List.mem_of_mem_drop hz), Or.inl ⟨rfl, rfl⟩⟩
  · obtain ⟨e1, e2⟩ := prevRel_ws w (cs ++ s :: rest) (cs' ++ s' :: rest') hw (by simp) (by simp)
      (prevRel_stopped cs s rest h1 h2) (prevRel_stopped cs' s' rest' h1' h2')
    refine ⟨e1, ?_⟩
    intro k hk
    have hkw := e2 k hk
    refine ⟨w.drop (k + 1), cs ++ s :: rest, cs' ++ s' :: rest', ?_, ?_, fun z hz => hw z (List.mem_of_mem_drop hz),
      Or.inr ⟨⟨cs, s, rest, rfl, h1, h2⟩, ⟨cs', s', rest', rfl, h1', h2'⟩⟩⟩
    · rw [List.drop_append_of_le_length (by omega)]
    · rw [List.drop_append_of_le_length (by omega)]

theorem prev2Rel_agreeL (x y : Bytes) (h : AgreeL x y) : prev2Rel x = prev2Rel y := by
  unfold prev2Rel
  obtain ⟨e1, e2⟩ := prevRel_agreeL x y h
  rw [← e1]
  cases hk : prevRel x with
  | none => rfl
  | some k =>
    simp only [Option.bind_some]
    rw [(prevRel_agreeL _ _ (e2 k hk)).1]

theorem nextRel_ws : ∀ (w t t' : Bytes), (∀ z ∈ w, isWsB z) → nextRel t = none → nextRel t' = none →
    nextRel (w ++ t) = nextRel (w ++ t') ∧ ∀ k, nextRel (w ++ t) = some k → k < w.length
  | [], t, t', _, h1, h2 => by simp [h1, h2]
  | z :: w, t, t', hw, h1, h2 => by
    obtain ⟨ih1, ih2⟩ := nextRel_ws w t t' (fun z hz => hw z (by simp [hz])) h1 h2
    simp only [List.cons_append, nextRel]
    rcases lbCheck_ws z (hw z (by simp)) with hz | ⟨hz, _⟩
    · simp only [hz, ih1]
      refine ⟨trivial, ?_⟩
      intro k hk
      simp only [Option.map_eq_some_iff] at hk
      obtain ⟨k', hk', rfl⟩ := hk
      rw [← ih1] at hk'
      have := ih2 k' hk'
      simp; omega
    · simp only [hz]
      exact ⟨trivial, by intro k hk; injection hk with hk; subst hk; simp⟩

theorem nextRel_agreeR (x y : Bytes) (h : AgreeR x y) :
    nextRel x = nextRel y ∧ ∀ k, nextRel x = some k → AgreeR (x.drop (k + 1)) (y.drop (k + 1)) := by
  obtain ⟨w, tx, ty, rfl, rfl, hw, ht⟩ := h
  have key : nextRel tx = none ∧ nextRel ty = none := by
    rcases ht with ⟨rfl, rfl⟩ | ⟨⟨s, rest, rfl, h2⟩, ⟨s', rest', rfl, h2'⟩⟩
    · exact ⟨rfl, rfl⟩
    · exact ⟨nextRel_stopped s rest h2, nextRel_stopped s' rest' h2'⟩
  obtain ⟨e1, e2⟩ := nextRel_ws w tx ty hw key.1 key.2
  refine ⟨e1, ?_⟩
  intro k hk
  have hkw := e2 k hk
  refine ⟨w.drop (k + 1), tx, ty, ?_, ?_, fun z hz => hw z (List.mem_of_mem_drop hz), ht⟩
  · rw [List.drop_append_of_le_length (by omega)]
  · rw [List.drop_append_of_le_length (by omega)]

theorem agreeL_nil (x y : Bytes) (h : AgreeL x y) : x = [] ↔ y = [] := by
  obtain ⟨w, tx, ty, rfl, rfl, _, ht⟩ := h
  rcases ht with ⟨rfl, rfl⟩ | ⟨⟨cs, s, rest, rfl, _, _⟩, ⟨cs', s', rest', rfl, _, _⟩⟩
  · simp
  · simp

theorem next2Rel_agree (l l' r r' : Bytes) (hl : AgreeL l l') (hr : AgreeR r r') : next2Rel l r = next2Rel l' r' := by
  unfold next2Rel
  have hnil := agreeL_nil l l' hl
  by_cases h0 : l = []
  · rw [if_pos h0, if_pos (hnil.mp h0)]
  · rw [if_neg h0, if_neg (fun h => h0 (hnil.mpr h))]
    obtain ⟨e1, e2⟩ := nextRel_agreeR r r' hr
    rw [← e1]
    cases hk : nextRel r with
    | none => rfl
    | some k =>
      simp only [Option.bind_some]
      rw [(nextRel_agreeR _ _ (e2 k hk)).1]

/-- the heads of agreeing right contexts are both a line break, or neither is, and neither is a continuation byte -/
theorem agreeR_head (r r' : Bytes) (h : AgreeR r r') :
    (r.head? = some NL ↔ r'.head? = some NL) ∧ (r.head? = none ↔ r'.head? = none) ∧
    r.head? ≠ some .cont ∧ r'.head? ≠ some .cont := by
  obtain ⟨w, tx, ty, rfl, rfl, hw, ht⟩ := h
  cases w with
  | cons z w =>
    have hz := hw z (by simp)
    refine ⟨by simp, by simp, ?_, ?_⟩ <;>
      (simp only [List.cons_append, List.head?_cons, ne_eq, Option.some.injEq]
       rcases hz with rfl | rfl | rfl <;> decide)
  | nil =>
    rcases ht with ⟨rfl, rfl⟩ | ⟨⟨s, rest, rfl, h2⟩, ⟨s', rest', rfl, h2'⟩⟩
    · simp
    · obtain ⟨c, rfl, _, _, hc⟩ := h2
      obtain ⟨c', rfl, _, _, hc'⟩ := h2'
      refine ⟨?_, by simp, by simp, by simp⟩
      simp only [List.nil_append, List.head?_cons, Option.some.injEq]
      constructor
      · intro hh; injection hh with hh; exact absurd hh hc
      · intro hh; injection hh with hh; exact absurd hh hc'

/-- the range at a seam depends on the text only through the whitespace next to the seam -/
theorem relHull_agree (l l' r r' : Bytes) (hl : AgreeL l l') (hr : AgreeR r r') : relHull l r = relHull l' r' := by
  obtain ⟨hnl, hnone, hc, hc'⟩ := agreeR_head r r' hr
  have e1 : relIndent l r = relIndent l' r' := by
    unfold relIndent
    by_cases h : r.head? = some NL
    · rw [if_pos h, if_pos (hnl.mp h), indentRel_agreeL l l' hl]
    · rw [if_neg h, if_neg (fun hh => h (hnl.mpr hh))]
  have e2 : relPrev l = relPrev l' := by unfold relPrev; rw [prev2Rel_agreeL l l' hl]
  have e3 : relNext l r = relNext l' r' := by unfold relNext; rw [next2Rel_agree l l' r r' hl hr]
  have e4 : relEmpty l r = relEmpty l' r' := by
    unfold relEmpty
    rw [next2Rel_agree l l' r r' hl hr, prev2Rel_agreeL l l' hl]
    cases hh : r.head? with
    | none =>
      rw [hnone.mp hh]
    | some x =>
      cases x with
      | cont => exact absurd hh hc
      | lead c =>
        cases hh' : r'.head? with
        | none => rw [hnone.mpr hh'] at hh; cases hh
        | some x' =>
          cases x' with
          | cont => exact absurd hh' hc'
          | lead c' =>
            by_cases hcn : c = '\n'
            · subst hcn
              have := hnl.mp hh
              rw [hh'] at this
              injection this with this
              injection this with this
              subst this
              rfl
            · have hcn' : c' ≠ '\n' := by
                intro h; subst h
                have := hnl.mpr hh'
                rw [hh] at this
                injection this with this
                injection this with this
                exact hcn this
              simp [hcn, hcn']
  unfold relHull
  rw [e1, e2, e3, e4]

end Chiritori
