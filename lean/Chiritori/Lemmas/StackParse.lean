import Chiritori.Lemmas.Parser
/-
  The recursive descent of parser.rs computes what the left-to-right stack machine computes.
-/
namespace Chiritori
open Spec

def frameNames (s : List Frame) : List (List Char) := s.map (·.el.name)

theorem any_frames (s : List Frame) (parents : List (List Char)) (x : List Char)
    (h : frameNames s = parents.reverse) :
    s.any (fun f => f.el.name == x) = parents.any (· == x) := by
  have : s.any (fun f => f.el.name == x) = (frameNames s).any (· == x) := by
    simp [frameNames, List.any_map, Function.comp_def]
  rw [this, h, List.any_reverse]

theorem frameNames_appendTo (s : List Frame) (root ps : List Part) :
    frameNames (appendTo s root ps).1 = frameNames s := by
  cases s <;> simp [appendTo, frameNames]

/-- Lemma A -/
theorem finishStack_appendTo (s : List Frame) (root ps h : List Part) :
    finishStack (appendTo s root ps).1 h (appendTo s root ps).2 = finishStack s (ps ++ h) root := by
  cases s with
  | nil => simp [appendTo, finishStack]
  | cons f fs => simp [appendTo, finishStack]

/-- Lemma B -/
theorem closeFrame_appendTo (name : List Char) (c : Token) (s : List Frame) (root ps h : List Part) :
    closeFrame name c (appendTo s root ps).1 (appendTo s root ps).2 h = closeFrame name c s root (ps ++ h) := by
  cases s with
  | nil => simp [appendTo, closeFrame]
  | cons f fs => simp [appendTo, closeFrame]

theorem closeFrame_isSome (name : List Char) (c : Token) (s : List Frame) (root h : List Part)
    (hany : s.any (fun f => f.el.name == name) = true) : ∃ r, closeFrame name c s root h = some r := by
  induction s generalizing h with
  | nil => simp at hany
  | cons f fs ih =>
    simp only [closeFrame]
    by_cases hf : f.el.name = name
    · simp [hf]
    · simp only [hf, ite_false]
      apply ih
      simpa [hf] using hany

def finishState (st : List Frame × List Part) : List Part := finishStack st.1 [] st.2

def closerName : Option (Token × Element) → List Char
  | some (_, el) => trimSlashes el.name
  | none => []

theorem tree_nil (ds de : List Char) (fuel : Nat) (parents : List (List Char)) :
    tree ds de fuel [] parents = ⟨[], [], none⟩ := by
  cases fuel <;> rfl

/-- the simulation: (N) when no closer is returned, (C) when one is -/
theorem tree_simulates (ds de : List Char) (fuel : Nat) (toks : List Token) (parents : List (List Char))
    (hf : toks.length < fuel) (s : List Frame) (root : List Part) (hn : frameNames s = parents.reverse) :
    let r := tree ds de fuel toks parents
    (r.closer = none → finishState (toks.foldl (stackStep ds de) (s, root)) = finishStack s r.parts root) ∧
    (∀ tc elc, r.closer = some (tc, elc) →
      ∃ st', closeFrame (trimSlashes elc.name) tc s root r.parts = some st' ∧
        (flattenParts r.parts ++ [tc]).foldl (stackStep ds de) (s, root) = st') := by
  induction fuel generalizing toks parents s root with
  | zero => omega
  | succ fuel ih =>
    cases toks with
    | nil => simp [tree, finishState]
    | cons t rest =>
      have hr : rest.length < fuel := by simp at hf; omega
      simp only [tree]
      cases hel : elparse ds de t with
      | none =>
        simp only
        have hstep : stackStep ds de (s, root) t = appendTo s root [.text t] := by
          simp [stackStep, hel]
        obtain ⟨ihN, ihC⟩ := ih rest parents hr (appendTo s root [.text t]).1 (appendTo s root [.text t]).2
          (by rw [frameNames_appendTo]; exact hn)
        constructor
        · intro hc
          simp only [List.foldl_cons, hstep]
          rw [ihN hc, finishStack_appendTo]
          simp
        · intro tc elc hc
          obtain ⟨st', h1, h2⟩ := ihC tc elc hc
          refine ⟨st', ?_, ?_⟩
          · rw [closeFrame_appendTo] at h1
            simpa using h1
          · simp only [flattenParts, flattenPart, List.cons_append, List.nil_append, List.foldl_cons, hstep]
            exact h2
      | some el =>
        simp only
        split
        · -- Closed
          rename_i hcl
          have hany : s.any (fun f => f.el.name == trimSlashes el.name) = true := by
            rw [any_frames s parents _ hn]; exact hcl.2
          constructor
          · intro hc; simp at hc
          · intro tc elc hc
            simp at hc
            obtain ⟨h1, h2⟩ := hc
            subst h1; subst h2
            obtain ⟨st', hst⟩ := closeFrame_isSome (trimSlashes el.name) t s root [] hany
            refine ⟨st', hst, ?_⟩
            simp [flattenParts, stackStep, hel, hcl.1, hany, hst]
        · -- opener
          rename_i hncl
          have hany : ¬ (el.name.head? = some '/' ∧ s.any (fun f => f.el.name == trimSlashes el.name) = true) := by
            rw [any_frames s parents _ hn]; exact hncl
          have hstep : stackStep ds de (s, root) t = (⟨t, el, []⟩ :: s, root) := by
            simp only [stackStep, hel]
            rw [if_neg hany]
          have hn' : frameNames (⟨t, el, []⟩ :: s) = (parents ++ [el.name]).reverse := by
            simp [frameNames] at hn ⊢; exact hn
          obtain ⟨iN, iC⟩ := ih rest (parents ++ [el.name]) hr (⟨t, el, []⟩ :: s) root hn'
          obtain ⟨fl1, fl2, fl3⟩ := tree_flatten ds de fuel rest (parents ++ [el.name]) hr
          generalize hI : tree ds de fuel rest (parents ++ [el.name]) = inner at iN iC fl1 fl2 fl3 ⊢
          cases hc : inner.closer with
          | none =>
            simp only
            have hrest := fl3 hc
            rw [hrest, tree_nil]
            simp only [List.append_nil]
            constructor
            · intro _
              simp only [List.foldl_cons, hstep]
              rw [iN hc]
              simp [finishStack]
            · intro tc elc h; simp at h
          | some ce =>
            obtain ⟨et, eel⟩ := ce
            simp only
            obtain ⟨st', hcf, hfold⟩ := iC et eel hc
            rw [hc] at fl1
            simp only [closerTok] at fl1
            have hfoldall : ∀ (more : List Token),
                (t :: (flattenParts inner.parts ++ [et] ++ more)).foldl (stackStep ds de) (s, root)
                  = more.foldl (stackStep ds de) st' := by
              intro more
              rw [List.foldl_cons, hstep, List.foldl_append, hfold]
            split
            · -- the element is closed by its own closer
              rename_i hname
              have hst' : st' = appendTo s root [.element el t et inner.parts] := by
                rw [closeFrame] at hcf
                rw [if_pos (show (⟨t, el, []⟩ : Frame).el.name = trimSlashes eel.name from hname)] at hcf
                injection hcf with hcf
                rw [← hcf]; simp
              obtain ⟨r2N, r2C⟩ := ih inner.rest parents (by omega)
                st'.1 st'.2 (by rw [hst', frameNames_appendTo]; exact hn)
              generalize hR2 : tree ds de fuel inner.rest parents = r2 at r2N r2C ⊢
              have erest : t :: rest = t :: (flattenParts inner.parts ++ [et] ++ inner.rest) := by rw [fl1]
              constructor
              · intro hc2
                rw [erest, hfoldall, r2N hc2, hst', finishStack_appendTo]
                simp
              · intro tc elc hc2
                obtain ⟨st'', g1, g2⟩ := r2C tc elc hc2
                refine ⟨st'', ?_, ?_⟩
                · rw [hst', closeFrame_appendTo] at g1
                  simpa using g1
                · have e : flattenParts (.element el t et inner.parts :: r2.parts) ++ [tc]
                      = t :: (flattenParts inner.parts ++ [et] ++ (flattenParts r2.parts ++ [tc])) := by
                    simp [flattenParts, flattenPart]
                  rw [e, hfoldall, g2]
            · -- hoisted
              rename_i hname
              constructor
              · intro h; simp at h
              · intro tc elc h
                simp at h
                obtain ⟨h1, h2⟩ := h
                subst h1; subst h2
                refine ⟨st', ?_, ?_⟩
                · rw [closeFrame] at hcf
                  rw [if_neg (show ¬ (⟨t, el, []⟩ : Frame).el.name = trimSlashes eel.name from hname)] at hcf
                  simpa using hcf
                · simp only [flattenParts, flattenPart, List.cons_append, List.nil_append, List.foldl_cons, hstep]
                  exact hfold

/-- C10: the recursive descent equals the stack machine, for every token list. -/
theorem parse_eq_stackParse (ds de : List Char) (toks : List Token) : parse ds de toks = stackParse ds de toks := by
  obtain ⟨hN, _⟩ := tree_simulates ds de (toks.length + 1) toks [] (by omega) [] [] (by simp [frameNames])
  unfold parse stackParse
  cases hc : (tree ds de (toks.length + 1) toks []).closer with
  | none =>
    have := hN hc
    simp only [finishState, finishStack, List.nil_append] at this
    rw [← this]
  | some ce =>
    obtain ⟨et, eel⟩ := ce
    have := tree_top_no_closer_aux ds de (toks.length + 1) toks [] et eel hc
    simp at this

end Chiritori
