import Chiritori.Lemmas.Pieces
import Chiritori.Lemmas.Totality
/-
  Counting kept bytes: `koffTo n` is the offset, in the text after removal, of source position `n`.
  The positions `get_removed_pos` computes are such offsets; and every byte of the text after removal comes from
  a source position whose offset it is.
-/
namespace Chiritori
open Spec

def koffTo (ext : List Rng) (b : Bytes) (n : Nat) : Nat := koff ext (b.zipIdx.take n)

theorem koff_append (ext : List Rng) (a c : List (ABy × Nat)) : koff ext (a ++ c) = koff ext a + koff ext c := by
  simp [koff]

theorem koff_le (ext : List Rng) (a : List (ABy × Nat)) : koff ext a ≤ a.length := by
  unfold koff; exact List.length_filter_le _ _

theorem mem_slice_zipIdx (b : Bytes) (n k : Nat) (e : ABy × Nat) (h : e ∈ (b.zipIdx.drop n).take k) :
    n ≤ e.2 ∧ e.2 < n + k ∧ b[e.2]? = some e.1 := by
  obtain ⟨t, ht⟩ := List.mem_iff_getElem?.mp h
  rw [List.getElem?_take] at ht
  split at ht
  · rename_i htk
    rw [List.getElem?_drop, List.getElem?_zipIdx] at ht
    cases hb : b[n + t]? with
    | none => rw [hb] at ht; simp at ht
    | some y =>
      rw [hb] at ht
      simp only [Option.map_some, Option.some.injEq] at ht
      subst ht
      simp only [Nat.zero_add]
      exact ⟨by omega, by omega, hb⟩
  · simp at ht

theorem koff_all_out (ext : List Rng) (l : List (ABy × Nat)) (h : ∀ e ∈ l, inAny ext e.2 = false) :
    koff ext l = l.length := by
  unfold koff
  rw [List.filter_eq_self.mpr]
  intro e he
  simp [h e he]

theorem koff_all_in (ext : List Rng) (l : List (ABy × Nat)) (h : ∀ e ∈ l, inAny ext e.2 = true) :
    koff ext l = 0 := by
  unfold koff
  rw [List.filter_eq_nil_iff.mpr]
  · rfl
  · intro e he
    simp [h e he]

theorem koffTo_add (ext : List Rng) (b : Bytes) (n k : Nat) :
    koffTo ext b (n + k) = koffTo ext b n + koff ext ((b.zipIdx.drop n).take k) := by
  unfold koffTo
  rw [List.take_add, koff_append]

theorem koffTo_keep (ext : List Rng) (b : Bytes) (n k : Nat) (hl : n + k ≤ b.length)
    (h : ∀ i, n ≤ i → i < n + k → inAny ext i = false) : koffTo ext b (n + k) = koffTo ext b n + k := by
  rw [koffTo_add, koff_all_out]
  · simp; omega
  · intro e he
    obtain ⟨h1, h2, _⟩ := mem_slice_zipIdx b n k e he
    exact h e.2 h1 h2

theorem koffTo_drop (ext : List Rng) (b : Bytes) (n k : Nat)
    (h : ∀ i, n ≤ i → i < n + k → inAny ext i = true) : koffTo ext b (n + k) = koffTo ext b n := by
  rw [koffTo_add, koff_all_in]
  · rfl
  · intro e he
    obtain ⟨h1, h2, _⟩ := mem_slice_zipIdx b n k e he
    exact h e.2 h1 h2

theorem koffTo_mono (ext : List Rng) (b : Bytes) (n n' : Nat) (h : n ≤ n') : koffTo ext b n ≤ koffTo ext b n' := by
  obtain ⟨k, rfl⟩ : ∃ k, n' = n + k := ⟨n' - n, by omega⟩
  rw [koffTo_add]; omega

theorem koffTo_le (ext : List Rng) (b : Bytes) (n : Nat) : koffTo ext b n ≤ n := by
  unfold koffTo
  have := koff_le ext (b.zipIdx.take n)
  simp at this
  omega

/-- a kept position counts -/
theorem koffTo_succ_of_kept (ext : List Rng) (b : Bytes) (n : Nat) (hn : n < b.length) (h : inAny ext n = false) :
    koffTo ext b (n + 1) = koffTo ext b n + 1 :=
  koffTo_keep ext b n 1 (by omega) (fun i h1 h2 => by
    have : i = n := by omega
    subst this; exact h)

theorem koffTo_strict (ext : List Rng) (b : Bytes) (n n' : Nat) (hn : n < b.length) (h : inAny ext n = false)
    (hlt : n < n') : koffTo ext b n + 1 ≤ koffTo ext b n' := by
  rw [← koffTo_succ_of_kept ext b n hn h]
  exact koffTo_mono ext b (n + 1) n' (by omega)

/-! ### the positions of the markers are offsets -/

theorem not_mcov_before (ms : List Marker) (lo hi i : Nat) (h : MSorted ms lo hi) (hi' : i < lo) : ¬ mcov ms i := by
  intro hc
  have := mcov_bounds ms lo hi i h hc
  omega

theorem positions_koffTo (ext : List Rng) (b : Bytes) : ∀ (ms : List Marker) (k lo hi : Nat),
    MSorted ms lo hi → hi ≤ b.length → (∀ i, lo ≤ i → (inAny ext i = true ↔ mcov ms i)) →
    k + koffTo ext b lo = lo → positions ms k = ms.map fun m => koffTo ext b m.start
  | [], _, _, _, _, _, _, _ => rfl
  | m :: ms, k, lo, hi, hs, hl, hc, hk => by
    obtain ⟨h1, h2, h3⟩ := hs
    have hle := MSorted_le ms m.stop hi h3
    have e1 : koffTo ext b m.start = koffTo ext b lo + (m.start - lo) := by
      have := koffTo_keep ext b lo (m.start - lo) (by omega) (by
        intro i hi1 hi2
        cases hx : inAny ext i with
        | false => rfl
        | true =>
          exfalso
          have := (hc i hi1).mp hx
          exact not_mcov_before (m :: ms) m.start hi i ⟨Nat.le_refl _, h2, h3⟩ (by omega) this)
      rwa [show lo + (m.start - lo) = m.start by omega] at this
    have e2 : koffTo ext b m.stop = koffTo ext b m.start := by
      have := koffTo_drop ext b m.start (m.stop - m.start) (by
        intro i hi1 hi2
        exact (hc i (by omega)).mpr ⟨m, by simp, hi1, by omega⟩)
      rwa [show m.start + (m.stop - m.start) = m.stop by omega] at this
    simp only [positions, List.map_cons]
    rw [positions_koffTo ext b ms (k + (m.stop - m.start)) m.stop hi h3 hl (by
      intro i hi1
      rw [hc i (by omega)]
      constructor
      · rintro ⟨m', hm', g1, g2⟩
        rcases List.mem_cons.mp hm' with rfl | hm'
        · omega
        · exact ⟨m', hm', g1, g2⟩
      · rintro ⟨m', hm', g1, g2⟩
        exact ⟨m', List.mem_cons_of_mem _ hm', g1, g2⟩) (by rw [e2, e1]; omega)]
    congr 1
    rw [e1]; omega

/-! ### every byte of the text after removal comes from a kept source position -/

theorem filter_getElem?_split {α} (p : α → Bool) : ∀ (l : List α) (q : Nat) (e : α), (l.filter p)[q]? = some e →
    ∃ l1 l2, l = l1 ++ e :: l2 ∧ (l1.filter p).length = q ∧ p e = true
  | [], q, e, h => by simp at h
  | a :: l, q, e, h => by
    by_cases ha : p a = true
    · rw [List.filter_cons_of_pos ha] at h
      cases q with
      | zero =>
        simp only [List.getElem?_cons_zero, Option.some.injEq] at h
        subst h
        exact ⟨[], l, rfl, rfl, ha⟩
      | succ q =>
        simp only [List.getElem?_cons_succ] at h
        obtain ⟨l1, l2, e1, e2, e3⟩ := filter_getElem?_split p l q e h
        exact ⟨a :: l1, l2, by rw [e1]; rfl, by simp [List.filter_cons_of_pos ha, e2], e3⟩
    · rw [List.filter_cons_of_neg ha] at h
      obtain ⟨l1, l2, e1, e2, e3⟩ := filter_getElem?_split p l q e h
      exact ⟨a :: l1, l2, by rw [e1]; rfl, by simp [List.filter_cons_of_neg ha, e2], e3⟩

/-- the byte at offset `q` of the kept text stands at a kept source position `i` with `koffTo i = q` -/
theorem keptOf_getElem? (ext : List Rng) (b : Bytes) (q : Nat) (x : ABy) (h : (keptOf ext b.zipIdx)[q]? = some x) :
    ∃ i l2, b.zipIdx = b.zipIdx.take i ++ (x, i) :: l2 ∧ koffTo ext b i = q ∧ inAny ext i = false ∧ i < b.length := by
  unfold keptOf at h
  rw [List.getElem?_map] at h
  cases he : (b.zipIdx.filter fun y => !inAny ext y.2)[q]? with
  | none => rw [he] at h; simp at h
  | some e =>
    rw [he] at h
    simp only [Option.map_some, Option.some.injEq] at h
    obtain ⟨l1, l2, e1, e2, e3⟩ := filter_getElem?_split _ _ q e he
    -- the element after `l1` has index `l1.length`
    have hidx : b.zipIdx[l1.length]? = some e := by rw [e1]; simp
    rw [List.getElem?_zipIdx] at hidx
    cases hb : b[l1.length]? with
    | none => rw [hb] at hidx; simp at hidx
    | some y =>
      rw [hb] at hidx
      simp only [Option.map_some, Option.some.injEq, Nat.zero_add] at hidx
      have hlt := lt_of_getElem?_some _ _ _ hb
      have htake : b.zipIdx.take l1.length = l1 := by rw [e1]; simp
      refine ⟨l1.length, l2, ?_, ?_, ?_, hlt⟩
      · rw [htake, e1]
        congr 2
        rw [← hidx, ← h, ← hidx]
      · unfold koffTo; rw [htake]; exact e2
      · rw [← hidx] at e3; simpa using e3

end Chiritori
