import Chiritori.Lemmas.Markers
/-
  The pending merge of `build_remove_marker_all` (after the D12 repair).
-/
namespace Chiritori

/-- `range.contains(&p.start) && range.contains(&p.end)` -/
def squashes (r p : Marker) : Bool :=
  decide (r.start ≤ p.start) && decide (p.start < r.stop) && (decide (r.start ≤ p.stop) && decide (p.stop < r.stop))

/-- every Ready range appears exactly once, in order, flagged Ready -/
theorem popPending_flags (range : Rng) (pending : List Marker) :
    ∀ x ∈ (popPending range pending).1, x.2 = false := by
  induction pending with
  | nil => simp [popPending]
  | cons p ps ih =>
    simp only [popPending]
    split
    · simp
    · split
      · exact ih
      · intro x hx
        simp only [List.mem_cons] at hx
        rcases hx with hx | hx
        · subst hx; rfl
        · exact ih x hx

theorem mergePending_ready (ready : List Marker) : ∀ (pending : List Marker),
    (mergePending ready pending).filter (·.2) = ready.map fun r => (r, true) := by
  induction ready with
  | nil =>
    intro pending
    simp only [mergePending, List.map_nil, List.filter_eq_nil_iff, List.mem_map]
    rintro x ⟨p, _, rfl⟩
    simp
  | cons r rs ih =>
    intro pending
    simp only [mergePending]
    have h1 : (popPending (r.start, r.stop) pending).1.filter (·.2) = [] := by
      rw [List.filter_eq_nil_iff]
      intro x hx
      simp [popPending_flags _ _ x hx]
    simp only [List.filter_append, h1, List.nil_append, List.map_cons]
    simp [ih]

/-- what `popPending` does with a sorted pending list -/
theorem popPending_spec (r : Marker) (pending : List Marker) (lo hi : Nat) (hs : MSorted pending lo hi) :
    let res := popPending (r.start, r.stop) pending
    (∃ n, res.2 = pending.drop n ∧
      (∀ p ∈ pending.take n, p.start < r.stop) ∧
      (∀ p ∈ res.2, r.stop ≤ p.start) ∧
      res.1 = ((pending.take n).filter fun p => !squashes r p).map fun p => (p, false)) := by
  induction pending generalizing lo with
  | nil => exact ⟨0, rfl, by simp, by simp [popPending], by simp [popPending]⟩
  | cons p ps ih =>
    obtain ⟨h1, h2, h3⟩ := hs
    simp only [popPending]
    by_cases hge : p.start ≥ r.stop
    · simp only [hge, ite_true]
      refine ⟨0, rfl, by simp, ?_, by simp⟩
      intro q hq
      rcases List.mem_cons.mp hq with hq | hq
      · subst hq; exact hge
      · -- later pending ranges start even later
        have : ∀ (l : List Marker) (lo hi : Nat), MSorted l lo hi → ∀ q ∈ l, lo ≤ q.start := by
          intro l
          induction l with
          | nil => intro _ _ _ q hq; simp at hq
          | cons x xs ihx =>
            intro lo hi hh q hq
            obtain ⟨g1, g2, g3⟩ := hh
            rcases List.mem_cons.mp hq with hq | hq
            · subst hq; exact g1
            · have := ihx x.stop hi g3 q hq; omega
        have := this ps p.stop hi h3 q hq
        omega
    · simp only [hge, ite_false]
      obtain ⟨n, e1, e2, e3, e4⟩ := ih p.stop h3
      have hcontains : (Rng.contains (r.start, r.stop) p.start && Rng.contains (r.start, r.stop) p.stop)
          = squashes r p := by
        simp only [Rng.contains, squashes]
      rw [hcontains]
      cases hsq : squashes r p with
      | true =>
        simp only [ite_true]
        refine ⟨n + 1, by simpa using e1, ?_, e3, ?_⟩
        · intro q hq
          simp only [List.take_succ_cons, List.mem_cons] at hq
          rcases hq with hq | hq
          · subst hq; omega
          · exact e2 q hq
        · simp only [List.take_succ_cons, List.filter_cons, hsq, Bool.not_true, Bool.false_eq_true, ite_false]
          exact e4
      | false =>
        simp only [Bool.false_eq_true, ite_false]
        refine ⟨n + 1, by simpa using e1, ?_, e3, ?_⟩
        · intro q hq
          simp only [List.take_succ_cons, List.mem_cons] at hq
          rcases hq with hq | hq
          · subst hq; omega
          · exact e2 q hq
        · simp only [List.take_succ_cons, List.filter_cons, hsq, Bool.not_false, ite_true, List.map_cons, e4]

end Chiritori

namespace Chiritori

theorem MSorted_starts_ge (l : List Marker) (lo hi : Nat) (h : MSorted l lo hi) : ∀ q ∈ l, lo ≤ q.start := by
  induction l generalizing lo with
  | nil => intro q hq; simp at hq
  | cons x xs ih =>
    intro q hq
    obtain ⟨g1, g2, g3⟩ := h
    rcases List.mem_cons.mp hq with hq | hq
    · subst hq; exact g1
    · have := ih x.stop g3 q hq; omega

theorem MSorted_drop (l : List Marker) (n lo hi : Nat) (h : MSorted l lo hi) : MSorted (l.drop n) lo hi := by
  induction n generalizing l lo with
  | zero => simpa using h
  | succ n ih =>
    cases l with
    | nil => simpa using h
    | cons x xs =>
      obtain ⟨g1, g2, g3⟩ := h
      simp only [List.drop_succ_cons]
      exact MSorted_widen _ x.stop hi lo hi (ih xs x.stop g3) (by omega) (Nat.le_refl _)

/-- a pending range is swallowed when some ready range contains both of its ends -/
def swallowed (ready : List Marker) (p : Marker) : Bool := ready.any fun r => squashes r p

/-- C17: the Pending items of `list_all` are exactly the pending ranges that no ready range swallows, in order -/
theorem mergePending_pending (ready : List Marker) : ∀ (pending : List Marker) (lo hi lo' hi' : Nat),
    MSorted ready lo hi → MSorted pending lo' hi' →
    (mergePending ready pending).filter (fun x => !x.2) =
      (pending.filter fun p => !swallowed ready p).map fun p => (p, false) := by
  induction ready with
  | nil =>
    intro pending _ _ _ _ _ _
    simp only [mergePending, swallowed, List.any_nil, Bool.not_false]
    have e : (pending.filter fun _ => true) = pending := List.filter_eq_self.mpr (fun _ _ => rfl)
    rw [e, List.filter_eq_self.mpr]
    intro x hx
    simp only [List.mem_map] at hx
    obtain ⟨p, _, rfl⟩ := hx
    rfl
  | cons r rs ih =>
    intro pending lo hi lo' hi' hr hp
    obtain ⟨r1, r2, r3⟩ := hr
    obtain ⟨n, e1, e2, e3, e4⟩ := popPending_spec r pending lo' hi' hp
    simp only [mergePending]
    rw [List.filter_append, List.filter_append]
    have hmid : [(r, true)].filter (fun x => !x.2) = [] := by simp
    rw [hmid, List.append_nil, e1, ih (pending.drop n) r.stop hi lo' hi' r3 (MSorted_drop pending n lo' hi' hp), e4]
    -- both halves, rewritten with the full ready list
    have hrs := MSorted_starts_ge rs r.stop hi r3
    have h1 : ((pending.take n).filter fun p => !squashes r p) = (pending.take n).filter fun p => !swallowed (r :: rs) p := by
      apply List.filter_congr
      intro p hp
      have hps := e2 p hp
      simp only [swallowed, List.any_cons]
      have : rs.any (fun r' => squashes r' p) = false := by
        rw [List.any_eq_false]
        intro r' hr'
        have := hrs r' hr'
        simp [squashes]; intro _ ; omega
      rw [this, Bool.or_false]
    have h2 : ((pending.drop n).filter fun p => !swallowed rs p) = (pending.drop n).filter fun p => !swallowed (r :: rs) p := by
      apply List.filter_congr
      intro p hp
      have hps := e3 p (by rw [e1]; exact hp)
      simp only [swallowed, List.any_cons]
      have : squashes r p = false := by simp [squashes]; intro _ ; omega
      rw [this, Bool.false_or]
    have hfilt : ((List.map (fun p => (p, false)) (List.filter (fun p => !squashes r p) (List.take n pending))).filter
        (fun x => !x.2)) = List.map (fun p => (p, false)) (List.filter (fun p => !squashes r p) (List.take n pending)) := by
      rw [List.filter_eq_self]
      intro x hx
      simp only [List.mem_map] at hx
      obtain ⟨p, _, rfl⟩ := hx
      rfl
    rw [hfilt, h1, h2, ← List.map_append, ← List.filter_append, List.take_append_drop]

/-- item starts are non-decreasing and at least `b` -/
def StartsSorted : List (Marker × Bool) → Nat → Prop
  | [], _ => True
  | x :: xs, b => b ≤ x.1.start ∧ StartsSorted xs x.1.start

theorem StartsSorted_append (a c : List (Marker × Bool)) (b : Nat) (ha : StartsSorted a b)
    (hc : ∀ last, a.getLast? = some last → StartsSorted c last.1.start) (hc0 : a = [] → StartsSorted c b) :
    StartsSorted (a ++ c) b := by
  induction a generalizing b with
  | nil => exact hc0 rfl
  | cons x xs ih =>
    obtain ⟨h1, h2⟩ := ha
    refine ⟨h1, ?_⟩
    apply ih x.1.start h2
    · intro last hl
      apply hc last
      cases xs with
      | nil => simp at hl
      | cons y ys => simpa [List.getLast?_cons_cons] using hl
    · intro hnil
      subst hnil
      exact hc x (by simp)

theorem StartsSorted_weaken (l : List (Marker × Bool)) (b b' : Nat) (h : StartsSorted l b) (hb : b' ≤ b) : StartsSorted l b' := by
  cases l with
  | nil => trivial
  | cons x xs => exact ⟨by have := h.1; omega, h.2⟩

theorem StartsSorted_of_MSorted (l : List Marker) (lo hi : Nat) (h : MSorted l lo hi) :
    StartsSorted (l.map fun p => (p, false)) lo := by
  induction l generalizing lo with
  | nil => trivial
  | cons x xs ih =>
    obtain ⟨g1, g2, g3⟩ := h
    exact ⟨g1, StartsSorted_weaken _ x.stop _ (ih x.stop g3) (by simp only; omega)⟩

end Chiritori

namespace Chiritori

theorem MSorted_filter (l : List Marker) (f : Marker → Bool) (lo hi : Nat) (h : MSorted l lo hi) :
    MSorted (l.filter f) lo hi := by
  induction l generalizing lo with
  | nil => exact h
  | cons x xs ih =>
    obtain ⟨g1, g2, g3⟩ := h
    have hle := MSorted_le xs x.stop hi g3
    simp only [List.filter_cons]
    split
    · exact ⟨g1, g2, ih x.stop g3⟩
    · exact MSorted_widen _ x.stop hi lo hi (ih x.stop g3) (by omega) (Nat.le_refl _)

theorem MSorted_take (l : List Marker) (n lo hi : Nat) (h : MSorted l lo hi) : MSorted (l.take n) lo hi := by
  induction n generalizing l lo with
  | zero => simp only [List.take_zero, MSorted]; exact MSorted_le l lo hi h
  | succ n ih =>
    cases l with
    | nil => simpa using h
    | cons x xs =>
      obtain ⟨g1, g2, g3⟩ := h
      simp only [List.take_succ_cons]
      exact ⟨g1, g2, ih xs x.stop g3⟩

theorem StartsSorted_of_MSorted' (l : List Marker) (lo hi b : Nat) (h : MSorted l lo hi) (hb : ∀ p ∈ l, b ≤ p.start) :
    StartsSorted (l.map fun p => (p, false)) b := by
  cases l with
  | nil => trivial
  | cons x xs =>
    have := StartsSorted_of_MSorted (x :: xs) lo hi h
    exact ⟨hb x (by simp), this.2⟩

/-- C17: items come in source order, provided pending and ready ranges are nested or disjoint
    (a pending range that is not swallowed and starts before a ready range ends starts no later than it) -/
theorem mergePending_sorted (ready : List Marker) : ∀ (pending : List Marker) (lo hi lo' hi' b : Nat),
    MSorted ready lo hi → MSorted pending lo' hi' → b ≤ lo → (∀ p ∈ pending, b ≤ p.start) →
    (∀ r ∈ ready, ∀ p ∈ pending, p.start < r.stop → squashes r p = false → p.start ≤ r.start) →
    StartsSorted (mergePending ready pending) b := by
  induction ready with
  | nil =>
    intro pending lo hi lo' hi' b _ hp _ hbp _
    simp only [mergePending]
    exact StartsSorted_of_MSorted' pending lo' hi' b hp hbp
  | cons r rs ih =>
    intro pending lo hi lo' hi' b hr hp hb hbp hlam
    obtain ⟨r1, r2, r3⟩ := hr
    obtain ⟨n, e1, e2, e3, e4⟩ := popPending_spec r pending lo' hi' hp
    simp only [mergePending]
    rw [List.append_assoc]
    have hout_sorted : MSorted ((pending.take n).filter fun p => !squashes r p) lo' hi' :=
      MSorted_filter _ _ lo' hi' (MSorted_take pending n lo' hi' hp)
    have hout_le : ∀ p ∈ (pending.take n).filter (fun p => !squashes r p), p.start ≤ r.start := by
      intro p hp'
      obtain ⟨h1, h2⟩ := List.mem_filter.mp hp'
      exact hlam r (by simp) p (List.mem_of_mem_take h1) (e2 p h1) (by simpa using h2)
    have htail : StartsSorted ((r, true) :: mergePending rs (popPending (r.start, r.stop) pending).2) r.start := by
      refine ⟨Nat.le_refl _, ?_⟩
      apply ih _ r.stop hi lo' hi' r.start r3 (by rw [e1]; exact MSorted_drop pending n lo' hi' hp) (by omega)
      · intro p hp'; have := e3 p hp'; omega
      · intro r' hr' p hp' h1 h2
        exact hlam r' (by simp [hr']) p (by rw [e1] at hp'; exact List.mem_of_mem_drop hp') h1 h2
    rw [e4]
    apply StartsSorted_append
    · exact StartsSorted_of_MSorted' _ lo' hi' b hout_sorted
        (fun p hp' => hbp p (List.mem_of_mem_take (List.mem_filter.mp hp').1))
    · intro last hl
      have hmem := List.mem_of_getLast? hl
      simp only [List.mem_map] at hmem
      obtain ⟨p, hp', rfl⟩ := hmem
      exact StartsSorted_weaken _ r.start _ htail (hout_le p hp')
    · intro _
      exact StartsSorted_weaken _ r.start _ htail (by omega)

end Chiritori
