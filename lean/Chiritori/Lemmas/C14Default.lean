import Chiritori.Lemmas.CoresKept
import Chiritori.Lemmas.Collect
import Chiritori.Lemmas.Totality
/-
  C14 for sources without unwrapped blocks: markers carry no pair, the block formatter contributes nothing, and
  the seam positions are ends of kept segments.
-/
namespace Chiritori
open Spec

/-! ### no ready unwrap-block ⇒ no pairs -/

mutual
def NoPairs : List RTree → Prop
  | [] => True
  | t :: ts => NoPairT t ∧ NoPairs ts
def NoPairT : RTree → Prop
  | .node _ pair ch => pair = none ∧ NoPairs ch
end

theorem NoPairs_append : ∀ (a b : List RTree), NoPairs a → NoPairs b → NoPairs (a ++ b)
  | [], _, _, hb => hb
  | t :: ts, b, ha, hb => by
    simp only [List.cons_append, NoPairs] at ha ⊢
    exact ⟨ha.1, NoPairs_append ts b ha.2 hb⟩

mutual
theorem mergeMarkers_nopair : ∀ (ts : List RTree) (acc : List Marker), NoPairs ts → (∀ m ∈ acc, m.pair = none) →
    ∀ m ∈ mergeMarkers ts acc, m.pair = none
  | [], acc, _, ha => by simpa [mergeMarkers] using ha
  | t :: ts, acc, h, ha => by
    simp only [NoPairs] at h
    simp only [mergeMarkers]
    exact mergeMarkers_nopair ts _ h.2 (mergeTree_nopair t acc h.1 ha)
theorem mergeTree_nopair : ∀ (t : RTree) (acc : List Marker), NoPairT t → (∀ m ∈ acc, m.pair = none) →
    ∀ m ∈ mergeTree t acc, m.pair = none
  | .node r pair ch, acc, h, ha => by
    simp only [NoPairT] at h
    obtain ⟨hp, _⟩ := h
    subst hp
    simp only [mergeTree]
    intro m hm
    rcases List.mem_append.mp hm with hm | hm
    · exact ha m hm
    · simp only [List.mem_singleton] at hm
      subst hm; rfl
end

/-- no element whose condition holds carries `unwrap-block` -/
def NoReadyUnwrap (cfg : Cfg) (parts : List Part) : Prop :=
  ∀ e ∈ elementsOf parts, conditionHolds cfg e.1 = true → hasAttr e.1 "unwrap-block" = false

mutual
theorem collect_nopairs (cfg : Cfg) (b : Bytes) : ∀ (parts : List Part),
    (∀ e ∈ elementsOf parts, conditionHolds cfg e.1 = true → hasAttr e.1 "unwrap-block" = false) →
    NoPairs (collect cfg b false parts).1
  | [], _ => by simp [collect, NoPairs]
  | p :: ps, h => by
    simp only [collect]
    exact NoPairs_append _ _ (collectPart_nopairs cfg b p (fun e he => h e (by simp [elementsOf, he])))
      (collect_nopairs cfg b ps (fun e he => h e (by simp [elementsOf, he])))
theorem collectPart_nopairs (cfg : Cfg) (b : Bytes) : ∀ (p : Part),
    (∀ e ∈ elementsOfPart p, conditionHolds cfg e.1 = true → hasAttr e.1 "unwrap-block" = false) →
    NoPairs (collectPart cfg b false p).1
  | .text _, _ => by simp [collectPart, NoPairs]
  | .element el st en ch, h => by
    have ih := collect_nopairs cfg b ch (fun e he => h e (by simp [elementsOfPart, he]))
    have hself := h (el, st, en) (by simp [elementsOfPart])
    simp only [collectPart]
    rw [elementRange_eq cfg b false]
    cases hemp : (createRange b el st en).1.isEmpty with
    | true => simpa using ih
    | false =>
      cases hc : conditionHolds cfg el with
      | false => simpa using ih
      | true =>
        simp only [Bool.false_eq_true, ite_false, ite_true, NoPairs, NoPairT, and_true]
        refine ⟨?_, ih⟩
        have hu := hself hc
        unfold createRange
        have ha : (el.attrs.any fun a => a.name == "unwrap-block".toList) = hasAttr el "unwrap-block" := rfl
        rw [ha, hu]
        rfl
end

theorem unwrappedBodies_nil (cfg : Cfg) (b : Bytes) (parts : List Part) (h : NoReadyUnwrap cfg parts) :
    unwrappedBodies cfg b parts = [] := by
  unfold unwrappedBodies
  rw [List.flatMap_eq_nil_iff]
  intro e he
  obtain ⟨el, st, en⟩ := e
  simp only
  rw [if_neg]
  intro hh
  have := h (el, st, en) he hh.1
  rw [this] at hh
  exact absurd hh.2 (by simp)

/-! ### the block formatter contributes nothing without pairs -/

theorem formatCollect_noblocks (b : Bytes) (all : List (Nat × Option Nat)) : ∀ (ps : List (Nat × Option Nat))
    (rs bs : List Rng'), (∀ p ∈ ps, p.2 = none) → formatCollect b all ps = .ok (rs, bs) → bs = []
  | [], rs, bs, _, h => by
    simp only [formatCollect] at h
    injection h with h
    injection h with _ h2
    exact h2.symm
  | (pos, pair) :: rest, rs, bs, hp, h => by
    have hpair : pair = none := hp (pos, pair) (by simp)
    subst hpair
    simp only [formatCollect] at h
    cases h1 : formatBlock b pos seamFormatters (pos, pos) with
    | error e => rw [h1] at h; simp at h
    | ok range =>
      rw [h1] at h
      simp only at h
      cases h2 : formatCollect b all rest with
      | error e => rw [h2] at h; simp at h
      | ok rb =>
        obtain ⟨rs', bs'⟩ := rb
        rw [h2] at h
        simp only [List.nil_append] at h
        injection h with h
        injection h with _ hb
        rw [← hb]
        exact formatCollect_noblocks b all rest rs' bs' (fun p hp' => hp p (by simp [hp'])) h2

/-! ### seam positions are ends of kept segments -/

theorem RIn_of_MSorted (b : Bytes) : ∀ (ms : List Marker) (lo hi : Nat), MSorted ms lo hi → hi ≤ b.length →
    RIn b (ms.map fun m => (m.start, m.stop)) lo
  | [], lo, hi, h, hl => by simp only [List.map_nil, RIn]; simp only [MSorted] at h; omega
  | m :: ms, lo, hi, h, hl => by
    obtain ⟨h1, h2, h3⟩ := h
    exact ⟨h1, h2, RIn_of_MSorted b ms m.stop hi h3 hl⟩

theorem positions_segEnds (b : Bytes) : ∀ (ms : List Marker) (k lo hi : Nat), MSorted ms lo hi → k ≤ lo →
    hi ≤ b.length → ∀ p ∈ positions ms k, p ∈ segEnds (keptSegs b (ms.map fun m => (m.start, m.stop)) lo) (lo - k)
  | [], _, _, _, _, _, _, p, hp => by simp [positions] at hp
  | m :: ms, k, lo, hi, h, hk, hl, p, hp => by
    obtain ⟨h1, h2, h3⟩ := h
    have hle := MSorted_le ms m.stop hi h3
    simp only [positions, List.mem_cons] at hp
    simp only [List.map_cons, keptSegs, segEnds, List.mem_cons]
    have hlen : ((b.take m.start).drop lo).length = m.start - lo := by simp; omega
    rw [hlen]
    rcases hp with hp | hp
    · left; omega
    · right
      have := positions_segEnds b ms (k + (m.stop - m.start)) m.stop hi h3 (by omega) hl p hp
      rw [show m.stop - (k + (m.stop - m.start)) = lo - k + (m.start - lo) by omega] at this
      exact this

end Chiritori
