import Chiritori.Lemmas.Scan
/-
  The automaton on well-delimited pieces.
-/
namespace Chiritori
open Spec

abbrev srun (ds de : List Char) (s : SSt) (cs : List Char) : SSt := cs.foldl (sStep ds de) s

theorem srun_append (ds de : List Char) (s : SSt) (a b : List Char) :
    srun ds de s (a ++ b) = srun ds de (srun ds de s a) b := by simp [srun, List.foldl_append]

theorem srun_cons (ds de : List Char) (s : SSt) (c : Char) (cs : List Char) :
    srun ds de s (c :: cs) = srun ds de (sStep ds de s c) cs := rfl

/-- R1: characters other than the first delimiter character are collected in the text state -/
theorem srun_text (d0 : Char) (dr de : List Char) (outs : SOut) (pend cs : List Char) (h : ∀ c ∈ cs, c ≠ d0) :
    srun (d0 :: dr) de ⟨outs, .text, pend⟩ cs = ⟨outs, .text, pend ++ cs⟩ := by
  induction cs generalizing pend with
  | nil => simp [srun]
  | cons c cs ih =>
    have hc : c ≠ d0 := h c (by simp)
    have : sStep (d0 :: dr) de ⟨outs, .text, pend⟩ c = ⟨outs, .text, pend ++ [c]⟩ := by
      simp [sStep, getState, checkDelimiterStart, hc]
    rw [srun_cons, this, ih (pend ++ [c]) (fun x hx => h x (by simp [hx]))]
    simp

/-- R2: the rest of the start delimiter matches character by character -/
theorem srun_dstart (ds de : List Char) (outs : SOut) (r1 r2 pend : List Char) :
    srun ds de ⟨outs, .dstart (r1 ++ r2), pend⟩ r1 = ⟨outs, .dstart r2, pend ++ r1⟩ := by
  induction r1 generalizing pend with
  | nil => simp [srun]
  | cons c cs ih =>
    have : sStep ds de ⟨outs, .dstart (c :: (cs ++ r2)), pend⟩ c = ⟨outs, .dstart (cs ++ r2), pend ++ [c]⟩ := by
      simp [sStep, getState]
    rw [srun_cons, List.cons_append, this, ih (pend ++ [c])]
    simp

/-- R4: body characters other than the first end-delimiter character -/
theorem srun_inDelim (ds : List Char) (e0 : Char) (er : List Char) (outs : SOut) (pend cs : List Char)
    (h : ∀ c ∈ cs, c ≠ e0) :
    srun ds (e0 :: er) ⟨outs, .inDelim, pend⟩ cs = ⟨outs, .inDelim, pend ++ cs⟩ := by
  induction cs generalizing pend with
  | nil => simp [srun]
  | cons c cs ih =>
    have hc : c ≠ e0 := h c (by simp)
    have : sStep ds (e0 :: er) ⟨outs, .inDelim, pend⟩ c = ⟨outs, .inDelim, pend ++ [c]⟩ := by
      simp [sStep, getState, hc]
    rw [srun_cons, this, ih (pend ++ [c]) (fun x hx => h x (by simp [hx]))]
    simp

/-- R6: the rest of the end delimiter matches character by character -/
theorem srun_dend (ds de : List Char) (outs : SOut) (r1 r2 pend : List Char) :
    srun ds de ⟨outs, .dend (r1 ++ r2), pend⟩ r1 = ⟨outs, .dend r2, pend ++ r1⟩ := by
  induction r1 generalizing pend with
  | nil => simp [srun]
  | cons c cs ih =>
    have : sStep ds de ⟨outs, .dend (c :: (cs ++ r2)), pend⟩ c = ⟨outs, .dend (cs ++ r2), pend ++ [c]⟩ := by
      simp [sStep, getState]
    rw [srun_cons, List.cons_append, this, ih (pend ++ [c])]
    simp

/-- a whole tag, once its first character has been read -/
theorem srun_tag_rest (d0 : Char) (dr : List Char) (e0 : Char) (er : List Char) (outs : SOut) (b0 : Char)
    (rest : List Char) (h : ∀ c ∈ rest, c ≠ e0) :
    srun (d0 :: dr) (e0 :: er) ⟨outs, .dstart dr, [d0]⟩ (dr ++ (b0 :: (rest ++ (e0 :: er))))
      = ⟨outs, .dend [], (d0 :: dr) ++ (b0 :: (rest ++ (e0 :: er)))⟩ := by
  rw [srun_append]
  have h1 := srun_dstart (d0 :: dr) (e0 :: er) outs dr [] [d0]
  simp only [List.append_nil] at h1
  rw [h1, srun_cons]
  have h2 : sStep (d0 :: dr) (e0 :: er) ⟨outs, .dstart [], [d0] ++ dr⟩ b0 = ⟨outs, .inDelim, [d0] ++ dr ++ [b0]⟩ := by
    simp [sStep, getState]
  rw [h2, srun_append, srun_inDelim (d0 :: dr) e0 er outs _ rest h, srun_cons]
  have h3 : sStep (d0 :: dr) (e0 :: er) ⟨outs, .inDelim, [d0] ++ dr ++ [b0] ++ rest⟩ e0
      = ⟨outs, .dend er, [d0] ++ dr ++ [b0] ++ rest ++ [e0]⟩ := by
    simp [sStep, getState]
  rw [h3]
  have h4 := srun_dend (d0 :: dr) (e0 :: er) outs er [] ([d0] ++ dr ++ [b0] ++ rest ++ [e0])
  simp only [List.append_nil] at h4
  rw [h4]
  simp

/-- E1: the first delimiter character in the text state ends the pending text -/
theorem sStep_text_d0 (d0 : Char) (dr de : List Char) (outs : SOut) (pend : List Char) :
    sStep (d0 :: dr) de ⟨outs, .text, pend⟩ d0
      = ⟨if pend ≠ [] then outs ++ [(.text, pend)] else outs, .dstart dr, [d0]⟩ := by
  simp [sStep, getState, checkDelimiterStart]

/-- E2: the character behind a complete tag emits it -/
theorem sStep_dend_nil (ds de : List Char) (outs : SOut) (tag : List Char) (c : Char) (ht : tag ≠ []) :
    sStep ds de ⟨outs, .dend [], tag⟩ c = ⟨outs ++ [(.element, tag)], checkDelimiterStart c ds, [c]⟩ := by
  simp [sStep, getState, ht]

inductive Piece where
  | text (s : List Char)
  | tag (b0 : Char) (rest : List Char)

def Piece.render (ds de : List Char) : Piece → List Char
  | .text s => s
  | .tag b0 rest => ds ++ (b0 :: (rest ++ de))

def Piece.ok (d0 e0 : Char) : Piece → Prop
  | .text s => ∀ c ∈ s, c ≠ d0
  | .tag _ rest => ∀ c ∈ rest, c ≠ e0

def renderAll (ds de : List Char) : List Piece → List Char
  | [] => []
  | p :: ps => p.render ds de ++ renderAll ds de ps

/-- what the scan should produce: maximal text pieces and the tags; `t` is a trailing stretch of text that
    follows the pieces (empty, or an unterminated start of a tag) -/
def tnorm (ds de t : List Char) : List Piece → List Char → SOut
  | [], acc => if acc ++ t ≠ [] then [(.text, acc ++ t)] else []
  | .text s :: ps, acc => tnorm ds de t ps (acc ++ s)
  | .tag b0 rest :: ps, acc =>
    (if acc ≠ [] then [(TKind.text, acc)] else []) ++ [(.element, ds ++ (b0 :: (rest ++ de)))] ++ tnorm ds de t ps []

/-- the automaton between pieces is in one of two situations -/
inductive MSt where
  | T (pend : List Char)      -- text state, `pend` collected
  | G (tag : List Char)       -- a complete tag is pending

def MSt.repr : MSt → TState × List Char
  | .T pend => (.text, pend)
  | .G tag => (.dend [], tag)

def mfinish (t : List Char) (outs : SOut) : MSt → SOut
  | .T pend => if pend ++ t ≠ [] then outs ++ [(.text, pend ++ t)] else outs
  | .G tag => outs ++ [(.element, tag)] ++ (if t ≠ [] then [(TKind.text, t)] else [])

/-- what is still to come out, given the situation and the pieces ahead -/
def F (ds de t : List Char) : MSt → List Piece → SOut
  | .T acc, ps => tnorm ds de t ps acc
  | .G tag, ps => (TKind.element, tag) :: tnorm ds de t ps []

theorem mfinish_eq (ds de t : List Char) (outs : SOut) (m : MSt) : mfinish t outs m = outs ++ F ds de t m [] := by
  cases m with
  | T acc => by_cases h : acc ++ t = [] <;> simp [mfinish, F, tnorm, h]
  | G tag => by_cases h : t = [] <;> simp [mfinish, F, tnorm, h]

def MSt.good : MSt → Prop
  | .T _ => True
  | .G tag => tag ≠ []

/-- the automaton over a list of well-delimited pieces -/
theorem srun_pieces (d0 : Char) (dr : List Char) (e0 : Char) (er : List Char) (ps : List Piece) :
    ∀ (m : MSt) (outs : SOut), m.good → (∀ p ∈ ps, p.ok d0 e0) →
    ∃ m' outs', srun (d0 :: dr) (e0 :: er) ⟨outs, m.repr.1, m.repr.2⟩ (renderAll (d0 :: dr) (e0 :: er) ps)
        = ⟨outs', m'.repr.1, m'.repr.2⟩ ∧ m'.good ∧
      (∀ t, mfinish t outs' m' = outs ++ F (d0 :: dr) (e0 :: er) t m ps) ∧
      (m' = .T [] → m = .T [] ∧ renderAll (d0 :: dr) (e0 :: er) ps = []) := by
  induction ps with
  | nil =>
    intro m outs hg _
    exact ⟨m, outs, rfl, hg, fun t => mfinish_eq _ _ t outs m, fun h => ⟨h, rfl⟩⟩
  | cons p ps ih =>
    intro m outs hg hok
    have hp := hok p (by simp)
    have hps : ∀ q ∈ ps, q.ok d0 e0 := fun q hq => hok q (by simp [hq])
    simp only [renderAll]
    rw [srun_append]
    cases m with
    | T acc =>
      cases p with
      | text s =>
        simp only [Piece.render, MSt.repr]
        rw [srun_text d0 dr (e0 :: er) outs acc s hp]
        obtain ⟨m', outs', h1, h2, h3, h4⟩ := ih (.T (acc ++ s)) outs trivial hps
        refine ⟨m', outs', h1, h2, fun t => by rw [h3 t]; rfl, ?_⟩
        intro hm
        obtain ⟨g1, g2⟩ := h4 hm
        injection g1 with g1
        have : acc = [] ∧ s = [] := by simpa using g1
        exact ⟨by rw [this.1], by simp [this.2, g2]⟩
      | tag b0 rest =>
        simp only [Piece.render, MSt.repr, List.cons_append]
        rw [srun_cons, sStep_text_d0, srun_tag_rest d0 dr e0 er _ b0 rest hp]
        obtain ⟨m', outs', h1, h2, h3, h4⟩ := ih (.G ((d0 :: dr) ++ (b0 :: (rest ++ (e0 :: er))))) _ (by simp [MSt.good]) hps
        refine ⟨m', outs', h1, h2, ?_, ?_⟩
        · intro t
          rw [h3 t]
          by_cases ha : acc = [] <;> simp [F, tnorm, ha]
        · intro hm
          obtain ⟨g1, _⟩ := h4 hm
          exact absurd g1 (by simp)
    | G tag =>
      have htag : tag ≠ [] := hg
      cases p with
      | text s =>
        cases s with
        | nil =>
          simp only [Piece.render, srun, List.foldl_nil]
          obtain ⟨m', outs', h1, h2, h3, h4⟩ := ih (.G tag) outs hg hps
          refine ⟨m', outs', h1, h2, fun t => by rw [h3 t]; simp [F, tnorm], ?_⟩
          intro hm
          obtain ⟨g1, _⟩ := h4 hm
          exact absurd g1 (by simp)
        | cons c cs =>
          have hc : c ≠ d0 := hp c (by simp)
          simp only [Piece.render, MSt.repr]
          rw [srun_cons, sStep_dend_nil _ _ _ _ _ htag]
          have hcd : checkDelimiterStart c (d0 :: dr) = .text := by simp [checkDelimiterStart, hc]
          rw [hcd, srun_text d0 dr (e0 :: er) _ [c] cs (fun x hx => hp x (by simp [hx]))]
          obtain ⟨m', outs', h1, h2, h3, h4⟩ := ih (.T ([c] ++ cs)) (outs ++ [(.element, tag)]) trivial hps
          refine ⟨m', outs', h1, h2, fun t => by rw [h3 t]; simp [F, tnorm], ?_⟩
          intro hm
          obtain ⟨g1, _⟩ := h4 hm
          injection g1 with g1
          simp at g1
      | tag b0 rest =>
        simp only [Piece.render, MSt.repr, List.cons_append]
        rw [srun_cons, sStep_dend_nil _ _ _ _ _ htag]
        have hcd : checkDelimiterStart d0 (d0 :: dr) = .dstart dr := by simp [checkDelimiterStart]
        rw [hcd, srun_tag_rest d0 dr e0 er _ b0 rest hp]
        obtain ⟨m', outs', h1, h2, h3, h4⟩ := ih (.G ((d0 :: dr) ++ (b0 :: (rest ++ (e0 :: er))))) _ (by simp [MSt.good]) hps
        refine ⟨m', outs', h1, h2, fun t => by rw [h3 t]; simp [F, tnorm], ?_⟩
        intro hm
        obtain ⟨g1, _⟩ := h4 hm
        exact absurd g1 (by simp)

end Chiritori
