import Chiritori.Lemmas.Local
import Chiritori.Lemmas.PosCorr
/-
  The contexts of a token boundary in two texts made of corresponding tokens agree (`AgreeL`, `AgreeR`): the same
  texts around it, and where a tag begins or ends, a character that is not whitespace in both.
-/
namespace Chiritori
open Spec

/-- corresponding tokens, as far as the whitespace tidying can tell: equal texts, or two tags, each beginning and ending
    with a character that is not whitespace -/
def EdgeOK (v : List Char) : Prop :=
  (∃ c0 rest, v = c0 :: rest ∧ wsChar c0 = false) ∧ (∃ w c1, v = w ++ [c1] ∧ wsChar c1 = false)

def TokPair (t u : Token) : Prop :=
  (t.kind = .text ∧ u.kind = .text ∧ t.value = u.value) ∨
  (t.kind = .element ∧ u.kind = .element ∧ EdgeOK t.value ∧ EdgeOK u.value)

def TokPairs : List Token → List Token → Prop
  | [], [] => True
  | t :: ts, u :: us => TokPair t u ∧ TokPairs ts us
  | [], _ :: _ => False
  | _ :: _, [] => False

theorem wsChar_size (c : Char) (h : wsChar c = true) : charBytes c = [.lead c] := by
  have hsz : c.utf8Size = 1 := by
    simp only [wsChar, Bool.or_eq_true, beq_iff_eq] at h
    rcases h with (h | h) | h <;> (subst h; decide)
  simp [charBytes, hsz]

theorem isWsB_lead (c : Char) (h : wsChar c = true) : isWsB (.lead c) := by
  simp only [wsChar, Bool.or_eq_true, beq_iff_eq] at h
  rcases h with (h | h) | h
  · left; rw [h]
  · right; left; rw [h]
  · right; right; rw [h]

theorem isStopB_lead (c : Char) (h : wsChar c = false) : isStopB (.lead c) := by
  refine ⟨c, rfl, ?_, ?_, ?_⟩ <;> (intro hc; subst hc; revert h; decide)

/-- the bytes of a text: whitespace characters, then (if anything is left) a character that is not whitespace -/
theorem bytesOf_split_ws : ∀ (v : List Char), ∃ w rest, bytesOf v = w ++ rest ∧ (∀ z ∈ w, isWsB z) ∧
    (rest = [] ∨ ∃ s r, rest = s :: r ∧ isStopB s)
  | [] => ⟨[], [], rfl, by simp, Or.inl rfl⟩
  | c :: cs => by
    by_cases hc : wsChar c = true
    · obtain ⟨w, rest, e, hw, hr⟩ := bytesOf_split_ws cs
      refine ⟨.lead c :: w, rest, ?_, ?_, hr⟩
      · simp only [bytesOf, wsChar_size c hc, e]; rfl
      · intro z hz
        rcases List.mem_cons.mp hz with rfl | hz
        · exact isWsB_lead c hc
        · exact hw z hz
    · exact ⟨[], bytesOf (c :: cs), rfl, by simp, Or.inr ⟨.lead c, List.replicate (c.utf8Size - 1) .cont ++ bytesOf cs,
        by simp [bytesOf, charBytes], isStopB_lead c (by simpa using hc)⟩⟩

/-- the same, read backwards -/
theorem bytesOf_split_ws_rev (v : List Char) : ∃ w rest, (bytesOf v).reverse = w ++ rest ∧ (∀ z ∈ w, isWsB z) ∧
    (rest = [] ∨ ∃ cs s r, rest = cs ++ s :: r ∧ (∀ z ∈ cs, z = .cont) ∧ isStopB s) := by
  induction v using List.reverseRecOn' with
  | nil => exact ⟨[], [], rfl, by simp, Or.inl rfl⟩
  | snoc cs c ih =>
    by_cases hc : wsChar c = true
    · obtain ⟨w, rest, e, hw, hr⟩ := ih
      refine ⟨.lead c :: w, rest, ?_, ?_, hr⟩
      · rw [bytesOf_append, List.reverse_append, e]
        simp [bytesOf, wsChar_size c hc]
      · intro z hz
        rcases List.mem_cons.mp hz with rfl | hz
        · exact isWsB_lead c hc
        · exact hw z hz
    · have e : (bytesOf (cs ++ [c])).reverse =
          List.replicate (c.utf8Size - 1) .cont ++ .lead c :: (bytesOf cs).reverse := by
        rw [bytesOf_append, List.reverse_append]
        simp [bytesOf, charBytes]
      exact ⟨[], _, rfl, by simp, Or.inr ⟨List.replicate (c.utf8Size - 1) .cont, .lead c, (bytesOf cs).reverse, e,
        fun z hz => (List.mem_replicate.mp hz).2, isStopB_lead c (by simpa using hc)⟩⟩
where
  List.reverseRecOn' {α} {motive : List α → Prop} (l : List α) (nil : motive [])
      (snoc : ∀ (l : List α) (a : α), motive l → motive (l ++ [a])) : motive l := by
    have : ∀ n (l : List α), l.length = n → motive l := by
      intro n
      induction n with
      | zero => intro l hl; rw [List.length_eq_zero_iff.mp hl]; exact nil
      | succ n ih =>
        intro l hl
        rcases List.eq_nil_or_concat l with rfl | ⟨L, a, rfl⟩
        · simp at hl
        · rw [List.concat_eq_append]
          apply snoc
          apply ih
          simp at hl; omega
    exact this l.length l rfl

theorem toksBytes_cons (t : Token) (L : List Token) : toksBytes (t :: L) = bytesOf t.value ++ toksBytes L := by
  simp [toksBytes]

theorem toksBytes_append (A B : List Token) : toksBytes (A ++ B) = toksBytes A ++ toksBytes B := by
  simp [toksBytes]

/-- the bytes behind a token boundary agree -/
theorem agreeR_toks : ∀ (A A' : List Token), TokPairs A A' → AgreeR (toksBytes A) (toksBytes A')
  | [], [], _ => ⟨[], [], [], rfl, rfl, by simp, Or.inl ⟨rfl, rfl⟩⟩
  | [], _ :: _, h => absurd h (by simp [TokPairs])
  | _ :: _, [], h => absurd h (by simp [TokPairs])
  | t :: A, u :: A', h => by
    obtain ⟨htu, hrest⟩ := h
    rw [toksBytes_cons, toksBytes_cons]
    rcases htu with ⟨_, _, hv⟩ | ⟨_, _, ⟨⟨c0, r0, e0, n0⟩, _⟩, ⟨⟨c0', r0', e0', n0'⟩, _⟩⟩
    · rw [← hv]
      obtain ⟨w, rest, e, hw, hr⟩ := bytesOf_split_ws t.value
      rcases hr with rfl | ⟨s, r, rfl, hs⟩
      · -- the whole text is whitespace: go on behind it
        obtain ⟨w2, tx, ty, e1, e2, hw2, ht⟩ := agreeR_toks A A' hrest
        refine ⟨w ++ w2, tx, ty, ?_, ?_, ?_, ht⟩
        · rw [e, e1]; simp
        · rw [e, e2]; simp
        · intro z hz
          rcases List.mem_append.mp hz with hz | hz
          · exact hw z hz
          · exact hw2 z hz
      · exact ⟨w, s :: r ++ toksBytes A, s :: r ++ toksBytes A', by rw [e]; simp, by rw [e]; simp, hw,
          Or.inr ⟨⟨s, _, rfl, hs⟩, ⟨s, _, rfl, hs⟩⟩⟩
    · have f : bytesOf t.value ++ toksBytes A =
          .lead c0 :: (List.replicate (c0.utf8Size - 1) .cont ++ bytesOf r0 ++ toksBytes A) := by
        rw [e0]; simp [bytesOf, charBytes]
      have f' : bytesOf u.value ++ toksBytes A' =
          .lead c0' :: (List.replicate (c0'.utf8Size - 1) .cont ++ bytesOf r0' ++ toksBytes A') := by
        rw [e0']; simp [bytesOf, charBytes]
      exact ⟨[], _, _, rfl, rfl, by simp, Or.inr ⟨⟨.lead c0, _, f, isStopB_lead c0 n0⟩, ⟨.lead c0', _, f', isStopB_lead c0' n0'⟩⟩⟩

/-- the bytes in front of a token boundary, read backwards, agree (`B`, `B'`: the tokens in front, nearest first) -/
theorem agreeL_toks : ∀ (B B' : List Token), TokPairs B B' →
    AgreeL (toksBytes B.reverse).reverse (toksBytes B'.reverse).reverse
  | [], [], _ => ⟨[], [], [], rfl, rfl, by simp, Or.inl ⟨rfl, rfl⟩⟩
  | [], _ :: _, h => absurd h (by simp [TokPairs])
  | _ :: _, [], h => absurd h (by simp [TokPairs])
  | t :: B, u :: B', h => by
    obtain ⟨htu, hrest⟩ := h
    simp only [List.reverse_cons, toksBytes_append, List.reverse_append]
    have e1 : toksBytes [t] = bytesOf t.value := by simp [toksBytes]
    have e2 : toksBytes [u] = bytesOf u.value := by simp [toksBytes]
    rw [e1, e2]
    rcases htu with ⟨_, _, hv⟩ | ⟨_, _, ⟨_, ⟨w1, c1, f1, n1⟩⟩, ⟨_, ⟨w1', c1', f1', n1'⟩⟩⟩
    · rw [← hv]
      obtain ⟨w, rest, e, hw, hr⟩ := bytesOf_split_ws_rev t.value
      rcases hr with rfl | ⟨cs, s, r, rfl, hcs, hs⟩
      · obtain ⟨w2, tx, ty, g1, g2, hw2, ht⟩ := agreeL_toks B B' hrest
        refine ⟨w ++ w2, tx, ty, ?_, ?_, ?_, ht⟩
        · rw [e, g1]; simp
        · rw [e, g2]; simp
        · intro z hz
          rcases List.mem_append.mp hz with hz | hz
          · exact hw z hz
          · exact hw2 z hz
      · refine ⟨w, cs ++ s :: (r ++ (toksBytes B.reverse).reverse), cs ++ s :: (r ++ (toksBytes B'.reverse).reverse),
          by rw [e]; simp, by rw [e]; simp, hw, Or.inr ⟨⟨cs, s, _, rfl, hcs, hs⟩, ⟨cs, s, _, rfl, hcs, hs⟩⟩⟩
    · have g : (bytesOf t.value).reverse ++ (toksBytes B.reverse).reverse =
          List.replicate (c1.utf8Size - 1) .cont ++ .lead c1 :: ((bytesOf w1).reverse ++ (toksBytes B.reverse).reverse) := by
        rw [f1, bytesOf_append, List.reverse_append]
        simp [bytesOf, charBytes]
      have g' : (bytesOf u.value).reverse ++ (toksBytes B'.reverse).reverse =
          List.replicate (c1'.utf8Size - 1) .cont ++ .lead c1' :: ((bytesOf w1').reverse ++ (toksBytes B'.reverse).reverse) := by
        rw [f1', bytesOf_append, List.reverse_append]
        simp [bytesOf, charBytes]
      exact ⟨[], _, _, rfl, rfl, by simp, Or.inr
        ⟨⟨List.replicate (c1.utf8Size - 1) .cont, .lead c1, _, g, fun z hz => (List.mem_replicate.mp hz).2, isStopB_lead c1 n1⟩,
         ⟨List.replicate (c1'.utf8Size - 1) .cont, .lead c1', _, g', fun z hz => (List.mem_replicate.mp hz).2, isStopB_lead c1' n1'⟩⟩⟩

theorem tokPairs_take : ∀ (k : Nat) (L L' : List Token), TokPairs L L' → TokPairs (L.take k) (L'.take k)
  | 0, _, _, _ => by simp [TokPairs]
  | _ + 1, [], [], _ => by simp [TokPairs]
  | _ + 1, [], _ :: _, h => absurd h (by simp [TokPairs])
  | _ + 1, _ :: _, [], h => absurd h (by simp [TokPairs])
  | k + 1, t :: L, u :: L', h => ⟨h.1, tokPairs_take k L L' h.2⟩

theorem tokPairs_drop : ∀ (k : Nat) (L L' : List Token), TokPairs L L' → TokPairs (L.drop k) (L'.drop k)
  | 0, _, _, h => by simpa using h
  | _ + 1, [], [], _ => by simp [TokPairs]
  | _ + 1, [], _ :: _, h => absurd h (by simp [TokPairs])
  | _ + 1, _ :: _, [], h => absurd h (by simp [TokPairs])
  | k + 1, t :: L, u :: L', h => by simpa using tokPairs_drop k L L' h.2

theorem tokPairs_reverse_aux : ∀ (L L' acc acc' : List Token), TokPairs L L' → TokPairs acc acc' →
    TokPairs (L.reverseAux acc) (L'.reverseAux acc')
  | [], [], _, _, _, h => h
  | [], _ :: _, _, _, h, _ => absurd h (by simp [TokPairs])
  | _ :: _, [], _, _, h, _ => absurd h (by simp [TokPairs])
  | t :: L, u :: L', acc, acc', h, ha => tokPairs_reverse_aux L L' (t :: acc) (u :: acc') h.2 ⟨h.1, ha⟩

theorem tokPairs_reverse (L L' : List Token) (h : TokPairs L L') : TokPairs L.reverse L'.reverse :=
  tokPairs_reverse_aux L L' [] [] h trivial

theorem toksBytes_take (L : List Token) (k : Nat) : (toksBytes L).take (bnd L k) = toksBytes (L.take k) := by
  have h := List.take_append_drop k L
  have e : toksBytes L = toksBytes (L.take k) ++ toksBytes (L.drop k) := by
    conv => lhs; rw [← h]
    exact toksBytes_append _ _
  rw [e, ← toksBytes_length_take L k, List.take_left']
  rfl

theorem toksBytes_drop (L : List Token) (k : Nat) : (toksBytes L).drop (bnd L k) = toksBytes (L.drop k) := by
  have h := List.take_append_drop k L
  have e : toksBytes L = toksBytes (L.take k) ++ toksBytes (L.drop k) := by
    conv => lhs; rw [← h]
    exact toksBytes_append _ _
  rw [e, ← toksBytes_length_take L k, List.drop_left']
  rfl

/-- the two contexts of the `k`-th token boundary agree in the two texts -/
theorem ctx_agree (L L' : List Token) (h : TokPairs L L') (k : Nat) :
    AgreeL (ctxL (toksBytes L) (bnd L k)) (ctxL (toksBytes L') (bnd L' k)) ∧
    AgreeR (ctxR (toksBytes L) (bnd L k)) (ctxR (toksBytes L') (bnd L' k)) := by
  unfold ctxL ctxR
  rw [toksBytes_take, toksBytes_take, toksBytes_drop, toksBytes_drop]
  refine ⟨?_, agreeR_toks _ _ (tokPairs_drop k L L' h)⟩
  have := agreeL_toks (L.take k).reverse (L'.take k).reverse (tokPairs_reverse _ _ (tokPairs_take k L L' h))
  simpa using this

end Chiritori
