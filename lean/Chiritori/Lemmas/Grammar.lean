import Chiritori.Spec.Tag
/-
  The 8-state machine of element_parser.rs on a rendered grammar tag.
-/
namespace Chiritori
open Spec

abbrev run (s : Pairs × EState) (cs : List Char) : Pairs × EState := cs.foldl elStep s

theorem run_append (s : Pairs × EState) (a b : List Char) : run s (a ++ b) = run (run s a) b := by
  simp [run, List.foldl_append]

theorem sep_cases (c : Char) (h : isSep c = true) : c = ' ' ∨ c = '\n' := by
  simpa [isSep] using h

theorem nameChar_facts (c : Char) (h : nameChar c = true) : c ≠ ' ' ∧ c ≠ '\n' ∧ c ≠ '=' := by
  have : (¬c = ' ' ∧ ¬c = '\n') ∧ ¬c = '=' := by simpa [nameChar, not_or] using h
  exact ⟨this.1.1, this.1.2, this.2⟩

/-- M2: separators are skipped in NameBegin / NameEnd -/
theorem run_seps_ready (pairs : Pairs) (st : EState) (hst : st = .nameBegin ∨ st = .nameEnd) (sep : List Char)
    (hsep : ∀ c ∈ sep, isSep c = true) : run (pairs, st) sep = (pairs, st) := by
  induction sep with
  | nil => rfl
  | cons c cs ih =>
    have hc := sep_cases c (hsep c (by simp))
    have : elStep (pairs, st) c = (pairs, st) := by
      rcases hst with h | h <;> subst h <;> simp [elStep, hc]
    simp only [run, List.foldl_cons, this]
    exact ih (fun x hx => hsep x (by simp [hx]))

/-- M1: the first separator after a name ends it -/
theorem run_seps_name (pairs : Pairs) (a : List Char) (sep : List Char) (hne : sep ≠ [])
    (hsep : ∀ c ∈ sep, isSep c = true) : run (pairs, .name a) sep = (pairs ++ [(a, none)], .nameEnd) := by
  cases sep with
  | nil => exact absurd rfl hne
  | cons c cs =>
    have hc := sep_cases c (hsep c (by simp))
    have : elStep (pairs, .name a) c = (pairs ++ [(a, none)], .nameEnd) := by simp [elStep, hc]
    simp only [run, List.foldl_cons, this]
    exact run_seps_ready _ _ (Or.inr rfl) cs (fun x hx => hsep x (by simp [hx]))

theorem run_name_chars (pairs : Pairs) (acc cs : List Char) (h : ∀ x ∈ cs, nameChar x = true) :
    run (pairs, .name acc) cs = (pairs, .name (acc ++ cs)) := by
  induction cs generalizing acc with
  | nil => simp [run]
  | cons c rest ih =>
    obtain ⟨h1, h2, h3⟩ := nameChar_facts c (h c (by simp))
    have : elStep (pairs, .name acc) c = (pairs, .name (acc ++ [c])) := by simp [elStep, h1, h2, h3]
    simp only [run, List.foldl_cons, this]
    have := ih (acc ++ [c]) (fun x hx => h x (by simp [hx]))
    simpa [run] using this

/-- M3: a name read from NameBegin / NameEnd -/
theorem run_name (pairs : Pairs) (st : EState) (hst : st = .nameBegin ∨ st = .nameEnd) (n : List Char) (hn : NameOK n) :
    run (pairs, st) n = (pairs, .name n) := by
  obtain ⟨c, cs, rfl, hc, hcs⟩ := hn
  simp only [nameStart, Bool.and_eq_true, Bool.not_eq_true', Bool.or_eq_false_iff, beq_eq_false_iff_ne] at hc
  obtain ⟨h0, hq1, hq2⟩ := hc
  obtain ⟨h1, h2, h3⟩ := nameChar_facts c h0
  have : elStep (pairs, st) c = (pairs, .name [c]) := by
    rcases hst with h | h <;> subst h <;> simp [elStep, h1, h2, h3, hq1, hq2]
  simp only [run, List.foldl_cons, this]
  have := run_name_chars pairs [c] cs hcs
  simpa [run] using this

theorem run_spaces_valueBegin (pairs : Pairs) (r : Nat) :
    run (pairs, .valueBegin) (List.replicate r ' ') = (pairs, .valueBegin) := by
  induction r with
  | zero => rfl
  | succ r ih => simp only [List.replicate_succ, run, List.foldl_cons, elStep]; simpa [run] using ih

theorem run_spaces_nameEnd (pairs : Pairs) (r : Nat) :
    run (pairs, .nameEnd) (List.replicate r ' ') = (pairs, .nameEnd) := by
  induction r with
  | zero => rfl
  | succ r ih => simp only [List.replicate_succ, run, List.foldl_cons, elStep]; simpa [run] using ih

theorem setLastValue_append (pairs : Pairs) (n v : List Char) :
    setLastValue (pairs ++ [(n, none)]) v = pairs ++ [(n, some v)] := by
  simp [setLastValue]

theorem run_value_dq (pairs : Pairs) (acc v : List Char) (h : '"' ∉ v) :
    run (pairs, .valueDq acc) (v ++ ['"']) = (setLastValue pairs (acc ++ v), .nameBegin) := by
  induction v generalizing acc with
  | nil => simp [run, elStep]
  | cons c cs ih =>
    have hc : c ≠ '"' := by intro hh; exact h (by simp [hh])
    have : elStep (pairs, .valueDq acc) c = (pairs, .valueDq (acc ++ [c])) := by simp [elStep, hc]
    simp only [List.cons_append, run, List.foldl_cons, this]
    have := ih (acc ++ [c]) (fun hh => h (by simp [hh]))
    simpa [run] using this

theorem run_value_sq (pairs : Pairs) (acc v : List Char) (h : '\'' ∉ v) :
    run (pairs, .valueSq acc) (v ++ ['\'']) = (setLastValue pairs (acc ++ v), .nameBegin) := by
  induction v generalizing acc with
  | nil => simp [run, elStep]
  | cons c cs ih =>
    have hc : c ≠ '\'' := by intro hh; exact h (by simp [hh])
    have : elStep (pairs, .valueSq acc) c = (pairs, .valueSq (acc ++ [c])) := by simp [elStep, hc]
    simp only [List.cons_append, run, List.foldl_cons, this]
    have := ih (acc ++ [c]) (fun hh => h (by simp [hh]))
    simpa [run] using this

/-- M4: `[spaces] = [spaces] q value q` after a name -/
theorem run_quoted_tail (pairs : Pairs) (n : List Char) (l r : Nat) (q : Char) (v : List Char)
    (hq : q = '"' ∨ q = '\'') (hv : q ∉ v) :
    run (pairs, .name n) (List.replicate l ' ' ++ ('=' :: (List.replicate r ' ' ++ (q :: (v ++ [q])))))
      = (pairs ++ [(n, some v)], .nameBegin) := by
  -- up to and including '='
  have h1 : run (pairs, .name n) (List.replicate l ' ' ++ ['=']) = (pairs ++ [(n, none)], .valueBegin) := by
    cases l with
    | zero => simp [run, elStep]
    | succ l =>
      simp only [List.replicate_succ, List.cons_append, run, List.foldl_cons]
      have : elStep (pairs, .name n) ' ' = (pairs ++ [(n, none)], .nameEnd) := by simp [elStep]
      rw [this]
      have h2 := run_spaces_nameEnd (pairs ++ [(n, none)]) l
      simp only [run] at h2
      rw [List.foldl_append, h2]
      simp [elStep]
  have e : List.replicate l ' ' ++ ('=' :: (List.replicate r ' ' ++ (q :: (v ++ [q]))))
      = (List.replicate l ' ' ++ ['=']) ++ (List.replicate r ' ' ++ (q :: (v ++ [q]))) := by simp
  rw [e, run_append, h1, run_append, run_spaces_valueBegin]
  rcases hq with hq | hq
  · subst hq
    have : elStep (pairs ++ [(n, none)], .valueBegin) '"' = (pairs ++ [(n, none)], .valueDq []) := by simp [elStep]
    simp only [run, List.foldl_cons, this]
    have := run_value_dq (pairs ++ [(n, none)]) [] v hv
    simp only [run, List.nil_append] at this
    rw [this, setLastValue_append]
  · subst hq
    have : elStep (pairs ++ [(n, none)], .valueBegin) '\'' = (pairs ++ [(n, none)], .valueSq []) := by simp [elStep]
    simp only [run, List.foldl_cons, this]
    have := run_value_sq (pairs ++ [(n, none)]) [] v hv
    simp only [run, List.nil_append] at this
    rw [this, setLastValue_append]

/-- the pairs a state stands for once a pending name is pushed -/
def flushS (s : Pairs × EState) : Pairs :=
  match s.2 with
  | .name a => s.1 ++ [(a, none)]
  | _ => s.1

def GoodS (s : Pairs × EState) : Prop := (∃ a, s.2 = .name a) ∨ s.2 = .nameBegin

/-- one attribute with its separator -/
theorem run_attr (s : Pairs × EState) (hs : GoodS s) (sep : List Char) (a : AttrS)
    (hne : sep ≠ []) (hsep : ∀ c ∈ sep, isSep c = true) (ha : a.ok) :
    GoodS (run s (sep ++ a.render)) ∧ flushS (run s (sep ++ a.render)) = flushS s ++ [a.parsed] := by
  obtain ⟨pairs, st⟩ := s
  -- after the separator: a ready state whose pairs are `flushS s`
  have hready : ∃ st', (st' = EState.nameBegin ∨ st' = EState.nameEnd) ∧ run (pairs, st) sep = (flushS (pairs, st), st') := by
    rcases hs with ⟨a0, h⟩ | h
    · simp only at h; subst h
      exact ⟨.nameEnd, Or.inr rfl, by rw [run_seps_name pairs a0 sep hne hsep]; rfl⟩
    · simp only at h; subst h
      exact ⟨.nameBegin, Or.inl rfl, by rw [run_seps_ready pairs _ (Or.inl rfl) sep hsep]; rfl⟩
  obtain ⟨st', hst', hrun⟩ := hready
  rw [run_append, hrun]
  cases a with
  | bare n =>
    simp only [AttrS.render, AttrS.parsed]
    rw [run_name _ st' hst' n ha]
    exact ⟨Or.inl ⟨n, rfl⟩, rfl⟩
  | quoted n l r q v =>
    obtain ⟨hn, hq, hv⟩ := ha
    simp only [AttrS.render, AttrS.parsed]
    rw [run_append, run_name _ st' hst' n hn, run_quoted_tail _ n l r q v hq hv]
    exact ⟨Or.inr rfl, rfl⟩

theorem run_attrs (attrs : List (List Char × AttrS)) : ∀ (s : Pairs × EState), GoodS s →
    (∀ sa ∈ attrs, sa.1 ≠ [] ∧ (∀ c ∈ sa.1, isSep c = true) ∧ sa.2.ok) →
    GoodS (run s (renderAttrs attrs)) ∧
    flushS (run s (renderAttrs attrs)) = flushS s ++ attrs.map (fun sa => sa.2.parsed) := by
  induction attrs with
  | nil => intro s hs _; simp [renderAttrs, run, hs]
  | cons sa rest ih =>
    intro s hs h
    obtain ⟨sep, a⟩ := sa
    obtain ⟨h1, h2, h3⟩ := h (sep, a) (by simp)
    obtain ⟨g1, g2⟩ := run_attr s hs sep a h1 h2 h3
    simp only [renderAttrs]
    rw [← List.append_assoc, run_append]
    obtain ⟨i1, i2⟩ := ih _ g1 (fun x hx => h x (by simp [hx]))
    refine ⟨i1, ?_⟩
    rw [i2, g2]
    simp

/-- C09: a grammar tag parses to exactly its name and attributes -/
theorem parseBody_render (t : TagS) (ht : t.ok) : parseBody t.render = some t.expected := by
  obtain ⟨hn, hattrs, hpad⟩ := ht
  unfold parseBody TagS.render
  -- padding and name
  have h0 : run ([], .nameBegin) (List.replicate t.padL ' ') = ([], .nameBegin) := by
    apply run_seps_ready _ _ (Or.inl rfl)
    intro c hc
    rw [List.mem_replicate] at hc
    simp [isSep, hc.2]
  have h1 : run ([], .nameBegin) (List.replicate t.padL ' ' ++ t.name) = ([], .name t.name) := by
    rw [run_append, h0, run_name _ _ (Or.inl rfl) t.name hn]
  obtain ⟨g1, g2⟩ := run_attrs t.attrs ([], .name t.name) (Or.inl ⟨_, rfl⟩) hattrs
  have hfold : (List.replicate t.padL ' ' ++ (t.name ++ (renderAttrs t.attrs ++ t.padR))).foldl elStep ([], .nameBegin)
      = run (run ([], .name t.name) (renderAttrs t.attrs)) t.padR := by
    have : List.replicate t.padL ' ' ++ (t.name ++ (renderAttrs t.attrs ++ t.padR))
        = (List.replicate t.padL ' ' ++ t.name) ++ (renderAttrs t.attrs ++ t.padR) := by simp
    rw [this]
    show run _ _ = _
    rw [run_append, h1, run_append]
  rw [hfold]
  generalize hS : run ([], EState.name t.name) (renderAttrs t.attrs) = S at g1 g2
  obtain ⟨pairs, st⟩ := S
  simp only [flushS] at g2
  -- the trailing padding
  have hfinal : ∃ st', st' ≠ EState.parseError ∧
      (match run (pairs, st) t.padR with
        | (p, EState.name a) => (p ++ [(a, none)], EState.name a)
        | (p, s') => (p, s')) = ([(t.name, none)] ++ t.attrs.map (fun sa => sa.2.parsed), st') := by
    rcases g1 with ⟨a0, h⟩ | h
    · simp only at h; subst h
      simp only at g2
      by_cases hp : t.padR = []
      · rw [hp]; exact ⟨.name a0, by simp, by simp [run, g2]⟩
      · rw [run_seps_name pairs a0 t.padR hp hpad]
        exact ⟨.nameEnd, by simp, by simp [g2]⟩
    · simp only at h; subst h
      simp only at g2
      rw [run_seps_ready pairs _ (Or.inl rfl) t.padR hpad]
      exact ⟨.nameBegin, by simp, by simp [g2]⟩
  obtain ⟨st', hne, hm⟩ := hfinal
  generalize hR : run (pairs, st) t.padR = Rr at hm
  obtain ⟨p, s'⟩ := Rr
  cases s' with
  | name a =>
    simp only at hm ⊢
    injection hm with hm1 hm2
    subst hm2
    rw [hm1]
    simp [TagS.expected]
  | nameBegin | nameEnd | valueBegin | valueNoQuote | valueDq _ | valueSq _ =>
    simp only at hm ⊢
    injection hm with hm1 hm2
    rw [hm1]
    simp [TagS.expected]
  | parseError =>
    simp only at hm
    injection hm with _ hm2
    exact absurd hm2.symm hne

end Chiritori
