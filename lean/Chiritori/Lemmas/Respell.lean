import Chiritori.Lemmas.RelParse
import Chiritori.Props.C09
/-
  The same document under two delimiter pairs: its tokens correspond one to one (texts equal, tags with the same
  body), they parse to forests of the same shape with the same elements, and pruning / flattening keeps the
  correspondence.  The documents are sequences of pieces whose characters avoid both delimiter pairs - the
  domain of C18.
-/
namespace Chiritori
open Spec

def FreeOf (cs body : List Char) : Prop := ∀ c ∈ body, c ∉ cs

/-- stripping the delimiters from `ds ++ body ++ de` gives `body` back: the body does not begin with the start
    delimiter (nor does a start delimiter begin in the body and run into the end delimiter), and it does not end with
    the end delimiter -/
def StripOK (ds de body : List Char) : Prop :=
  ds.isPrefixOf (body ++ de) = false ∧ de.reverse.isPrefixOf body.reverse = false

/-- the same text, or the same tag body under the two delimiter pairs -/
def TokX0 (ds de ds' de' : List Char) (t u : Token) : Prop :=
  t.kind = u.kind ∧
    ((t.kind = .text ∧ t.value = u.value) ∨
     (t.kind = .element ∧ ∃ body, body ≠ [] ∧ t.value = ds ++ body ++ de ∧ u.value = ds' ++ body ++ de' ∧
        StripOK ds de body ∧ StripOK ds' de' body))

theorem isPrefixOf_false_of_head (ds body rest : List Char) (hds : ds ≠ []) (hb : body ≠ [])
    (hf : ∀ c ∈ body, c ∉ ds) : ds.isPrefixOf (body ++ rest) = false := by
  cases ds with
  | nil => exact absurd rfl hds
  | cons d dr =>
    cases body with
    | nil => exact absurd rfl hb
    | cons b bs =>
      have : d ≠ b := by
        intro h; subst h
        exact hf d (by simp) (by simp)
      simp [List.isPrefixOf, this]

theorem elparse_free (ds de body : List Char) (t : Token) (hds : ds ≠ []) (hde : de ≠ []) (hb : body ≠ [])
    (hk : t.kind = .element) (hv : t.value = ds ++ body ++ de) (hf : FreeOf (ds ++ de) body) :
    elparse ds de t = parseBody body := by
  apply Props.C09.elparse_of_body ds de body t hds hde hb hk hv
  · exact isPrefixOf_false_of_head ds body de hds hb (fun c hc hm => hf c hc (by simp [hm]))
  · have := isPrefixOf_false_of_head de.reverse body.reverse [] (by simpa using hde) (by simpa using hb)
      (fun c hc hm => hf c (by simpa using hc) (by simp at hm; simp [hm]))
    simpa using this

/-- a body none of whose characters occurs in the delimiters can be stripped -/
theorem stripOK_of_free (ds de body : List Char) (hds : ds ≠ []) (hde : de ≠ []) (hb : body ≠ [])
    (hf : FreeOf (ds ++ de) body) : StripOK ds de body := by
  refine ⟨isPrefixOf_false_of_head ds body de hds hb (fun c hc hm => hf c hc (by simp [hm])), ?_⟩
  have := isPrefixOf_false_of_head de.reverse body.reverse [] (by simpa using hde) (by simpa using hb)
    (fun c hc hm => hf c (by simpa using hc) (by simp at hm; simp [hm]))
  simpa using this

theorem elparse_x (ds de ds' de' : List Char) (hds : ds ≠ []) (hde : de ≠ []) (hds' : ds' ≠ []) (hde' : de' ≠ [])
    (t u : Token) (h : TokX0 ds de ds' de' t u) : elparse ds de t = elparse ds' de' u := by
  obtain ⟨hk, h | h⟩ := h
  · obtain ⟨hkt, _⟩ := h
    have hku : u.kind = .text := by rw [← hk]; exact hkt
    simp [elparse, hkt, hku]
  · obtain ⟨hkt, body, hb, hv, hv', hf, hf'⟩ := h
    have hku : u.kind = .element := by rw [← hk]; exact hkt
    rw [Props.C09.elparse_of_body ds de body t hds hde hb hkt hv hf.1 hf.2,
      Props.C09.elparse_of_body ds' de' body u hds' hde' hb hku hv' hf'.1 hf'.2]

/-! ### forests of the same shape -/

section
variable (ds de ds' de' : List Char) (R : Token → Token → Prop)

/-- corresponding tokens, with any further relation `R` carried along (e.g. equal line numbers) -/
def TokX (t u : Token) : Prop := TokX0 ds de ds' de' t u ∧ R t u

mutual
def partsX : List Part → List Part → Prop
  | [], [] => True
  | p :: ps, q :: qs => partX p q ∧ partsX ps qs
  | [], _ :: _ => False
  | _ :: _, [] => False
def partX : Part → Part → Prop
  | .text t, .text u => TokX ds de ds' de' R t u
  | .element el st en ch, .element el' st' en' ch' =>
    el = el' ∧ TokX ds de ds' de' R st st' ∧ TokX ds de ds' de' R en en' ∧ partsX ch ch'
  | .text _, .element _ _ _ _ => False
  | .element _ _ _ _, .text _ => False
end

theorem partsX_append : ∀ (a b c d : List Part), partsX ds de ds' de' R a b → partsX ds de ds' de' R c d →
    partsX ds de ds' de' R (a ++ c) (b ++ d)
  | [], [], _, _, _, h2 => by simpa using h2
  | [], _ :: _, _, _, h1, _ => absurd h1 (by simp [partsX])
  | _ :: _, [], _, _, h1, _ => absurd h1 (by simp [partsX])
  | p :: ps, q :: qs, c, d, h1, h2 => by
    simp only [partsX] at h1
    simp only [List.cons_append, partsX]
    exact ⟨h1.1, partsX_append ps qs c d h1.2 h2⟩

/-- token lists related one by one -/
def TokXs : List Token → List Token → Prop
  | [], [] => True
  | t :: ts, u :: us => TokX ds de ds' de' R t u ∧ TokXs ts us
  | [], _ :: _ => False
  | _ :: _, [] => False

theorem TokXs_append : ∀ (a b c d : List Token), TokXs ds de ds' de' R a b → TokXs ds de ds' de' R c d →
    TokXs ds de ds' de' R (a ++ c) (b ++ d)
  | [], [], _, _, _, h2 => by simpa using h2
  | [], _ :: _, _, _, h1, _ => absurd h1 (by simp [TokXs])
  | _ :: _, [], _, _, h1, _ => absurd h1 (by simp [TokXs])
  | p :: ps, q :: qs, c, d, h1, h2 => by
    simp only [TokXs] at h1
    simp only [List.cons_append, TokXs]
    exact ⟨h1.1, TokXs_append ps qs c d h1.2 h2⟩

mutual
theorem flatten_x : ∀ (a b : List Part), partsX ds de ds' de' R a b → TokXs ds de ds' de' R (flattenParts a) (flattenParts b)
  | [], [], _ => trivial
  | [], _ :: _, h => absurd h (by simp [partsX])
  | _ :: _, [], h => absurd h (by simp [partsX])
  | p :: ps, q :: qs, h => by
    simp only [partsX] at h
    simp only [flattenParts]
    exact TokXs_append ds de ds' de' R _ _ _ _ (flattenPart_x p q h.1) (flatten_x ps qs h.2)
theorem flattenPart_x : ∀ (p q : Part), partX ds de ds' de' R p q → TokXs ds de ds' de' R (flattenPart p) (flattenPart q)
  | .text t, .text u, h => by simp only [partX] at h; exact ⟨h, trivial⟩
  | .text _, .element _ _ _ _, h => absurd h (by simp [partX])
  | .element _ _ _ _, .text _, h => absurd h (by simp [partX])
  | .element el st en ch, .element el' st' en' ch', h => by
    simp only [partX] at h
    obtain ⟨_, h2, h3, h4⟩ := h
    simp only [flattenPart]
    have := TokXs_append ds de ds' de' R _ _ [en] [en'] (flatten_x ch ch' h4) ⟨h3, trivial⟩
    exact ⟨h2, this⟩
end

mutual
theorem prune_x (P : Element → Bool) : ∀ (a b : List Part), partsX ds de ds' de' R a b →
    partsX ds de ds' de' R (pruneParts P a) (pruneParts P b)
  | [], [], _ => trivial
  | [], _ :: _, h => absurd h (by simp [partsX])
  | _ :: _, [], h => absurd h (by simp [partsX])
  | p :: ps, q :: qs, h => by
    simp only [partsX] at h
    simp only [pruneParts]
    exact partsX_append ds de ds' de' R _ _ _ _ (prunePart_x P p q h.1) (prune_x P ps qs h.2)
theorem prunePart_x (P : Element → Bool) : ∀ (p q : Part), partX ds de ds' de' R p q →
    partsX ds de ds' de' R (prunePart P p) (prunePart P q)
  | .text t, .text u, h => by simp only [partX] at h; simp only [prunePart, partsX, partX]; exact ⟨h, trivial⟩
  | .text _, .element _ _ _ _, h => absurd h (by simp [partX])
  | .element _ _ _ _, .text _, h => absurd h (by simp [partX])
  | .element el st en ch, .element el' st' en' ch', h => by
    simp only [partX] at h
    obtain ⟨h1, h2, h3, h4⟩ := h
    subst h1
    simp only [prunePart]
    split
    · trivial
    · simp only [partsX, partX]
      exact ⟨⟨trivial, h2, h3, prune_x P ch ch' h4⟩, trivial⟩
end

mutual
theorem elements_x : ∀ (a b : List Part), partsX ds de ds' de' R a b →
    (elementsOf a).map (·.1) = (elementsOf b).map (·.1)
  | [], [], _ => rfl
  | [], _ :: _, h => absurd h (by simp [partsX])
  | _ :: _, [], h => absurd h (by simp [partsX])
  | p :: ps, q :: qs, h => by
    simp only [partsX] at h
    simp only [elementsOf, List.map_append, elementsPart_x p q h.1, elements_x ps qs h.2]
theorem elementsPart_x : ∀ (p q : Part), partX ds de ds' de' R p q →
    (elementsOfPart p).map (·.1) = (elementsOfPart q).map (·.1)
  | .text t, .text u, _ => by simp [elementsOfPart]
  | .text _, .element _ _ _ _, h => absurd h (by simp [partX])
  | .element _ _ _ _, .text _, h => absurd h (by simp [partX])
  | .element el st en ch, .element el' st' en' ch', h => by
    simp only [partX] at h
    obtain ⟨h1, _, _, h4⟩ := h
    simp only [elementsOfPart, List.map_cons, h1, elements_x ch ch' h4]
end

/-! ### the stack machine under the two delimiter pairs -/

def FrameX (f g : Frame) : Prop :=
  f.el = g.el ∧ TokX ds de ds' de' R f.tok g.tok ∧ partsX ds de ds' de' R f.parts g.parts

def StackX : List Frame → List Frame → Prop
  | [], [] => True
  | f :: fs, g :: gs => FrameX ds de ds' de' R f g ∧ StackX fs gs
  | [], _ :: _ => False
  | _ :: _, [] => False

def StateX (s t : List Frame × List Part) : Prop := StackX ds de ds' de' R s.1 t.1 ∧ partsX ds de ds' de' R s.2 t.2

theorem appendTo_x (S S' : List Frame) (r r' x x' : List Part) (hS : StackX ds de ds' de' R S S')
    (hr : partsX ds de ds' de' R r r') (hx : partsX ds de ds' de' R x x') :
    StateX ds de ds' de' R (appendTo S r x) (appendTo S' r' x') := by
  cases S with
  | nil =>
    cases S' with
    | nil => exact ⟨trivial, partsX_append ds de ds' de' R _ _ _ _ hr hx⟩
    | cons g gs => exact absurd hS (by simp [StackX])
  | cons f fs =>
    cases S' with
    | nil => exact absurd hS (by simp [StackX])
    | cons g gs =>
      obtain ⟨⟨a1, a2, a3⟩, hrest⟩ := hS
      exact ⟨⟨⟨a1, a2, partsX_append ds de ds' de' R _ _ _ _ a3 hx⟩, hrest⟩, hr⟩

theorem stackX_any (x : List Char) : ∀ (S S' : List Frame), StackX ds de ds' de' R S S' →
    S.any (fun f => f.el.name == x) = S'.any (fun f => f.el.name == x)
  | [], [], _ => rfl
  | [], _ :: _, h => absurd h (by simp [StackX])
  | _ :: _, [], h => absurd h (by simp [StackX])
  | f :: fs, g :: gs, h => by
    obtain ⟨⟨a1, _, _⟩, hrest⟩ := h
    simp only [List.any_cons, a1, stackX_any x fs gs hrest]

def OptX : Option (List Frame × List Part) → Option (List Frame × List Part) → Prop
  | some a, some b => StateX ds de ds' de' R a b
  | none, none => True
  | some _, none => False
  | none, some _ => False

theorem closeFrame_x (name : List Char) (c c' : Token) (hc : TokX ds de ds' de' R c c') :
    ∀ (S S' : List Frame) (r r' h h' : List Part), StackX ds de ds' de' R S S' → partsX ds de ds' de' R r r' →
    partsX ds de ds' de' R h h' → OptX ds de ds' de' R (closeFrame name c S r h) (closeFrame name c' S' r' h')
  | [], [], _, _, _, _, _, _, _ => by simp [closeFrame, OptX]
  | [], _ :: _, _, _, _, _, hS, _, _ => absurd hS (by simp [StackX])
  | _ :: _, [], _, _, _, _, hS, _, _ => absurd hS (by simp [StackX])
  | f :: fs, g :: gs, r, r', h, h', hS, hr, hh => by
    obtain ⟨⟨a1, a2, a3⟩, hrest⟩ := hS
    simp only [closeFrame, ← a1]
    split
    · simp only [OptX]
      apply appendTo_x ds de ds' de' R fs gs r r' _ _ hrest hr
      simp only [partsX, partX]
      exact ⟨⟨trivial, a2, hc, partsX_append ds de ds' de' R _ _ _ _ a3 hh⟩, trivial⟩
    · apply closeFrame_x name c c' hc fs gs r r' _ _ hrest hr
      simp only [partsX, partX]
      exact ⟨a2, partsX_append ds de ds' de' R _ _ _ _ a3 hh⟩

theorem stackStep_x (hds : ds ≠ []) (hde : de ≠ []) (hds' : ds' ≠ []) (hde' : de' ≠ [])
    (st st' : List Frame × List Part) (t u : Token) (h : StateX ds de ds' de' R st st')
    (htu : TokX ds de ds' de' R t u) : StateX ds de ds' de' R (stackStep ds de st t) (stackStep ds' de' st' u) := by
  obtain ⟨S, r⟩ := st
  obtain ⟨S', r'⟩ := st'
  obtain ⟨hS, hr⟩ := h
  simp only at hS hr
  simp only [stackStep, ← elparse_x ds de ds' de' hds hde hds' hde' t u htu.1]
  cases hel : elparse ds de t with
  | none =>
    apply appendTo_x ds de ds' de' R S S' r r' _ _ hS hr
    simp only [partsX, partX]
    exact ⟨htu, trivial⟩
  | some el =>
    simp only
    rw [← stackX_any ds de ds' de' R _ S S' hS]
    split
    · have := closeFrame_x ds de ds' de' R (trimSlashes el.name) t u htu S S' r r' [] [] hS hr trivial
      revert this
      cases closeFrame (trimSlashes el.name) t S r [] <;> cases closeFrame (trimSlashes el.name) u S' r' [] <;>
        simp only [OptX] <;> intro this
      · exact ⟨hS, hr⟩
      · exact this.elim
      · exact this.elim
      · exact this
    · exact ⟨⟨⟨rfl, htu, trivial⟩, hS⟩, hr⟩

theorem runM_x (hds : ds ≠ []) (hde : de ≠ []) (hds' : ds' ≠ []) (hde' : de' ≠ []) :
    ∀ (T T' : List Token), TokXs ds de ds' de' R T T' → ∀ (st st' : List Frame × List Part), StateX ds de ds' de' R st st' →
    StateX ds de ds' de' R (runM ds de st T) (runM ds' de' st' T')
  | [], [], _, st, st', h => h
  | [], _ :: _, h, _, _, _ => absurd h (by simp [TokXs])
  | _ :: _, [], h, _, _, _ => absurd h (by simp [TokXs])
  | t :: ts, u :: us, h, st, st', hst => by
    simp only [TokXs] at h
    have e1 : runM ds de st (t :: ts) = runM ds de (stackStep ds de st t) ts := by simp [runM]
    have e2 : runM ds' de' st' (u :: us) = runM ds' de' (stackStep ds' de' st' u) us := by simp [runM]
    rw [e1, e2]
    exact runM_x hds hde hds' hde' ts us h.2 _ _ (stackStep_x ds de ds' de' R hds hde hds' hde' st st' t u hst h.1)

theorem finishStack_x : ∀ (S S' : List Frame) (h h' r r' : List Part), StackX ds de ds' de' R S S' →
    partsX ds de ds' de' R h h' → partsX ds de ds' de' R r r' →
    partsX ds de ds' de' R (finishStack S h r) (finishStack S' h' r')
  | [], [], _, _, _, _, _, hh, hr => by simp only [finishStack]; exact partsX_append ds de ds' de' R _ _ _ _ hr hh
  | [], _ :: _, _, _, _, _, hS, _, _ => absurd hS (by simp [StackX])
  | _ :: _, [], _, _, _, _, hS, _, _ => absurd hS (by simp [StackX])
  | f :: fs, g :: gs, h, h', r, r', hS, hh, hr => by
    obtain ⟨⟨_, a2, a3⟩, hrest⟩ := hS
    simp only [finishStack]
    apply finishStack_x fs gs _ _ r r' hrest _ hr
    simp only [partsX, partX]
    exact ⟨a2, partsX_append ds de ds' de' R _ _ _ _ a3 hh⟩

/-- the forests of corresponding token lists correspond -/
theorem parse_x (hds : ds ≠ []) (hde : de ≠ []) (hds' : ds' ≠ []) (hde' : de' ≠ []) (T T' : List Token)
    (h : TokXs ds de ds' de' R T T') : partsX ds de ds' de' R (parse ds de T) (parse ds' de' T') := by
  rw [parse_eq_stackParse, parse_eq_stackParse]
  have := runM_x ds de ds' de' R hds hde hds' hde' T T' h ([], []) ([], []) ⟨trivial, trivial⟩
  simp only [stackParse]
  simp only [runM] at this
  generalize List.foldl (stackStep ds de) ([], []) T = s1 at this ⊢
  generalize List.foldl (stackStep ds' de') ([], []) T' = s2 at this ⊢
  obtain ⟨S, r⟩ := s1
  obtain ⟨S', r'⟩ := s2
  exact finishStack_x ds de ds' de' R S S' [] [] r r' this.1 trivial this.2

end

/-! ### the tokens of one piece list under two delimiter pairs -/

/-- every character of the piece avoids `cs` -/
def Piece.free (cs : List Char) : Piece → Prop
  | .text s => FreeOf cs s
  | .tag b0 rest => FreeOf cs (b0 :: rest)

/-- the body of a tag piece can be stripped of the delimiters -/
def Piece.strip (ds de : List Char) : Piece → Prop
  | .text _ => True
  | .tag b0 rest => StripOK ds de (b0 :: rest)

/-- a piece that fits the delimiters `ds = d0 :: _`, `de = e0 :: _`: a text without `d0`; a tag whose body has no `e0`
    behind its first character and can be stripped -/
def Piece.fits (d0 e0 : Char) (ds de : List Char) : Piece → Prop
  | .text s => ∀ c ∈ s, c ≠ d0
  | .tag b0 rest => (∀ c ∈ rest, c ≠ e0) ∧ StripOK ds de (b0 :: rest)

theorem Piece.strip_of_fits (d0 e0 : Char) (ds de : List Char) (p : Piece) (h : p.fits d0 e0 ds de) : p.strip ds de := by
  cases p with
  | text s => trivial
  | tag b0 rest => exact h.2

theorem Piece.ok_of_fits (d0 e0 : Char) (ds de : List Char) (p : Piece) (h : p.fits d0 e0 ds de) : p.ok d0 e0 := by
  cases p with
  | text s => exact h
  | tag b0 rest => exact h.1

/-- pieces none of whose characters occurs in the delimiters fit them -/
theorem Piece.fits_of_free (d0 : Char) (dr : List Char) (e0 : Char) (er : List Char) (p : Piece)
    (h : p.free ((d0 :: dr) ++ (e0 :: er))) : p.fits d0 e0 (d0 :: dr) (e0 :: er) := by
  cases p with
  | text s =>
    intro c hc hcd
    exact h c hc (by simp [hcd])
  | tag b0 rest =>
    refine ⟨?_, stripOK_of_free (d0 :: dr) (e0 :: er) (b0 :: rest) (by simp) (by simp) (by simp) h⟩
    intro c hc hce
    exact h c (by simp [hc]) (by simp [hce])

theorem tokXs_of_tnorm (ds de ds' de' : List Char) : ∀ (ps : List Piece) (acc : List Char) (T T' : List Token),
    (∀ p ∈ ps, p.strip ds de ∧ p.strip ds' de') →
    T.map (fun t => (t.kind, t.value)) = tnorm ds de [] ps acc →
    T'.map (fun t => (t.kind, t.value)) = tnorm ds' de' [] ps acc → TokXs ds de ds' de' (fun _ _ => True) T T'
  | [], acc, T, T', _, hT, hT' => by
    simp only [tnorm, List.append_nil] at hT hT'
    split at hT
    · rename_i hacc
      rw [if_pos hacc] at hT'
      cases T with
      | nil => simp at hT
      | cons x xs =>
        cases T' with
        | nil => simp at hT'
        | cons y ys =>
          simp only [List.map_cons, List.cons.injEq, Prod.mk.injEq, List.map_eq_nil_iff] at hT hT'
          obtain ⟨⟨xk, xv⟩, rfl⟩ := hT
          obtain ⟨⟨yk, yv⟩, rfl⟩ := hT'
          exact ⟨⟨⟨by rw [xk, yk], Or.inl ⟨xk, by rw [xv, yv]⟩⟩, trivial⟩, trivial⟩
    · rename_i hacc
      rw [if_neg hacc] at hT'
      simp only [List.map_eq_nil_iff] at hT hT'
      subst hT hT'
      trivial
  | .text s :: ps, acc, T, T', hf, hT, hT' => by
    simp only [tnorm] at hT hT'
    exact tokXs_of_tnorm ds de ds' de' ps (acc ++ s) T T' (fun p hp => hf p (by simp [hp])) hT hT'
  | .tag b0 rest :: ps, acc, T, T', hf, hT, hT' => by
    simp only [tnorm] at hT hT'
    obtain ⟨T12, T3, e1, hT12, hT3⟩ := map_eq_append_split _ T _ _ hT
    obtain ⟨T1, T2, e2, hT1, hT2⟩ := map_eq_append_split _ T12 _ _ hT12
    obtain ⟨U12, U3, f1, hU12, hU3⟩ := map_eq_append_split _ T' _ _ hT'
    obtain ⟨U1, U2, f2, hU1, hU2⟩ := map_eq_append_split _ U12 _ _ hU12
    subst e1 e2 f1 f2
    have ih := tokXs_of_tnorm ds de ds' de' ps [] T3 U3 (fun p hp => hf p (by simp [hp])) hT3 hU3
    obtain ⟨hfr, hfr'⟩ := hf (.tag b0 rest) (by simp)
    cases T2 with
    | nil => simp at hT2
    | cons u us =>
      cases U2 with
      | nil => simp at hU2
      | cons v vs =>
        simp only [List.map_cons, List.cons.injEq, Prod.mk.injEq, List.map_eq_nil_iff] at hT2 hU2
        obtain ⟨⟨uk, uv⟩, rfl⟩ := hT2
        obtain ⟨⟨vk, vv⟩, rfl⟩ := hU2
        have htag : TokX ds de ds' de' (fun _ _ => True) u v :=
          ⟨⟨by rw [uk, vk], Or.inr ⟨uk, b0 :: rest, by simp, by rw [uv]; simp, by rw [vv]; simp, hfr, hfr'⟩⟩, trivial⟩
        have h1 : TokXs ds de ds' de' (fun _ _ => True) T1 U1 := by
          split at hT1
          · rename_i hacc
            rw [if_pos hacc] at hU1
            cases T1 with
            | nil => simp at hT1
            | cons x xs =>
              cases U1 with
              | nil => simp at hU1
              | cons y ys =>
                simp only [List.map_cons, List.cons.injEq, Prod.mk.injEq, List.map_eq_nil_iff] at hT1 hU1
                obtain ⟨⟨xk, xv⟩, rfl⟩ := hT1
                obtain ⟨⟨yk, yv⟩, rfl⟩ := hU1
                exact ⟨⟨⟨by rw [xk, yk], Or.inl ⟨xk, by rw [xv, yv]⟩⟩, trivial⟩, trivial⟩
          · rename_i hacc
            rw [if_neg hacc] at hU1
            simp only [List.map_eq_nil_iff] at hT1 hU1
            subst hT1 hU1
            trivial
        exact TokXs_append ds de ds' de' _ _ _ _ _ (TokXs_append ds de ds' de' _ _ _ [u] [v] h1 ⟨htag, trivial⟩) ih

end Chiritori
