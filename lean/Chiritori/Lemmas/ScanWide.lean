import Chiritori.Lemmas.ScanFinal
/-
  The tokenizer on a wider class of sources than `Piece.ok`: text may contain the characters of the start
  delimiter - its first character included - as long as
    (a) the automaton, run over the text, never completes the start delimiter and has no partial match pending
        at the end of the text (`quietT`), and
    (b) the start delimiter does not occur in the text followed by the delimiter minus its last character
        (so that the first occurrence in `text ++ ds ++ ..` is the one behind the text);
  and likewise for the body of a tag and the end delimiter (`quietE`).  Both conditions are Boolean functions of the
  piece and the delimiter alone.
-/
namespace Chiritori
open Spec

/-! ### the two run conditions -/

/-- the automaton over a stretch of text: it never completes the start delimiter and ends in the text state -/
def quietT (ds : List Char) : TState → List Char → Bool
  | st, [] => st == .text
  | .text, c :: cs => quietT ds (checkDelimiterStart c ds) cs
  | .dstart [], _ :: _ => false
  | .dstart (x :: r), c :: cs => if c = x then quietT ds (.dstart r) cs else quietT ds .text cs
  | .inDelim, _ :: _ => false
  | .dend _, _ :: _ => false

/-- the automaton over the body of a tag behind its first character: it never completes the end delimiter and
    ends with no partial match pending -/
def quietE (de : List Char) : TState → List Char → Bool
  | st, [] => st == .inDelim
  | .inDelim, c :: cs =>
    match de with
    | [] => false
    | e0 :: er => if c = e0 then quietE de (.dend er) cs else quietE de .inDelim cs
  | .dend [], _ :: _ => false
  | .dend (x :: r), c :: cs => if c = x then quietE de (.dend r) cs else quietE de .inDelim cs
  | .text, _ :: _ => false
  | .dstart _, _ :: _ => false

/-- `pat` does not occur in `s ++ pat.dropLast`: no occurrence begins inside `s` when `pat` follows -/
def noOcc (pat s : List Char) : Bool := (findSub pat (s ++ pat.dropLast)).isNone

def textFit (ds s : List Char) : Bool := quietT ds .text s && noOcc ds s
def bodyFit (de rest : List Char) : Bool := quietE de .inDelim rest && noOcc de rest

/-- the pieces fit the delimiters: every maximal stretch of text and every tag body does -/
def wideOK (ds de : List Char) : List Piece → List Char → Bool
  | [], acc => textFit ds acc
  | .text s :: ps, acc => wideOK ds de ps (acc ++ s)
  | .tag _ rest :: ps, acc => textFit ds acc && bodyFit de rest && wideOK ds de ps []

/-! ### merged output -/

def mrg (l : SOut) : SOut := l.foldl sMergeStep []

/-- append characters to the trailing text of a merged list -/
def addText (l : SOut) (cs : List Char) : SOut := if cs = [] then l else sMergeStep l (.text, cs)

theorem mrg_snoc (l : SOut) (x : TKind × List Char) : mrg (l ++ [x]) = sMergeStep (mrg l) x := by
  simp [mrg, List.foldl_append]

theorem sMergeStep_element (l : SOut) (v : List Char) : sMergeStep l (.element, v) = l ++ [(.element, v)] := by
  unfold sMergeStep
  cases l.getLast? <;> simp

theorem sMergeStep_text_text (l : SOut) (a b : List Char) :
    sMergeStep (sMergeStep l (.text, a)) (.text, b) = sMergeStep l (.text, a ++ b) := by
  unfold sMergeStep
  cases hl : l.getLast? with
  | none => simp
  | some last =>
    by_cases hk : last.1 = .text
    · simp [hk, List.append_assoc]
    · simp [hk]

theorem addText_addText (l : SOut) (a b : List Char) : addText (addText l a) b = addText l (a ++ b) := by
  unfold addText
  by_cases ha : a = []
  · simp [ha]
  · by_cases hb : b = []
    · simp [ha, hb]
    · simp [ha, hb, sMergeStep_text_text]

@[simp] theorem addText_nil (l : SOut) : addText l [] = l := by simp [addText]

/-- the merged value of a state whose pending characters will be emitted with kind `k` -/
def val (s : SSt) (k : TKind) : SOut := if s.pend = [] then mrg s.outs else sMergeStep (mrg s.outs) (k, s.pend)

/-! ### the automaton over a stretch of text -/

/-- states in which text is being collected -/
def textish : TState → Bool
  | .text => true
  | .dstart _ => true
  | _ => false

theorem checkDelimiterStart_cases (c : Char) (ds : List Char) :
    checkDelimiterStart c ds = .text ∨ ∃ r, checkDelimiterStart c ds = .dstart r := by
  unfold checkDelimiterStart
  cases ds with
  | nil => exact Or.inl rfl
  | cons d rest => by_cases h : c = d <;> simp [h]

theorem sStep_textish (ds de : List Char) (s : SSt) (c : Char) (hs : textish s.st = true)
    (hq : quietT ds s.st (c :: cs) = true) :
    textish (sStep ds de s c).st = true ∧ quietT ds (sStep ds de s c).st cs = true ∧
      val (sStep ds de s c) .text = addText (val s .text) [c] := by
  obtain ⟨outs, st, pend⟩ := s
  cases st with
  | text =>
    simp only [quietT] at hq
    unfold sStep getState
    rcases checkDelimiterStart_cases c ds with hc | ⟨r, hc⟩
    · rw [hc] at hq
      simp only [hc]
      refine ⟨rfl, hq, ?_⟩
      simp only [val]
      by_cases hp : pend = []
      · simp [hp, addText]
      · simp [hp, addText, sMergeStep_text_text]
    · rw [hc] at hq
      simp only [hc]
      refine ⟨rfl, hq, ?_⟩
      simp only [val]
      by_cases hp : pend = []
      · simp [hp, addText]
      · simp [hp, addText, mrg_snoc]
  | dstart r =>
    cases r with
    | nil => simp [quietT] at hq
    | cons x r =>
      simp only [quietT] at hq
      unfold sStep getState
      by_cases hcx : c = x
      · simp only [hcx, ite_true] at hq ⊢
        refine ⟨rfl, hq, ?_⟩
        simp only [val]
        by_cases hp : pend = []
        · simp [hp, addText]
        · simp [hp, addText, sMergeStep_text_text]
      · simp only [hcx, ite_false] at hq ⊢
        refine ⟨rfl, hq, ?_⟩
        simp only [val]
        by_cases hp : pend = []
        · simp [hp, addText]
        · simp [hp, addText, sMergeStep_text_text]
  | inDelim => simp [textish] at hs
  | dend r => simp [textish] at hs

/-- a quiet stretch of text extends the trailing text of the merged value and ends in the text state -/
theorem srun_quietT (ds de : List Char) : ∀ (cs : List Char) (s : SSt), textish s.st = true → quietT ds s.st cs = true →
    (srun ds de s cs).st = .text ∧ val (srun ds de s cs) .text = addText (val s .text) cs
  | [], s, _, hq => by
    have : s.st = .text := by
      cases hst : s.st <;> simp [quietT, hst] at hq ⊢
    simp [srun, this]
  | c :: cs, s, hs, hq => by
    obtain ⟨h1, h2, h3⟩ := sStep_textish (cs := cs) ds de s c hs hq
    obtain ⟨i1, i2⟩ := srun_quietT ds de cs (sStep ds de s c) h1 h2
    rw [srun_cons]
    refine ⟨i1, ?_⟩
    rw [i2, h3, addText_addText]
    rfl

/-! ### boundary states: between pieces the automaton is in the text state or has a complete tag pending -/

def bkind : TState → TKind
  | .dend [] => .element
  | _ => .text

def BoundaryOK (s : SSt) : Prop := s.st = .text ∨ (s.st = .dend [] ∧ s.pend ≠ [])

theorem val_element (s : SSt) (hp : s.pend ≠ []) : val s .element = mrg s.outs ++ [(.element, s.pend)] := by
  simp [val, hp, sMergeStep_element]

/-- a quiet stretch of text read from a boundary state -/
theorem srun_text_boundary (ds de : List Char) (cs : List Char) (s : SSt) (hb : BoundaryOK s)
    (hq : quietT ds .text cs = true) :
    BoundaryOK (srun ds de s cs) ∧
      val (srun ds de s cs) (bkind (srun ds de s cs).st) = addText (val s (bkind s.st)) cs := by
  cases cs with
  | nil => simp [srun, hb]
  | cons c cs =>
    obtain ⟨outs, st, pend⟩ := s
    rcases hb with hb | ⟨hb, hp⟩
    · simp only at hb
      subst hb
      obtain ⟨h1, h2⟩ := srun_quietT ds de (c :: cs) ⟨outs, .text, pend⟩ rfl hq
      refine ⟨Or.inl h1, ?_⟩
      rw [h1]
      exact h2
    · simp only at hb hp
      subst hb
      rw [srun_cons, sStep_dend_nil ds de outs pend c hp]
      have hq' : quietT ds (checkDelimiterStart c ds) cs = true := by simpa [quietT] using hq
      have hti : textish (checkDelimiterStart c ds) = true := by
        rcases checkDelimiterStart_cases c ds with h | ⟨r, h⟩ <;> rw [h] <;> rfl
      obtain ⟨h1, h2⟩ := srun_quietT ds de cs ⟨outs ++ [(.element, pend)], checkDelimiterStart c ds, [c]⟩ hti hq'
      refine ⟨Or.inl h1, ?_⟩
      rw [h1]
      show val _ .text = _
      rw [h2]
      have e1 : val ⟨outs ++ [(.element, pend)], checkDelimiterStart c ds, [c]⟩ .text
          = addText (mrg outs ++ [(.element, pend)]) [c] := by
        simp [val, addText, mrg_snoc, sMergeStep_element]
      have e2 : val ⟨outs, .dend [], pend⟩ (bkind (.dend [])) = mrg outs ++ [(.element, pend)] :=
        val_element ⟨outs, .dend [], pend⟩ hp
      rw [e1, e2, addText_addText]
      rfl

/-- the body of a tag behind its first character -/
theorem srun_quietE (ds de : List Char) (outs : SOut) : ∀ (cs : List Char) (st : TState) (pend : List Char),
    quietE de st cs = true → srun ds de ⟨outs, st, pend⟩ cs = ⟨outs, .inDelim, pend ++ cs⟩
  | [], st, pend, hq => by
    have : st = .inDelim := by cases st <;> simp [quietE] at hq ⊢
    simp [srun, this]
  | c :: cs, st, pend, hq => by
    rw [srun_cons]
    cases st with
    | text => simp [quietE] at hq
    | dstart r => simp [quietE] at hq
    | inDelim =>
      cases de with
      | nil => simp [quietE] at hq
      | cons e0 er =>
        simp only [quietE] at hq
        by_cases hc : c = e0
        · simp only [hc, ite_true] at hq
          have : sStep ds (e0 :: er) ⟨outs, .inDelim, pend⟩ c = ⟨outs, .dend er, pend ++ [c]⟩ := by
            simp [sStep, getState, hc]
          rw [this, srun_quietE ds (e0 :: er) outs cs (.dend er) (pend ++ [c]) hq]
          simp
        · simp only [hc, ite_false] at hq
          have : sStep ds (e0 :: er) ⟨outs, .inDelim, pend⟩ c = ⟨outs, .inDelim, pend ++ [c]⟩ := by
            simp [sStep, getState, hc]
          rw [this, srun_quietE ds (e0 :: er) outs cs .inDelim (pend ++ [c]) hq]
          simp
    | dend r =>
      cases r with
      | nil => simp [quietE] at hq
      | cons x r =>
        simp only [quietE] at hq
        by_cases hc : c = x
        · simp only [hc, ite_true] at hq
          have : sStep ds de ⟨outs, .dend (x :: r), pend⟩ c = ⟨outs, .dend r, pend ++ [c]⟩ := by
            simp [sStep, getState, hc]
          rw [this, srun_quietE ds de outs cs (.dend r) (pend ++ [c]) hq]
          simp
        · simp only [hc, ite_false] at hq
          have : sStep ds de ⟨outs, .dend (x :: r), pend⟩ c = ⟨outs, .inDelim, pend ++ [c]⟩ := by
            simp [sStep, getState, hc]
          rw [this, srun_quietE ds de outs cs .inDelim (pend ++ [c]) hq]
          simp

/-- a whole tag read from a boundary state -/
theorem srun_tag_boundary (d0 : Char) (dr : List Char) (e0 : Char) (er : List Char) (b0 : Char) (rest : List Char)
    (s : SSt) (hb : BoundaryOK s) (hq : quietE (e0 :: er) .inDelim rest = true) :
    BoundaryOK (srun (d0 :: dr) (e0 :: er) s ((d0 :: dr) ++ (b0 :: (rest ++ (e0 :: er))))) ∧
      val (srun (d0 :: dr) (e0 :: er) s ((d0 :: dr) ++ (b0 :: (rest ++ (e0 :: er)))))
          (bkind (srun (d0 :: dr) (e0 :: er) s ((d0 :: dr) ++ (b0 :: (rest ++ (e0 :: er))))).st)
        = val s (bkind s.st) ++ [(.element, (d0 :: dr) ++ (b0 :: (rest ++ (e0 :: er))))] := by
  -- the first character of the start delimiter
  have hfirst : ∃ o1, sStep (d0 :: dr) (e0 :: er) s d0 = ⟨o1, .dstart dr, [d0]⟩ ∧ mrg o1 = val s (bkind s.st) := by
    obtain ⟨outs, st, pend⟩ := s
    rcases hb with hb | ⟨hb, hp⟩
    · simp only at hb
      subst hb
      rw [sStep_text_d0]
      refine ⟨_, rfl, ?_⟩
      by_cases hp : pend = []
      · simp [hp, val]
      · simp [hp, val, bkind, mrg_snoc]
    · simp only at hb hp
      subst hb
      rw [sStep_dend_nil _ _ outs pend d0 hp]
      refine ⟨outs ++ [(.element, pend)], by simp [checkDelimiterStart], ?_⟩
      rw [mrg_snoc, sMergeStep_element]
      exact (val_element ⟨outs, .dend [], pend⟩ hp).symm
  obtain ⟨o1, h1, h2⟩ := hfirst
  have hrun : srun (d0 :: dr) (e0 :: er) s ((d0 :: dr) ++ (b0 :: (rest ++ (e0 :: er))))
      = ⟨o1, .dend [], (d0 :: dr) ++ (b0 :: (rest ++ (e0 :: er)))⟩ := by
    rw [List.cons_append, srun_cons, h1, srun_append]
    have a1 := srun_dstart (d0 :: dr) (e0 :: er) o1 dr [] [d0]
    simp only [List.append_nil] at a1
    rw [a1, srun_cons]
    have a2 : sStep (d0 :: dr) (e0 :: er) ⟨o1, .dstart [], [d0] ++ dr⟩ b0 = ⟨o1, .inDelim, [d0] ++ dr ++ [b0]⟩ := by
      simp [sStep, getState]
    rw [a2, srun_append, srun_quietE (d0 :: dr) (e0 :: er) o1 rest .inDelim _ hq, srun_cons]
    have a3 : sStep (d0 :: dr) (e0 :: er) ⟨o1, .inDelim, [d0] ++ dr ++ [b0] ++ rest⟩ e0
        = ⟨o1, .dend er, [d0] ++ dr ++ [b0] ++ rest ++ [e0]⟩ := by
      simp [sStep, getState]
    rw [a3]
    have a4 := srun_dend (d0 :: dr) (e0 :: er) o1 er [] ([d0] ++ dr ++ [b0] ++ rest ++ [e0])
    simp only [List.append_nil] at a4
    rw [a4]
    simp
  rw [hrun]
  refine ⟨Or.inr ⟨rfl, by simp⟩, ?_⟩
  show val _ .element = _
  rw [val_element _ (by simp), h2]

/-! ### the automaton over a sequence of pieces -/

/-- what the merged output should be: texts extend the trailing text, tags are appended -/
def fwd (ds de : List Char) : SOut → List Piece → SOut
  | L, [] => L
  | L, .text s :: ps => fwd ds de (addText L s) ps
  | L, .tag b0 rest :: ps => fwd ds de (L ++ [(.element, ds ++ (b0 :: (rest ++ de)))]) ps

theorem srun_pieces_wide (d0 : Char) (dr : List Char) (e0 : Char) (er : List Char) :
    ∀ (ps : List Piece) (acc : List Char) (s0 : SSt), BoundaryOK s0 → wideOK (d0 :: dr) (e0 :: er) ps acc = true →
    BoundaryOK (srun (d0 :: dr) (e0 :: er) s0 (acc ++ renderAll (d0 :: dr) (e0 :: er) ps)) ∧
    val (srun (d0 :: dr) (e0 :: er) s0 (acc ++ renderAll (d0 :: dr) (e0 :: er) ps))
        (bkind (srun (d0 :: dr) (e0 :: er) s0 (acc ++ renderAll (d0 :: dr) (e0 :: er) ps)).st)
      = fwd (d0 :: dr) (e0 :: er) (addText (val s0 (bkind s0.st)) acc) ps
  | [], acc, s0, hb, hw => by
    simp only [wideOK, textFit, Bool.and_eq_true] at hw
    simp only [renderAll, List.append_nil, fwd]
    exact srun_text_boundary _ _ acc s0 hb hw.1
  | .text t :: ps, acc, s0, hb, hw => by
    simp only [wideOK] at hw
    have ih := srun_pieces_wide d0 dr e0 er ps (acc ++ t) s0 hb hw
    simp only [renderAll, Piece.render, fwd, addText_addText]
    rw [← List.append_assoc]
    exact ih
  | .tag b0 rest :: ps, acc, s0, hb, hw => by
    simp only [wideOK, textFit, bodyFit, Bool.and_eq_true] at hw
    obtain ⟨⟨⟨hq, _⟩, hqe, _⟩, hps⟩ := hw
    obtain ⟨b1, v1⟩ := srun_text_boundary (d0 :: dr) (e0 :: er) acc s0 hb hq
    obtain ⟨b2, v2⟩ := srun_tag_boundary d0 dr e0 er b0 rest _ b1 hqe
    have ih := srun_pieces_wide d0 dr e0 er ps [] _ b2 hps
    simp only [List.nil_append, addText_nil] at ih
    simp only [renderAll, Piece.render, fwd]
    rw [srun_append, srun_append]
    rw [v2, v1] at ih
    exact ih

theorem sStep_pend_ne (ds de : List Char) (s : SSt) (c : Char) : (sStep ds de s c).pend ≠ [] := by
  unfold sStep
  split <;> simp

theorem srun_pend_ne (ds de : List Char) : ∀ (cs : List Char) (s : SSt), cs ≠ [] → (srun ds de s cs).pend ≠ []
  | [], _, h => absurd rfl h
  | [c], s, _ => sStep_pend_ne ds de s c
  | c :: c' :: cs, s, _ => by
    rw [srun_cons]
    exact srun_pend_ne ds de (c' :: cs) _ (by simp)

theorem flushKind_bkind (ds de : List Char) (st : TState) (h : st = .text ∨ st = .dend []) :
    flushKind ds de st = bkind st := by
  rcases h with h | h
  · subst h
    unfold flushKind getState
    rcases checkDelimiterStart_cases ' ' ds with hc | ⟨r, hc⟩ <;> simp [hc, bkind]
  · subst h
    simp [flushKind, getState, bkind]

/-- the merged output of the tokenizer on fitting pieces -/
theorem tokenize_wide (d0 : Char) (dr : List Char) (e0 : Char) (er : List Char) (ps : List Piece)
    (hw : wideOK (d0 :: dr) (e0 :: er) ps [] = true) :
    (tokenize (renderAll (d0 :: dr) (e0 :: er) ps) (d0 :: dr) (e0 :: er)).map kv
      = fwd (d0 :: dr) (e0 :: er) [] ps := by
  rw [tokenize_proj _ _ _ (by simp)]
  have hb0 : BoundaryOK sInit := Or.inl rfl
  obtain ⟨hb, hv⟩ := srun_pieces_wide d0 dr e0 er ps [] sInit hb0 hw
  simp only [List.nil_append, addText_nil] at hb hv
  have hv0 : val sInit (bkind sInit.st) = [] := by simp [val, sInit, mrg]
  rw [hv0] at hv
  rw [← hv]
  generalize hsrc : renderAll (d0 :: dr) (e0 :: er) ps = src at hb hv ⊢
  show mrg (sFlush (d0 :: dr) (e0 :: er) src (srun (d0 :: dr) (e0 :: er) sInit src)) = _
  unfold sFlush
  by_cases hs : src = []
  · subst hs
    simp [srun, sInit, val, mrg]
  · rw [if_neg hs]
    have hp := srun_pend_ne (d0 :: dr) (e0 :: er) src sInit hs
    have hst : (srun (d0 :: dr) (e0 :: er) sInit src).st = .text ∨ (srun (d0 :: dr) (e0 :: er) sInit src).st = .dend [] := by
      rcases hb with h | ⟨h, _⟩
      · exact Or.inl h
      · exact Or.inr h
    rw [mrg_snoc, flushKind_bkind _ _ _ hst]
    simp [val, hp]

/-! ### `fwd` is the normal form `tnorm` -/

theorem addText_base (base : SOut) (hb : ∀ x, base.getLast? = some x → x.1 ≠ .text) (acc s : List Char) :
    addText (base ++ (if acc ≠ [] then [(TKind.text, acc)] else [])) s
      = base ++ (if acc ++ s ≠ [] then [(TKind.text, acc ++ s)] else []) := by
  unfold addText
  by_cases hs : s = []
  · simp [hs]
  · rw [if_neg hs]
    by_cases ha : acc = []
    · simp only [ha, ne_eq, not_true_eq_false, ite_false, List.append_nil, List.nil_append, hs, not_false_eq_true, ite_true]
      unfold sMergeStep
      cases hl : base.getLast? with
      | none => rfl
      | some last =>
        have := hb last hl
        simp [this]
    · have hne : acc ++ s ≠ [] := by simp [ha]
      simp only [ha, ne_eq, not_false_eq_true, ite_true, hne]
      unfold sMergeStep
      simp

theorem fwd_tnorm (ds de : List Char) : ∀ (ps : List Piece) (base : SOut) (acc : List Char),
    (∀ x, base.getLast? = some x → x.1 ≠ .text) →
    fwd ds de (base ++ (if acc ≠ [] then [(TKind.text, acc)] else [])) ps = base ++ tnorm ds de [] ps acc
  | [], base, acc, _ => by simp [fwd, tnorm]
  | .text s :: ps, base, acc, hb => by
    simp only [fwd, tnorm]
    rw [addText_base base hb acc s]
    exact fwd_tnorm ds de ps base (acc ++ s) hb
  | .tag b0 rest :: ps, base, acc, hb => by
    simp only [fwd, tnorm]
    have := fwd_tnorm ds de ps (base ++ (if acc ≠ [] then [(TKind.text, acc)] else []) ++ [(.element, ds ++ (b0 :: (rest ++ de)))]) []
      (by intro x hx; simp at hx; rw [← hx]; simp)
    simp only [ne_eq, not_true_eq_false, ite_false, List.append_nil] at this
    rw [this]
    simp [List.append_assoc]

theorem fwd_nil_tnorm (ds de : List Char) (ps : List Piece) : fwd ds de [] ps = tnorm ds de [] ps [] := by
  have := fwd_tnorm ds de ps [] [] (by simp)
  simpa using this

/-! ### the textbook scan on fitting pieces -/

theorem isPrefixOf_append_of_le (pat P Q : List Char) (h : pat.length ≤ P.length) :
    pat.isPrefixOf (P ++ Q) = pat.isPrefixOf P := by
  induction pat generalizing P with
  | nil => simp
  | cons a as ih =>
    cases P with
    | nil => simp at h
    | cons b bs =>
      simp only [List.cons_append, List.isPrefixOf]
      rw [ih bs (by simpa using h)]

theorem findSub_short (pat : List Char) : ∀ (s : List Char), s.length < pat.length → findSub pat s = none
  | [], h => by
    have : pat ≠ [] := by intro e; simp [e] at h
    cases pat with
    | nil => exact absurd rfl this
    | cons a as => simp [findSub]
  | c :: cs, h => by
    have hnp : pat.isPrefixOf (c :: cs) = false := by
      cases hp : pat.isPrefixOf (c :: cs) with
      | false => rfl
      | true =>
        rw [List.isPrefixOf_iff_prefix] at hp
        have := hp.length_le
        omega
    simp only [findSub, hnp, Bool.false_eq_true, ite_false]
    rw [findSub_short pat cs (by simp at h; omega)]
    rfl

/-- no occurrence begins inside `A` when the pattern follows: the first occurrence is the one behind `A` -/
theorem findSub_first (pat : List Char) (hp : pat ≠ []) : ∀ (A X : List Char),
    findSub pat (A ++ pat.dropLast) = none → findSub pat (A ++ (pat ++ X)) = some A.length
  | [], X, _ => by
    cases pat with
    | nil => exact absurd rfl hp
    | cons p0 pr =>
      simp only [List.nil_append, List.cons_append, findSub, List.length_nil]
      have : (p0 :: pr).isPrefixOf (p0 :: (pr ++ X)) = true := by
        rw [List.isPrefixOf_iff_prefix]
        exact ⟨X, by simp⟩
      rw [if_pos this]
  | a :: A, X, h => by
    simp only [List.cons_append, findSub] at h ⊢
    have hsplit : pat = pat.dropLast ++ [pat.getLast hp] := (List.dropLast_concat_getLast hp).symm
    have hlen : pat.length ≤ (a :: (A ++ pat.dropLast)).length := by
      have : pat.length = pat.dropLast.length + 1 := by
        conv => lhs; rw [hsplit]
        simp
      simp; omega
    have e : a :: (A ++ (pat ++ X)) = (a :: (A ++ pat.dropLast)) ++ ([pat.getLast hp] ++ X) := by
      conv => lhs; rw [hsplit]
      simp
    by_cases hpre : pat.isPrefixOf (a :: (A ++ pat.dropLast)) = true
    · simp [hpre] at h
    · have hpre' : pat.isPrefixOf (a :: (A ++ (pat ++ X))) = false := by
        rw [e, isPrefixOf_append_of_le pat _ _ hlen]
        exact Bool.eq_false_iff.mpr hpre
      simp only [hpre] at h
      rw [if_neg (by simp [hpre'])]
      have hn : findSub pat (A ++ pat.dropLast) = none := by
        cases hf : findSub pat (A ++ pat.dropLast) with
        | none => rfl
        | some i => simp [hf] at h
      rw [findSub_first pat hp A X hn]
      simp

/-- ... and there is none in `A` alone -/
theorem findSub_none_left (pat : List Char) (hp : pat ≠ []) : ∀ (A B : List Char),
    findSub pat (A ++ B) = none → findSub pat A = none
  | [], _, _ => by
    cases pat with
    | nil => exact absurd rfl hp
    | cons a as => simp [findSub]
  | a :: A, B, h => by
    simp only [List.cons_append, findSub] at h ⊢
    by_cases hpre : pat.isPrefixOf (a :: A) = true
    · have : pat.isPrefixOf (a :: (A ++ B)) = true := by
        rw [List.isPrefixOf_iff_prefix] at hpre ⊢
        exact hpre.trans ⟨B, by simp⟩
      simp [this] at h
    · by_cases hpre2 : pat.isPrefixOf (a :: (A ++ B)) = true
      · simp [hpre2] at h
      · simp only [hpre2] at h
        rw [if_neg hpre]
        have hn : findSub pat (A ++ B) = none := by
          cases hf : findSub pat (A ++ B) with
          | none => rfl
          | some i => simp [hf] at h
        rw [findSub_none_left pat hp A B hn]
        rfl

theorem textbook_wide (d0 : Char) (dr : List Char) (e0 : Char) (er : List Char) :
    ∀ (ps : List Piece) (acc : List Char) (fuel : Nat), wideOK (d0 :: dr) (e0 :: er) ps acc = true →
      (acc ++ renderAll (d0 :: dr) (e0 :: er) ps).length ≤ fuel →
      textbookAux (d0 :: dr) (e0 :: er) fuel (acc ++ renderAll (d0 :: dr) (e0 :: er) ps) []
        = tnorm (d0 :: dr) (e0 :: er) [] ps acc
  | [], acc, fuel, hw, _ => by
    simp only [wideOK, textFit, noOcc, Bool.and_eq_true, Option.isNone_iff_eq_none] at hw
    have hn := findSub_none_left (d0 :: dr) (by simp) acc _ hw.2
    simp only [renderAll, List.append_nil, tnorm]
    cases fuel with
    | zero => by_cases h : acc = [] <;> simp [textbookAux, h]
    | succ f =>
      simp only [textbookAux, hn, List.nil_append]
      by_cases h : acc = [] <;> simp [h]
  | .text s :: ps, acc, fuel, hw, hlen => by
    simp only [wideOK] at hw
    simp only [renderAll, Piece.render, tnorm]
    rw [← List.append_assoc]
    exact textbook_wide d0 dr e0 er ps (acc ++ s) fuel hw (by simpa [renderAll, Piece.render, List.append_assoc] using hlen)
  | .tag b0 rest :: ps, acc, fuel, hw, hlen => by
    simp only [wideOK, textFit, bodyFit, noOcc, Bool.and_eq_true, Option.isNone_iff_eq_none] at hw
    obtain ⟨⟨⟨_, hoa⟩, _, hob⟩, hps⟩ := hw
    simp only [renderAll, Piece.render, tnorm]
    cases fuel with
    | zero => simp [renderAll, Piece.render] at hlen
    | succ f =>
      have hfuel : ([] ++ renderAll (d0 :: dr) (e0 :: er) ps).length ≤ f := by
        simp only [List.nil_append]
        simp [renderAll, Piece.render] at hlen ⊢
        omega
      have hrec := textbook_wide d0 dr e0 er ps [] f hps hfuel
      simp only [List.nil_append] at hrec
      have e1 : acc ++ ((d0 :: dr) ++ (b0 :: (rest ++ (e0 :: er))) ++ renderAll (d0 :: dr) (e0 :: er) ps)
          = acc ++ ((d0 :: dr) ++ (b0 :: (rest ++ ((e0 :: er) ++ renderAll (d0 :: dr) (e0 :: er) ps)))) := by
        simp
      rw [e1]
      generalize renderAll (d0 :: dr) (e0 :: er) ps = R at hrec ⊢
      simp only [textbookAux]
      rw [findSub_first (d0 :: dr) (by simp) acc _ hoa]
      simp only
      have hdrop : (acc ++ ((d0 :: dr) ++ (b0 :: (rest ++ ((e0 :: er) ++ R))))).drop (acc.length + (d0 :: dr).length)
          = b0 :: (rest ++ ((e0 :: er) ++ R)) := by
        rw [← List.append_assoc, List.drop_append_of_le_length (by simp)]
        simp
      rw [hdrop]
      simp only
      rw [findSub_first (e0 :: er) (by simp) rest R hob]
      simp only
      have htake : (acc ++ ((d0 :: dr) ++ (b0 :: (rest ++ ((e0 :: er) ++ R))))).take acc.length = acc := by simp
      have hel : ((acc ++ ((d0 :: dr) ++ (b0 :: (rest ++ ((e0 :: er) ++ R))))).drop acc.length).take
          ((d0 :: dr).length + 1 + rest.length + (e0 :: er).length) = (d0 :: dr) ++ (b0 :: (rest ++ (e0 :: er))) := by
        rw [List.drop_append_of_le_length (by simp), List.drop_length, List.nil_append]
        have : (d0 :: dr) ++ (b0 :: (rest ++ ((e0 :: er) ++ R))) = ((d0 :: dr) ++ (b0 :: (rest ++ (e0 :: er)))) ++ R := by simp
        rw [this, List.take_append_of_le_length (by simp; omega)]
        apply List.take_of_length_le
        simp; omega
      have hrest : (acc ++ ((d0 :: dr) ++ (b0 :: (rest ++ ((e0 :: er) ++ R))))).drop
          (acc.length + ((d0 :: dr).length + 1 + rest.length + (e0 :: er).length)) = R := by
        have : acc ++ ((d0 :: dr) ++ (b0 :: (rest ++ ((e0 :: er) ++ R))))
            = (acc ++ ((d0 :: dr) ++ (b0 :: (rest ++ (e0 :: er))))) ++ R := by simp
        rw [this, List.drop_append_of_le_length (by simp; omega)]
        rw [List.drop_of_length_le (by simp; omega)]
        simp
      rw [htake, hel, hrest, hrec]
      by_cases ha : acc = [] <;> simp [ha]

end Chiritori
