import Chiritori.Lemmas.Tokenizer
import Chiritori.Spec.Holds
/-
  The tokenizer with positions forgotten: kinds and values only.
-/
namespace Chiritori
open Spec

abbrev SOut := List (TKind × List Char)

structure SSt where
  outs : SOut
  st : TState
  pend : List Char

def sStep (ds de : List Char) (s : SSt) (c : Char) : SSt :=
  match getState c ds de s.st with
  | (some k, st') => ⟨if s.pend ≠ [] then s.outs ++ [(k, s.pend)] else s.outs, st', [c]⟩
  | (none, st') => ⟨s.outs, st', s.pend ++ [c]⟩

def kv (t : Token) : TKind × List Char := (t.kind, t.value)

def proj (a : TAcc) : SSt := ⟨a.toks.map kv, a.st, a.pend⟩

theorem tokStep_proj (ds de consumed : List Char) (a : TAcc) (c : Char) (h : TInv ds de consumed a) :
    proj (tokStep ds de a c) = sStep ds de (proj a) c := by
  have hbl : a.bpos = a.bstart + blen a.pend := by
    rw [h.bpos, h.bstart, ← h.flatEq, blen_append]
  unfold tokStep sStep proj
  cases hg : getState c ds de a.st with
  | mk k st' =>
    cases k with
    | none => rfl
    | some kind =>
      simp only
      by_cases hp : a.pend = []
      · have hz : ¬ (a.bpos - a.bstart > 0) := by rw [hbl, hp]; simp
        simp [hz, hp]
      · have hpos : a.bpos - a.bstart > 0 := by have := blen_pos_of_ne_nil hp; omega
        simp [hpos, hp, kv]

theorem foldl_proj (ds de : List Char) (hde : de ≠ []) (rest consumed : List Char) (a : TAcc) (h : TInv ds de consumed a) :
    proj (rest.foldl (tokStep ds de) a) = rest.foldl (sStep ds de) (proj a) := by
  induction rest generalizing consumed a with
  | nil => rfl
  | cons c cs ih =>
    simp only [List.foldl_cons]
    rw [ih (consumed ++ [c]) _ (tokStep_inv ds de hde consumed a c h), tokStep_proj ds de consumed a c h]

def sInit : SSt := ⟨[], .text, []⟩

/-- kind of the flushed token: a tag only when the end delimiter has just been completed -/
def flushKind (ds de : List Char) (st : TState) : TKind :=
  match (getState ' ' ds de st).1 with
  | none => .text
  | some k => k

def sFlush (ds de src : List Char) (s : SSt) : SOut :=
  if src = [] then s.outs else s.outs ++ [(flushKind ds de s.st, s.pend)]

theorem rawTokens_proj (src ds de : List Char) (hde : de ≠ []) :
    (rawTokens src ds de).map kv = sFlush ds de src (src.foldl (sStep ds de) sInit) := by
  have hp := foldl_proj ds de hde src [] TAcc.init (tinv_init ds de)
  have hinit : proj TAcc.init = sInit := rfl
  rw [hinit] at hp
  unfold rawTokens sFlush flushToken
  rw [← hp]
  by_cases hs : src = []
  · simp [hs, proj]
  · simp only [hs, ite_false]
    unfold flushKind
    cases hk : (getState ' ' ds de (List.foldl (tokStep ds de) TAcc.init src).st).1 with
    | none => simp [proj, kv, hk]
    | some k => simp [proj, kv, hk]

/-- the merge pass on kinds and values -/
def sMergeStep (acc : SOut) (cur : TKind × List Char) : SOut :=
  match acc.getLast? with
  | some last => if last.1 = .text ∧ cur.1 = .text then acc.dropLast ++ [(TKind.text, last.2 ++ cur.2)] else acc ++ [cur]
  | none => acc ++ [cur]

theorem mergeStep_proj (acc : List Token) (t : Token) :
    (mergeStep acc t).map kv = sMergeStep (acc.map kv) (kv t) := by
  unfold mergeStep sMergeStep
  cases hl : acc.getLast? with
  | none =>
    have : acc = [] := by simpa using hl
    subst this
    simp
  | some last =>
    have hl' : (acc.map kv).getLast? = some (kv last) := by
      rw [List.getLast?_map, hl]; rfl
    rw [hl']
    simp only
    by_cases hm : last.kind = .text ∧ t.kind = .text
    · have hm' : (kv last).1 = TKind.text ∧ (kv t).1 = TKind.text := hm
      rw [if_pos hm, if_pos hm']
      simp [kv, hm.1, List.map_dropLast]
    · have hm' : ¬ ((kv last).1 = TKind.text ∧ (kv t).1 = TKind.text) := hm
      rw [if_neg hm, if_neg hm']
      simp

theorem tokenize_proj (src ds de : List Char) (hde : de ≠ []) :
    (tokenize src ds de).map kv =
      (sFlush ds de src (src.foldl (sStep ds de) sInit)).foldl sMergeStep [] := by
  unfold tokenize
  rw [← rawTokens_proj src ds de hde]
  generalize rawTokens src ds de = raw
  have : ∀ (acc : List Token), (raw.foldl mergeStep acc).map kv = (raw.map kv).foldl sMergeStep (acc.map kv) := by
    induction raw with
    | nil => intro acc; rfl
    | cons t ts ih =>
      intro acc
      simp only [List.foldl_cons, List.map_cons]
      rw [ih (mergeStep acc t), mergeStep_proj]
  simpa using this []

end Chiritori
