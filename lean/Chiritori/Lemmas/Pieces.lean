import Chiritori.Lemmas.CoresKept
/-
  C14 machinery for all sources: the pieces of the text after removal - `stretchesAux` with the line breaks inside
  unwrapped bodies kept as pieces of their own - concatenate to that text, trim to the stretches, and every place
  where something was removed, and the position behind every line break inside a body, is an end of a piece.
-/
namespace Chiritori
open Spec

def piecesAux (ext bodies : List Rng) : List (ABy × Nat) → Bytes → List Bytes
  | [], cur => [cur]
  | (x, i) :: rest, cur =>
    if inAny ext i then cur :: piecesAux ext bodies rest []
    else if inAny bodies i ∧ x == .lead '\n' then cur :: [x] :: piecesAux ext bodies rest []
    else
      match rest with
      | (_, j) :: _ =>
        if inAny bodies i != inAny bodies j ∧ !inAny ext j then (cur ++ [x]) :: piecesAux ext bodies rest []
        else piecesAux ext bodies rest (cur ++ [x])
      | [] => [cur ++ [x]]

/-- the kept bytes -/
def keptOf (ext : List Rng) (l : List (ABy × Nat)) : Bytes := (l.filter fun y => !inAny ext y.2).map (·.1)

theorem keptOf_cons_in (ext : List Rng) (x : ABy) (i : Nat) (l : List (ABy × Nat)) (h : inAny ext i = true) :
    keptOf ext ((x, i) :: l) = keptOf ext l := by simp [keptOf, h]

theorem keptOf_cons_out (ext : List Rng) (x : ABy) (i : Nat) (l : List (ABy × Nat)) (h : inAny ext i = false) :
    keptOf ext ((x, i) :: l) = x :: keptOf ext l := by simp [keptOf, h]

/-- P1: the pieces concatenate to the kept bytes -/
theorem piecesAux_flatten (ext bodies : List Rng) : ∀ (l : List (ABy × Nat)) (cur : Bytes),
    (piecesAux ext bodies l cur).flatten = cur ++ keptOf ext l
  | [], cur => by simp [piecesAux, keptOf]
  | (x, i) :: rest, cur => by
    simp only [piecesAux]
    cases he : inAny ext i with
    | true =>
      simp only [ite_true, List.flatten_cons, piecesAux_flatten ext bodies rest [], keptOf_cons_in ext x i rest he,
        List.nil_append]
    | false =>
      simp only [Bool.false_eq_true, ite_false, keptOf_cons_out ext x i rest he]
      split
      · simp only [List.flatten_cons, piecesAux_flatten ext bodies rest [], List.nil_append]
        simp
      · cases rest with
        | nil => simp [keptOf]
        | cons y ys =>
          obtain ⟨y1, j⟩ := y
          simp only
          split
          · simp only [List.flatten_cons, piecesAux_flatten ext bodies _ [], List.nil_append]
            simp
          · rw [piecesAux_flatten ext bodies _ (cur ++ [x])]
            simp

theorem trimWs_nl : trimWs [ABy.lead '\n'] = [] := by decide

/-- P2: trimmed and without the empty ones, the pieces are the stretches -/
theorem piecesAux_stretches (ext bodies : List Rng) : ∀ (l : List (ABy × Nat)) (cur : Bytes),
    ((piecesAux ext bodies l cur).map trimWs).filter ne = ((stretchesAux ext bodies l cur).map trimWs).filter ne
  | [], cur => rfl
  | (x, i) :: rest, cur => by
    simp only [piecesAux, stretchesAux]
    split
    · simp only [List.map_cons, List.filter_cons, piecesAux_stretches ext bodies rest []]
    · split
      · rename_i h
        have hx : x = .lead '\n' := by simpa using h.2
        subst hx
        simp only [List.map_cons, List.filter_cons, piecesAux_stretches ext bodies rest [], trimWs_nl]
        simp [ne]
      · cases rest with
        | nil => rfl
        | cons y ys =>
          obtain ⟨y1, j⟩ := y
          simp only
          split
          · simp only [List.map_cons, List.filter_cons, piecesAux_stretches ext bodies _ []]
          · exact piecesAux_stretches ext bodies _ _

/-! ### ends of pieces -/

def koff (ext : List Rng) (l : List (ABy × Nat)) : Nat := (l.filter fun y => !inAny ext y.2).length

theorem koff_cons_in (ext : List Rng) (x : ABy) (i : Nat) (l : List (ABy × Nat)) (h : inAny ext i = true) :
    koff ext ((x, i) :: l) = koff ext l := by simp [koff, h]

theorem koff_cons_out (ext : List Rng) (x : ABy) (i : Nat) (l : List (ABy × Nat)) (h : inAny ext i = false) :
    koff ext ((x, i) :: l) = koff ext l + 1 := by simp [koff, h]

theorem segEnds_head (s : Bytes) (ss : List Bytes) (off : Nat) : off + s.length ∈ segEnds (s :: ss) off := by
  simp [segEnds]

theorem segEnds_tail (s : Bytes) (ss : List Bytes) (off c : Nat) (h : c ∈ segEnds ss (off + s.length)) :
    c ∈ segEnds (s :: ss) off := by
  simp [segEnds, h]

/-- P3: where a byte of `ext` stands, a piece ends; behind a line break inside a body, a piece ends -/
theorem piecesAux_ends (ext bodies : List Rng) : ∀ (l1 : List (ABy × Nat)) (x : ABy) (i : Nat) (l2 : List (ABy × Nat))
    (cur : Bytes) (off : Nat),
    (inAny ext i = true → off + cur.length + koff ext l1 ∈ segEnds (piecesAux ext bodies (l1 ++ (x, i) :: l2) cur) off) ∧
    (inAny ext i = false → inAny bodies i = true → x = .lead '\n' →
      off + cur.length + koff ext l1 + 1 ∈ segEnds (piecesAux ext bodies (l1 ++ (x, i) :: l2) cur) off)
  | [], x, i, l2, cur, off => by
    constructor
    · intro he
      simp only [List.nil_append, piecesAux, he, ite_true]
      have := segEnds_head cur (piecesAux ext bodies l2 []) off
      simpa [koff] using this
    · intro he hb hx
      subst hx
      simp only [List.nil_append, piecesAux, he, Bool.false_eq_true, ite_false, hb, beq_self_eq_true, and_self, ite_true]
      apply segEnds_tail
      have := segEnds_head [ABy.lead '\n'] (piecesAux ext bodies l2 []) (off + cur.length)
      simpa [koff] using this
  | (y, k) :: l1, x, i, l2, cur, off => by
    have ih := piecesAux_ends ext bodies l1 x i l2
    simp only [List.cons_append, piecesAux]
    cases hk : inAny ext k with
    | true =>
      simp only [ite_true, koff_cons_in ext y k l1 hk]
      obtain ⟨a1, a2⟩ := ih [] (off + cur.length)
      constructor
      · intro he; exact segEnds_tail _ _ _ _ (by simpa using a1 he)
      · intro he hb hx; exact segEnds_tail _ _ _ _ (by simpa using a2 he hb hx)
    | false =>
      simp only [Bool.false_eq_true, ite_false, koff_cons_out ext y k l1 hk]
      split
      · obtain ⟨a1, a2⟩ := ih [] (off + cur.length + 1)
        constructor
        · intro he
          apply segEnds_tail
          have : off + cur.length + 1 = off + cur.length + [y].length := by simp
          rw [this] at a1
          apply segEnds_tail
          have := a1 he
          simp only [List.length_nil, Nat.add_zero, List.length_cons] at this ⊢
          rw [show off + cur.length + (koff ext l1 + 1) = off + cur.length + (0 + 1) + koff ext l1 by omega]
          exact this
        · intro he hb hx
          apply segEnds_tail
          have : off + cur.length + 1 = off + cur.length + [y].length := by simp
          rw [this] at a2
          apply segEnds_tail
          have := a2 he hb hx
          simp only [List.length_nil, Nat.add_zero, List.length_cons] at this ⊢
          rw [show off + cur.length + (koff ext l1 + 1) + 1 = off + cur.length + (0 + 1) + koff ext l1 + 1 by omega]
          exact this
      · -- the rest is not empty: it contains (x, i)
        cases hl : l1 ++ (x, i) :: l2 with
        | nil => simp at hl
        | cons z zs =>
          obtain ⟨z1, j⟩ := z
          simp only
          split
          · obtain ⟨a1, a2⟩ := ih [] (off + (cur ++ [y]).length)
            rw [hl] at a1 a2
            constructor
            · intro he
              apply segEnds_tail
              have := a1 he
              simp only [List.length_nil, Nat.add_zero, List.length_append, List.length_cons] at this ⊢
              rw [show off + cur.length + (koff ext l1 + 1) = off + (cur.length + (0 + 1)) + koff ext l1 by omega]
              exact this
            · intro he hb hx
              apply segEnds_tail
              have := a2 he hb hx
              simp only [List.length_nil, Nat.add_zero, List.length_append, List.length_cons] at this ⊢
              rw [show off + cur.length + (koff ext l1 + 1) + 1 = off + (cur.length + (0 + 1)) + koff ext l1 + 1 by omega]
              exact this
          · obtain ⟨a1, a2⟩ := ih (cur ++ [y]) off
            rw [hl] at a1 a2
            constructor
            · intro he
              have := a1 he
              simp only [List.length_append, List.length_cons, List.length_nil] at this
              rw [show off + cur.length + (koff ext l1 + 1) = off + (cur.length + (0 + 1)) + koff ext l1 by omega]
              exact this
            · intro he hb hx
              have := a2 he hb hx
              simp only [List.length_append, List.length_cons, List.length_nil] at this
              rw [show off + cur.length + (koff ext l1 + 1) + 1 = off + (cur.length + (0 + 1)) + koff ext l1 + 1 by omega]
              exact this

end Chiritori
