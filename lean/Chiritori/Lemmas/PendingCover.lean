import Chiritori.Lemmas.CollectAll
/-
  Coverage of the pending tree (C17): the merged pending regions cover exactly the extents of the elements that
  are registered, not skipped and whose condition does not hold - the analogue of `collect_spec` for the second
  component of `collect … true`.
-/
namespace Chiritori
open Spec

mutual
def pendExtentsOfParts (cfg : Cfg) (b : Bytes) : List Part → List Rng
  | [] => []
  | p :: ps => pendExtentsOfPart cfg b p ++ pendExtentsOfParts cfg b ps
def pendExtentsOfPart (cfg : Cfg) (b : Bytes) : Part → List Rng
  | .text _ => []
  | .element el st en ch =>
    (if conditionPending cfg el then extentOf b el st en else []) ++ pendExtentsOfParts cfg b ch
end

mutual
theorem pendingExtents_eq : ∀ (cfg : Cfg) (b : Bytes) (parts : List Part),
    pendingExtents cfg b parts = pendExtentsOfParts cfg b parts
  | cfg, b, [] => by simp [pendingExtents, elementsOf, pendExtentsOfParts]
  | cfg, b, p :: ps => by
    have h1 := pendingExtentsPart_eq cfg b p
    have h2 := pendingExtents_eq cfg b ps
    simp only [pendingExtents, elementsOf, List.flatMap_append, pendExtentsOfParts] at h1 h2 ⊢
    rw [h1, h2]
theorem pendingExtentsPart_eq : ∀ (cfg : Cfg) (b : Bytes) (p : Part),
    ((elementsOfPart p).flatMap fun x => if conditionPending cfg x.1 then extentOf b x.1 x.2.1 x.2.2 else [])
      = pendExtentsOfPart cfg b p
  | cfg, b, .text _ => by simp [elementsOfPart, pendExtentsOfPart]
  | cfg, b, .element el st en ch => by
    have h := pendingExtents_eq cfg b ch
    simp only [pendingExtents] at h
    simp only [elementsOfPart, List.flatMap_cons, pendExtentsOfPart]
    rw [h]
end

/-- a node built from a non-empty `createRange` pair covers the element's extent and its children -/
theorem node_cov (b : Bytes) (el : Element) (st en : Token) (ch : List RTree)
    (h1 : 0 < st.bstop) (h2 : en.bstart ≤ b.length)
    (hne : (createRange b el st en).1.isEmpty = false) (i : Nat) :
    rtcov (.node (createRange b el st en).1 (createRange b el st en).2 ch) i ↔
      (inAny (extentOf b el st en) i = true ∨ rcov ch i) := by
  rw [extentOf_eq_createRange b el st en h1 h2]
  cases hcr : createRange b el st en with
  | mk r p =>
    rw [hcr] at hne
    simp only at hne ⊢
    cases p with
    | none =>
      simp only [rtcov, hne, Bool.false_eq_true, ite_false]
      simp [inAny, Rng.contains]
    | some t =>
      simp only [rtcov]
      simp [inAny, Rng.contains]
      constructor
      · rintro (h | h | h)
        · exact Or.inl (Or.inl h)
        · exact Or.inl (Or.inr h)
        · exact Or.inr h
      · rintro ((h | h) | h)
        · exact Or.inl h
        · exact Or.inr (Or.inl h)
        · exact Or.inr (Or.inr h)

/-- an element whose strategy yields an empty opening range has no extent -/
theorem extentOf_nil_of_empty (b : Bytes) (el : Element) (st en : Token)
    (h0 : st.bstart ≤ st.bstop) (h1 : 0 < st.bstop) (h2 : en.bstart ≤ b.length)
    (he : (createRange b el st en).1.isEmpty = true) : extentOf b el st en = [] := by
  rw [extentOf_eq_createRange b el st en h1 h2]
  cases hcr : createRange b el st en with
  | mk r p =>
    rw [hcr] at he
    simp only at he ⊢
    cases p with
    | none => simp [he]
    | some t =>
      exfalso
      have hcr' := hcr
      unfold createRange at hcr'
      split at hcr'
      · rw [buildUnwrap_eq b st en h1 h2] at hcr'
        cases hp : unwrapParts b st en with
        | none => rw [hp] at hcr'; simp at hcr'
        | some ht =>
          obtain ⟨h', t'⟩ := ht
          rw [hp] at hcr'
          injection hcr' with e1 e2
          have := unwrapParts_geo b st en h' t' hp
          subst e1
          simp [Rng.isEmpty] at he
          omega
      · simp [buildRange] at hcr'

mutual
theorem collect_pending_cov (cfg : Cfg) (b : Bytes) : ∀ (parts : List Part) (lo hi : Nat),
    BSpan (flattenParts parts) lo hi → hi ≤ b.length →
    ∀ i, rcov (collect cfg b true parts).2 i ↔ inAny (pendExtentsOfParts cfg b parts) i = true
  | [], lo, hi, _, _ => by
    intro i; simp [collect, rcov, pendExtentsOfParts, inAny_nil]
  | p :: ps, lo, hi, hs, hlen => by
    simp only [flattenParts, BSpan_append] at hs
    obtain ⟨mid, hs1, hs2⟩ := hs
    have hmid := BSpan_le _ mid hi hs2
    have c1 := collectPart_pending_cov cfg b p lo mid hs1 (by omega)
    have c2 := collect_pending_cov cfg b ps mid hi hs2 hlen
    intro i
    simp only [collect, pendExtentsOfParts]
    rw [rcov_append, inAny_append, c1 i, c2 i]
    simp
theorem collectPart_pending_cov (cfg : Cfg) (b : Bytes) : ∀ (p : Part) (lo hi : Nat),
    BSpan (flattenPart p) lo hi → hi ≤ b.length →
    ∀ i, rcov (collectPart cfg b true p).2 i ↔ inAny (pendExtentsOfPart cfg b p) i = true
  | .text t, lo, hi, _, _ => by
    intro i; simp [collectPart, rcov, pendExtentsOfPart, inAny_nil]
  | .element el st en ch, lo, hi, hs, hlen => by
    simp only [flattenPart, List.cons_append, BSpan, BSpan_append] at hs
    obtain ⟨hst, hst2, mid, hch, hen1, hen2, hen3⟩ := hs
    have hmid := BSpan_le _ st.bstop mid hch
    have cch := collect_pending_cov cfg b ch st.bstop mid hch (by omega)
    intro i
    simp only [collectPart, pendExtentsOfPart]
    rw [elementRange_eq cfg b true, inAny_append]
    cases he : (createRange b el st en).1.isEmpty with
    | true =>
      have := extentOf_nil_of_empty b el st en (by omega) (by omega) (by omega) he
      simp only [ite_true, this, ite_self, inAny_nil, Bool.false_or]
      exact cch i
    | false =>
      cases hc : conditionHolds cfg el with
      | true =>
        have hp : conditionPending cfg el = false := by simp [conditionPending, hc]
        simp only [Bool.false_eq_true, ite_false, ite_true, hp, inAny_nil, Bool.false_or]
        exact cch i
      | false =>
        cases hp : conditionPending cfg el with
        | false =>
          simp only [Bool.false_eq_true, ite_false, Bool.and_false, inAny_nil, Bool.false_or]
          exact cch i
        | true =>
          simp only [Bool.false_eq_true, ite_false, Bool.and_self, ite_true]
          simp only [rcov, or_false]
          rw [node_cov b el st en _ (by omega) (by omega) he i, cch i]
          simp
end

end Chiritori
