import Chiritori.Lemmas.PosCorr
import Chiritori.Lemmas.KeptTokens
import Chiritori.Lemmas.Respell
/-
  Where the seams are, counted in surviving tokens: the seam of a removed element lies behind as many surviving
  tokens as precede the element (`seam_parts`), a number that depends on the shape of the forest only
  (`seamIdx_x`).
-/
namespace Chiritori
open Spec

mutual
/-- the seams of a forest as indices into the list of surviving tokens; the second component counts those tokens -/
def seamIdxParts (P : Element → Bool) : List Part → Nat → List Nat × Nat
  | [], n => ([], n)
  | p :: ps, n =>
    ((seamIdxPart P p n).1 ++ (seamIdxParts P ps (seamIdxPart P p n).2).1, (seamIdxParts P ps (seamIdxPart P p n).2).2)
def seamIdxPart (P : Element → Bool) : Part → Nat → List Nat × Nat
  | .text _, n => ([], n + 1)
  | .element el _ _ ch, n => if P el then ([n], n) else ((seamIdxParts P ch (n + 1)).1, (seamIdxParts P ch (n + 1)).2 + 1)
end

mutual
theorem seamIdx_count (P : Element → Bool) : ∀ (parts : List Part) (n : Nat),
    (seamIdxParts P parts n).2 = n + (flattenParts (pruneParts P parts)).length
  | [], n => by simp [seamIdxParts, pruneParts, flattenParts]
  | p :: ps, n => by
    simp only [seamIdxParts, pruneParts, flattenParts_append, List.length_append]
    rw [seamIdx_count P ps, seamIdxPart_count P p]
    omega
theorem seamIdxPart_count (P : Element → Bool) : ∀ (p : Part) (n : Nat),
    (seamIdxPart P p n).2 = n + (flattenParts (prunePart P p)).length
  | .text t, n => by simp [seamIdxPart, prunePart, flattenParts, flattenPart]
  | .element el st en ch, n => by
    simp only [seamIdxPart, prunePart]
    split
    · simp [flattenParts]
    · simp only [flattenParts, flattenPart, List.append_nil, List.length_cons, List.length_append, List.length_nil]
      rw [seamIdx_count P ch]
      omega
end

mutual
/-- the indices depend on the shape of the forest only -/
theorem seamIdx_x (ds de ds' de' : List Char) (R : Token → Token → Prop) (P : Element → Bool) :
    ∀ (a b : List Part) (n : Nat), partsX ds de ds' de' R a b → seamIdxParts P a n = seamIdxParts P b n
  | [], [], _, _ => rfl
  | [], _ :: _, _, h => absurd h (by simp [partsX])
  | _ :: _, [], _, h => absurd h (by simp [partsX])
  | p :: ps, q :: qs, n, h => by
    simp only [partsX] at h
    simp only [seamIdxParts]
    rw [seamIdxPart_x ds de ds' de' R P p q n h.1, seamIdx_x ds de ds' de' R P ps qs _ h.2]
theorem seamIdxPart_x (ds de ds' de' : List Char) (R : Token → Token → Prop) (P : Element → Bool) :
    ∀ (p q : Part) (n : Nat), partX ds de ds' de' R p q → seamIdxPart P p n = seamIdxPart P q n
  | .text _, .text _, _, _ => rfl
  | .text _, .element _ _ _ _, _, h => absurd h (by simp [partX])
  | .element _ _ _ _, .text _, _, h => absurd h (by simp [partX])
  | .element el st en ch, .element el' st' en' ch', n, h => by
    simp only [partX] at h
    obtain ⟨h1, _, _, h4⟩ := h
    subst h1
    simp only [seamIdxPart]
    rw [seamIdx_x ds de ds' de' R P ch ch' (n + 1) h4]
end

/-- the offset, in the text after removal, of the start of a token: the boundary behind the surviving tokens in front
    of it -/
theorem koff_at (X : List Rng) (T : List Token) (hc : ChainFrom T 0 0) (hw : Wholly X T) (pre post : List Token) (t : Token)
    (hT : T = pre ++ t :: post) :
    koffTo X (bytesOf (flat T)) t.bstart = bnd (T.filter (keepTok X)) (pre.filter (keepTok X)).length := by
  have hcpre : ChainFrom pre 0 0 := by rw [hT, chainFrom_append] at hc; exact hc.1
  have hct : ChainFrom (t :: post) (0 + (flat pre).length) (0 + blen (flat pre)) := by
    rw [hT, chainFrom_append] at hc; exact hc.2
  have htb : t.bstart = blen (flat pre) := by
    obtain ⟨_, c2, _⟩ := hct
    omega
  have hlenb : (bytesOf (flat T)).length = blen (flat T) := length_bytesOf _
  have h2 := koffTo_tokens X (bytesOf (flat T)) pre 0 0 hcpre (fun u hu => hw u (by rw [hT]; simp [hu])) (by
    rw [hlenb, hT]; simp [blen_append])
  rw [Nat.zero_add, koffTo_zero, Nat.zero_add] at h2
  rw [htb, h2]
  unfold bnd
  rw [hT, List.filter_append, List.take_left']
  rfl

mutual
theorem seam_parts (cfg : Cfg) (X : List Rng) (T : List Token) (hc : ChainFrom T 0 0) (hw : Wholly X T) :
    ∀ (parts : List Part) (lo hi : Nat) (A C : List Token),
    BSpan (flattenParts parts) lo hi → (∀ e ∈ elementsOf parts, hasAttr e.1 "unwrap-block" = false) →
    (∀ i, lo ≤ i → i < hi → inAny X i = inAny (extentsOfParts cfg (bytesOf (flat T)) parts) i) →
    T = A ++ (flattenParts parts ++ C) →
    (refRegions (conditionHolds cfg) (bytesOf (flat T)) parts).map (fun r => koffTo X (bytesOf (flat T)) r.1) =
      (seamIdxParts (conditionHolds cfg) parts (A.filter (keepTok X)).length).1.map (bnd (T.filter (keepTok X)))
  | [], _, _, _, _, _, _, _, _ => by simp [refRegions, seamIdxParts]
  | p :: ps, lo, hi, A, C, hs, hnu, hX, hT => by
    simp only [flattenParts, BSpan_append] at hs
    obtain ⟨mid, hs1, hs2⟩ := hs
    have h1 := BSpan_le _ lo mid hs1
    have h2 := BSpan_le _ mid hi hs2
    have hnu1 : ∀ e ∈ elementsOfPart p, hasAttr e.1 "unwrap-block" = false := fun e he => hnu e (by simp [elementsOf, he])
    have hnu2 : ∀ e ∈ elementsOf ps, hasAttr e.1 "unwrap-block" = false := fun e he => hnu e (by simp [elementsOf, he])
    have hnr1 : ∀ e ∈ elementsOfPart p, conditionHolds cfg e.1 = true → hasAttr e.1 "unwrap-block" = false :=
      fun e he _ => hnu1 e he
    have hnr2 : NoReadyUnwrap cfg ps := fun e he _ => hnu2 e he
    have hX1 : ∀ i, lo ≤ i → i < mid → inAny X i = inAny (extentsOfPart cfg (bytesOf (flat T)) p) i := by
      intro i hi1 hi2
      rw [hX i hi1 (by omega), extentsOfParts, inAny_append]
      cases hq : inAny (extentsOfParts cfg (bytesOf (flat T)) ps) i with
      | false => simp
      | true => have := extents_within cfg _ ps mid hi hs2 hnr2 i hq; omega
    have hX2 : ∀ i, mid ≤ i → i < hi → inAny X i = inAny (extentsOfParts cfg (bytesOf (flat T)) ps) i := by
      intro i hi1 hi2
      rw [hX i (by omega) hi2, extentsOfParts, inAny_append]
      cases hq : inAny (extentsOfPart cfg (bytesOf (flat T)) p) i with
      | false => simp
      | true => have := extentsPart_within cfg _ p lo mid hs1 hnr1 i hq; omega
    obtain ⟨a1, _⟩ := prunePart_tokens cfg (bytesOf (flat T)) X p lo mid hs1 hnr1 hX1
    have e1 := seamPart_parts cfg X T hc hw p lo mid A (flattenParts ps ++ C) hs1 hnu1 hX1 (by
      rw [hT]; simp [flattenParts, List.append_assoc])
    have e2 := seam_parts cfg X T hc hw ps mid hi (A ++ flattenPart p) C hs2 hnu2 hX2 (by
      rw [hT]; simp [flattenParts, List.append_assoc])
    have hn : ((A ++ flattenPart p).filter (keepTok X)).length =
        (seamIdxPart (conditionHolds cfg) p (A.filter (keepTok X)).length).2 := by
      rw [seamIdxPart_count, List.filter_append, List.length_append, a1]
      rfl
    simp only [refRegions, seamIdxParts, List.map_append]
    rw [e1, e2, hn]
theorem seamPart_parts (cfg : Cfg) (X : List Rng) (T : List Token) (hc : ChainFrom T 0 0) (hw : Wholly X T) :
    ∀ (p : Part) (lo hi : Nat) (A C : List Token),
    BSpan (flattenPart p) lo hi → (∀ e ∈ elementsOfPart p, hasAttr e.1 "unwrap-block" = false) →
    (∀ i, lo ≤ i → i < hi → inAny X i = inAny (extentsOfPart cfg (bytesOf (flat T)) p) i) →
    T = A ++ (flattenPart p ++ C) →
    (refRegionsPart (conditionHolds cfg) (bytesOf (flat T)) p).map (fun r => koffTo X (bytesOf (flat T)) r.1) =
      (seamIdxPart (conditionHolds cfg) p (A.filter (keepTok X)).length).1.map (bnd (T.filter (keepTok X)))
  | .text _, _, _, _, _, _, _, _, _ => by simp [refRegionsPart, seamIdxPart]
  | .element el st en ch, lo, hi, A, C, hs, hnu, hX, hT => by
    have hs' := hs
    simp only [flattenPart, List.cons_append, BSpan, BSpan_append] at hs
    obtain ⟨hst, hst2, mid, hch, hen1, hen2, hen3⟩ := hs
    have hmid := BSpan_le _ st.bstop mid hch
    have hu := hnu (el, st, en) (by simp [elementsOfPart])
    have hext := extentOf_default (bytesOf (flat T)) el st en hu (by omega)
    simp only [refRegionsPart, seamIdxPart]
    by_cases hcnd : conditionHolds cfg el = true
    · rw [if_pos hcnd, if_pos hcnd, hext]
      simp only [List.map_cons, List.map_nil]
      rw [koff_at X T hc hw A (flattenParts ch ++ [en] ++ C) st (by rw [hT]; simp [flattenPart, List.append_assoc])]
    · rw [if_neg hcnd, if_neg hcnd]
      have hnuc : ∀ e ∈ elementsOf ch, hasAttr e.1 "unwrap-block" = false := fun e he => hnu e (by simp [elementsOfPart, he])
      have hnrc : NoReadyUnwrap cfg ch := fun e he _ => hnuc e he
      have hXc : ∀ i, lo ≤ i → i < hi → inAny X i = inAny (extentsOfParts cfg (bytesOf (flat T)) ch) i := by
        intro i h1 h2
        rw [hX i h1 h2]
        simp [extentsOfPart, hcnd, inAny_append, inAny]
      have hcw := extents_within cfg (bytesOf (flat T)) ch st.bstop mid hch hnrc
      have hkeep : keepTok X st = true := by
        unfold keepTok
        rw [hXc st.bstart (by omega) (by omega)]
        cases hq : inAny (extentsOfParts cfg (bytesOf (flat T)) ch) st.bstart with
        | false => rfl
        | true => have := hcw _ hq; omega
      have ih := seam_parts cfg X T hc hw ch st.bstop mid (A ++ [st]) ([en] ++ C) hch hnuc
        (fun i h1 h2 => hXc i (by omega) (by omega)) (by rw [hT]; simp [flattenPart, List.append_assoc])
      have hn : ((A ++ [st]).filter (keepTok X)).length = (A.filter (keepTok X)).length + 1 := by
        simp [List.filter_append, List.filter_cons, hkeep]
      rw [hn] at ih
      exact ih
end

end Chiritori
