import Chiritori.Lemmas.Parser
import Chiritori.Lemmas.Tokenizer
/-
  Where the tokens of the parse forest sit in the source.
-/
namespace Chiritori
open Spec

mutual
theorem elementsOf_mem_flatten : ∀ (parts : List Part) (el : Element) (st en : Token),
    (el, st, en) ∈ elementsOf parts → st ∈ flattenParts parts ∧ en ∈ flattenParts parts
  | [], _, _, _, h => by simp [elementsOf] at h
  | p :: ps, el, st, en, h => by
    simp only [elementsOf, List.mem_append] at h
    simp only [flattenParts, List.mem_append]
    rcases h with h | h
    · have := elementsOfPart_mem_flatten p el st en h
      exact ⟨Or.inl this.1, Or.inl this.2⟩
    · have := elementsOf_mem_flatten ps el st en h
      exact ⟨Or.inr this.1, Or.inr this.2⟩
theorem elementsOfPart_mem_flatten : ∀ (p : Part) (el : Element) (st en : Token),
    (el, st, en) ∈ elementsOfPart p → st ∈ flattenPart p ∧ en ∈ flattenPart p
  | .text _, _, _, _, h => by simp [elementsOfPart] at h
  | .element el' st' en' ch, el, st, en, h => by
    simp only [elementsOfPart, List.mem_cons] at h
    rcases h with h | h
    · injection h with _ h2
      injection h2 with h2 h3
      subst h2; subst h3
      simp [flattenPart]
    · have := elementsOf_mem_flatten ch el st en h
      simp [flattenPart, this.1, this.2]
end

/-- every token of a chain lies inside the source and is not empty -/
theorem chain_token_bounds (ts : List Token) (s bs : Nat) (h : ChainFrom ts s bs) :
    ∀ t ∈ ts, bs ≤ t.bstart ∧ t.bstart < t.bstop ∧ t.bstop ≤ bs + blen (flat ts) := by
  induction ts generalizing s bs with
  | nil => simp
  | cons a rest ih =>
    simp only [ChainFrom] at h
    obtain ⟨_, h2, h3, _, h5, h6⟩ := h
    have hpos := blen_pos_of_ne_nil h3
    intro t ht
    rcases List.mem_cons.mp ht with ht | ht
    · subst ht
      simp only [flat_cons, blen_append]
      omega
    · have := ih a.stop a.bstop h6 t ht
      simp only [flat_cons, blen_append]
      omega

/-- the tokens of every element of the parse forest of a source -/
theorem element_token_bounds (src ds de : List Char) (hde : de ≠ []) (el : Element) (st en : Token)
    (h : (el, st, en) ∈ elementsOf (parseSource src ds de)) :
    st.bstart < st.bstop ∧ st.bstop ≤ blen src ∧ en.bstart < en.bstop ∧ en.bstop ≤ blen src := by
  obtain ⟨hok, _⟩ := tokenize_ok src ds de hde
  have hfl : flattenParts (parseSource src ds de) = tokenize src ds de := parse_flatten ds de _
  obtain ⟨h1, h2⟩ := elementsOf_mem_flatten _ el st en h
  rw [hfl] at h1 h2
  have b1 := chain_token_bounds _ 0 0 hok.chain st h1
  have b2 := chain_token_bounds _ 0 0 hok.chain en h2
  rw [hok.flatEq] at b1 b2
  omega

end Chiritori
