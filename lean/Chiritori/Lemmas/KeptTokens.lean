import Chiritori.Lemmas.PruneBytes
import Chiritori.Lemmas.C14Full
import Chiritori.Lemmas.ListTotal
/-
  Token chains and deletion of whole tokens: the text after removal is the concatenation of the surviving tokens,
  and every seam position is an offset at which a surviving token begins or ends.
-/
namespace Chiritori
open Spec

def keepTok (X : List Rng) (t : Token) : Bool := !inAny X t.bstart

/-- tokens are covered wholly or not at all -/
def Wholly (X : List Rng) (ts : List Token) : Prop :=
  ∀ t ∈ ts, ∀ i, t.bstart ≤ i → i < t.bstop → inAny X i = inAny X t.bstart

/-- K1: deleting the covered tokens -/
theorem minusFrom_tokens (X : List Rng) : ∀ (ts : List Token) (s off : Nat), ChainFrom ts s off → Wholly X ts →
    minusFrom (bytesOf (flat ts)) off X = bytesOf (flat (ts.filter (keepTok X)))
  | [], _, _, _, _ => rfl
  | t :: ts, s, off, hc, hw => by
    obtain ⟨_, c2, _, _, c5, c6⟩ := hc
    have hwt := hw t (by simp)
    have ih := minusFrom_tokens X ts t.stop t.bstop c6 (fun u hu => hw u (by simp [hu]))
    have hlen : (bytesOf t.value).length = blen t.value := length_bytesOf _
    rw [flat_cons, bytesOf_append, minusFrom_append, hlen, show off + blen t.value = t.bstop by omega, ih]
    simp only [List.filter_cons, keepTok]
    by_cases hk : inAny X t.bstart = true
    · simp only [hk, Bool.not_true, Bool.false_eq_true, ite_false]
      rw [minusFrom_drop_all _ off X (by
        intro i hi1 hi2
        rw [hlen] at hi2
        rw [hwt i (by omega) (by omega), hk])]
      rfl
    · have hk' : inAny X t.bstart = false := by simpa using hk
      simp only [hk', Bool.not_false, ite_true, flat_cons, bytesOf_append]
      rw [minusFrom_keep _ off X (by
        intro i hi1 hi2
        rw [hlen] at hi2
        rw [hwt i (by omega) (by omega), hk'])]

/-- K2: the offset of the end of a chain of tokens -/
theorem koffTo_tokens (X : List Rng) (b : Bytes) : ∀ (ts : List Token) (s off : Nat), ChainFrom ts s off → Wholly X ts →
    off + blen (flat ts) ≤ b.length →
    koffTo X b (off + blen (flat ts)) = koffTo X b off + blen (flat (ts.filter (keepTok X)))
  | [], _, _, _, _, _ => by simp [blen]
  | t :: ts, s, off, hc, hw, hl => by
    obtain ⟨_, c2, _, _, c5, c6⟩ := hc
    have hwt := hw t (by simp)
    rw [flat_cons, blen_append] at hl ⊢
    have ih := koffTo_tokens X b ts t.stop t.bstop c6 (fun u hu => hw u (by simp [hu])) (by omega)
    rw [show off + (blen t.value + blen (flat ts)) = t.bstop + blen (flat ts) by omega, ih]
    simp only [List.filter_cons, keepTok]
    by_cases hk : inAny X t.bstart = true
    · simp only [hk, Bool.not_true, Bool.false_eq_true, ite_false]
      have := koffTo_drop X b off (blen t.value) (by
        intro i hi1 hi2
        rw [hwt i (by omega) (by omega), hk])
      rw [show off + blen t.value = t.bstop by omega] at this
      omega
    · have hk' : inAny X t.bstart = false := by simpa using hk
      simp only [hk', Bool.not_false, ite_true, flat_cons, blen_append]
      have := koffTo_keep X b off (blen t.value) (by omega) (by
        intro i hi1 hi2
        rw [hwt i (by omega) (by omega), hk'])
      rw [show off + blen t.value = t.bstop by omega] at this
      omega

/-- a position inside a chain lies in one of its tokens -/
theorem chain_cover : ∀ (ts : List Token) (s off : Nat), ChainFrom ts s off → ∀ x, off ≤ x → x < off + blen (flat ts) →
    ∃ pre t post, ts = pre ++ t :: post ∧ t.bstart ≤ x ∧ x < t.bstop ∧ t.bstart = off + blen (flat pre)
  | [], _, _, _, x, h1, h2 => by simp [blen] at h2; omega
  | t :: ts, s, off, hc, x, h1, h2 => by
    obtain ⟨_, c2, _, _, c5, c6⟩ := hc
    by_cases hx : x < t.bstop
    · exact ⟨[], t, ts, rfl, by omega, hx, by simp [blen]; omega⟩
    · rw [flat_cons, blen_append] at h2
      obtain ⟨pre, u, post, e1, e2, e3, e4⟩ := chain_cover ts t.stop t.bstop c6 x (by omega) (by omega)
      exact ⟨t :: pre, u, post, by rw [e1]; rfl, e2, e3, by rw [e4, flat_cons, blen_append]; omega⟩

theorem segEnds_prefix : ∀ (a c : List Bytes) (off : Nat), a ≠ [] → off + a.flatten.length ∈ segEnds (a ++ c) off
  | [], _, _, h => absurd rfl h
  | [x], c, off, _ => by simp [segEnds]
  | x :: y :: rest, c, off, _ => by
    have := segEnds_prefix (y :: rest) c (off + x.length) (by simp)
    simp only [List.cons_append, segEnds, List.flatten_cons, List.length_append, List.mem_cons] at this ⊢
    right
    rw [show off + (x.length + (y.length + rest.flatten.length)) = off + x.length + (y.length + rest.flatten.length) by omega]
    exact this

/-- the surviving tokens as byte segments -/
def tokSegs (X : List Rng) (ts : List Token) : List Bytes := (ts.filter (keepTok X)).map fun t => bytesOf t.value

theorem tokSegs_flatten (X : List Rng) (ts : List Token) : (tokSegs X ts).flatten = bytesOf (flat (ts.filter (keepTok X))) := by
  unfold tokSegs
  induction ts.filter (keepTok X) with
  | nil => rfl
  | cons t rest ih => simp [flat_cons, bytesOf_append, ih]

/-- K4: the offset of a covered position is 0 or the end of a surviving token -/
theorem koffTo_covered (X : List Rng) (ts : List Token) (hc : ChainFrom ts 0 0) (hw : Wholly X ts) (x : Nat)
    (hx : x < blen (flat ts)) (hcov : inAny X x = true) :
    koffTo X (bytesOf (flat ts)) x = 0 ∨ koffTo X (bytesOf (flat ts)) x ∈ segEnds (tokSegs X ts) 0 := by
  obtain ⟨pre, t, post, e1, e2, e3, e4⟩ := chain_cover ts 0 0 hc x (Nat.zero_le _) (by omega)
  rw [Nat.zero_add] at e4
  have hwt := hw t (by rw [e1]; simp)
  -- the token is covered, so the offset is that of its start
  have hk : inAny X t.bstart = true := by rw [← hwt x e2 e3]; exact hcov
  have h1 : koffTo X (bytesOf (flat ts)) x = koffTo X (bytesOf (flat ts)) t.bstart := by
    have := koffTo_drop X (bytesOf (flat ts)) t.bstart (x - t.bstart) (by
      intro i hi1 hi2
      rw [hwt i hi1 (by omega), hk])
    rwa [show t.bstart + (x - t.bstart) = x by omega] at this
  -- the offset of the start of t
  have hcpre : ChainFrom pre 0 0 := by
    rw [e1, chainFrom_append] at hc; exact hc.1
  have hlenb : (bytesOf (flat ts)).length = blen (flat ts) := length_bytesOf _
  have h2 := koffTo_tokens X (bytesOf (flat ts)) pre 0 0 hcpre (fun u hu => hw u (by rw [e1]; simp [hu])) (by
    rw [hlenb, e1]; simp [blen_append])
  rw [Nat.zero_add, koffTo_zero, Nat.zero_add, ← e4] at h2
  rw [h1, h2]
  by_cases hpre : pre.filter (keepTok X) = []
  · left; rw [hpre]; rfl
  · right
    have hsplit : tokSegs X ts = (pre.filter (keepTok X)).map (fun t => bytesOf t.value) ++
        ((t :: post).filter (keepTok X)).map (fun t => bytesOf t.value) := by
      unfold tokSegs; rw [e1, List.filter_append, List.map_append]
    rw [hsplit]
    have := segEnds_prefix ((pre.filter (keepTok X)).map fun t => bytesOf t.value)
      (((t :: post).filter (keepTok X)).map fun t => bytesOf t.value) 0 (by simpa using hpre)
    have hfl : (((pre.filter (keepTok X)).map fun t => bytesOf t.value).flatten).length = blen (flat (pre.filter (keepTok X))) := by
      have := tokSegs_flatten X pre
      unfold tokSegs at this
      rw [this, length_bytesOf]
    rw [hfl, Nat.zero_add] at this
    exact this

end Chiritori
