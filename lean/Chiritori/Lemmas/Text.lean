import Chiritori.Model.Text
/-
  Facts about the abstract byte view.
-/
namespace Chiritori

@[simp] theorem charBytes_length (c : Char) : (charBytes c).length = c.utf8Size := by
  have := Char.utf8Size_pos c
  simp [charBytes]; omega

@[simp] theorem bytesOf_nil : bytesOf [] = [] := rfl
@[simp] theorem bytesOf_cons (c : Char) (cs : List Char) : bytesOf (c :: cs) = charBytes c ++ bytesOf cs := rfl
@[simp] theorem blen_nil : blen [] = 0 := rfl
@[simp] theorem blen_cons (c : Char) (cs : List Char) : blen (c :: cs) = c.utf8Size + blen cs := rfl

theorem bytesOf_append (a b : List Char) : bytesOf (a ++ b) = bytesOf a ++ bytesOf b := by
  induction a with
  | nil => rfl
  | cons c cs ih => simp [ih]

theorem blen_append (a b : List Char) : blen (a ++ b) = blen a + blen b := by
  induction a with
  | nil => simp
  | cons c cs ih => simp [ih]; omega

@[simp] theorem bytesOf_length (s : List Char) : (bytesOf s).length = blen s := by
  induction s with
  | nil => rfl
  | cons c cs ih => simp [ih]

theorem charsOf_append (a b : Bytes) : charsOf (a ++ b) = charsOf a ++ charsOf b := by
  induction a with
  | nil => rfl
  | cons x xs ih => cases x <;> simp [charsOf, ih]

theorem charsOf_replicate_cont (n : Nat) : charsOf (List.replicate n .cont) = [] := by
  induction n with
  | zero => rfl
  | succ n ih => simp [List.replicate_succ, charsOf, ih]

@[simp] theorem charsOf_charBytes (c : Char) : charsOf (charBytes c) = [c] := by
  simp [charBytes, charsOf, charsOf_replicate_cont]

@[simp] theorem charsOf_bytesOf (s : List Char) : charsOf (bytesOf s) = s := by
  induction s with
  | nil => rfl
  | cons c cs ih => simp [charsOf_append, ih]

theorem blen_pos_of_ne_nil {s : List Char} (h : s ≠ []) : 0 < blen s := by
  cases s with
  | nil => exact absurd rfl h
  | cons c cs => have := Char.utf8Size_pos c; simp; omega

/-- every byte of `charBytes c` after the first is a continuation byte -/
theorem charBytes_getElem?_cont (c : Char) (i : Nat) (h0 : 0 < i) (h1 : i < c.utf8Size) :
    (charBytes c)[i]? = some .cont := by
  unfold charBytes
  cases i with
  | zero => omega
  | succ j =>
    simp only [List.getElem?_cons_succ]
    rw [List.getElem?_replicate]
    simp; omega

/-- A boundary of `bytesOf s` splits `s`. -/
theorem split_at_boundary (s : List Char) (i : Nat) (hi : i ≤ blen s) (hb : isBoundary (bytesOf s) i = true) :
    ∃ s1 s2, s = s1 ++ s2 ∧ blen s1 = i ∧ (bytesOf s).take i = bytesOf s1 ∧ (bytesOf s).drop i = bytesOf s2 := by
  induction s generalizing i with
  | nil =>
    refine ⟨[], [], rfl, ?_, ?_, ?_⟩ <;> simp at hi ⊢ <;> omega
  | cons c cs ih =>
    by_cases h0 : i = 0
    · subst h0
      exact ⟨[], c :: cs, rfl, rfl, by simp, by simp⟩
    · have hpos := Char.utf8Size_pos c
      by_cases hlt : i < c.utf8Size
      · -- inside the first character: not a boundary
        exfalso
        unfold isBoundary at hb
        have hne : (i == (bytesOf (c :: cs)).length) = false := by
          simp; omega
        have hget : (bytesOf (c :: cs))[i]? = some .cont := by
          rw [bytesOf_cons, List.getElem?_append_left (by simp; omega)]
          exact charBytes_getElem?_cont c i (by omega) hlt
        rw [hne, hget] at hb
        simp at hb
      · have hge : c.utf8Size ≤ i := by omega
        have hi' : i - c.utf8Size ≤ blen cs := by simp at hi; omega
        have hb' : isBoundary (bytesOf cs) (i - c.utf8Size) = true := by
          unfold isBoundary at hb ⊢
          have e1 : (i == (bytesOf (c :: cs)).length) = (i - c.utf8Size == (bytesOf cs).length) := by
            simp only [bytesOf_length, blen_cons]
            rw [Bool.eq_iff_iff]; simp; omega
          have e2 : (bytesOf (c :: cs))[i]? = (bytesOf cs)[i - c.utf8Size]? := by
            rw [bytesOf_cons, List.getElem?_append_right (by simp; omega)]
            simp
          rw [e1, e2] at hb
          exact hb
        obtain ⟨s1, s2, hs, hl, ht, hd⟩ := ih (i - c.utf8Size) hi' hb'
        refine ⟨c :: s1, s2, by simp [hs], by simp [hl]; omega, ?_, ?_⟩
        · rw [bytesOf_cons, List.take_append]
          simp only [charBytes_length]
          rw [List.take_of_length_le (by simp; omega), ht]
          simp
        · rw [bytesOf_cons, List.drop_append]
          simp only [charBytes_length]
          rw [List.drop_of_length_le (by simp; omega), hd]
          simp

/-- `0` and the length are boundaries; so is the end of every prefix -/
theorem isBoundary_blen_prefix (a b : List Char) : isBoundary (bytesOf (a ++ b)) (blen a) = true := by
  unfold isBoundary
  rw [bytesOf_append]
  cases b with
  | nil => simp
  | cons c cs =>
    have : (bytesOf a ++ bytesOf (c :: cs))[blen a]? = some (.lead c) := by
      rw [List.getElem?_append_right (by simp)]
      simp [charBytes]
    rw [this]
    simp

/-- Deleting a valid range of a well-formed byte string gives a well-formed byte string. -/
theorem deleteRange_wellFormed (s : List Char) (i j : Nat) (out : Bytes)
    (h : deleteRange (bytesOf s) i j = .ok out) : ∃ s', out = bytesOf s' ∧ blen s' = blen s - (j - i) := by
  unfold deleteRange at h
  split at h
  · rename_i hv
    injection h with h
    simp only [validRange, Bool.and_eq_true, decide_eq_true_eq] at hv
    obtain ⟨⟨⟨hij, hj⟩, hbi⟩, hbj⟩ := hv
    simp only [bytesOf_length] at hj
    obtain ⟨a1, a2, ha, hal, hat, _⟩ := split_at_boundary s i (by omega) hbi
    obtain ⟨b1, b2, hb, hbl, _, hbd⟩ := split_at_boundary s j hj hbj
    refine ⟨a1 ++ b2, ?_, ?_⟩
    · rw [← h, hat, hbd, bytesOf_append]
    · have h1 : blen s = blen a1 + blen a2 := by rw [ha, blen_append]
      have h2 : blen s = blen b1 + blen b2 := by rw [hb, blen_append]
      rw [blen_append]; omega
  · exact absurd h (by simp)

end Chiritori
