import Chiritori.Lemmas.FormatMerge
/-
  `merge_overlapped_ranges` uses its ranges only through comparisons of end points; two lists of ranges whose end
  points correspond under an order-preserving relation are merged the same way, and the merged lists cover
  corresponding positions.
-/
namespace Chiritori
open Spec

/-- an order isomorphism between two sets of positions, as a relation -/
def MonoRel (ρ : Nat → Nat → Prop) : Prop := ∀ x x' y y', ρ x x' → ρ y y' → (x ≤ y ↔ x' ≤ y')

def RelR (ρ : Nat → Nat → Prop) (r r' : Rng') : Prop := ρ r.1 r'.1 ∧ ρ r.2 r'.2

def RelRs (ρ : Nat → Nat → Prop) : List Rng' → List Rng' → Prop
  | [], [] => True
  | r :: rs, r' :: rs' => RelR ρ r r' ∧ RelRs ρ rs rs'
  | [], _ :: _ => False
  | _ :: _, [] => False

theorem mergeOverlappedGo_rel (ρ : Nat → Nat → Prop) (hm : MonoRel ρ) :
    ∀ (xs xs' : List Rng') (cur cur' : Rng'), RelR ρ cur cur' → RelRs ρ xs xs' →
    RelRs ρ (mergeOverlappedGo cur xs) (mergeOverlappedGo cur' xs')
  | [], [], cur, cur', hc, _ => ⟨hc, trivial⟩
  | [], _ :: _, _, _, _, h => absurd h (by simp [RelRs])
  | _ :: _, [], _, _, _, h => absurd h (by simp [RelRs])
  | x :: xs, x' :: xs', cur, cur', hc, h => by
    obtain ⟨hx, hxs⟩ := h
    simp only [mergeOverlappedGo]
    have e1 : cur.2 ≥ x.1 ↔ cur'.2 ≥ x'.1 := hm x.1 x'.1 cur.2 cur'.2 hx.1 hc.2
    by_cases hge : cur.2 ≥ x.1
    · rw [if_pos hge, if_pos (e1.mp hge)]
      apply mergeOverlappedGo_rel ρ hm xs xs' _ _ _ hxs
      refine ⟨hc.1, ?_⟩
      have e2 : cur.2 ≤ x.2 ↔ cur'.2 ≤ x'.2 := hm cur.2 cur'.2 x.2 x'.2 hc.2 hx.2
      by_cases hle : cur.2 ≤ x.2
      · rw [Nat.max_eq_right hle, Nat.max_eq_right (e2.mp hle)]; exact hx.2
      · rw [Nat.max_eq_left (by omega), Nat.max_eq_left (by have := mt e2.mpr hle; omega)]; exact hc.2
    · rw [if_neg hge, if_neg (mt e1.mpr hge)]
      exact ⟨hc, mergeOverlappedGo_rel ρ hm xs xs' x x' hx hxs⟩

theorem mergeOverlapped_rel (ρ : Nat → Nat → Prop) (hm : MonoRel ρ) (l l' : List Rng') (h : RelRs ρ l l') :
    RelRs ρ (mergeOverlapped l) (mergeOverlapped l') := by
  cases l with
  | nil =>
    cases l' with
    | nil => trivial
    | cons _ _ => exact absurd h (by simp [RelRs])
  | cons r rs =>
    cases l' with
    | nil => exact absurd h (by simp [RelRs])
    | cons r' rs' => exact mergeOverlappedGo_rel ρ hm rs rs' r r' h.1 h.2

theorem mergeRanges_nil (ranges : List Rng') : mergeRanges ranges (sortByStart []) = ranges := by
  unfold mergeRanges
  split
  · rfl
  · simp [sortByStart, mergeRangesLoop]

/-- corresponding positions are covered alike -/
theorem inAny_rel (ρ : Nat → Nat → Prop) (hm : MonoRel ρ) : ∀ (F F' : List Rng'), RelRs ρ F F' →
    ∀ d d', ρ d d' → inAny F d = inAny F' d'
  | [], [], _, _, _, _ => rfl
  | [], _ :: _, h, _, _, _ => absurd h (by simp [RelRs])
  | _ :: _, [], h, _, _, _ => absurd h (by simp [RelRs])
  | r :: rs, r' :: rs', h, d, d', hd => by
    obtain ⟨hr, hrs⟩ := h
    rw [inAny_cons, inAny_cons, inAny_rel ρ hm rs rs' hrs d d' hd]
    congr 1
    have e1 : r.1 ≤ d ↔ r'.1 ≤ d' := hm r.1 r'.1 d d' hr.1 hd
    have e2 : r.2 ≤ d ↔ r'.2 ≤ d' := hm r.2 r'.2 d d' hr.2 hd
    simp only [Rng.contains]
    rw [Bool.eq_iff_iff]
    simp only [Bool.and_eq_true, decide_eq_true_eq]
    constructor
    · rintro ⟨a, b⟩; exact ⟨e1.mp a, by have := mt e2.mpr (by omega : ¬ r.2 ≤ d); omega⟩
    · rintro ⟨a, b⟩; exact ⟨e1.mpr a, by have := mt e2.mp (by omega : ¬ r'.2 ≤ d'); omega⟩

end Chiritori
