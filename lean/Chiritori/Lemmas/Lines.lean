import Chiritori.Lemmas.Finders
import Chiritori.Spec.Defs
/-
  The byte-wise finders against the table of line breaks.
-/
namespace Chiritori
open Spec


theorem mem_lineMapAux (bs : Bytes) (i p : Nat) : p ∈ lineMapAux bs i ↔ i ≤ p ∧ bs[p - i]? = some NL := by
  induction bs generalizing i with
  | nil => simp [lineMapAux]
  | cons x rest ih =>
    cases x with
    | cont =>
      simp only [lineMapAux, ih]
      constructor
      · rintro ⟨h1, h2⟩
        refine ⟨by omega, ?_⟩
        rw [show p - i = (p - (i + 1)) + 1 by omega]; simpa using h2
      · rintro ⟨h1, h2⟩
        have hne : p ≠ i := by
          intro h; subst h; simp at h2
        refine ⟨by omega, ?_⟩
        rw [show p - i = (p - (i + 1)) + 1 by omega] at h2; simpa using h2
    | lead c =>
      simp only [lineMapAux]
      by_cases hc : c = '\n'
      · simp only [hc, ite_true, List.mem_cons, ih]
        constructor
        · rintro (h | ⟨h1, h2⟩)
          · subst h; simp
          · refine ⟨by omega, ?_⟩
            rw [show p - i = (p - (i + 1)) + 1 by omega]; simpa using h2
        · rintro ⟨h1, h2⟩
          by_cases hp : p = i
          · left; exact hp
          · right
            refine ⟨by omega, ?_⟩
            rw [show p - i = (p - (i + 1)) + 1 by omega] at h2; simpa using h2
      · simp only [hc, ite_false, ih]
        constructor
        · rintro ⟨h1, h2⟩
          refine ⟨by omega, ?_⟩
          rw [show p - i = (p - (i + 1)) + 1 by omega]; simpa using h2
        · rintro ⟨h1, h2⟩
          have hne : p ≠ i := by
            intro h; subst h; simp at h2; exact hc h2
          refine ⟨by omega, ?_⟩
          rw [show p - i = (p - (i + 1)) + 1 by omega] at h2; simpa using h2

theorem mem_lineBreaks (b : Bytes) (p : Nat) : p ∈ lineBreaks b ↔ b[p]? = some NL := by
  simp [lineBreaks, buildLineMap, mem_lineMapAux]

theorem lineMapAux_sorted (bs : Bytes) (i : Nat) : (lineMapAux bs i).Pairwise (· < ·) := by
  induction bs generalizing i with
  | nil => simp [lineMapAux]
  | cons x rest ih =>
    cases x with
    | cont => simpa [lineMapAux] using ih (i + 1)
    | lead c =>
      simp only [lineMapAux]
      by_cases hc : c = '\n'
      · simp only [hc, ite_true, List.pairwise_cons]
        refine ⟨?_, ih (i + 1)⟩
        intro q hq
        have := (mem_lineMapAux rest (i + 1) q).mp hq
        omega
      · simpa [hc] using ih (i + 1)

theorem lineBreaks_sorted (b : Bytes) : (lineBreaks b).Pairwise (· < ·) := lineMapAux_sorted b 0

/-- least element of a sorted list satisfying a lower bound -/
theorem find?_ge_of_sorted (l : List Nat) (hs : l.Pairwise (· < ·)) (pos p : Nat) (hp : p ∈ l) (hge : pos ≤ p)
    (hmin : ∀ q ∈ l, pos ≤ q → p ≤ q) : l.find? (fun q => decide (q ≥ pos)) = some p := by
  induction l with
  | nil => simp at hp
  | cons x xs ih =>
    simp only [List.pairwise_cons] at hs
    by_cases hx : x ≥ pos
    · have h1 : p ≤ x := hmin x (by simp) hx
      have h2 : x ≤ p := by
        rcases List.mem_cons.mp hp with h | h
        · omega
        · have := hs.1 p h; omega
      simp [List.find?_cons, hx]; omega
    · have hpx : p ≠ x := by omega
      have hp' : p ∈ xs := by
        rcases List.mem_cons.mp hp with h | h
        · exact absurd h hpx
        · exact h
      simp only [List.find?_cons, hx, decide_false]
      exact ih hs.2 hp' (fun q hq => hmin q (by simp [hq]))

theorem find?_gt_of_sorted (l : List Nat) (hs : l.Pairwise (· < ·)) (pos p : Nat) (hp : p ∈ l) (hgt : pos < p)
    (hmin : ∀ q ∈ l, pos < q → p ≤ q) : l.find? (fun q => decide (q > pos)) = some p := by
  have := find?_ge_of_sorted l hs (pos + 1) p hp (by omega) (fun q hq h => hmin q hq (by omega))
  have e : (fun q => decide (q ≥ pos + 1)) = (fun q => decide (q > pos)) := by
    funext q; simp; omega
  rwa [e] at this

/-- greatest element of a sorted list -/
theorem getLast?_of_sorted (l : List Nat) (hs : l.Pairwise (· < ·)) (p : Nat) (hp : p ∈ l)
    (hmax : ∀ q ∈ l, q ≤ p) : l.getLast? = some p := by
  induction l with
  | nil => simp at hp
  | cons x xs ih =>
    simp only [List.pairwise_cons] at hs
    cases xs with
    | nil => simp at hp; simp [hp]
    | cons y ys =>
      rw [List.getLast?_cons_cons]
      have hpx : p ≠ x := by
        intro h
        have := hmax y (by simp)
        have := hs.1 y (by simp)
        omega
      have hp' : p ∈ y :: ys := by
        rcases List.mem_cons.mp hp with h | h
        · exact absurd h hpx
        · exact h
      exact ih hs.2 hp' (fun q hq => hmax q (by simp [hq]))

theorem getLast?_filter_of_sorted (l : List Nat) (hs : l.Pairwise (· < ·)) (P : Nat → Bool) (p : Nat)
    (hp : p ∈ l) (hP : P p = true) (hmax : ∀ q ∈ l, P q = true → q ≤ p) : (l.filter P).getLast? = some p := by
  apply getLast?_of_sorted
  · exact hs.sublist (List.filter_sublist)
  · exact List.mem_filter.mpr ⟨hp, hP⟩
  · intro q hq
    obtain ⟨h1, h2⟩ := List.mem_filter.mp hq
    exact hmax q h1 h2

theorem getLast?_filter_none (l : List Nat) (P : Nat → Bool) (h : ∀ q ∈ l, P q = false) :
    (l.filter P).getLast? = none := by
  have : l.filter P = [] := by
    rw [List.filter_eq_nil_iff]
    intro q hq; simp [h q hq]
  simp [this]

/-! ### the finders in terms of the table -/

theorem findNextLB_false_eq (b : Bytes) (pos : Nat) (hpos : 0 < pos) :
    findNextLB b pos false = (lineBreaks b).find? (fun q => decide (q ≥ pos)) := by
  cases h : findNextLB b pos false with
  | some p =>
    obtain ⟨_, h2, h3, h4, h5, _⟩ := findNextLB_some b pos p false h
    symm
    apply find?_ge_of_sorted _ (lineBreaks_sorted b) pos p ((mem_lineBreaks b p).mpr h4) h2
    intro q hq hge
    by_cases hlt : q < p
    · exact absurd ((mem_lineBreaks b q).mp hq) (h5 q hge hlt)
    · omega
  | none =>
    have := findNextLB_none_false b pos hpos h
    symm
    rw [List.find?_eq_none]
    intro q hq
    simp only [decide_eq_true_eq, Nat.not_le]
    by_cases hge : pos ≤ q
    · exact absurd ((mem_lineBreaks b q).mp hq) (this q hge)
    · omega

theorem prevScan_none_false (rev : Bytes) (cursor : Nat) (hlen : rev.length = cursor + 1)
    (h : prevScan false rev cursor = none) : ∀ i : Nat, i < cursor → rev[i]? ≠ some NL := by
  induction rev generalizing cursor with
  | nil => simp at hlen
  | cons x rest ih =>
    simp only [prevScan] at h
    split at h
    · intro i hi; omega
    · rename_i hc0
      have hlen' : rest.length = (cursor - 1) + 1 := by simp at hlen; omega
      cases hc : lbCheck (some x) with
      | found => rw [hc] at h; simp at h
      | skip =>
        rw [hc] at h
        have hx : x ≠ NL := by
          intro hx; rw [(lbCheck_found x).mpr hx] at hc; simp at hc
        intro i hi
        cases i with
        | zero => simpa using hx
        | succ j => simpa using ih (cursor - 1) hlen' h j (by omega)
      | none =>
        rw [hc] at h
        simp only [Bool.false_eq_true, ite_false] at h
        have hx : x ≠ NL := by
          intro hx; rw [(lbCheck_found x).mpr hx] at hc; simp at hc
        intro i hi
        cases i with
        | zero => simpa using hx
        | succ j => simpa using ih (cursor - 1) hlen' h j (by omega)

theorem findPrevLB_none_false (b : Bytes) (pos : Nat) (hle : pos ≤ b.length) (h : findPrevLB b pos false = none) :
    ∀ i : Nat, 0 < i → i < pos → b[i]? ≠ some NL := by
  unfold findPrevLB at h
  split at h
  · intro i _ hi; omega
  · split at h
    · intro i _ hi; omega
    · rename_i h0 h1
      have hlen : (b.take pos).reverse.length = (pos - 1) + 1 := by simp [Nat.min_eq_left hle]; omega
      have := prevScan_none_false (b.take pos).reverse (pos - 1) hlen h
      intro i hi0 hi
      have hk := this (pos - 1 - i) (by omega)
      rw [List.getElem?_reverse (by simp [Nat.min_eq_left hle]; omega)] at hk
      simp only [List.length_take, Nat.min_eq_left hle] at hk
      rw [List.getElem?_take_of_lt (by omega)] at hk
      rwa [show pos - 1 - (pos - 1 - i) = i by omega] at hk

theorem findPrevLB_false_eq (b : Bytes) (pos : Nat) (hle : pos ≤ b.length) :
    findPrevLB b pos false = ((lineBreaks b).filter (fun p => decide (p < pos ∧ p ≥ 1))).getLast? := by
  cases h : findPrevLB b pos false with
  | some p =>
    obtain ⟨h1, h2, _, h4, h5, _⟩ := findPrevLB_some b pos p false h
    symm
    apply getLast?_filter_of_sorted _ (lineBreaks_sorted b) _ p ((mem_lineBreaks b p).mpr h4)
    · simp; omega
    · intro q hq hP
      simp only [decide_eq_true_eq] at hP
      by_cases hgt : p < q
      · exact absurd ((mem_lineBreaks b q).mp hq) (h5 q hgt hP.1)
      · omega
  | none =>
    have := findPrevLB_none_false b pos hle h
    symm
    apply getLast?_filter_none
    intro q hq
    simp only [decide_eq_false_iff_not, not_and, Nat.not_le]
    intro hlt
    by_cases h0 : 0 < q
    · exact absurd ((mem_lineBreaks b q).mp hq) (this q h0 hlt)
    · omega

/-- `UnwrapBlockMarkerBuilder::build` computes the two wrapper parts of the specification. -/
theorem buildUnwrap_eq (b : Bytes) (st en : Token) (h1 : 0 < st.bstop) (h2 : en.bstart ≤ b.length) :
    buildUnwrap b st en =
      match unwrapParts b st en with
      | some (h, t) => (h, some t)
      | none => ((st.bstart, st.bstart), none) := by
  unfold buildUnwrap unwrapParts
  dsimp only
  rw [findNextLB_false_eq b st.bstop h1, findPrevLB_false_eq b en.bstart h2]
  cases hp1 : (lineBreaks b).find? (fun q => decide (q ≥ st.bstop)) with
  | none => rfl
  | some p1 =>
    simp only [Option.bind_some]
    rw [findNextLB_false_eq b (p1 + 1) (by omega)]
    have e1 : (fun q => decide (q ≥ p1 + 1)) = (fun p => decide (p > p1)) := by funext q; simp; omega
    rw [e1]
    cases hp2 : (lineBreaks b).find? (fun p => decide (p > p1)) with
    | none => rfl
    | some p2 =>
      simp only [Option.bind_some]
      cases hq1 : ((lineBreaks b).filter (fun p => decide (p < en.bstart ∧ p ≥ 1))).getLast? with
      | none => rfl
      | some q1 =>
        simp only [Option.bind_some]
        have hq1mem := List.mem_of_getLast? hq1
        have hq1' := (List.mem_filter.mp hq1mem).2
        simp only [decide_eq_true_eq] at hq1'
        rw [findPrevLB_false_eq b q1 (by omega)]
        cases hq2 : ((lineBreaks b).filter (fun p => decide (p < q1 ∧ p ≥ 1))).getLast? with
        | none => rfl
        | some q2 =>
          simp only [Option.bind_some]
          by_cases hv : q2 ≥ p2
          · rw [if_pos hv, if_pos hv]
          · rw [if_neg hv, if_neg hv]

end Chiritori
