import Chiritori.Lemmas.Respell
import Chiritori.Lemmas.ItemLines
import Chiritori.Lemmas.PruneBytes
/-
  Line numbers under a change of delimiters: corresponding tokens of the same piece list under two delimiter pairs
  that contain no line break start and end behind the same number of line breaks.
-/
namespace Chiritori
open Spec

/-- line breaks in front of a byte position -/
def nlBefore (b : Bytes) (pos : Nat) : Nat := (b.take pos).count NL

/-- the same number of line breaks in front of the first byte, behind the last byte, and in front of the last byte -/
def SameLines (b b' : Bytes) (t u : Token) : Prop :=
  nlBefore b t.bstart = nlBefore b' u.bstart ∧ nlBefore b t.bstop = nlBefore b' u.bstop ∧
    nlBefore b (t.bstop - 1) = nlBefore b' (u.bstop - 1)

def PW (R : Token → Token → Prop) : List Token → List Token → Prop
  | [], [] => True
  | t :: ts, u :: us => R t u ∧ PW R ts us
  | [], _ :: _ => False
  | _ :: _, [] => False

theorem tokXs_zip (ds de ds' de' : List Char) (R : Token → Token → Prop) : ∀ (T T' : List Token),
    TokXs ds de ds' de' (fun _ _ => True) T T' → PW R T T' → TokXs ds de ds' de' R T T'
  | [], [], _, _ => trivial
  | [], _ :: _, h, _ => absurd h (by simp [TokXs])
  | _ :: _, [], h, _ => absurd h (by simp [TokXs])
  | t :: ts, u :: us, h1, h2 => by
    simp only [TokXs] at h1
    exact ⟨⟨h1.1.1, h2.1⟩, tokXs_zip ds de ds' de' R ts us h1.2 h2.2⟩

theorem count_bytesOf (v : List Char) : (bytesOf v).count NL = v.count '\n' := by
  rw [← count_charsOf, charsOf_bytesOf]

theorem count_nl_free (v : List Char) (h : ∀ c ∈ v, c ≠ '\n') : v.count '\n' = 0 := by
  rw [List.count_eq_zero]
  intro hm
  exact h _ hm rfl

/-- the last byte of an encoded non-empty text: the count without it -/
theorem count_dropLast (x : Bytes) (y : ABy) (h : x.getLast? = some y) :
    x.dropLast.count NL = x.count NL - (if y = NL then 1 else 0) := by
  rcases List.eq_nil_or_concat x with hx | ⟨L, z, hx⟩
  · subst hx; simp at h
  · subst hx
    simp only [List.concat_eq_append] at h ⊢
    rw [List.getLast?_concat] at h
    injection h with h
    subst h
    rw [List.dropLast_concat, List.count_append]
    by_cases hz : z = NL
    · subst hz; simp
    · simp [hz, List.count_cons_of_ne hz]

theorem take_pre_append (pre x post : Bytes) (n : Nat) (h : n ≤ x.length) :
    (pre ++ (x ++ post)).take (pre.length + n) = pre ++ x.take n := by
  rw [List.take_append, List.take_of_length_le (by omega)]
  congr 1
  rw [show pre.length + n - pre.length = n by omega, List.take_append_of_le_length h]

/-- along two corresponding token chains the line counts agree token by token -/
theorem chain_sameLines (ds de ds' de' : List Char)
    (hnl : ∀ c ∈ ds ++ de, c ≠ '\n') (hnl' : ∀ c ∈ ds' ++ de', c ≠ '\n')
    (hde : ∀ w c, de = w ++ [c] → c ≠ '\n') (hde' : ∀ w c, de' = w ++ [c] → c ≠ '\n') (hden : de ≠ []) (hden' : de' ≠ []) :
    ∀ (T T' : List Token) (s off s' off' : Nat) (pre pre' post post' : Bytes),
    ChainFrom T s off → ChainFrom T' s' off' → TokXs ds de ds' de' (fun _ _ => True) T T' →
    pre.length = off → pre'.length = off' → pre.count NL = pre'.count NL →
    PW (SameLines (pre ++ (bytesOf (flat T) ++ post)) (pre' ++ (bytesOf (flat T') ++ post'))) T T'
  | [], [], _, _, _, _, _, _, _, _, _, _, _, _, _, _ => trivial
  | [], _ :: _, _, _, _, _, _, _, _, _, _, _, h, _, _, _ => absurd h (by simp [TokXs])
  | _ :: _, [], _, _, _, _, _, _, _, _, _, _, h, _, _, _ => absurd h (by simp [TokXs])
  | t :: ts, u :: us, s, off, s', off', pre, pre', post, post', hc, hc', hx, hp, hp', hcnt => by
    obtain ⟨_, c2, c3, _, c5, c6⟩ := hc
    obtain ⟨_, d2, d3, _, d5, d6⟩ := hc'
    simp only [TokXs] at hx
    obtain ⟨⟨hx0, _⟩, hxs⟩ := hx
    have hl : (bytesOf t.value).length = blen t.value := length_bytesOf _
    have hl' : (bytesOf u.value).length = blen u.value := length_bytesOf _
    have hpos : 0 < blen t.value := blen_pos_of_ne_nil c3
    have hpos' : 0 < blen u.value := blen_pos_of_ne_nil d3
    -- the values have the same number of line breaks, also without their last byte
    have hval : (bytesOf t.value).count NL = (bytesOf u.value).count NL ∧
        (bytesOf t.value).dropLast.count NL = (bytesOf u.value).dropLast.count NL := by
      obtain ⟨_, h | h⟩ := hx0
      · rw [h.2]; exact ⟨rfl, rfl⟩
      · obtain ⟨_, body, hb, hv, hv', _, _⟩ := h
        have e1 : (bytesOf t.value).count NL = body.count '\n' := by
          rw [count_bytesOf, hv, List.count_append, List.count_append,
            count_nl_free ds (fun c hc => hnl c (by simp [hc])), count_nl_free de (fun c hc => hnl c (by simp [hc]))]
          simp
        have e2 : (bytesOf u.value).count NL = body.count '\n' := by
          rw [count_bytesOf, hv', List.count_append, List.count_append,
            count_nl_free ds' (fun c hc => hnl' c (by simp [hc])), count_nl_free de' (fun c hc => hnl' c (by simp [hc]))]
          simp
        refine ⟨by rw [e1, e2], ?_⟩
        -- the last byte of a tag is the last byte of its end delimiter: not a line break
        obtain ⟨w, c, hwc⟩ := exists_snoc de hden
        obtain ⟨w', c', hwc'⟩ := exists_snoc de' hden'
        obtain ⟨y, hy, hyc⟩ := bytesOf_last (ds ++ body ++ w) c
        obtain ⟨y', hy', hyc'⟩ := bytesOf_last (ds' ++ body ++ w') c'
        have hyn : y ≠ NL := by
          rcases hyc with rfl | rfl
          · decide
          · intro hh; injection hh with hh; exact hde w c hwc hh
        have hyn' : y' ≠ NL := by
          rcases hyc' with rfl | rfl
          · decide
          · intro hh; injection hh with hh; exact hde' w' c' hwc' hh
        have ev : t.value = ds ++ body ++ w ++ [c] := by rw [hv, hwc]; simp
        have ev' : u.value = ds' ++ body ++ w' ++ [c'] := by rw [hv', hwc']; simp
        rw [← ev] at hy
        rw [← ev'] at hy'
        rw [count_dropLast _ y hy, count_dropLast _ y' hy', if_neg hyn, if_neg hyn', e1, e2]
    have hb1 : (pre ++ (bytesOf (flat (t :: ts)) ++ post)) = pre ++ (bytesOf t.value ++ (bytesOf (flat ts) ++ post)) := by
      rw [flat_cons, bytesOf_append, List.append_assoc]
    have hb2 : (pre' ++ (bytesOf (flat (u :: us)) ++ post')) = pre' ++ (bytesOf u.value ++ (bytesOf (flat us) ++ post')) := by
      rw [flat_cons, bytesOf_append, List.append_assoc]
    refine ⟨⟨?_, ?_, ?_⟩, ?_⟩
    · -- in front of the token
      unfold nlBefore
      rw [hb1, hb2, c2, d2, ← hp, ← hp']
      have t1 := take_pre_append pre (bytesOf t.value) (bytesOf (flat ts) ++ post) 0 (Nat.zero_le _)
      have t2 := take_pre_append pre' (bytesOf u.value) (bytesOf (flat us) ++ post') 0 (Nat.zero_le _)
      simp only [Nat.add_zero, List.take_zero, List.append_nil] at t1 t2
      rw [t1, t2, hcnt]
    · -- behind the token
      unfold nlBefore
      rw [hb1, hb2, c5, d5, ← hp, ← hp', ← hl, ← hl']
      rw [take_pre_append pre _ _ _ (Nat.le_refl _), take_pre_append pre' _ _ _ (Nat.le_refl _)]
      simp only [List.take_length, List.count_append, hcnt, hval.1]
    · -- in front of its last byte
      unfold nlBefore
      rw [hb1, hb2, c5, d5, ← hp, ← hp']
      rw [show pre.length + blen t.value - 1 = pre.length + ((bytesOf t.value).length - 1) by rw [hl]; omega,
        show pre'.length + blen u.value - 1 = pre'.length + ((bytesOf u.value).length - 1) by rw [hl']; omega]
      rw [take_pre_append pre _ _ _ (by omega), take_pre_append pre' _ _ _ (by omega)]
      rw [← List.dropLast_eq_take, ← List.dropLast_eq_take]
      simp only [List.count_append, hcnt, hval.2]
    · -- the rest of the chain
      have ih := chain_sameLines ds de ds' de' hnl hnl' hde hde' hden hden' ts us t.stop t.bstop u.stop u.bstop
        (pre ++ bytesOf t.value) (pre' ++ bytesOf u.value) post post' c6 d6 hxs
        (by rw [List.length_append, hl, hp, c5]) (by rw [List.length_append, hl', hp', d5])
        (by rw [List.count_append, List.count_append, hcnt, hval.1])
      rw [hb1, hb2]
      simpa [List.append_assoc] using ih

/-! ### the start tag of an element lies in front of the end of its end tag -/

mutual
theorem elements_ordered : ∀ (parts : List Part) (lo hi : Nat), BSpan (flattenParts parts) lo hi →
    ∀ e ∈ elementsOf parts, e.2.1.bstart < e.2.2.bstop
  | [], _, _, _, e, he => by simp [elementsOf] at he
  | p :: ps, lo, hi, hs, e, he => by
    simp only [flattenParts, BSpan_append] at hs
    obtain ⟨mid, hs1, hs2⟩ := hs
    simp only [elementsOf, List.mem_append] at he
    rcases he with he | he
    · exact elementsPart_ordered p lo mid hs1 e he
    · exact elements_ordered ps mid hi hs2 e he
theorem elementsPart_ordered : ∀ (p : Part) (lo hi : Nat), BSpan (flattenPart p) lo hi →
    ∀ e ∈ elementsOfPart p, e.2.1.bstart < e.2.2.bstop
  | .text t, _, _, _, e, he => by simp [elementsOfPart] at he
  | .element el st en ch, lo, hi, hs, e, he => by
    simp only [flattenPart, List.cons_append, BSpan, BSpan_append] at hs
    obtain ⟨_, hst2, mid, hch, _, hen2, _⟩ := hs
    have hmid := BSpan_le _ st.bstop mid hch
    simp only [elementsOfPart, List.mem_cons] at he
    rcases he with rfl | he
    · simp only; omega
    · exact elements_ordered ch st.bstop mid hch e he
end

end Chiritori
