import Chiritori.Lemmas.Reparse
/-
  The element skeleton of a parse does not depend on the text tokens: two token lists with the same tags, in the
  same order, parse to forests with the same elements (same tags, same nesting).
-/
namespace Chiritori
open Spec

inductive Skel where
  | tag (v : List Char)
  | elem (el : Element) (sv ev : List Char) (ch : List Skel)

mutual
def skelParts : List Part → List Skel
  | [] => []
  | p :: ps => skelPart p ++ skelParts ps
def skelPart : Part → List Skel
  | .text t => if t.kind = .element then [.tag t.value] else []
  | .element el st en ch => [.elem el st.value en.value (skelParts ch)]
end

theorem skelParts_append : ∀ (a b : List Part), skelParts (a ++ b) = skelParts a ++ skelParts b
  | [], b => by simp [skelParts]
  | p :: ps, b => by simp [skelParts, skelParts_append ps b, List.append_assoc]

structure SFrame where
  kind : TKind
  v : List Char
  el : Element
  parts : List Skel

def skelFrame (f : Frame) : SFrame := ⟨f.tok.kind, f.tok.value, f.el, skelParts f.parts⟩

def skelState (st : List Frame × List Part) : List SFrame × List Skel := (st.1.map skelFrame, skelParts st.2)

def skAppend (S : List SFrame) (r ps : List Skel) : List SFrame × List Skel :=
  match S with
  | [] => ([], r ++ ps)
  | f :: fs => ({ f with parts := f.parts ++ ps } :: fs, r)

def skDemote (f : SFrame) : List Skel := if f.kind = .element then [.tag f.v] else []

def skClose (name : List Char) (cv : List Char) : List SFrame → List Skel → List Skel → Option (List SFrame × List Skel)
  | [], _, _ => none
  | f :: fs, root, hoisted =>
    if f.el.name = name then some (skAppend fs root [.elem f.el f.v cv (f.parts ++ hoisted)])
    else skClose name cv fs root (skDemote f ++ (f.parts ++ hoisted))

def skFinish : List SFrame → List Skel → List Skel → List Skel
  | [], hoisted, root => root ++ hoisted
  | f :: fs, hoisted, root => skFinish fs (skDemote f ++ (f.parts ++ hoisted)) root

def dummyTok (k : TKind) (v : List Char) : Token := ⟨k, v, 0, 0, 0, 0⟩

def skStep (ds de : List Char) (ss : List SFrame × List Skel) (kv : TKind × List Char) : List SFrame × List Skel :=
  match elparse ds de (dummyTok kv.1 kv.2) with
  | none => skAppend ss.1 ss.2 (if kv.1 = .element then [.tag kv.2] else [])
  | some el =>
    if el.name.head? = some '/' ∧ ss.1.any (fun f => f.el.name == trimSlashes el.name) then
      match skClose (trimSlashes el.name) kv.2 ss.1 ss.2 [] with
      | some r => r
      | none => ss
    else (⟨kv.1, kv.2, el, []⟩ :: ss.1, ss.2)

theorem elparse_dummy (ds de : List Char) (t : Token) : elparse ds de (dummyTok t.kind t.value) = elparse ds de t := by
  simp [elparse, dummyTok]

theorem skelState_appendTo (S : List Frame) (r ps : List Part) :
    skelState (appendTo S r ps) = skAppend (S.map skelFrame) (skelParts r) (skelParts ps) := by
  cases S with
  | nil => simp [appendTo, skelState, skAppend, skelParts_append]
  | cons f fs => simp [appendTo, skelState, skAppend, skelFrame, skelParts_append]

theorem skelParts_demote (f : Frame) (rest : List Part) :
    skelParts (.text f.tok :: rest) = skDemote (skelFrame f) ++ skelParts rest := by
  simp only [skelParts, skelPart, skDemote, skelFrame]
  rfl

theorem skel_closeFrame (name : List Char) (c : Token) : ∀ (S : List Frame) (r h : List Part),
    (closeFrame name c S r h).map skelState =
      skClose name c.value (S.map skelFrame) (skelParts r) (skelParts h)
  | [], _, _ => rfl
  | f :: fs, r, h => by
    simp only [closeFrame, List.map_cons, skClose]
    have hn : (skelFrame f).el.name = f.el.name := rfl
    rw [hn]
    split
    · simp only [Option.map_some, skelState_appendTo]
      simp [skelParts, skelPart, skelFrame, skelParts_append]
    · rw [skel_closeFrame name c fs r _, skelParts_demote, skelParts_append]
      rfl

theorem skel_finishStack : ∀ (S : List Frame) (h r : List Part),
    skelParts (finishStack S h r) = skFinish (S.map skelFrame) (skelParts h) (skelParts r)
  | [], h, r => by simp [finishStack, skFinish, skelParts_append]
  | f :: fs, h, r => by
    simp only [finishStack, List.map_cons, skFinish]
    rw [skel_finishStack fs _ r, skelParts_demote, skelParts_append]
    rfl

theorem any_skelFrame (S : List Frame) (x : List Char) :
    (S.map skelFrame).any (fun f => f.el.name == x) = S.any (fun f => f.el.name == x) := by
  simp [List.any_map, Function.comp_def, skelFrame]

theorem skelState_stackStep (ds de : List Char) (st : List Frame × List Part) (t : Token) :
    skelState (stackStep ds de st t) = skStep ds de (skelState st) (t.kind, t.value) := by
  obtain ⟨S, r⟩ := st
  simp only [stackStep, skStep, elparse_dummy]
  cases he : elparse ds de t with
  | none =>
    have := skelState_appendTo S r [.text t]
    simp only [skelState] at this ⊢
    rw [this]
    simp [skelParts, skelPart]
  | some el =>
    simp only [skelState, any_skelFrame]
    split
    · have := skel_closeFrame (trimSlashes el.name) t S r []
      simp only [skelParts] at this
      rw [← this]
      cases closeFrame (trimSlashes el.name) t S r [] with
      | none => rfl
      | some res => rfl
    · simp [skelFrame, skelParts]

theorem skAppend_nil (S : List SFrame) (r : List Skel) : skAppend S r [] = (S, r) := by
  cases S with
  | nil => simp [skAppend]
  | cons f fs =>
    simp only [skAppend, List.append_nil]

theorem elparse_text_kind (ds de : List Char) (v : List Char) : elparse ds de (dummyTok .text v) = none := by
  simp [elparse, dummyTok]

theorem skStep_text (ds de : List Char) (ss : List SFrame × List Skel) (v : List Char) :
    skStep ds de ss (.text, v) = ss := by
  simp only [skStep, elparse_text_kind]
  simp [skAppend_nil]

def skRun (ds de : List Char) (ss : List SFrame × List Skel) (kvs : List (TKind × List Char)) : List SFrame × List Skel :=
  kvs.foldl (skStep ds de) ss

theorem skelState_runM (ds de : List Char) : ∀ (toks : List Token) (st : List Frame × List Part),
    skelState (runM ds de st toks) = skRun ds de (skelState st) (toks.map fun t => (t.kind, t.value))
  | [], _ => rfl
  | t :: ts, st => by
    simp only [runM, List.foldl_cons, List.map_cons, skRun]
    have := skelState_runM ds de ts (stackStep ds de st t)
    simp only [runM, skRun] at this
    rw [this, skelState_stackStep]

/-- text tokens do not matter -/
theorem skRun_filter (ds de : List Char) : ∀ (kvs : List (TKind × List Char)) (ss : List SFrame × List Skel),
    skRun ds de ss kvs = skRun ds de ss (kvs.filter fun kv => kv.1 = .element)
  | [], _ => rfl
  | (k, v) :: rest, ss => by
    simp only [skRun, List.foldl_cons, List.filter_cons]
    cases k with
    | text =>
      rw [skStep_text]
      simp only [decide_eq_true_eq, reduceCtorEq, ite_false]
      exact skRun_filter ds de rest ss
    | element =>
      simp only [decide_true, ite_true, List.foldl_cons]
      exact skRun_filter ds de rest _

/-- the tags of a token list, in order -/
def tagValues (toks : List Token) : List (List Char) := (toks.filter fun t => t.kind = .element).map (·.value)

theorem skel_stackParse (ds de : List Char) (toks : List Token) :
    skelParts (stackParse ds de toks) =
      skFinish (skRun ds de ([], []) ((tagValues toks).map fun v => (TKind.element, v))).1 []
        (skRun ds de ([], []) ((tagValues toks).map fun v => (TKind.element, v))).2 := by
  unfold stackParse
  have h := skelState_runM ds de toks ([], [])
  simp only [runM] at h
  generalize toks.foldl (stackStep ds de) ([], []) = st at h
  obtain ⟨S, r⟩ := st
  simp only [skel_finishStack, skelParts]
  simp only [skelState] at h
  rw [skRun_filter] at h
  have e : ((toks.map fun t => (t.kind, t.value)).filter fun kv => kv.1 = .element) =
      (tagValues toks).map fun v => (TKind.element, v) := by
    simp only [tagValues, List.filter_map, List.map_map]
    apply List.map_congr_left
    intro t ht
    simp only [List.mem_filter, Function.comp, decide_eq_true_eq] at ht
    simp [ht.2]
  rw [e] at h
  simp only [skelState, List.map_nil, skelParts] at h
  rw [← h]

/-- Stage B: the same tags in the same order give the same skeleton -/
theorem skel_congr (ds de : List Char) (t1 t2 : List Token) (h : tagValues t1 = tagValues t2) :
    skelParts (parse ds de t1) = skelParts (parse ds de t2) := by
  rw [parse_eq_stackParse, parse_eq_stackParse, skel_stackParse, skel_stackParse, h]

end Chiritori
