import Chiritori.Lemmas.MergeMono
import Chiritori.Lemmas.RespellLines
/-
  Corresponding positions in two texts made of corresponding token lists (the same texts, tags of possibly different
  lengths): a position corresponds to one in the other text if both stand at the same token boundary, or at the same
  offset inside the same text token.  The correspondence preserves the order (`rho_mono`).
-/
namespace Chiritori
open Spec

/-- byte offset of the `m`-th token boundary -/
def bnd (L : List Token) (m : Nat) : Nat := blen (flat (L.take m))

theorem bnd_zero (L : List Token) : bnd L 0 = 0 := rfl

theorem bnd_succ (L : List Token) (m : Nat) (t : Token) (h : L[m]? = some t) : bnd L (m + 1) = bnd L m + blen t.value := by
  unfold bnd
  have hlt : m < L.length := lt_of_getElem?_some _ _ _ h
  rw [List.take_succ, h]
  simp [flat_append, blen_append, flat]

theorem bnd_mono (L : List Token) : ∀ (m n : Nat), m ≤ n → bnd L m ≤ bnd L n := by
  intro m n h
  unfold bnd
  obtain ⟨d, rfl⟩ := Nat.exists_eq_add_of_le h
  rw [List.take_add, flat_append, blen_append]
  omega

/-- every token has at least one byte -/
def NonEmptyToks (L : List Token) : Prop := ∀ t ∈ L, 0 < blen t.value

theorem bnd_strict (L : List Token) (hne : NonEmptyToks L) (m n : Nat) (h : m < n) (hn : n ≤ L.length) :
    bnd L m < bnd L n := by
  have hm : m < L.length := by omega
  have ht : L[m]? = some L[m] := List.getElem?_eq_getElem hm
  have := bnd_succ L m _ ht
  have hpos := hne L[m] (List.getElem_mem hm)
  have := bnd_mono L (m + 1) n (by omega)
  omega

/-- `x` in the first text corresponds to `x'` in the second -/
def Rho (L L' : List Token) (x x' : Nat) : Prop :=
  ∃ m j, m ≤ L.length ∧ x = bnd L m + j ∧ x' = bnd L' m + j ∧
    (j = 0 ∨ ∃ t, L[m]? = some t ∧ t.kind = .text ∧ j ≤ blen t.value)

/-- corresponding token lists: the same length, text tokens of the same size -/
def SameTexts (L L' : List Token) : Prop :=
  L.length = L'.length ∧ ∀ (m : Nat) (t u : Token), L[m]? = some t → L'[m]? = some u → t.kind = .text → blen t.value = blen u.value

theorem rho_le (L L' : List Token) (hne : NonEmptyToks L) (hne' : NonEmptyToks L') (hs : SameTexts L L')
    (m j n i : Nat) (hm : m ≤ L.length) (hn : n ≤ L.length)
    (hj : j = 0 ∨ ∃ t, L[m]? = some t ∧ t.kind = .text ∧ j ≤ blen t.value)
    (hi : i = 0 ∨ ∃ t, L[n]? = some t ∧ t.kind = .text ∧ i ≤ blen t.value) :
    (bnd L m + j ≤ bnd L n + i ↔ bnd L' m + j ≤ bnd L' n + i) := by
  -- the size of the text token at `m`, in both lists
  have key : ∀ (a : Nat) (k : Nat), a ≤ L.length → (k = 0 ∨ ∃ t, L[a]? = some t ∧ t.kind = .text ∧ k ≤ blen t.value) →
      (k = 0 ∨ (a < L.length ∧ bnd L a + k ≤ bnd L (a + 1) ∧ bnd L' a + k ≤ bnd L' (a + 1) ∧
        (bnd L a + k = bnd L (a + 1) ↔ bnd L' a + k = bnd L' (a + 1)))) := by
    intro a k ha hk
    rcases hk with hk | ⟨t, ht, htk, hkb⟩
    · exact Or.inl hk
    · right
      have hlt : a < L.length := lt_of_getElem?_some _ _ _ ht
      have hlt' : a < L'.length := by rw [← hs.1]; exact hlt
      have hu : L'[a]? = some L'[a] := List.getElem?_eq_getElem hlt'
      have e := hs.2 a t _ ht hu htk
      rw [bnd_succ L a t ht, bnd_succ L' a _ hu, ← e]
      exact ⟨hlt, by omega, by omega, by omega⟩
  rcases Nat.lt_trichotomy m n with hlt | heq | hgt
  · -- m < n: both inequalities hold
    have b1 := bnd_mono L (m + 1) n (by omega)
    have b2 := bnd_mono L' (m + 1) n (by omega)
    rcases key m j hm hj with h0 | ⟨_, k1, k2, _⟩
    · subst h0
      have := bnd_mono L m n (by omega)
      have := bnd_mono L' m n (by omega)
      constructor <;> intro _ <;> omega
    · constructor <;> intro _ <;> omega
  · subst heq
    constructor <;> intro _ <;> omega
  · -- n < m: `bnd m + j ≤ bnd n + i` forces `m = n + 1`, `j = 0`, `i` the full size - in both texts alike
    have b1 := bnd_mono L (n + 1) m (by omega)
    have b2 := bnd_mono L' (n + 1) m (by omega)
    have hnL : n < L.length := by omega
    have hnL' : n < L'.length := by rw [← hs.1]; exact hnL
    have s1 : bnd L n < bnd L (n + 1) := bnd_strict L hne n (n + 1) (by omega) (by omega)
    have s2 : bnd L' n < bnd L' (n + 1) := bnd_strict L' hne' n (n + 1) (by omega) (by omega)
    rcases key n i hn hi with h0 | ⟨_, k1, k2, k3⟩
    · subst h0
      constructor <;> intro _ <;> omega
    · by_cases hm1 : m = n + 1
      · subst hm1
        constructor
        · intro h
          have : bnd L n + i = bnd L (n + 1) := by omega
          have := k3.mp this
          omega
        · intro h
          have : bnd L' n + i = bnd L' (n + 1) := by omega
          have := k3.mpr this
          omega
      · have t1 : bnd L (n + 1) < bnd L m := bnd_strict L hne (n + 1) m (by omega) hm
        have t2 : bnd L' (n + 1) < bnd L' m := bnd_strict L' hne' (n + 1) m (by omega) (by rw [← hs.1]; exact hm)
        constructor <;> intro _ <;> omega

theorem rho_mono (L L' : List Token) (hne : NonEmptyToks L) (hne' : NonEmptyToks L') (hs : SameTexts L L') :
    MonoRel (Rho L L') := by
  intro x x' y y' hx hy
  obtain ⟨m, j, hm, rfl, rfl, hj⟩ := hx
  obtain ⟨n, i, hn, rfl, rfl, hi⟩ := hy
  exact rho_le L L' hne hne' hs m j n i hm hn hj hi

/-! ### positions reached from a token boundary through whitespace -/

/-- the text made of a token list -/
def toksBytes (L : List Token) : Bytes := (L.map fun t => bytesOf t.value).flatten

theorem toksBytes_length_take (L : List Token) (m : Nat) : (toksBytes (L.take m)).length = bnd L m := by
  unfold toksBytes bnd
  induction L.take m with
  | nil => rfl
  | cons t rest ih => simp [flat_cons, blen_append, length_bytesOf, ih]

theorem toksBytes_split (L : List Token) (m : Nat) (t : Token) (h : L[m]? = some t) :
    toksBytes L = toksBytes (L.take m) ++ (bytesOf t.value ++ toksBytes (L.drop (m + 1))) := by
  have hlt : m < L.length := lt_of_getElem?_some _ _ _ h
  have e : L = L.take m ++ t :: L.drop (m + 1) := by
    have h1 := List.take_append_drop m L
    have h2 : L.drop m = t :: L.drop (m + 1) := by
      rw [List.drop_eq_getElem_cons hlt]
      rw [List.getElem?_eq_getElem hlt] at h
      injection h with h
      rw [h]
    rw [h2] at h1
    exact h1.symm
  conv => lhs; rw [e]
  simp [toksBytes]

/-- the byte of the whole text at offset `j` of the `m`-th token -/
theorem toksBytes_at (L : List Token) (m j : Nat) (t : Token) (h : L[m]? = some t) (hj : j < blen t.value) :
    (toksBytes L)[bnd L m + j]? = (bytesOf t.value)[j]? := by
  rw [toksBytes_split L m t h, List.getElem?_append_right (by rw [toksBytes_length_take]; omega),
    toksBytes_length_take, Nat.add_sub_cancel_left, List.getElem?_append_left (by rw [length_bytesOf]; exact hj)]

/-- tags begin and end with a byte that is not whitespace -/
def TagEdges (L : List Token) : Prop :=
  ∀ t ∈ L, t.kind = .element →
    (∃ y, (bytesOf t.value)[0]? = some y ∧ isWs y = false) ∧
    (∃ y, (bytesOf t.value)[blen t.value - 1]? = some y ∧ isWs y = false)

def KindsBin (L : List Token) : Prop := ∀ t ∈ L, t.kind = .text ∨ t.kind = .element

theorem rho_left (L L' : List Token) (hne : NonEmptyToks L) (hs : SameTexts L L') (he : TagEdges L) (hk : KindsBin L) :
    ∀ (k d : Nat), k ≤ L.length → d ≤ bnd L k →
    (∀ i, bnd L k - d ≤ i → i < bnd L k → ∃ y, (toksBytes L)[i]? = some y ∧ isWs y = true) →
    Rho L L' (bnd L k - d) (bnd L' k - d) ∧ d ≤ bnd L' k
  | k, 0, hkl, _, _ => ⟨⟨k, 0, hkl, by simp, by simp, Or.inl rfl⟩, Nat.zero_le _⟩
  | 0, d + 1, _, hd, _ => by simp [bnd_zero] at hd
  | k + 1, d + 1, hkl, hd, hw => by
    have hlt : k < L.length := by omega
    have ht : L[k]? = some L[k] := List.getElem?_eq_getElem hlt
    have hlt' : k < L'.length := by rw [← hs.1]; exact hlt
    have hu : L'[k]? = some L'[k] := List.getElem?_eq_getElem hlt'
    have hz := hne L[k] (List.getElem_mem hlt)
    have hb := bnd_succ L k _ ht
    have hb' := bnd_succ L' k _ hu
    -- the last byte of the token is whitespace, so it is a text token
    have htext : L[k].kind = .text := by
      rcases hk L[k] (List.getElem_mem hlt) with h | h
      · exact h
      · exfalso
        obtain ⟨_, y, hy, hyw⟩ := he L[k] (List.getElem_mem hlt) h
        obtain ⟨y2, hy2, hyw2⟩ := hw (bnd L (k + 1) - 1) (by omega) (by omega)
        rw [show bnd L (k + 1) - 1 = bnd L k + (blen L[k].value - 1) by omega,
          toksBytes_at L k _ _ ht (by omega), hy] at hy2
        injection hy2 with hy2
        rw [hy2] at hyw; rw [hyw] at hyw2; cases hyw2
    have e := hs.2 k _ _ ht hu htext
    by_cases hdz : d + 1 ≤ blen L[k].value
    · refine ⟨⟨k, blen L[k].value - (d + 1), by omega, by omega, by omega, Or.inr ⟨_, ht, htext, by omega⟩⟩, by omega⟩
    · obtain ⟨ih, ihb⟩ := rho_left L L' hne hs he hk k (d + 1 - blen L[k].value) (by omega) (by omega) (by
        intro i hi1 hi2
        exact hw i (by omega) (by omega))
      rw [show bnd L k - (d + 1 - blen L[k].value) = bnd L (k + 1) - (d + 1) by omega,
        show bnd L' k - (d + 1 - blen L[k].value) = bnd L' (k + 1) - (d + 1) by omega] at ih
      exact ⟨ih, by omega⟩

theorem rho_right (L L' : List Token) (hne : NonEmptyToks L) (hs : SameTexts L L') (he : TagEdges L) (hk : KindsBin L) :
    ∀ (n k d : Nat), L.length - k = n → k ≤ L.length → bnd L k + d ≤ bnd L L.length →
    (∀ i, bnd L k ≤ i → i < bnd L k + d → ∃ y, (toksBytes L)[i]? = some y ∧ isWs y = true) →
    Rho L L' (bnd L k + d) (bnd L' k + d)
  | _, k, 0, _, hkl, _, _ => ⟨k, 0, hkl, by simp, by simp, Or.inl rfl⟩
  | 0, k, d + 1, hn, hkl, hd, _ => by
    have : k = L.length := by omega
    subst this; omega
  | n + 1, k, d + 1, hn, hkl, hd, hw => by
    have hlt : k < L.length := by omega
    have ht : L[k]? = some L[k] := List.getElem?_eq_getElem hlt
    have hlt' : k < L'.length := by rw [← hs.1]; exact hlt
    have hu : L'[k]? = some L'[k] := List.getElem?_eq_getElem hlt'
    have hz := hne L[k] (List.getElem_mem hlt)
    have hb := bnd_succ L k _ ht
    have hb' := bnd_succ L' k _ hu
    have htext : L[k].kind = .text := by
      rcases hk L[k] (List.getElem_mem hlt) with h | h
      · exact h
      · exfalso
        obtain ⟨⟨y, hy, hyw⟩, _⟩ := he L[k] (List.getElem_mem hlt) h
        obtain ⟨y2, hy2, hyw2⟩ := hw (bnd L k) (Nat.le_refl _) (by omega)
        rw [show bnd L k = bnd L k + 0 by omega, toksBytes_at L k 0 _ ht hz, hy] at hy2
        injection hy2 with hy2
        rw [hy2] at hyw; rw [hyw] at hyw2; cases hyw2
    have e := hs.2 k _ _ ht hu htext
    by_cases hdz : d + 1 ≤ blen L[k].value
    · exact ⟨k, d + 1, by omega, rfl, rfl, Or.inr ⟨_, ht, htext, hdz⟩⟩
    · have ih := rho_right L L' hne hs he hk n (k + 1) (d + 1 - blen L[k].value) (by omega) (by omega) (by omega) (by
        intro i hi1 hi2
        exact hw i (by omega) (by omega))
      rw [show bnd L (k + 1) + (d + 1 - blen L[k].value) = bnd L k + (d + 1) by omega,
        show bnd L' (k + 1) + (d + 1 - blen L[k].value) = bnd L' k + (d + 1) by omega] at ih
      exact ih

end Chiritori
