import Chiritori.Lemmas.Respell
import Chiritori.Lemmas.SeamIdx
/-
  The same document with its tag names rewritten consistently (and, possibly, under another pair of delimiters): the
  tokens correspond one to one (texts equal, tags the same grammar tag with the renamed name), they parse to forests of
  the same shape whose elements differ in their names only, and pruning / flattening keeps the correspondence.
  The renaming `ρ` is a function on names that is injective on the names `N` of the document, commutes with the
  stripping of leading slashes and keeps the closing form (a leading slash) and the validity of a name.
-/
namespace Chiritori
open Spec

structure RenOK (ρ : List Char → List Char) (N : List Char → Prop) : Prop where
  inj : ∀ a b, N a → N b → ρ a = ρ b → a = b
  trim : ∀ a, N a → ρ (trimSlashes a) = trimSlashes (ρ a)
  closed : ∀ a, N a → N (trimSlashes a)
  head : ∀ a, N a → ((ρ a).head? = some '/' ↔ a.head? = some '/')
  nameOK : ∀ a, N a → NameOK a → NameOK (ρ a)

def renEl (ρ : List Char → List Char) (el : Element) : Element := ⟨ρ el.name, el.attrs⟩
def renTag (ρ : List Char → List Char) (t : TagS) : TagS := { t with name := ρ t.name }

theorem renTag_ok (ρ : List Char → List Char) (N : List Char → Prop) (hρ : RenOK ρ N) (t : TagS) (ht : t.ok) (hn : N t.name) :
    (renTag ρ t).ok := ⟨hρ.nameOK _ hn ht.1, ht.2.1, ht.2.2⟩

theorem renTag_expected (ρ : List Char → List Char) (t : TagS) : (renTag ρ t).expected = renEl ρ t.expected := rfl

theorem render_ne_nil (t : TagS) (ht : t.ok) : t.render ≠ [] := by
  obtain ⟨c, cs, hn, _, _⟩ := ht.1
  unfold TagS.render
  rw [hn]
  intro h
  have := congrArg List.length h
  simp at this

section
variable (ds de ds' de' : List Char) (ρ : List Char → List Char) (N : List Char → Prop) (R : Token → Token → Prop)

/-- the same text, or the same grammar tag with its name rewritten, under the respective delimiters -/
def TokN (t u : Token) : Prop :=
  t.kind = u.kind ∧
    ((t.kind = .text ∧ t.value = u.value) ∨
     (t.kind = .element ∧ ∃ tg : TagS, tg.ok ∧ N tg.name ∧ t.value = ds ++ tg.render ++ de ∧
        u.value = ds' ++ (renTag ρ tg).render ++ de' ∧
        StripOK ds de tg.render ∧ StripOK ds' de' (renTag ρ tg).render))

theorem elparse_n (hρ : RenOK ρ N) (hds : ds ≠ []) (hde : de ≠ []) (hds' : ds' ≠ []) (hde' : de' ≠ [])
    (t u : Token) (h : TokN ds de ds' de' ρ N t u) :
    elparse ds' de' u = (elparse ds de t).map (renEl ρ) ∧ ∀ el, elparse ds de t = some el → N el.name := by
  obtain ⟨hk, h | h⟩ := h
  · obtain ⟨hkt, _⟩ := h
    have hku : u.kind = .text := by rw [← hk]; exact hkt
    simp [elparse, hkt, hku]
  · obtain ⟨hkt, tg, hok, hn, hv, hv', hf, hf'⟩ := h
    have hku : u.kind = .element := by rw [← hk]; exact hkt
    have hok' := renTag_ok ρ N hρ tg hok hn
    rw [Props.C09.elparse_of_body ds de tg.render t hds hde (render_ne_nil tg hok) hkt hv hf.1 hf.2,
      Props.C09.elparse_of_body ds' de' (renTag ρ tg).render u hds' hde' (render_ne_nil _ hok') hku hv' hf'.1 hf'.2,
      parseBody_render tg hok, parseBody_render _ hok']
    refine ⟨rfl, ?_⟩
    intro el hel
    injection hel with hel
    rw [← hel]
    exact hn

/-- corresponding tokens, with any further relation `R` carried along (e.g. equal line numbers) -/
def TokNR (t u : Token) : Prop := TokN ds de ds' de' ρ N t u ∧ R t u

mutual
/-- forests of the same shape; corresponding elements differ in their names only, and their names are in `N` -/
def partsN : List Part → List Part → Prop
  | [], [] => True
  | p :: ps, q :: qs => partN p q ∧ partsN ps qs
  | [], _ :: _ => False
  | _ :: _, [] => False
def partN : Part → Part → Prop
  | .text t, .text u => TokNR ds de ds' de' ρ N R t u
  | .element el st en ch, .element el' st' en' ch' =>
    el' = renEl ρ el ∧ N el.name ∧ TokNR ds de ds' de' ρ N R st st' ∧ TokNR ds de ds' de' ρ N R en en' ∧ partsN ch ch'
  | .text _, .element _ _ _ _ => False
  | .element _ _ _ _, .text _ => False
end

theorem partsN_append : ∀ (a b c d : List Part), partsN ds de ds' de' ρ N R a b → partsN ds de ds' de' ρ N R c d →
    partsN ds de ds' de' ρ N R (a ++ c) (b ++ d)
  | [], [], _, _, _, h2 => by simpa using h2
  | [], _ :: _, _, _, h1, _ => absurd h1 (by simp [partsN])
  | _ :: _, [], _, _, h1, _ => absurd h1 (by simp [partsN])
  | p :: ps, q :: qs, c, d, h1, h2 => by
    simp only [partsN] at h1
    simp only [List.cons_append, partsN]
    exact ⟨h1.1, partsN_append ps qs c d h1.2 h2⟩

def TokNs : List Token → List Token → Prop
  | [], [] => True
  | t :: ts, u :: us => TokNR ds de ds' de' ρ N R t u ∧ TokNs ts us
  | [], _ :: _ => False
  | _ :: _, [] => False

theorem TokNs_append : ∀ (a b c d : List Token), TokNs ds de ds' de' ρ N R a b → TokNs ds de ds' de' ρ N R c d →
    TokNs ds de ds' de' ρ N R (a ++ c) (b ++ d)
  | [], [], _, _, _, h2 => by simpa using h2
  | [], _ :: _, _, _, h1, _ => absurd h1 (by simp [TokNs])
  | _ :: _, [], _, _, h1, _ => absurd h1 (by simp [TokNs])
  | p :: ps, q :: qs, c, d, h1, h2 => by
    simp only [TokNs] at h1
    simp only [List.cons_append, TokNs]
    exact ⟨h1.1, TokNs_append ps qs c d h1.2 h2⟩

mutual
theorem flatten_n : ∀ (a b : List Part), partsN ds de ds' de' ρ N R a b →
    TokNs ds de ds' de' ρ N R (flattenParts a) (flattenParts b)
  | [], [], _ => trivial
  | [], _ :: _, h => absurd h (by simp [partsN])
  | _ :: _, [], h => absurd h (by simp [partsN])
  | p :: ps, q :: qs, h => by
    simp only [partsN] at h
    simp only [flattenParts]
    exact TokNs_append ds de ds' de' ρ N R _ _ _ _ (flattenPart_n p q h.1) (flatten_n ps qs h.2)
theorem flattenPart_n : ∀ (p q : Part), partN ds de ds' de' ρ N R p q →
    TokNs ds de ds' de' ρ N R (flattenPart p) (flattenPart q)
  | .text t, .text u, h => by simp only [partN] at h; exact ⟨h, trivial⟩
  | .text _, .element _ _ _ _, h => absurd h (by simp [partN])
  | .element _ _ _ _, .text _, h => absurd h (by simp [partN])
  | .element el st en ch, .element el' st' en' ch', h => by
    simp only [partN] at h
    obtain ⟨_, _, h2, h3, h4⟩ := h
    simp only [flattenPart]
    have := TokNs_append ds de ds' de' ρ N R _ _ [en] [en'] (flatten_n ch ch' h4) ⟨h3, trivial⟩
    exact ⟨h2, this⟩
end

mutual
/-- pruning with two predicates that agree along the renaming -/
theorem prune_n (P P' : Element → Bool) (hP : ∀ el, N el.name → P' (renEl ρ el) = P el) :
    ∀ (a b : List Part), partsN ds de ds' de' ρ N R a b →
    partsN ds de ds' de' ρ N R (pruneParts P a) (pruneParts P' b)
  | [], [], _ => trivial
  | [], _ :: _, h => absurd h (by simp [partsN])
  | _ :: _, [], h => absurd h (by simp [partsN])
  | p :: ps, q :: qs, h => by
    simp only [partsN] at h
    simp only [pruneParts]
    exact partsN_append ds de ds' de' ρ N R _ _ _ _ (prunePart_n P P' hP p q h.1) (prune_n P P' hP ps qs h.2)
theorem prunePart_n (P P' : Element → Bool) (hP : ∀ el, N el.name → P' (renEl ρ el) = P el) :
    ∀ (p q : Part), partN ds de ds' de' ρ N R p q →
    partsN ds de ds' de' ρ N R (prunePart P p) (prunePart P' q)
  | .text t, .text u, h => by simp only [partN] at h; simp only [prunePart, partsN, partN]; exact ⟨h, trivial⟩
  | .text _, .element _ _ _ _, h => absurd h (by simp [partN])
  | .element _ _ _ _, .text _, h => absurd h (by simp [partN])
  | .element el st en ch, .element el' st' en' ch', h => by
    simp only [partN] at h
    obtain ⟨h1, hn, h2, h3, h4⟩ := h
    subst h1
    simp only [prunePart, hP el hn]
    split
    · trivial
    · simp only [partsN, partN]
      exact ⟨⟨trivial, hn, h2, h3, prune_n P P' hP ch ch' h4⟩, trivial⟩
end

mutual
theorem elements_n : ∀ (a b : List Part), partsN ds de ds' de' ρ N R a b →
    (elementsOf b).map (·.1) = (elementsOf a).map (fun e => renEl ρ e.1)
  | [], [], _ => rfl
  | [], _ :: _, h => absurd h (by simp [partsN])
  | _ :: _, [], h => absurd h (by simp [partsN])
  | p :: ps, q :: qs, h => by
    simp only [partsN] at h
    simp only [elementsOf, List.map_append, elementsPart_n p q h.1, elements_n ps qs h.2]
theorem elementsPart_n : ∀ (p q : Part), partN ds de ds' de' ρ N R p q →
    (elementsOfPart q).map (·.1) = (elementsOfPart p).map (fun e => renEl ρ e.1)
  | .text t, .text u, _ => by simp [elementsOfPart]
  | .text _, .element _ _ _ _, h => absurd h (by simp [partN])
  | .element _ _ _ _, .text _, h => absurd h (by simp [partN])
  | .element el st en ch, .element el' st' en' ch', h => by
    simp only [partN] at h
    obtain ⟨h1, _, _, _, h4⟩ := h
    simp only [elementsOfPart, List.map_cons, h1, elements_n ch ch' h4]
end

mutual
/-- the seams, counted in surviving tokens, are at the same indices -/
theorem seamIdx_n (P P' : Element → Bool) (hP : ∀ el, N el.name → P' (renEl ρ el) = P el) :
    ∀ (a b : List Part) (n : Nat), partsN ds de ds' de' ρ N R a b → seamIdxParts P a n = seamIdxParts P' b n
  | [], [], _, _ => rfl
  | [], _ :: _, _, h => absurd h (by simp [partsN])
  | _ :: _, [], _, h => absurd h (by simp [partsN])
  | p :: ps, q :: qs, n, h => by
    simp only [partsN] at h
    simp only [seamIdxParts]
    rw [seamIdxPart_n P P' hP p q n h.1, seamIdx_n P P' hP ps qs _ h.2]
theorem seamIdxPart_n (P P' : Element → Bool) (hP : ∀ el, N el.name → P' (renEl ρ el) = P el) :
    ∀ (p q : Part) (n : Nat), partN ds de ds' de' ρ N R p q → seamIdxPart P p n = seamIdxPart P' q n
  | .text _, .text _, _, _ => rfl
  | .text _, .element _ _ _ _, _, h => absurd h (by simp [partN])
  | .element _ _ _ _, .text _, _, h => absurd h (by simp [partN])
  | .element el st en ch, .element el' st' en' ch', n, h => by
    simp only [partN] at h
    obtain ⟨h1, hn, _, _, h4⟩ := h
    subst h1
    simp only [seamIdxPart, hP el hn]
    rw [seamIdx_n P P' hP ch ch' (n + 1) h4]
end

/-! ### the stack machine along the renaming -/

def FrameN (f g : Frame) : Prop :=
  g.el = renEl ρ f.el ∧ N f.el.name ∧ TokNR ds de ds' de' ρ N R f.tok g.tok ∧ partsN ds de ds' de' ρ N R f.parts g.parts

def StackN : List Frame → List Frame → Prop
  | [], [] => True
  | f :: fs, g :: gs => FrameN ds de ds' de' ρ N R f g ∧ StackN fs gs
  | [], _ :: _ => False
  | _ :: _, [] => False

def StateN (s t : List Frame × List Part) : Prop :=
  StackN ds de ds' de' ρ N R s.1 t.1 ∧ partsN ds de ds' de' ρ N R s.2 t.2

theorem appendTo_n (S S' : List Frame) (r r' x x' : List Part) (hS : StackN ds de ds' de' ρ N R S S')
    (hr : partsN ds de ds' de' ρ N R r r') (hx : partsN ds de ds' de' ρ N R x x') :
    StateN ds de ds' de' ρ N R (appendTo S r x) (appendTo S' r' x') := by
  cases S with
  | nil =>
    cases S' with
    | nil => exact ⟨trivial, partsN_append ds de ds' de' ρ N R _ _ _ _ hr hx⟩
    | cons g gs => exact absurd hS (by simp [StackN])
  | cons f fs =>
    cases S' with
    | nil => exact absurd hS (by simp [StackN])
    | cons g gs =>
      obtain ⟨⟨a1, a0, a2, a3⟩, hrest⟩ := hS
      exact ⟨⟨⟨a1, a0, a2, partsN_append ds de ds' de' ρ N R _ _ _ _ a3 hx⟩, hrest⟩, hr⟩

theorem stackN_any (hρ : RenOK ρ N) (x : List Char) (hx : N x) : ∀ (S S' : List Frame), StackN ds de ds' de' ρ N R S S' →
    S.any (fun f => f.el.name == x) = S'.any (fun f => f.el.name == ρ x)
  | [], [], _ => rfl
  | [], _ :: _, h => absurd h (by simp [StackN])
  | _ :: _, [], h => absurd h (by simp [StackN])
  | f :: fs, g :: gs, h => by
    obtain ⟨⟨a1, a0, _, _⟩, hrest⟩ := h
    have hgn : g.el.name = ρ f.el.name := by rw [a1]; rfl
    have hb : (f.el.name == x) = (g.el.name == ρ x) := by
      rw [hgn]
      by_cases hc : f.el.name = x
      · rw [hc]; simp
      · have hne : ρ f.el.name ≠ ρ x := fun h' => hc (hρ.inj _ _ a0 hx h')
        rw [beq_eq_false_iff_ne.mpr hc, beq_eq_false_iff_ne.mpr hne]
    simp only [List.any_cons, stackN_any hρ x hx fs gs hrest, hb]

def OptN : Option (List Frame × List Part) → Option (List Frame × List Part) → Prop
  | some a, some b => StateN ds de ds' de' ρ N R a b
  | none, none => True
  | some _, none => False
  | none, some _ => False

theorem closeFrame_n (hρ : RenOK ρ N) (name : List Char) (hname : N name) (c c' : Token)
    (hc : TokNR ds de ds' de' ρ N R c c') :
    ∀ (S S' : List Frame) (r r' h h' : List Part), StackN ds de ds' de' ρ N R S S' → partsN ds de ds' de' ρ N R r r' →
    partsN ds de ds' de' ρ N R h h' →
    OptN ds de ds' de' ρ N R (closeFrame name c S r h) (closeFrame (ρ name) c' S' r' h')
  | [], [], _, _, _, _, _, _, _ => by simp [closeFrame, OptN]
  | [], _ :: _, _, _, _, _, hS, _, _ => absurd hS (by simp [StackN])
  | _ :: _, [], _, _, _, _, hS, _, _ => absurd hS (by simp [StackN])
  | f :: fs, g :: gs, r, r', h, h', hS, hr, hh => by
    obtain ⟨⟨a1, a0, a2, a3⟩, hrest⟩ := hS
    simp only [closeFrame]
    have hiff : (g.el.name = ρ name) ↔ (f.el.name = name) := by
      rw [a1]; simp only [renEl]
      exact ⟨fun h' => hρ.inj _ _ a0 hname h', fun h' => by rw [h']⟩
    by_cases hc' : f.el.name = name
    · rw [if_pos hc', if_pos (hiff.mpr hc')]
      simp only [OptN]
      apply appendTo_n ds de ds' de' ρ N R fs gs r r' _ _ hrest hr
      simp only [partsN, partN]
      exact ⟨⟨a1, a0, a2, hc, partsN_append ds de ds' de' ρ N R _ _ _ _ a3 hh⟩, trivial⟩
    · rw [if_neg hc', if_neg (fun h' => hc' (hiff.mp h'))]
      apply closeFrame_n hρ name hname c c' hc fs gs r r' _ _ hrest hr
      simp only [partsN, partN]
      exact ⟨a2, partsN_append ds de ds' de' ρ N R _ _ _ _ a3 hh⟩

theorem stackStep_n (hρ : RenOK ρ N) (hds : ds ≠ []) (hde : de ≠ []) (hds' : ds' ≠ []) (hde' : de' ≠ [])
    (st st' : List Frame × List Part) (t u : Token) (h : StateN ds de ds' de' ρ N R st st')
    (htu : TokNR ds de ds' de' ρ N R t u) :
    StateN ds de ds' de' ρ N R (stackStep ds de st t) (stackStep ds' de' st' u) := by
  obtain ⟨S, r⟩ := st
  obtain ⟨S', r'⟩ := st'
  obtain ⟨hS, hr⟩ := h
  simp only at hS hr
  obtain ⟨hel', hN⟩ := elparse_n ds de ds' de' ρ N hρ hds hde hds' hde' t u htu.1
  simp only [stackStep, hel']
  cases hel : elparse ds de t with
  | none =>
    simp only [Option.map_none]
    apply appendTo_n ds de ds' de' ρ N R S S' r r' _ _ hS hr
    simp only [partsN, partN]
    exact ⟨htu, trivial⟩
  | some el =>
    have hn := hN el hel
    have hnt := hρ.closed _ hn
    simp only [Option.map_some, renEl]
    rw [← hρ.trim _ hn, ← stackN_any ds de ds' de' ρ N R hρ _ hnt S S' hS]
    simp only [hρ.head _ hn]
    split
    · have := closeFrame_n ds de ds' de' ρ N R hρ (trimSlashes el.name) hnt t u htu S S' r r' [] [] hS hr trivial
      revert this
      cases closeFrame (trimSlashes el.name) t S r [] <;> cases closeFrame (ρ (trimSlashes el.name)) u S' r' [] <;>
        simp only [OptN] <;> intro this
      · exact ⟨hS, hr⟩
      · exact this.elim
      · exact this.elim
      · exact this
    · exact ⟨⟨⟨rfl, hn, htu, trivial⟩, hS⟩, hr⟩

theorem runM_n (hρ : RenOK ρ N) (hds : ds ≠ []) (hde : de ≠ []) (hds' : ds' ≠ []) (hde' : de' ≠ []) :
    ∀ (T T' : List Token), TokNs ds de ds' de' ρ N R T T' → ∀ (st st' : List Frame × List Part),
    StateN ds de ds' de' ρ N R st st' → StateN ds de ds' de' ρ N R (runM ds de st T) (runM ds' de' st' T')
  | [], [], _, st, st', h => h
  | [], _ :: _, h, _, _, _ => absurd h (by simp [TokNs])
  | _ :: _, [], h, _, _, _ => absurd h (by simp [TokNs])
  | t :: ts, u :: us, h, st, st', hst => by
    simp only [TokNs] at h
    have e1 : runM ds de st (t :: ts) = runM ds de (stackStep ds de st t) ts := by simp [runM]
    have e2 : runM ds' de' st' (u :: us) = runM ds' de' (stackStep ds' de' st' u) us := by simp [runM]
    rw [e1, e2]
    exact runM_n hρ hds hde hds' hde' ts us h.2 _ _ (stackStep_n ds de ds' de' ρ N R hρ hds hde hds' hde' st st' t u hst h.1)

theorem finishStack_n : ∀ (S S' : List Frame) (h h' r r' : List Part), StackN ds de ds' de' ρ N R S S' →
    partsN ds de ds' de' ρ N R h h' → partsN ds de ds' de' ρ N R r r' →
    partsN ds de ds' de' ρ N R (finishStack S h r) (finishStack S' h' r')
  | [], [], _, _, _, _, _, hh, hr => by simp only [finishStack]; exact partsN_append ds de ds' de' ρ N R _ _ _ _ hr hh
  | [], _ :: _, _, _, _, _, hS, _, _ => absurd hS (by simp [StackN])
  | _ :: _, [], _, _, _, _, hS, _, _ => absurd hS (by simp [StackN])
  | f :: fs, g :: gs, h, h', r, r', hS, hh, hr => by
    obtain ⟨⟨_, _, a2, a3⟩, hrest⟩ := hS
    simp only [finishStack]
    apply finishStack_n fs gs _ _ r r' hrest _ hr
    simp only [partsN, partN]
    exact ⟨a2, partsN_append ds de ds' de' ρ N R _ _ _ _ a3 hh⟩

/-- the forests of corresponding token lists correspond -/
theorem parse_n (hρ : RenOK ρ N) (hds : ds ≠ []) (hde : de ≠ []) (hds' : ds' ≠ []) (hde' : de' ≠ []) (T T' : List Token)
    (h : TokNs ds de ds' de' ρ N R T T') : partsN ds de ds' de' ρ N R (parse ds de T) (parse ds' de' T') := by
  rw [parse_eq_stackParse, parse_eq_stackParse]
  have := runM_n ds de ds' de' ρ N R hρ hds hde hds' hde' T T' h ([], []) ([], []) ⟨trivial, trivial⟩
  simp only [stackParse]
  simp only [runM] at this
  generalize List.foldl (stackStep ds de) ([], []) T = s1 at this ⊢
  generalize List.foldl (stackStep ds' de') ([], []) T' = s2 at this ⊢
  obtain ⟨S, r⟩ := s1
  obtain ⟨S', r'⟩ := s2
  exact finishStack_n ds de ds' de' ρ N R S S' [] [] r r' this.1 trivial this.2

end

end Chiritori
