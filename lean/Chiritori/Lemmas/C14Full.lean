import Chiritori.Lemmas.Koff
import Chiritori.Lemmas.CollectBodies
import Chiritori.Lemmas.C14Default
import Chiritori.Lemmas.Pending
/-
  C14 for all sources: where the block ranges are anchored, and where they come from.
-/
namespace Chiritori
open Spec

/-- every block range lies in the blanks at the beginning of a line that starts strictly between the two seams,
    directly behind a line break -/
theorem blockLoop_anchor (b : Bytes) (endPos t s sp : Nat) : ∀ (fuel cur : Nat),
    sp < cur → b[cur - 1]? = some (.lead '\n') →
    ∀ r ∈ blockLoop b endPos t s fuel cur,
      ∃ ls ip, sp < ls ∧ ls < endPos ∧ b[ls - 1]? = some (.lead '\n') ∧ findNextChar b ls = some ip ∧
        ls ≤ r.1 ∧ r.2 ≤ ip
  | 0, _, _, _, r, hr => by simp [blockLoop] at hr
  | fuel + 1, cur, h0, hnl, r, hr => by
    simp only [blockLoop] at hr
    split at hr
    · rename_i hgt
      cases hlb : findNextLB b cur false with
      | none => rw [hlb] at hr; simp at hr
      | some lb =>
        rw [hlb] at hr
        simp only at hr
        obtain ⟨_, l1, _, l3, _, _⟩ := findNextLB_some _ cur lb false hlb
        split at hr
        · simp at hr
        · rw [List.mem_append] at hr
          rcases hr with hr | hr
          · cases hip : findNextChar b cur with
            | none => rw [hip] at hr; simp at hr
            | some ip =>
              rw [hip] at hr
              simp only at hr
              split at hr
              · simp only [List.mem_singleton] at hr
                subst hr
                obtain ⟨_, c1, _, _, _⟩ := findNextChar_some b cur ip hip
                exact ⟨cur, ip, h0, hgt, hnl, hip, by simp only; omega, by simp only; omega⟩
              · simp at hr
          · exact blockLoop_anchor b endPos t s sp fuel (lb + 1) (by omega) (by simpa using l3) r hr
    · simp at hr

theorem fmtBlockIndent_anchor (b : Bytes) (startPos endPos : Nat) (r : Nat × Nat)
    (h : r ∈ fmtBlockIndent b startPos endPos) :
    ∃ ls ip, startPos < ls ∧ ls < endPos ∧ b[ls - 1]? = some (.lead '\n') ∧ findNextChar b ls = some ip ∧
      ls ≤ r.1 ∧ r.2 ≤ ip := by
  unfold fmtBlockIndent at h
  dsimp only at h
  cases hf : (b.drop startPos).findIdx? (fun x => x == .lead '\n') with
  | none => rw [hf] at h; simp at h
  | some ofs =>
    rw [hf] at h
    simp only at h
    have hnl : b[startPos + ofs]? = some (.lead '\n') := by
      have h1 := List.findIdx?_eq_some_iff_getElem.mp hf
      obtain ⟨hlt, hx, _⟩ := h1
      have : (b.drop startPos)[ofs]? = some ((b.drop startPos)[ofs]) := List.getElem?_eq_getElem hlt
      rw [List.getElem?_drop] at this
      rw [this]
      simp only [beq_iff_eq] at hx
      rw [hx]
    exact blockLoop_anchor b endPos _ _ startPos _ (startPos + ofs + 1) (by omega) (by simpa using hnl) r h

/-- where the block ranges of the collection loop come from: an entry whose pair entry lies further right -/
theorem blocks_origin (b : Bytes) (all : List (Nat × Option Nat)) : ∀ (ps : List (Nat × Option Nat))
    (rs bs : List Rng'), formatCollect b all ps = .ok (rs, bs) →
    ∀ x ∈ bs, ∃ p ∈ ps, ∃ j q, p.2 = some j ∧ all[j]? = some q ∧ p.1 < q.1 ∧ x ∈ fmtBlockIndent b p.1 q.1
  | [], rs, bs, h, x, hx => by
    simp only [formatCollect] at h
    injection h with h
    injection h with _ h2
    rw [← h2] at hx; simp at hx
  | (pos, pair) :: rest, rs, bs, h, x, hx => by
    simp only [formatCollect] at h
    cases h1 : formatBlock b pos seamFormatters (pos, pos) with
    | error e => rw [h1] at h; simp at h
    | ok range =>
      rw [h1] at h
      simp only at h
      -- the rest of the list, common to all cases
      have tailcase : ∀ (blk : List Rng'),
          (match formatCollect b all rest with
            | Except.error e => Except.error e
            | Except.ok (rs, bs) => Except.ok (range :: rs, blk ++ bs)) = Except.ok (rs, bs) →
          (x ∈ blk ∨ ∃ p ∈ rest, ∃ j q, p.2 = some j ∧ all[j]? = some q ∧ p.1 < q.1 ∧ x ∈ fmtBlockIndent b p.1 q.1) := by
        intro blk h
        cases h2 : formatCollect b all rest with
        | error e => rw [h2] at h; simp at h
        | ok rb =>
          obtain ⟨rs', bs'⟩ := rb
          rw [h2] at h
          simp only at h
          injection h with h
          injection h with _ hb
          rw [← hb, List.mem_append] at hx
          rcases hx with hx | hx
          · exact Or.inl hx
          · exact Or.inr (blocks_origin b all rest rs' bs' h2 x hx)
      have lift : (∃ p ∈ rest, ∃ j q, p.2 = some j ∧ all[j]? = some q ∧ p.1 < q.1 ∧ x ∈ fmtBlockIndent b p.1 q.1) →
          ∃ p ∈ (pos, pair) :: rest, ∃ j q, p.2 = some j ∧ all[j]? = some q ∧ p.1 < q.1 ∧ x ∈ fmtBlockIndent b p.1 q.1 := by
        rintro ⟨p, hp, g⟩
        exact ⟨p, by simp [hp], g⟩
      cases pair with
      | none =>
        simp only at h
        rcases tailcase [] h with hx' | hx'
        · simp at hx'
        · exact lift hx'
      | some i =>
        simp only at h
        cases ha : all[i]? with
        | none => rw [ha] at h; simp at h
        | some q =>
          obtain ⟨pairStart, qp⟩ := q
          rw [ha] at h
          simp only at h
          by_cases hlt : pos < pairStart
          · rw [if_pos hlt] at h
            simp only at h
            rcases tailcase _ h with hx' | hx'
            · exact ⟨(pos, some i), by simp, i, (pairStart, qp), rfl, ha, hlt, hx'⟩
            · exact lift hx'
          · rw [if_neg hlt] at h
            simp only at h
            rcases tailcase [] h with hx' | hx'
            · simp at hx'
            · exact lift hx'

theorem minusRanges_eq_keptOf (b : Bytes) (rs : List Rng) : minusRanges b rs = keptOf rs b.zipIdx := by
  unfold minusRanges keptOf
  congr 2

theorem keptOf_congr (ext rs : List Rng) (l : List (ABy × Nat)) (h : ∀ i, inAny ext i = inAny rs i) :
    keptOf ext l = keptOf rs l := by
  unfold keptOf
  congr 2
  funext y
  rw [h]

theorem koffTo_zero (ext : List Rng) (b : Bytes) : koffTo ext b 0 = 0 := by simp [koffTo, koff]

/-- markers further right in a sorted list start (weakly) further right -/
theorem MSorted_index_le : ∀ (ms : List Marker) (lo hi : Nat), MSorted ms lo hi →
    ∀ (i j : Nat) (mi mj : Marker), i < j → ms[i]? = some mi → ms[j]? = some mj → mi.stop ≤ mj.start
  | [], _, _, _, i, j, mi, mj, _, h1, _ => by simp at h1
  | m :: ms, lo, hi, hs, i, j, mi, mj, hij, h1, h2 => by
    obtain ⟨g1, g2, g3⟩ := hs
    cases j with
    | zero => omega
    | succ j =>
      simp only [List.getElem?_cons_succ] at h2
      cases i with
      | zero =>
        simp only [List.getElem?_cons_zero, Option.some.injEq] at h1
        subst h1
        have := MSorted_starts_ge ms _ hi g3 mj (List.mem_of_getElem? h2)
        exact this
      | succ i =>
        simp only [List.getElem?_cons_succ] at h1
        exact MSorted_index_le ms m.stop hi g3 i j mi mj (by omega) h1 h2

/-- the text at a split position -/
theorem zipIdx_split (b : Bytes) (n : Nat) (x : ABy) (h : b[n]? = some x) :
    b.zipIdx = b.zipIdx.take n ++ (x, n) :: b.zipIdx.drop (n + 1) := by
  have hlt := lt_of_getElem?_some _ _ _ h
  have h1 : b.zipIdx[n]? = some (x, n) := by
    rw [List.getElem?_zipIdx, h]; simp
  have h2 : b.zipIdx.drop n = (x, n) :: b.zipIdx.drop (n + 1) := by
    rw [List.drop_eq_getElem_cons (by simpa using hlt)]
    congr 1
    have := List.getElem?_eq_getElem (l := b.zipIdx) (i := n) (by simpa using hlt)
    rw [h1] at this
    exact (Option.some.inj this).symm
  conv => lhs; rw [← List.take_append_drop n b.zipIdx, h2]

end Chiritori
