import Chiritori.Lemmas.FormatWs
/-
  Completeness of the finders: when they *do* find a line break, and when (pausing) they give up.
  `Lemmas/Finders.lean` has the soundness direction (`…_some`).
-/
namespace Chiritori

/-- a lead byte that is neither blank nor a line break: the scanners stop there when pausing -/
def isStopByte (x : ABy) : Prop := ∃ c, x = .lead c ∧ c ≠ ' ' ∧ c ≠ '\t' ∧ c ≠ '\n'

theorem lbCheck_none_of_stop (x : ABy) (h : isStopByte x) : lbCheck (some x) = .none := by
  obtain ⟨c, rfl, h1, h2, h3⟩ := h
  simp [lbCheck, h1, h2, h3]

theorem lbCheck_skip_of (x : ABy) (h : isSkipByte x) : lbCheck (some x) = .skip := (lbCheck_skip x).mpr h

/-! ### forward -/

theorem nextScan_intro (pause : Bool) : ∀ (k : Nat) (bs : Bytes) (cursor : Nat),
    (∀ i, i < k → ∃ x, bs[i]? = some x ∧ isSkipByte x) → bs[k]? = some (.lead '\n') →
    nextScan pause bs cursor = some (cursor + k)
  | 0, bs, cursor, _, hk => by
    cases bs with
    | nil => simp at hk
    | cons x rest =>
      simp only [List.getElem?_cons_zero, Option.some.injEq] at hk
      subst hk
      simp [nextScan, lbCheck]
  | k + 1, bs, cursor, hs, hk => by
    cases bs with
    | nil => simp at hk
    | cons x rest =>
      obtain ⟨y, hy, hsk⟩ := hs 0 (by omega)
      simp only [List.getElem?_cons_zero, Option.some.injEq] at hy
      subst hy
      simp only [nextScan, lbCheck_skip_of _ hsk]
      rw [nextScan_intro pause k rest (cursor + 1) (fun i hi => by simpa using hs (i + 1) (by omega)) (by simpa using hk)]
      congr 1; omega

theorem nextScan_pause_none : ∀ (k : Nat) (bs : Bytes) (cursor : Nat),
    (∀ i, i < k → ∃ x, bs[i]? = some x ∧ isSkipByte x) →
    (bs[k]? = none ∨ ∃ x, bs[k]? = some x ∧ isStopByte x) → nextScan true bs cursor = none
  | 0, bs, cursor, _, hk => by
    cases bs with
    | nil => rfl
    | cons x rest =>
      rcases hk with hk | ⟨y, hy, hst⟩
      · simp at hk
      · simp only [List.getElem?_cons_zero, Option.some.injEq] at hy
        subst hy
        simp [nextScan, lbCheck_none_of_stop _ hst]
  | k + 1, bs, cursor, hs, hk => by
    cases bs with
    | nil => rfl
    | cons x rest =>
      obtain ⟨y, hy, hsk⟩ := hs 0 (by omega)
      simp only [List.getElem?_cons_zero, Option.some.injEq] at hy
      subst hy
      simp only [nextScan, lbCheck_skip_of _ hsk]
      exact nextScan_pause_none k rest (cursor + 1) (fun i hi => by simpa using hs (i + 1) (by omega)) (by simpa using hk)

theorem findNextLB_intro (b : Bytes) (pos p : Nat) (pause : Bool) (h0 : 0 < pos) (h1 : pos ≤ p)
    (hs : ∀ i, pos ≤ i → i < p → ∃ x, b[i]? = some x ∧ isSkipByte x) (hp : b[p]? = some (.lead '\n')) :
    findNextLB b pos pause = some p := by
  have hlt := lt_of_getElem?_some _ _ _ hp
  unfold findNextLB
  rw [if_neg (by omega)]
  rw [nextScan_intro pause (p - pos) (b.drop pos) pos]
  · congr 1; omega
  · intro i hi
    rw [List.getElem?_drop]
    exact hs (pos + i) (by omega) (by omega)
  · rw [List.getElem?_drop, show pos + (p - pos) = p by omega]; exact hp

theorem findNextLB_pause_none (b : Bytes) (pos q : Nat) (h1 : pos ≤ q)
    (hs : ∀ i, pos ≤ i → i < q → ∃ x, b[i]? = some x ∧ isSkipByte x)
    (hq : b[q]? = none ∨ ∃ x, b[q]? = some x ∧ isStopByte x) :
    findNextLB b pos true = none := by
  unfold findNextLB
  split
  · rfl
  · apply nextScan_pause_none (q - pos)
    · intro i hi
      rw [List.getElem?_drop]
      exact hs (pos + i) (by omega) (by omega)
    · rw [List.getElem?_drop, show pos + (q - pos) = q by omega]; exact hq

/-! ### backward -/

theorem prevScan_intro (pause : Bool) : ∀ (k : Nat) (rev : Bytes) (cursor : Nat), k < cursor →
    (∀ i, i < k → ∃ x, rev[i]? = some x ∧ isSkipByte x) → rev[k]? = some (.lead '\n') →
    prevScan pause rev cursor = some (cursor - k)
  | 0, rev, cursor, hc, _, hk => by
    cases rev with
    | nil => simp at hk
    | cons x rest =>
      simp only [List.getElem?_cons_zero, Option.some.injEq] at hk
      subst hk
      simp only [prevScan]
      rw [if_neg (by omega)]
      simp [lbCheck]
  | k + 1, rev, cursor, hc, hs, hk => by
    cases rev with
    | nil => simp at hk
    | cons x rest =>
      obtain ⟨y, hy, hsk⟩ := hs 0 (by omega)
      simp only [List.getElem?_cons_zero, Option.some.injEq] at hy
      subst hy
      simp only [prevScan]
      rw [if_neg (by omega)]
      simp only [lbCheck_skip_of _ hsk]
      rw [prevScan_intro pause k rest (cursor - 1) (by omega) (fun i hi => by simpa using hs (i + 1) (by omega))
        (by simpa using hk)]
      congr 1; omega

/-- pausing, the backward scan gives up at the first stop byte - or at index 0, which it never examines -/
theorem prevScan_pause_none : ∀ (k : Nat) (rev : Bytes) (cursor : Nat), k ≤ cursor →
    (∀ i, i < k → ∃ x, rev[i]? = some x ∧ isSkipByte x) →
    (k = cursor ∨ rev[k]? = none ∨ ∃ x, rev[k]? = some x ∧ isStopByte x) → prevScan true rev cursor = none
  | 0, rev, cursor, _, _, hk => by
    cases rev with
    | nil => rfl
    | cons x rest =>
      simp only [prevScan]
      rcases hk with hk | hk | ⟨y, hy, hst⟩
      · rw [if_pos hk.symm]
      · simp at hk
      · simp only [List.getElem?_cons_zero, Option.some.injEq] at hy
        subst hy
        split
        · rfl
        · simp [lbCheck_none_of_stop _ hst]
  | k + 1, rev, cursor, hc, hs, hk => by
    cases rev with
    | nil => rfl
    | cons x rest =>
      obtain ⟨y, hy, hsk⟩ := hs 0 (by omega)
      simp only [List.getElem?_cons_zero, Option.some.injEq] at hy
      subst hy
      simp only [prevScan]
      rw [if_neg (by omega)]
      simp only [lbCheck_skip_of _ hsk]
      apply prevScan_pause_none k rest (cursor - 1) (by omega) (fun i hi => by simpa using hs (i + 1) (by omega))
      rcases hk with hk | hk | hk
      · exact Or.inl (by omega)
      · exact Or.inr (Or.inl (by simpa using hk))
      · exact Or.inr (Or.inr (by simpa using hk))

theorem findPrevLB_intro (b : Bytes) (pos p : Nat) (pause : Bool) (h0 : 0 < p) (h1 : p < pos) (h2 : pos ≤ b.length)
    (hs : ∀ i, p < i → i < pos → ∃ x, b[i]? = some x ∧ isSkipByte x) (hp : b[p]? = some (.lead '\n')) :
    findPrevLB b pos pause = some p := by
  unfold findPrevLB
  rw [if_neg (by omega), if_neg (by omega)]
  rw [prevScan_intro pause (pos - 1 - p) _ (pos - 1) (by omega)]
  · congr 1; omega
  · intro i hi
    rw [rev_take_getElem? b pos i h2 (by omega)]
    exact hs (pos - 1 - i) (by omega) (by omega)
  · rw [rev_take_getElem? b pos _ h2 (by omega), show pos - 1 - (pos - 1 - p) = p by omega]; exact hp

theorem findPrevLB_pause_none (b : Bytes) (pos q : Nat) (h1 : q < pos) (h2 : pos ≤ b.length)
    (hs : ∀ i, q < i → i < pos → ∃ x, b[i]? = some x ∧ isSkipByte x)
    (hq : q = 0 ∨ ∃ x, b[q]? = some x ∧ isStopByte x) :
    findPrevLB b pos true = none := by
  unfold findPrevLB
  rw [if_neg (by omega), if_neg (by omega)]
  apply prevScan_pause_none (pos - 1 - q) _ (pos - 1) (by omega)
  · intro i hi
    rw [rev_take_getElem? b pos i h2 (by omega)]
    exact hs (pos - 1 - i) (by omega) (by omega)
  · rcases hq with hq | hq
    · exact Or.inl (by omega)
    · refine Or.inr (Or.inr ?_)
      rw [rev_take_getElem? b pos _ h2 (by omega), show pos - 1 - (pos - 1 - q) = q by omega]; exact hq

/-! ### the indentation scan of `IndentRemover` -/

theorem indentScan_intro : ∀ (k : Nat) (rev : Bytes) (cursor : Nat), k < cursor →
    (∀ i, i < k → ∃ x, rev[i]? = some x ∧ isSkipByte x) → rev[k]? = some (.lead '\n') →
    indentScan rev cursor = some (cursor - k)
  | 0, rev, cursor, _, _, hk => by
    cases rev with
    | nil => simp at hk
    | cons x rest =>
      simp only [List.getElem?_cons_zero, Option.some.injEq] at hk
      subst hk
      simp [indentScan]
  | k + 1, rev, cursor, hc, hs, hk => by
    cases rev with
    | nil => simp at hk
    | cons x rest =>
      obtain ⟨y, hy, hsk⟩ := hs 0 (by omega)
      simp only [List.getElem?_cons_zero, Option.some.injEq] at hy
      subst hy
      have ih := indentScan_intro k rest (cursor - 1) (by omega) (fun i hi => by simpa using hs (i + 1) (by omega))
        (by simpa using hk)
      rw [show cursor - 1 - k = cursor - (k + 1) by omega] at ih
      rcases hsk with h | h | h <;> subst h <;> simp [indentScan, ih]

end Chiritori
