import Chiritori.Lemmas.Unwrapped
import Chiritori.Lemmas.PruneBytes
import Chiritori.Props.C11
/-
  Which tags survive the removal when blocks are unwrapped: in a forest without stray tags, in which every ready
  unwrap-block can be unwrapped and has no tag on its wrapper lines, the tags the ready extents do not cover are the tags
  of the forest with the ready default elements taken out and the ready unwrap-blocks replaced by their children.
-/
namespace Chiritori
open Spec

def isTagTok (t : Token) : Bool := decide (t.kind = .element)
def isDefaultReady (cfg : Cfg) (el : Element) : Bool := conditionHolds cfg el && !hasAttr el "unwrap-block"
def isUnwrapReady (cfg : Cfg) (el : Element) : Bool := conditionHolds cfg el && hasAttr el "unwrap-block"

mutual
/-- no tag token is left as text (every opening tag has its closing tag and vice versa) -/
def NoStray : List Part → Prop
  | [] => True
  | p :: ps => NoStrayP p ∧ NoStray ps
def NoStrayP : Part → Prop
  | .text t => t.kind = .text
  | .element _ st en ch => st.kind = .element ∧ en.kind = .element ∧ NoStray ch
end

mutual
/-- every ready unwrap-block can be unwrapped, and the tags of everything inside it lie strictly between its two parts -/
def ReadyShape (cfg : Cfg) (b : Bytes) : List Part → Prop
  | [] => True
  | p :: ps => ReadyShapeP cfg b p ∧ ReadyShape cfg b ps
def ReadyShapeP (cfg : Cfg) (b : Bytes) : Part → Prop
  | .text _ => True
  | .element el st en ch =>
    (conditionHolds cfg el = true → hasAttr el "unwrap-block" = true →
      ∃ h t, unwrapParts b st en = some (h, t) ∧ ∀ e ∈ elementsOf ch, h.2 ≤ e.2.1.bstart ∧ e.2.2.bstop < t.1) ∧
    ReadyShape cfg b ch
end

/-- what `parts_lines` says about positions -/
theorem unwrapParts_pos (b : Bytes) (st en : Token) (h t : Rng) (h0 : 0 < st.bstop) (hlen : en.bstart ≤ b.length)
    (hu : unwrapParts b st en = some (h, t)) :
    h.1 = st.bstart ∧ st.bstop < h.2 ∧ h.2 < t.1 ∧ t.1 < en.bstart + 1 ∧ t.2 = en.bstop ∧
      b[h.2]? = some NL ∧ b[t.1 - 1]? = some NL := by
  obtain ⟨p1, q1, a1, _, _, a4, a5, _, a7, _, _, a10, a11, _, a13, a14, a15⟩ := Props.C11.parts_lines b st en h t h0 hlen hu
  exact ⟨a13, by omega, a15, by omega, a14, a5, a11⟩

mutual
theorem extents_within_u (cfg : Cfg) (b : Bytes) : ∀ (parts : List Part) (lo hi : Nat),
    BSpan (flattenParts parts) lo hi → hi ≤ b.length → ReadyShape cfg b parts →
    ∀ i, inAny (extentsOfParts cfg b parts) i = true → lo ≤ i ∧ i < hi
  | [], _, _, _, _, _, i, hi' => by simp [extentsOfParts, inAny] at hi'
  | p :: ps, lo, hi, hs, hl, hr, i, hi' => by
    simp only [flattenParts, BSpan_append] at hs
    obtain ⟨mid, hs1, hs2⟩ := hs
    have h1 := BSpan_le _ lo mid hs1
    have h2 := BSpan_le _ mid hi hs2
    simp only [ReadyShape] at hr
    simp only [extentsOfParts, inAny_append, Bool.or_eq_true] at hi'
    rcases hi' with h | h
    · have := extentsPart_within_u cfg b p lo mid hs1 (by omega) hr.1 i h
      omega
    · have := extents_within_u cfg b ps mid hi hs2 hl hr.2 i h
      omega
theorem extentsPart_within_u (cfg : Cfg) (b : Bytes) : ∀ (p : Part) (lo hi : Nat),
    BSpan (flattenPart p) lo hi → hi ≤ b.length → ReadyShapeP cfg b p →
    ∀ i, inAny (extentsOfPart cfg b p) i = true → lo ≤ i ∧ i < hi
  | .text _, _, _, _, _, _, i, hi' => by simp [extentsOfPart, inAny] at hi'
  | .element el st en ch, lo, hi, hs, hl, hr, i, hi' => by
    simp only [flattenPart, List.cons_append, BSpan, BSpan_append] at hs
    obtain ⟨hst, hst2, mid, hch, hen1, hen2, hen3⟩ := hs
    have hmid := BSpan_le _ st.bstop mid hch
    simp only [ReadyShapeP] at hr
    obtain ⟨hr1, hr2⟩ := hr
    simp only [extentsOfPart, inAny_append, Bool.or_eq_true] at hi'
    rcases hi' with h | h
    · by_cases hc : conditionHolds cfg el = true
      · rw [if_pos hc] at h
        by_cases hu : hasAttr el "unwrap-block" = true
        · obtain ⟨hh, tt, hup, _⟩ := hr1 hc hu
          obtain ⟨p1, p2, p3, p4, p5, _, _⟩ := unwrapParts_pos b st en hh tt (by omega) (by omega) hup
          simp only [extentOf, hu, ite_true, hup, inAny, List.any_cons, List.any_nil, Bool.or_false, Bool.or_eq_true,
            Rng.contains, Bool.and_eq_true, decide_eq_true_eq] at h
          rcases h with h | h <;> omega
        · have hu' : hasAttr el "unwrap-block" = false := by simpa using hu
          simp only [extentOf, hu', Bool.false_eq_true, ite_false] at h
          split at h
          · simp only [inAny, List.any_cons, List.any_nil, Bool.or_false, Rng.contains, Bool.and_eq_true,
              decide_eq_true_eq] at h
            omega
          · simp [inAny] at h
      · rw [if_neg hc] at h
        simp [inAny] at h
    · have := extents_within_u cfg b ch st.bstop mid hch (by omega) hr2 i h
      omega
end

mutual
/-- in a forest without stray tags every tag token is the opening or the closing tag of one of its elements -/
theorem tag_of_element : ∀ (parts : List Part), NoStray parts → ∀ t ∈ flattenParts parts, t.kind = .element →
    ∃ e ∈ elementsOf parts, t = e.2.1 ∨ t = e.2.2
  | [], _, t, ht, _ => by simp [flattenParts] at ht
  | p :: ps, hn, t, ht, hk => by
    simp only [NoStray] at hn
    simp only [flattenParts, List.mem_append] at ht
    rcases ht with ht | ht
    · obtain ⟨e, he, hte⟩ := tagPart_of_element p hn.1 t ht hk
      exact ⟨e, by simp [elementsOf, he], hte⟩
    · obtain ⟨e, he, hte⟩ := tag_of_element ps hn.2 t ht hk
      exact ⟨e, by simp [elementsOf, he], hte⟩
theorem tagPart_of_element : ∀ (p : Part), NoStrayP p → ∀ t ∈ flattenPart p, t.kind = .element →
    ∃ e ∈ elementsOfPart p, t = e.2.1 ∨ t = e.2.2
  | .text u, hn, t, ht, hk => by
    simp only [flattenPart, List.mem_singleton] at ht
    subst ht
    simp only [NoStrayP] at hn
    rw [hn] at hk; cases hk
  | .element el st en ch, hn, t, ht, hk => by
    simp only [NoStrayP] at hn
    simp only [flattenPart, List.cons_append, List.mem_cons, List.mem_append, List.not_mem_nil, or_false] at ht
    rcases ht with rfl | ht | rfl
    · exact ⟨(el, t, en), by simp [elementsOfPart], Or.inl rfl⟩
    · obtain ⟨e, he, hte⟩ := tag_of_element ch hn.2.2 t ht hk
      exact ⟨e, by simp [elementsOfPart, he], hte⟩
    · exact ⟨(el, st, t), by simp [elementsOfPart], Or.inr rfl⟩
end

mutual
theorem element_tags_ordered : ∀ (parts : List Part) (lo hi : Nat), BSpan (flattenParts parts) lo hi →
    ∀ e ∈ elementsOf parts, e.2.1.bstart < e.2.1.bstop ∧ e.2.1.bstop ≤ e.2.2.bstart ∧ e.2.2.bstart < e.2.2.bstop
  | [], _, _, _, e, he => by simp [elementsOf] at he
  | p :: ps, lo, hi, hs, e, he => by
    simp only [flattenParts, BSpan_append] at hs
    obtain ⟨mid, hs1, hs2⟩ := hs
    simp only [elementsOf, List.mem_append] at he
    rcases he with he | he
    · exact elementPart_tags_ordered p lo mid hs1 e he
    · exact element_tags_ordered ps mid hi hs2 e he
theorem elementPart_tags_ordered : ∀ (p : Part) (lo hi : Nat), BSpan (flattenPart p) lo hi →
    ∀ e ∈ elementsOfPart p, e.2.1.bstart < e.2.1.bstop ∧ e.2.1.bstop ≤ e.2.2.bstart ∧ e.2.2.bstart < e.2.2.bstop
  | .text _, _, _, _, e, he => by simp [elementsOfPart] at he
  | .element el st en ch, lo, hi, hs, e, he => by
    simp only [flattenPart, List.cons_append, BSpan, BSpan_append] at hs
    obtain ⟨_, hst2, mid, hch, hen1, hen2, _⟩ := hs
    have hmid := BSpan_le _ st.bstop mid hch
    simp only [elementsOfPart, List.mem_cons] at he
    rcases he with rfl | he
    · simp only; omega
    · exact element_tags_ordered ch st.bstop mid hch e he
end

mutual
/-- the tags that the ready extents do not cover are the tags of the pruned and unwrapped forest -/
theorem kept_tags (cfg : Cfg) (b : Bytes) (X : List Rng) : ∀ (parts : List Part) (lo hi : Nat),
    BSpan (flattenParts parts) lo hi → hi ≤ b.length → NoStray parts → ReadyShape cfg b parts →
    (∀ t ∈ flattenParts parts, t.kind = .element → inAny X t.bstart = inAny (extentsOfParts cfg b parts) t.bstart) →
    (flattenParts (spliceParts (isUnwrapReady cfg) (pruneParts (isDefaultReady cfg) parts))).filter isTagTok =
      (flattenParts parts).filter (fun t => isTagTok t && !inAny X t.bstart)
  | [], _, _, _, _, _, _, _ => by simp [pruneParts, spliceParts, flattenParts]
  | p :: ps, lo, hi, hs, hl, hn, hr, hX => by
    simp only [flattenParts, BSpan_append] at hs
    obtain ⟨mid, hs1, hs2⟩ := hs
    have h1 := BSpan_le _ lo mid hs1
    have h2 := BSpan_le _ mid hi hs2
    simp only [NoStray] at hn
    simp only [ReadyShape] at hr
    have e1 := keptPart_tags cfg b X p lo mid hs1 (by omega) hn.1 hr.1 (by
      intro t ht hk
      rw [hX t (by simp [flattenParts, ht]) hk, extentsOfParts, inAny_append]
      cases hq : inAny (extentsOfParts cfg b ps) t.bstart with
      | false => simp
      | true =>
        have := extents_within_u cfg b ps mid hi hs2 hl hr.2 _ hq
        have := BSpan_mem _ lo mid hs1 t ht
        omega)
    have e2 := kept_tags cfg b X ps mid hi hs2 hl hn.2 hr.2 (by
      intro t ht hk
      rw [hX t (by simp [flattenParts, ht]) hk, extentsOfParts, inAny_append]
      cases hq : inAny (extentsOfPart cfg b p) t.bstart with
      | false => simp
      | true =>
        have := extentsPart_within_u cfg b p lo mid hs1 (by omega) hr.1 _ hq
        have := BSpan_mem _ mid hi hs2 t ht
        omega)
    have hsp : ∀ (a c : List Part), spliceParts (isUnwrapReady cfg) (a ++ c) =
        spliceParts (isUnwrapReady cfg) a ++ spliceParts (isUnwrapReady cfg) c := by
      intro a
      induction a with
      | nil => intro c; simp [spliceParts]
      | cons x xs ih => intro c; simp [spliceParts, ih, List.append_assoc]
    simp only [pruneParts, hsp, flattenParts_append, List.filter_append, flattenParts]
    rw [e1, e2]
theorem keptPart_tags (cfg : Cfg) (b : Bytes) (X : List Rng) : ∀ (p : Part) (lo hi : Nat),
    BSpan (flattenPart p) lo hi → hi ≤ b.length → NoStrayP p → ReadyShapeP cfg b p →
    (∀ t ∈ flattenPart p, t.kind = .element → inAny X t.bstart = inAny (extentsOfPart cfg b p) t.bstart) →
    (flattenParts (spliceParts (isUnwrapReady cfg) (prunePart (isDefaultReady cfg) p))).filter isTagTok =
      (flattenPart p).filter (fun t => isTagTok t && !inAny X t.bstart)
  | .text t, _, _, _, _, hn, _, _ => by
    simp only [NoStrayP] at hn
    simp [prunePart, spliceParts, splicePart, flattenParts, flattenPart, isTagTok, hn]
  | .element el st en ch, lo, hi, hs, hl, hn, hr, hX => by
    have hs' := hs
    simp only [flattenPart, List.cons_append, BSpan, BSpan_append] at hs
    obtain ⟨hst, hst2, mid, hch, hen1, hen2, hen3⟩ := hs
    have hmid := BSpan_le _ st.bstop mid hch
    have hmem := BSpan_mem _ lo hi hs'
    simp only [NoStrayP] at hn
    obtain ⟨hkst, hken, hnch⟩ := hn
    simp only [ReadyShapeP] at hr
    obtain ⟨hr1, hr2⟩ := hr
    have htst : isTagTok st = true := by simp [isTagTok, hkst]
    have hten : isTagTok en = true := by simp [isTagTok, hken]
    have hXst := hX st (by simp [flattenPart]) hkst
    have hXen := hX en (by simp [flattenPart]) hken
    have hcw := extents_within_u cfg b ch st.bstop mid hch (by omega) hr2
    by_cases hc : conditionHolds cfg el = true
    · by_cases hu : hasAttr el "unwrap-block" = true
      · -- unwrapped: the two tags go, the children's tags are treated recursively
        obtain ⟨hh, tt, hup, hwf⟩ := hr1 hc hu
        obtain ⟨p1, p2, p3, p4, p5, _, _⟩ := unwrapParts_pos b st en hh tt (by omega) (by omega) hup
        have hext : extentOf b el st en = [hh, tt] := by simp [extentOf, hu, hup]
        have hpd : isDefaultReady cfg el = false := by simp [isDefaultReady, hu]
        have hpu : isUnwrapReady cfg el = true := by simp [isUnwrapReady, hc, hu]
        have ih := kept_tags cfg b X ch st.bstop mid hch (by omega) hnch hr2 (by
          intro t ht hk
          rw [hX t (by simp [flattenPart, ht]) hk]
          simp only [extentsOfPart, if_pos hc, hext, List.cons_append, List.nil_append, inAny_append]
          obtain ⟨e, he, hte⟩ := tag_of_element ch hnch t ht hk
          obtain ⟨w1, w2⟩ := hwf e he
          obtain ⟨o1, o2, o3⟩ := element_tags_ordered ch st.bstop mid hch e he
          have hout : inAny [hh, tt] t.bstart = false := by
            simp only [inAny, List.any_cons, List.any_nil, Bool.or_false, Rng.contains]
            rcases hte with rfl | rfl
            · simp only [Bool.or_eq_false_iff, Bool.and_eq_false_iff, decide_eq_false_iff_not]
              constructor
              · right; omega
              · left; omega
            · simp only [Bool.or_eq_false_iff, Bool.and_eq_false_iff, decide_eq_false_iff_not]
              constructor
              · right; omega
              · left; omega
          rw [show (hh :: tt :: extentsOfParts cfg b ch) = [hh, tt] ++ extentsOfParts cfg b ch from rfl, inAny_append, hout]
          simp)
        have hst_in : inAny X st.bstart = true := by
          rw [hXst]
          simp only [extentsOfPart, if_pos hc, hext, inAny_append, Bool.or_eq_true]
          left
          simp only [inAny, List.any_cons, List.any_nil, Bool.or_false, Rng.contains, Bool.or_eq_true, Bool.and_eq_true,
            decide_eq_true_eq]
          left; omega
        have hen_in : inAny X en.bstart = true := by
          rw [hXen]
          simp only [extentsOfPart, if_pos hc, hext, inAny_append, Bool.or_eq_true]
          left
          simp only [inAny, List.any_cons, List.any_nil, Bool.or_false, Rng.contains, Bool.or_eq_true, Bool.and_eq_true,
            decide_eq_true_eq]
          right; omega
        simp only [prunePart, hpd, Bool.false_eq_true, ite_false, spliceParts, splicePart, hpu, ite_true, List.append_nil,
          flattenPart, List.cons_append, List.filter_cons, List.filter_append, List.filter_nil, hst_in, hen_in, htst, hten,
          Bool.not_true, Bool.and_false, ih]
      · -- removed whole: every token of the element is covered
        have hu' : hasAttr el "unwrap-block" = false := by simpa using hu
        have hpd : isDefaultReady cfg el = true := by simp [isDefaultReady, hc, hu']
        have hext := extentOf_default b el st en hu' (by omega)
        simp only [prunePart, hpd, ite_true, spliceParts, flattenParts, List.filter_nil]
        symm
        rw [List.filter_eq_nil_iff]
        intro t ht
        have hm := hmem t ht
        simp only [Bool.and_eq_true, Bool.not_eq_eq_eq_not, Bool.not_true, not_and, Bool.not_eq_false]
        intro hk
        have hk' : t.kind = .element := by simpa [isTagTok] using hk
        rw [hX t ht hk']
        simp only [extentsOfPart, if_pos hc, hext, inAny_append, Bool.or_eq_true]
        left
        simp only [inAny, List.any_cons, List.any_nil, Bool.or_false, Rng.contains, Bool.and_eq_true, decide_eq_true_eq]
        omega
    · -- the element stays; its children are treated recursively
      have hc' : conditionHolds cfg el = false := by simpa using hc
      have hpd : isDefaultReady cfg el = false := by simp [isDefaultReady, hc']
      have hpu : isUnwrapReady cfg el = false := by simp [isUnwrapReady, hc']
      have hext : extentsOfPart cfg b (.element el st en ch) = extentsOfParts cfg b ch := by
        simp [extentsOfPart, hc']
      have ih := kept_tags cfg b X ch st.bstop mid hch (by omega) hnch hr2 (by
        intro t ht hk
        rw [hX t (by simp [flattenPart, ht]) hk, hext])
      have hst_out : inAny X st.bstart = false := by
        rw [hXst, hext]
        cases hq : inAny (extentsOfParts cfg b ch) st.bstart with
        | false => rfl
        | true => have := hcw _ hq; omega
      have hen_out : inAny X en.bstart = false := by
        rw [hXen, hext]
        cases hq : inAny (extentsOfParts cfg b ch) en.bstart with
        | false => rfl
        | true => have := hcw _ hq; omega
      simp only [prunePart, hpd, Bool.false_eq_true, ite_false, spliceParts, splicePart, hpu, List.append_nil,
        flattenParts, flattenPart, List.cons_append, List.filter_cons, List.filter_append, List.filter_nil, hst_out, hen_out,
        htst, hten, Bool.not_false, Bool.and_true, ite_true, ih]
end

end Chiritori
