import Chiritori.Lemmas.PairBody
import Chiritori.Lemmas.Collect
/-
  The bodies of the unwrap nodes `collect` builds are bodies of ready unwrapped elements (`Spec.unwrappedBodies`).
-/
namespace Chiritori
open Spec

theorem bodiesOf_append : ∀ (a c : List RTree), bodiesOf (a ++ c) = bodiesOf a ++ bodiesOf c
  | [], c => by simp [bodiesOf]
  | t :: ts, c => by simp [bodiesOf, bodiesOf_append ts c, List.append_assoc]

def bodyOfEl (cfg : Cfg) (b : Bytes) (e : Element × Token × Token) : List Rng :=
  if conditionHolds cfg e.1 ∧ hasAttr e.1 "unwrap-block" then
    match unwrapParts b e.2.1 e.2.2 with
    | some (h, t) => [(h.2, t.1)]
    | none => []
  else []

theorem unwrappedBodies_eq (cfg : Cfg) (b : Bytes) (parts : List Part) :
    unwrappedBodies cfg b parts = (elementsOf parts).flatMap (bodyOfEl cfg b) := by
  unfold unwrappedBodies
  congr 1

mutual
theorem collect_bodies (cfg : Cfg) (b : Bytes) : ∀ (parts : List Part) (lo hi : Nat),
    BSpan (flattenParts parts) lo hi → hi ≤ b.length →
    ∀ x ∈ bodiesOf (collect cfg b false parts).1, ∃ e ∈ elementsOf parts, x ∈ bodyOfEl cfg b e
  | [], _, _, _, _, x, hx => by simp [collect, bodiesOf] at hx
  | p :: ps, lo, hi, hs, hlen, x, hx => by
    simp only [flattenParts, BSpan_append] at hs
    obtain ⟨mid, hs1, hs2⟩ := hs
    have hmid := BSpan_le _ mid hi hs2
    simp only [collect, bodiesOf_append, List.mem_append] at hx
    rcases hx with hx | hx
    · obtain ⟨e, he, hxe⟩ := collectPart_bodies cfg b p lo mid hs1 (by omega) x hx
      exact ⟨e, by simp [elementsOf, he], hxe⟩
    · obtain ⟨e, he, hxe⟩ := collect_bodies cfg b ps mid hi hs2 hlen x hx
      exact ⟨e, by simp [elementsOf, he], hxe⟩
theorem collectPart_bodies (cfg : Cfg) (b : Bytes) : ∀ (p : Part) (lo hi : Nat),
    BSpan (flattenPart p) lo hi → hi ≤ b.length →
    ∀ x ∈ bodiesOf (collectPart cfg b false p).1, ∃ e ∈ elementsOfPart p, x ∈ bodyOfEl cfg b e
  | .text _, _, _, _, _, x, hx => by simp [collectPart, bodiesOf] at hx
  | .element el st en ch, lo, hi, hs, hlen, x, hx => by
    simp only [flattenPart, List.cons_append, BSpan, BSpan_append] at hs
    obtain ⟨hst, hst2, mid, hch, hen1, hen2, hen3⟩ := hs
    have hmid := BSpan_le _ st.bstop mid hch
    have ih := collect_bodies cfg b ch st.bstop mid hch (by omega)
    have hchild : ∀ x ∈ bodiesOf (collect cfg b false ch).1, ∃ e ∈ elementsOfPart (.element el st en ch), x ∈ bodyOfEl cfg b e := by
      intro x hx
      obtain ⟨e, he, hxe⟩ := ih x hx
      exact ⟨e, by simp [elementsOfPart, he], hxe⟩
    simp only [collectPart] at hx
    rw [elementRange_eq cfg b false] at hx
    cases hemp : (createRange b el st en).1.isEmpty with
    | true => rw [hemp] at hx; exact hchild x (by simpa using hx)
    | false =>
      rw [hemp] at hx
      cases hc : conditionHolds cfg el with
      | false => rw [hc] at hx; exact hchild x (by simpa using hx)
      | true =>
        rw [hc] at hx
        simp only [Bool.false_eq_true, ite_false, ite_true, bodiesOf, bodiesOfT, List.append_nil, List.mem_append] at hx
        rcases hx with hx | hx
        · -- the node's own body
          refine ⟨(el, st, en), by simp [elementsOfPart], ?_⟩
          unfold createRange at hx
          have ha : (el.attrs.any fun a => a.name == "unwrap-block".toList) = hasAttr el "unwrap-block" := rfl
          rw [ha] at hx
          cases hu : hasAttr el "unwrap-block" with
          | false => rw [hu] at hx; simp [buildRange] at hx
          | true =>
            rw [hu] at hx
            simp only [ite_true] at hx
            rw [buildUnwrap_eq b st en (by omega) (by omega)] at hx
            unfold bodyOfEl
            simp only [hc, hu, and_self, ite_true]
            cases hp : unwrapParts b st en with
            | none => rw [hp] at hx; simp at hx
            | some ht =>
              obtain ⟨h, t⟩ := ht
              rw [hp] at hx
              simpa using hx
        · exact hchild x hx
end

end Chiritori
