import Chiritori.Lemmas.PendingCover
/-
  Laminarity of the Ready and Pending regions (C17): in a document in which no tag stands on a wrapper line of an
  unwrappable unwrap-block (`WrapFree`, the C15 space), a pending region that begins before a ready region ends
  and is not wholly inside it begins no later than that ready region.  This is the hypothesis under which the
  single-cursor merge of `build_remove_marker_all` emits its items in source order.
-/
namespace Chiritori
open Spec

def rangesOf (ms : List Marker) : List Rng := ms.map fun m => (m.start, m.stop)

def LamR (r p : Rng) : Prop :=
  p.1 < r.2 → ¬ (r.1 ≤ p.1 ∧ p.1 < r.2 ∧ r.1 ≤ p.2 ∧ p.2 < r.2) → p.1 ≤ r.1

def LamAllR (R P : List Rng) : Prop := ∀ r ∈ R, ∀ p ∈ P, LamR r p

theorem rangesOf_append (a b : List Marker) : rangesOf (a ++ b) = rangesOf a ++ rangesOf b := by
  simp [rangesOf]

theorem rangesOf_map_rebase (a b c : Nat) (l : List Marker) : rangesOf (l.map (rebase a b c)) = rangesOf l := by
  simp only [rangesOf, List.map_map]
  apply List.map_congr_left
  intro m _
  rfl

/-! ### the ranges `merge_markers` emits do not depend on the accumulator -/

theorem mergeTree_ranges (t : RTree) (acc : List Marker) :
    rangesOf (mergeTree t acc) = rangesOf acc ++ rangesOf (mergeTree t []) := by
  cases t with
  | node r pair ch =>
    cases pair with
    | none =>
      simp only [mergeTree]
      simp [rangesOf]
    | some e =>
      simp only [mergeTree]
      split
      · simp [rangesOf]
      · simp only [rangesOf_append, rangesOf_map_rebase, List.length_nil]
        simp [rangesOf]

theorem mergeMarkers_ranges : ∀ (ts : List RTree) (acc : List Marker),
    rangesOf (mergeMarkers ts acc) = rangesOf acc ++ rangesOf (mergeMarkers ts [])
  | [], acc => by simp [mergeMarkers, rangesOf]
  | t :: ts, acc => by
    simp only [mergeMarkers]
    rw [mergeMarkers_ranges ts (mergeTree t acc), mergeMarkers_ranges ts (mergeTree t []), mergeTree_ranges t acc]
    simp [List.append_assoc]

theorem mergeMarkers_ranges_append (a b : List RTree) :
    rangesOf (mergeMarkers (a ++ b) []) = rangesOf (mergeMarkers a []) ++ rangesOf (mergeMarkers b []) := by
  induction a with
  | nil => simp [mergeMarkers, rangesOf]
  | cons t ts ih =>
    simp only [List.cons_append, mergeMarkers]
    rw [mergeMarkers_ranges (ts ++ b) (mergeTree t []), mergeMarkers_ranges ts (mergeTree t []), ih]
    simp [List.append_assoc]

theorem mergeMarkers_single (t : RTree) : mergeMarkers [t] [] = mergeTree t [] := by
  simp [mergeMarkers]

/-! ### shapes of `merge_tree` -/

theorem mergeChild_untouched (cm : List Marker) (m : Rng)
    (h : ∀ c ∈ cm, m.contains c.start = false ∧ m.contains c.stop = false) : mergeChildMarkers cm m = (0, m) := by
  cases cm with
  | nil => rfl
  | cons c cs =>
    obtain ⟨h1, h2⟩ := h c (by simp)
    simp [mergeChildMarkers, h1, h2]

/-- a default-strategy node over well-placed children is one marker -/
theorem mergeTree_default (r : Rng) (ch : List RTree) (gch : RGeo ch r.1 r.2) :
    mergeTree (.node r none ch) [] = [⟨r.1, r.2, none⟩] := by
  obtain ⟨hcm, _⟩ := mergeMarkers_spec ch r.1 r.2 [] r.1 gch (by simp [MSorted])
  obtain ⟨k, E, hk, e1, e2, _, _, _⟩ := mergeChild_head (mergeMarkers ch []) r.1 r.2 r.1 r.2 hcm
    (Nat.le_refl _) (Nat.le_refl _)
  have hE : E = r.2 := by omega
  subst hE
  simp only [mergeTree]
  rw [show (r : Rng) = (r.1, r.2) from rfl, hk]
  rfl

/-- an unwrap node whose children's markers lie strictly between its two parts keeps both parts as they are -/
theorem mergeTree_unwrap_clean (h t : Rng) (ch : List RTree) (hlt : h.2 < t.1)
    (hcm : ∀ c ∈ mergeMarkers ch [], h.2 ≤ c.start ∧ c.start < c.stop ∧ c.stop < t.1) :
    rangesOf (mergeTree (.node h (some t) ch) []) = [h] ++ rangesOf (mergeMarkers ch []) ++ [t] := by
  have e1 : mergeChildMarkers (mergeMarkers ch []) h = (0, h) := by
    apply mergeChild_untouched
    intro c hc
    obtain ⟨a1, a2, a3⟩ := hcm c hc
    simp only [Rng.contains, Bool.and_eq_false_imp, decide_eq_true_eq, decide_eq_false_iff_not]
    exact ⟨fun _ => by omega, fun _ => by omega⟩
  have e2 : mergeChildMarkers (mergeMarkers ch []).reverse t = (0, t) := by
    apply mergeChild_untouched
    intro c hc
    obtain ⟨a1, a2, a3⟩ := hcm c (List.mem_reverse.mp hc)
    simp only [Rng.contains, Bool.and_eq_false_imp, decide_eq_true_eq, decide_eq_false_iff_not]
    exact ⟨fun _ => by omega, fun _ => by omega⟩
  simp only [mergeTree, e1, List.drop_zero, e2]
  rw [if_neg (by omega)]
  simp only [rangesOf_append, rangesOf_map_rebase, Nat.sub_zero, List.take_length]
  simp [rangesOf]

theorem MSorted_bounds (ms : List Marker) (lo hi : Nat) (h : MSorted ms lo hi) :
    ∀ m ∈ ms, lo ≤ m.start ∧ m.start < m.stop ∧ m.stop ≤ hi := by
  induction ms generalizing lo with
  | nil => intro m hm; cases hm
  | cons a as ih =>
    intro m hm
    obtain ⟨g1, g2, g3⟩ := h
    have hle := MSorted_le as a.stop hi g3
    rcases List.mem_cons.mp hm with rfl | hm
    · exact ⟨g1, g2, hle⟩
    · obtain ⟨b1, b2, b3⟩ := ih _ g3 m hm
      exact ⟨by omega, b2, b3⟩

theorem mem_rangesOf (ms : List Marker) (r : Rng) (h : r ∈ rangesOf ms) : ∃ m ∈ ms, r = (m.start, m.stop) := by
  simp only [rangesOf, List.mem_map] at h
  obtain ⟨m, hm, rfl⟩ := h
  exact ⟨m, hm, rfl⟩

/-! ### all endpoints of the collected trees lie in the hull of the tags they come from -/

def InIv (a c : Nat) (x : Nat) : Prop := a ≤ x ∧ x ≤ c

theorem node_hull (b : Bytes) (el : Element) (st en : Token) (ch : List RTree) (a c : Nat)
    (h1 : st.bstart < st.bstop) (h2 : st.bstop ≤ en.bstart) (h3 : en.bstart < en.bstop) (h4 : en.bstart ≤ b.length)
    (ha : a ≤ st.bstart) (hc : en.bstop ≤ c) (hne : (createRange b el st en).1.isEmpty = false)
    (hch : RAll (InIv a c) ch) :
    RTreeAll (InIv a c) (.node (createRange b el st en).1 (createRange b el st en).2 ch) := by
  cases hcr : createRange b el st en with
  | mk r p =>
    rw [hcr] at hne
    have hgeo := createRange_geo b el st en r p h1 h2 h3 h4 hcr hne
    simp only [RTreeAll]
    cases p with
    | none =>
      simp only at hgeo
      subst hgeo
      exact ⟨⟨ha, by simp; omega⟩, ⟨by simp; omega, hc⟩, trivial, hch⟩
    | some t =>
      simp only at hgeo
      obtain ⟨q1, q2, q3, q4, q5⟩ := hgeo
      exact ⟨⟨by omega, by omega⟩, ⟨by omega, by omega⟩, ⟨⟨by omega, by omega⟩, ⟨by omega, by omega⟩⟩, hch⟩

mutual
theorem collect_hull (cfg : Cfg) (b : Bytes) (all : Bool) : ∀ (parts : List Part) (lo hi : Nat),
    BSpan (flattenParts parts) lo hi → hi ≤ b.length → ∀ (a c : Nat),
    (∀ e ∈ elementsOf parts, a ≤ e.2.1.bstart ∧ e.2.2.bstop ≤ c) →
    RAll (InIv a c) (collect cfg b all parts).1 ∧ RAll (InIv a c) (collect cfg b all parts).2
  | [], _, _, _, _, _, _, _ => by simp [collect, RAll]
  | p :: ps, lo, hi, hs, hlen, a, c, he => by
    simp only [flattenParts, BSpan_append] at hs
    obtain ⟨mid, hs1, hs2⟩ := hs
    have hmid := BSpan_le _ mid hi hs2
    obtain ⟨a1, a2⟩ := collectPart_hull cfg b all p lo mid hs1 (by omega) a c
      (fun e hm => he e (by simp [elementsOf, hm]))
    obtain ⟨b1, b2⟩ := collect_hull cfg b all ps mid hi hs2 hlen a c
      (fun e hm => he e (by simp [elementsOf, hm]))
    simp only [collect]
    exact ⟨RAll_append _ _ _ a1 b1, RAll_append _ _ _ a2 b2⟩
theorem collectPart_hull (cfg : Cfg) (b : Bytes) (all : Bool) : ∀ (p : Part) (lo hi : Nat),
    BSpan (flattenPart p) lo hi → hi ≤ b.length → ∀ (a c : Nat),
    (∀ e ∈ elementsOfPart p, a ≤ e.2.1.bstart ∧ e.2.2.bstop ≤ c) →
    RAll (InIv a c) (collectPart cfg b all p).1 ∧ RAll (InIv a c) (collectPart cfg b all p).2
  | .text _, _, _, _, _, _, _, _ => by simp [collectPart, RAll]
  | .element el st en ch, lo, hi, hs, hlen, a, c, he => by
    simp only [flattenPart, List.cons_append, BSpan, BSpan_append] at hs
    obtain ⟨hst, hst2, mid, hch, hen1, hen2, hen3⟩ := hs
    have hmid := BSpan_le _ st.bstop mid hch
    obtain ⟨c1, c2⟩ := collect_hull cfg b all ch st.bstop mid hch (by omega) a c
      (fun e hm => he e (by simp [elementsOfPart, hm]))
    have hself := he (el, st, en) (by simp [elementsOfPart])
    simp only [collectPart]
    rw [elementRange_eq cfg b all]
    cases hemp : (createRange b el st en).1.isEmpty with
    | true => simpa using ⟨c1, c2⟩
    | false =>
      have hn := node_hull b el st en
      cases hc : conditionHolds cfg el with
      | true =>
        simp only [Bool.false_eq_true, ite_false, ite_true, RAll, and_true]
        exact ⟨hn _ a c hst2 (by omega) hen2 (by omega) hself.1 hself.2 hemp c1, c2⟩
      | false =>
        cases hp : (all && conditionPending cfg el) with
        | false => simpa using ⟨c1, c2⟩
        | true =>
          simp only [Bool.false_eq_true, ite_false, ite_true, RAll, and_true]
          exact ⟨c1, hn _ a c hst2 (by omega) hen2 (by omega) hself.1 hself.2 hemp c2⟩
end

/-! ### documents without tags on wrapper lines -/

mutual
/-- no tag stands on a wrapper line: the tags of everything inside an unwrappable unwrap-block lie strictly between
    its opening part and its closing part -/
def WrapFree (b : Bytes) : List Part → Prop
  | [] => True
  | p :: ps => WrapFreePart b p ∧ WrapFree b ps
def WrapFreePart (b : Bytes) : Part → Prop
  | .text _ => True
  | .element el st en ch =>
    (∀ h t, extentOf b el st en = [h, t] → ∀ e ∈ elementsOf ch, h.2 ≤ e.2.1.bstart ∧ e.2.2.bstop < t.1) ∧
    WrapFree b ch
end

theorem LamAllR_append_left (a b P : List Rng) (h1 : LamAllR a P) (h2 : LamAllR b P) : LamAllR (a ++ b) P := by
  intro r hr p hp
  rcases List.mem_append.mp hr with h | h
  · exact h1 r h p hp
  · exact h2 r h p hp

theorem LamAllR_append_right (R a b : List Rng) (h1 : LamAllR R a) (h2 : LamAllR R b) : LamAllR R (a ++ b) := by
  intro r hr p hp
  rcases List.mem_append.mp hp with h | h
  · exact h1 r hr p h
  · exact h2 r hr p h

/-- ranges inside `[lo, mid]` against ranges inside `[mid, hi]`, either way round -/
theorem LamAllR_sep (R P : List Rng) (mid : Nat) (hR : ∀ r ∈ R, r.2 ≤ mid) (hP : ∀ p ∈ P, mid ≤ p.1) : LamAllR R P := by
  intro r hr p hp h1 _
  have := hR r hr; have := hP p hp; omega

theorem LamAllR_sep' (R P : List Rng) (mid : Nat) (hR : ∀ r ∈ R, mid ≤ r.1) (hP : ∀ p ∈ P, p.1 < p.2 ∧ p.2 ≤ mid) :
    LamAllR R P := by
  intro r hr p hp _ _
  have := hR r hr; have := hP p hp; omega

/-- the merged markers of both trees, with their spans -/
theorem both_sorted (cfg : Cfg) (b : Bytes) (parts : List Part) (lo hi : Nat)
    (hs : BSpan (flattenParts parts) lo hi) (hlen : hi ≤ b.length) :
    MSorted (mergeMarkers (collect cfg b true parts).1 []) lo hi ∧
    MSorted (mergeMarkers (collect cfg b true parts).2 []) lo hi := by
  have g1 := (collect_spec cfg b parts lo hi hs hlen).1
  rw [← collect_ready_indep] at g1
  have g2 := collect_pending_geo cfg b parts lo hi hs hlen
  exact ⟨(mergeMarkers_spec _ lo hi [] lo g1 (by simp [MSorted])).1,
    (mergeMarkers_spec _ lo hi [] lo g2 (by simp [MSorted])).1⟩

theorem bothPart_sorted (cfg : Cfg) (b : Bytes) (p : Part) (lo hi : Nat)
    (hs : BSpan (flattenPart p) lo hi) (hlen : hi ≤ b.length) :
    MSorted (mergeMarkers (collectPart cfg b true p).1 []) lo hi ∧
    MSorted (mergeMarkers (collectPart cfg b true p).2 []) lo hi := by
  have := both_sorted cfg b [p] lo hi (by simpa [flattenParts] using hs) hlen
  simpa [collect] using this

theorem rangesOf_bounds (ms : List Marker) (lo hi : Nat) (h : MSorted ms lo hi) :
    ∀ r ∈ rangesOf ms, lo ≤ r.1 ∧ r.1 < r.2 ∧ r.2 ≤ hi := by
  intro r hr
  obtain ⟨m, hm, rfl⟩ := mem_rangesOf ms r hr
  exact MSorted_bounds ms lo hi h m hm

theorem rangesOf_iv (ms : List Marker) (a c : Nat) (h : MAll (InIv a c) ms) :
    ∀ r ∈ rangesOf ms, a ≤ r.1 ∧ r.2 ≤ c := by
  intro r hr
  obtain ⟨m, hm, rfl⟩ := mem_rangesOf ms r hr
  exact ⟨(h m hm).1.1, (h m hm).2.2⟩

mutual
theorem collect_lam (cfg : Cfg) (b : Bytes) : ∀ (parts : List Part) (lo hi : Nat),
    BSpan (flattenParts parts) lo hi → hi ≤ b.length → WrapFree b parts →
    LamAllR (rangesOf (mergeMarkers (collect cfg b true parts).1 []))
      (rangesOf (mergeMarkers (collect cfg b true parts).2 []))
  | [], _, _, _, _, _ => by
    intro r hr; simp [collect, mergeMarkers, rangesOf] at hr
  | p :: ps, lo, hi, hs, hlen, hw => by
    simp only [flattenParts, BSpan_append] at hs
    obtain ⟨mid, hs1, hs2⟩ := hs
    have hmid := BSpan_le _ mid hi hs2
    simp only [WrapFree] at hw
    obtain ⟨s1, s2⟩ := bothPart_sorted cfg b p lo mid hs1 (by omega)
    obtain ⟨s3, s4⟩ := both_sorted cfg b ps mid hi hs2 hlen
    simp only [collect]
    rw [mergeMarkers_ranges_append, mergeMarkers_ranges_append]
    apply LamAllR_append_left
    · apply LamAllR_append_right
      · exact collectPart_lam cfg b p lo mid hs1 (by omega) hw.1
      · apply LamAllR_sep _ _ mid
        · intro r hr; exact (rangesOf_bounds _ lo mid s1 r hr).2.2
        · intro q hq; exact (rangesOf_bounds _ mid hi s4 q hq).1
    · apply LamAllR_append_right
      · apply LamAllR_sep' _ _ mid
        · intro r hr; exact (rangesOf_bounds _ mid hi s3 r hr).1
        · intro q hq; exact (rangesOf_bounds _ lo mid s2 q hq).2
      · exact collect_lam cfg b ps mid hi hs2 hlen hw.2
theorem collectPart_lam (cfg : Cfg) (b : Bytes) : ∀ (p : Part) (lo hi : Nat),
    BSpan (flattenPart p) lo hi → hi ≤ b.length → WrapFreePart b p →
    LamAllR (rangesOf (mergeMarkers (collectPart cfg b true p).1 []))
      (rangesOf (mergeMarkers (collectPart cfg b true p).2 []))
  | .text _, _, _, _, _, _ => by
    intro r hr; simp [collectPart, mergeMarkers, rangesOf] at hr
  | .element el st en ch, lo, hi, hs, hlen, hw => by
    simp only [flattenPart, List.cons_append, BSpan, BSpan_append] at hs
    obtain ⟨hst, hst2, mid, hch, hen1, hen2, hen3⟩ := hs
    have hmid := BSpan_le _ st.bstop mid hch
    simp only [WrapFreePart] at hw
    obtain ⟨hwrap, hwch⟩ := hw
    have ih := collect_lam cfg b ch st.bstop mid hch (by omega) hwch
    obtain ⟨sR, sP⟩ := both_sorted cfg b ch st.bstop mid hch (by omega)
    have gR : RGeo (collect cfg b true ch).1 st.bstop mid := by
      have := (collect_spec cfg b ch st.bstop mid hch (by omega)).1
      rwa [← collect_ready_indep] at this
    have gP : RGeo (collect cfg b true ch).2 st.bstop mid := collect_pending_geo cfg b ch st.bstop mid hch (by omega)
    have hext := extentOf_eq_createRange b el st en (by omega) (by omega : en.bstart ≤ b.length)
    simp only [collectPart]
    rw [elementRange_eq cfg b true]
    cases hemp : (createRange b el st en).1.isEmpty with
    | true => simpa using ih
    | false =>
      -- geometry of the pair, and (for an unwrap pair) the hull of the children's markers
      cases hcr : createRange b el st en with
      | mk r pr =>
      rw [hcr] at hemp hext
      have hgeo := createRange_geo b el st en r pr hst2 (by omega) hen2 (by omega) hcr hemp
      have hinner : ∀ t, pr = some t →
          (∀ q ∈ rangesOf (mergeMarkers (collect cfg b true ch).1 []), r.2 ≤ q.1 ∧ q.1 < q.2 ∧ q.2 < t.1) ∧
          (∀ q ∈ rangesOf (mergeMarkers (collect cfg b true ch).2 []), r.2 ≤ q.1 ∧ q.1 < q.2 ∧ q.2 < t.1) := by
        intro t ht
        subst ht
        simp only at hext hgeo
        have hel := hwrap r t hext
        obtain ⟨u1, u2⟩ := collect_hull cfg b true ch st.bstop mid hch (by omega) r.2 (t.1 - 1)
          (fun e he => ⟨(hel e he).1, by have := (hel e he).2; omega⟩)
        have m1 := mergeMarkers_P _ _ [] u1 (by simp [MAll])
        have m2 := mergeMarkers_P _ _ [] u2 (by simp [MAll])
        constructor
        · intro q hq
          have b1 := rangesOf_iv _ _ _ m1 q hq
          have b2 := rangesOf_bounds _ _ _ sR q hq
          omega
        · intro q hq
          have b1 := rangesOf_iv _ _ _ m2 q hq
          have b2 := rangesOf_bounds _ _ _ sP q hq
          omega
      simp only
      cases hc : conditionHolds cfg el with
      | true =>
        simp only [Bool.false_eq_true, ite_false, ite_true, mergeMarkers_single]
        cases pr with
        | none =>
          simp only at hgeo
          subst hgeo
          rw [mergeTree_default _ _ (RGeo_widen _ _ _ _ _ gR (by simp; omega) (by simp; omega))]
          intro r' hr' q hq _ h2
          simp only [rangesOf, List.map_cons, List.map_nil, List.mem_singleton] at hr'
          subst hr'
          have := rangesOf_bounds _ _ _ sP q hq
          exfalso; apply h2; simp only; omega
        | some t =>
          simp only at hgeo
          obtain ⟨q1, q2, q3, q4, q5⟩ := hgeo
          obtain ⟨iR, iP⟩ := hinner t rfl
          rw [mergeTree_unwrap_clean r t _ q3 (by
            intro c hc
            exact iR (c.start, c.stop) (by simp only [rangesOf, List.mem_map]; exact ⟨c, hc, rfl⟩))]
          apply LamAllR_append_left
          · apply LamAllR_append_left
            · apply LamAllR_sep _ _ r.2
              · intro x hx; simp only [List.mem_singleton] at hx; subst hx; exact Nat.le_refl _
              · intro q hq; exact (iP q hq).1
            · exact ih
          · apply LamAllR_sep' _ _ t.1
            · intro x hx; simp only [List.mem_singleton] at hx; subst hx; exact Nat.le_refl _
            · intro q hq; have := iP q hq; omega
      | false =>
        cases hp : conditionPending cfg el with
        | false => simpa using ih
        | true =>
          simp only [Bool.false_eq_true, ite_false, Bool.and_self, ite_true, mergeMarkers_single]
          cases pr with
          | none =>
            simp only at hgeo
            subst hgeo
            rw [mergeTree_default _ _ (RGeo_widen _ _ _ _ _ gP (by simp; omega) (by simp; omega))]
            intro r' hr' q hq _ _
            simp only [rangesOf, List.map_cons, List.map_nil, List.mem_singleton] at hq
            subst hq
            have := rangesOf_bounds _ _ _ sR r' hr'
            simp only; omega
          | some t =>
            simp only at hgeo
            obtain ⟨q1, q2, q3, q4, q5⟩ := hgeo
            obtain ⟨iR, iP⟩ := hinner t rfl
            rw [mergeTree_unwrap_clean r t _ q3 (by
              intro c hc
              exact iP (c.start, c.stop) (by simp only [rangesOf, List.mem_map]; exact ⟨c, hc, rfl⟩))]
            apply LamAllR_append_right
            · apply LamAllR_append_right
              · intro r' hr' q hq _ _
                simp only [List.mem_singleton] at hq
                subst hq
                have := iR r' hr'
                omega
              · exact ih
            · apply LamAllR_sep _ _ t.1
              · intro x hx; have := iR x hx; omega
              · intro q hq; simp only [List.mem_singleton] at hq; subst hq; exact Nat.le_refl _
end

/-! ### a decidable version of `WrapFree` (used for the non-vacuity instances and by the driver) -/

mutual
theorem wrapFreeB_sound (b : Bytes) : ∀ (parts : List Part), wrapFreeB b parts = true → WrapFree b parts
  | [], _ => trivial
  | p :: ps, h => by
    simp only [wrapFreeB, Bool.and_eq_true] at h
    exact ⟨wrapFreePartB_sound b p h.1, wrapFreeB_sound b ps h.2⟩
theorem wrapFreePartB_sound (b : Bytes) : ∀ (p : Part), wrapFreePartB b p = true → WrapFreePart b p
  | .text _, _ => trivial
  | .element el st en ch, h => by
    simp only [wrapFreePartB, Bool.and_eq_true] at h
    refine ⟨?_, wrapFreeB_sound b ch h.2⟩
    intro hh tt hext e he
    have h1 := h.1
    rw [hext] at h1
    simp only [List.all_eq_true, Bool.and_eq_true, decide_eq_true_eq] at h1
    exact h1 e he
end

end Chiritori
