import Chiritori.Lemmas.MarkerProps
import Chiritori.Lemmas.FormatMerge
/-
  Totality of `clean`: every step that can panic in Rust succeeds.
-/
namespace Chiritori
open Spec

/-- a boundary position inside the text -/
def BPos (b : Bytes) (x : Nat) : Prop := isBoundary b x = true ∧ x ≤ b.length

theorem token_boundaries (src ds de : List Char) (ts : List Token) (h : TokensOK ds de src ts) :
    ∀ t ∈ ts, BPos (bytesOf src) t.bstart ∧ BPos (bytesOf src) t.bstop := by
  intro t ht
  obtain ⟨pre, post, hsplit⟩ := List.append_of_mem ht
  have hc := h.chain
  rw [hsplit, chainFrom_append] at hc
  obtain ⟨_, h2⟩ := hc
  simp only [ChainFrom, Nat.zero_add] at h2
  obtain ⟨_, q2, _, _, q5, _⟩ := h2
  have hsrc : src = flat pre ++ (t.value ++ flat post) := by rw [← h.flatEq, hsplit]; simp
  have hlen : blen src = blen (flat pre) + (blen t.value + blen (flat post)) := by rw [hsrc]; simp [blen_append]
  refine ⟨⟨?_, by simp; omega⟩, ⟨?_, by simp; omega⟩⟩
  · rw [q2, hsrc]; exact isBoundary_blen_prefix _ _
  · rw [q5, ← blen_append, hsrc, ← List.append_assoc]; exact isBoundary_blen_prefix _ _

/-- the wrapper parts end / start at line breaks -/
theorem unwrapParts_nl (b : Bytes) (st en : Token) (h t : Rng) (hu : unwrapParts b st en = some (h, t)) :
    b[h.2]? = some NL ∧ 1 ≤ t.1 ∧ b[t.1 - 1]? = some NL := by
  unfold unwrapParts at hu
  dsimp only at hu
  cases hp1 : (lineBreaks b).find? (fun p => decide (p ≥ st.bstop)) with
  | none => rw [hp1] at hu; simp at hu
  | some p1 =>
    rw [hp1] at hu
    simp only at hu
    cases hp2 : (lineBreaks b).find? (fun p => decide (p > p1)) with
    | none => rw [hp2] at hu; simp at hu
    | some p2 =>
      rw [hp2] at hu
      simp only at hu
      cases hq1 : ((lineBreaks b).filter (fun p => decide (p < en.bstart ∧ p ≥ 1))).getLast? with
      | none => rw [hq1] at hu; simp at hu
      | some q1 =>
        rw [hq1] at hu
        simp only at hu
        cases hq2 : ((lineBreaks b).filter (fun p => decide (p < q1 ∧ p ≥ 1))).getLast? with
        | none => rw [hq2] at hu; simp at hu
        | some q2 =>
          rw [hq2] at hu
          simp only at hu
          have m2 := (mem_lineBreaks b p2).mp (List.mem_of_find?_eq_some hp2)
          have m4 := (mem_lineBreaks b q2).mp (List.mem_filter.mp (List.mem_of_getLast? hq2)).1
          by_cases hv : q2 ≥ p2
          · rw [if_pos hv] at hu
            injection hu with hu
            injection hu with hu1 hu2
            subst hu1; subst hu2
            exact ⟨m2, by simp, by simpa using m4⟩
          · rw [if_neg hv] at hu; simp at hu

mutual
theorem collect_RAll (cfg : Cfg) (s : List Char) : ∀ (parts : List Part),
    (∀ t ∈ flattenParts parts, BPos (bytesOf s) t.bstart ∧ BPos (bytesOf s) t.bstop ∧ 0 < t.bstop) →
    RAll (BPos (bytesOf s)) (collect cfg (bytesOf s) false parts).1
  | [], _ => by simp [collect, RAll]
  | p :: ps, h => by
    have h1 := collectPart_RAll cfg s p (fun t ht => h t (by simp [flattenParts, ht]))
    have h2 := collect_RAll cfg s ps (fun t ht => h t (by simp [flattenParts, ht]))
    simp only [collect]
    exact RAll_append _ _ _ h1 h2
theorem collectPart_RAll (cfg : Cfg) (s : List Char) : ∀ (p : Part),
    (∀ t ∈ flattenPart p, BPos (bytesOf s) t.bstart ∧ BPos (bytesOf s) t.bstop ∧ 0 < t.bstop) →
    RAll (BPos (bytesOf s)) (collectPart cfg (bytesOf s) false p).1
  | .text _, _ => by simp [collectPart, RAll]
  | .element el st en ch, h => by
    have hst := h st (by simp [flattenPart])
    have hen := h en (by simp [flattenPart])
    have hch := collect_RAll cfg s ch (fun t ht => h t (by simp [flattenPart, ht]))
    simp only [collectPart]
    cases her : elementRange cfg (bytesOf s) false el st en with
    | none => exact hch
    | some rpb =>
      obtain ⟨r, p, flag⟩ := rpb
      have hflag := elementRange_false_flag cfg _ el st en r p flag her
      subst hflag
      simp only [RAll, RTreeAll, and_true]
      -- the pair comes from `createRange`
      have hcr : createRange (bytesOf s) el st en = (r, p) := by
        unfold elementRange at her
        cases hs : isSkip el <;> rw [hs] at her
        · cases he : evaluatorFor cfg el.name <;> rw [he] at her
          · simp at her
          · rename_i ev
            cases hv : ev el <;> simp [hv] at her
            cases hcc : createRange (bytesOf s) el st en with
            | mk r' p' =>
              rw [hcc] at her
              simp only at her
              obtain ⟨_, e1, e2⟩ := her
              rw [e1, e2]
        · simp at her
      unfold createRange at hcr
      split at hcr
      · rw [buildUnwrap_eq (bytesOf s) st en hst.2.2 hen.1.2] at hcr
        cases hp : unwrapParts (bytesOf s) st en with
        | none =>
          rw [hp] at hcr
          injection hcr with e1 e2
          subst e1; subst e2
          exact ⟨hst.1, hst.1, trivial, hch⟩
        | some ht =>
          obtain ⟨hh, tt⟩ := ht
          rw [hp] at hcr
          injection hcr with e1 e2
          subst e1; subst e2
          obtain ⟨n1, n2, n3⟩ := unwrapParts_nl _ st en hh tt hp
          obtain ⟨g1, _, _, _, g5⟩ := unwrapParts_geo _ st en hh tt hp
          have b2 : BPos (bytesOf s) hh.2 :=
            ⟨boundary_after_lead s hh.2 _ n1, by have := lt_of_getElem?_some _ _ _ n1; omega⟩
          have b3 : BPos (bytesOf s) tt.1 := by
            have := nl_next_boundary s (tt.1 - 1) n3
            rw [show tt.1 - 1 + 1 = tt.1 by omega] at this
            exact ⟨this.1, by simp; exact this.2⟩
          refine ⟨by rw [g1]; exact hst.1, b2, ⟨b3, by rw [g5]; exact hen.2.1⟩, hch⟩
      · simp only [buildRange] at hcr
        injection hcr with e1 e2
        subst e1; subst e2
        exact ⟨hst.1, hen.2.1, trivial, hch⟩
end

end Chiritori

namespace Chiritori
open Spec

theorem bytesOf_prefix (a1 : List Char) : ∀ (s1 : List Char) (X : Bytes), bytesOf s1 = bytesOf a1 ++ X →
    ∃ s', s1 = a1 ++ s' ∧ X = bytesOf s' := by
  induction a1 with
  | nil => intro s1 X h; exact ⟨s1, rfl, by simpa using h.symm⟩
  | cons c cs ih =>
    intro s1 X h
    cases s1 with
    | nil => simp [charBytes] at h
    | cons d s1' =>
      simp only [bytesOf_cons, List.append_assoc] at h
      have hd : d = c := by
        simp only [charBytes, List.cons_append] at h
        injection h with h1 _
        injection h1
      subst hd
      have := List.append_cancel_left h
      obtain ⟨s', e1, e2⟩ := ih s1' X this
      exact ⟨s', by rw [e1]; rfl, e2⟩

/-- if the first `p` bytes of a well-formed string are themselves well formed, `p` is a boundary -/
theorem boundary_of_wf_prefix (s1 a1 : List Char) (h : (bytesOf s1).take (blen a1) = bytesOf a1) (hl : blen a1 ≤ blen s1) :
    isBoundary (bytesOf s1) (blen a1) = true := by
  have : bytesOf s1 = bytesOf a1 ++ (bytesOf s1).drop (blen a1) := by
    conv => lhs; rw [← List.take_append_drop (blen a1) (bytesOf s1)]
    rw [h]
  obtain ⟨s', e1, _⟩ := bytesOf_prefix a1 s1 _ this
  rw [e1]
  exact isBoundary_blen_prefix a1 s'

/-- a boundary of the text is a boundary of each of its boundary-delimited prefixes -/
theorem take_wf (s : List Char) (p : Nat) (hb : BPos (bytesOf s) p) : ∃ a, (bytesOf s).take p = bytesOf a ∧ blen a = p := by
  obtain ⟨a1, a2, _, hl, ht, _⟩ := split_at_boundary s p (by have := hb.2; simpa using this) hb.1
  exact ⟨a1, ht, hl⟩

/-- deleting sorted, boundary-aligned ranges from a well-formed text always succeeds -/
theorem deleteAll_ok (s : List Char) (rs : List Rng) (lo : Nat) (hs : RSorted rs lo)
    (hb : ∀ r ∈ rs, BPos (bytesOf s) r.1 ∧ BPos (bytesOf s) r.2) : ∃ c, deleteAll (bytesOf s) rs = .ok c := by
  induction rs generalizing lo with
  | nil => exact ⟨_, rfl⟩
  | cons r rs ih =>
    obtain ⟨h1, h2, h3⟩ := hs
    have hL := bytesOf_length s
    obtain ⟨c1, hc1⟩ := ih r.2 h3 (fun x hx => hb x (by simp [hx]))
    obtain ⟨hb1, hb2⟩ := hb r (by simp)
    have heq := deleteAll_eq (bytesOf s) rs r.2 h3 c1 hc1
    obtain ⟨s1, hs1⟩ := deleteAll_wellFormed s rs c1 hc1
    obtain ⟨a1, ha1, hl1⟩ := take_wf s r.2 hb2
    have hr2len : r.2 ≤ (bytesOf s).length := hb2.2
    have htake2 : c1.take r.2 = bytesOf a1 := by
      rw [heq, List.take_append_of_le_length (by simp; omega), List.take_take, Nat.min_self, ha1]
    have hc1len : r.2 ≤ c1.length := by
      rw [heq]; simp; omega
    -- boundaries in c1
    have hB2 : isBoundary c1 r.2 = true := by
      rw [hs1] at htake2 hc1len ⊢
      rw [← hl1] at htake2 ⊢
      exact boundary_of_wf_prefix s1 a1 htake2 (by simpa [hl1] using hc1len)
    have hB1 : isBoundary c1 r.1 = true := by
      obtain ⟨a0, ha0, hl0⟩ := take_wf s r.1 hb1
      have htake1 : c1.take r.1 = bytesOf a0 := by
        rw [heq, List.take_append_of_le_length (by simp; omega), List.take_take, Nat.min_eq_left h2, ha0]
      rw [hs1] at htake1 hc1len ⊢
      rw [← hl0] at htake1 ⊢
      exact boundary_of_wf_prefix s1 a0 htake1 (by simp at hc1len; omega)
    refine ⟨c1.take r.1 ++ c1.drop r.2, ?_⟩
    simp only [deleteAll, hc1, deleteRange, validRange]
    simp [h2, hc1len, hB1, hB2]

/-! ### the positions `get_removed_pos` hands to `format` -/

def positions : List Marker → Nat → List Nat
  | [], _ => []
  | m :: ms, k => (m.start - k) :: positions ms (k + (m.stop - m.start))

theorem removedPosAux_eq (ms : List Marker) (k lo hi : Nat) (hs : MSorted ms lo hi) (hk : k ≤ lo) :
    removedPosAux ms k = .ok ((positions ms k).zip (ms.map (·.pair))) := by
  induction ms generalizing k lo with
  | nil => rfl
  | cons m ms ih =>
    obtain ⟨h1, h2, h3⟩ := hs
    simp only [removedPosAux, subU]
    rw [if_pos (by omega), if_pos (by omega)]
    simp only
    rw [ih (k + (m.stop - m.start)) m.stop h3 (by omega)]
    rfl

theorem positions_shift (ms : List Marker) (k d lo hi : Nat) (hs : MSorted ms lo hi) (h : k + d ≤ lo) :
    positions ms (k + d) = (positions ms k).map (· - d) := by
  induction ms generalizing k lo with
  | nil => rfl
  | cons m ms ih =>
    obtain ⟨h1, h2, h3⟩ := hs
    simp only [positions, List.map_cons]
    rw [show k + d + (m.stop - m.start) = (k + (m.stop - m.start)) + d by omega]
    rw [ih (k + (m.stop - m.start)) m.stop h3 (by omega)]
    congr 1
    omega

theorem positions_ge (ms : List Marker) (k lo hi : Nat) (hs : MSorted ms lo hi) (hk : k ≤ lo) :
    ∀ p ∈ positions ms k, lo - k ≤ p := by
  induction ms generalizing k lo with
  | nil => simp [positions]
  | cons m ms ih =>
    obtain ⟨h1, h2, h3⟩ := hs
    intro p hp
    simp only [positions, List.mem_cons] at hp
    rcases hp with hp | hp
    · omega
    · have := ih (k + (m.stop - m.start)) m.stop h3 (by omega) p hp
      omega

/-- a boundary behind a deleted range stays a boundary, shifted -/
theorem isBoundary_shift (c1 : Bytes) (a z q : Nat) (haz : a ≤ z) (hz : z ≤ c1.length) (hq : z ≤ q)
    (h : isBoundary c1 q = true) : isBoundary (c1.take a ++ c1.drop z) (q - (z - a)) = true := by
  unfold isBoundary at h ⊢
  have hlen : (c1.take a ++ c1.drop z).length = c1.length - (z - a) := by simp; omega
  have hget : (c1.take a ++ c1.drop z)[q - (z - a)]? = c1[q]? := by
    rw [List.getElem?_append_right (by simp; omega)]
    simp only [List.length_take, List.getElem?_drop]
    congr 1
    omega
  rw [hlen, hget]
  have : (q - (z - a) == c1.length - (z - a)) = (q == c1.length) := by
    rw [Bool.eq_iff_iff]; simp
    have := isBoundary_le c1 q (by unfold isBoundary; exact h)
    omega
  rw [this]
  exact h

theorem positions_boundary (s : List Char) (ms : List Marker) (lo hi : Nat) (hs : MSorted ms lo hi)
    (hb : MAll (BPos (bytesOf s)) ms) (c' : Bytes) (hc : removeMarkers (bytesOf s) ms = .ok c') :
    ∀ p ∈ positions ms 0, isBoundary c' p = true := by
  induction ms generalizing lo c' with
  | nil => simp [positions]
  | cons m ms ih =>
    obtain ⟨h1, h2, h3⟩ := hs
    have hL := bytesOf_length s
    obtain ⟨hb1, hb2⟩ := hb m (by simp)
    simp only [removeMarkers, List.map_cons, deleteAll] at hc
    cases hc1 : deleteAll (bytesOf s) (ms.map fun m => (m.start, m.stop)) with
    | error e => rw [hc1] at hc; simp at hc
    | ok c1 =>
      rw [hc1] at hc
      simp only at hc
      have hc' := hc
      unfold deleteRange at hc
      split at hc
      · rename_i hv
        injection hc with hc
        simp only [validRange, Bool.and_eq_true, decide_eq_true_eq] at hv
        obtain ⟨⟨⟨_, hzlen⟩, _⟩, _⟩ := hv
        have ihh := ih m.stop h3 (fun x hx => hb x (by simp [hx])) c1 hc1
        intro p hp
        simp only [positions, List.mem_cons, Nat.sub_zero, Nat.zero_add] at hp
        rcases hp with hp | hp
        · -- the seam of `m` itself: the prefix up to m.start is untouched
          subst hp
          obtain ⟨s'', hs''⟩ := deleteAll_wellFormed s ((m :: ms).map fun m => (m.start, m.stop)) c'
            (by simp only [List.map_cons, deleteAll, hc1]; exact hc')
          obtain ⟨a0, ha0, hl0⟩ := take_wf s m.start hb1
          have hrs : RSorted (ms.map fun m => (m.start, m.stop)) m.stop := by
            have : ∀ (ms : List Marker) (lo hi : Nat), MSorted ms lo hi → RSorted (ms.map fun m => (m.start, m.stop)) lo := by
              intro ms
              induction ms with
              | nil => intro _ _ _; trivial
              | cons m ms ih =>
                intro lo hi hh
                obtain ⟨g1, g2, g3⟩ := hh
                exact ⟨g1, by simp; omega, ih m.stop hi g3⟩
            exact this ms m.stop hi h3
          have heq := deleteAll_eq (bytesOf s) _ m.stop hrs c1 hc1
          have htake : c'.take m.start = bytesOf a0 := by
            rw [← hc, List.take_append_of_le_length (by simp; omega), List.take_take, Nat.min_self]
            rw [heq, List.take_append_of_le_length (by simp; have := hb2.2; omega), List.take_take,
              Nat.min_eq_left (by omega), ha0]
          have hlen : m.start ≤ c'.length := by rw [← hc]; simp; omega
          rw [hs''] at htake hlen ⊢
          rw [← hl0] at htake ⊢
          exact boundary_of_wf_prefix s'' a0 htake (by simpa [hl0] using hlen)
        · rw [show m.stop - m.start = 0 + (m.stop - m.start) by omega,
            positions_shift ms 0 (m.stop - m.start) m.stop hi h3 (by omega)] at hp
          simp only [List.mem_map] at hp
          obtain ⟨q, hq, rfl⟩ := hp
          have hqge := positions_ge ms 0 m.stop hi h3 (Nat.zero_le _) q hq
          rw [← hc]
          exact isBoundary_shift c1 m.start m.stop q (by omega) hzlen (by omega) (ihh q hq)
      · simp at hc

end Chiritori

namespace Chiritori
open Spec

theorem fmtIndent_total (b : Bytes) (pos : Nat) : ∃ r, fmtIndent b pos = .ok r := by
  unfold fmtIndent
  split
  · exact ⟨_, rfl⟩
  · split <;> exact ⟨_, rfl⟩

theorem fmtPrev_total (b : Bytes) (pos : Nat) : ∃ r, fmtPrev b pos = .ok r := by
  unfold fmtPrev
  split <;> exact ⟨_, rfl⟩

theorem fmtNext_total (b : Bytes) (pos : Nat) : ∃ r, fmtNext b pos = .ok r := by
  unfold fmtNext
  split <;> exact ⟨_, rfl⟩

theorem fmtEmpty_total (b : Bytes) (pos : Nat) (hb : isBoundary b pos = true) : ∃ r, fmtEmpty b pos = .ok r := by
  unfold fmtEmpty
  simp only [hb, Bool.not_true, Bool.false_eq_true, ite_false]
  split
  · exact ⟨_, rfl⟩
  · split <;> exact ⟨_, rfl⟩

theorem formatBlock_total (b : Bytes) (pos : Nat) (hb : isBoundary b pos = true) :
    ∃ r, formatBlock b pos seamFormatters (pos, pos) = .ok r := by
  obtain ⟨r1, h1⟩ := fmtIndent_total b pos
  obtain ⟨r2, h2⟩ := fmtEmpty_total b pos hb
  obtain ⟨r3, h3⟩ := fmtPrev_total b pos
  obtain ⟨r4, h4⟩ := fmtNext_total b pos
  unfold seamFormatters
  simp only [formatBlock, h1, h2, h3, h4]
  exact ⟨_, rfl⟩

theorem formatCollect_total (b : Bytes) (all : List (Nat × Option Nat)) (ps : List (Nat × Option Nat))
    (h : ∀ p ∈ ps, isBoundary b p.1 = true ∧ ∀ i, p.2 = some i → i < all.length) :
    ∃ rb, formatCollect b all ps = .ok rb := by
  induction ps with
  | nil => exact ⟨_, rfl⟩
  | cons p ps ih =>
    obtain ⟨pos, pair⟩ := p
    obtain ⟨hb, hp⟩ := h (pos, pair) (by simp)
    obtain ⟨range, hr⟩ := formatBlock_total b pos hb
    obtain ⟨⟨rs, bs⟩, hrest⟩ := ih (fun q hq => h q (by simp [hq]))
    simp only [formatCollect, hr]
    cases pair with
    | none => simp only [hrest]; exact ⟨_, rfl⟩
    | some i =>
      have hi := hp i rfl
      have : all[i]? = some all[i] := List.getElem?_eq_getElem hi
      simp only [this]
      obtain ⟨pairStart, q⟩ := all[i]
      simp only
      by_cases hlt : pos < pairStart
      · rw [if_pos hlt]; simp only [hrest]; exact ⟨_, rfl⟩
      · rw [if_neg hlt]; simp only [hrest]; exact ⟨_, rfl⟩

theorem format_total (s : List Char) (ps : List (Nat × Option Nat))
    (h : ∀ p ∈ ps, isBoundary (bytesOf s) p.1 = true ∧ ∀ i, p.2 = some i → i < ps.length) :
    ∃ out, format (bytesOf s) ps = .ok out := by
  obtain ⟨⟨ranges, blocks⟩, hfc⟩ := formatCollect_total (bytesOf s) ps ps h
  obtain ⟨ok1, ok2⟩ := formatCollect_ok s ps ps ranges blocks hfc
  have hall : ∀ x ∈ mergeRanges ranges (sortByStart blocks), RangeOK s x := by
    intro x hx
    rcases mem_mergeRanges _ _ _ hx with hx | hx
    · exact ok1 x hx
    · exact ok2 x (mem_sortByStart _ _ hx)
  obtain ⟨m1, m2⟩ := mergeOverlapped_spec s _ hall
  have hrs := RSorted_of_OSorted s _ m1 m2 0 (fun _ _ => Nat.zero_le _)
  obtain ⟨c, hc⟩ := deleteAll_ok s _ 0 hrs (fun r hr => by
    have hr' := m1 r hr
    have e1 := hr'.le
    have e2 := hr'.len
    exact ⟨⟨hr'.b1, by simp; omega⟩, ⟨hr'.b2, by simp; omega⟩⟩)
  refine ⟨c, ?_⟩
  simp only [format, hfc, deleteRanges_eq_deleteAll, hc]

/-- the markers of a source: sorted, boundary-aligned, with valid pair indices -/
theorem markers_facts (src ds de : List Char) (cfg : Cfg) (hde : de ≠ []) :
    MSorted (buildRemoveMarker cfg (bytesOf src) (parseSource src ds de)) 0 (blen src) ∧
    MAll (BPos (bytesOf src)) (buildRemoveMarker cfg (bytesOf src) (parseSource src ds de)) ∧
    PV (buildRemoveMarker cfg (bytesOf src) (parseSource src ds de))
      (buildRemoveMarker cfg (bytesOf src) (parseSource src ds de)).length := by
  obtain ⟨hs, _⟩ := buildRemoveMarker_spec src ds de cfg hde
  obtain ⟨hok, _⟩ := tokenize_ok src ds de hde
  have hfl : flattenParts (parseSource src ds de) = tokenize src ds de := parse_flatten ds de _
  have htb := token_boundaries src ds de _ hok
  have hbounds := chain_token_bounds _ 0 0 hok.chain
  have hall : ∀ t ∈ flattenParts (parseSource src ds de),
      BPos (bytesOf src) t.bstart ∧ BPos (bytesOf src) t.bstop ∧ 0 < t.bstop := by
    intro t ht
    rw [hfl] at ht
    exact ⟨(htb t ht).1, (htb t ht).2, by have := hbounds t ht; omega⟩
  refine ⟨hs, ?_, ?_⟩
  · exact mergeMarkers_P _ _ [] (collect_RAll cfg src _ hall) (by simp [MAll])
  · exact mergeMarkers_PV _ [] (by simp [PV])

theorem RSorted_of_MSorted (ms : List Marker) (lo hi : Nat) (h : MSorted ms lo hi) :
    RSorted (ms.map fun m => (m.start, m.stop)) lo := by
  induction ms generalizing lo with
  | nil => trivial
  | cons m ms ih =>
    obtain ⟨g1, g2, g3⟩ := h
    exact ⟨g1, by simp; omega, ih m.stop g3⟩

/-- C01 for `clean`: it returns, and what it returns is a well-formed text -/
theorem clean_total (src ds de : List Char) (cfg : Cfg) (hde : de ≠ []) :
    ∃ out, clean src ds de cfg = .ok out := by
  obtain ⟨hs, hb, hpv⟩ := markers_facts src ds de cfg hde
  generalize hM : buildRemoveMarker cfg (bytesOf src) (parseSource src ds de) = M at hs hb hpv
  obtain ⟨removed, hrm⟩ := deleteAll_ok src (M.map fun m => (m.start, m.stop)) 0 (RSorted_of_MSorted M 0 _ hs)
    (fun r hr => by
      simp only [List.mem_map] at hr
      obtain ⟨m, hm, rfl⟩ := hr
      exact hb m hm)
  have hrm' : removeMarkers (bytesOf src) M = .ok removed := hrm
  obtain ⟨s1, hs1⟩ := deleteAll_wellFormed src _ removed hrm
  have hpos := removedPosAux_eq M 0 0 (blen src) hs (Nat.le_refl _)
  have hbnd := positions_boundary src M 0 (blen src) hs hb removed hrm'
  obtain ⟨out, hout⟩ := format_total s1 ((positions M 0).zip (M.map (·.pair))) (by
    intro p hp
    obtain ⟨pos, pair⟩ := p
    have h1 := List.of_mem_zip hp
    refine ⟨by rw [← hs1]; exact hbnd pos h1.1, ?_⟩
    intro i hi
    simp only at hi
    have : ((positions M 0).zip (M.map (·.pair))).length = M.length := by
      have hl : (positions M 0).length = M.length := by
        have : ∀ (ms : List Marker) (k : Nat), (positions ms k).length = ms.length := by
          intro ms; induction ms with
          | nil => intro k; rfl
          | cons m ms ih => intro k; simp [positions, ih]
        exact this M 0
      simp [hl]
    rw [this]
    obtain ⟨m, hm, hmp⟩ := List.mem_map.mp h1.2
    exact hpv m hm i (by rw [hmp]; exact hi))
  refine ⟨charsOf out, ?_⟩
  unfold clean
  simp only [bind, Except.bind, pure, Except.pure, hM, hrm', getRemovedPos, hpos]
  rw [hs1, hout]

end Chiritori
