import Chiritori.Lemmas.Text
import Chiritori.Model.Tokenizer
/-
  The fold invariant of the tokenizer and what it gives for the final token list.
-/
namespace Chiritori

def flat (ts : List Token) : List Char := ts.flatMap (·.value)

@[simp] theorem flat_nil : flat [] = [] := rfl
@[simp] theorem flat_cons (t : Token) (ts : List Token) : flat (t :: ts) = t.value ++ flat ts := rfl
@[simp] theorem flat_append (a b : List Token) : flat (a ++ b) = flat a ++ flat b := by
  simp [flat, List.flatMap_append]

/-- tokens are non-empty, internally consistent and contiguous, starting at char `s` / byte `bs` -/
def ChainFrom : List Token → Nat → Nat → Prop
  | [], _, _ => True
  | t :: ts, s, bs =>
    t.start = s ∧ t.bstart = bs ∧ t.value ≠ [] ∧ t.stop = s + t.value.length ∧
    t.bstop = bs + blen t.value ∧ ChainFrom ts t.stop t.bstop

theorem chainFrom_append (a b : List Token) (s bs : Nat) :
    ChainFrom (a ++ b) s bs ↔ ChainFrom a s bs ∧ ChainFrom b (s + (flat a).length) (bs + blen (flat a)) := by
  induction a generalizing s bs with
  | nil => simp [ChainFrom]
  | cons t ts ih =>
    simp only [List.cons_append, ChainFrom, ih, flat_cons, List.length_append, blen_append]
    constructor
    · rintro ⟨h1, h2, h3, h4, h5, h6, h7⟩
      refine ⟨⟨h1, h2, h3, h4, h5, h6⟩, ?_⟩
      rw [h4, h5] at h7
      simpa [Nat.add_assoc] using h7
    · rintro ⟨⟨h1, h2, h3, h4, h5, h6⟩, h7⟩
      refine ⟨h1, h2, h3, h4, h5, h6, ?_⟩
      rw [h4, h5]
      simpa [Nat.add_assoc] using h7

/-- a tag token is `ds ++ body ++ de` with at least one body character -/
def DelimOK (ds de v : List Char) : Prop := ∃ body, body ≠ [] ∧ v = ds ++ body ++ de

def StInv (ds de : List Char) : TState → List Char → Prop
  | .text, _ => True
  | .dstart r, pend => pend ≠ [] ∧ pend ++ r = ds
  | .inDelim, pend => ∃ body, body ≠ [] ∧ pend = ds ++ body
  | .dend r, pend => ∃ body m, body ≠ [] ∧ m ≠ [] ∧ m ++ r = de ∧ pend = ds ++ body ++ m

structure TInv (ds de consumed : List Char) (a : TAcc) : Prop where
  chain : ChainFrom a.toks 0 0
  flatEq : flat a.toks ++ a.pend = consumed
  start : a.start = (flat a.toks).length
  bstart : a.bstart = blen (flat a.toks)
  cur : a.cur = consumed.length
  bpos : a.bpos = blen consumed
  kinds : ∀ t ∈ a.toks, t.kind = .element → DelimOK ds de t.value
  st : StInv ds de a.st a.pend
  pend : consumed ≠ [] → a.pend ≠ []

theorem tinv_init (ds de : List Char) : TInv ds de [] TAcc.init := by
  constructor <;> simp [TAcc.init, ChainFrom, StInv]

theorem checkDelimiterStart_inv (ds de : List Char) (c : Char) :
    StInv ds de (checkDelimiterStart c ds) [c] := by
  unfold checkDelimiterStart
  cases ds with
  | nil => simp [StInv]
  | cons d rest =>
    by_cases h : c = d
    · simp [h, StInv]
    · simp [h, StInv]

/-- the state after one character, together with the kind of an emitted token -/
theorem getState_inv (ds de : List Char) (hde : de ≠ []) (st : TState) (pend : List Char) (c : Char)
    (h : StInv ds de st pend) :
    (∀ st', getState c ds de st = (none, st') → StInv ds de st' (pend ++ [c])) ∧
    (∀ k st', getState c ds de st = (some k, st') →
        StInv ds de st' [c] ∧ (k = .element → DelimOK ds de pend)) := by
  cases st with
  | text =>
    have hc := checkDelimiterStart_inv ds de c
    simp only [getState]
    cases hcs : checkDelimiterStart c ds with
    | dstart r =>
      refine ⟨by simp, ?_⟩
      intro k st' he
      simp at he
      obtain ⟨hk, hs⟩ := he
      subst hk; subst hs
      rw [hcs] at hc
      exact ⟨hc, by simp⟩
    | text => exact ⟨by intro st' he; simp at he; subst he; simp [StInv], by simp⟩
    | inDelim => exact ⟨by intro st' he; simp at he; subst he; simp [StInv], by simp⟩
    | dend r => exact ⟨by intro st' he; simp at he; subst he; simp [StInv], by simp⟩
  | dstart r =>
    cases r with
    | nil =>
      simp only [getState]
      refine ⟨?_, by simp⟩
      intro st' he
      simp at he; subst he
      obtain ⟨_, h2⟩ := h
      simp at h2
      exact ⟨[c], by simp, by rw [h2]⟩
    | cons x r =>
      simp only [getState]
      by_cases hx : c = x
      · simp only [hx, ite_true]
        refine ⟨?_, by simp⟩
        intro st' he
        simp at he; subst he
        obtain ⟨_, h2⟩ := h
        exact ⟨by simp, by simp [← h2]⟩
      · simp only [hx, ite_false]
        exact ⟨by intro st' he; simp at he; subst he; simp [StInv], by simp⟩
  | inDelim =>
    obtain ⟨body, hb, hp⟩ := h
    cases de with
    | nil => exact absurd rfl hde
    | cons d r =>
      simp only [getState]
      by_cases hx : c = d
      · simp only [hx, ite_true]
        refine ⟨?_, by simp⟩
        intro st' he
        simp at he; subst he
        exact ⟨body, [d], hb, by simp, by simp, by simp [hp]⟩
      · simp only [hx, ite_false]
        refine ⟨?_, by simp⟩
        intro st' he
        simp at he; subst he
        exact ⟨body ++ [c], by simp, by simp [hp]⟩
  | dend r =>
    obtain ⟨body, m, hb, hm, hmr, hp⟩ := h
    cases r with
    | nil =>
      simp only [getState]
      refine ⟨by simp, ?_⟩
      intro k st' he
      simp at he
      obtain ⟨hk, hs⟩ := he
      subst hk; subst hs
      refine ⟨checkDelimiterStart_inv ds de c, fun _ => ⟨body, hb, ?_⟩⟩
      simp at hmr
      rw [hp, hmr]
    | cons x r =>
      simp only [getState]
      by_cases hx : c = x
      · simp only [hx, ite_true]
        refine ⟨?_, by simp⟩
        intro st' he
        simp at he; subst he
        exact ⟨body, m ++ [x], hb, by simp, by simp [← hmr], by simp [hp]⟩
      · simp only [hx, ite_false]
        refine ⟨?_, by simp⟩
        intro st' he
        simp at he; subst he
        exact ⟨body ++ m ++ [c], by simp, by simp [hp]⟩

theorem tokStep_inv (ds de : List Char) (hde : de ≠ []) (consumed : List Char) (a : TAcc) (c : Char)
    (h : TInv ds de consumed a) : TInv ds de (consumed ++ [c]) (tokStep ds de a c) := by
  have hg := getState_inv ds de hde a.st a.pend c h.st
  have hcs := Char.utf8Size_pos c
  unfold tokStep
  cases hgs : getState c ds de a.st with
  | mk k st' =>
    cases k with
    | none =>
      have hst := hg.1 st' hgs
      constructor <;> simp only
      · exact h.chain
      · rw [← List.append_assoc, h.flatEq]
      · exact h.start
      · exact h.bstart
      · simp [h.cur]
      · simp [h.bpos, blen_append]
      · exact h.kinds
      · exact hst
      · intro _; simp
    | some kind =>
      obtain ⟨hst, hk⟩ := hg.2 kind st' hgs
      have hbl : a.bpos = a.bstart + blen a.pend := by
        rw [h.bpos, h.bstart, ← h.flatEq, blen_append]
      by_cases hp : a.pend = []
      · -- nothing pending: no token is pushed
        have hz : ¬ (a.bpos - a.bstart > 0) := by rw [hbl, hp]; simp
        have hfl : flat a.toks = consumed := by have := h.flatEq; rw [hp] at this; simpa using this
        constructor <;> simp only [hz, ite_false]
        · exact h.chain
        · rw [hfl]
        · rw [h.cur, hfl]
        · rw [h.bpos, hfl]
        · simp [h.cur]
        · simp [h.bpos, blen_append]
        · exact h.kinds
        · exact hst
        · intro _; simp
      · have hpos : a.bpos - a.bstart > 0 := by
          have := blen_pos_of_ne_nil hp; omega
        have hfl : flat (a.toks ++ [⟨kind, a.pend, a.start, a.bstart, a.cur, a.bpos⟩]) = consumed := by
          simp [h.flatEq]
        constructor <;> simp only [hpos, ite_true]
        · rw [chainFrom_append]
          refine ⟨h.chain, ?_⟩
          simp only [ChainFrom, Nat.zero_add, and_true]
          refine ⟨h.start, h.bstart, hp, ?_, ?_⟩
          · rw [h.cur, ← h.flatEq]; simp
          · rw [hbl, h.bstart]
        · rw [hfl]
        · rw [hfl, h.cur]
        · rw [hfl, h.bpos]
        · simp [h.cur]
        · simp [h.bpos, blen_append]
        · intro t ht hke
          rw [List.mem_append] at ht
          cases ht with
          | inl ht => exact h.kinds t ht hke
          | inr ht =>
            simp at ht
            subst ht
            exact hk hke
        · exact hst
        · intro _; simp

theorem foldl_tokStep_inv (ds de : List Char) (hde : de ≠ []) (rest consumed : List Char) (a : TAcc)
    (h : TInv ds de consumed a) : TInv ds de (consumed ++ rest) (rest.foldl (tokStep ds de) a) := by
  induction rest generalizing consumed a with
  | nil => simpa using h
  | cons c cs ih =>
    simp only [List.foldl_cons]
    have := ih (consumed ++ [c]) _ (tokStep_inv ds de hde consumed a c h)
    simpa using this

/-- what is known about a finished token list -/
structure TokensOK (ds de src : List Char) (ts : List Token) : Prop where
  chain : ChainFrom ts 0 0
  flatEq : flat ts = src
  kinds : ∀ t ∈ ts, t.kind = .element → DelimOK ds de t.value

theorem rawTokens_ok (src ds de : List Char) (hde : de ≠ []) : TokensOK ds de src (rawTokens src ds de) := by
  have h := foldl_tokStep_inv ds de hde src [] TAcc.init (tinv_init ds de)
  simp only [List.nil_append] at h
  unfold rawTokens
  generalize src.foldl (tokStep ds de) TAcc.init = a at h
  unfold flushToken
  by_cases hs : src = []
  · subst hs
    simp only [ite_true]
    have hp := h.flatEq
    simp at hp
    exact ⟨h.chain, hp.1, h.kinds⟩
  · have hp := h.pend hs
    have hbl : blen src = a.bstart + blen a.pend := by
      rw [h.bstart, ← blen_append, h.flatEq]
    simp only [hs, ite_false]
    -- both branches push a token with value `a.pend`
    have key : ∀ kind : TKind, (kind = .element → DelimOK ds de a.pend) →
        TokensOK ds de src (a.toks ++ [⟨kind, a.pend, a.start, a.bstart, a.cur, blen src⟩]) := by
      intro kind hk
      refine ⟨?_, by simp [h.flatEq], ?_⟩
      · rw [chainFrom_append]
        refine ⟨h.chain, ?_⟩
        simp only [ChainFrom, Nat.zero_add, and_true]
        refine ⟨h.start, h.bstart, hp, ?_, ?_⟩
        · rw [h.cur, ← h.flatEq]; simp
        · rw [hbl, h.bstart]
      · intro t ht hke
        rw [List.mem_append] at ht
        cases ht with
        | inl ht => exact h.kinds t ht hke
        | inr ht => simp at ht; subst ht; exact hk hke
    have hg := getState_inv ds de hde a.st a.pend ' ' h.st
    cases hgs : getState ' ' ds de a.st with
    | mk k st' =>
      cases k with
      | none => simpa using key .text (by simp)
      | some kind => simpa using key kind (hg.2 kind st' hgs).2

/-! ### the merge pass -/

def NoAdjText : List Token → Prop
  | a :: b :: rest => ¬ (a.kind = .text ∧ b.kind = .text) ∧ NoAdjText (b :: rest)
  | _ => True

theorem noAdjText_append_one (acc : List Token) (t : Token) (h : NoAdjText acc)
    (hl : ∀ l, acc.getLast? = some l → ¬ (l.kind = .text ∧ t.kind = .text)) : NoAdjText (acc ++ [t]) := by
  induction acc with
  | nil => simp [NoAdjText]
  | cons a as ih =>
    cases as with
    | nil =>
      simp only [List.cons_append, List.nil_append, NoAdjText, and_true]
      exact hl a (by simp)
    | cons b bs =>
      simp only [List.cons_append, NoAdjText] at h ⊢
      refine ⟨h.1, ?_⟩
      apply ih h.2
      intro l hlast
      apply hl l
      simpa [List.getLast?_cons_cons] using hlast

theorem noAdjText_dropLast (acc : List Token) (h : NoAdjText acc) : NoAdjText acc.dropLast := by
  induction acc with
  | nil => simp [NoAdjText]
  | cons a as ih =>
    cases as with
    | nil => simp [NoAdjText]
    | cons b bs =>
      cases bs with
      | nil => simp [NoAdjText]
      | cons c cs =>
        simp only [List.dropLast_cons_cons, NoAdjText] at h ⊢
        exact ⟨h.1, by simpa [List.dropLast_cons_cons] using ih h.2⟩

theorem getLast?_eq_some_split {α} (l : List α) (x : α) (h : l.getLast? = some x) : l = l.dropLast ++ [x] := by
  have hne : l ≠ [] := by intro hn; simp [hn] at h
  have := List.dropLast_concat_getLast hne
  rw [List.getLast?_eq_some_getLast hne] at h
  injection h with h
  rw [h] at this
  exact this.symm

structure MInv (ds de : List Char) (consumed : List Token) (acc : List Token) : Prop where
  chain : ChainFrom acc 0 0
  flatEq : flat acc = flat consumed
  kinds : ∀ t ∈ acc, t.kind = .element → DelimOK ds de t.value
  noAdj : NoAdjText acc

theorem mergeStep_inv (ds de : List Char) (consumed acc : List Token) (t : Token)
    (h : MInv ds de consumed acc)
    (ht : ChainFrom [t] (flat consumed).length (blen (flat consumed)))
    (hk : t.kind = .element → DelimOK ds de t.value) :
    MInv ds de (consumed ++ [t]) (mergeStep acc t) := by
  unfold mergeStep
  cases hl : acc.getLast? with
  | none =>
    have hnil : acc = [] := by simpa using hl
    subst hnil
    simp only
    have hc : flat consumed = [] := by simpa using h.flatEq.symm
    refine ⟨?_, by simp [hc], ?_, by simp [NoAdjText]⟩
    · rw [hc] at ht; simpa using ht
    · intro t' ht' hke; simp at ht'; subst ht'; exact hk hke
  | some last =>
    have hsplit := getLast?_eq_some_split acc last hl
    simp only
    by_cases hm : last.kind = .text ∧ t.kind = .text
    · simp only [hm, and_self, ite_true]
      -- merge `t` into `last`
      have hch := h.chain
      rw [hsplit, chainFrom_append] at hch
      obtain ⟨hc1, hc2⟩ := hch
      simp only [ChainFrom, Nat.zero_add, and_true] at hc2 ht
      obtain ⟨l1, l2, l3, l4, l5⟩ := hc2
      obtain ⟨t1, t2, t3, t4, t5⟩ := ht
      have hfl : flat acc = flat acc.dropLast ++ last.value := by
        conv => lhs; rw [hsplit]
        simp
      refine ⟨?_, ?_, ?_, ?_⟩
      · rw [chainFrom_append]
        refine ⟨hc1, ?_⟩
        simp only [ChainFrom, Nat.zero_add, and_true]
        refine ⟨l1, l2, by simp [l3], ?_, ?_⟩
        · rw [t4, ← h.flatEq, hfl]; simp; omega
        · rw [t5, ← h.flatEq, hfl]; simp [blen_append]; omega
      · simp [← h.flatEq, hfl]
      · intro t' ht' hke
        rw [List.mem_append] at ht'
        cases ht' with
        | inl ht' => exact h.kinds t' (List.dropLast_subset _ ht') hke
        | inr ht' =>
          simp at ht'; subst ht'
          simp [hm.1] at hke
      · apply noAdjText_append_one _ _ (noAdjText_dropLast acc h.noAdj)
        intro l hlast hboth
        -- `l` is the element before `last`; `l` and `last` are adjacent in `acc`
        have hna := h.noAdj
        have hsplit2 := getLast?_eq_some_split acc.dropLast l hlast
        rw [hsplit, hsplit2] at hna
        have : ∀ (pre : List Token), NoAdjText (pre ++ [l] ++ [last]) → ¬ (l.kind = .text ∧ last.kind = .text) := by
          intro pre
          induction pre with
          | nil => intro hh; simpa [NoAdjText] using hh
          | cons p ps ihp =>
            intro hh
            cases ps with
            | nil => simp only [List.cons_append, List.nil_append, NoAdjText] at hh; exact hh.2.1
            | cons q qs =>
              simp only [List.cons_append, NoAdjText] at hh
              exact ihp (by simpa using hh.2)
        exact this _ hna ⟨hboth.1, hm.1⟩
    · simp only [hm, ite_false]
      refine ⟨?_, by simp [h.flatEq], ?_, ?_⟩
      · rw [chainFrom_append]
        refine ⟨h.chain, ?_⟩
        rw [h.flatEq]; simpa using ht
      · intro t' ht' hke
        rw [List.mem_append] at ht'
        cases ht' with
        | inl ht' => exact h.kinds t' ht' hke
        | inr ht' => simp at ht'; subst ht'; exact hk hke
      · apply noAdjText_append_one _ _ h.noAdj
        intro l hlast
        rw [hl] at hlast
        injection hlast with hlast
        subst hlast
        exact hm

theorem foldl_mergeStep_inv (ds de : List Char) (rest consumed acc : List Token)
    (h : MInv ds de consumed acc)
    (hc : ChainFrom rest (flat consumed).length (blen (flat consumed)))
    (hk : ∀ t ∈ rest, t.kind = .element → DelimOK ds de t.value) :
    MInv ds de (consumed ++ rest) (rest.foldl mergeStep acc) := by
  induction rest generalizing consumed acc with
  | nil => simpa using h
  | cons t ts ih =>
    simp only [List.foldl_cons]
    have hc' := hc
    simp only [ChainFrom] at hc'
    obtain ⟨c1, c2, c3, c4, c5, c6⟩ := hc'
    have hstep := mergeStep_inv ds de consumed acc t h
      (by simp only [ChainFrom, and_true]; exact ⟨c1, c2, c3, c4, c5⟩)
      (hk t (by simp))
    have := ih (consumed ++ [t]) (mergeStep acc t) hstep
      (by rw [c4, c5] at c6; simpa [blen_append, Nat.add_assoc] using c6)
      (fun t' ht' => hk t' (by simp [ht']))
    simpa using this

theorem tokenize_ok (src ds de : List Char) (hde : de ≠ []) :
    TokensOK ds de src (tokenize src ds de) ∧ NoAdjText (tokenize src ds de) := by
  have hr := rawTokens_ok src ds de hde
  have hm := foldl_mergeStep_inv ds de (rawTokens src ds de) [] []
    ⟨by simp [ChainFrom], rfl, by simp, by simp [NoAdjText]⟩ (by simpa using hr.chain) hr.kinds
  simp only [List.nil_append] at hm
  exact ⟨⟨hm.chain, by show flat (List.foldl mergeStep [] (rawTokens src ds de)) = src; rw [hm.flatEq, hr.flatEq], hm.kinds⟩, hm.noAdj⟩

end Chiritori
