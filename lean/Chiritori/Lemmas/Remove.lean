import Chiritori.Lemmas.Collect
/-
  The markers of a source, and what `remove` leaves.
-/
namespace Chiritori
open Spec

/-- The markers `clean` and `list` work with are sorted, disjoint, inside the source, and cover exactly the
    ready extents of the specification. -/
theorem buildRemoveMarker_spec (src ds de : List Char) (cfg : Cfg) (hde : de ≠ []) :
    MSorted (buildRemoveMarker cfg (bytesOf src) (parseSource src ds de)) 0 (blen src) ∧
    ∀ i, mcov (buildRemoveMarker cfg (bytesOf src) (parseSource src ds de)) i ↔
      inAny (extentsOfSource src ds de cfg) i = true := by
  obtain ⟨hok, _⟩ := tokenize_ok src ds de hde
  have hfl : flattenParts (parseSource src ds de) = tokenize src ds de := parse_flatten ds de _
  have hspan : BSpan (flattenParts (parseSource src ds de)) 0 (blen src) := by
    have := BSpan_of_chain _ 0 0 hok.chain
    rw [hok.flatEq, Nat.zero_add] at this
    rw [hfl]; exact this
  obtain ⟨hg, hc⟩ := collect_spec cfg (bytesOf src) (parseSource src ds de) 0 (blen src) hspan (by simp)
  obtain ⟨hs, hm⟩ := mergeMarkers_spec _ 0 (blen src) [] 0 hg (by simp [MSorted])
  refine ⟨hs, ?_⟩
  intro i
  unfold buildRemoveMarker extentsOfSource
  rw [hm i, hc i, readyExtents_eq]
  simp [mcov]

/-! ### deleting sorted ranges = filtering indices -/

/-- `b` without the bytes whose index (counted from `off`) lies in one of the ranges -/
def minusFrom (b : Bytes) (off : Nat) (rs : List Rng) : Bytes :=
  ((b.zipIdx off).filter fun x => !inAny rs x.2).map (·.1)

theorem minusRanges_eq_minusFrom (b : Bytes) (rs : List Rng) : minusRanges b rs = minusFrom b 0 rs := rfl

theorem minusFrom_append (a c : Bytes) (off : Nat) (rs : List Rng) :
    minusFrom (a ++ c) off rs = minusFrom a off rs ++ minusFrom c (off + a.length) rs := by
  simp [minusFrom, List.zipIdx_append]

theorem minusFrom_keep (a : Bytes) (off : Nat) (rs : List Rng)
    (h : ∀ i, off ≤ i → i < off + a.length → inAny rs i = false) : minusFrom a off rs = a := by
  induction a generalizing off with
  | nil => rfl
  | cons x xs ih =>
    have h0 := h off (Nat.le_refl _) (by simp)
    have := ih (off + 1) (fun i h1 h2 => h i (by omega) (by simp; omega))
    simp only [minusFrom, List.zipIdx_cons, List.filter_cons, h0, Bool.not_false, ite_true, List.map_cons] at this ⊢
    rw [this]

theorem minusFrom_drop (a : Bytes) (off : Nat) (rs : List Rng)
    (h : ∀ i, off ≤ i → i < off + a.length → inAny rs i = true) : minusFrom a off rs = [] := by
  induction a generalizing off with
  | nil => rfl
  | cons x xs ih =>
    have h0 := h off (Nat.le_refl _) (by simp)
    have := ih (off + 1) (fun i h1 h2 => h i (by omega) (by simp; omega))
    simp only [minusFrom, List.zipIdx_cons, List.filter_cons, h0, Bool.not_true, Bool.false_eq_true, ite_false] at this ⊢
    exact this

theorem minusFrom_congr (a : Bytes) (off : Nat) (rs rs' : List Rng)
    (h : ∀ i, off ≤ i → i < off + a.length → inAny rs i = inAny rs' i) : minusFrom a off rs = minusFrom a off rs' := by
  induction a generalizing off with
  | nil => rfl
  | cons x xs ih =>
    have h0 := h off (Nat.le_refl _) (by simp)
    have := ih (off + 1) (fun i h1 h2 => h i (by omega) (by simp; omega))
    simp only [minusFrom, List.zipIdx_cons, List.filter_cons, h0] at this ⊢
    split <;> simp_all

/-- ranges sorted, disjoint, each `s ≤ e`, all at or after `lo` -/
def RSorted : List Rng → Nat → Prop
  | [], _ => True
  | r :: rs, lo => lo ≤ r.1 ∧ r.1 ≤ r.2 ∧ RSorted rs r.2

theorem RSorted_not_in_before (rs : List Rng) (lo i : Nat) (h : RSorted rs lo) (hi : i < lo) : inAny rs i = false := by
  induction rs generalizing lo with
  | nil => rfl
  | cons r rs ih =>
    obtain ⟨h1, h2, h3⟩ := h
    have := ih r.2 h3 (by omega)
    simp only [inAny, List.any_cons, Rng.contains] at this ⊢
    rw [this]
    simp; omega

theorem inAny_cons (r : Rng) (rs : List Rng) (i : Nat) : inAny (r :: rs) i = (r.contains i || inAny rs i) := by
  simp [inAny]

/-- deleting sorted ranges back to front removes exactly the bytes whose index is in one of them -/
theorem deleteAll_eq (content : Bytes) (rs : List Rng) (lo : Nat) (hs : RSorted rs lo) (c' : Bytes)
    (h : deleteAll content rs = .ok c') :
    c' = content.take lo ++ minusFrom (content.drop lo) lo rs := by
  induction rs generalizing lo c' with
  | nil =>
    simp only [deleteAll] at h
    injection h with h
    subst h
    rw [minusFrom_keep _ _ _ (by intro i _ _; rfl)]; simp
  | cons r rs ih =>
    obtain ⟨h1, h2, h3⟩ := hs
    simp only [deleteAll] at h
    cases hc1 : deleteAll content rs with
    | error e => rw [hc1] at h; simp at h
    | ok c1 =>
      rw [hc1] at h
      simp only at h
      have hc1eq := ih r.2 h3 c1 hc1
      unfold deleteRange at h
      split at h
      · rename_i hv
        injection h with h
        simp only [validRange, Bool.and_eq_true, decide_eq_true_eq] at hv
        obtain ⟨⟨⟨_, hlen⟩, _⟩, _⟩ := hv
        -- r.2 ≤ content.length
        have hr2 : r.2 ≤ content.length := by
          by_cases hle : r.2 ≤ content.length
          · exact hle
          · exfalso
            have e1 : content.take r.2 = content := List.take_of_length_le (by omega)
            have e2 : content.drop r.2 = [] := List.drop_of_length_le (by omega)
            rw [e1, e2] at hc1eq
            simp [minusFrom] at hc1eq
            rw [hc1eq] at hlen
            omega
        have hP : (content.take r.2).length = r.2 := by simp [Nat.min_eq_left hr2]
        have ht : c1.take r.1 = content.take r.1 := by
          rw [hc1eq, List.take_append_of_le_length (by omega), List.take_take, Nat.min_eq_left h2]
        have hd : c1.drop r.2 = minusFrom (content.drop r.2) r.2 rs := by
          rw [hc1eq, List.drop_append_of_le_length (by omega), List.drop_of_length_le (by omega)]
          simp
        rw [← h, ht, hd]
        -- the right-hand side, split at r.1 and r.2
        have s1 : content.drop lo = (content.drop lo).take (r.1 - lo) ++ content.drop r.1 := by
          conv => lhs; rw [← List.take_append_drop (r.1 - lo) (content.drop lo)]
          rw [List.drop_drop]
          congr 2; omega
        have s2 : content.drop r.1 = (content.drop r.1).take (r.2 - r.1) ++ content.drop r.2 := by
          conv => lhs; rw [← List.take_append_drop (r.2 - r.1) (content.drop r.1)]
          rw [List.drop_drop]
          congr 2; omega
        have lA : ((content.drop lo).take (r.1 - lo)).length = r.1 - lo := by
          simp only [List.length_take, List.length_drop]; omega
        have lB : ((content.drop r.1).take (r.2 - r.1)).length = r.2 - r.1 := by
          simp only [List.length_take, List.length_drop]; omega
        rw [s1, minusFrom_append, s2, minusFrom_append, lA, lB]
        have e1 : lo + (r.1 - lo) = r.1 := by omega
        have e2 : r.1 + (r.2 - r.1) = r.2 := by omega
        rw [e1, e2]
        have kA : minusFrom ((content.drop lo).take (r.1 - lo)) lo (r :: rs) = (content.drop lo).take (r.1 - lo) := by
          apply minusFrom_keep
          intro i hi1 hi2
          rw [lA] at hi2
          rw [inAny_cons, RSorted_not_in_before rs r.2 i h3 (by omega)]
          simp [Rng.contains]; omega
        have kB : minusFrom ((content.drop r.1).take (r.2 - r.1)) r.1 (r :: rs) = [] := by
          apply minusFrom_drop
          intro i hi1 hi2
          rw [lB] at hi2
          rw [inAny_cons]
          simp [Rng.contains]; left; omega
        have kC : minusFrom (content.drop r.2) r.2 (r :: rs) = minusFrom (content.drop r.2) r.2 rs := by
          apply minusFrom_congr
          intro i hi1 _
          rw [inAny_cons]
          have : r.contains i = false := by simp [Rng.contains]; omega
          rw [this]; simp
        rw [kA, kB, kC]
        have e3 : content.take r.1 = content.take lo ++ (content.drop lo).take (r.1 - lo) := by
          conv => lhs; rw [← e1]
          rw [List.take_add]
        rw [e3]
        simp
      · simp at h

theorem removeMarkers_eq (content : Bytes) (ms : List Marker) (lo hi : Nat) (hs : MSorted ms lo hi) (c' : Bytes)
    (h : removeMarkers content ms = .ok c') :
    c' = minusRanges content (ms.map fun m => (m.start, m.stop)) := by
  have hrs : RSorted (ms.map fun m => (m.start, m.stop)) 0 := by
    have : ∀ (ms : List Marker) (lo hi : Nat), MSorted ms lo hi → RSorted (ms.map fun m => (m.start, m.stop)) lo := by
      intro ms
      induction ms with
      | nil => intro _ _ _; trivial
      | cons m ms ih =>
        intro lo hi hh
        obtain ⟨h1, h2, h3⟩ := hh
        exact ⟨h1, by simp; omega, ih m.stop hi h3⟩
    have h0 := this ms lo hi hs
    cases ms with
    | nil => trivial
    | cons m ms => exact ⟨Nat.zero_le _, h0.2.1, h0.2.2⟩
  have := deleteAll_eq content _ 0 hrs c' h
  simpa [minusRanges_eq_minusFrom] using this

end Chiritori
