import Chiritori.Lemmas.Totality
import Chiritori.Lemmas.CollectAll
import Chiritori.Lemmas.Pending
import Chiritori.Model.Api
/-
  Totality of the two listing functions (C01, clauses 2-5): `build_pretty_string_item` cannot fail on a
  non-empty boundary-aligned region, hence neither can `list` / `list_all`, pretty or JSON.
-/
namespace Chiritori
open Spec

theorem slice_ok (b : Bytes) (a z : Nat) (ha : BPos b a) (hz : BPos b z) (h : a ≤ z) :
    slice b a z = .ok ((b.take z).drop a) := by
  simp [slice, validRange, h, hz.2, ha.1, hz.1]

theorem BPos_zero (s : List Char) : BPos (bytesOf s) 0 := by
  have := isBoundary_blen_prefix [] s
  exact ⟨by simpa [blen] using this, Nat.zero_le _⟩

theorem BPos_len (b : Bytes) : BPos b b.length := ⟨by simp [isBoundary], Nat.le_refl _⟩

theorem length_bytesOf (s : List Char) : (bytesOf s).length = blen s := by
  induction s with
  | nil => rfl
  | cons c cs ih =>
    simp only [bytesOf, blen, List.length_append, charBytes, List.length_cons, List.length_replicate, ih]
    have := Char.utf8Size_pos c
    omega

/-- the line start in front of `pos` -/
theorem lineStart_facts (s : List Char) (pos : Nat) :
    BPos (bytesOf s) (lineStartOf (bytesOf s) pos) ∧ lineStartOf (bytesOf s) pos ≤ pos := by
  unfold lineStartOf
  cases h : findPrevLB (bytesOf s) pos false with
  | none => simp only; exact ⟨BPos_zero s, Nat.zero_le _⟩
  | some v =>
    simp only
    obtain ⟨_, h2, _, h4, _⟩ := findPrevLB_some _ _ _ _ h
    obtain ⟨g1, g2⟩ := nl_next_boundary s v h4
    exact ⟨⟨g1, by rw [length_bytesOf]; exact g2⟩, h2⟩

/-- the line end at or behind `pos` -/
theorem lineEnd_facts (s : List Char) (pos : Nat) (hpos : pos ≤ blen s) :
    BPos (bytesOf s) (lineEndOf (bytesOf s) pos) ∧ pos ≤ lineEndOf (bytesOf s) pos := by
  unfold lineEndOf
  cases h : findNextLB (bytesOf s) pos false with
  | none => simp only; exact ⟨BPos_len _, by rw [length_bytesOf]; exact hpos⟩
  | some v =>
    simp only
    obtain ⟨_, h2, h3, h4, _⟩ := findNextLB_some _ _ _ _ h
    exact ⟨⟨boundary_after_lead s v _ h4, by omega⟩, h2⟩

theorem countTabs_le (b : Bytes) : countTabs b ≤ b.length := by
  unfold countTabs
  exact List.length_filter_le _ _

theorem BPos_min (b : Bytes) (x y : Nat) (hx : BPos b x) (hy : BPos b y) : BPos b (min x y) := by
  by_cases h : x ≤ y
  · rw [Nat.min_eq_left h]; exact hx
  · rw [Nat.min_eq_right (by omega)]; exact hy

theorem colorEnd_facts (s : List Char) (start stop le : Nat) (h2 : BPos (bytesOf s) stop) (c1 : BPos (bytesOf s) le)
    (hlt : start < stop) (c2 : stop - 1 ≤ le) :
    BPos (bytesOf s) (colorEndOf (bytesOf s) start stop le) ∧ start ≤ colorEndOf (bytesOf s) start stop le ∧
      colorEndOf (bytesOf s) start stop le ≤ le := by
  have hce : BPos (bytesOf s) (min stop le) := BPos_min _ _ _ h2 c1
  unfold colorEndOf
  simp only
  split
  · rename_i h
    obtain ⟨_, g2, g3⟩ := h
    have hlt' := lt_of_getElem?_some _ _ _ g3
    exact ⟨⟨boundary_after_lead s _ _ g3, by omega⟩, by omega, by have := Nat.min_le_right stop le; omega⟩
  · have : start ≤ min stop le := by rw [Nat.le_min]; omega
    exact ⟨hce, this, Nat.min_le_right _ _⟩

/-- the geometry `build_pretty_string_item` computes for a non-empty region whose ends are character boundaries:
    never a panic, and these slices and paddings -/
def geomOf (b : Bytes) (start stop : Nat) (lineRange : Option (Nat × Nat)) : ItemGeom :=
  let ls := lineStartOf b start
  let les := lineStartOf b (stop - 1)
  let le := lineEndOf b (stop - 1)
  let ce := colorEndOf b start stop le
  ⟨(b.take start).drop ls, (b.take ce).drop start, (b.take le).drop ce,
   countTabs ((b.take start).drop ls), lnoOf lineRange + (start - ls) - countTabs ((b.take start).drop ls),
   countTabs ((b.take stop).drop les), stop - les - 1 + lnoOf lineRange - countTabs ((b.take stop).drop les)⟩

theorem itemGeom_ok (s : List Char) (start stop : Nat) (lr : Nat × Nat)
    (h1 : BPos (bytesOf s) start) (h2 : BPos (bytesOf s) stop) (hlt : start < stop) :
    itemGeom (bytesOf s) start stop (some lr) = .ok (some (geomOf (bytesOf s) start stop (some lr))) := by
  have hlno : lnoOf (some lr) = 9 := rfl
  have hlenb : (bytesOf s).length = blen s := length_bytesOf s
  have hne : (bytesOf s).isEmpty = false := by
    cases hb : bytesOf s with
    | nil => have := h2.2; rw [hb] at this; simp at this; omega
    | cons _ _ => rfl
  obtain ⟨a1, a2⟩ := lineStart_facts s start
  obtain ⟨b1, b2⟩ := lineStart_facts s (stop - 1)
  obtain ⟨c1, c2⟩ := lineEnd_facts s (stop - 1) (by have := h2.2; rw [hlenb] at this; omega)
  unfold geomOf
  simp only [hlno]
  generalize hls : lineStartOf (bytesOf s) start = ls at a1 a2
  generalize hles : lineStartOf (bytesOf s) (stop - 1) = les at b1 b2
  generalize hle : lineEndOf (bytesOf s) (stop - 1) = le at c1 c2
  obtain ⟨hce, hce1, hce2⟩ := colorEnd_facts s start stop le h2 c1 hlt c2
  generalize hcev : colorEndOf (bytesOf s) start stop le = ce at hce hce1 hce2
  have e1 := slice_ok (bytesOf s) ls start a1 h1 a2
  have e2 := slice_ok (bytesOf s) start ce h1 hce hce1
  have e3 := slice_ok (bytesOf s) ce le hce c1 hce2
  have e4 := slice_ok (bytesOf s) les stop b1 h2 (by omega)
  have t1 : countTabs (((bytesOf s).take start).drop ls) ≤ start - ls := by
    have := countTabs_le (((bytesOf s).take start).drop ls)
    simp only [List.length_drop, List.length_take] at this
    omega
  have t2 : countTabs (((bytesOf s).take stop).drop les) ≤ stop - les := by
    have := countTabs_le (((bytesOf s).take stop).drop les)
    simp only [List.length_drop, List.length_take] at this
    omega
  unfold itemGeom
  simp only [bind, Except.bind, pure, Except.pure, subU, hls, hles, hle, hcev, hlno]
  rw [if_pos (by omega : start ≤ stop)]
  simp only
  rw [if_neg (by simp [hne]; omega)]
  rw [if_pos (by omega : ls ≤ le)]
  simp only [e1, e2, e3, e4]
  rw [if_pos a2]
  simp only
  rw [if_pos (by omega : les ≤ stop)]
  simp only
  rw [if_pos (by omega : 1 ≤ stop - les)]
  simp only
  rw [if_pos (by omega), if_pos (by omega)]

/-- `build_pretty_string_item` returns for every non-empty region whose ends are character boundaries -/
theorem buildItem_total (s : List Char) (start stop : Nat) (isRemoval coloring : Bool) (lr : Nat × Nat)
    (h1 : BPos (bytesOf s) start) (h2 : BPos (bytesOf s) stop) (hlt : start < stop) :
    ∃ r, buildItem (bytesOf s) start stop isRemoval coloring (some lr) = .ok r := by
  unfold buildItem
  rw [itemGeom_ok s start stop lr h1 h2 hlt]
  exact ⟨_, rfl⟩

/-- a region list every listing function can render -/
def Renderable (b : Bytes) (ms : List (Marker × Bool)) : Prop :=
  ∀ x ∈ ms, BPos b x.1.start ∧ BPos b x.1.stop ∧ x.1.start < x.1.stop

theorem getLineRange_ok (lm : List Nat) (start stop : Nat) (h : start < stop) :
    getLineRange lm start stop = .ok (findLine lm start, findLine lm (stop - 1)) := by
  simp only [getLineRange, bind, Except.bind, subU, pure, Except.pure]
  rw [if_pos (by omega)]

theorem prettyItems_total (s : List Char) (lm : List Nat) : ∀ (ms : List (Marker × Bool)) (idx : Nat),
    Renderable (bytesOf s) ms → ∃ r, prettyItems (bytesOf s) lm ms idx = .ok r
  | [], _, _ => ⟨[], rfl⟩
  | (m, f) :: rest, idx, h => by
    obtain ⟨g1, g2, g3⟩ := h (m, f) (by simp)
    obtain ⟨item, hi⟩ := buildItem_total s m.start m.stop f true (findLine lm m.start, findLine lm (m.stop - 1)) g1 g2 g3
    obtain ⟨tail, ht⟩ := prettyItems_total s lm rest (idx + 1) (fun x hx => h x (by simp [hx]))
    simp only [prettyItems, getLineRange_ok lm _ _ g3, hi, ht]
    exact ⟨_, rfl⟩

theorem buildList_total (s : List Char) (lm : List Nat) : ∀ (ms : List (Marker × Bool)),
    Renderable (bytesOf s) ms → ∃ r, buildList (bytesOf s) lm ms = .ok r
  | [], _ => ⟨[], rfl⟩
  | (m, f) :: rest, h => by
    obtain ⟨g1, g2, g3⟩ := h (m, f) (by simp)
    obtain ⟨item, hi⟩ := buildItem_total s m.start m.stop f false (findLine lm m.start, findLine lm (m.stop - 1)) g1 g2 g3
    obtain ⟨tail, ht⟩ := buildList_total s lm rest (fun x hx => h x (by simp [hx]))
    simp only [buildList, getLineRange_ok lm _ _ g3, hi, ht]
    exact ⟨_, rfl⟩

theorem renderList_total (s : List Char) (ms : List (Marker × Bool)) (json : Bool)
    (h : Renderable (bytesOf s) ms) : ∃ r, renderList s ms json = .ok r := by
  unfold renderList
  cases json with
  | true =>
    obtain ⟨items, hi⟩ := buildList_total s (buildLineMap (bytesOf s)) ms h
    simp only [hi, if_true]
    exact ⟨_, rfl⟩
  | false =>
    obtain ⟨r, hr⟩ := prettyItems_total s (buildLineMap (bytesOf s)) ms 1 h
    simp only [buildPrettyString, hr]
    exact ⟨_, rfl⟩

/-! ### the regions handed to the listing functions are renderable -/

theorem MSorted_lt (ms : List Marker) (lo hi : Nat) (h : MSorted ms lo hi) : ∀ m ∈ ms, m.start < m.stop := by
  induction ms generalizing lo with
  | nil => intro m hm; cases hm
  | cons a as ih =>
    intro m hm
    obtain ⟨_, g2, g3⟩ := h
    rcases List.mem_cons.mp hm with rfl | hm
    · exact g2
    · exact ih _ g3 m hm

theorem popPending_mem (range : Rng) : ∀ (pending : List Marker),
    (∀ x ∈ (popPending range pending).1, x.1 ∈ pending) ∧ (∀ p ∈ (popPending range pending).2, p ∈ pending)
  | [] => by simp [popPending]
  | p :: ps => by
    obtain ⟨ih1, ih2⟩ := popPending_mem range ps
    unfold popPending
    split
    · simp
    · dsimp only
      split
      · exact ⟨fun x hx => List.mem_cons_of_mem _ (ih1 x hx), fun q hq => List.mem_cons_of_mem _ (ih2 q hq)⟩
      · refine ⟨?_, fun q hq => List.mem_cons_of_mem _ (ih2 q hq)⟩
        intro x hx
        rcases List.mem_cons.mp hx with rfl | hx
        · simp
        · exact List.mem_cons_of_mem _ (ih1 x hx)

theorem mergePending_mem : ∀ (ready pending : List Marker),
    ∀ x ∈ mergePending ready pending, x.1 ∈ ready ∨ x.1 ∈ pending
  | [], pending => by
    intro x hx
    simp only [mergePending, List.mem_map] at hx
    obtain ⟨p, hp, rfl⟩ := hx
    exact Or.inr hp
  | r :: rs, pending => by
    intro x hx
    obtain ⟨m1, m2⟩ := popPending_mem (r.start, r.stop) pending
    simp only [mergePending] at hx
    rcases List.mem_append.mp hx with hx | hx
    · rcases List.mem_append.mp hx with hx | hx
      · exact Or.inr (m1 x hx)
      · simp only [List.mem_singleton] at hx
        subst hx
        exact Or.inl (by simp)
    · rcases mergePending_mem rs _ x hx with h | h
      · exact Or.inl (List.mem_cons_of_mem _ h)
      · exact Or.inr (m2 _ h)

theorem pending_facts (src ds de : List Char) (cfg : Cfg) (hde : de ≠ []) :
    MSorted (mergeMarkers (collect cfg (bytesOf src) true (parseSource src ds de)).2 []) 0 (blen src) ∧
    MAll (BPos (bytesOf src)) (mergeMarkers (collect cfg (bytesOf src) true (parseSource src ds de)).2 []) := by
  obtain ⟨hok, _⟩ := tokenize_ok src ds de hde
  have hfl : flattenParts (parseSource src ds de) = tokenize src ds de := parse_flatten ds de _
  have htb := token_boundaries src ds de _ hok
  have hbounds := chain_token_bounds _ 0 0 hok.chain
  have hall : ∀ t ∈ flattenParts (parseSource src ds de),
      BPos (bytesOf src) t.bstart ∧ BPos (bytesOf src) t.bstop ∧ 0 < t.bstop := by
    intro t ht
    rw [hfl] at ht
    exact ⟨(htb t ht).1, (htb t ht).2, by have := hbounds t ht; omega⟩
  have hspan : BSpan (flattenParts (parseSource src ds de)) 0 (blen src) := by
    have := BSpan_of_chain _ 0 0 hok.chain
    rw [hok.flatEq, Nat.zero_add] at this
    rw [hfl]; exact this
  have hg := collect_pending_geo cfg (bytesOf src) _ 0 (blen src) hspan (by simp)
  exact ⟨(mergeMarkers_spec _ 0 (blen src) [] 0 hg (by simp [MSorted])).1,
    mergeMarkers_P _ _ [] (collect_pending_RAll cfg src _ hall) (by simp [MAll])⟩

theorem listMarkers_renderable (src ds de : List Char) (cfg : Cfg) (hde : de ≠ []) :
    Renderable (bytesOf src) (listMarkers src ds de cfg) := by
  obtain ⟨hs, hb, _⟩ := markers_facts src ds de cfg hde
  intro x hx
  simp only [listMarkers, List.mem_map] at hx
  obtain ⟨m, hm, rfl⟩ := hx
  exact ⟨(hb m hm).1, (hb m hm).2, MSorted_lt _ _ _ hs m hm⟩

theorem listAllMarkers_renderable (src ds de : List Char) (cfg : Cfg) (hde : de ≠ []) :
    Renderable (bytesOf src) (listAllMarkers src ds de cfg) := by
  obtain ⟨hs, hb, _⟩ := markers_facts src ds de cfg hde
  obtain ⟨ps, pb⟩ := pending_facts src ds de cfg hde
  intro x hx
  have hx' : x ∈ mergePending (buildRemoveMarker cfg (bytesOf src) (parseSource src ds de))
      (mergeMarkers (collect cfg (bytesOf src) true (parseSource src ds de)).2 []) := by
    unfold listAllMarkers buildRemoveMarkerAll at hx
    unfold buildRemoveMarker
    rw [← collect_ready_indep]
    exact hx
  rcases mergePending_mem _ _ x hx' with h | h
  · exact ⟨(hb _ h).1, (hb _ h).2, MSorted_lt _ _ _ hs _ h⟩
  · exact ⟨(pb _ h).1, (pb _ h).2, MSorted_lt _ _ _ ps _ h⟩

theorem list_total (src ds de : List Char) (cfg : Cfg) (json : Bool) (hde : de ≠ []) :
    ∃ r, list src ds de cfg json = .ok r :=
  renderList_total src _ json (listMarkers_renderable src ds de cfg hde)

theorem listAll_total (src ds de : List Char) (cfg : Cfg) (json : Bool) (hde : de ≠ []) :
    ∃ r, listAll src ds de cfg json = .ok r :=
  renderList_total src _ json (listAllMarkers_renderable src ds de cfg hde)

end Chiritori
