import Chiritori.Lemmas.Stretches
/-
  C14 machinery: deletions that are whitespace runs touching a segment boundary never reach into a trimmed core.
-/
namespace Chiritori
open Spec

/-- gaps and cores of a list of segments: leading blanks | core | trailing blanks (with an empty core) -/
def layoutOf : List Bytes → List (Bytes × Bytes)
  | [] => []
  | s :: ss => (trimL s, trimWs s) :: (trimR s, []) :: layoutOf ss

theorem layoutBytes_layoutOf : ∀ (segs : List Bytes), layoutBytes (layoutOf segs) [] = segs.flatten
  | [] => rfl
  | s :: ss => by
    have h := (trimWs_decomp s).1
    simp only [layoutOf, layoutBytes, List.flatten_cons, layoutBytes_layoutOf ss, List.nil_append]
    conv => rhs; rw [h]
    simp [List.append_assoc]

theorem layoutOf_cores : ∀ (segs : List Bytes),
    ((layoutOf segs).map (·.2)).filter (· != []) = (segs.map trimWs).filter (· != [])
  | [] => rfl
  | s :: ss => by
    simp only [layoutOf, List.map_cons, List.filter_cons, layoutOf_cores ss]
    simp

/-- the end offsets of the segments -/
def segEnds : List Bytes → Nat → List Nat
  | [], _ => []
  | s :: ss, off => (off + s.length) :: segEnds ss (off + s.length)

theorem segEnds_ge : ∀ (segs : List Bytes) (off : Nat), ∀ c ∈ segEnds segs off, off ≤ c
  | [], _, c, h => by simp [segEnds] at h
  | s :: ss, off, c, h => by
    simp only [segEnds, List.mem_cons] at h
    rcases h with h | h
    · omega
    · have := segEnds_ge ss (off + s.length) c h; omega

/-- every deleted index lies in a whitespace run of `K` that touches a position at or before `off` or one of `bnds` -/
def Anchored (F : List Rng) (K : Bytes) (bnds : List Nat) (off : Nat) : Prop :=
  ∀ d, inAny F d = true → ∃ a z c, a ≤ d ∧ d < z ∧ a ≤ c ∧ c ≤ z ∧
    (∀ i, a ≤ i → i < z → ∃ x, K[i]? = some x ∧ isWs x = true) ∧ (c ≤ off ∨ c ∈ bnds)

theorem getElem?_mid (pre l core r rest : Bytes) (k : Nat) (hk : k < core.length) :
    (pre ++ ((l ++ (core ++ r)) ++ rest))[pre.length + l.length + k]? = core[k]? := by
  rw [List.getElem?_append_right (by omega)]
  rw [show pre.length + l.length + k - pre.length = l.length + k by omega]
  rw [List.append_assoc, List.getElem?_append_right (by omega)]
  rw [show l.length + k - l.length = k by omega]
  rw [List.append_assoc, List.getElem?_append_left hk]

theorem coresKept_of_anchored (F : List Rng) (K : Bytes) : ∀ (segs : List Bytes) (off : Nat) (pre : Bytes),
    K = pre ++ segs.flatten → pre.length = off → Anchored F K (segEnds segs off) off →
    CoresKept F (layoutOf segs) off
  | [], _, _, _, _, _ => trivial
  | s :: ss, off, pre, hK, hpre, ha => by
    obtain ⟨hs, hl, hr, hhead, hlast⟩ := trimWs_decomp s
    have hlen : s.length = (trimL s).length + (trimWs s).length + (trimR s).length := by
      conv => lhs; rw [hs]
      simp [Nat.add_assoc]
    have hK' : K = pre ++ ((trimL s ++ (trimWs s ++ trimR s)) ++ ss.flatten) := by
      rw [hK, List.flatten_cons, ← hs]
    simp only [layoutOf, CoresKept, List.length_nil, Nat.add_zero]
    refine ⟨?_, ?_, ?_⟩
    · -- the core of this segment
      intro i hi1 hi2
      cases hF : inAny F i with
      | false => rfl
      | true =>
        exfalso
        obtain ⟨a, z, c, h1, h2, h3, h4, hws, hc⟩ := ha i hF
        have hne : 0 < (trimWs s).length := by omega
        have hcle : c ≤ off ∨ off + s.length ≤ c := by
          rcases hc with hc | hc
          · exact Or.inl hc
          · right
            simp only [segEnds, List.mem_cons] at hc
            rcases hc with hc | hc
            · omega
            · have := segEnds_ge ss (off + s.length) c hc; omega
        rcases hcle with hcle | hcle
        · -- the run covers the first byte of the core
          obtain ⟨x, hx, hxw⟩ := hws (off + (trimL s).length) (by omega) (by omega)
          have := getElem?_mid pre (trimL s) (trimWs s) (trimR s) ss.flatten 0 hne
          rw [← hK', hpre, Nat.add_zero, hx] at this
          have hh : (trimWs s).head? = some x := by
            rw [List.head?_eq_getElem?]; exact this.symm
          rw [hhead x hh] at hxw
          exact absurd hxw (by simp)
        · -- the run covers the last byte of the core
          obtain ⟨x, hx, hxw⟩ := hws (off + (trimL s).length + ((trimWs s).length - 1)) (by omega) (by omega)
          have := getElem?_mid pre (trimL s) (trimWs s) (trimR s) ss.flatten ((trimWs s).length - 1) (by omega)
          rw [← hK', hpre, hx] at this
          have hh : (trimWs s).getLast? = some x := by
            rw [List.getLast?_eq_getElem?]; exact this.symm
          rw [hlast x hh] at hxw
          exact absurd hxw (by simp)
    · intro i h1 h2; omega
    · have ih := coresKept_of_anchored F K ss (off + s.length) (pre ++ s) (by rw [hK]; simp) (by simp [hpre]) (by
        intro d hd
        obtain ⟨a, z, c, h1, h2, h3, h4, hws, hc⟩ := ha d hd
        refine ⟨a, z, c, h1, h2, h3, h4, hws, ?_⟩
        rcases hc with hc | hc
        · exact Or.inl (by omega)
        · simp only [segEnds, List.mem_cons] at hc
          rcases hc with hc | hc
          · exact Or.inl (by omega)
          · exact Or.inr hc)
      rw [hlen] at ih
      simpa [Nat.add_assoc] using ih

/-- the patterns of C14 survive: the trimmed non-empty segments occur in order in the text without `F` -/
theorem occur_of_anchored (F : List Rng) (segs : List Bytes)
    (ha : Anchored F segs.flatten (segEnds segs 0) 0) :
    occurInOrder ((segs.map trimWs).filter (· != [])) (minusFrom segs.flatten 0 F) = true := by
  have hck := coresKept_of_anchored F segs.flatten segs 0 [] (by simp) rfl ha
  have he := embeds_minusFrom F (layoutOf segs) [] 0 hck
  rw [layoutBytes_layoutOf] at he
  have hf := Embeds.filter_nonempty _ _ he
  rw [layoutOf_cores] at hf
  exact occurInOrder_of_embeds _ _ hf

end Chiritori
