import Chiritori.Lemmas.ScanRun
/-
  Flush, merge pass and the textbook scan on well-delimited pieces; the two C08 theorems.
-/
namespace Chiritori
open Spec

/-! ### the merge pass is the identity on alternating output -/

def NoAdjS : SOut → Prop
  | a :: b :: rest => ¬ (a.1 = .text ∧ b.1 = .text) ∧ NoAdjS (b :: rest)
  | _ => True

theorem NoAdjS_cons_element (tag : List Char) (l : SOut) (h : NoAdjS l) : NoAdjS ((TKind.element, tag) :: l) := by
  cases l with
  | nil => trivial
  | cons b rest => exact ⟨by simp, h⟩

theorem tnorm_noAdj (ds de t : List Char) (ps : List Piece) : ∀ acc, NoAdjS (tnorm ds de t ps acc) := by
  induction ps with
  | nil => intro acc; by_cases h : acc ++ t = [] <;> simp [tnorm, h, NoAdjS]
  | cons p ps ih =>
    intro acc
    cases p with
    | text s => exact ih (acc ++ s)
    | tag b0 rest =>
      simp only [tnorm]
      have h1 := NoAdjS_cons_element (ds ++ (b0 :: (rest ++ de))) _ (ih [])
      by_cases ha : acc = []
      · simpa [ha] using h1
      · simp only [ha, ne_eq, not_false_eq_true, ite_true, List.singleton_append, List.cons_append, List.nil_append]
        exact ⟨by simp, h1⟩

theorem sMerge_id (l : SOut) (h : NoAdjS l) : ∀ (acc : SOut), NoAdjS (acc ++ l) → l.foldl sMergeStep acc = acc ++ l := by
  induction l with
  | nil => intro acc _; simp
  | cons x xs ih =>
    intro acc hacc
    simp only [List.foldl_cons]
    have hstep : sMergeStep acc x = acc ++ [x] := by
      unfold sMergeStep
      cases hl : acc.getLast? with
      | none => rfl
      | some last =>
        simp only
        have hne : ¬ (last.1 = .text ∧ x.1 = .text) := by
          -- `last` and `x` are adjacent in `acc ++ x :: xs`
          obtain ⟨ini, hini⟩ := List.getLast?_eq_some_iff.mp hl
          rw [hini] at hacc
          have : ∀ (pre : SOut), NoAdjS (pre ++ [last] ++ x :: xs) → ¬ (last.1 = .text ∧ x.1 = .text) := by
            intro pre
            induction pre with
            | nil => intro hh; simp only [List.nil_append, List.singleton_append, NoAdjS] at hh; exact hh.1
            | cons q qs ihq =>
              intro hh
              cases qs with
              | nil => simp only [List.cons_append, List.nil_append, NoAdjS] at hh; exact hh.2.1
              | cons r rs => simp only [List.cons_append, NoAdjS] at hh; exact ihq (by simpa using hh.2)
          exact this ini hacc
        rw [if_neg hne]
    rw [hstep]
    have hxs : NoAdjS xs := by
      cases xs with
      | nil => trivial
      | cons y ys => exact h.2
    rw [ih hxs (acc ++ [x]) (by simpa using hacc)]
    simp

/-! ### the textbook scan on pieces -/

theorem findSub_skip (p0 : Char) (pr : List Char) (acc X : List Char) (h : ∀ c ∈ acc, c ≠ p0) :
    findSub (p0 :: pr) (acc ++ ((p0 :: pr) ++ X)) = some acc.length := by
  induction acc with
  | nil =>
    simp only [List.nil_append, List.cons_append, findSub, List.length_nil]
    have : (p0 :: pr).isPrefixOf (p0 :: (pr ++ X)) = true := by
      rw [List.isPrefixOf_iff_prefix]
      exact ⟨X, by simp⟩
    rw [if_pos this]
  | cons a as ih =>
    have ha : a ≠ p0 := h a (by simp)
    simp only [List.cons_append, findSub]
    have : ∀ Y, (p0 :: pr).isPrefixOf (a :: Y) = false := by
      intro Y; simp [List.isPrefixOf, ha.symm]
    simp only [this, Bool.false_eq_true, ite_false]
    have ih' := ih (fun c hc => h c (by simp [hc]))
    simp only [List.cons_append] at ih'
    rw [ih']
    simp

theorem findSub_none (p0 : Char) (pr : List Char) (s : List Char) (h : ∀ c ∈ s, c ≠ p0) :
    findSub (p0 :: pr) s = none := by
  induction s with
  | nil => simp [findSub]
  | cons a as ih =>
    have ha : a ≠ p0 := h a (by simp)
    have : (p0 :: pr).isPrefixOf (a :: as) = false := by simp [List.isPrefixOf, ha.symm]
    simp only [findSub, this, Bool.false_eq_true, ite_false]
    rw [ih (fun c hc => h c (by simp [hc]))]
    rfl

/-- the textbook scan of a trailing stretch `t` in which no further tag is found -/
def TailText (ds de t : List Char) (d0 : Char) : Prop :=
  ∀ (acc : List Char) (fuel : Nat), (∀ c ∈ acc, c ≠ d0) →
    textbookAux ds de fuel (acc ++ t) [] = (if acc ++ t ≠ [] then [(TKind.text, acc ++ t)] else [])

theorem tailText_nil (d0 : Char) (dr de : List Char) : TailText (d0 :: dr) de [] d0 := by
  intro acc fuel hacc
  simp only [List.append_nil]
  cases fuel with
  | zero => by_cases h : acc = [] <;> simp [textbookAux, h]
  | succ f =>
    simp only [textbookAux, findSub_none d0 dr acc hacc, List.nil_append]
    by_cases h : acc = [] <;> simp [h]

theorem textbook_pieces (d0 : Char) (dr : List Char) (e0 : Char) (er : List Char) (t : List Char)
    (ht : TailText (d0 :: dr) (e0 :: er) t d0) (ps : List Piece) :
    ∀ (acc : List Char) (fuel : Nat), (∀ c ∈ acc, c ≠ d0) → (∀ p ∈ ps, p.ok d0 e0) →
      (acc ++ (renderAll (d0 :: dr) (e0 :: er) ps ++ t)).length ≤ fuel →
      textbookAux (d0 :: dr) (e0 :: er) fuel (acc ++ (renderAll (d0 :: dr) (e0 :: er) ps ++ t)) []
        = tnorm (d0 :: dr) (e0 :: er) t ps acc := by
  induction ps with
  | nil =>
    intro acc fuel hacc _ _
    simp only [renderAll, List.nil_append, tnorm]
    exact ht acc fuel hacc
  | cons p ps ih =>
    intro acc fuel hacc hok hlen
    have hp := hok p (by simp)
    have hps : ∀ q ∈ ps, q.ok d0 e0 := fun q hq => hok q (by simp [hq])
    cases p with
    | text s =>
      simp only [renderAll, Piece.render, tnorm, List.append_assoc]
      rw [← List.append_assoc]
      apply ih (acc ++ s) fuel
      · intro c hc
        rcases List.mem_append.mp hc with h | h
        · exact hacc c h
        · exact hp c h
      · exact hps
      · simpa [renderAll, Piece.render, List.append_assoc] using hlen
    | tag b0 rest =>
      simp only [renderAll, Piece.render, tnorm]
      cases fuel with
      | zero => simp [renderAll, Piece.render] at hlen
      | succ f =>
        have hfuel : ([] ++ (renderAll (d0 :: dr) (e0 :: er) ps ++ t)).length ≤ f := by
          simp only [List.nil_append]
          simp [renderAll, Piece.render] at hlen ⊢
          omega
        have hrec := ih [] f (by simp) hps hfuel
        simp only [List.nil_append] at hrec
        have e1 : acc ++ ((d0 :: dr) ++ (b0 :: (rest ++ (e0 :: er))) ++ renderAll (d0 :: dr) (e0 :: er) ps ++ t)
            = acc ++ ((d0 :: dr) ++ (b0 :: (rest ++ ((e0 :: er) ++ (renderAll (d0 :: dr) (e0 :: er) ps ++ t))))) := by
          simp
        rw [e1]
        generalize renderAll (d0 :: dr) (e0 :: er) ps ++ t = R at hrec ⊢
        simp only [textbookAux]
        rw [findSub_skip d0 dr acc _ hacc]
        simp only
        have hdrop : (acc ++ ((d0 :: dr) ++ (b0 :: (rest ++ ((e0 :: er) ++ R))))).drop (acc.length + (d0 :: dr).length)
            = b0 :: (rest ++ ((e0 :: er) ++ R)) := by
          rw [← List.append_assoc, List.drop_append_of_le_length (by simp)]
          simp
        rw [hdrop]
        simp only
        rw [findSub_skip e0 er rest R hp]
        simp only
        have htake : (acc ++ ((d0 :: dr) ++ (b0 :: (rest ++ ((e0 :: er) ++ R))))).take acc.length = acc := by simp
        have hel : ((acc ++ ((d0 :: dr) ++ (b0 :: (rest ++ ((e0 :: er) ++ R))))).drop acc.length).take
            ((d0 :: dr).length + 1 + rest.length + (e0 :: er).length) = (d0 :: dr) ++ (b0 :: (rest ++ (e0 :: er))) := by
          rw [List.drop_append_of_le_length (by simp), List.drop_length, List.nil_append]
          have : (d0 :: dr) ++ (b0 :: (rest ++ ((e0 :: er) ++ R))) = ((d0 :: dr) ++ (b0 :: (rest ++ (e0 :: er)))) ++ R := by simp
          rw [this, List.take_append_of_le_length (by simp; omega)]
          apply List.take_of_length_le
          simp; omega
        have hrest : (acc ++ ((d0 :: dr) ++ (b0 :: (rest ++ ((e0 :: er) ++ R))))).drop
            (acc.length + ((d0 :: dr).length + 1 + rest.length + (e0 :: er).length)) = R := by
          have : acc ++ ((d0 :: dr) ++ (b0 :: (rest ++ ((e0 :: er) ++ R))))
              = (acc ++ ((d0 :: dr) ++ (b0 :: (rest ++ (e0 :: er))))) ++ R := by simp
          rw [this, List.drop_append_of_le_length (by simp; omega)]
          rw [List.drop_of_length_le (by simp; omega)]
          simp
        rw [htake, hel, hrest, hrec]
        by_cases ha : acc = [] <;> simp [ha]

end Chiritori
