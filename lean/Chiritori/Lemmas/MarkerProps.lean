import Chiritori.Lemmas.MergeMarkers
/-
  More about `merge_markers`: every endpoint of an output marker is an endpoint of some node of the tree
  (so predicates such as "is a character boundary" carry over), and pair indices stay inside the list.
-/
namespace Chiritori

mutual
/-- every endpoint of every node satisfies `P` -/
def RAll (P : Nat → Prop) : List RTree → Prop
  | [] => True
  | t :: ts => RTreeAll P t ∧ RAll P ts
def RTreeAll (P : Nat → Prop) : RTree → Prop
  | .node r pair ch =>
    P r.1 ∧ P r.2 ∧ (match pair with | some t => P t.1 ∧ P t.2 | none => True) ∧ RAll P ch
end

theorem RAll_append (P : Nat → Prop) : ∀ (a b : List RTree), RAll P a → RAll P b → RAll P (a ++ b)
  | [], b, _, hb => hb
  | t :: ts, b, ha, hb => by
    simp only [List.cons_append, RAll] at ha ⊢
    exact ⟨ha.1, RAll_append P ts b ha.2 hb⟩

def MAll (P : Nat → Prop) (ms : List Marker) : Prop := ∀ m ∈ ms, P m.start ∧ P m.stop

theorem mergeChildMarkers_P (P : Nat → Prop) (cm : List Marker) : ∀ (m : Rng), MAll P cm → P m.1 → P m.2 →
    P (mergeChildMarkers cm m).2.1 ∧ P (mergeChildMarkers cm m).2.2 := by
  induction cm with
  | nil => intro m _ h1 h2; exact ⟨h1, h2⟩
  | cons c cs ih =>
    intro m hc h1 h2
    simp only [mergeChildMarkers]
    split
    · have hcc := hc c (by simp)
      have := ih (min m.1 c.start, max m.2 c.stop) (fun x hx => hc x (by simp [hx]))
        (by by_cases h : m.1 ≤ c.start
            · simp only [Nat.min_eq_left h]; exact h1
            · simp only [Nat.min_eq_right (by omega : c.start ≤ m.1)]; exact hcc.1)
        (by by_cases h : m.2 ≤ c.stop
            · simp only [Nat.max_eq_right h]; exact hcc.2
            · simp only [Nat.max_eq_left (by omega : c.stop ≤ m.2)]; exact h2)
      exact this
    · exact ⟨h1, h2⟩

theorem MAll_append (P : Nat → Prop) (a b : List Marker) : MAll P (a ++ b) ↔ MAll P a ∧ MAll P b := by
  simp only [MAll, List.mem_append]
  constructor
  · intro h; exact ⟨fun m hm => h m (Or.inl hm), fun m hm => h m (Or.inr hm)⟩
  · rintro ⟨h1, h2⟩ m (hm | hm)
    · exact h1 m hm
    · exact h2 m hm

theorem MAll_sub (P : Nat → Prop) (a b : List Marker) (h : MAll P b) (hs : ∀ m ∈ a, m ∈ b) : MAll P a :=
  fun m hm => h m (hs m hm)

mutual
theorem mergeMarkers_P (P : Nat → Prop) : ∀ (ts : List RTree) (acc : List Marker),
    RAll P ts → MAll P acc → MAll P (mergeMarkers ts acc)
  | [], acc, _, ha => by simpa [mergeMarkers] using ha
  | t :: ts, acc, hr, ha => by
    simp only [RAll] at hr
    simp only [mergeMarkers]
    exact mergeMarkers_P P ts _ hr.2 (mergeTree_P P t acc hr.1 ha)
theorem mergeTree_P (P : Nat → Prop) : ∀ (t : RTree) (acc : List Marker),
    RTreeAll P t → MAll P acc → MAll P (mergeTree t acc)
  | .node r pair ch, acc, hr, ha => by
    simp only [RTreeAll] at hr
    obtain ⟨p1, p2, pp, pch⟩ := hr
    have hcm : MAll P (mergeMarkers ch []) := mergeMarkers_P P ch [] pch (by simp [MAll])
    have hhead := mergeChildMarkers_P P (mergeMarkers ch []) r hcm p1 p2
    cases pair with
    | none =>
      simp only [mergeTree]
      rw [MAll_append]
      refine ⟨ha, ?_⟩
      intro m hm
      simp only [List.mem_singleton] at hm
      subst hm
      exact hhead
    | some t =>
      simp only at pp
      have hdrop : MAll P ((mergeMarkers ch []).drop (mergeChildMarkers (mergeMarkers ch []) r).1).reverse :=
        MAll_sub P _ _ hcm (fun m hm => List.mem_of_mem_drop (List.mem_reverse.mp hm))
      have htail := mergeChildMarkers_P P _ t hdrop pp.1 pp.2
      simp only [mergeTree]
      split
      · rw [MAll_append]
        refine ⟨ha, ?_⟩
        intro m hm
        simp only [List.mem_singleton] at hm
        subst hm
        exact ⟨hhead.1, htail.2⟩
      · rw [MAll_append, MAll_append, MAll_append]
        refine ⟨⟨⟨ha, ?_⟩, ?_⟩, ?_⟩
        · intro m hm
          simp only [List.mem_singleton] at hm
          subst hm
          exact hhead
        · intro m hm
          simp only [List.mem_map] at hm
          obtain ⟨m', hm', rfl⟩ := hm
          exact hcm m' (List.mem_of_mem_drop (List.mem_of_mem_take hm'))
        · intro m hm
          simp only [List.mem_singleton] at hm
          subst hm
          exact htail
end

/-! ### pair indices -/

/-- every pair index points inside a list of length `n` -/
def PV (ms : List Marker) (n : Nat) : Prop := ∀ m ∈ ms, ∀ i, m.pair = some i → i < n

theorem PV_mono (ms : List Marker) (n n' : Nat) (h : PV ms n) (hn : n ≤ n') : PV ms n' :=
  fun m hm i hi => Nat.lt_of_lt_of_le (h m hm i hi) hn

theorem PV_append (a b : List Marker) (n : Nat) : PV (a ++ b) n ↔ PV a n ∧ PV b n := by
  simp only [PV, List.mem_append]
  constructor
  · intro h; exact ⟨fun m hm => h m (Or.inl hm), fun m hm => h m (Or.inr hm)⟩
  · rintro ⟨h1, h2⟩ m (hm | hm)
    · exact h1 m hm
    · exact h2 m hm

mutual
theorem mergeMarkers_len : ∀ (ts : List RTree) (acc : List Marker), acc.length ≤ (mergeMarkers ts acc).length
  | [], acc => by simp [mergeMarkers]
  | t :: ts, acc => by
    simp only [mergeMarkers]
    exact Nat.le_trans (mergeTree_len t acc) (mergeMarkers_len ts _)
theorem mergeTree_len : ∀ (t : RTree) (acc : List Marker), acc.length ≤ (mergeTree t acc).length
  | .node r pair ch, acc => by
    cases pair with
    | none => simp [mergeTree]
    | some t =>
      simp only [mergeTree]
      split <;> simp <;> omega
end

mutual
theorem mergeMarkers_PV : ∀ (ts : List RTree) (acc : List Marker), PV acc acc.length →
    PV (mergeMarkers ts acc) (mergeMarkers ts acc).length
  | [], acc, ha => by simpa [mergeMarkers] using ha
  | t :: ts, acc, ha => by
    simp only [mergeMarkers]
    exact mergeMarkers_PV ts _ (mergeTree_PV t acc ha)
theorem mergeTree_PV : ∀ (t : RTree) (acc : List Marker), PV acc acc.length →
    PV (mergeTree t acc) (mergeTree t acc).length
  | .node r pair ch, acc, ha => by
    cases pair with
    | none =>
      simp only [mergeTree]
      rw [PV_append]
      refine ⟨PV_mono _ _ _ ha (by simp), ?_⟩
      intro m hm i hi
      simp only [List.mem_singleton] at hm
      subst hm
      simp at hi
    | some t =>
      simp only [mergeTree]
      split
      · rw [PV_append]
        refine ⟨PV_mono _ _ _ ha (by simp), ?_⟩
        intro m hm i hi
        simp only [List.mem_singleton] at hm
        subst hm
        simp at hi
      · -- abbreviations
        generalize hk : (mergeChildMarkers (mergeMarkers ch []) r).1 = k
        generalize hmk : (mergeChildMarkers (mergeMarkers ch []) r).2 = mk
        generalize hn : (mergeChildMarkers ((mergeMarkers ch []).drop k).reverse t).1 = n
        generalize hen : (mergeChildMarkers ((mergeMarkers ch []).drop k).reverse t).2 = en
        have hmidlen : (((mergeMarkers ch []).drop k).take ((mergeMarkers ch []).length - n - k)).length
            = (mergeMarkers ch []).length - n - k := by simp; omega
        simp only [List.length_append, List.length_map, List.length_cons, List.length_nil]
        rw [PV_append, PV_append, PV_append]
        refine ⟨⟨⟨PV_mono _ _ _ ha (by omega), ?_⟩, ?_⟩, ?_⟩
        · intro m hm i hi
          simp only [List.mem_singleton] at hm
          subst hm
          simp only [Option.some.injEq] at hi
          subst hi
          omega
        · intro m hm i hi
          simp only [List.mem_map] at hm
          obtain ⟨m', _, rfl⟩ := hm
          simp only [rebase] at hi
          cases hp : m'.pair with
          | none => rw [hp] at hi; simp at hi
          | some q =>
            rw [hp] at hi
            simp only [Option.filter] at hi
            split at hi
            · rename_i hq
              simp only [Option.map_some, Option.some.injEq] at hi
              simp only [Bool.and_eq_true, decide_eq_true_eq] at hq
              omega
            · simp at hi
        · intro m hm i hi
          simp only [List.mem_singleton] at hm
          subst hm
          simp only [Option.some.injEq] at hi
          subst hi
          omega
end

end Chiritori
