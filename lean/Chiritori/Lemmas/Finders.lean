import Chiritori.Lemmas.Text
import Chiritori.Model.Finders
/-
  What the byte-wise finder loops return.
-/
namespace Chiritori

def isNL (x : ABy) : Prop := x = .lead '\n'
instance : DecidablePred isNL := fun x => inferInstanceAs (Decidable (x = .lead '\n'))

/-- a byte the finders step over when `pause_on_char` is on: blank or continuation byte -/
def isSkipByte (x : ABy) : Prop := x = .cont ∨ x = .lead ' ' ∨ x = .lead '\t'

theorem lbCheck_found (x : ABy) : lbCheck (some x) = .found ↔ x = .lead '\n' := by
  cases x with
  | cont => simp [lbCheck]
  | lead c =>
    simp only [lbCheck]
    by_cases h1 : c = ' ' ∨ c = '\t'
    · simp [h1]; rcases h1 with h | h <;> simp [h]
    · simp only [h1, ite_false]
      by_cases h2 : c = '\n' <;> simp [h2]

theorem lbCheck_skip (x : ABy) : lbCheck (some x) = .skip ↔ isSkipByte x := by
  cases x with
  | cont => simp [lbCheck, isSkipByte]
  | lead c =>
    simp only [lbCheck, isSkipByte]
    by_cases h1 : c = ' ' ∨ c = '\t'
    · simp [h1]
    · simp only [h1, ite_false]
      by_cases h2 : c = '\n' <;> simp [h2] <;> simpa using h1

/-! ### forward scan -/

/-- `nextScan` returns the offset of the first line break such that, when pausing, everything before
    it is skippable. -/
theorem nextScan_some (pause : Bool) (bs : Bytes) (cursor p : Nat) (h : nextScan pause bs cursor = some p) :
    cursor ≤ p ∧ p - cursor < bs.length ∧ bs[p - cursor]? = some (.lead '\n') ∧
    (∀ i, i < p - cursor → bs[i]? ≠ some (.lead '\n')) ∧
    (pause = true → ∀ i, i < p - cursor → ∃ x, bs[i]? = some x ∧ isSkipByte x) := by
  induction bs generalizing cursor with
  | nil => simp [nextScan] at h
  | cons x rest ih =>
    simp only [nextScan] at h
    cases hc : lbCheck (some x) with
    | found =>
      rw [hc] at h
      simp at h; subst h
      have := (lbCheck_found x).mp hc
      simp [this]
    | skip =>
      rw [hc] at h
      simp only at h
      obtain ⟨h1, h2, h3, h4, h5⟩ := ih (cursor + 1) h
      have hx : x ≠ .lead '\n' := by
        intro hx; rw [(lbCheck_found x).mpr hx] at hc; simp at hc
      have hsub : p - cursor = (p - (cursor + 1)) + 1 := by omega
      refine ⟨by omega, by simp; omega, by rw [hsub]; simpa using h3, ?_, ?_⟩
      · intro i hi
        cases i with
        | zero => simpa using hx
        | succ j => simpa using h4 j (by omega)
      · intro hp i hi
        cases i with
        | zero => exact ⟨x, by simp, (lbCheck_skip x).mp hc⟩
        | succ j => simpa using h5 hp j (by omega)
    | none =>
      rw [hc] at h
      cases pause with
      | true => simp at h
      | false =>
        simp only [Bool.false_eq_true, ite_false] at h
        obtain ⟨h1, h2, h3, h4, _⟩ := ih (cursor + 1) h
        have hx : x ≠ .lead '\n' := by
          intro hx; rw [(lbCheck_found x).mpr hx] at hc; simp at hc
        have hsub : p - cursor = (p - (cursor + 1)) + 1 := by omega
        refine ⟨by omega, by simp; omega, by rw [hsub]; simpa using h3, ?_, by simp⟩
        intro i hi
        cases i with
        | zero => simpa using hx
        | succ j => simpa using h4 j (by omega)

theorem nextScan_none_false (bs : Bytes) (cursor : Nat) (h : nextScan false bs cursor = none) :
    ∀ i : Nat, bs[i]? ≠ some (ABy.lead '\n') := by
  induction bs generalizing cursor with
  | nil => simp
  | cons x rest ih =>
    simp only [nextScan] at h
    cases hc : lbCheck (some x) with
    | found => rw [hc] at h; simp at h
    | skip =>
      rw [hc] at h
      have hx : x ≠ .lead '\n' := by
        intro hx; rw [(lbCheck_found x).mpr hx] at hc; simp at hc
      intro i
      cases i with
      | zero => simpa using hx
      | succ j => simpa using ih (cursor + 1) h j
    | none =>
      rw [hc] at h
      simp only [Bool.false_eq_true, ite_false] at h
      have hx : x ≠ .lead '\n' := by
        intro hx; rw [(lbCheck_found x).mpr hx] at hc; simp at hc
      intro i
      cases i with
      | zero => simpa using hx
      | succ j => simpa using ih (cursor + 1) h j

/-- `find_next_line_break_pos` -/
theorem findNextLB_some (b : Bytes) (pos p : Nat) (pause : Bool) (h : findNextLB b pos pause = some p) :
    0 < pos ∧ pos ≤ p ∧ p < b.length ∧ b[p]? = some (.lead '\n') ∧
    (∀ i, pos ≤ i → i < p → b[i]? ≠ some (.lead '\n')) ∧
    (pause = true → ∀ i, pos ≤ i → i < p → ∃ x, b[i]? = some x ∧ isSkipByte x) := by
  unfold findNextLB at h
  split at h
  · simp at h
  · rename_i hc
    have hc' : pos < b.length ∧ pos ≠ 0 := by omega
    obtain ⟨h1, h2, h3, h4, h5⟩ := nextScan_some pause (b.drop pos) pos p h
    simp only [List.length_drop] at h2
    simp only [List.getElem?_drop] at h3 h4 h5
    have e : pos + (p - pos) = p := by omega
    rw [e] at h3
    refine ⟨by omega, h1, by omega, h3, ?_, ?_⟩
    · intro i hi1 hi2
      have := h4 (i - pos) (by omega)
      rwa [show pos + (i - pos) = i by omega] at this
    · intro hp i hi1 hi2
      have := h5 hp (i - pos) (by omega)
      rwa [show pos + (i - pos) = i by omega] at this

theorem findNextLB_none_false (b : Bytes) (pos : Nat) (hpos : 0 < pos) (h : findNextLB b pos false = none) :
    ∀ i, pos ≤ i → b[i]? ≠ some (.lead '\n') := by
  unfold findNextLB at h
  split at h
  · rename_i hc
    intro i hi
    have : b.length ≤ i := by omega
    simp [List.getElem?_eq_none this]
  · intro i hi
    have := nextScan_none_false (b.drop pos) pos h (i - pos)
    rwa [List.getElem?_drop, show pos + (i - pos) = i by omega] at this

/-! ### backward scan -/

theorem prevScan_some (pause : Bool) (rev : Bytes) (cursor p : Nat) (hlen : rev.length = cursor + 1)
    (h : prevScan pause rev cursor = some p) :
    0 < p ∧ p ≤ cursor ∧ rev[cursor - p]? = some (.lead '\n') ∧
    (∀ i, i < cursor - p → rev[i]? ≠ some (.lead '\n')) ∧
    (pause = true → ∀ i, i < cursor - p → ∃ x, rev[i]? = some x ∧ isSkipByte x) := by
  induction rev generalizing cursor with
  | nil => simp [prevScan] at h
  | cons x rest ih =>
    simp only [prevScan] at h
    split at h
    · simp at h
    · rename_i hc0
      have hlen' : rest.length = (cursor - 1) + 1 := by simp at hlen; omega
      cases hc : lbCheck (some x) with
      | found =>
        rw [hc] at h
        simp at h; subst h
        have := (lbCheck_found x).mp hc
        simp [this]; omega
      | skip =>
        rw [hc] at h
        simp only at h
        obtain ⟨h1, h2, h3, h4, h5⟩ := ih (cursor - 1) hlen' h
        have hx : x ≠ .lead '\n' := by
          intro hx; rw [(lbCheck_found x).mpr hx] at hc; simp at hc
        have hsub : cursor - p = (cursor - 1 - p) + 1 := by omega
        refine ⟨h1, by omega, by rw [hsub]; simpa using h3, ?_, ?_⟩
        · intro i hi
          cases i with
          | zero => simpa using hx
          | succ j => simpa using h4 j (by omega)
        · intro hp i hi
          cases i with
          | zero => exact ⟨x, by simp, (lbCheck_skip x).mp hc⟩
          | succ j => simpa using h5 hp j (by omega)
      | none =>
        rw [hc] at h
        cases pause with
        | true => simp at h
        | false =>
          simp only [Bool.false_eq_true, ite_false] at h
          obtain ⟨h1, h2, h3, h4, _⟩ := ih (cursor - 1) hlen' h
          have hx : x ≠ .lead '\n' := by
            intro hx; rw [(lbCheck_found x).mpr hx] at hc; simp at hc
          have hsub : cursor - p = (cursor - 1 - p) + 1 := by omega
          refine ⟨h1, by omega, by rw [hsub]; simpa using h3, ?_, by simp⟩
          intro i hi
          cases i with
          | zero => simpa using hx
          | succ j => simpa using h4 j (by omega)

/-- `find_prev_line_break_pos` -/
theorem findPrevLB_some (b : Bytes) (pos p : Nat) (pause : Bool) (h : findPrevLB b pos pause = some p) :
    0 < p ∧ p < pos ∧ pos ≤ b.length ∧ b[p]? = some (.lead '\n') ∧
    (∀ i, p < i → i < pos → b[i]? ≠ some (.lead '\n')) ∧
    (pause = true → ∀ i, p < i → i < pos → ∃ x, b[i]? = some x ∧ isSkipByte x) := by
  unfold findPrevLB at h
  split at h
  · simp at h
  · split at h
    · simp at h
    · rename_i h0 h1
      have hle : pos ≤ b.length := by omega
      have hlen : (b.take pos).reverse.length = (pos - 1) + 1 := by simp [Nat.min_eq_left hle]; omega
      obtain ⟨g1, g2, g3, g4, g5⟩ := prevScan_some pause (b.take pos).reverse (pos - 1) p hlen h
      -- reverse indexing: rev[k] = b[pos - 1 - k]
      have key : ∀ k, k < pos → (b.take pos).reverse[k]? = b[pos - 1 - k]? := by
        intro k hk
        rw [List.getElem?_reverse (by simp [Nat.min_eq_left hle]; exact hk)]
        simp only [List.length_take, Nat.min_eq_left hle]
        rw [List.getElem?_take_of_lt (by omega)]
      refine ⟨g1, by omega, hle, ?_, ?_, ?_⟩
      · have := key (pos - 1 - p) (by omega)
        rw [this] at g3
        rwa [show pos - 1 - (pos - 1 - p) = p by omega] at g3
      · intro i hi1 hi2
        have := g4 (pos - 1 - i) (by omega)
        rw [key _ (by omega)] at this
        rwa [show pos - 1 - (pos - 1 - i) = i by omega] at this
      · intro hp i hi1 hi2
        have := g5 hp (pos - 1 - i) (by omega)
        rw [key _ (by omega)] at this
        rwa [show pos - 1 - (pos - 1 - i) = i by omega] at this

/-! ### next non-blank character -/

theorem charScan_some (bs : Bytes) (cursor p : Nat) (h : charScan bs cursor = some p) :
    cursor ≤ p ∧ p - cursor < bs.length ∧
    (∃ x, bs[p - cursor]? = some x ∧ ¬ isSkipByte x) ∧
    (∀ i, i < p - cursor → ∃ x, bs[i]? = some x ∧ isSkipByte x) := by
  induction bs generalizing cursor with
  | nil => simp [charScan] at h
  | cons x rest ih =>
    simp only [charScan] at h
    cases x with
    | cont =>
      simp only [chCheck] at h
      obtain ⟨h1, h2, h3, h4⟩ := ih (cursor + 1) h
      have hsub : p - cursor = (p - (cursor + 1)) + 1 := by omega
      refine ⟨by omega, by simp; omega, by rw [hsub]; simpa using h3, ?_⟩
      intro i hi
      cases i with
      | zero => exact ⟨.cont, by simp, Or.inl rfl⟩
      | succ j => simpa using h4 j (by omega)
    | lead c =>
      simp only [chCheck] at h
      by_cases hc : c = ' ' ∨ c = '\t'
      · simp only [hc, ite_true] at h
        obtain ⟨h1, h2, h3, h4⟩ := ih (cursor + 1) h
        have hsub : p - cursor = (p - (cursor + 1)) + 1 := by omega
        refine ⟨by omega, by simp; omega, by rw [hsub]; simpa using h3, ?_⟩
        intro i hi
        cases i with
        | zero =>
          refine ⟨.lead c, by simp, ?_⟩
          rcases hc with hc | hc <;> simp [isSkipByte, hc]
        | succ j => simpa using h4 j (by omega)
      · simp only [hc, ite_false] at h
        simp at h; subst h
        refine ⟨by omega, by simp, ⟨.lead c, by simp, ?_⟩, by simp⟩
        simp only [isSkipByte, not_or]
        refine ⟨by simp, ?_, ?_⟩ <;> (intro hh; injection hh with hh; simp [hh] at hc)

theorem findNextChar_some (b : Bytes) (pos p : Nat) (h : findNextChar b pos = some p) :
    0 < pos ∧ pos ≤ p ∧ p < b.length ∧ (∃ x, b[p]? = some x ∧ ¬ isSkipByte x) ∧
    (∀ i, pos ≤ i → i < p → ∃ x, b[i]? = some x ∧ isSkipByte x) := by
  unfold findNextChar at h
  split at h
  · simp at h
  · rename_i hc
    obtain ⟨h1, h2, h3, h4⟩ := charScan_some (b.drop pos) pos p h
    simp only [List.length_drop] at h2
    simp only [List.getElem?_drop] at h3 h4
    rw [show pos + (p - pos) = p by omega] at h3
    refine ⟨by omega, h1, by omega, h3, ?_⟩
    intro i hi1 hi2
    have := h4 (i - pos) (by omega)
    rwa [show pos + (i - pos) = i by omega] at this

end Chiritori
