import Chiritori.Lemmas.Embed
/-
  C14 machinery: what `trimWs` keeps, and the kept segments of a source between its removed ranges.
-/
namespace Chiritori
open Spec

/-! ### `trimWs` -/

theorem head?_dropWhile_isWs (l : Bytes) (x : ABy) (h : (l.dropWhile isWs).head? = some x) : isWs x = false := by
  have := List.head?_dropWhile_not isWs l
  rw [h] at this
  exact this

def trimL (b : Bytes) : Bytes := b.takeWhile isWs
def trimR (b : Bytes) : Bytes := ((b.dropWhile isWs).reverse.takeWhile isWs).reverse

/-- a byte string is leading whitespace, its trimmed core, trailing whitespace; a non-empty core begins and ends
    with a non-whitespace byte -/
theorem trimWs_decomp (b : Bytes) : b = trimL b ++ (trimWs b ++ trimR b) ∧ (∀ x ∈ trimL b, isWs x = true) ∧
    (∀ x ∈ trimR b, isWs x = true) ∧
    (∀ x, (trimWs b).head? = some x → isWs x = false) ∧ (∀ x, (trimWs b).getLast? = some x → isWs x = false) := by
  unfold trimL trimR
  have e1 : b = b.takeWhile isWs ++ b.dropWhile isWs := (List.takeWhile_append_dropWhile).symm
  generalize hm : b.dropWhile isWs = m at e1
  have e2 : m.reverse = m.reverse.takeWhile isWs ++ m.reverse.dropWhile isWs := (List.takeWhile_append_dropWhile).symm
  have e3 : m = (m.reverse.dropWhile isWs).reverse ++ (m.reverse.takeWhile isWs).reverse := by
    have := congrArg List.reverse e2
    rw [List.reverse_reverse, List.reverse_append] at this
    exact this
  have ht : trimWs b = (m.reverse.dropWhile isWs).reverse := by simp [trimWs, hm]
  refine ⟨?_, ?_, ?_, ?_, ?_⟩
  · rw [ht, ← e3]; exact e1
  · intro x hx
    have := List.all_takeWhile (l := b) (p := isWs)
    exact List.all_eq_true.mp this x hx
  · intro x hx
    have := List.all_takeWhile (l := m.reverse) (p := isWs)
    exact List.all_eq_true.mp this x (List.mem_reverse.mp hx)
  · intro x hx
    rw [ht] at hx
    -- the core is a prefix of `m`, whose head is not whitespace
    have hmh : m.head? = some x := by
      rw [e3, List.head?_append, hx]; rfl
    rw [← hm] at hmh
    exact head?_dropWhile_isWs b x hmh
  · intro x hx
    rw [ht, List.getLast?_reverse] at hx
    exact head?_dropWhile_isWs _ x hx

theorem trimWs_nil : trimWs [] = [] := rfl

/-! ### the kept segments -/

/-- the pieces of `b` from `lo` on, between the ranges -/
def keptSegs (b : Bytes) : List Rng → Nat → List Bytes
  | [], lo => [b.drop lo]
  | r :: rs, lo => ((b.take r.1).drop lo) :: keptSegs b rs r.2

/-- `RSorted` with non-empty ranges inside the text -/
def RIn (b : Bytes) : List Rng → Nat → Prop
  | [], lo => lo ≤ b.length
  | r :: rs, lo => lo ≤ r.1 ∧ r.1 < r.2 ∧ RIn b rs r.2

theorem RIn_le (b : Bytes) (rs : List Rng) (lo : Nat) (h : RIn b rs lo) : lo ≤ b.length := by
  induction rs generalizing lo with
  | nil => exact h
  | cons r rs ih =>
    obtain ⟨h1, h2, h3⟩ := h
    have := ih r.2 h3
    omega

theorem RIn_sorted (b : Bytes) (rs : List Rng) (lo : Nat) (h : RIn b rs lo) : RSorted rs lo := by
  induction rs generalizing lo with
  | nil => trivial
  | cons r rs ih =>
    obtain ⟨h1, h2, h3⟩ := h
    exact ⟨h1, by omega, ih r.2 h3⟩

theorem minusFrom_drop_all (a : Bytes) (off : Nat) (rs : List Rng)
    (h : ∀ i, off ≤ i → i < off + a.length → inAny rs i = true) : minusFrom a off rs = [] := by
  induction a generalizing off with
  | nil => rfl
  | cons x xs ih =>
    have h0 := h off (Nat.le_refl _) (by simp)
    have ih' := ih (off + 1) (fun i h1 h2 => h i (by omega) (by simp at h2 ⊢; omega))
    simp only [minusFrom, List.zipIdx_cons, List.filter_cons] at ih' ⊢
    simp [h0, ih']

/-- the text from `lo` on without the ranges is the concatenation of the kept segments -/
theorem minusFrom_eq_keptSegs (b : Bytes) : ∀ (rs : List Rng) (lo : Nat), RIn b rs lo →
    minusFrom (b.drop lo) lo rs = (keptSegs b rs lo).flatten
  | [], lo, _ => by
    simp only [keptSegs, List.flatten_cons, List.flatten_nil, List.append_nil]
    exact minusFrom_keep _ _ _ (by intro i _ _; rfl)
  | r :: rs, lo, h => by
    obtain ⟨h1, h2, h3⟩ := h
    have hlen := RIn_le b rs r.2 h3
    have hs := RIn_sorted b rs r.2 h3
    have e : b.drop lo = (b.take r.1).drop lo ++ ((b.take r.2).drop r.1 ++ b.drop r.2) := by
      have a1 : b.drop lo = (b.take r.1).drop lo ++ b.drop r.1 := by
        rw [← List.drop_append_of_le_length (by simp; omega), List.take_append_drop]
      have a2 : b.drop r.1 = (b.take r.2).drop r.1 ++ b.drop r.2 := by
        rw [← List.drop_append_of_le_length (by simp; omega), List.take_append_drop]
      rw [a1, a2]
    rw [e, minusFrom_append, minusFrom_append]
    have l1 : ((b.take r.1).drop lo).length = r.1 - lo := by simp; omega
    have l2 : ((b.take r.2).drop r.1).length = r.2 - r.1 := by simp; omega
    rw [minusFrom_keep _ lo (r :: rs) (by
      intro i hi1 hi2
      rw [l1] at hi2
      rw [inAny_cons, RSorted_not_in_before rs r.2 i hs (by omega)]
      simp [Rng.contains]; omega)]
    rw [minusFrom_drop_all _ _ (r :: rs) (by
      intro i hi1 hi2
      rw [l1] at hi1
      rw [l1, l2] at hi2
      rw [inAny_cons]
      simp [Rng.contains]; left; omega)]
    rw [l1, l2, show lo + (r.1 - lo) + (r.2 - r.1) = r.2 by omega]
    rw [minusFrom_congr (b.drop r.2) r.2 (r :: rs) rs (by
      intro i hi1 _
      rw [inAny_cons]
      simp [Rng.contains]; omega)]
    rw [minusFrom_eq_keptSegs b rs r.2 h3]
    simp [keptSegs]

/-! ### the stretches of a source without unwrapped bodies are its kept segments, trimmed -/

/-- splitting at the bytes of `ext` (each such byte ends a piece and is dropped) -/
def splitExt (ext : List Rng) : List (ABy × Nat) → Bytes → List Bytes
  | [], cur => [cur]
  | (x, i) :: rest, cur => if inAny ext i then cur :: splitExt ext rest [] else splitExt ext rest (cur ++ [x])

theorem stretchesAux_nobody (ext : List Rng) : ∀ (l : List (ABy × Nat)) (cur : Bytes),
    stretchesAux ext [] l cur = splitExt ext l cur
  | [], cur => rfl
  | (x, i) :: rest, cur => by
    simp only [stretchesAux, splitExt]
    split
    · rw [stretchesAux_nobody ext rest []]
    · have hb : ¬ (inAny [] i = true ∧ (x == ABy.lead '\n') = true) := by simp [inAny]
      rw [if_neg hb]
      cases rest with
      | nil => simp [splitExt]
      | cons y ys =>
        obtain ⟨y1, j⟩ := y
        simp only
        have hc : ¬ ((inAny [] i != inAny [] j) = true ∧ (!inAny ext j) = true) := by simp [inAny]
        rw [if_neg hc]
        exact stretchesAux_nobody ext _ _

theorem splitExt_keep (ext : List Rng) : ∀ (seg : Bytes) (off : Nat) (rest : List (ABy × Nat)) (cur : Bytes),
    (∀ i, off ≤ i → i < off + seg.length → inAny ext i = false) →
    splitExt ext (seg.zipIdx off ++ rest) cur = splitExt ext rest (cur ++ seg)
  | [], _, _, _, _ => by simp
  | x :: xs, off, rest, cur, h => by
    simp only [List.zipIdx_cons, List.cons_append, splitExt]
    rw [if_neg (by simp [h off (Nat.le_refl _) (by simp)])]
    rw [splitExt_keep ext xs (off + 1) rest (cur ++ [x]) (fun i h1 h2 => h i (by omega) (by simp at h2 ⊢; omega))]
    simp

def ne (x : Bytes) : Bool := x != []

theorem splitExt_drop (ext : List Rng) : ∀ (seg : Bytes) (off : Nat) (rest : List (ABy × Nat)) (cur : Bytes),
    seg ≠ [] → (∀ i, off ≤ i → i < off + seg.length → inAny ext i = true) →
    (splitExt ext (seg.zipIdx off ++ rest) cur).filter ne = (cur :: splitExt ext rest []).filter ne
  | [], _, _, _, h, _ => absurd rfl h
  | [x], off, rest, cur, _, h => by
    simp only [List.zipIdx_cons, List.zipIdx_nil, List.cons_append, List.nil_append, splitExt]
    rw [if_pos (h off (Nat.le_refl _) (by simp))]
  | x :: y :: more, off, rest, cur, _, h => by
    have ih := splitExt_drop ext (y :: more) (off + 1) rest [] (by simp)
      (fun i h1 h2 => h i (by omega) (by simp at h2 ⊢; omega))
    simp only [List.zipIdx_cons, List.cons_append, splitExt] at ih ⊢
    rw [if_pos (h off (Nat.le_refl _) (by simp))]
    simp only [List.filter_cons] at ih ⊢
    rw [ih]
    simp [ne]

def prependHead (cur : Bytes) : List Bytes → List Bytes
  | [] => [cur]
  | s :: ss => (cur ++ s) :: ss

theorem prependHead_nil_filter (X : List Bytes) : (prependHead [] X).filter ne = X.filter ne := by
  cases X with
  | nil => simp [prependHead, ne]
  | cons s ss => simp [prependHead]

theorem splitExt_keptSegs (b : Bytes) (ext : List Rng) : ∀ (rs : List Rng) (lo : Nat) (cur : Bytes),
    RIn b rs lo → (∀ i, lo ≤ i → inAny ext i = inAny rs i) →
    (splitExt ext ((b.drop lo).zipIdx lo) cur).filter ne = (prependHead cur (keptSegs b rs lo)).filter ne
  | [], lo, cur, _, hc => by
    have := splitExt_keep ext (b.drop lo) lo [] cur (fun i h1 _ => by rw [hc i h1]; rfl)
    simp only [List.append_nil] at this
    rw [this]
    simp [splitExt, keptSegs, prependHead]
  | r :: rs, lo, cur, h, hc => by
    obtain ⟨h1, h2, h3⟩ := h
    have hlen := RIn_le b rs r.2 h3
    have hs := RIn_sorted b rs r.2 h3
    have e : b.drop lo = (b.take r.1).drop lo ++ ((b.take r.2).drop r.1 ++ b.drop r.2) := by
      have a1 : b.drop lo = (b.take r.1).drop lo ++ b.drop r.1 := by
        rw [← List.drop_append_of_le_length (by simp; omega), List.take_append_drop]
      have a2 : b.drop r.1 = (b.take r.2).drop r.1 ++ b.drop r.2 := by
        rw [← List.drop_append_of_le_length (by simp; omega), List.take_append_drop]
      rw [a1, a2]
    have l1 : ((b.take r.1).drop lo).length = r.1 - lo := by simp; omega
    have l2 : ((b.take r.2).drop r.1).length = r.2 - r.1 := by simp; omega
    rw [e, List.zipIdx_append, List.zipIdx_append, l1, l2, show lo + (r.1 - lo) = r.1 by omega,
      show r.1 + (r.2 - r.1) = r.2 by omega]
    rw [splitExt_keep ext _ lo _ cur (by
      intro i hi1 hi2
      rw [l1] at hi2
      rw [hc i hi1, inAny_cons, RSorted_not_in_before rs r.2 i hs (by omega)]
      simp [Rng.contains]; omega)]
    rw [splitExt_drop ext _ r.1 _ _ (by
      intro hnil
      have := congrArg List.length hnil
      rw [l2] at this; simp at this; omega) (by
      intro i hi1 hi2
      rw [l2] at hi2
      rw [hc i (by omega), inAny_cons]
      simp [Rng.contains]; left; omega)]
    simp only [List.filter_cons]
    rw [splitExt_keptSegs b ext rs r.2 [] h3 (by
      intro i hi
      rw [hc i (by omega), inAny_cons]
      simp [Rng.contains]; omega)]
    rw [prependHead_nil_filter]
    simp only [keptSegs, prependHead, List.filter_cons]

theorem filter_map_trim (l : List Bytes) :
    (l.map trimWs).filter ne = ((l.filter ne).map trimWs).filter ne := by
  induction l with
  | nil => rfl
  | cons x xs ih =>
    simp only [List.map_cons, List.filter_cons]
    by_cases hx : x = []
    · subst hx; simp [ne, trimWs_nil, ih]
    · have : ne x = true := by simpa [ne] using hx
      rw [this]
      simp only [ite_true, List.map_cons, List.filter_cons, ih]

/-- without unwrapped bodies the stretches are the kept segments between the removed ranges, trimmed -/
theorem stretches_eq_keptSegs (b : Bytes) (ext rs : List Rng) (h : RIn b rs 0) (hc : ∀ i, inAny ext i = inAny rs i) :
    stretches b ext [] = ((keptSegs b rs 0).map trimWs).filter ne := by
  unfold stretches
  rw [stretchesAux_nobody]
  have e := splitExt_keptSegs b ext rs 0 [] h (fun i _ => hc i)
  simp only [List.drop_zero] at e
  have hp : prependHead [] (keptSegs b rs 0) = keptSegs b rs 0 := by
    cases rs <;> simp [keptSegs, prependHead]
  rw [hp] at e
  have f1 := filter_map_trim (splitExt ext b.zipIdx [])
  have f2 := filter_map_trim (keptSegs b rs 0)
  show (List.map trimWs (splitExt ext b.zipIdx [])).filter ne = _
  rw [f1, e, ← f2]

end Chiritori
