import Chiritori.Model.Remover
/-
  `merge_markers`: the output is sorted, disjoint and covers exactly the ranges of the tree.
-/
namespace Chiritori

/-- markers are non-empty, increasing, disjoint and lie within `[lo, hi]` -/
def MSorted : List Marker → Nat → Nat → Prop
  | [], lo, hi => lo ≤ hi
  | m :: ms, lo, hi => lo ≤ m.start ∧ m.start < m.stop ∧ MSorted ms m.stop hi

theorem MSorted_le (ms : List Marker) (lo hi : Nat) (h : MSorted ms lo hi) : lo ≤ hi := by
  induction ms generalizing lo with
  | nil => exact h
  | cons m ms ih =>
    obtain ⟨h1, h2, h3⟩ := h
    have := ih m.stop h3
    omega

theorem MSorted_widen (ms : List Marker) (lo hi lo' hi' : Nat) (h : MSorted ms lo hi) (h1 : lo' ≤ lo) (h2 : hi ≤ hi') :
    MSorted ms lo' hi' := by
  induction ms generalizing lo lo' with
  | nil => simp only [MSorted] at h ⊢; omega
  | cons m ms ih =>
    obtain ⟨g1, g2, g3⟩ := h
    exact ⟨by omega, g2, ih m.stop m.stop g3 (Nat.le_refl _)⟩

theorem MSorted_append (a b : List Marker) (lo hi : Nat) :
    MSorted (a ++ b) lo hi ↔ ∃ mid, MSorted a lo mid ∧ MSorted b mid hi := by
  induction a generalizing lo with
  | nil =>
    constructor
    · intro h; exact ⟨lo, Nat.le_refl _, h⟩
    · rintro ⟨mid, h1, h2⟩; exact MSorted_widen b mid hi lo hi h2 h1 (Nat.le_refl _)
  | cons m ms ih =>
    simp only [List.cons_append, MSorted, ih]
    constructor
    · rintro ⟨h1, h2, mid, h3, h4⟩; exact ⟨mid, ⟨h1, h2, h3⟩, h4⟩
    · rintro ⟨mid, ⟨h1, h2, h3⟩, h4⟩; exact ⟨h1, h2, mid, h3, h4⟩

/-- the same, read from the back -/
def MDesc : List Marker → Nat → Nat → Prop
  | [], lo, hi => lo ≤ hi
  | m :: ms, lo, hi => m.stop ≤ hi ∧ m.start < m.stop ∧ MDesc ms lo m.start

theorem MDesc_le (ms : List Marker) (lo hi : Nat) (h : MDesc ms lo hi) : lo ≤ hi := by
  induction ms generalizing hi with
  | nil => exact h
  | cons m ms ih =>
    obtain ⟨h1, h2, h3⟩ := h
    have := ih m.start h3
    omega

theorem MDesc_append_one (ms : List Marker) (m : Marker) (lo hi : Nat) :
    MDesc (ms ++ [m]) lo hi ↔ ∃ mid, MDesc ms mid hi ∧ lo ≤ m.start ∧ m.start < m.stop ∧ m.stop ≤ mid := by
  induction ms generalizing hi with
  | nil =>
    simp only [List.nil_append, MDesc]
    constructor
    · rintro ⟨h1, h2, h3⟩; exact ⟨m.stop, by omega, h3, h2, Nat.le_refl _⟩
    · rintro ⟨mid, h1, h2, h3, h4⟩; exact ⟨by omega, h3, h2⟩
  | cons x xs ih =>
    simp only [List.cons_append, MDesc, ih]
    constructor
    · rintro ⟨h1, h2, mid, h3, h4⟩; exact ⟨mid, ⟨h1, h2, h3⟩, h4⟩
    · rintro ⟨mid, ⟨h1, h2, h3⟩, h4⟩; exact ⟨h1, h2, mid, h3, h4⟩

theorem MSorted_iff_MDesc_reverse (ms : List Marker) (lo hi : Nat) : MSorted ms lo hi ↔ MDesc ms.reverse lo hi := by
  induction ms generalizing lo with
  | nil => simp [MSorted, MDesc]
  | cons m ms ih =>
    simp only [List.reverse_cons, MDesc_append_one, MSorted, ih]
    constructor
    · rintro ⟨h1, h2, h3⟩; exact ⟨m.stop, h3, h1, h2, Nat.le_refl _⟩
    · rintro ⟨mid, h1, h2, h3, h4⟩
      refine ⟨h2, h3, ?_⟩
      rw [← ih] at h1 ⊢
      exact MSorted_widen ms mid hi m.stop hi h1 h4 (Nat.le_refl _)

def mcov (ms : List Marker) (i : Nat) : Prop := ∃ m ∈ ms, m.start ≤ i ∧ i < m.stop

theorem mcov_nil (i : Nat) : ¬ mcov [] i := by simp [mcov]
theorem mcov_append (a b : List Marker) (i : Nat) : mcov (a ++ b) i ↔ mcov a i ∨ mcov b i := by
  simp only [mcov, List.mem_append]
  constructor
  · rintro ⟨m, hm | hm, h⟩
    · exact Or.inl ⟨m, hm, h⟩
    · exact Or.inr ⟨m, hm, h⟩
  · rintro (⟨m, hm, h⟩ | ⟨m, hm, h⟩)
    · exact ⟨m, Or.inl hm, h⟩
    · exact ⟨m, Or.inr hm, h⟩
theorem mcov_singleton (m : Marker) (i : Nat) : mcov [m] i ↔ m.start ≤ i ∧ i < m.stop := by simp [mcov]

theorem mcov_bounds (ms : List Marker) (lo hi i : Nat) (h : MSorted ms lo hi) (hc : mcov ms i) : lo ≤ i ∧ i < hi := by
  induction ms generalizing lo with
  | nil => exact absurd hc (mcov_nil i)
  | cons m ms ih =>
    obtain ⟨h1, h2, h3⟩ := h
    obtain ⟨x, hx, hx1, hx2⟩ := hc
    have hle := MSorted_le ms m.stop hi h3
    rcases List.mem_cons.mp hx with hx | hx
    · subst hx; omega
    · have := ih m.stop h3 ⟨x, hx, hx1, hx2⟩; omega

/-! ### `merge_child_markers` from the front (opening part) -/
theorem mergeChild_head (cm : List Marker) (s e a b : Nat) (hs : MSorted cm a b) (hsa : s ≤ a) (heb : e ≤ b) :
    ∃ k E, mergeChildMarkers cm (s, e) = (k, (s, E)) ∧ e ≤ E ∧ E ≤ b ∧ k ≤ cm.length ∧ MSorted (cm.drop k) E b ∧
      (∀ i, (s ≤ i ∧ i < E) ↔ ((s ≤ i ∧ i < e) ∨ mcov (cm.take k) i)) := by
  induction cm generalizing e a with
  | nil =>
    refine ⟨0, e, rfl, Nat.le_refl _, heb, Nat.le_refl _, heb, ?_⟩
    intro i; simp [mcov]
  | cons c cs ih =>
    obtain ⟨h1, h2, h3⟩ := hs
    have hcb := MSorted_le cs c.stop b h3
    simp only [mergeChildMarkers, Rng.contains]
    by_cases ht : c.start < e
    · -- touching: absorbed
      have hcond : (decide (s ≤ c.start) && decide (c.start < e) || decide (s ≤ c.stop) && decide (c.stop < e)) = true := by
        simp; left; omega
      obtain ⟨k, E, hk, g1, g2, g3, g4, g5⟩ := ih (max e c.stop) c.stop h3 (by omega) (by omega)
      have hmin : min s c.start = s := by omega
      refine ⟨k + 1, E, ?_, by omega, g2, by simp; omega, by simpa using g4, ?_⟩
      · simp only [hcond, ite_true, hmin, hk]
      · intro i
        rw [g5 i]
        simp only [List.take_succ_cons, mcov, List.mem_cons]
        constructor
        · rintro (⟨i1, i2⟩ | ⟨m, hm, hm1, hm2⟩)
          · by_cases hi : i < e
            · exact Or.inl ⟨i1, hi⟩
            · exact Or.inr ⟨c, Or.inl rfl, by omega, by omega⟩
          · exact Or.inr ⟨m, Or.inr hm, hm1, hm2⟩
        · rintro (⟨i1, i2⟩ | ⟨m, hm | hm, hm1, hm2⟩)
          · exact Or.inl ⟨i1, by omega⟩
          · subst hm; exact Or.inl ⟨by omega, by omega⟩
          · exact Or.inr ⟨m, hm, hm1, hm2⟩
    · -- not touching
      have hcond : (decide (s ≤ c.start) && decide (c.start < e) || decide (s ≤ c.stop) && decide (c.stop < e)) = false := by
        simp; omega
      refine ⟨0, e, by simp [hcond], Nat.le_refl _, heb, by simp, ?_, ?_⟩
      · exact ⟨by omega, h2, h3⟩
      · intro i; simp [mcov]

/-! ### `merge_child_markers` from the back (closing part) -/
theorem mergeChild_tail (l : List Marker) (s2 e2 lo b : Nat) (hs : MDesc l lo b) (hb : b < e2) (hse : s2 < e2) :
    ∃ n T, mergeChildMarkers l (s2, e2) = (n, (T, e2)) ∧ T ≤ s2 ∧ n ≤ l.length ∧
      (l.drop n = [] ∨ MDesc (l.drop n) lo T) ∧ (l.drop n = [] → n = l.length) ∧
      (∀ m ∈ l.take n, T ≤ m.start) ∧
      (∀ i, (T ≤ i ∧ i < e2) ↔ ((s2 ≤ i ∧ i < e2) ∨ mcov (l.take n) i)) := by
  induction l generalizing s2 b with
  | nil =>
    refine ⟨0, s2, rfl, Nat.le_refl _, Nat.le_refl _, Or.inl rfl, by simp, by simp, ?_⟩
    intro i; simp [mcov]
  | cons c cs ih =>
    obtain ⟨h1, h2, h3⟩ := hs
    simp only [mergeChildMarkers, Rng.contains]
    by_cases ht : s2 ≤ c.stop
    · have hcond : (decide (s2 ≤ c.start) && decide (c.start < e2) || decide (s2 ≤ c.stop) && decide (c.stop < e2)) = true := by
        simp; right; omega
      obtain ⟨n, T, hn, g1, g2, g3, g3', g4, g5⟩ := ih (min s2 c.start) c.start h3 (by omega) (by omega)
      have hmax : max e2 c.stop = e2 := by omega
      refine ⟨n + 1, T, ?_, by omega, by simp; omega, by simpa using g3, by simpa using g3', ?_, ?_⟩
      · simp only [hcond, ite_true, hmax, hn]
      · intro m hm
        simp only [List.take_succ_cons, List.mem_cons] at hm
        rcases hm with hm | hm
        · subst hm; omega
        · exact g4 m hm
      · intro i
        rw [g5 i]
        simp only [List.take_succ_cons, mcov, List.mem_cons]
        constructor
        · rintro (⟨i1, i2⟩ | ⟨m, hm, hm1, hm2⟩)
          · by_cases hi : s2 ≤ i
            · exact Or.inl ⟨hi, i2⟩
            · exact Or.inr ⟨c, Or.inl rfl, by omega, by omega⟩
          · exact Or.inr ⟨m, Or.inr hm, hm1, hm2⟩
        · rintro (⟨i1, i2⟩ | ⟨m, hm | hm, hm1, hm2⟩)
          · exact Or.inl ⟨by omega, i2⟩
          · subst hm; exact Or.inl ⟨by omega, by omega⟩
          · exact Or.inr ⟨m, hm, hm1, hm2⟩
    · have hcond : (decide (s2 ≤ c.start) && decide (c.start < e2) || decide (s2 ≤ c.stop) && decide (c.stop < e2)) = false := by
        simp; omega
      refine ⟨0, s2, by simp [hcond], Nat.le_refl _, by simp, Or.inr ?_, by simp, by simp, ?_⟩
      · exact ⟨by simp at ht ⊢; omega, h2, h3⟩
      · intro i; simp [mcov]

end Chiritori
