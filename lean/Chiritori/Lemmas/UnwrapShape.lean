import Chiritori.Lemmas.UnwrapTags
import Chiritori.Lemmas.SplitNLBounds
/-
  The ready extents of a parsed source against the finer chain of tokens (text tokens cut at their line breaks): when
  no tag contains a line break, every extent begins and ends at a boundary of the finer chain, so the finer tokens are
  covered wholly or not at all.
-/
namespace Chiritori
open Spec

mutual
theorem elements_mem_flatten : ∀ (parts : List Part), ∀ e ∈ elementsOf parts,
    e.2.1 ∈ flattenParts parts ∧ e.2.2 ∈ flattenParts parts
  | [], e, he => by simp [elementsOf] at he
  | p :: ps, e, he => by
    simp only [elementsOf, List.mem_append] at he
    simp only [flattenParts, List.mem_append]
    rcases he with he | he
    · obtain ⟨a, b⟩ := elementsPart_mem_flatten p e he; exact ⟨Or.inl a, Or.inl b⟩
    · obtain ⟨a, b⟩ := elements_mem_flatten ps e he; exact ⟨Or.inr a, Or.inr b⟩
theorem elementsPart_mem_flatten : ∀ (p : Part), ∀ e ∈ elementsOfPart p,
    e.2.1 ∈ flattenPart p ∧ e.2.2 ∈ flattenPart p
  | .text _, e, he => by simp [elementsOfPart] at he
  | .element el st en ch, e, he => by
    simp only [elementsOfPart, List.mem_cons] at he
    simp only [flattenPart, List.cons_append, List.mem_cons, List.mem_append, List.not_mem_nil, or_false]
    rcases he with rfl | he
    · exact ⟨Or.inl rfl, Or.inr (Or.inr rfl)⟩
    · obtain ⟨a, b⟩ := elements_mem_flatten ch e he
      exact ⟨Or.inr (Or.inl a), Or.inr (Or.inl b)⟩
end

theorem kind_of_elparse (ds de : List Char) (t : Token) (el : Element) (h : elparse ds de t = some el) :
    t.kind = .element := by
  unfold elparse at h
  cases hk : t.kind with
  | text => rw [hk] at h; simp at h
  | element => rfl

mutual
/-- in a forest the parser can produce, the two tags of an element are tag tokens -/
theorem OKS_kinds (ds de : List Char) : ∀ (H : List Part) (names : List (List Char)), OKS ds de names H →
    ∀ e ∈ elementsOf H, e.2.1.kind = .element ∧ e.2.2.kind = .element
  | [], _, _, e, he => by simp [elementsOf] at he
  | p :: ps, names, h, e, he => by
    simp only [OKS] at h
    simp only [elementsOf, List.mem_append] at he
    rcases he with he | he
    · exact OKP_kinds ds de p names h.1 e he
    · exact OKS_kinds ds de ps _ h.2 e he
theorem OKP_kinds (ds de : List Char) : ∀ (p : Part) (names : List (List Char)), OKP ds de names p →
    ∀ e ∈ elementsOfPart p, e.2.1.kind = .element ∧ e.2.2.kind = .element
  | .text _, _, _, e, he => by simp [elementsOfPart] at he
  | .element el st en ch, names, h, e, he => by
    simp only [OKP] at h
    obtain ⟨a1, _, ⟨e', a3, _, _⟩, a4, _⟩ := h
    simp only [elementsOfPart, List.mem_cons] at he
    rcases he with rfl | he
    · exact ⟨kind_of_elparse ds de _ _ a1, kind_of_elparse ds de _ _ a3⟩
    · exact OKS_kinds ds de ch _ a4 e he
end

mutual
/-- every part that is left as text is a text token: no stray tags -/
def TextsAreText : List Part → Prop
  | [] => True
  | p :: ps => TextIsText p ∧ TextsAreText ps
def TextIsText : Part → Prop
  | .text t => t.kind = .text
  | .element _ _ _ ch => TextsAreText ch
end

mutual
theorem noStray_of_OKS (ds de : List Char) : ∀ (H : List Part) (names : List (List Char)), OKS ds de names H →
    TextsAreText H → NoStray H
  | [], _, _, _ => trivial
  | p :: ps, names, h, ht => by
    simp only [OKS] at h
    simp only [TextsAreText] at ht
    exact ⟨noStrayP_of_OKP ds de p names h.1 ht.1, noStray_of_OKS ds de ps _ h.2 ht.2⟩
theorem noStrayP_of_OKP (ds de : List Char) : ∀ (p : Part) (names : List (List Char)), OKP ds de names p →
    TextIsText p → NoStrayP p
  | .text _, _, _, ht => ht
  | .element el st en ch, names, h, ht => by
    simp only [OKP] at h
    obtain ⟨a1, _, ⟨e', a3, _, _⟩, a4, _⟩ := h
    simp only [TextIsText] at ht
    exact ⟨kind_of_elparse ds de _ _ a1, kind_of_elparse ds de _ _ a3, noStray_of_OKS ds de ch _ a4 ht⟩
end

/-- a token of a chain from 0 lies inside the text -/
theorem chain_within : ∀ (T : List Token) (s bs : Nat), ChainFrom T s bs → ∀ t ∈ T, t.bstop ≤ bs + blen (flat T)
  | [], _, _, _, t, ht => by cases ht
  | u :: us, s, bs, hc, t, ht => by
    obtain ⟨_, c2, _, _, c5, c6⟩ := hc
    rw [flat_cons, blen_append]
    rcases List.mem_cons.mp ht with rfl | ht
    · omega
    · have := chain_within us _ _ c6 t ht
      omega

/-- every ready extent of a parsed source begins and ends at a boundary of the finer chain -/
theorem extents_bnds (src ds de : List Char) (cfg : Cfg) (hde : de ≠ [])
    (htag : ∀ t ∈ tokenize src ds de, t.kind = .element → ∀ c ∈ t.value, c ≠ '\n') :
    ∀ r ∈ extentsOfSource src ds de cfg,
      IsBnd (splitToks (tokenize src ds de)) r.1 ∧ IsBnd (splitToks (tokenize src ds de)) r.2 := by
  obtain ⟨hok, _⟩ := tokenize_ok src ds de hde
  have hfl : flattenParts (parseSource src ds de) = tokenize src ds de := parse_flatten ds de _
  have hoks : OKS ds de [] (parseSource src ds de) := parse_OKS ds de _
  have hspan : BSpan (flattenParts (parseSource src ds de)) 0 (blen src) := by
    have := BSpan_of_chain _ 0 0 hok.chain
    rw [hok.flatEq, Nat.zero_add] at this
    rw [hfl]; exact this
  intro r hr
  unfold extentsOfSource readyExtents at hr
  obtain ⟨e, he, hre⟩ := List.mem_flatMap.mp hr
  obtain ⟨el, st, en⟩ := e
  simp only at hre
  obtain ⟨m1, m2⟩ := elements_mem_flatten _ _ he
  obtain ⟨k1, k2⟩ := OKS_kinds ds de _ [] hoks _ he
  simp only at m1 m2 k1 k2
  rw [hfl] at m1 m2
  obtain ⟨o1, o2, o3⟩ := element_tags_ordered _ 0 (blen src) hspan _ he
  simp only at o1 o2 o3
  have bst := isBnd_splitToks_of_tag _ st m1 k1
  have ben := isBnd_splitToks_of_tag _ en m2 k2
  split at hre
  · -- a ready element
    unfold extentOf at hre
    split at hre
    · -- unwrap-block
      cases hu : unwrapParts (bytesOf src) st en with
      | none => rw [hu] at hre; simp at hre
      | some ht =>
        obtain ⟨h, t⟩ := ht
        rw [hu] at hre
        have hen_le : en.bstop ≤ blen src := by
          have := chain_within _ 0 0 hok.chain en m2
          rwa [hok.flatEq, Nat.zero_add] at this
        obtain ⟨p1, p2, p3, p4, p5, p6, p7⟩ := unwrapParts_pos (bytesOf src) st en h t (by omega) (by simp; omega) hu
        have hb : bytesOf src = bytesOf (flat (tokenize src ds de)) := by rw [hok.flatEq]
        obtain ⟨u, hu1, hu2, _, _⟩ := splitToks_nl_token _ 0 0 h.2 hok.chain htag (by rw [← hb]; exact p6)
        obtain ⟨v, hv1, _, hv3, _⟩ := splitToks_nl_token _ 0 0 (t.1 - 1) hok.chain htag (by rw [← hb]; exact p7)
        simp only [List.mem_cons, List.not_mem_nil, or_false] at hre
        rcases hre with rfl | rfl
        · exact ⟨by rw [p1]; exact bst.1, Or.inl ⟨u, hu1, by omega⟩⟩
        · exact ⟨Or.inr ⟨v, hv1, by omega⟩, by rw [p5]; exact ben.2⟩
    · split at hre
      · simp only [List.mem_singleton] at hre
        subst hre
        exact ⟨bst.1, ben.2⟩
      · simp at hre
  · simp at hre

/-- ... hence the finer tokens are covered wholly or not at all -/
theorem wholly_split (src ds de : List Char) (cfg : Cfg) (hde : de ≠ [])
    (htag : ∀ t ∈ tokenize src ds de, t.kind = .element → ∀ c ∈ t.value, c ≠ '\n') :
    Wholly (extentsOfSource src ds de cfg) (splitToks (tokenize src ds de)) := by
  obtain ⟨hok, _⟩ := tokenize_ok src ds de hde
  exact wholly_of_bnds _ _ 0 0 (splitToks_chain _ 0 0 hok.chain) (extents_bnds src ds de cfg hde htag)

end Chiritori
