import Chiritori.Lemmas.Markers
/-
  `merge_markers` on a geometrically well-formed range tree.
-/
namespace Chiritori

mutual
/-- sibling range trees lie side by side within `[lo, hi]` -/
def RGeo : List RTree → Nat → Nat → Prop
  | [], lo, hi => lo ≤ hi
  | t :: ts, lo, hi => ∃ mid, RTreeGeo t lo mid ∧ RGeo ts mid hi
/-- a Range node `[s,e)` holds its children; an Unwrap node has parts `[s,e)`, `[s2,e2)` with `e < s2` and its
    children somewhere in `[a,b]`, `s < a`, `e ≤ b`, `s2 ≤ b < e2` -/
def RTreeGeo : RTree → Nat → Nat → Prop
  | .node r pair ch, lo, hi =>
    match pair with
    | none => lo ≤ r.1 ∧ r.1 < r.2 ∧ r.2 ≤ hi ∧ RGeo ch r.1 r.2
    | some t => lo ≤ r.1 ∧ r.1 < r.2 ∧ r.2 < t.1 ∧ t.1 < t.2 ∧ t.2 ≤ hi ∧
        ∃ a b, r.1 < a ∧ r.2 ≤ b ∧ t.1 ≤ b ∧ b < t.2 ∧ RGeo ch a b
end

mutual
def rcov : List RTree → Nat → Prop
  | [], _ => False
  | t :: ts, i => rtcov t i ∨ rcov ts i
def rtcov : RTree → Nat → Prop
  | .node r pair ch, i =>
    (r.1 ≤ i ∧ i < r.2) ∨ (match pair with | some t => t.1 ≤ i ∧ i < t.2 | none => False) ∨ rcov ch i
end

theorem rebase_start (a b c : Nat) (m : Marker) : (rebase a b c m).start = m.start := rfl
theorem rebase_stop (a b c : Nat) (m : Marker) : (rebase a b c m).stop = m.stop := rfl

theorem MSorted_map_rebase (a b c : Nat) (ms : List Marker) (lo hi : Nat) :
    MSorted (ms.map (rebase a b c)) lo hi ↔ MSorted ms lo hi := by
  induction ms generalizing lo with
  | nil => simp [MSorted]
  | cons m ms ih => simp only [List.map_cons, MSorted, rebase_start, rebase_stop, ih]

theorem mcov_map_rebase (a b c : Nat) (ms : List Marker) (i : Nat) :
    mcov (ms.map (rebase a b c)) i ↔ mcov ms i := by
  simp only [mcov, List.mem_map]
  constructor
  · rintro ⟨m, ⟨m', hm', rfl⟩, h⟩; exact ⟨m', hm', h⟩
  · rintro ⟨m, hm, h⟩; exact ⟨rebase a b c m, ⟨m, hm, rfl⟩, h⟩

theorem MSorted_single (s e : Nat) (p : Option Nat) (lo hi : Nat) :
    MSorted [⟨s, e, p⟩] lo hi ↔ lo ≤ s ∧ s < e ∧ e ≤ hi := by simp [MSorted]

theorem mcov_reverse (ms : List Marker) (i : Nat) : mcov ms.reverse i ↔ mcov ms i := by
  simp [mcov]

mutual
theorem mergeMarkers_spec : ∀ (ts : List RTree) (lo hi : Nat) (acc : List Marker) (lo0 : Nat),
    RGeo ts lo hi → MSorted acc lo0 lo →
    MSorted (mergeMarkers ts acc) lo0 hi ∧ ∀ i, mcov (mergeMarkers ts acc) i ↔ (mcov acc i ∨ rcov ts i)
  | [], lo, hi, acc, lo0, hg, ha => by
    simp only [RGeo] at hg
    refine ⟨MSorted_widen acc lo0 lo lo0 hi ha (Nat.le_refl _) hg, ?_⟩
    intro i; simp [mergeMarkers, rcov]
  | t :: ts, lo, hi, acc, lo0, hg, ha => by
    simp only [RGeo] at hg
    obtain ⟨mid, ht, hts⟩ := hg
    obtain ⟨h1, c1⟩ := mergeTree_spec t lo mid acc lo0 ht ha
    obtain ⟨h2, c2⟩ := mergeMarkers_spec ts mid hi (mergeTree t acc) lo0 hts h1
    refine ⟨by simpa [mergeMarkers] using h2, ?_⟩
    intro i
    simp only [mergeMarkers, rcov]
    rw [c2 i, c1 i]
    constructor
    · rintro ((h | h) | h)
      · exact Or.inl h
      · exact Or.inr (Or.inl h)
      · exact Or.inr (Or.inr h)
    · rintro (h | h | h)
      · exact Or.inl (Or.inl h)
      · exact Or.inl (Or.inr h)
      · exact Or.inr h
theorem mergeTree_spec : ∀ (t : RTree) (lo hi : Nat) (acc : List Marker) (lo0 : Nat),
    RTreeGeo t lo hi → MSorted acc lo0 lo →
    MSorted (mergeTree t acc) lo0 hi ∧ ∀ i, mcov (mergeTree t acc) i ↔ (mcov acc i ∨ rtcov t i)
  | .node r pair ch, lo, hi, acc, lo0, hg, ha => by
    cases pair with
    | none =>
      simp only [RTreeGeo] at hg
      obtain ⟨g1, g2, g3, gch⟩ := hg
      obtain ⟨hcm, ccm⟩ := mergeMarkers_spec ch r.1 r.2 [] r.1 gch (by simp [MSorted])
      obtain ⟨k, E, hk, e1, e2, e3, e4, e5⟩ := mergeChild_head (mergeMarkers ch []) r.1 r.2 r.1 r.2 hcm
        (Nat.le_refl _) (Nat.le_refl _)
      have hE : E = r.2 := by omega
      subst hE
      have hres : mergeTree (.node r none ch) acc = acc ++ [⟨r.1, r.2, none⟩] := by
        simp only [mergeTree]
        rw [show (r : Rng) = (r.1, r.2) from rfl, hk]
      rw [hres]
      refine ⟨?_, ?_⟩
      · rw [MSorted_append]
        exact ⟨lo, ha, g1, g2, g3⟩
      · intro i
        rw [mcov_append, mcov_singleton]
        simp only [rtcov]
        constructor
        · rintro (h | h)
          · exact Or.inl h
          · exact Or.inr (Or.inl h)
        · rintro (h | h | h | h)
          · exact Or.inl h
          · exact Or.inr h
          · exact absurd h (by simp)
          · have hc : mcov (mergeMarkers ch []) i := (ccm i).mpr (Or.inr h)
            exact Or.inr (mcov_bounds _ r.1 r.2 i hcm hc)
    | some t =>
      simp only [RTreeGeo] at hg
      obtain ⟨g1, g2, g3, g4, g5, a, b, ga, gb1, gb2, gb3, gch⟩ := hg
      obtain ⟨hcm, ccm⟩ := mergeMarkers_spec ch a b [] a gch (by simp [MSorted])
      have hab := MSorted_le _ a b hcm
      obtain ⟨k, E, hk, e1, e2, e3, e4, e5⟩ := mergeChild_head (mergeMarkers ch []) r.1 r.2 a b hcm
        (by omega) gb1
      have hdesc : MDesc ((mergeMarkers ch []).drop k).reverse E b :=
        (MSorted_iff_MDesc_reverse _ E b).mp e4
      obtain ⟨n, T, hn, t1, t2, t3, t3', t4, t5⟩ := mergeChild_tail ((mergeMarkers ch []).drop k).reverse
        t.1 t.2 E b hdesc gb3 g4
      simp only [List.length_reverse, List.length_drop] at t2
      -- coverage of the children, split into absorbed-by-head / middle / absorbed-by-tail
      have hcov_split : ∀ i, mcov (mergeMarkers ch []) i ↔
          (mcov ((mergeMarkers ch []).take k) i ∨
            mcov (((mergeMarkers ch []).drop k).take ((mergeMarkers ch []).length - n - k)) i ∨
            mcov (((mergeMarkers ch []).drop k).reverse.take n) i) := by
        intro i
        have s1 : mergeMarkers ch [] = (mergeMarkers ch []).take k ++ (mergeMarkers ch []).drop k :=
          (List.take_append_drop k _).symm
        have s2 : (mergeMarkers ch []).drop k =
            ((mergeMarkers ch []).drop k).take ((mergeMarkers ch []).length - n - k) ++
            ((mergeMarkers ch []).drop k).drop ((mergeMarkers ch []).length - n - k) :=
          (List.take_append_drop _ _).symm
        have s3 : ((mergeMarkers ch []).drop k).reverse.take n =
            (((mergeMarkers ch []).drop k).drop ((mergeMarkers ch []).length - n - k)).reverse := by
          rw [List.take_reverse]
          simp only [List.length_drop]
          congr 2
          omega
        rw [s3, mcov_reverse]
        conv => lhs; rw [s1, mcov_append]
        conv => lhs; rhs; rw [s2, mcov_append]
      have hshape : mergeTree (.node r (some t) ch) acc =
          if E ≥ T then acc ++ [⟨r.1, t.2, none⟩]
          else acc ++ [⟨r.1, E, some (acc.length + ((mergeMarkers ch []).length - n - k) + 1)⟩]
              ++ (((mergeMarkers ch []).drop k).take ((mergeMarkers ch []).length - n - k)).map
                  (rebase k ((mergeMarkers ch []).length - n) acc.length)
              ++ [⟨T, t.2, some acc.length⟩] := by
        simp only [mergeTree]
        rw [show (r : Rng) = (r.1, r.2) from rfl, hk]
        simp only
        rw [show (t : Rng) = (t.1, t.2) from rfl, hn]
      rw [hshape]
      by_cases hET : E ≥ T
      · rw [if_pos hET]
        refine ⟨?_, ?_⟩
        · rw [MSorted_append]
          exact ⟨lo, ha, (MSorted_single _ _ _ _ _).mpr ⟨g1, by omega, g5⟩⟩
        · intro i
          rw [mcov_append, mcov_singleton]
          simp only [rtcov]
          constructor
          · rintro (h | ⟨h1, h2⟩)
            · exact Or.inl h
            · right
              by_cases hi : i < E
              · rcases (e5 i).mp ⟨h1, hi⟩ with h | h
                · exact Or.inl h
                · right; right
                  exact (ccm i).mp ((hcov_split i).mpr (Or.inl h)) |>.resolve_left (mcov_nil i)
              · rcases (t5 i).mp ⟨by omega, h2⟩ with h | h
                · exact Or.inr (Or.inl h)
                · right; right
                  exact (ccm i).mp ((hcov_split i).mpr (Or.inr (Or.inr h))) |>.resolve_left (mcov_nil i)
          · rintro (h | h | h | h)
            · exact Or.inl h
            · exact Or.inr ⟨h.1, by omega⟩
            · exact Or.inr ⟨by omega, h.2⟩
            · have hc : mcov (mergeMarkers ch []) i := (ccm i).mpr (Or.inr h)
              have := mcov_bounds _ a b i hcm hc
              exact Or.inr ⟨by omega, by omega⟩
      · rw [if_neg hET]
        have hETlt : E < T := by omega
        -- the middle markers
        have hmid : MSorted (((mergeMarkers ch []).drop k).take ((mergeMarkers ch []).length - n - k)) E T := by
          have hd : ((mergeMarkers ch []).drop k).reverse.drop n =
              (((mergeMarkers ch []).drop k).take ((mergeMarkers ch []).length - n - k)).reverse := by
            rw [List.drop_reverse]
            simp only [List.length_drop]
            congr 2
            omega
          rcases t3 with h | h
          · rw [hd] at h
            have : ((mergeMarkers ch []).drop k).take ((mergeMarkers ch []).length - n - k) = [] := by
              simpa using h
            rw [this]; simp only [MSorted]; omega
          · rw [hd] at h
            exact (MSorted_iff_MDesc_reverse _ E T).mpr h
        refine ⟨?_, ?_⟩
        · rw [MSorted_append, ]
          refine ⟨T, ?_, (MSorted_single _ _ _ _ _).mpr ⟨Nat.le_refl _, by omega, g5⟩⟩
          rw [MSorted_append]
          refine ⟨E, ?_, (MSorted_map_rebase _ _ _ _ E T).mpr hmid⟩
          rw [MSorted_append]
          exact ⟨lo, ha, (MSorted_single _ _ _ _ _).mpr ⟨g1, by omega, Nat.le_refl _⟩⟩
        · intro i
          rw [mcov_append, mcov_append, mcov_append, mcov_singleton, mcov_singleton, mcov_map_rebase]
          simp only [rtcov]
          constructor
          · rintro (((h | h) | h) | h)
            · exact Or.inl h
            · right
              rcases (e5 i).mp h with h | h
              · exact Or.inl h
              · right; right
                exact (ccm i).mp ((hcov_split i).mpr (Or.inl h)) |>.resolve_left (mcov_nil i)
            · right; right; right
              exact (ccm i).mp ((hcov_split i).mpr (Or.inr (Or.inl h))) |>.resolve_left (mcov_nil i)
            · right
              rcases (t5 i).mp h with h | h
              · exact Or.inr (Or.inl h)
              · right; right
                exact (ccm i).mp ((hcov_split i).mpr (Or.inr (Or.inr h))) |>.resolve_left (mcov_nil i)
          · rintro (h | h | h | h)
            · exact Or.inl (Or.inl (Or.inl h))
            · exact Or.inl (Or.inl (Or.inr ((e5 i).mpr (Or.inl h))))
            · exact Or.inr ((t5 i).mpr (Or.inl h))
            · have hc : mcov (mergeMarkers ch []) i := (ccm i).mpr (Or.inr h)
              rcases (hcov_split i).mp hc with h | h | h
              · exact Or.inl (Or.inl (Or.inr ((e5 i).mpr (Or.inr h))))
              · exact Or.inl (Or.inr h)
              · exact Or.inr ((t5 i).mpr (Or.inr h))
end

end Chiritori
