import Chiritori.Lemmas.StackParse
/-
  Re-parsing: a forest the parser can produce (`OKS`) is a fixed point of `parse ∘ flatten`, the parser's output
  is such a forest, and so is what remains of it when whole elements are taken out.  Hence removing elements from
  a document and parsing the rest gives the rest of the forest: removals create no new pairings.
-/
namespace Chiritori
open Spec

/-- a tag that closes one of the open names -/
def closerCond (el : Element) (names : List (List Char)) : Prop :=
  el.name.head? = some '/' ∧ names.any (· == trimSlashes el.name) = true

instance (el : Element) (names : List (List Char)) : Decidable (closerCond el names) := by
  unfold closerCond; exact inferInstance

/-- the names open behind a part: a tag left as text (an unclosed opener) stays open for its later siblings -/
def ctxOf (ds de : List Char) (names : List (List Char)) : Part → List (List Char)
  | .text t => match elparse ds de t with
    | none => names
    | some el => el.name :: names
  | .element _ _ _ _ => names

/-- names of the unclosed openers at the top level of a sibling list -/
def demotedNames (ds de : List Char) : List Part → List (List Char)
  | [] => []
  | .text t :: rest => (match elparse ds de t with | some el => [el.name] | none => []) ++ demotedNames ds de rest
  | .element _ _ _ _ :: rest => demotedNames ds de rest

mutual
/-- sibling lists the stack machine can produce under the open names `names` (innermost first) -/
def OKS (ds de : List Char) : List (List Char) → List Part → Prop
  | _, [] => True
  | names, p :: rest => OKP ds de names p ∧ OKS ds de (ctxOf ds de names p) rest
def OKP (ds de : List Char) : List (List Char) → Part → Prop
  | names, .text t => match elparse ds de t with
    | none => True
    | some el => ¬ closerCond el names
  | names, .element el st en ch =>
    elparse ds de st = some el ∧ ¬ closerCond el names ∧
    (∃ e', elparse ds de en = some e' ∧ e'.name.head? = some '/' ∧ trimSlashes e'.name = el.name) ∧
    OKS ds de (el.name :: names) ch ∧ el.name ∉ demotedNames ds de ch
end

/-- the state of the machine after it has consumed the tokens of a sibling list -/
def distribute (ds de : List Char) : List Frame × List Part → List Part → List Frame × List Part
  | st, [] => st
  | (S, r), .text t :: rest =>
    match elparse ds de t with
    | none => distribute ds de (appendTo S r [.text t]) rest
    | some el => distribute ds de (⟨t, el, []⟩ :: S, r) rest
  | (S, r), .element el st en ch :: rest => distribute ds de (appendTo S r [.element el st en ch]) rest

theorem any_frameNames (S : List Frame) (x : List Char) :
    S.any (fun f => f.el.name == x) = (frameNames S).any (· == x) := by
  simp [frameNames, List.any_map, Function.comp_def]

theorem stackStep_text (ds de : List Char) (S : List Frame) (r : List Part) (t : Token) (h : elparse ds de t = none) :
    stackStep ds de (S, r) t = appendTo S r [.text t] := by
  simp [stackStep, h]

theorem stackStep_open (ds de : List Char) (S : List Frame) (r : List Part) (t : Token) (el : Element)
    (h : elparse ds de t = some el) (hc : ¬ closerCond el (frameNames S)) :
    stackStep ds de (S, r) t = (⟨t, el, []⟩ :: S, r) := by
  simp only [stackStep, h]
  rw [if_neg]
  intro hh
  apply hc
  exact ⟨hh.1, by rw [← any_frameNames]; exact hh.2⟩

/-! ### unwinding the frames of unclosed openers puts the siblings back in order -/

theorem closeFrame_parts_shift (name : List Char) (c : Token) (f : Frame) (T : List Frame) (r X h : List Part) :
    closeFrame name c ({ f with parts := f.parts ++ X } :: T) r h = closeFrame name c (f :: T) r (X ++ h) := by
  simp only [closeFrame]
  split <;> simp [List.append_assoc]

theorem distribute_root (ds de : List Char) : ∀ (ch : List Part) (f0 : Frame) (T : List Frame) (r : List Part),
    (distribute ds de (f0 :: T, r) ch).2 = r
  | [], _, _, _ => rfl
  | .text t :: rest, f0, T, r => by
    simp only [distribute]
    split
    · simp only [appendTo]; exact distribute_root ds de rest _ T r
    · exact distribute_root ds de rest _ (f0 :: T) r
  | .element el st en c :: rest, f0, T, r => by
    simp only [distribute, appendTo]; exact distribute_root ds de rest _ T r

/-- Lemma D: closing `name` over the frames a sibling list left behind = closing it with the siblings hoisted -/
theorem closeFrame_distribute (ds de : List Char) (name : List Char) (c : Token) :
    ∀ (ch : List Part) (f0 : Frame) (T : List Frame) (r h : List Part), name ∉ demotedNames ds de ch →
    closeFrame name c (distribute ds de (f0 :: T, r) ch).1 r h = closeFrame name c (f0 :: T) r (ch ++ h)
  | [], _, _, _, _, _ => rfl
  | .text t :: rest, f0, T, r, h, hn => by
    simp only [distribute]
    cases he : elparse ds de t with
    | none =>
      simp only [demotedNames, he, List.nil_append] at hn
      simp only [appendTo]
      rw [closeFrame_distribute ds de name c rest _ T r h hn, closeFrame_parts_shift]
      simp
    | some el =>
      simp only [demotedNames, he, List.singleton_append, List.mem_cons, not_or] at hn
      simp only
      rw [closeFrame_distribute ds de name c rest _ (f0 :: T) r h hn.2]
      simp only [closeFrame]
      rw [if_neg (by exact fun hh => hn.1 hh.symm)]
      simp
  | .element el st en cc :: rest, f0, T, r, h, hn => by
    simp only [demotedNames] at hn
    simp only [distribute, appendTo]
    rw [closeFrame_distribute ds de name c rest _ T r h hn, closeFrame_parts_shift]
    simp

theorem finishStack_parts_shift (f : Frame) (T : List Frame) (r X h : List Part) :
    finishStack ({ f with parts := f.parts ++ X } :: T) h r = finishStack (f :: T) (X ++ h) r := by
  simp [finishStack, List.append_assoc]

/-- Lemma F: the same for the end of input -/
theorem finishStack_distribute (ds de : List Char) : ∀ (ch : List Part) (f0 : Frame) (T : List Frame) (r h : List Part),
    finishStack (distribute ds de (f0 :: T, r) ch).1 h r = finishStack (f0 :: T) (ch ++ h) r
  | [], _, _, _, _ => rfl
  | .text t :: rest, f0, T, r, h => by
    simp only [distribute]
    cases he : elparse ds de t with
    | none =>
      simp only [appendTo]
      rw [finishStack_distribute ds de rest _ T r h, finishStack_parts_shift]
      simp
    | some el =>
      simp only
      rw [finishStack_distribute ds de rest _ (f0 :: T) r h]
      simp [finishStack]
  | .element el st en cc :: rest, f0, T, r, h => by
    simp only [distribute, appendTo]
    rw [finishStack_distribute ds de rest _ T r h, finishStack_parts_shift]
    simp

/-- at the root: parts go to the root until the first unclosed opener -/
theorem finishStack_distribute_root (ds de : List Char) : ∀ (ch r h : List Part),
    finishStack (distribute ds de ([], r) ch).1 h (distribute ds de ([], r) ch).2 = r ++ ch ++ h
  | [], r, h => by simp [distribute, finishStack]
  | .text t :: rest, r, h => by
    simp only [distribute]
    cases he : elparse ds de t with
    | none =>
      simp only [appendTo]
      rw [finishStack_distribute_root ds de rest _ h]
      simp
    | some el =>
      simp only
      rw [distribute_root, finishStack_distribute ds de rest _ [] r h]
      simp [finishStack]
  | .element el st en cc :: rest, r, h => by
    simp only [distribute, appendTo]
    rw [finishStack_distribute_root ds de rest _ h]
    simp

/-! ### R2: running the machine over the tokens of an `OKS` forest -/

def runM (ds de : List Char) (st : List Frame × List Part) (toks : List Token) : List Frame × List Part :=
  toks.foldl (stackStep ds de) st

theorem runM_append (ds de : List Char) (st : List Frame × List Part) (a b : List Token) :
    runM ds de st (a ++ b) = runM ds de (runM ds de st a) b := by
  simp [runM, List.foldl_append]

theorem frameNames_distribute_top (ds de : List Char) : ∀ (ch : List Part) (S : List Frame) (r : List Part),
    frameNames (distribute ds de (S, r) ch).1 = (demotedNames ds de ch).reverse ++ frameNames S
  | [], S, r => by simp [distribute, demotedNames]
  | .text t :: rest, S, r => by
    simp only [distribute, demotedNames]
    cases he : elparse ds de t with
    | none =>
      simp only [List.nil_append]
      have := frameNames_distribute_top ds de rest (appendTo S r [.text t]).1 (appendTo S r [.text t]).2
      rw [frameNames_appendTo] at this
      exact this
    | some el =>
      simp only
      rw [frameNames_distribute_top ds de rest _ r]
      simp [frameNames]
  | .element el st en cc :: rest, S, r => by
    simp only [distribute, demotedNames]
    have := frameNames_distribute_top ds de rest (appendTo S r [.element el st en cc]).1 (appendTo S r [.element el st en cc]).2
    rw [frameNames_appendTo] at this
    exact this

theorem distribute_cons (ds de : List Char) (st : List Frame × List Part) (p : Part) (rest : List Part) :
    distribute ds de st (p :: rest) = distribute ds de (distribute ds de st [p]) rest := by
  obtain ⟨S, r⟩ := st
  cases p with
  | text t =>
    simp only [distribute]
    split <;> rfl
  | element el st en ch => simp only [distribute]

theorem frameNames_distribute_one (ds de : List Char) (S : List Frame) (r : List Part) (p : Part) :
    frameNames (distribute ds de (S, r) [p]).1 = ctxOf ds de (frameNames S) p := by
  cases p with
  | text t =>
    simp only [distribute, ctxOf]
    cases he : elparse ds de t with
    | none => simp only [distribute]; exact frameNames_appendTo S r _
    | some el => simp [distribute, frameNames]
  | element el st en ch =>
    simp only [distribute, ctxOf]; exact frameNames_appendTo S r _

mutual
/-- R2: over the tokens of an `OKS` sibling list the machine ends in the state `distribute` describes -/
theorem run_parts (ds de : List Char) : ∀ (H : List Part) (S : List Frame) (r : List Part),
    OKS ds de (frameNames S) H → runM ds de (S, r) (flattenParts H) = distribute ds de (S, r) H
  | [], S, r, _ => rfl
  | p :: rest, S, r, h => by
    simp only [OKS] at h
    obtain ⟨h1, h2⟩ := h
    have e := distribute_cons ds de (S, r) p rest
    have hn := frameNames_distribute_one ds de S r p
    rw [flattenParts, runM_append, run_part ds de p S r h1]
    generalize hst : distribute ds de (S, r) [p] = st at hn e
    obtain ⟨S', r'⟩ := st
    rw [← hn] at h2
    rw [e]
    exact run_parts ds de rest S' r' h2
theorem run_part (ds de : List Char) : ∀ (p : Part) (S : List Frame) (r : List Part),
    OKP ds de (frameNames S) p → runM ds de (S, r) (flattenPart p) = distribute ds de (S, r) [p]
  | .text t, S, r, h => by
    simp only [OKP] at h
    simp only [flattenPart, runM, List.foldl_cons, List.foldl_nil, distribute]
    cases he : elparse ds de t with
    | none => simp only [distribute]; exact stackStep_text ds de S r t he
    | some el =>
      rw [he] at h
      simp only [distribute]
      exact stackStep_open ds de S r t el he h
  | .element el st en ch, S, r, h => by
    simp only [OKP] at h
    obtain ⟨h1, h2, ⟨e', h3, h4, h5⟩, h6, h7⟩ := h
    have hflat : flattenPart (.element el st en ch) = [st] ++ (flattenParts ch ++ [en]) := by simp [flattenPart]
    rw [hflat, runM_append, runM_append]
    have hst : runM ds de (S, r) [st] = (⟨st, el, []⟩ :: S, r) := by
      simp only [runM, List.foldl_cons, List.foldl_nil]
      exact stackStep_open ds de S r st el h1 h2
    rw [hst, run_parts ds de ch (⟨st, el, []⟩ :: S) r (by simpa [frameNames] using h6)]
    -- the closing tag
    simp only [runM, List.foldl_cons, List.foldl_nil, distribute]
    generalize hD : distribute ds de (⟨st, el, []⟩ :: S, r) ch = D
    obtain ⟨DS, Dr⟩ := D
    have hDr : Dr = r := by
      have := distribute_root ds de ch ⟨st, el, []⟩ S r
      rw [hD] at this; exact this
    subst hDr
    have hnames : frameNames DS = (demotedNames ds de ch).reverse ++ el.name :: frameNames S := by
      have := frameNames_distribute_top ds de ch (⟨st, el, []⟩ :: S) Dr
      rw [hD] at this
      simpa [frameNames] using this
    simp only [stackStep, h3]
    have hany : DS.any (fun f => f.el.name == trimSlashes e'.name) = true := by
      rw [any_frameNames, hnames, h5]
      simp
    rw [if_pos ⟨h4, hany⟩, h5]
    have hcf := closeFrame_distribute ds de el.name en ch ⟨st, el, []⟩ S Dr [] h7
    rw [hD] at hcf
    simp only at hcf
    rw [hcf]
    simp [closeFrame]
end

/-- a forest the machine can produce is what the machine makes of its tokens -/
theorem stackParse_flatten_of_OKS (ds de : List Char) (H : List Part) (h : OKS ds de [] H) :
    stackParse ds de (flattenParts H) = H := by
  unfold stackParse
  have := run_parts ds de H [] [] (by simpa [frameNames] using h)
  simp only [runM] at this
  rw [this]
  have := finishStack_distribute_root ds de H [] []
  simpa using this

end Chiritori

namespace Chiritori
open Spec

/-! ### R1: what the machine produces is an `OKS` forest -/

theorem demotedNames_append (ds de : List Char) : ∀ (a b : List Part),
    demotedNames ds de (a ++ b) = demotedNames ds de a ++ demotedNames ds de b
  | [], b => by simp [demotedNames]
  | .text t :: rest, b => by simp [demotedNames, demotedNames_append ds de rest b, List.append_assoc]
  | .element _ _ _ _ :: rest, b => by simp [demotedNames, demotedNames_append ds de rest b]

theorem OKS_append_nodemoted (ds de : List Char) : ∀ (a b : List Part) (names : List (List Char)),
    demotedNames ds de a = [] → (OKS ds de names (a ++ b) ↔ OKS ds de names a ∧ OKS ds de names b)
  | [], b, names, _ => by simp [OKS]
  | .text t :: rest, b, names, h => by
    simp only [demotedNames] at h
    cases he : elparse ds de t with
    | some el => rw [he] at h; simp at h
    | none =>
      rw [he] at h
      simp only [List.nil_append] at h
      simp only [List.cons_append, OKS, ctxOf, he]
      rw [OKS_append_nodemoted ds de rest b names h]
      constructor
      · rintro ⟨h1, h2, h3⟩; exact ⟨⟨h1, h2⟩, h3⟩
      · rintro ⟨⟨h1, h2⟩, h3⟩; exact ⟨h1, h2, h3⟩
  | .element el st en ch :: rest, b, names, h => by
    simp only [demotedNames] at h
    simp only [List.cons_append, OKS, ctxOf]
    rw [OKS_append_nodemoted ds de rest b names h]
    constructor
    · rintro ⟨h1, h2, h3⟩; exact ⟨⟨h1, h2⟩, h3⟩
    · rintro ⟨⟨h1, h2⟩, h3⟩; exact ⟨h1, h2, h3⟩

/-- a frame of the machine: its tag is not a closer of what is open below it, its parts are fine and contain no
    unclosed opener at the top level (those sit in the frames above) -/
def FrameOK (ds de : List Char) (below : List (List Char)) (f : Frame) : Prop :=
  elparse ds de f.tok = some f.el ∧ ¬ closerCond f.el below ∧ OKS ds de (f.el.name :: below) f.parts ∧
  demotedNames ds de f.parts = []

def StackOK (ds de : List Char) : List Frame → Prop
  | [] => True
  | f :: fs => FrameOK ds de (frameNames fs) f ∧ StackOK ds de fs

def StateOK (ds de : List Char) (st : List Frame × List Part) : Prop :=
  StackOK ds de st.1 ∧ OKS ds de [] st.2 ∧ demotedNames ds de st.2 = []

theorem appendTo_ok (ds de : List Char) (S : List Frame) (r : List Part) (p : Part)
    (h : StateOK ds de (S, r)) (hp : OKP ds de (frameNames S) p) (hd : demotedNames ds de [p] = []) :
    StateOK ds de (appendTo S r [p]) := by
  obtain ⟨h1, h2, h3⟩ := h
  cases S with
  | nil =>
    simp only [appendTo]
    refine ⟨trivial, ?_, by rw [demotedNames_append, h3, hd]; rfl⟩
    rw [OKS_append_nodemoted ds de r [p] [] h3]
    exact ⟨h2, by simp only [OKS]; exact ⟨by simpa [frameNames] using hp, trivial⟩⟩
  | cons f fs =>
    simp only [appendTo]
    obtain ⟨⟨f1, f2, f3, f4⟩, hs⟩ := h1
    refine ⟨⟨⟨f1, f2, ?_, by rw [demotedNames_append, f4, hd]; rfl⟩, hs⟩, h2, h3⟩
    rw [OKS_append_nodemoted ds de f.parts [p] _ f4]
    exact ⟨f3, by simp only [OKS]; exact ⟨by simpa [frameNames] using hp, trivial⟩⟩

/-- unwinding towards a closer: the hoisted parts are fine behind the current frame's parts -/
theorem closeFrame_ok (ds de : List Char) (name : List Char) (c : Token) (e' : Element)
    (hc1 : elparse ds de c = some e') (hc2 : e'.name.head? = some '/') (hc3 : trimSlashes e'.name = name) :
    ∀ (S : List Frame) (r h : List Part) (res : List Frame × List Part),
    StateOK ds de (S, r) →
    (∀ f fs, S = f :: fs → OKS ds de (f.el.name :: frameNames fs) h) → name ∉ demotedNames ds de h →
    closeFrame name c S r h = some res → StateOK ds de res
  | [], _, _, _, _, _, _, hcl => by simp [closeFrame] at hcl
  | f :: fs, r, h, res, hst, hh, hn, hcl => by
    obtain ⟨⟨⟨f1, f2, f3, f4⟩, hs⟩, h2, h3⟩ := hst
    have hhf := hh f fs rfl
    simp only [closeFrame] at hcl
    by_cases hm : f.el.name = name
    · rw [if_pos hm] at hcl
      injection hcl with hcl
      rw [← hcl]
      apply appendTo_ok ds de fs r _ ⟨hs, h2, h3⟩
      · simp only [OKP]
        refine ⟨f1, f2, ⟨e', hc1, hc2, by rw [hc3, hm]⟩, ?_, ?_⟩
        · rw [OKS_append_nodemoted ds de f.parts h _ f4]
          exact ⟨f3, hhf⟩
        · rw [demotedNames_append, f4, List.nil_append, hm]; exact hn
      · simp [demotedNames]
    · rw [if_neg hm] at hcl
      apply closeFrame_ok ds de name c e' hc1 hc2 hc3 fs r _ res ⟨hs, h2, h3⟩ _ _ hcl
      · intro g gs hg
        subst hg
        simp only [OKS, OKP, f1, ctxOf]
        refine ⟨by simpa [frameNames] using f2, ?_⟩
        rw [OKS_append_nodemoted ds de f.parts h _ f4]
        exact ⟨by simpa [frameNames] using f3, by simpa [frameNames] using hhf⟩
      · simp only [demotedNames, f1, List.singleton_append, List.mem_cons, not_or]
        refine ⟨fun h' => hm h'.symm, ?_⟩
        rw [demotedNames_append, f4, List.nil_append]; exact hn

theorem stackStep_ok (ds de : List Char) (st : List Frame × List Part) (t : Token) (h : StateOK ds de st) :
    StateOK ds de (stackStep ds de st t) := by
  obtain ⟨S, r⟩ := st
  simp only [stackStep]
  cases he : elparse ds de t with
  | none =>
    simp only
    exact appendTo_ok ds de S r _ h (by simp [OKP, he]) (by simp [demotedNames, he])
  | some el =>
    simp only
    split
    · rename_i hcond
      cases hcl : closeFrame (trimSlashes el.name) t S r [] with
      | none => simpa using h
      | some res =>
        simp only
        exact closeFrame_ok ds de _ t el he hcond.1 rfl S r [] res h (fun _ _ _ => by simp [OKS]) (by simp [demotedNames]) hcl
    · rename_i hcond
      obtain ⟨h1, h2, h3⟩ := h
      refine ⟨⟨⟨he, ?_, by simp [OKS], by simp [demotedNames]⟩, h1⟩, h2, h3⟩
      intro hc
      apply hcond
      exact ⟨hc.1, by rw [any_frameNames]; exact hc.2⟩

theorem runM_ok (ds de : List Char) : ∀ (toks : List Token) (st : List Frame × List Part), StateOK ds de st →
    StateOK ds de (runM ds de st toks)
  | [], _, h => h
  | t :: ts, st, h => by
    simp only [runM, List.foldl_cons]
    exact runM_ok ds de ts _ (stackStep_ok ds de st t h)

/-- unwinding at the end of input -/
theorem finishStack_ok (ds de : List Char) : ∀ (S : List Frame) (r h : List Part),
    StateOK ds de (S, r) → (∀ f fs, S = f :: fs → OKS ds de (f.el.name :: frameNames fs) h) →
    (S = [] → OKS ds de [] h) → OKS ds de [] (finishStack S h r)
  | [], r, h, hst, _, h0 => by
    obtain ⟨_, h2, h3⟩ := hst
    simp only [finishStack]
    rw [OKS_append_nodemoted ds de r h [] h3]
    exact ⟨h2, h0 rfl⟩
  | f :: fs, r, h, hst, hh, _ => by
    obtain ⟨⟨⟨f1, f2, f3, f4⟩, hs⟩, h2, h3⟩ := hst
    have hhf := hh f fs rfl
    simp only [finishStack]
    have hnew : ∀ names, names = frameNames fs → OKS ds de names (.text f.tok :: (f.parts ++ h)) := by
      intro names hn
      subst hn
      simp only [OKS, OKP, f1, ctxOf]
      refine ⟨f2, ?_⟩
      rw [OKS_append_nodemoted ds de f.parts h _ f4]
      exact ⟨f3, hhf⟩
    apply finishStack_ok ds de fs r _ ⟨hs, h2, h3⟩
    · intro g gs hg
      subst hg
      exact hnew _ (by simp [frameNames])
    · intro hnil
      subst hnil
      exact hnew [] (by simp [frameNames])

/-- R1 -/
theorem stackParse_OKS (ds de : List Char) (toks : List Token) : OKS ds de [] (stackParse ds de toks) := by
  unfold stackParse
  have h := runM_ok ds de toks ([], []) ⟨trivial, by simp [OKS], by simp [demotedNames]⟩
  simp only [runM] at h
  generalize hst : toks.foldl (stackStep ds de) ([], []) = st at h
  obtain ⟨S, r⟩ := st
  exact finishStack_ok ds de S r [] h (fun _ _ _ => by simp [OKS]) (fun _ => by simp [OKS])

theorem parse_OKS (ds de : List Char) (toks : List Token) : OKS ds de [] (parse ds de toks) := by
  rw [parse_eq_stackParse]; exact stackParse_OKS ds de toks

end Chiritori

namespace Chiritori
open Spec

/-! ### R3: taking whole elements out -/

mutual
/-- the forest without the elements selected by `P` (with everything inside them) -/
def pruneParts (P : Element → Bool) : List Part → List Part
  | [] => []
  | p :: ps => prunePart P p ++ pruneParts P ps
def prunePart (P : Element → Bool) : Part → List Part
  | .text t => [.text t]
  | .element el st en ch => if P el then [] else [.element el st en (pruneParts P ch)]
end

theorem demotedNames_prune (ds de : List Char) (P : Element → Bool) : ∀ (H : List Part),
    demotedNames ds de (pruneParts P H) = demotedNames ds de H
  | [] => rfl
  | .text t :: rest => by
    simp only [pruneParts, prunePart, List.singleton_append, demotedNames, demotedNames_prune ds de P rest]
  | .element el st en ch :: rest => by
    simp only [pruneParts, prunePart, demotedNames]
    split
    · simp [demotedNames_prune ds de P rest]
    · simp [demotedNames, demotedNames_prune ds de P rest]

mutual
theorem OKS_prune (ds de : List Char) (P : Element → Bool) : ∀ (H : List Part) (names : List (List Char)),
    OKS ds de names H → OKS ds de names (pruneParts P H)
  | [], _, _ => by simp [pruneParts, OKS]
  | .text t :: rest, names, h => by
    simp only [OKS] at h
    simp only [pruneParts, prunePart, List.singleton_append, OKS]
    exact ⟨h.1, OKS_prune ds de P rest _ h.2⟩
  | .element el st en ch :: rest, names, h => by
    simp only [OKS, ctxOf] at h
    obtain ⟨h1, h2⟩ := h
    simp only [pruneParts, prunePart]
    split
    · simpa using OKS_prune ds de P rest names h2
    · simp only [List.singleton_append, OKS, ctxOf]
      refine ⟨?_, OKS_prune ds de P rest names h2⟩
      simp only [OKP] at h1 ⊢
      obtain ⟨a1, a2, a3, a4, a5⟩ := h1
      exact ⟨a1, a2, a3, OKS_prune ds de P ch _ a4, by rw [demotedNames_prune]; exact a5⟩
end

/-- removals create no new pairings: parsing what is left of a document after whole elements were taken out
    gives what is left of its forest -/
theorem parse_pruned (ds de : List Char) (P : Element → Bool) (toks : List Token) :
    parse ds de (flattenParts (pruneParts P (parse ds de toks))) = pruneParts P (parse ds de toks) := by
  rw [parse_eq_stackParse ds de (flattenParts _)]
  exact stackParse_flatten_of_OKS ds de _ (OKS_prune ds de P _ [] (parse_OKS ds de toks))

end Chiritori
