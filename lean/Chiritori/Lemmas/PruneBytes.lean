import Chiritori.Lemmas.Skeleton
import Chiritori.Lemmas.C14Default
/-
  Default-strategy removal at token level: the ready extents cover whole tokens - exactly the tokens of the
  elements whose condition holds - so the tokens that survive are the tokens of the pruned forest.
-/
namespace Chiritori
open Spec

theorem BSpan_mem (ts : List Token) (lo hi : Nat) (h : BSpan ts lo hi) :
    ∀ t ∈ ts, lo ≤ t.bstart ∧ t.bstart < t.bstop ∧ t.bstop ≤ hi := by
  induction ts generalizing lo with
  | nil => intro t ht; cases ht
  | cons a as ih =>
    obtain ⟨h1, h2, h3⟩ := h
    have hle := BSpan_le as a.bstop hi h3
    intro t ht
    rcases List.mem_cons.mp ht with rfl | ht
    · exact ⟨by omega, h2, hle⟩
    · have := ih a.bstop h3 t ht
      omega

theorem extentOf_default (b : Bytes) (el : Element) (st en : Token) (hu : hasAttr el "unwrap-block" = false)
    (hlt : st.bstart < en.bstop) : extentOf b el st en = [(st.bstart, en.bstop)] := by
  simp [extentOf, hu, hlt]

mutual
/-- the extents of a forest lie inside its span -/
theorem extents_within (cfg : Cfg) (b : Bytes) : ∀ (parts : List Part) (lo hi : Nat),
    BSpan (flattenParts parts) lo hi → NoReadyUnwrap cfg parts →
    ∀ i, inAny (extentsOfParts cfg b parts) i = true → lo ≤ i ∧ i < hi
  | [], _, _, _, _, i, hi' => by simp [extentsOfParts, inAny] at hi'
  | p :: ps, lo, hi, hs, hnu, i, hi' => by
    simp only [flattenParts, BSpan_append] at hs
    obtain ⟨mid, hs1, hs2⟩ := hs
    have h1 := BSpan_le _ lo mid hs1
    have h2 := BSpan_le _ mid hi hs2
    simp only [extentsOfParts, inAny_append, Bool.or_eq_true] at hi'
    rcases hi' with h | h
    · have := extentsPart_within cfg b p lo mid hs1 (fun e he => hnu e (by simp [elementsOf, he])) i h
      omega
    · have := extents_within cfg b ps mid hi hs2 (fun e he => hnu e (by simp [elementsOf, he])) i h
      omega
theorem extentsPart_within (cfg : Cfg) (b : Bytes) : ∀ (p : Part) (lo hi : Nat),
    BSpan (flattenPart p) lo hi → (∀ e ∈ elementsOfPart p, conditionHolds cfg e.1 = true → hasAttr e.1 "unwrap-block" = false) →
    ∀ i, inAny (extentsOfPart cfg b p) i = true → lo ≤ i ∧ i < hi
  | .text _, _, _, _, _, i, hi' => by simp [extentsOfPart, inAny] at hi'
  | .element el st en ch, lo, hi, hs, hnu, i, hi' => by
    simp only [flattenPart, List.cons_append, BSpan, BSpan_append] at hs
    obtain ⟨hst, hst2, mid, hch, hen1, hen2, hen3⟩ := hs
    have hmid := BSpan_le _ st.bstop mid hch
    simp only [extentsOfPart, inAny_append, Bool.or_eq_true] at hi'
    rcases hi' with h | h
    · by_cases hc : conditionHolds cfg el = true
      · rw [if_pos hc, extentOf_default b el st en (hnu (el, st, en) (by simp [elementsOfPart]) hc) (by omega)] at h
        simp [inAny, Rng.contains] at h
        omega
      · rw [if_neg hc] at h; simp [inAny] at h
    · have := extents_within cfg b ch st.bstop mid hch (fun e he => hnu e (by simp [elementsOfPart, he])) i h
      omega
end

mutual
/-- M2: the surviving tokens are those not covered, and a token is covered wholly or not at all -/
theorem prune_tokens (cfg : Cfg) (b : Bytes) (X : List Rng) : ∀ (parts : List Part) (lo hi : Nat),
    BSpan (flattenParts parts) lo hi → NoReadyUnwrap cfg parts →
    (∀ i, lo ≤ i → i < hi → inAny X i = inAny (extentsOfParts cfg b parts) i) →
    flattenParts (pruneParts (conditionHolds cfg) parts) = (flattenParts parts).filter (fun t => !inAny X t.bstart) ∧
    ∀ t ∈ flattenParts parts, ∀ i, t.bstart ≤ i → i < t.bstop → inAny X i = inAny X t.bstart
  | [], _, _, _, _, _ => by simp [pruneParts, flattenParts]
  | p :: ps, lo, hi, hs, hnu, hX => by
    simp only [flattenParts, BSpan_append] at hs
    obtain ⟨mid, hs1, hs2⟩ := hs
    have h1 := BSpan_le _ lo mid hs1
    have h2 := BSpan_le _ mid hi hs2
    have hnu1 : ∀ e ∈ elementsOfPart p, conditionHolds cfg e.1 = true → hasAttr e.1 "unwrap-block" = false :=
      fun e he => hnu e (by simp [elementsOf, he])
    have hnu2 : NoReadyUnwrap cfg ps := fun e he => hnu e (by simp [elementsOf, he])
    obtain ⟨a1, a2⟩ := prunePart_tokens cfg b X p lo mid hs1 hnu1 (by
      intro i hi1 hi2
      rw [hX i hi1 (by omega), extentsOfParts, inAny_append]
      cases hq : inAny (extentsOfParts cfg b ps) i with
      | false => simp
      | true => have := extents_within cfg b ps mid hi hs2 hnu2 i hq; omega)
    obtain ⟨b1, b2⟩ := prune_tokens cfg b X ps mid hi hs2 hnu2 (by
      intro i hi1 hi2
      rw [hX i (by omega) hi2, extentsOfParts, inAny_append]
      cases hq : inAny (extentsOfPart cfg b p) i with
      | false => simp
      | true => have := extentsPart_within cfg b p lo mid hs1 hnu1 i hq; omega)
    refine ⟨?_, ?_⟩
    · simp only [pruneParts, flattenParts, flattenParts_append, List.filter_append, a1, b1]
    · intro t ht
      simp only [flattenParts, List.mem_append] at ht
      rcases ht with ht | ht
      · exact a2 t ht
      · exact b2 t ht
theorem prunePart_tokens (cfg : Cfg) (b : Bytes) (X : List Rng) : ∀ (p : Part) (lo hi : Nat),
    BSpan (flattenPart p) lo hi →
    (∀ e ∈ elementsOfPart p, conditionHolds cfg e.1 = true → hasAttr e.1 "unwrap-block" = false) →
    (∀ i, lo ≤ i → i < hi → inAny X i = inAny (extentsOfPart cfg b p) i) →
    flattenParts (prunePart (conditionHolds cfg) p) = (flattenPart p).filter (fun t => !inAny X t.bstart) ∧
    ∀ t ∈ flattenPart p, ∀ i, t.bstart ≤ i → i < t.bstop → inAny X i = inAny X t.bstart
  | .text t, lo, hi, hs, _, hX => by
    simp only [flattenPart, BSpan] at hs
    obtain ⟨g1, g2, g3⟩ := hs
    have hout : ∀ i, lo ≤ i → i < hi → inAny X i = false := by
      intro i h1 h2; rw [hX i h1 h2]; simp [extentsOfPart, inAny]
    refine ⟨?_, ?_⟩
    · simp only [prunePart, flattenParts, flattenPart, List.append_nil, List.filter_cons, List.filter_nil]
      rw [hout t.bstart (by omega) (by omega)]
      rfl
    · intro t' ht' i hi1 hi2
      simp only [flattenPart, List.mem_singleton] at ht'
      subst ht'
      rw [hout i (by omega) (by omega), hout t'.bstart (by omega) (by omega)]
  | .element el st en ch, lo, hi, hs, hnu, hX => by
    have hs' := hs
    simp only [flattenPart, List.cons_append, BSpan, BSpan_append] at hs
    obtain ⟨hst, hst2, mid, hch, hen1, hen2, hen3⟩ := hs
    have hmid := BSpan_le _ st.bstop mid hch
    have hmem := BSpan_mem _ lo hi hs'
    by_cases hc : conditionHolds cfg el = true
    · -- the whole element is covered
      have hu := hnu (el, st, en) (by simp [elementsOfPart]) hc
      have hin : ∀ i, lo ≤ i → i < hi → inAny X i = true := by
        intro i h1 h2
        rw [hX i h1 h2]
        simp only [extentsOfPart, if_pos hc, extentOf_default b el st en hu (by omega), inAny_append]
        simp [inAny, Rng.contains]; left; omega
      refine ⟨?_, ?_⟩
      · simp only [prunePart, hc, ite_true, flattenParts]
        symm
        rw [List.filter_eq_nil_iff]
        intro t ht
        have := hmem t ht
        simp [hin t.bstart (by omega) (by omega)]
      · intro t ht i hi1 hi2
        have := hmem t ht
        rw [hin i (by omega) (by omega), hin t.bstart (by omega) (by omega)]
    · -- the element stays; its children are treated recursively
      have hXc : ∀ i, lo ≤ i → i < hi → inAny X i = inAny (extentsOfParts cfg b ch) i := by
        intro i h1 h2
        rw [hX i h1 h2]
        simp [extentsOfPart, hc, inAny_append, inAny]
      have hnuc : NoReadyUnwrap cfg ch := fun e he => hnu e (by simp [elementsOfPart, he])
      have hcw := extents_within cfg b ch st.bstop mid hch hnuc
      have hout : ∀ i, lo ≤ i → i < hi → (i < st.bstop ∨ mid ≤ i) → inAny X i = false := by
        intro i h1 h2 h3
        rw [hXc i h1 h2]
        cases hq : inAny (extentsOfParts cfg b ch) i with
        | false => rfl
        | true => have := hcw i hq; omega
      obtain ⟨c1, c2⟩ := prune_tokens cfg b X ch st.bstop mid hch hnuc (fun i h1 h2 => hXc i (by omega) (by omega))
      refine ⟨?_, ?_⟩
      · simp only [prunePart, hc, Bool.false_eq_true, ite_false, flattenParts, flattenPart, List.append_nil,
          List.cons_append, List.filter_cons, List.filter_append, List.filter_nil, c1]
        rw [hout st.bstart (by omega) (by omega) (by omega), hout en.bstart (by omega) (by omega) (by omega)]
        simp
      · intro t ht i hi1 hi2
        simp only [flattenPart, List.mem_cons, List.mem_append, List.mem_singleton, List.not_mem_nil, or_false] at ht
        rcases ht with (rfl | ht) | rfl
        · rw [hout i (by omega) (by omega) (by omega), hout t.bstart (by omega) (by omega) (by omega)]
        · exact c2 t ht i hi1 hi2
        · rw [hout i (by omega) (by omega) (by omega), hout t.bstart (by omega) (by omega) (by omega)]
end

end Chiritori
