import Chiritori.Lemmas.SplitNL
/-
  Every line break of a text token is a token of its own in the finer chain; so a set of ranges all of whose ends are
  token boundaries of the chain or stand directly in front of / behind such a line break covers the tokens of the finer
  chain wholly or not at all.
-/
namespace Chiritori
open Spec

theorem lead_mem_of_bytesOf : ∀ (s : List Char) (c : Char), ABy.lead c ∈ bytesOf s → c ∈ s
  | [], _, h => by simp [bytesOf] at h
  | d :: ds, c, h => by
    simp only [bytesOf, List.mem_append, charBytes, List.mem_cons, List.mem_replicate] at h
    rcases h with (h | h) | h
    · injection h with h; subst h; simp
    · exact absurd h.2 (by simp)
    · exact List.mem_cons_of_mem _ (lead_mem_of_bytesOf ds c h)

theorem charBytes_nl : charBytes '\n' = [NL] := by decide

theorem mkToks_append (k : TKind) : ∀ (a b : List (List Char)) (s bs : Nat),
    mkToks k (a ++ b) s bs = mkToks k a s bs ++ mkToks k b (s + a.flatten.length) (bs + blen a.flatten)
  | [], b, s, bs => by simp [mkToks, blen]
  | r :: rs, b, s, bs => by
    simp only [List.cons_append, mkToks, List.flatten_cons, List.length_append, blen_append]
    rw [mkToks_append k rs b]
    simp [Nat.add_assoc]

/-- a byte of a character that is not a line break is not a line break -/
theorem charBytes_no_nl (c : Char) (hc : c ≠ '\n') (j : Nat) : (charBytes c)[j]? ≠ some NL := by
  intro h
  have hm : NL ∈ charBytes c := List.mem_of_getElem? h
  simp only [charBytes, List.mem_cons, List.mem_replicate] at hm
  rcases hm with hm | hm
  · injection hm with hm; exact hc hm.symm
  · exact absurd hm.2 (by decide)

/-- Lemma A: a line break of the text is a token of its own -/
theorem nlRuns_nl_token : ∀ (v cur : List Char) (s bs k : Nat), (∀ c ∈ cur, c ≠ '\n') → blen cur ≤ k →
    (bytesOf (cur ++ v))[k]? = some NL →
    ∃ u ∈ mkToks .text (nlRuns v cur) s bs, u.bstart = bs + k ∧ u.value = ['\n']
  | [], cur, s, bs, k, _, hk, hb => by
    rw [List.append_nil, List.getElem?_eq_none (by rw [length_bytesOf]; omega)] at hb
    cases hb
  | c :: cs, cur, s, bs, k, hcur, hk, hb => by
    have hlen : (bytesOf cur).length = blen cur := length_bytesOf _
    rw [bytesOf_append, List.getElem?_append_right (by omega), hlen] at hb
    simp only [bytesOf] at hb
    by_cases hc : c = '\n'
    · subst hc
      simp only [nlRuns, if_true]
      have hpre : ∀ (pre : List (List Char)), pre = (if cur = [] then [] else [cur]) → pre.flatten = cur := by
        intro pre hp
        by_cases h0 : cur = []
        · rw [hp, if_pos h0, h0]; rfl
        · rw [hp, if_neg h0]; simp
      generalize hp : (if cur = [] then ([] : List (List Char)) else [cur]) = pre
      have hfl := hpre pre hp.symm
      rw [mkToks_append, hfl]
      rw [charBytes_nl] at hb
      by_cases hk0 : k = blen cur
      · refine ⟨⟨.text, ['\n'], s + cur.length, bs + blen cur, s + cur.length + 1, bs + blen cur + blen ['\n']⟩, ?_, ?_, rfl⟩
        · apply List.mem_append_right
          simp [mkToks]
        · simp [hk0]
      · have hk1 : blen cur + 1 ≤ k := by omega
        rw [show k - blen cur = (k - blen cur - 1) + 1 by omega] at hb
        simp only [List.singleton_append, List.getElem?_cons_succ] at hb
        obtain ⟨u, hu, hu1, hu2⟩ := nlRuns_nl_token cs [] (s + cur.length + 1) (bs + blen cur + blen ['\n']) (k - blen cur - 1)
          (by simp) (by simp [blen]) (by simpa using hb)
        refine ⟨u, ?_, ?_, hu2⟩
        · apply List.mem_append_right
          simp only [mkToks, List.length_singleton]
          exact List.mem_cons_of_mem _ hu
        · rw [hu1]
          have : blen ['\n'] = 1 := by decide
          omega
    · simp only [nlRuns, if_neg hc]
      have hsz : (charBytes c).length = c.utf8Size := by
        simp [charBytes]; have := Char.utf8Size_pos c; omega
      have hk2 : blen cur + c.utf8Size ≤ k := by
        rcases Nat.lt_or_ge k (blen cur + c.utf8Size) with hlt | hge
        · exfalso
          rw [List.getElem?_append_left (by omega)] at hb
          exact charBytes_no_nl c hc _ hb
        · exact hge
      have hb' : (bytesOf ((cur ++ [c]) ++ cs))[k]? = some NL := by
        rw [bytesOf_append, List.getElem?_append_right (by rw [length_bytesOf, blen_append]; simp [blen]; omega)]
        rw [List.getElem?_append_right (by omega), hsz] at hb
        rw [length_bytesOf, blen_append]
        simp only [blen, Nat.add_zero]
        rw [show k - (blen cur + c.utf8Size) = k - blen cur - c.utf8Size by omega]
        exact hb
      exact nlRuns_nl_token cs (cur ++ [c]) s bs k
        (by
          intro x hx
          rcases List.mem_append.mp hx with hx | hx
          · exact hcur x hx
          · simp only [List.mem_singleton] at hx; subst hx; exact hc)
        (by rw [blen_append]; simp [blen]; omega) hb'

theorem mkToks_bstop (k : TKind) : ∀ (rs : List (List Char)) (s bs : Nat), ∀ t ∈ mkToks k rs s bs,
    t.bstop = t.bstart + blen t.value
  | [], _, _, t, ht => by simp [mkToks] at ht
  | r :: rs, s, bs, t, ht => by
    simp only [mkToks, List.mem_cons] at ht
    rcases ht with rfl | ht
    · rfl
    · exact mkToks_bstop k rs _ _ t ht

/-- Lemma B: in a chain whose tags contain no line break every line break of the text is a token of the finer chain -/
theorem splitToks_nl_token : ∀ (T : List Token) (s bs k : Nat), ChainFrom T s bs →
    (∀ t ∈ T, t.kind = .element → ∀ c ∈ t.value, c ≠ '\n') →
    (bytesOf (flat T))[k]? = some NL →
    ∃ u ∈ splitToks T, u.bstart = bs + k ∧ u.bstop = bs + k + 1 ∧ u.kind = .text
  | [], _, _, k, _, _, hb => by simp [bytesOf] at hb
  | t :: ts, s, bs, k, hc, htag, hb => by
    obtain ⟨c1, c2, c3, c4, c5, c6⟩ := hc
    rw [flat_cons, bytesOf_append] at hb
    have hlen : (bytesOf t.value).length = blen t.value := length_bytesOf _
    by_cases hk : k < blen t.value
    · rw [List.getElem?_append_left (by omega)] at hb
      cases hkind : t.kind with
      | element =>
        exfalso
        have hm : NL ∈ bytesOf t.value := List.mem_of_getElem? hb
        exact htag t (by simp) hkind '\n' (lead_mem_of_bytesOf _ _ hm) rfl
      | text =>
        obtain ⟨u, hu, hu1, hu2⟩ := nlRuns_nl_token t.value [] t.start t.bstart k (by simp) (by simp [blen])
          (by simpa using hb)
        have hu3 := mkToks_bstop .text _ _ _ u hu
        have hu4 := (mkToks_mem .text _ _ _ u hu).1
        refine ⟨u, ?_, by omega, ?_, hu4⟩
        · simp only [splitToks]
          apply List.mem_append_left
          unfold splitTok
          rw [hkind]
          exact hu
        · rw [hu3, hu2]
          have : blen ['\n'] = 1 := by decide
          omega
    · rw [List.getElem?_append_right (by omega), hlen] at hb
      obtain ⟨u, hu, hu1, hu2, hu3⟩ := splitToks_nl_token ts t.stop t.bstop (k - blen t.value) c6
        (fun x hx => htag x (by simp [hx])) hb
      refine ⟨u, ?_, by omega, by omega, hu3⟩
      simp only [splitToks]
      exact List.mem_append_right _ hu

/-! ### ranges whose ends are token boundaries cover tokens wholly or not at all -/

def IsBnd (T : List Token) (p : Nat) : Prop := (∃ u ∈ T, u.bstart = p) ∨ (∃ u ∈ T, u.bstop = p)

theorem chain_spans : ∀ (T : List Token) (s bs : Nat), ChainFrom T s bs →
    ∀ v ∈ T, bs ≤ v.bstart ∧ v.bstart < v.bstop
  | [], _, _, _, v, hv => by cases hv
  | t :: ts, s, bs, hc, v, hv => by
    obtain ⟨_, c2, c3, _, c5, c6⟩ := hc
    have hpos := blen_pos_of_ne_nil c3
    rcases List.mem_cons.mp hv with rfl | hv
    · omega
    · have := chain_spans ts _ _ c6 v hv
      omega

/-- a boundary of the chain never lies strictly inside one of its tokens -/
theorem chain_bnd_outside : ∀ (T : List Token) (s bs : Nat), ChainFrom T s bs → ∀ u ∈ T, ∀ p, IsBnd T p →
    p ≤ u.bstart ∨ u.bstop ≤ p
  | [], _, _, _, u, hu, _, _ => by cases hu
  | t :: ts, s, bs, hc, u, hu, p, hp => by
    obtain ⟨c1, c2, c3, c4, c5, c6⟩ := hc
    have hpos := blen_pos_of_ne_nil c3
    have hts := chain_spans ts _ _ c6
    -- where is `p` ?
    have hp' : p = t.bstart ∨ p = t.bstop ∨ IsBnd ts p := by
      rcases hp with ⟨v, hv, rfl⟩ | ⟨v, hv, rfl⟩
      · rcases List.mem_cons.mp hv with rfl | hv
        · exact Or.inl rfl
        · exact Or.inr (Or.inr (Or.inl ⟨v, hv, rfl⟩))
      · rcases List.mem_cons.mp hv with rfl | hv
        · exact Or.inr (Or.inl rfl)
        · exact Or.inr (Or.inr (Or.inr ⟨v, hv, rfl⟩))
    have hpts : IsBnd ts p → t.bstop ≤ p := by
      rintro (⟨v, hv, rfl⟩ | ⟨v, hv, rfl⟩)
      · exact (hts v hv).1
      · have := hts v hv; omega
    rcases List.mem_cons.mp hu with rfl | hu
    · rcases hp' with rfl | rfl | h
      · exact Or.inl (Nat.le_refl _)
      · exact Or.inr (Nat.le_refl _)
      · exact Or.inr (hpts h)
    · have hu' := hts u hu
      rcases hp' with rfl | rfl | h
      · left; omega
      · left; omega
      · exact chain_bnd_outside ts _ _ c6 u hu p h

theorem wholly_of_bnds (X : List Rng) (T : List Token) (s bs : Nat) (hc : ChainFrom T s bs)
    (hX : ∀ r ∈ X, IsBnd T r.1 ∧ IsBnd T r.2) : Wholly X T := by
  intro u hu i hi1 hi2
  have key : ∀ r ∈ X, Rng.contains r i = Rng.contains r u.bstart := by
    intro r hr
    obtain ⟨h1, h2⟩ := hX r hr
    have a1 := chain_bnd_outside T s bs hc u hu r.1 h1
    have a2 := chain_bnd_outside T s bs hc u hu r.2 h2
    simp only [Rng.contains]
    rw [Bool.eq_iff_iff]
    simp only [Bool.and_eq_true, decide_eq_true_eq]
    constructor <;> (rintro ⟨g1, g2⟩; constructor <;> omega)
  rw [Bool.eq_iff_iff]
  simp only [inAny, List.any_eq_true]
  constructor
  · rintro ⟨r, hr, hcn⟩; exact ⟨r, hr, by rw [← key r hr]; exact hcn⟩
  · rintro ⟨r, hr, hcn⟩; exact ⟨r, hr, by rw [key r hr]; exact hcn⟩

theorem isBnd_splitToks_of_tag (T : List Token) (t : Token) (ht : t ∈ T) (hk : t.kind = .element) :
    IsBnd (splitToks T) t.bstart ∧ IsBnd (splitToks T) t.bstop := by
  have hm : t ∈ splitToks T := by
    have : t ∈ (splitToks T).filter (fun t => t.kind = .element) := by
      rw [splitToks_tags]; exact List.mem_filter.mpr ⟨ht, by simp [hk]⟩
    exact (List.mem_filter.mp this).1
  exact ⟨Or.inl ⟨t, hm, rfl⟩, Or.inr ⟨t, hm, rfl⟩⟩

end Chiritori
