import Chiritori.Spec.Defs
/-
  Decision logic: the model's evaluator registry / skip test against the reference readiness formula.
-/
namespace Chiritori
open Spec

theorem isSkip_eq_hasAttr (el : Element) : isSkip el = hasAttr el "skip" := rfl

theorem firstAttr_bind_value (el : Element) (n : String) :
    (firstAttr el n.toList).bind (·.value) = attrValue el n := by
  unfold firstAttr attrValue
  cases h : el.attrs.find? (fun a => a.name == n.toList) <;> simp

theorem markerIsRemoval_eq_targeted (cfg : Cfg) (el : Element) :
    markerIsRemoval cfg el = targeted cfg el := by
  unfold markerIsRemoval targeted
  rw [firstAttr_bind_value]
  cases attrValue el "name" <;> rfl

theorem timeIsRemoval_eq_expired (cfg : Cfg) (el : Element) :
    timeIsRemoval cfg el = expired cfg el := by
  unfold timeIsRemoval expired attrValue firstAttr
  cases h : el.attrs.find? (fun a => a.name == "to".toList) with
  | none => rfl
  | some a =>
    cases hv : a.value with
    | none => simp [hv]
    | some v =>
      simp only [hv]
      cases chronoParse (v ++ [' '] ++ cfg.offset) <;> rfl

/-- The evaluator's verdict for an element, as the readiness formula of the specification. -/
theorem evaluator_verdict (cfg : Cfg) (el : Element) :
    (match evaluatorFor cfg el.name with
     | some ev => !isSkip el && ev el
     | none => false) = conditionHolds cfg el := by
  unfold evaluatorFor conditionHolds
  rw [isSkip_eq_hasAttr]
  by_cases h1 : el.name = cfg.rmName
  · simp [h1, markerIsRemoval_eq_targeted]
  · by_cases h2 : el.name = cfg.tlName
    · have h3 : ¬ cfg.tlName = cfg.rmName := h2 ▸ h1
      have h4 : (cfg.tlName == cfg.rmName) = false := by simpa using h3
      simp [h2, h3, h4, bne, timeIsRemoval_eq_expired]
    · simp [h1, h2]

theorem elementRange_false_flag (cfg : Cfg) (content : Bytes) (el : Element) (st en : Token)
    (r : Rng) (p : Option Rng) (b : Bool) (h : elementRange cfg content false el st en = some (r, p, b)) :
    b = true := by
  unfold elementRange at h
  cases hs : isSkip el <;> rw [hs] at h
  · cases he : evaluatorFor cfg el.name <;> rw [he] at h
    · simp at h
    · rename_i ev
      cases hv : ev el <;> simp [hv] at h
      cases hc : createRange content el st en with
      | mk r' p' =>
        rw [hc] at h
        simp only at h
        exact h.2.2.2
  · simp at h


end Chiritori
