import Chiritori.Spec.Defs
/-
  Decision logic: the model's evaluator registry / skip test against the reference readiness formula.
-/
namespace Chiritori
open Spec

theorem isSkip_eq_hasAttr (el : Element) : isSkip el = hasAttr el "skip" := rfl

theorem firstAttr_bind_value (el : Element) (n : String) :
    (firstAttr el n.toList).bind (·.value) = attrValue el n := by
  unfold firstAttr attrValue
  cases h : el.attrs.find? (fun a => a.name == n.toList) <;> simp

theorem markerIsRemoval_eq_targeted (cfg : Cfg) (el : Element) :
    markerIsRemoval cfg el = targeted cfg el := by
  unfold markerIsRemoval targeted
  rw [firstAttr_bind_value]
  cases attrValue el "name" <;> rfl

theorem timeIsRemoval_eq_expired (cfg : Cfg) (el : Element) :
    timeIsRemoval cfg el = expired cfg el := by
  unfold timeIsRemoval expired attrValue firstAttr
  cases h : el.attrs.find? (fun a => a.name == "to".toList) with
  | none => rfl
  | some a =>
    cases hv : a.value with
    | none => simp [hv]
    | some v =>
      simp only [hv]
      cases chronoParse (v ++ [' '] ++ cfg.offset) <;> rfl

/-- The evaluator's verdict for an element, as the readiness formula of the specification. -/
theorem evaluator_verdict (cfg : Cfg) (el : Element) :
    (match evaluatorFor cfg el.name with
     | some ev => !isSkip el && ev el
     | none => false) = conditionHolds cfg el := by
  unfold evaluatorFor conditionHolds
  rw [isSkip_eq_hasAttr]
  by_cases h1 : el.name = cfg.rmName
  · simp [h1, markerIsRemoval_eq_targeted]
  · by_cases h2 : el.name = cfg.tlName
    · have h3 : ¬ cfg.tlName = cfg.rmName := h2 ▸ h1
      have h4 : (cfg.tlName == cfg.rmName) = false := by simpa using h3
      simp [h2, h3, h4, bne, timeIsRemoval_eq_expired]
    · simp [h1, h2]

theorem elementRange_false_flag (cfg : Cfg) (content : Bytes) (el : Element) (st en : Token)
    (r : Rng) (p : Option Rng) (b : Bool) (h : elementRange cfg content false el st en = some (r, p, b)) :
    b = true := by
  unfold elementRange at h
  cases hs : isSkip el <;> rw [hs] at h
  · cases he : evaluatorFor cfg el.name <;> rw [he] at h
    · simp at h
    · rename_i ev
      cases hv : ev el <;> simp [hv] at h
      cases hc : createRange content el st en with
      | mk r' p' =>
        rw [hc] at h
        simp only at h
        exact h.2.2.2
  · simp at h


end Chiritori

namespace Chiritori
open Spec

/-- registered, not skipped -/
theorem registered_iff (cfg : Cfg) (el : Element) :
    (evaluatorFor cfg el.name).isSome = (el.name == cfg.rmName || el.name == cfg.tlName) := by
  unfold evaluatorFor
  by_cases h1 : el.name = cfg.rmName
  · simp [h1]
  · by_cases h2 : el.name = cfg.tlName
    · have h3 : ¬ cfg.tlName = cfg.rmName := h2 ▸ h1
      simp [h2, h3]
    · simp [h1, h2]

/-- `collect_removable_ranges`' decision for one element, in closed form -/
theorem elementRange_eq (cfg : Cfg) (content : Bytes) (all : Bool) (el : Element) (st en : Token) :
    elementRange cfg content all el st en =
      if (createRange content el st en).1.isEmpty then none
      else if conditionHolds cfg el then
        some ((createRange content el st en).1, (createRange content el st en).2, true)
      else if all && conditionPending cfg el then
        some ((createRange content el st en).1, (createRange content el st en).2, false)
      else none := by
  have hv := evaluator_verdict cfg el
  have hreg := registered_iff cfg el
  unfold conditionPending
  rw [← isSkip_eq_hasAttr]
  unfold elementRange
  cases hs : isSkip el with
  | true =>
    rw [hs] at hv
    have hc : conditionHolds cfg el = false := by
      cases he : evaluatorFor cfg el.name <;> rw [he] at hv <;> simpa using hv.symm
    simp [hc]
  | false =>
    rw [hs] at hv
    cases he : evaluatorFor cfg el.name with
    | none =>
      rw [he] at hv hreg
      have hc : conditionHolds cfg el = false := by simpa using hv.symm
      have hr : (el.name == cfg.rmName || el.name == cfg.tlName) = false := by simpa using hreg.symm
      simp [hc, hr]
    | some ev =>
      rw [he] at hv hreg
      simp only [Bool.not_false, Bool.true_and] at hv
      have hr : (el.name == cfg.rmName || el.name == cfg.tlName) = true := by simpa using hreg.symm
      have hc : conditionHolds cfg el = ev el := hv.symm
      cases hcr : createRange content el st en with
      | mk r p =>
        cases hev : ev el <;> cases all <;> cases hre : r.isEmpty <;> simp [hc, hev, hre, hr]

end Chiritori
