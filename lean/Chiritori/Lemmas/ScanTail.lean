import Chiritori.Lemmas.ScanWide
/-
  The end of the document: behind the last complete piece the source may go on with a stretch in which no further tag
  is found - plain text, a partial match of the start delimiter left pending, or an unterminated tag (start delimiter,
  body, no end delimiter).  `tailFit` asks (a) that the automaton, run over the last stretch, never completes an end
  delimiter (`noElem`, defined through `getState` itself) and (b) that the textbook scan finds no complete tag in it
  (`noTagTB`); `wideOK2` is `wideOK` with that condition on the last stretch.
-/
namespace Chiritori
open Spec

/-- the automaton never has a complete tag pending: not on the way, not at the end -/
def noElem (ds de : List Char) : TState → List Char → Bool
  | st, [] => st != .dend []
  | st, c :: cs => st != .dend [] && noElem ds de (getState c ds de st).2 cs

/-- the textbook scan finds no complete tag: no start delimiter, or nothing behind it, or no end delimiter behind its
    first body character -/
def noTagTB (ds de u : List Char) : Bool :=
  match findSub ds u with
  | none => true
  | some i =>
    match u.drop (i + ds.length) with
    | [] => true
    | _ :: body => (findSub de body).isNone

def tailFit (ds de u : List Char) : Bool := noElem ds de .text u && noTagTB ds de u

def wideOK2 (ds de : List Char) (t : List Char) : List Piece → List Char → Bool
  | [], acc => tailFit ds de (acc ++ t)
  | .text s :: ps, acc => wideOK2 ds de t ps (acc ++ s)
  | .tag _ rest :: ps, acc => textFit ds acc && bodyFit de rest && wideOK2 ds de t ps []

/-! ### the automaton over the last stretch -/

/-- a step that emits nothing, or emits the pending characters as text: the merged value grows by the character -/
theorem sStep_val_text (ds de : List Char) (s : SSt) (c : Char) (hs : s.st ≠ .dend []) :
    val (sStep ds de s c) .text = addText (val s .text) [c] := by
  obtain ⟨outs, st, pend⟩ := s
  simp only at hs
  unfold sStep
  cases hg : getState c ds de st with
  | mk k st' =>
    cases k with
    | none =>
      simp only [val]
      by_cases hp : pend = []
      · simp [hp, addText]
      · simp [hp, addText, sMergeStep_text_text]
    | some kind =>
      -- only the text state emits (a complete tag pending is excluded)
      have hk : kind = .text := by
        cases st with
        | text =>
          unfold getState at hg
          rcases checkDelimiterStart_cases c ds with h | ⟨r, h⟩ <;> rw [h] at hg <;> simp at hg
          exact hg.1.symm
        | dstart r => cases r <;> simp [getState] at hg <;> (try split at hg) <;> simp at hg
        | inDelim =>
          cases de with
          | nil => simp [getState] at hg
          | cons e0 er => simp only [getState] at hg; split at hg <;> simp at hg
        | dend r =>
          cases r with
          | nil => exact absurd rfl hs
          | cons x r => simp only [getState] at hg; split at hg <;> simp at hg
      subst hk
      simp only [val]
      by_cases hp : pend = []
      · simp [hp, addText]
      · simp [hp, addText, mrg_snoc]

theorem srun_noElem (ds de : List Char) : ∀ (u : List Char) (s : SSt), noElem ds de s.st u = true →
    (srun ds de s u).st ≠ .dend [] ∧ val (srun ds de s u) .text = addText (val s .text) u
  | [], s, h => by
    simp only [noElem, bne_iff_ne, ne_eq] at h
    simp [srun, h]
  | c :: cs, s, h => by
    simp only [noElem, Bool.and_eq_true, bne_iff_ne, ne_eq] at h
    have hst : (sStep ds de s c).st = (getState c ds de s.st).2 := by
      unfold sStep
      cases getState c ds de s.st with
      | mk k st' => cases k <;> rfl
    obtain ⟨i1, i2⟩ := srun_noElem ds de cs (sStep ds de s c) (by rw [hst]; exact h.2)
    rw [srun_cons]
    refine ⟨i1, ?_⟩
    rw [i2, sStep_val_text ds de s c h.1, addText_addText]
    rfl

/-- the kind of the flushed token is text unless a complete tag is pending -/
theorem flushKind_text_of_ne (ds de : List Char) (st : TState) (h : st ≠ .dend []) : flushKind ds de st = .text := by
  have hk : (getState ' ' ds de st).1 = none ∨ (getState ' ' ds de st).1 = some .text := by
    cases st with
    | text =>
      unfold getState
      rcases checkDelimiterStart_cases ' ' ds with hc | ⟨r, hc⟩ <;> simp [hc]
    | dstart r =>
      cases r with
      | nil => left; rfl
      | cons x r => left; simp only [getState]; split <;> rfl
    | inDelim =>
      cases de with
      | nil => left; rfl
      | cons e0 er => left; simp only [getState]; split <;> rfl
    | dend r =>
      cases r with
      | nil => exact absurd rfl h
      | cons x r => left; simp only [getState]; split <;> rfl
  unfold flushKind
  rcases hk with hk | hk <;> rw [hk]

/-- the last stretch read from a boundary state -/
theorem srun_tail_boundary (ds de : List Char) (u : List Char) (s : SSt) (hb : BoundaryOK s)
    (hq : noElem ds de .text u = true) (hu : u ≠ []) :
    (srun ds de s u).st ≠ .dend [] ∧ val (srun ds de s u) .text = addText (val s (bkind s.st)) u := by
  cases u with
  | nil => exact absurd rfl hu
  | cons c cs =>
    obtain ⟨outs, st, pend⟩ := s
    rcases hb with hb | ⟨hb, hp⟩
    · simp only at hb
      subst hb
      exact srun_noElem ds de (c :: cs) ⟨outs, .text, pend⟩ hq
    · simp only at hb hp
      subst hb
      rw [srun_cons, sStep_dend_nil ds de outs pend c hp]
      simp only [noElem, bne_iff_ne, ne_eq, Bool.and_eq_true] at hq
      have hnext : (getState c ds de .text).2 = checkDelimiterStart c ds := by
        unfold getState
        rcases checkDelimiterStart_cases c ds with h | ⟨r, h⟩ <;> simp [h]
      rw [hnext] at hq
      obtain ⟨i1, i2⟩ := srun_noElem ds de cs ⟨outs ++ [(.element, pend)], checkDelimiterStart c ds, [c]⟩ hq.2
      refine ⟨i1, ?_⟩
      rw [i2]
      have e1 : val ⟨outs ++ [(.element, pend)], checkDelimiterStart c ds, [c]⟩ .text
          = addText (mrg outs ++ [(.element, pend)]) [c] := by
        simp [val, addText, mrg_snoc, sMergeStep_element]
      have e2 : val ⟨outs, .dend [], pend⟩ (bkind (.dend [])) = mrg outs ++ [(.element, pend)] :=
        val_element ⟨outs, .dend [], pend⟩ hp
      rw [e1, e2, addText_addText]
      rfl

/-! ### pieces, then the last stretch -/

theorem srun_pieces_tail (d0 : Char) (dr : List Char) (e0 : Char) (er : List Char) (t : List Char) :
    ∀ (ps : List Piece) (acc : List Char) (s0 : SSt), BoundaryOK s0 → wideOK2 (d0 :: dr) (e0 :: er) t ps acc = true →
    acc ++ (renderAll (d0 :: dr) (e0 :: er) ps ++ t) ≠ [] →
    (srun (d0 :: dr) (e0 :: er) s0 (acc ++ (renderAll (d0 :: dr) (e0 :: er) ps ++ t))).st ≠ .dend [] ∧
    val (srun (d0 :: dr) (e0 :: er) s0 (acc ++ (renderAll (d0 :: dr) (e0 :: er) ps ++ t))) .text
      = addText (fwd (d0 :: dr) (e0 :: er) (addText (val s0 (bkind s0.st)) acc) ps) t ∨
    (BoundaryOK (srun (d0 :: dr) (e0 :: er) s0 (acc ++ (renderAll (d0 :: dr) (e0 :: er) ps ++ t))) ∧ t = [] ∧
      val (srun (d0 :: dr) (e0 :: er) s0 (acc ++ (renderAll (d0 :: dr) (e0 :: er) ps ++ t)))
          (bkind (srun (d0 :: dr) (e0 :: er) s0 (acc ++ (renderAll (d0 :: dr) (e0 :: er) ps ++ t))).st)
        = fwd (d0 :: dr) (e0 :: er) (addText (val s0 (bkind s0.st)) acc) ps)
  | [], acc, s0, hb, hw, hne => by
    simp only [wideOK2, tailFit, Bool.and_eq_true] at hw
    simp only [renderAll, List.nil_append, fwd] at hne ⊢
    left
    obtain ⟨h1, h2⟩ := srun_tail_boundary (d0 :: dr) (e0 :: er) (acc ++ t) s0 hb hw.1 hne
    refine ⟨h1, ?_⟩
    rw [h2, addText_addText]
  | .text x :: ps, acc, s0, hb, hw, hne => by
    simp only [wideOK2] at hw
    have ih := srun_pieces_tail d0 dr e0 er t ps (acc ++ x) s0 hb hw (by simpa [renderAll, Piece.render, List.append_assoc] using hne)
    simp only [renderAll, Piece.render, fwd, addText_addText]
    simp only [List.append_assoc] at ih ⊢
    exact ih
  | .tag b0 rest :: ps, acc, s0, hb, hw, _ => by
    simp only [wideOK2, textFit, bodyFit, Bool.and_eq_true] at hw
    obtain ⟨⟨⟨hq, _⟩, hqe, _⟩, hps⟩ := hw
    obtain ⟨b1, v1⟩ := srun_text_boundary (d0 :: dr) (e0 :: er) acc s0 hb hq
    obtain ⟨b2, v2⟩ := srun_tag_boundary d0 dr e0 er b0 rest _ b1 hqe
    simp only [renderAll, Piece.render, fwd]
    have e : acc ++ ((d0 :: dr) ++ (b0 :: (rest ++ (e0 :: er))) ++ renderAll (d0 :: dr) (e0 :: er) ps ++ t)
        = acc ++ (((d0 :: dr) ++ (b0 :: (rest ++ (e0 :: er)))) ++ ([] ++ (renderAll (d0 :: dr) (e0 :: er) ps ++ t))) := by simp
    rw [e, srun_append, srun_append]
    by_cases hrest : [] ++ (renderAll (d0 :: dr) (e0 :: er) ps ++ t) = []
    · -- nothing behind the tag
      right
      have hps0 : renderAll (d0 :: dr) (e0 :: er) ps = [] ∧ t = [] := by simpa using hrest
      rw [hrest]
      simp only [srun, List.foldl_nil]
      refine ⟨b2, hps0.2, ?_⟩
      have : fwd (d0 :: dr) (e0 :: er) (addText (val s0 (bkind s0.st)) acc ++ [(TKind.element, (d0 :: dr) ++ (b0 :: (rest ++ (e0 :: er))))]) ps
          = addText (val s0 (bkind s0.st)) acc ++ [(TKind.element, (d0 :: dr) ++ (b0 :: (rest ++ (e0 :: er))))] := by
        -- all remaining pieces are empty texts
        have : ∀ (qs : List Piece) (L : SOut), renderAll (d0 :: dr) (e0 :: er) qs = [] → fwd (d0 :: dr) (e0 :: er) L qs = L := by
          intro qs
          induction qs with
          | nil => intro L _; rfl
          | cons q qs ih =>
            intro L hq
            cases q with
            | text x =>
              simp only [renderAll, Piece.render, List.append_eq_nil_iff] at hq
              simp only [fwd, hq.1, addText_nil]
              exact ih L hq.2
            | tag c r => simp [renderAll, Piece.render] at hq
        exact this ps _ hps0.1
      rw [this]
      simp only [srun] at v2 v1
      rw [v2, v1]
    · have ih := srun_pieces_tail d0 dr e0 er t ps [] _ b2 hps hrest
      simp only [List.nil_append, addText_nil] at ih ⊢
      simp only [srun] at v2 v1 ih ⊢
      rw [v2, v1] at ih
      exact ih

/-- the merged output of the tokenizer on fitting pieces followed by a last stretch -/
theorem tokenize_wide_tail (d0 : Char) (dr : List Char) (e0 : Char) (er : List Char) (ps : List Piece) (t : List Char)
    (hw : wideOK2 (d0 :: dr) (e0 :: er) t ps [] = true) :
    (tokenize (renderAll (d0 :: dr) (e0 :: er) ps ++ t) (d0 :: dr) (e0 :: er)).map kv
      = addText (fwd (d0 :: dr) (e0 :: er) [] ps) t := by
  rw [tokenize_proj _ _ _ (by simp)]
  have hb0 : BoundaryOK sInit := Or.inl rfl
  have hv0 : val sInit (bkind sInit.st) = [] := by simp [val, sInit, mrg]
  generalize hsrc : renderAll (d0 :: dr) (e0 :: er) ps ++ t = src
  show mrg (sFlush (d0 :: dr) (e0 :: er) src (srun (d0 :: dr) (e0 :: er) sInit src)) = _
  unfold sFlush
  by_cases hs : src = []
  · subst hs
    have h0 : renderAll (d0 :: dr) (e0 :: er) ps = [] ∧ t = [] := by simpa using hsrc
    have : ∀ (qs : List Piece) (L : SOut), renderAll (d0 :: dr) (e0 :: er) qs = [] → fwd (d0 :: dr) (e0 :: er) L qs = L := by
      intro qs
      induction qs with
      | nil => intro L _; rfl
      | cons q qs ih =>
        intro L hq
        cases q with
        | text x =>
          simp only [renderAll, Piece.render, List.append_eq_nil_iff] at hq
          simp only [fwd, hq.1, addText_nil]
          exact ih L hq.2
        | tag c r => simp [renderAll, Piece.render] at hq
    rw [this ps [] h0.1, h0.2]
    simp [srun, sInit, mrg]
  · rw [if_neg hs]
    have hp := srun_pend_ne (d0 :: dr) (e0 :: er) src sInit hs
    have hmain := srun_pieces_tail d0 dr e0 er t ps [] sInit hb0 hw (by simpa [hsrc] using hs)
    simp only [List.nil_append, addText_nil, hv0, hsrc] at hmain
    rcases hmain with ⟨hst, hv⟩ | ⟨hb, ht, hv⟩
    · rw [mrg_snoc, flushKind_text_of_ne _ _ _ hst, ← hv]
      simp [val, hp]
    · have hst : (srun (d0 :: dr) (e0 :: er) sInit src).st = .text ∨ (srun (d0 :: dr) (e0 :: er) sInit src).st = .dend [] := by
        rcases hb with h | ⟨h, _⟩
        · exact Or.inl h
        · exact Or.inr h
      rw [mrg_snoc, flushKind_bkind _ _ _ hst, ht, addText_nil, ← hv]
      simp [val, hp]

/-! ### `fwd`, then the last stretch, is the normal form `tnorm` with that stretch -/

theorem fwd_tnorm_tail (ds de t : List Char) : ∀ (ps : List Piece) (base : SOut) (acc : List Char),
    (∀ x, base.getLast? = some x → x.1 ≠ .text) →
    addText (fwd ds de (base ++ (if acc ≠ [] then [(TKind.text, acc)] else [])) ps) t = base ++ tnorm ds de t ps acc
  | [], base, acc, hb => by
    simp only [fwd, tnorm]
    exact addText_base base hb acc t
  | .text s :: ps, base, acc, hb => by
    simp only [fwd, tnorm]
    rw [addText_base base hb acc s]
    exact fwd_tnorm_tail ds de t ps base (acc ++ s) hb
  | .tag b0 rest :: ps, base, acc, hb => by
    simp only [fwd, tnorm]
    have := fwd_tnorm_tail ds de t ps (base ++ (if acc ≠ [] then [(TKind.text, acc)] else []) ++ [(.element, ds ++ (b0 :: (rest ++ de)))]) []
      (by intro x hx; simp at hx; rw [← hx]; simp)
    simp only [ne_eq, not_true_eq_false, ite_false, List.append_nil] at this
    rw [this]
    simp [List.append_assoc]

/-! ### the textbook scan -/

theorem textbook_noTag (ds de : List Char) (u : List Char) (h : noTagTB ds de u = true) (fuel : Nat) :
    textbookAux ds de fuel u [] = (if u ≠ [] then [(TKind.text, u)] else []) := by
  cases fuel with
  | zero => by_cases hu : u = [] <;> simp [textbookAux, hu]
  | succ f =>
    unfold noTagTB at h
    simp only [textbookAux, List.nil_append]
    cases hf : findSub ds u with
    | none => by_cases hu : u = [] <;> simp [hu]
    | some i =>
      rw [hf] at h
      simp only at h ⊢
      cases hd : u.drop (i + ds.length) with
      | nil => by_cases hu : u = [] <;> simp [hu]
      | cons b body =>
        rw [hd] at h
        simp only [Option.isNone_iff_eq_none] at h ⊢
        rw [h]
        by_cases hu : u = [] <;> simp [hu]

theorem textbook_wide_tail (d0 : Char) (dr : List Char) (e0 : Char) (er : List Char) (t : List Char) :
    ∀ (ps : List Piece) (acc : List Char) (fuel : Nat), wideOK2 (d0 :: dr) (e0 :: er) t ps acc = true →
      (acc ++ (renderAll (d0 :: dr) (e0 :: er) ps ++ t)).length ≤ fuel →
      textbookAux (d0 :: dr) (e0 :: er) fuel (acc ++ (renderAll (d0 :: dr) (e0 :: er) ps ++ t)) []
        = tnorm (d0 :: dr) (e0 :: er) t ps acc
  | [], acc, fuel, hw, _ => by
    simp only [wideOK2, tailFit, Bool.and_eq_true] at hw
    simp only [renderAll, List.nil_append, tnorm]
    exact textbook_noTag _ _ _ hw.2 fuel
  | .text s :: ps, acc, fuel, hw, hlen => by
    simp only [wideOK2] at hw
    simp only [renderAll, Piece.render, tnorm]
    have := textbook_wide_tail d0 dr e0 er t ps (acc ++ s) fuel hw (by simpa [renderAll, Piece.render, List.append_assoc] using hlen)
    simpa [List.append_assoc] using this
  | .tag b0 rest :: ps, acc, fuel, hw, hlen => by
    simp only [wideOK2, textFit, bodyFit, noOcc, Bool.and_eq_true, Option.isNone_iff_eq_none] at hw
    obtain ⟨⟨⟨_, hoa⟩, _, hob⟩, hps⟩ := hw
    simp only [renderAll, Piece.render, tnorm]
    cases fuel with
    | zero => simp [renderAll, Piece.render] at hlen
    | succ f =>
      have hfuel : ([] ++ (renderAll (d0 :: dr) (e0 :: er) ps ++ t)).length ≤ f := by
        simp only [List.nil_append]
        simp [renderAll, Piece.render] at hlen ⊢
        omega
      have hrec := textbook_wide_tail d0 dr e0 er t ps [] f hps hfuel
      simp only [List.nil_append] at hrec
      have e1 : acc ++ ((d0 :: dr) ++ (b0 :: (rest ++ (e0 :: er))) ++ renderAll (d0 :: dr) (e0 :: er) ps ++ t)
          = acc ++ ((d0 :: dr) ++ (b0 :: (rest ++ ((e0 :: er) ++ (renderAll (d0 :: dr) (e0 :: er) ps ++ t))))) := by
        simp
      rw [e1]
      generalize renderAll (d0 :: dr) (e0 :: er) ps ++ t = R at hrec ⊢
      simp only [textbookAux]
      rw [findSub_first (d0 :: dr) (by simp) acc _ hoa]
      simp only
      have hdrop : (acc ++ ((d0 :: dr) ++ (b0 :: (rest ++ ((e0 :: er) ++ R))))).drop (acc.length + (d0 :: dr).length)
          = b0 :: (rest ++ ((e0 :: er) ++ R)) := by
        rw [← List.append_assoc, List.drop_append_of_le_length (by simp)]
        simp
      rw [hdrop]
      simp only
      rw [findSub_first (e0 :: er) (by simp) rest R hob]
      simp only
      have htake : (acc ++ ((d0 :: dr) ++ (b0 :: (rest ++ ((e0 :: er) ++ R))))).take acc.length = acc := by simp
      have hel : ((acc ++ ((d0 :: dr) ++ (b0 :: (rest ++ ((e0 :: er) ++ R))))).drop acc.length).take
          ((d0 :: dr).length + 1 + rest.length + (e0 :: er).length) = (d0 :: dr) ++ (b0 :: (rest ++ (e0 :: er))) := by
        rw [List.drop_append_of_le_length (by simp), List.drop_length, List.nil_append]
        have : (d0 :: dr) ++ (b0 :: (rest ++ ((e0 :: er) ++ R))) = ((d0 :: dr) ++ (b0 :: (rest ++ (e0 :: er)))) ++ R := by simp
        rw [this, List.take_append_of_le_length (by simp; omega)]
        apply List.take_of_length_le
        simp; omega
      have hrest : (acc ++ ((d0 :: dr) ++ (b0 :: (rest ++ ((e0 :: er) ++ R))))).drop
          (acc.length + ((d0 :: dr).length + 1 + rest.length + (e0 :: er).length)) = R := by
        have : acc ++ ((d0 :: dr) ++ (b0 :: (rest ++ ((e0 :: er) ++ R))))
            = (acc ++ ((d0 :: dr) ++ (b0 :: (rest ++ (e0 :: er))))) ++ R := by simp
        rw [this, List.drop_append_of_le_length (by simp; omega)]
        rw [List.drop_of_length_le (by simp; omega)]
        simp
      rw [htake, hel, hrest, hrec]
      by_cases ha : acc = [] <;> simp [ha]

end Chiritori
