import Chiritori.Lemmas.WellFormed
import Chiritori.Model.Formatter
/-
  Every range the formatters return covers only spaces, tabs and line breaks.
-/
namespace Chiritori

/-- all bytes of `[s, e)` are ' ', '\t' or '\n' -/
def WsRange (b : Bytes) (s e : Nat) : Prop := ∀ i, s ≤ i → i < e → ∃ x, b[i]? = some x ∧ isWsByte x

theorem WsRange_empty (b : Bytes) (s : Nat) : WsRange b s s := by intro i h1 h2; omega

theorem WsRange_of_blank (b : Bytes) (s e : Nat)
    (h : ∀ i, s ≤ i → i < e → ∃ x, b[i]? = some x ∧ isBlankByte x) : WsRange b s e := by
  intro i h1 h2
  obtain ⟨x, hx, hb⟩ := h i h1 h2
  exact ⟨x, hx, by rcases hb with h | h <;> simp [isWsByte, h]⟩

theorem WsRange_join (b : Bytes) (s m e : Nat) (h1 : WsRange b s m) (h2 : WsRange b m e) : WsRange b s e := by
  intro i hi1 hi2
  by_cases h : i < m
  · exact h1 i hi1 h
  · exact h2 i (by omega) hi2

theorem WsRange_single_nl (b : Bytes) (p : Nat) (h : b[p]? = some (.lead '\n')) : WsRange b p (p + 1) := by
  intro i h1 h2
  have : i = p := by omega
  subst this
  exact ⟨_, h, by simp [isWsByte]⟩

theorem WsRange_sub (b : Bytes) (s e s' e' : Nat) (h : WsRange b s e) (h1 : s ≤ s') (h2 : e' ≤ e) : WsRange b s' e' := by
  intro i hi1 hi2; exact h i (by omega) (by omega)

/-! ### IndentRemover -/

theorem indentScan_some (rev : Bytes) (cursor s : Nat) (hlen : rev.length = cursor)
    (h : indentScan rev cursor = some s) :
    0 < s ∧ s ≤ cursor ∧ rev[cursor - s]? = some (.lead '\n') ∧
    (∀ i, i < cursor - s → ∃ x, rev[i]? = some x ∧ isSkipByte x) := by
  induction rev generalizing cursor with
  | nil => simp [indentScan] at h
  | cons x rest ih =>
    have hc : cursor = rest.length + 1 := by simp at hlen; omega
    simp only [indentScan] at h
    cases x with
    | cont =>
      simp only at h
      obtain ⟨h1, h2, h3, h4⟩ := ih (cursor - 1) (by omega) h
      have hsub : cursor - s = (cursor - 1 - s) + 1 := by omega
      refine ⟨h1, by omega, by rw [hsub]; simpa using h3, ?_⟩
      intro i hi
      cases i with
      | zero => exact ⟨.cont, by simp, Or.inl rfl⟩
      | succ j => simpa using h4 j (by omega)
    | lead c =>
      simp only at h
      by_cases hb : c = ' ' ∨ c = '\t'
      · simp only [hb, ite_true] at h
        obtain ⟨h1, h2, h3, h4⟩ := ih (cursor - 1) (by omega) h
        have hsub : cursor - s = (cursor - 1 - s) + 1 := by omega
        refine ⟨h1, by omega, by rw [hsub]; simpa using h3, ?_⟩
        intro i hi
        cases i with
        | zero =>
          refine ⟨.lead c, by simp, ?_⟩
          rcases hb with hb | hb <;> simp [isSkipByte, hb]
        | succ j => simpa using h4 j (by omega)
      · simp only [hb, ite_false] at h
        by_cases hn : c = '\n'
        · simp only [hn, ite_true] at h
          injection h with h
          subst h
          refine ⟨by omega, Nat.le_refl _, by simp [hn], by intro i hi; omega⟩
        · simp [hn] at h

theorem byteIs_iff (b : Bytes) (i : Nat) (c : Char) : byteIs b i c = true ↔ b[i]? = some (.lead c) := by
  unfold byteIs
  cases h : b[i]? with
  | none => simp
  | some x =>
    cases x with
    | cont => simp
    | lead d => simp

/-- what every seam formatter returns around a boundary position `pos` -/
structure GoodRange (s : List Char) (pos : Nat) (r : Nat × Nat) : Prop where
  le1 : r.1 ≤ pos
  le2 : pos ≤ r.2
  len : r.2 ≤ blen s
  ws : WsRange (bytesOf s) r.1 r.2
  b1 : isBoundary (bytesOf s) r.1 = true
  b2 : isBoundary (bytesOf s) r.2 = true

theorem goodRange_empty (s : List Char) (pos : Nat) (hb : isBoundary (bytesOf s) pos = true) (hl : pos ≤ blen s) :
    GoodRange s pos (pos, pos) :=
  ⟨Nat.le_refl _, Nat.le_refl _, hl, WsRange_empty _ _, hb, hb⟩

theorem rev_take_getElem? (b : Bytes) (pos k : Nat) (hle : pos ≤ b.length) (hk : k < pos) :
    (b.take pos).reverse[k]? = b[pos - 1 - k]? := by
  rw [List.getElem?_reverse (by simp [Nat.min_eq_left hle]; exact hk)]
  simp only [List.length_take, Nat.min_eq_left hle]
  rw [List.getElem?_take_of_lt (by omega)]

theorem fmtIndent_good (s : List Char) (pos : Nat) (r : Nat × Nat) (hb : isBoundary (bytesOf s) pos = true)
    (hl : pos ≤ blen s) (h : fmtIndent (bytesOf s) pos = .ok r) : GoodRange s pos r := by
  unfold fmtIndent at h
  split at h
  · injection h with h; subst h; exact goodRange_empty s pos hb hl
  · rename_i hg
    simp only [not_or, Nat.not_le, Bool.not_eq_true', Bool.not_eq_eq_eq_not, Bool.not_not] at hg
    have hlt : pos < blen s := by simpa using hg.1
    cases hsc : indentScan ((bytesOf s).take pos).reverse pos with
    | none => rw [hsc] at h; injection h with h; subst h; exact goodRange_empty s pos hb hl
    | some s' =>
      rw [hsc] at h
      injection h with h; subst h
      have hlen : ((bytesOf s).take pos).reverse.length = pos := by simp; omega
      obtain ⟨h1, h2, h3, h4⟩ := indentScan_some _ pos s' hlen hsc
      have hble : pos ≤ (bytesOf s).length := by simp; omega
      rw [rev_take_getElem? _ pos _ hble (by omega)] at h3
      rw [show pos - 1 - (pos - s') = s' - 1 by omega] at h3
      have hnb := nl_next_boundary s (s' - 1) h3
      rw [show s' - 1 + 1 = s' by omega] at hnb
      have hrun : ∀ i, s' ≤ i → i < pos → ∃ x, (bytesOf s)[i]? = some x ∧ isSkipByte x := by
        intro i hi1 hi2
        have := h4 (pos - 1 - i) (by omega)
        rw [rev_take_getElem? _ pos _ hble (by omega)] at this
        rwa [show pos - 1 - (pos - 1 - i) = i by omega] at this
      obtain ⟨hblank, _⟩ := skip_run_blank s s' pos hnb.1 hrun
      exact ⟨h2, Nat.le_refl _, hl, WsRange_of_blank _ _ _ hblank, hnb.1, hb⟩

theorem isBoundary_le (b : Bytes) (i : Nat) (h : isBoundary b i = true) : i ≤ b.length := by
  unfold isBoundary at h
  by_cases he : i = b.length
  · omega
  · have : (i == b.length) = false := by simpa using he
    rw [this] at h
    simp only [Bool.false_or] at h
    cases hg : b[i]? with
    | none => rw [hg] at h; simp at h
    | some x => have := lt_of_getElem?_some _ _ _ hg; omega

theorem fmtEmpty_good (s : List Char) (pos : Nat) (r : Nat × Nat)
    (h : fmtEmpty (bytesOf s) pos = .ok r) :
    isBoundary (bytesOf s) pos = true ∧ pos ≤ blen s ∧ GoodRange s pos r := by
  unfold fmtEmpty at h
  split at h
  · simp at h
  · rename_i hb
    simp only [Bool.not_eq_true', Bool.not_eq_false] at hb
    have hl : pos ≤ blen s := by have := isBoundary_le _ _ hb; simpa using this
    refine ⟨hb, hl, ?_⟩
    split at h
    · injection h with h; subst h; exact goodRange_empty s pos hb hl
    · rename_i hnl
      simp only [Bool.not_eq_true', Bool.not_eq_false] at hnl
      have hnl' := (byteIs_iff _ _ _).mp hnl
      dsimp only at h
      split at h
      · injection h with h; subst h
        have := nl_next_boundary s pos hnl'
        exact ⟨Nat.le_refl _, by simp, this.2, WsRange_single_nl _ _ hnl', hb, this.1⟩
      · injection h with h; subst h; exact goodRange_empty s pos hb hl

theorem fmtPrev_good (s : List Char) (pos : Nat) (r : Nat × Nat) (hb : isBoundary (bytesOf s) pos = true)
    (hl : pos ≤ blen s) (h : fmtPrev (bytesOf s) pos = .ok r) : GoodRange s pos r := by
  unfold fmtPrev at h
  cases hp1 : findPrevLB (bytesOf s) pos true with
  | none => rw [hp1] at h; simp at h; subst h; exact goodRange_empty s pos hb hl
  | some p1 =>
    rw [hp1] at h
    simp only [Option.bind_some] at h
    cases hp2 : findPrevLB (bytesOf s) p1 true with
    | none => rw [hp2] at h; simp at h; subst h; exact goodRange_empty s pos hb hl
    | some lb =>
      rw [hp2] at h
      simp only at h
      injection h with h; subst h
      obtain ⟨a1, a2, a3, a4, _, a6⟩ := findPrevLB_some _ pos p1 true hp1
      obtain ⟨c1, c2, c3, c4, _, c6⟩ := findPrevLB_some _ p1 lb true hp2
      have n1 := nl_next_boundary s lb c4
      have n2 := nl_next_boundary s p1 a4
      have run1 := (skip_run_blank s (lb + 1) p1 n1.1 (fun i h1 h2 => c6 rfl i (by omega) h2)).1
      have run2 := (skip_run_blank s (p1 + 1) pos n2.1 (fun i h1 h2 => a6 rfl i (by omega) h2)).1
      refine ⟨by simp; omega, Nat.le_refl _, hl, ?_, n1.1, hb⟩
      exact WsRange_join _ _ p1 _ (WsRange_of_blank _ _ _ run1)
        (WsRange_join _ _ (p1 + 1) _ (WsRange_single_nl _ _ a4) (WsRange_of_blank _ _ _ run2))

theorem fmtNext_good (s : List Char) (pos : Nat) (r : Nat × Nat) (hb : isBoundary (bytesOf s) pos = true)
    (hl : pos ≤ blen s) (h : fmtNext (bytesOf s) pos = .ok r) : GoodRange s pos r := by
  unfold fmtNext at h
  cases hp1 : findNextLB (bytesOf s) pos true with
  | none => rw [hp1] at h; simp at h; subst h; exact goodRange_empty s pos hb hl
  | some p1 =>
    rw [hp1] at h
    simp only [Option.bind_some] at h
    cases hp2 : findNextLB (bytesOf s) (p1 + 1) true with
    | none => rw [hp2] at h; simp at h; subst h; exact goodRange_empty s pos hb hl
    | some lb =>
      rw [hp2] at h
      simp only at h
      injection h with h; subst h
      obtain ⟨_, a2, a3, a4, _, a6⟩ := findNextLB_some _ pos p1 true hp1
      obtain ⟨_, c2, c3, c4, _, c6⟩ := findNextLB_some _ (p1 + 1) lb true hp2
      have n1 := nl_next_boundary s p1 a4
      have run1 := (skip_run_blank s pos p1 hb (fun i h1 h2 => a6 rfl i h1 h2)).1
      have run2 := (skip_run_blank s (p1 + 1) lb n1.1 (fun i h1 h2 => c6 rfl i h1 h2)).1
      refine ⟨Nat.le_refl _, by simp; omega, by simp at c3 ⊢; omega, ?_, hb, boundary_after_lead s lb _ c4⟩
      exact WsRange_join _ _ p1 _ (WsRange_of_blank _ _ _ run1)
        (WsRange_join _ _ (p1 + 1) _ (WsRange_single_nl _ _ a4) (WsRange_of_blank _ _ _ run2))

/-- `format_block`: the hull of the four seam ranges around `pos` -/
theorem formatBlock_good (s : List Char) (pos : Nat) (r : Nat × Nat)
    (h : formatBlock (bytesOf s) pos seamFormatters (pos, pos) = .ok r) :
    isBoundary (bytesOf s) pos = true ∧ GoodRange s pos r := by
  unfold seamFormatters at h
  simp only [formatBlock] at h
  -- the four calls, in order
  cases h1 : fmtIndent (bytesOf s) pos with
  | error e => rw [h1] at h; simp at h
  | ok r1 =>
    rw [h1] at h
    simp only at h
    cases h2 : fmtEmpty (bytesOf s) pos with
    | error e => rw [h2] at h; simp at h
    | ok r2 =>
      rw [h2] at h
      simp only at h
      obtain ⟨hb, hl, g2⟩ := fmtEmpty_good s pos r2 h2
      have g1 := fmtIndent_good s pos r1 hb hl h1
      cases h3 : fmtPrev (bytesOf s) pos with
      | error e => rw [h3] at h; simp at h
      | ok r3 =>
        rw [h3] at h
        simp only at h
        have g3 := fmtPrev_good s pos r3 hb hl h3
        cases h4 : fmtNext (bytesOf s) pos with
        | error e => rw [h4] at h; simp at h
        | ok r4 =>
          rw [h4] at h
          simp only at h
          have g4 := fmtNext_good s pos r4 hb hl h4
          injection h with h
          subst h
          refine ⟨hb, ?_⟩
          -- hull of four good ranges around pos
          have hull : ∀ (a c : Nat × Nat), GoodRange s pos a → GoodRange s pos c →
              GoodRange s pos (min c.1 a.1, max c.2 a.2) := by
            intro a c ga gc
            refine ⟨by have := ga.le1; omega, by have := ga.le2; omega, by have := ga.len; have := gc.len; omega, ?_, ?_, ?_⟩
            · intro i hi1 hi2
              by_cases hip : i < pos
              · by_cases hia : a.1 ≤ i
                · exact ga.ws i hia (by have := ga.le2; omega)
                · exact gc.ws i (by omega) (by have := gc.le2; omega)
              · by_cases hia : i < a.2
                · exact ga.ws i (by have := ga.le1; omega) hia
                · exact gc.ws i (by have := gc.le1; omega) (by omega)
            · by_cases hm : c.1 ≤ a.1
              · rw [Nat.min_eq_left hm]; exact gc.b1
              · rw [Nat.min_eq_right (by omega)]; exact ga.b1
            · by_cases hm : c.2 ≤ a.2
              · rw [Nat.max_eq_right hm]; exact ga.b2
              · rw [Nat.max_eq_left (by omega)]; exact gc.b2
          have g0 := goodRange_empty s pos hb hl
          exact hull _ r4 (hull _ r3 (hull _ r2 (hull _ r1 g0 g1) g2) g3) g4

end Chiritori
