import Chiritori.Lemmas.FormatBlock
import Chiritori.Lemmas.Remove
/-
  Merging the formatter ranges and deleting them: only whitespace goes.
-/
namespace Chiritori
open Spec

theorem mem_insertAt (l : List Rng') (i : Nat) (y x : Rng') : x ∈ insertAt l i y → x = y ∨ x ∈ l := by
  intro h
  unfold insertAt at h
  simp only [List.mem_append, List.mem_singleton] at h
  rcases h with (h | h) | h
  · exact Or.inr (List.mem_of_mem_take h)
  · exact Or.inl h
  · exact Or.inr (List.mem_of_mem_drop h)

theorem mem_mergeRangesLoop (news : List Rng') : ∀ (ranges : List Rng') (cur : Option Nat) (x : Rng'),
    x ∈ mergeRangesLoop ranges cur news → x ∈ ranges ∨ x ∈ news := by
  induction news with
  | nil => intro ranges cur x h; exact Or.inl h
  | cons n ns ih =>
    intro ranges cur x h
    simp only [mergeRangesLoop] at h
    split at h
    · rcases ih _ _ x h with h | h
      · rcases mem_insertAt _ _ _ _ h with h | h
        · exact Or.inr (by simp [h])
        · exact Or.inl h
      · exact Or.inr (by simp [h])
    · rcases ih _ _ x h with h | h
      · rcases mem_insertAt _ _ _ _ h with h | h
        · exact Or.inr (by simp [h])
        · exact Or.inl h
      · exact Or.inr (by simp [h])

theorem mem_mergeRanges (ranges news : List Rng') (x : Rng') (h : x ∈ mergeRanges ranges news) :
    x ∈ ranges ∨ x ∈ news := by
  unfold mergeRanges at h
  split at h
  · exact Or.inl h
  · rcases mem_mergeRangesLoop _ _ _ x h with h | h
    · exact Or.inl h
    · exact Or.inr (by simpa using h)

theorem mem_insertByStart (y : Rng') (l : List Rng') (x : Rng') : x ∈ insertByStart y l → x = y ∨ x ∈ l := by
  induction l with
  | nil => intro h; simp [insertByStart] at h; exact Or.inl h
  | cons z zs ih =>
    intro h
    simp only [insertByStart] at h
    split at h
    · simp only [List.mem_cons] at h
      rcases h with h | h | h
      · exact Or.inl h
      · exact Or.inr (by simp [h])
      · exact Or.inr (by simp [h])
    · simp only [List.mem_cons] at h
      rcases h with h | h
      · exact Or.inr (by simp [h])
      · rcases ih h with h | h
        · exact Or.inl h
        · exact Or.inr (by simp [h])

theorem mem_sortByStart (l : List Rng') (x : Rng') : x ∈ sortByStart l → x ∈ l := by
  induction l with
  | nil => intro h; simpa [sortByStart] using h
  | cons z zs ih =>
    intro h
    simp only [sortByStart, List.foldr_cons] at h
    rcases mem_insertByStart _ _ _ h with h | h
    · simp [h]
    · exact List.mem_cons_of_mem _ (ih h)

/-- strictly separated ranges -/
def OSorted : List Rng' → Prop
  | [] => True
  | [_] => True
  | r :: r' :: rest => r.2 < r'.1 ∧ OSorted (r' :: rest)

theorem mergeOverlappedGo_spec (s : List Char) (xs : List Rng') : ∀ (cur : Rng'), RangeOK s cur →
    (∀ x ∈ xs, RangeOK s x) →
    (∀ r ∈ mergeOverlappedGo cur xs, RangeOK s r) ∧ OSorted (mergeOverlappedGo cur xs) ∧
    ∃ e rest, mergeOverlappedGo cur xs = (cur.1, e) :: rest := by
  induction xs with
  | nil =>
    intro cur hc _
    simp only [mergeOverlappedGo]
    exact ⟨by intro r hr; simp at hr; subst hr; exact hc, trivial, cur.2, [], rfl⟩
  | cons x xs ih =>
    intro cur hc hxs
    have hx := hxs x (by simp)
    have hrest : ∀ y ∈ xs, RangeOK s y := fun y hy => hxs y (by simp [hy])
    simp only [mergeOverlappedGo]
    split
    · rename_i hov
      have hm : RangeOK s (cur.1, max cur.2 x.2) := by
        refine ⟨by have := hc.le; simp only; omega, by have := hc.len; have := hx.len; simp only; omega, ?_, hc.b1, ?_⟩
        · intro i hi1 hi2
          by_cases hlt : i < cur.2
          · exact hc.ws i hi1 hlt
          · exact hx.ws i (by omega) (by simp only at hi2; omega)
        · by_cases hm : cur.2 ≤ x.2
          · simp only [Nat.max_eq_right hm]; exact hx.b2
          · simp only [Nat.max_eq_left (by omega : x.2 ≤ cur.2)]; exact hc.b2
      exact ih _ hm hrest
    · rename_i hno
      obtain ⟨a1, a2, e, rest, a3⟩ := ih x hx hrest
      refine ⟨?_, ?_, cur.2, _, rfl⟩
      · intro r hr
        rcases List.mem_cons.mp hr with hr | hr
        · subst hr; exact hc
        · exact a1 r hr
      · rw [a3]
        rw [a3] at a2
        exact ⟨by simp only; omega, a2⟩

theorem mergeOverlapped_spec (s : List Char) (l : List Rng') (h : ∀ x ∈ l, RangeOK s x) :
    (∀ r ∈ mergeOverlapped l, RangeOK s r) ∧ OSorted (mergeOverlapped l) := by
  cases l with
  | nil => simp [mergeOverlapped, OSorted]
  | cons r rs =>
    obtain ⟨a1, a2, _⟩ := mergeOverlappedGo_spec s rs r (h r (by simp)) (fun x hx => h x (by simp [hx]))
    exact ⟨a1, a2⟩

theorem RSorted_of_OSorted (s : List Char) (l : List Rng') (hok : ∀ r ∈ l, RangeOK s r) (h : OSorted l) (lo : Nat)
    (hlo : ∀ r, l.head? = some r → lo ≤ r.1) : RSorted l lo := by
  induction l generalizing lo with
  | nil => trivial
  | cons r rs ih =>
    refine ⟨hlo r rfl, (hok r (by simp)).le, ?_⟩
    cases rs with
    | nil => trivial
    | cons r' rest =>
      simp only [OSorted] at h
      apply ih (fun x hx => hok x (by simp [hx])) h.2
      intro q hq
      simp at hq; subst hq; omega

theorem deleteRanges_eq_deleteAll (content : Bytes) (rs : List Rng') : deleteRanges content rs = deleteAll content rs := by
  induction rs with
  | nil => rfl
  | cons r rs ih =>
    simp only [deleteRanges, deleteAll, ih]
    cases deleteAll content rs <;> rfl

theorem deleteAll_wellFormed (s : List Char) (rs : List Rng) (c : Bytes) (h : deleteAll (bytesOf s) rs = .ok c) :
    ∃ s', c = bytesOf s' := by
  induction rs generalizing c with
  | nil => simp only [deleteAll] at h; injection h with h; exact ⟨s, h.symm⟩
  | cons r rs ih =>
    simp only [deleteAll] at h
    cases hc1 : deleteAll (bytesOf s) rs with
    | error e => rw [hc1] at h; simp at h
    | ok c1 =>
      rw [hc1] at h
      simp only at h
      obtain ⟨s1, hs1⟩ := ih c1 hc1
      rw [hs1] at h
      obtain ⟨s', hs', _⟩ := deleteRange_wellFormed s1 r.1 r.2 c h
      exact ⟨s', hs'⟩

/-! ### "the output is the input minus some whitespace", as a relation -/

inductive WsSub : Bytes → Bytes → Prop
  | nil : WsSub [] []
  | keep (x : ABy) {ks os : Bytes} : WsSub ks os → WsSub (x :: ks) (x :: os)
  | skip (x : ABy) {ks os : Bytes} : isWs x = true → WsSub ks os → WsSub (x :: ks) os

theorem wsSubseq_drop_head (ks : Bytes) : ∀ (o : ABy) (os : Bytes), wsSubseq ks (o :: os) = true → isWs o = true →
    wsSubseq ks os = true := by
  induction ks with
  | nil => intro o os h; simp [wsSubseq] at h
  | cons k ks ih =>
    intro o os h ho
    simp only [wsSubseq] at h
    by_cases hk : k = o
    · subst hk
      simp only [beq_self_eq_true, ite_true] at h
      cases os with
      | nil => simp only [wsSubseq, Bool.and_eq_true]; exact ⟨ho, h⟩
      | cons o2 os2 =>
        simp only [wsSubseq]
        by_cases h2 : k = o2
        · subst h2
          simp only [beq_self_eq_true, ite_true]
          exact ih k os2 h ho
        · have : (k == o2) = false := by simpa using h2
          simp only [this, Bool.false_eq_true, ite_false, Bool.and_eq_true]
          exact ⟨ho, h⟩
    · have hne : (k == o) = false := by simpa using hk
      simp only [hne, Bool.false_eq_true, ite_false, Bool.and_eq_true] at h
      obtain ⟨hkw, h⟩ := h
      have h' := ih o os h ho
      cases os with
      | nil => simp only [wsSubseq, Bool.and_eq_true]; exact ⟨hkw, h'⟩
      | cons o2 os2 =>
        simp only [wsSubseq]
        by_cases h2 : k = o2
        · subst h2
          simp only [beq_self_eq_true, ite_true]
          exact ih k os2 h' hkw
        · have : (k == o2) = false := by simpa using h2
          simp only [this, Bool.false_eq_true, ite_false, Bool.and_eq_true]
          exact ⟨hkw, h'⟩

theorem wsSubseq_of_WsSub (k o : Bytes) (h : WsSub k o) : wsSubseq k o = true := by
  induction h with
  | nil => rfl
  | keep x _ ih => simp [wsSubseq, ih]
  | @skip x ks os hx _ ih =>
    cases os with
    | nil => simp only [wsSubseq, Bool.and_eq_true]; exact ⟨hx, ih⟩
    | cons o os' =>
      simp only [wsSubseq]
      by_cases hxo : x = o
      · subst hxo
        simp only [beq_self_eq_true, ite_true]
        exact wsSubseq_drop_head ks x os' ih hx
      · have : (x == o) = false := by simpa using hxo
        simp only [this, Bool.false_eq_true, ite_false, Bool.and_eq_true]
        exact ⟨hx, ih⟩

theorem WsSub_minusFrom (b : Bytes) (off : Nat) (rs : List Rng)
    (h : ∀ k, k < b.length → inAny rs (off + k) = true → ∃ x, b[k]? = some x ∧ isWs x = true) :
    WsSub b (minusFrom b off rs) := by
  induction b generalizing off with
  | nil => exact .nil
  | cons x xs ih =>
    have ih' := ih (off + 1) (fun k hk hin => by
      have := h (k + 1) (by simp; omega) (by rwa [show off + (k + 1) = off + 1 + k by omega])
      simpa using this)
    simp only [minusFrom, List.zipIdx_cons, List.filter_cons]
    by_cases hin : inAny rs off = true
    · simp only [hin, Bool.not_true, Bool.false_eq_true, ite_false]
      obtain ⟨y, hy, hw⟩ := h 0 (by simp) (by simpa using hin)
      simp at hy; subst hy
      exact .skip x hw ih'
    · have : inAny rs off = false := by simpa using hin
      simp only [this, Bool.not_false, ite_true, List.map_cons]
      exact .keep x ih'

theorem isWs_of_isWsByte (x : ABy) (h : isWsByte x) : isWs x = true := by
  rcases h with h | h | h <;> simp [isWs, h]

/-- `format` only takes whitespace out -/
theorem format_wsSub (s : List Char) (pos : List (Nat × Option Nat)) (out : Bytes)
    (h : format (bytesOf s) pos = .ok out) : WsSub (bytesOf s) out ∧ ∃ s', out = bytesOf s' := by
  unfold format at h
  cases hfc : formatCollect (bytesOf s) pos pos with
  | error e => rw [hfc] at h; simp at h
  | ok rb =>
    rw [hfc] at h
    obtain ⟨ranges, blocks⟩ := rb
    simp only at h
    obtain ⟨ok1, ok2⟩ := formatCollect_ok s pos pos ranges blocks hfc
    have hall : ∀ x ∈ mergeRanges ranges (sortByStart blocks), RangeOK s x := by
      intro x hx
      rcases mem_mergeRanges _ _ _ hx with hx | hx
      · exact ok1 x hx
      · exact ok2 x (mem_sortByStart _ _ hx)
    obtain ⟨m1, m2⟩ := mergeOverlapped_spec s _ hall
    rw [deleteRanges_eq_deleteAll] at h
    have hrs := RSorted_of_OSorted s _ m1 m2 0 (fun _ _ => Nat.zero_le _)
    have heq := deleteAll_eq (bytesOf s) _ 0 hrs out h
    simp only [List.take_zero, List.drop_zero, List.nil_append] at heq
    refine ⟨?_, deleteAll_wellFormed s _ out h⟩
    rw [heq]
    apply WsSub_minusFrom
    intro k hk hin
    simp only [Nat.zero_add] at hin
    simp only [inAny, List.any_eq_true] at hin
    obtain ⟨r, hr, hc⟩ := hin
    simp only [Rng.contains, Bool.and_eq_true, decide_eq_true_eq] at hc
    obtain ⟨x, hx, hw⟩ := (m1 r hr).ws k hc.1 hc.2
    exact ⟨x, hx, isWs_of_isWsByte x hw⟩

end Chiritori
