import Chiritori.Model.ElementParser
/-
  The one place where the model of `element_parser::parse` is total although the Rust code has an `unwrap()`:
  `pairs.last_mut().unwrap()` when a quoted value ends (element_parser.rs:79,85).  `setLastValue` returns the list
  unchanged when it is empty; this file shows that it never is: a value can only begin behind a name, and a name is
  pushed when it ends.  So the `unwrap()` cannot fail and the totalisation hides nothing.
-/
namespace Chiritori

/-- the states in which an attribute has been pushed and not yet completed -/
def NeedsPairs : EState → Prop
  | .nameEnd => True
  | .valueBegin => True
  | .valueNoQuote => True
  | .valueDq _ => True
  | .valueSq _ => True
  | _ => False

theorem setLastValue_ne (pairs : Pairs) (v : List Char) (h : pairs ≠ []) : setLastValue pairs v ≠ [] := by
  unfold setLastValue
  cases hl : pairs.getLast? with
  | none => exact h
  | some x => obtain ⟨n, _⟩ := x; simp

theorem elStep_inv (acc : Pairs × EState) (c : Char) (h : NeedsPairs acc.2 → acc.1 ≠ []) :
    NeedsPairs (elStep acc c).2 → (elStep acc c).1 ≠ [] := by
  obtain ⟨pairs, st⟩ := acc
  simp only at h
  cases st with
  | nameBegin =>
    simp only [elStep]
    split
    · simp [NeedsPairs]
    · split <;> simp [NeedsPairs]
  | name a =>
    simp only [elStep]
    split
    · simp
    · split <;> simp [NeedsPairs]
  | nameEnd =>
    have hp := h trivial
    simp only [elStep]
    split
    · intro _; exact hp
    · split
      · intro _; exact hp
      · simp [NeedsPairs]
  | valueBegin =>
    have hp := h trivial
    simp only [elStep]
    split
    · intro _; exact hp
    · split
      · intro _; exact hp
      · split <;> (intro _; exact hp)
  | valueNoQuote =>
    have hp := h trivial
    simp only [elStep]
    split
    · simp [NeedsPairs]
    · intro _; exact hp
  | valueDq a =>
    have hp := h trivial
    simp only [elStep]
    split
    · simp [NeedsPairs]
    · intro _; exact hp
  | valueSq a =>
    have hp := h trivial
    simp only [elStep]
    split
    · simp [NeedsPairs]
    · intro _; exact hp
  | parseError => simp [elStep, NeedsPairs]

theorem run_inv : ∀ (target : List Char) (acc : Pairs × EState), (NeedsPairs acc.2 → acc.1 ≠ []) →
    NeedsPairs (target.foldl elStep acc).2 → (target.foldl elStep acc).1 ≠ []
  | [], acc, h => h
  | c :: cs, acc, h => by
    simp only [List.foldl_cons]
    exact run_inv cs (elStep acc c) (elStep_inv acc c h)

/-- `pairs.last_mut().unwrap()` cannot fail: whenever the scan of a tag body stands inside a quoted value, an attribute
    has been pushed -/
theorem elStep_pairs_nonempty (pre : List Char) :
    let st := pre.foldl elStep ([], .nameBegin)
    (∃ a, st.2 = .valueDq a ∨ st.2 = .valueSq a) → st.1.getLast? ≠ none := by
  intro st h
  have hne : st.1 ≠ [] := by
    apply run_inv pre ([], .nameBegin) (by simp [NeedsPairs])
    obtain ⟨a, h | h⟩ := h <;> (show NeedsPairs (pre.foldl elStep ([], .nameBegin)).2; rw [h]; trivial)
  intro hc
  exact hne (List.getLast?_eq_none_iff.mp hc)

end Chiritori
