import Chiritori.Lemmas.CoresKept
import Chiritori.Lemmas.Lines
/-
  C13 at document level, list part: a text laid out as blocks of blank lines (gaps) and non-blank lines (cores);
  deleting whitespace that avoids the cores and whose maximal deleted runs start at line starts leaves every
  non-blank line byte for byte on a line of its own, with only whitespace between them.
-/
namespace Chiritori
open Spec


theorem linesT_flatten : ∀ (b cur : Bytes), (linesT b cur).flatten = cur ++ b
  | [], [] => rfl
  | [], c :: cs => by simp [linesT]
  | x :: xs, cur => by
    simp only [linesT]
    split
    · simp [linesT_flatten xs []]
    · simp [linesT_flatten xs (cur ++ [x])]


/-- blocks of blank lines as gaps, non-blank lines as cores; the second component is the trailing gap -/
def lineLayout : List Bytes → Bytes → List (Bytes × Bytes) × Bytes
  | [], acc => ([], acc)
  | l :: ls, acc =>
    if isBlankLine l then lineLayout ls (acc ++ l)
    else ((acc, l) :: (lineLayout ls []).1, (lineLayout ls []).2)

theorem lineLayout_bytes : ∀ (ls : List Bytes) (acc : Bytes),
    layoutBytes (lineLayout ls acc).1 (lineLayout ls acc).2 = acc ++ ls.flatten
  | [], acc => by simp [lineLayout, layoutBytes]
  | l :: ls, acc => by
    simp only [lineLayout]
    split
    · rw [lineLayout_bytes ls (acc ++ l)]; simp
    · simp only [layoutBytes, lineLayout_bytes ls [], List.nil_append, List.flatten_cons]

/-- the text with only whitespace between the cores, each core at the beginning of a line -/
inductive LL : List Bytes → Bytes → Prop
  | nil (g : Bytes) : (∀ x ∈ g, isWs x = true) → LL [] g
  | cons (g c rest : Bytes) (cs : List Bytes) : (∀ x ∈ g, isWs x = true) → (g = [] ∨ g.getLast? = some NL) →
      (c.getLast? = some NL ∨ (cs = [] ∧ rest = [])) →
      LL cs rest → LL (c :: cs) (g ++ (c ++ rest))

/-! ### what is left of a gap -/

theorem minusFrom_snoc (g : Bytes) (x : ABy) (off : Nat) (F : List Rng) :
    minusFrom (g ++ [x]) off F = minusFrom g off F ++ (if inAny F (off + g.length) then [] else [x]) := by
  rw [minusFrom_append]
  congr 1
  simp only [minusFrom, List.zipIdx_cons, List.zipIdx_nil, List.filter_cons, List.filter_nil]
  split <;> simp_all

theorem minusFrom_ws (g : Bytes) (off : Nat) (F : List Rng) (h : ∀ x ∈ g, isWs x = true) :
    ∀ x ∈ minusFrom g off F, isWs x = true := by
  intro x hx
  simp only [minusFrom, List.mem_map, List.mem_filter] at hx
  obtain ⟨e, ⟨he, _⟩, rfl⟩ := hx
  exact h e.1 (List.fst_mem_of_mem_zipIdx he)

/-- the last byte that survives in a gap: either nothing survives, or it is the byte at the largest surviving index -/
theorem minusFrom_last_aux (F : List Rng) : ∀ (n : Nat) (g : Bytes) (off : Nat), g.length = n →
    minusFrom g off F = [] ∨ ∃ j, off ≤ j ∧ j < off + g.length ∧ inAny F j = false ∧
      (∀ i, j < i → i < off + g.length → inAny F i = true) ∧ (minusFrom g off F).getLast? = g[j - off]?
  | 0, g, off, hn => by
    have : g = [] := List.eq_nil_of_length_eq_zero hn
    subst this; exact Or.inl rfl
  | n + 1, g, off, hn => by
    rcases List.eq_nil_or_concat g with h | ⟨g', x, h⟩
    · subst h; simp at hn
    rw [List.concat_eq_append] at h
    subst h
    have ih := minusFrom_last_aux F n g' off (by simp at hn; omega)
    rw [minusFrom_snoc]
    by_cases hx : inAny F (off + g'.length) = true
    · rw [if_pos hx, List.append_nil]
      rcases ih with h | ⟨j, j1, j2, j3, j4, j5⟩
      · exact Or.inl h
      · right
        refine ⟨j, j1, by simp; omega, j3, ?_, ?_⟩
        · intro i hi1 hi2
          simp only [List.length_append, List.length_cons, List.length_nil] at hi2
          by_cases hi : i < off + g'.length
          · exact j4 i hi1 hi
          · have : i = off + g'.length := by omega
            rw [this]; exact hx
        · rw [j5, List.getElem?_append_left (by omega)]
    · right
      have hx' : inAny F (off + g'.length) = false := by simpa using hx
      rw [if_neg hx]
      refine ⟨off + g'.length, by omega, by simp, hx', ?_, ?_⟩
      · intro i hi1 hi2
        simp only [List.length_append, List.length_cons, List.length_nil] at hi2
        omega
      · simp

theorem minusFrom_last (F : List Rng) (g : Bytes) (off : Nat) :
    minusFrom g off F = [] ∨ ∃ j, off ≤ j ∧ j < off + g.length ∧ inAny F j = false ∧
      (∀ i, j < i → i < off + g.length → inAny F i = true) ∧ (minusFrom g off F).getLast? = g[j - off]? :=
  minusFrom_last_aux F g.length g off rfl

/-- position `x` starts a line of `K` -/
def IsLS (K : Bytes) (x : Nat) : Prop := x = 0 ∨ K[x - 1]? = some NL

/-- every maximal deleted run starts at a line start -/
def RunsAtLS (F : List Rng) (K : Bytes) : Prop :=
  ∀ i, inAny F i = true → (i = 0 ∨ inAny F (i - 1) = false) → IsLS K i

/-- a gap that is empty or ends with a line break stays so -/
theorem gap_closed (F : List Rng) (K pre g post : Bytes) (off : Nat) (hK : K = pre ++ (g ++ post)) (hpre : pre.length = off)
    (hg : g = [] ∨ g.getLast? = some NL) (hF : RunsAtLS F K) :
    minusFrom g off F = [] ∨ (minusFrom g off F).getLast? = some NL := by
  rcases minusFrom_last F g off with h | ⟨j, j1, j2, j3, j4, j5⟩
  · exact Or.inl h
  · right
    rw [j5]
    have hKj : K[j]? = g[j - off]? := by
      rw [hK, List.getElem?_append_right (by omega), hpre, List.getElem?_append_left (by omega)]
    by_cases hlast : j = off + g.length - 1
    · -- the last byte of the gap survives
      rcases hg with hg | hg
      · subst hg; simp at j2; omega
      · rw [List.getLast?_eq_getElem?] at hg
        rw [show j - off = g.length - 1 by omega]
        exact hg
    · -- the byte behind it starts a deleted run
      have hdel := j4 (j + 1) (by omega) (by omega)
      have := hF (j + 1) hdel (Or.inr (by simpa using j3))
      rcases this with h | h
      · omega
      · rw [← hKj]; simpa using h

/-- every core ends with a line break, except possibly the last one, behind which the text ends -/
def TermOK : List (Bytes × Bytes) → Bytes → Prop
  | [], _ => True
  | gc :: rest, tail => (gc.2.getLast? = some NL ∧ TermOK rest tail) ∨ (rest = [] ∧ tail = [])

/-- the main list lemma -/
theorem LL_of_layout (F : List Rng) (K : Bytes) (hF : RunsAtLS F K) : ∀ (L : List (Bytes × Bytes)) (tail pre : Bytes) (off : Nat),
    K = pre ++ layoutBytes L tail → pre.length = off → TermOK L tail →
    (∀ gc ∈ L, (∀ x ∈ gc.1, isWs x = true) ∧ (gc.1 = [] ∨ gc.1.getLast? = some NL)) →
    (∀ x ∈ tail, isWs x = true) → CoresKept F L off →
    LL (L.map (·.2)) (minusFrom (layoutBytes L tail) off F)
  | [], tail, _, off, _, _, _, _, ht, _ => by
    simp only [layoutBytes, List.map_nil]
    exact .nil _ (minusFrom_ws tail off F ht)
  | (g, c) :: rest, tail, pre, off, hK, hpre, hterm, hg, ht, hck => by
    obtain ⟨h1, h2⟩ := hck
    obtain ⟨g1, g2⟩ := hg (g, c) (by simp)
    simp only [layoutBytes, List.map_cons]
    rw [minusFrom_append, minusFrom_append, minusFrom_keep c _ F h1]
    have hterm' : TermOK rest tail := by
      rcases hterm with ⟨_, h⟩ | ⟨h, _⟩
      · exact h
      · subst h; trivial
    refine .cons _ c _ _ (minusFrom_ws g off F g1) ?_ ?_ ?_
    · exact gap_closed F K pre g (c ++ layoutBytes rest tail) off (by rw [hK]; rfl) hpre g2 hF
    · rcases hterm with ⟨h, _⟩ | ⟨h, h'⟩
      · exact Or.inl h
      · subst h; subst h'
        exact Or.inr ⟨rfl, by simp [layoutBytes, minusFrom]⟩
    · have := LL_of_layout F K hF rest tail (pre ++ (g ++ c)) (off + g.length + c.length)
        (by rw [hK]; simp [layoutBytes]) (by simp [hpre]; omega) hterm' (fun gc hgc => hg gc (by simp [hgc])) ht h2
      simpa [Nat.add_assoc] using this

end Chiritori

namespace Chiritori
open Spec

/-! ### the lines of a text -/

/-- a line: a body without line breaks, terminated by a line break - except possibly the last one -/
def LinesOK : List Bytes → Prop
  | [] => True
  | [l] => ∃ body, (∀ x ∈ body, x ≠ NL) ∧ (l = body ++ [NL] ∨ (l = body ∧ body ≠ []))
  | l :: l' :: rest => (∃ body, (∀ x ∈ body, x ≠ NL) ∧ l = body ++ [NL]) ∧ LinesOK (l' :: rest)

theorem linesT_ok : ∀ (b cur : Bytes), (∀ x ∈ cur, x ≠ NL) → LinesOK (linesT b cur)
  | [], [], _ => trivial
  | [], c :: cs, h => ⟨c :: cs, h, Or.inr ⟨rfl, by simp⟩⟩
  | x :: xs, cur, h => by
    simp only [linesT]
    split
    · rename_i hx
      subst hx
      have ih := linesT_ok xs [] (by simp)
      cases hl : linesT xs [] with
      | nil => exact ⟨cur, h, Or.inl rfl⟩
      | cons l' rest => rw [hl] at ih; exact ⟨⟨cur, h, rfl⟩, ih⟩
    · rename_i hx
      exact linesT_ok xs (cur ++ [x]) (by
        intro y hy
        rcases List.mem_append.mp hy with hy | hy
        · exact h y hy
        · simp only [List.mem_singleton] at hy; subst hy; exact hx)

theorem lineLayout_term : ∀ (ls : List Bytes) (acc : Bytes), LinesOK ls → TermOK (lineLayout ls acc).1 (lineLayout ls acc).2
  | [], _, _ => trivial
  | [l], acc, h => by
    obtain ⟨body, _, h2⟩ := h
    simp only [lineLayout]
    split
    · trivial
    · rcases h2 with h2 | ⟨h2, _⟩
      · left; exact ⟨by rw [h2]; simp, trivial⟩
      · right; exact ⟨rfl, rfl⟩
  | l :: l' :: rest, acc, h => by
    obtain ⟨⟨body, _, h2⟩, h3⟩ := h
    simp only [lineLayout]
    split
    · exact lineLayout_term (l' :: rest) _ h3
    · left
      exact ⟨by rw [h2]; simp, lineLayout_term (l' :: rest) [] h3⟩

/-- `F` avoids every non-blank line of `K`, its line break included -/
def AvoidsLines (F : List Rng) (K : Bytes) : Prop :=
  ∀ ls le x, IsLS K ls → ls ≤ x → x < le → le ≤ K.length → (∀ i, ls ≤ i → i < le → K[i]? ≠ some NL) →
    (K[le]? = some NL ∨ le = K.length) → (∃ y, K[x]? = some y ∧ isWs y = false) →
    ∀ d, ls ≤ d → d ≤ le → d < K.length → inAny F d = false

theorem isWs_NL : isWs NL = true := by decide

theorem exists_nonws_of_not_blank (l : Bytes) (h : isBlankLine l = false) :
    ∃ (k : Nat) (y : ABy), l[k]? = some y ∧ isWs y = false := by
  unfold isBlankLine at h
  rw [List.all_eq_false] at h
  obtain ⟨y, hy, hw⟩ := h
  obtain ⟨k, hk⟩ := List.mem_iff_getElem?.mp hy
  exact ⟨k, y, hk, by simpa using hw⟩

/-- the layout of a text by lines: gaps are whitespace and closed, the trailing gap is whitespace, and a deletion
    that avoids the non-blank lines keeps the cores -/
theorem lineLayout_facts (F : List Rng) (K : Bytes) (hA : AvoidsLines F K) : ∀ (ls : List Bytes) (acc pre : Bytes) (off : Nat),
    K = pre ++ (acc ++ ls.flatten) → pre.length = off → LinesOK ls → IsLS K (off + acc.length) →
    (∀ x ∈ acc, isWs x = true) → (acc = [] ∨ acc.getLast? = some NL) →
    (∀ gc ∈ (lineLayout ls acc).1, (∀ x ∈ gc.1, isWs x = true) ∧ (gc.1 = [] ∨ gc.1.getLast? = some NL)) ∧
    (∀ x ∈ (lineLayout ls acc).2, isWs x = true) ∧ CoresKept F (lineLayout ls acc).1 off
  | [], acc, pre, off, _, _, _, _, hw, _ => by
    simp only [lineLayout]
    exact ⟨by simp, hw, trivial⟩
  | l :: ls, acc, pre, off, hK, hpre, hok, hls, hw, hcl => by
    -- the shape of this line and whether another one follows
    have hline : ∃ body, (∀ x ∈ body, x ≠ NL) ∧ (l = body ++ [NL] ∨ (l = body ∧ body ≠ [] ∧ ls = [])) := by
      cases ls with
      | nil =>
        obtain ⟨body, h1, h2⟩ := hok
        rcases h2 with h2 | ⟨h2, h3⟩
        · exact ⟨body, h1, Or.inl h2⟩
        · exact ⟨body, h1, Or.inr ⟨h2, h3, rfl⟩⟩
      | cons l' rest =>
        obtain ⟨⟨body, h1, h2⟩, _⟩ := hok
        exact ⟨body, h1, Or.inl h2⟩
    have hok' : LinesOK ls := by
      cases ls with
      | nil => trivial
      | cons l' rest => exact hok.2
    -- the line inside K
    have hKl : ∀ i, i < l.length → K[off + acc.length + i]? = l[i]? := by
      intro i hi
      rw [hK, List.getElem?_append_right (by omega), hpre, List.getElem?_append_right (by omega)]
      rw [show off + acc.length + i - off - acc.length = i by omega]
      simp only [List.flatten_cons]
      rw [List.getElem?_append_left hi]
    have hKlen : off + acc.length + l.length ≤ K.length := by
      rw [hK]; simp [hpre]; omega
    obtain ⟨body, hbody, hshape⟩ := hline
    -- behind a terminated line a line starts
    have hnext : l = body ++ [NL] → IsLS K (off + acc.length + l.length) := by
      intro h
      right
      have := hKl body.length (by rw [h]; simp)
      rw [h] at this ⊢
      simp only [List.length_append, List.length_cons, List.length_nil] at this ⊢
      rw [show off + acc.length + (body.length + (0 + 1)) - 1 = off + acc.length + body.length by omega]
      rw [this]; simp
    simp only [lineLayout]
    by_cases hb : isBlankLine l = true
    · -- a blank line joins the gap
      rw [if_pos hb]
      have hwl : ∀ x ∈ l, isWs x = true := by
        intro x hx; exact List.all_eq_true.mp hb x hx
      have hwal : ∀ x ∈ acc ++ l, isWs x = true := by
        intro x hx
        rcases List.mem_append.mp hx with hx | hx
        · exact hw x hx
        · exact hwl x hx
      rcases hshape with hshape | ⟨h1, h2, h3⟩
      · apply lineLayout_facts F K hA ls (acc ++ l) pre off (by rw [hK]; simp) hpre hok'
        · have := hnext hshape
          simpa [Nat.add_assoc] using this
        · exact hwal
        · right; rw [hshape]; simp
      · -- a last, unterminated blank line: nothing follows
        subst h3
        simp only [lineLayout]
        exact ⟨by simp, hwal, trivial⟩
    · -- a non-blank line is a core
      rw [if_neg hb]
      have hb' : isBlankLine l = false := by simpa using hb
      obtain ⟨k, y, hky, hyw⟩ := exists_nonws_of_not_blank l hb'
      have hklt := lt_of_getElem?_some _ _ _ hky
      -- the non-whitespace byte is in the body
      have hkbody : k < body.length := by
        rcases hshape with h | ⟨h, _, _⟩
        · rw [h] at hky hklt
          simp only [List.length_append, List.length_cons, List.length_nil] at hklt
          by_cases hkb : k < body.length
          · exact hkb
          · have : k = body.length := by omega
            rw [this] at hky
            simp at hky
            rw [← hky] at hyw
            rw [isWs_NL] at hyw; exact absurd hyw (by simp)
        · rw [h] at hklt; exact hklt
      have hbodyK : ∀ i, i < body.length → K[off + acc.length + i]? = body[i]? := by
        intro i hi
        rcases hshape with h | ⟨h, _, _⟩
        · rw [hKl i (by rw [h]; simp; omega), h, List.getElem?_append_left hi]
        · rw [hKl i (by rw [h]; exact hi), h]
      have hterm : K[off + acc.length + body.length]? = some NL ∨ off + acc.length + body.length = K.length := by
        rcases hshape with h | ⟨h, _, h3⟩
        · left
          rw [hKl body.length (by rw [h]; simp), h]; simp
        · right
          subst h3
          rw [hK, h]; simp [hpre]; omega
      have hlenb : off + acc.length + body.length ≤ K.length := by
        rcases hshape with h | ⟨h, _, _⟩
        · rw [h] at hKlen; simp at hKlen; omega
        · rw [h] at hKlen; omega
      have havoid := hA (off + acc.length) (off + acc.length + body.length) (off + acc.length + k) hls (by omega) (by omega)
        hlenb
        (by
          intro i hi1 hi2 hnl
          have := hbodyK (i - (off + acc.length)) (by omega)
          rw [show off + acc.length + (i - (off + acc.length)) = i by omega, hnl] at this
          have hm : NL ∈ body := List.mem_of_getElem? this.symm
          exact hbody NL hm rfl)
        hterm
        (by
          refine ⟨y, ?_, hyw⟩
          rw [hbodyK k hkbody]
          rcases hshape with h | ⟨h, _, _⟩
          · rw [h, List.getElem?_append_left hkbody] at hky; exact hky
          · rw [h] at hky; exact hky)
      have hcore : ∀ d, off + acc.length ≤ d → d < off + acc.length + l.length → inAny F d = false := by
        intro d hd1 hd2
        exact havoid d hd1 (by
          rcases hshape with h | ⟨h, _, _⟩
          · rw [h] at hd2; simp at hd2; omega
          · rw [h] at hd2; omega) (by omega)
      rcases hshape with hshape | ⟨h1, h2, h3⟩
      · obtain ⟨i1, i2, i3⟩ := lineLayout_facts F K hA ls [] (pre ++ (acc ++ l)) (off + acc.length + l.length)
          (by rw [hK]; simp) (by simp [hpre]; omega) hok' (by simpa using hnext hshape) (by simp) (Or.inl rfl)
        refine ⟨?_, i2, ?_⟩
        · intro gc hgc
          simp only [List.mem_cons] at hgc
          rcases hgc with rfl | hgc
          · exact ⟨hw, hcl⟩
          · exact i1 gc hgc
        · exact ⟨hcore, by simpa [Nat.add_assoc] using i3⟩
      · subst h3
        simp only [lineLayout]
        refine ⟨?_, by simp, ⟨hcore, trivial⟩⟩
        intro gc hgc
        simp only [List.mem_singleton] at hgc
        subst hgc
        exact ⟨hw, hcl⟩

end Chiritori

namespace Chiritori
open Spec

/-! ### reading `LL` as an equation between lists of lines -/

theorem linesT_body (body : Bytes) (h : ∀ x ∈ body, x ≠ NL) : ∀ (cur : Bytes),
    linesT (body ++ [NL]) cur = [cur ++ body ++ [NL]] ∧ (cur ++ body ≠ [] → linesT body cur = [cur ++ body]) := by
  induction body with
  | nil =>
    intro cur
    constructor
    · simp [linesT]
    · intro hne
      cases cur with
      | nil => simp at hne
      | cons c cs => simp [linesT]
  | cons x xs ih =>
    intro cur
    have hx : x ≠ NL := h x (by simp)
    have ih' := ih (fun y hy => h y (by simp [hy])) (cur ++ [x])
    constructor
    · simp only [List.cons_append, linesT, if_neg hx]
      rw [ih'.1]; simp
    · intro _
      simp only [linesT, if_neg hx]
      rw [ih'.2 (by simp)]; simp

theorem linesT_cons (x : ABy) (xs cur : Bytes) :
    linesT (x :: xs) cur = if x = NL then (cur ++ [x]) :: linesT xs [] else linesT xs (cur ++ [x]) := by
  simp only [linesT]

theorem linesT_append_closed : ∀ (a b cur : Bytes), a.getLast? = some NL →
    linesT (a ++ b) cur = linesT a cur ++ linesT b []
  | [], _, _, h => by simp at h
  | [x], b, cur, h => by
    simp only [List.getLast?_singleton, Option.some.injEq] at h
    subst h
    simp [linesT]
  | x :: y :: rest, b, cur, h => by
    have h' : (y :: rest).getLast? = some NL := by simpa using h
    rw [List.cons_append, linesT_cons, linesT_cons x (y :: rest) cur]
    split
    · rw [linesT_append_closed (y :: rest) b [] h']
      simp
    · rw [linesT_append_closed (y :: rest) b _ h']

theorem linesT_ws : ∀ (a cur : Bytes), (∀ x ∈ a, isWs x = true) → (∀ x ∈ cur, isWs x = true) →
    ∀ l ∈ linesT a cur, isBlankLine l = true
  | [], [], _, _, l, hl => by simp [linesT] at hl
  | [], c :: cs, _, hc, l, hl => by
    simp only [linesT, List.mem_singleton] at hl
    subst hl
    exact List.all_eq_true.mpr hc
  | x :: xs, cur, ha, hc, l, hl => by
    have hx := ha x (by simp)
    have hcx : ∀ y ∈ cur ++ [x], isWs y = true := by
      intro y hy
      rcases List.mem_append.mp hy with hy | hy
      · exact hc y hy
      · simp only [List.mem_singleton] at hy; subst hy; exact hx
    simp only [linesT] at hl
    split at hl
    · rcases List.mem_cons.mp hl with rfl | hl
      · exact List.all_eq_true.mpr hcx
      · exact linesT_ws xs [] (fun y hy => ha y (by simp [hy])) (by simp) l hl
    · exact linesT_ws xs _ (fun y hy => ha y (by simp [hy])) hcx l hl

/-- a single line: a body without line breaks, with or without its line break -/
def SingleLine (c : Bytes) : Prop := ∃ body, (∀ x ∈ body, x ≠ NL) ∧ (c = body ++ [NL] ∨ c = body)


theorem filter_blank_nil (ls : List Bytes) (h : ∀ l ∈ ls, isBlankLine l = true) : ls.filter nbl = [] := by
  rw [List.filter_eq_nil_iff]
  intro l hl
  simp [nbl, h l hl]

/-- the non-blank lines of a text laid out as `LL cs` are `cs` -/
theorem lines_of_LL : ∀ (cs : List Bytes) (out : Bytes), LL cs out →
    (∀ c ∈ cs, SingleLine c ∧ isBlankLine c = false) → (linesT out []).filter nbl = cs
  | [], out, h, _ => by
    cases h with
    | nil _ hg => exact filter_blank_nil _ (linesT_ws out [] hg (by simp))
  | c :: cs, out, h, hc => by
    cases h with
    | cons g c rest cs hg hcl hterm hLL =>
      obtain ⟨⟨body, hbody, hshape⟩, hnb⟩ := hc c (by simp)
      have ih := lines_of_LL cs rest hLL (fun c' hc' => hc c' (by simp [hc']))
      -- the gap contributes only blank lines
      have hgap : linesT (g ++ (c ++ rest)) [] = linesT g [] ++ linesT (c ++ rest) [] := by
        rcases hcl with hcl | hcl
        · subst hcl; simp [linesT]
        · exact linesT_append_closed g _ [] hcl
      rw [hgap, List.filter_append, filter_blank_nil _ (linesT_ws g [] hg (by simp)), List.nil_append]
      have hcne : c ≠ [] := by
        intro hcn; subst hcn; simp [isBlankLine] at hnb
      rcases hterm with hterm | ⟨h1, h2⟩
      · -- a terminated line
        have hcb : c = body ++ [NL] := by
          rcases hshape with h | h
          · exact h
          · exfalso
            rw [h] at hterm
            have : NL ∈ body := List.mem_of_getLast? hterm
            exact hbody NL this rfl
        rw [linesT_append_closed c rest [] hterm]
        rw [hcb, (linesT_body body hbody []).1, ← hcb]
        simp only [List.nil_append, List.filter_append, List.filter_cons, List.filter_nil]
        have : nbl (body ++ [NL]) = true := by rw [← hcb]; simp [nbl, hnb]
        rw [this]
        simp only [ite_true, List.singleton_append]
        rw [ih]
        rw [hcb]
      · -- the last line, not terminated
        subst h1; subst h2
        simp only [List.append_nil]
        have hl : linesT c [] = [c] := by
          rcases hshape with h | h
          · rw [h, (linesT_body body hbody []).1]; simp
          · rw [h]
            have := (linesT_body body hbody []).2 (by rw [List.nil_append, ← h]; exact hcne)
            simpa using this
        rw [hl]
        simp [nbl, hnb]

theorem lineLayout_cores : ∀ (ls : List Bytes) (acc : Bytes), (lineLayout ls acc).1.map (·.2) = ls.filter nbl
  | [], _ => rfl
  | l :: ls, acc => by
    simp only [lineLayout]
    split
    · rename_i h
      rw [lineLayout_cores ls _]
      simp [nbl, h]
    · rename_i h
      simp only [List.map_cons, lineLayout_cores ls []]
      have : nbl l = true := by simp [nbl]; simpa using h
      simp [this]

theorem linesOK_single : ∀ (ls : List Bytes), LinesOK ls → ∀ l ∈ ls, SingleLine l
  | [], _, l, hl => by simp at hl
  | [l0], h, l, hl => by
    simp only [List.mem_singleton] at hl; subst hl
    obtain ⟨body, h1, h2⟩ := h
    rcases h2 with h2 | ⟨h2, _⟩
    · exact ⟨body, h1, Or.inl h2⟩
    · exact ⟨body, h1, Or.inr h2⟩
  | l0 :: l1 :: rest, h, l, hl => by
    obtain ⟨⟨body, h1, h2⟩, h3⟩ := h
    rcases List.mem_cons.mp hl with rfl | hl
    · exact ⟨body, h1, Or.inl h2⟩
    · exact linesOK_single (l1 :: rest) h3 l hl

end Chiritori
