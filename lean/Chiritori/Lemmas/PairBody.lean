import Chiritori.Lemmas.MarkerProps
/-
  What a pair index means: a marker whose pair points forward is the opening part of an unwrapped element, the
  marker it points to is the closing part, and between them lies (part of) that element's body.
-/
namespace Chiritori

mutual
/-- the bodies `(end of opening part, start of closing part)` of the unwrap nodes of a forest -/
def bodiesOf : List RTree → List Rng
  | [] => []
  | t :: ts => bodiesOfT t ++ bodiesOf ts
def bodiesOfT : RTree → List Rng
  | .node r pair ch => (match pair with | some t => [(r.2, t.1)] | none => []) ++ bodiesOf ch
end

def PairBody (B : List Rng) (ms : List Marker) : Prop :=
  ∀ (i j : Nat) (mi mj : Marker), ms[i]? = some mi → mi.pair = some j → i < j → ms[j]? = some mj →
    ∃ body ∈ B, body.1 ≤ mi.stop ∧ mj.start ≤ body.2

theorem PairBody_mono (B B' : List Rng) (ms : List Marker) (h : PairBody B ms) (hs : ∀ x ∈ B, x ∈ B') : PairBody B' ms := by
  intro i j mi mj h1 h2 h3 h4
  obtain ⟨body, hb, g⟩ := h i j mi mj h1 h2 h3 h4
  exact ⟨body, hs body hb, g⟩

/-- the two shapes of `merge_tree` on an unwrap node -/
theorem mergeTree_shape (r t : Rng) (ch : List RTree) (acc : List Marker) (lo hi : Nat)
    (hg : RTreeGeo (.node r (some t) ch) lo hi) :
    ∃ k n E T, r.2 ≤ E ∧ T ≤ t.1 ∧ k + n ≤ (mergeMarkers ch []).length ∧
      mergeTree (.node r (some t) ch) acc =
        if E ≥ T then acc ++ [⟨r.1, t.2, none⟩]
        else acc ++ [⟨r.1, E, some (acc.length + ((mergeMarkers ch []).length - n - k) + 1)⟩]
            ++ (((mergeMarkers ch []).drop k).take ((mergeMarkers ch []).length - n - k)).map
                (rebase k ((mergeMarkers ch []).length - n) acc.length)
            ++ [⟨T, t.2, some acc.length⟩] := by
  simp only [RTreeGeo] at hg
  obtain ⟨g1, g2, g3, g4, g5, a, b, ga, gb1, gb2, gb3, gch⟩ := hg
  obtain ⟨hcm, _⟩ := mergeMarkers_spec ch a b [] a gch (by simp [MSorted])
  obtain ⟨k, E, hk, e1, e2, e3, e4, _⟩ := mergeChild_head (mergeMarkers ch []) r.1 r.2 a b hcm (by omega) gb1
  have hdesc : MDesc ((mergeMarkers ch []).drop k).reverse E b :=
    (MSorted_iff_MDesc_reverse _ E b).mp e4
  obtain ⟨n, T, hn, t1, t2, _, _, _, _⟩ := mergeChild_tail ((mergeMarkers ch []).drop k).reverse
    t.1 t.2 E b hdesc gb3 g4
  simp only [List.length_reverse, List.length_drop] at t2
  refine ⟨k, n, E, T, e1, t1, by omega, ?_⟩
  simp only [mergeTree]
  rw [show (r : Rng) = (r.1, r.2) from rfl, hk]
  simp only
  rw [show (t : Rng) = (t.1, t.2) from rfl, hn]

theorem len4 {α} (a : List α) (x : α) (m : List α) (z : α) :
    (a ++ [x] ++ m ++ [z]).length = a.length + 1 + m.length + 1 := by simp; omega

theorem get4_acc {α} (a : List α) (x : α) (m : List α) (z : α) (i : Nat) (h : i < a.length) :
    (a ++ [x] ++ m ++ [z])[i]? = a[i]? := by
  rw [List.append_assoc, List.append_assoc, List.getElem?_append_left h]

theorem get4_head {α} (a : List α) (x : α) (m : List α) (z : α) :
    (a ++ [x] ++ m ++ [z])[a.length]? = some x := by
  simp [List.append_assoc]

theorem get4_mid {α} (a : List α) (x : α) (m : List α) (z : α) (i : Nat) (h1 : a.length < i)
    (h2 : i < a.length + 1 + m.length) : (a ++ [x] ++ m ++ [z])[i]? = m[i - (a.length + 1)]? := by
  rw [List.getElem?_append_left (by simp; omega)]
  rw [List.getElem?_append_right (by simp; omega)]
  simp

theorem get4_last {α} (a : List α) (x : α) (m : List α) (z : α) :
    (a ++ [x] ++ m ++ [z])[a.length + 1 + m.length]? = some z := by
  rw [List.getElem?_append_right (by simp; omega)]
  simp only [List.length_append, List.length_cons, List.length_nil]
  rw [show a.length + 1 + m.length - (a.length + (0 + 1) + m.length) = 0 by omega]
  rfl

theorem getElem?_append3_head (a : List Marker) (x : Marker) (mid : List Marker) (z : Marker) :
    (a ++ [x] ++ mid ++ [z])[a.length]? = some x := by
  simp [List.append_assoc]

theorem rebase_pair (sc ec cur : Nat) (m : Marker) (j : Nat) (h : (rebase sc ec cur m).pair = some j) :
    ∃ p, m.pair = some p ∧ sc ≤ p ∧ p < ec ∧ j = p - sc + cur + 1 := by
  simp only [rebase] at h
  cases hp : m.pair with
  | none => rw [hp] at h; simp at h
  | some q =>
    rw [hp] at h
    simp only [Option.filter] at h
    split at h
    · rename_i hq
      simp only [Option.map_some, Option.some.injEq] at h
      simp only [Bool.and_eq_true, decide_eq_true_eq] at hq
      exact ⟨q, rfl, hq.1, hq.2, h.symm⟩
    · simp at h

mutual
theorem mergeMarkers_pairBody : ∀ (ts : List RTree) (lo hi : Nat) (acc : List Marker) (B : List Rng),
    RGeo ts lo hi → PV acc acc.length → PairBody B acc → (∀ x ∈ bodiesOf ts, x ∈ B) →
    PairBody B (mergeMarkers ts acc)
  | [], _, _, acc, B, _, _, ha, _ => by simpa [mergeMarkers] using ha
  | t :: ts, lo, hi, acc, B, hg, hpv, ha, hb => by
    simp only [RGeo] at hg
    obtain ⟨mid, ht, hts⟩ := hg
    simp only [mergeMarkers]
    exact mergeMarkers_pairBody ts mid hi _ B hts (mergeTree_PV t acc hpv)
      (mergeTree_pairBody t lo mid acc B ht hpv ha (fun x hx => hb x (by simp [bodiesOf, hx])))
      (fun x hx => hb x (by simp [bodiesOf, hx]))
theorem mergeTree_pairBody : ∀ (t : RTree) (lo hi : Nat) (acc : List Marker) (B : List Rng),
    RTreeGeo t lo hi → PV acc acc.length → PairBody B acc → (∀ x ∈ bodiesOfT t, x ∈ B) →
    PairBody B (mergeTree t acc)
  | .node r pair ch, lo, hi, acc, B, hg, hpv, ha, hb => by
    cases pair with
    | none =>
      simp only [mergeTree]
      intro i j mi mj h1 h2 h3 h4
      by_cases hi' : i < acc.length
      · rw [List.getElem?_append_left hi'] at h1
        have hj : j < acc.length := hpv mi (List.mem_of_getElem? h1) j h2
        rw [List.getElem?_append_left hj] at h4
        exact ha i j mi mj h1 h2 h3 h4
      · rw [List.getElem?_append_right (by omega)] at h1
        cases hq : i - acc.length with
        | zero =>
          rw [hq] at h1
          simp only [List.getElem?_cons_zero, Option.some.injEq] at h1
          subst h1
          simp at h2
        | succ q => rw [hq] at h1; simp at h1
    | some t =>
      obtain ⟨k, n, E, T, hE, hT, hkn, hshape⟩ := mergeTree_shape r t ch acc lo hi hg
      rw [hshape]
      -- the children, by induction
      have hgeo := hg
      simp only [RTreeGeo] at hgeo
      obtain ⟨_, _, _, _, _, a, b, _, _, _, _, gch⟩ := hgeo
      have ihc := mergeMarkers_pairBody ch a b [] B gch (by simp [PV]) (by intro i j mi mj h1; simp at h1)
        (fun x hx => hb x (by simp [bodiesOfT, hx]))
      have hbody : (r.2, t.1) ∈ B := hb _ (by simp [bodiesOfT])
      generalize hcm : mergeMarkers ch [] = cm at *
      split
      · -- one merged marker, no pair
        intro i j mi mj h1 h2 h3 h4
        by_cases hi' : i < acc.length
        · rw [List.getElem?_append_left hi'] at h1
          have hj : j < acc.length := hpv mi (List.mem_of_getElem? h1) j h2
          rw [List.getElem?_append_left hj] at h4
          exact ha i j mi mj h1 h2 h3 h4
        · rw [List.getElem?_append_right (by omega)] at h1
          cases hq : i - acc.length with
          | zero =>
            rw [hq] at h1
            simp only [List.getElem?_cons_zero, Option.some.injEq] at h1
            subst h1
            simp at h2
          | succ q => rw [hq] at h1; simp at h1
      · -- opening part, middle children (re-based), closing part
        generalize hmid : ((cm.drop k).take (cm.length - n - k)) = mid
        have hmidlen : mid.length = cm.length - n - k := by rw [← hmid]; simp; omega
        have hmidget : ∀ q, q < mid.length → mid[q]? = cm[k + q]? := by
          intro q hq
          rw [← hmid, List.getElem?_take_of_lt (by omega), List.getElem?_drop]
        generalize hhd : (⟨r.1, E, some (acc.length + (cm.length - n - k) + 1)⟩ : Marker) = hd
        generalize htl : (⟨T, t.2, some acc.length⟩ : Marker) = tl
        generalize hmr : mid.map (rebase k (cm.length - n) acc.length) = midr
        have hmrlen : midr.length = mid.length := by rw [← hmr]; simp
        intro i j mi mj h1 h2 h3 h4
        have hlt : i < (acc ++ [hd] ++ midr ++ [tl]).length := by
          rcases Nat.lt_or_ge i (acc ++ [hd] ++ midr ++ [tl]).length with h | h
          · exact h
          · rw [List.getElem?_eq_none h] at h1; simp at h1
        rw [len4] at hlt
        by_cases hi1 : i < acc.length
        · rw [get4_acc _ _ _ _ _ hi1] at h1
          have hj : j < acc.length := hpv mi (List.mem_of_getElem? h1) j h2
          rw [get4_acc _ _ _ _ _ hj] at h4
          exact ha i j mi mj h1 h2 h3 h4
        · by_cases hi2 : i = acc.length
          · subst hi2
            rw [get4_head] at h1
            injection h1 with h1
            subst h1
            rw [← hhd] at h2
            simp only [Option.some.injEq] at h2
            subst h2
            rw [← hmidlen, ← hmrlen, show acc.length + midr.length + 1 = acc.length + 1 + midr.length by omega,
              get4_last] at h4
            injection h4 with h4
            subst h4
            rw [← hhd, ← htl]
            exact ⟨(r.2, t.1), hbody, hE, hT⟩
          · by_cases hi3 : i < acc.length + 1 + midr.length
            · rw [get4_mid _ _ _ _ _ (by omega) hi3] at h1
              rw [← hmr, List.getElem?_map] at h1
              cases hm : mid[i - (acc.length + 1)]? with
              | none => rw [hm] at h1; simp at h1
              | some m0 =>
                rw [hm] at h1
                simp only [Option.map_some, Option.some.injEq] at h1
                subst h1
                obtain ⟨p, hp, hp1, hp2, hj⟩ := rebase_pair _ _ _ m0 j h2
                have hpm : p - k < mid.length := by omega
                rw [get4_mid _ _ _ _ _ (by omega) (by omega)] at h4
                rw [← hmr, List.getElem?_map, show j - (acc.length + 1) = p - k by omega] at h4
                cases hm2 : mid[p - k]? with
                | none => rw [hm2] at h4; simp at h4
                | some m1 =>
                  rw [hm2] at h4
                  simp only [Option.map_some, Option.some.injEq] at h4
                  subst h4
                  rw [hmidget _ (by omega)] at hm
                  rw [hmidget _ hpm, show k + (p - k) = p by omega] at hm2
                  obtain ⟨body, hbm, g1, g2⟩ := ihc (k + (i - (acc.length + 1))) p m0 m1 hm hp (by omega) hm2
                  exact ⟨body, hbm, by simpa [rebase] using g1, by simpa [rebase] using g2⟩
            · have hlast : i = acc.length + 1 + midr.length := by omega
              subst hlast
              rw [get4_last] at h1
              injection h1 with h1
              subst h1
              rw [← htl] at h2
              simp only [Option.some.injEq] at h2
              omega
end

end Chiritori
