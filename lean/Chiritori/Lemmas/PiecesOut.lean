import Chiritori.Lemmas.KeptTokens
import Chiritori.Props.C08Partial
/-
  Well-delimited texts: what their tokens look like, and that deleting whitespace outside the tags of a sequence of
  such tokens gives a well-delimited text with the same tags.
-/
namespace Chiritori
open Spec

/-- the tokens of a well-delimited text are the normalised pieces -/
theorem tokens_tnorm (d0 : Char) (dr : List Char) (e0 : Char) (er : List Char) (ps : List Piece)
    (hok : ∀ p ∈ ps, p.ok d0 e0) :
    (tokenize (renderAll (d0 :: dr) (e0 :: er) ps) (d0 :: dr) (e0 :: er)).map (fun t => (t.kind, t.value))
      = tnorm (d0 :: dr) (e0 :: er) [] ps [] := by
  have h := Props.C08.c08_wellDelimited_partial d0 dr e0 er ps hok
  unfold c08Holds at h
  simp only [beq_iff_eq] at h
  rw [h]
  unfold textbook
  have := textbook_pieces d0 dr e0 er [] (tailText_nil d0 dr (e0 :: er)) ps [] (renderAll (d0 :: dr) (e0 :: er) ps).length
    (by simp) hok (by simp)
  simpa using this

/-- the rendered tags of a piece list, in order -/
def tagsOf (ds de : List Char) : List Piece → List (List Char)
  | [] => []
  | .text _ :: ps => tagsOf ds de ps
  | .tag b0 rest :: ps => (ds ++ (b0 :: (rest ++ de))) :: tagsOf ds de ps

def elemVals (l : SOut) : List (List Char) := (l.filter fun kv => kv.1 = .element).map (·.2)

theorem elemVals_tnorm (ds de : List Char) : ∀ (ps : List Piece) (acc : List Char),
    elemVals (tnorm ds de [] ps acc) = tagsOf ds de ps
  | [], acc => by
    simp only [tnorm, tagsOf]
    split <;> simp [elemVals]
  | .text s :: ps, acc => by
    simp only [tnorm, tagsOf]
    exact elemVals_tnorm ds de ps _
  | .tag b0 rest :: ps, acc => by
    simp only [tnorm, tagsOf]
    have ih := elemVals_tnorm ds de ps []
    split <;> simp [elemVals, List.filter_cons] at ih ⊢ <;> exact ih

theorem tagValues_eq_elemVals (toks : List Token) :
    tagValues toks = elemVals (toks.map fun t => (t.kind, t.value)) := by
  simp only [tagValues, elemVals, List.filter_map, List.map_map]
  rfl

/-- the tags of the tokens of a well-delimited text -/
theorem tagValues_render (d0 : Char) (dr : List Char) (e0 : Char) (er : List Char) (ps : List Piece)
    (hok : ∀ p ∈ ps, p.ok d0 e0) :
    tagValues (tokenize (renderAll (d0 :: dr) (e0 :: er) ps) (d0 :: dr) (e0 :: er)) = tagsOf (d0 :: dr) (e0 :: er) ps := by
  rw [tagValues_eq_elemVals, tokens_tnorm d0 dr e0 er ps hok, elemVals_tnorm]

/-- what a token of a well-delimited text looks like -/
def TokShape (d0 e0 : Char) (ds de : List Char) (kv : TKind × List Char) : Prop :=
  match kv.1 with
  | .text => ∀ c ∈ kv.2, c ≠ d0
  | .element => ∃ b0 rest, kv.2 = ds ++ (b0 :: (rest ++ de)) ∧ ∀ c ∈ rest, c ≠ e0

theorem tnorm_shape (d0 e0 : Char) (ds de : List Char) : ∀ (ps : List Piece) (acc : List Char),
    (∀ p ∈ ps, p.ok d0 e0) → (∀ c ∈ acc, c ≠ d0) → ∀ kv ∈ tnorm ds de [] ps acc, TokShape d0 e0 ds de kv
  | [], acc, _, hacc, kv, hkv => by
    simp only [tnorm, List.append_nil] at hkv
    split at hkv
    · simp only [List.mem_singleton] at hkv
      subst hkv
      exact hacc
    · simp at hkv
  | .text s :: ps, acc, hok, hacc, kv, hkv => by
    simp only [tnorm] at hkv
    apply tnorm_shape d0 e0 ds de ps (acc ++ s) (fun p hp => hok p (by simp [hp])) _ kv hkv
    intro c hc
    rcases List.mem_append.mp hc with h | h
    · exact hacc c h
    · exact hok (.text s) (by simp) c h
  | .tag b0 rest :: ps, acc, hok, hacc, kv, hkv => by
    simp only [tnorm, List.mem_append, List.mem_singleton] at hkv
    rcases hkv with (hkv | hkv) | hkv
    · split at hkv
      · simp only [List.mem_singleton] at hkv
        subst hkv
        exact hacc
      · simp at hkv
    · subst hkv
      exact ⟨b0, rest, rfl, hok (.tag b0 rest) (by simp)⟩
    · exact tnorm_shape d0 e0 ds de ps [] (fun p hp => hok p (by simp [hp])) (by simp) kv hkv

end Chiritori

namespace Chiritori
open Spec

/-! ### bytes at the two ends of an encoded text -/

def wsChar (c : Char) : Bool := c == ' ' || c == '\t' || c == '\n'

/-- the non-whitespace characters of a text -/
def nwC (s : List Char) : List Char := s.filter fun c => !wsChar c

theorem nwC_append (a b : List Char) : nwC (a ++ b) = nwC a ++ nwC b := by simp [nwC]

theorem lead_beq (c d : Char) : (ABy.lead c == ABy.lead d) = (c == d) := by
  by_cases h : c = d
  · subst h; simp
  · have hne : ABy.lead c ≠ ABy.lead d := fun hh => h (ABy.lead.inj hh)
    have h1 : (ABy.lead c == ABy.lead d) = false := by
      cases hb : (ABy.lead c == ABy.lead d) with
      | false => rfl
      | true => exact absurd (eq_of_beq hb) hne
    have h2 : (c == d) = false := by
      cases hb : (c == d) with
      | false => rfl
      | true => exact absurd (eq_of_beq hb) h
    rw [h1, h2]

theorem isWs_lead (c : Char) : isWs (.lead c) = wsChar c := by
  simp only [isWs, wsChar, lead_beq]

theorem minusFrom_cons1 (x : ABy) (xs : Bytes) (off : Nat) (F : List Rng) :
    minusFrom (x :: xs) off F = if inAny F off then minusFrom xs (off + 1) F else x :: minusFrom xs (off + 1) F := by
  simp only [minusFrom, List.zipIdx_cons, List.filter_cons]
  cases inAny F off <;> simp

theorem isWs_cont : isWs .cont = false := by decide

theorem bytesOf_head (c : Char) (cs : List Char) : (bytesOf (c :: cs)).head? = some (.lead c) := by
  simp [bytesOf, charBytes]

theorem charBytes_last (c : Char) : ∃ y, (charBytes c).getLast? = some y ∧ (y = .cont ∨ y = .lead c) := by
  unfold charBytes
  by_cases h : c.utf8Size - 1 = 0
  · rw [h]; exact ⟨.lead c, rfl, Or.inr rfl⟩
  · refine ⟨.cont, ?_, Or.inl rfl⟩
    rw [List.getLast?_cons]
    have : (List.replicate (c.utf8Size - 1) ABy.cont).getLast? = some .cont := by
      cases hn : c.utf8Size - 1 with
      | zero => exact absurd hn h
      | succ m => simp [List.getLast?_replicate]
    rw [this]; rfl

theorem bytesOf_last (w : List Char) (c : Char) :
    ∃ y, (bytesOf (w ++ [c])).getLast? = some y ∧ (y = .cont ∨ y = .lead c) := by
  obtain ⟨y, hy, hyc⟩ := charBytes_last c
  refine ⟨y, ?_, hyc⟩
  rw [bytesOf_append]
  have : bytesOf [c] = charBytes c := by simp [bytesOf]
  rw [this, List.getLast?_append, hy]
  rfl

/-- a segment that begins and ends with a non-whitespace byte is its own core -/
theorem trim_full (s : Bytes) (x y : ABy) (hx : s.head? = some x) (hxw : isWs x = false)
    (hy : s.getLast? = some y) (hyw : isWs y = false) : trimL s = [] ∧ trimWs s = s ∧ trimR s = [] := by
  cases s with
  | nil => simp at hx
  | cons a as =>
    simp only [List.head?_cons, Option.some.injEq] at hx
    subst hx
    have hd : (a :: as).dropWhile isWs = a :: as := by simp [List.dropWhile_cons, hxw]
    have hrev : ∃ rs, (a :: as).reverse = y :: rs := by
      have : (a :: as).reverse.head? = some y := by rw [List.head?_reverse]; exact hy
      cases hr : (a :: as).reverse with
      | nil => rw [hr] at this; simp at this
      | cons z zs =>
        rw [hr] at this
        simp only [List.head?_cons, Option.some.injEq] at this
        subst this; exact ⟨zs, rfl⟩
    obtain ⟨rs, hrs⟩ := hrev
    refine ⟨by simp [trimL, List.takeWhile_cons, hxw], ?_, ?_⟩
    · simp only [trimWs, hd, hrs, List.dropWhile_cons, hyw, Bool.false_eq_true, ite_false]
      rw [← hrs, List.reverse_reverse]
    · simp only [trimR, hd, hrs, List.takeWhile_cons, hyw, Bool.false_eq_true, ite_false, List.reverse_nil]

/-- deleting whitespace bytes from an encoded text leaves an encoded text, made of characters of the original -/
theorem minusFrom_encoded (F : List Rng) : ∀ (v : List Char) (off : Nat),
    (∀ k, k < (bytesOf v).length → inAny F (off + k) = true → ∃ y, (bytesOf v)[k]? = some y ∧ isWs y = true) →
    ∃ v', minusFrom (bytesOf v) off F = bytesOf v' ∧ (∀ c ∈ v', c ∈ v) ∧ nwC v' = nwC v
  | [], _, _ => ⟨[], rfl, by simp, rfl⟩
  | c :: cs, off, h => by
    have hcb : (charBytes c).length = c.utf8Size := by
      simp only [charBytes, List.length_cons, List.length_replicate]
      have := Char.utf8Size_pos c; omega
    obtain ⟨v', hv', hsub, hnw⟩ := minusFrom_encoded F cs (off + c.utf8Size) (by
      intro k hk hF
      have := h (c.utf8Size + k) (by simp only [bytesOf, List.length_append, hcb]; omega) (by rw [← Nat.add_assoc]; exact hF)
      simp only [bytesOf] at this
      rw [List.getElem?_append_right (by omega), hcb, Nat.add_sub_cancel_left] at this
      exact this)
    simp only [bytesOf]
    rw [minusFrom_append, hcb, hv']
    by_cases hws : wsChar c = true
    · -- a one-byte whitespace character: deleted or kept
      have hsz : c.utf8Size = 1 := by
        simp only [wsChar, Bool.or_eq_true, beq_iff_eq] at hws
        rcases hws with (h | h) | h <;> (subst h; decide)
      have hcb1 : charBytes c = [.lead c] := by simp [charBytes, hsz]
      rw [hcb1, minusFrom_cons1]
      by_cases hF : inAny F off = true
      · rw [if_pos hF]
        exact ⟨v', by simp [minusFrom], fun x hx => List.mem_cons_of_mem _ (hsub x hx),
          by simp [nwC, List.filter_cons, hws] at hnw ⊢; exact hnw⟩
      · rw [if_neg hF]
        refine ⟨c :: v', ?_, ?_, ?_⟩
        · simp [minusFrom, bytesOf, hcb1]
        · intro x hx
          rcases List.mem_cons.mp hx with rfl | hx
          · simp
          · exact List.mem_cons_of_mem _ (hsub x hx)
        · simp [nwC, List.filter_cons, hws] at hnw ⊢; exact hnw
    · -- no byte of this character is whitespace: nothing of it is deleted
      have hkeep : minusFrom (charBytes c) off F = charBytes c := by
        apply minusFrom_keep
        intro i hi1 hi2
        cases hF : inAny F i with
        | false => rfl
        | true =>
          exfalso
          rw [hcb] at hi2
          obtain ⟨y, hy, hyw⟩ := h (i - off) (by simp only [bytesOf, List.length_append, hcb]; omega)
            (by rw [show off + (i - off) = i by omega]; exact hF)
          simp only [bytesOf] at hy
          rw [List.getElem?_append_left (by omega)] at hy
          have hmem : y ∈ charBytes c := List.mem_of_getElem? hy
          simp only [charBytes, List.mem_cons, List.mem_replicate] at hmem
          rcases hmem with rfl | ⟨_, rfl⟩
          · rw [isWs_lead] at hyw; exact hws hyw
          · rw [isWs_cont] at hyw; exact absurd hyw (by simp)
      rw [hkeep]
      refine ⟨c :: v', by simp [bytesOf], ?_, ?_⟩
      · intro x hx
        rcases List.mem_cons.mp hx with rfl | hx
        · simp
        · exact List.mem_cons_of_mem _ (hsub x hx)
      · simp only [nwC, List.filter_cons] at hnw ⊢
        rw [hnw]

end Chiritori

namespace Chiritori
open Spec

/-- the last character of a non-empty list -/
theorem exists_snoc {α} : ∀ (l : List α), l ≠ [] → ∃ w c, l = w ++ [c]
  | [], h => absurd rfl h
  | [x], _ => ⟨[], x, rfl⟩
  | x :: y :: rest, _ => by
    obtain ⟨w, c, h⟩ := exists_snoc (y :: rest) (by simp)
    exact ⟨x :: w, c, by rw [h]; rfl⟩

/-- piece by piece, a well-delimited text against a token list: the same tags, texts with the same non-whitespace -/
def PRel (ds de : List Char) : List Piece → List Token → Prop
  | [], [] => True
  | .text v :: ps, t :: L => t.kind = .text ∧ nwC v = nwC t.value ∧ PRel ds de ps L
  | .tag b0 rest :: ps, t :: L => t.kind = .element ∧ t.value = ds ++ (b0 :: (rest ++ de)) ∧ PRel ds de ps L
  | _, _ => False

/-- Lemma P: tokens of a well-delimited text, whitespace deleted outside the cores: again a well-delimited text,
    with the same tags -/
theorem pieces_after (d0 : Char) (dr : List Char) (e0 : Char) (er : List Char) (hd0 : wsChar d0 = false)
    (hel : ∀ w c, (e0 :: er) = w ++ [c] → wsChar c = false) (F : List Rng) (K : Bytes)
    (hF : ∀ d, inAny F d = true → ∃ y, K[d]? = some y ∧ isWs y = true) :
    ∀ (L : List Token) (off : Nat) (pre : Bytes),
    K = pre ++ (L.map fun t => bytesOf t.value).flatten → pre.length = off →
    (∀ t ∈ L, TokShape d0 e0 (d0 :: dr) (e0 :: er) (t.kind, t.value)) →
    CoresKept F (layoutOf (L.map fun t => bytesOf t.value)) off →
    ∃ ps, (∀ p ∈ ps, p.ok d0 e0) ∧
      bytesOf (renderAll (d0 :: dr) (e0 :: er) ps) = minusFrom (L.map fun t => bytesOf t.value).flatten off F ∧
      tagsOf (d0 :: dr) (e0 :: er) ps = tagValues L ∧ PRel (d0 :: dr) (e0 :: er) ps L
  | [], _, _, _, _, _, _ => ⟨[], by simp, by simp [renderAll, bytesOf, minusFrom], by simp [tagsOf, tagValues], trivial⟩
  | t :: L, off, pre, hK, hpre, hsh, hck => by
    have hsht := hsh t (by simp)
    obtain ⟨hs, _, _, _, _⟩ := trimWs_decomp (bytesOf t.value)
    have hlen : (bytesOf t.value).length =
        (trimL (bytesOf t.value)).length + (trimWs (bytesOf t.value)).length + (trimR (bytesOf t.value)).length := by
      conv => lhs; rw [hs]
      simp [Nat.add_assoc]
    simp only [List.map_cons, layoutOf, CoresKept, List.length_nil, Nat.add_zero] at hck
    obtain ⟨hcore, _, hrest⟩ := hck
    obtain ⟨ps, p1, p2, p3, p4⟩ := pieces_after d0 dr e0 er hd0 hel F K hF L (off + (bytesOf t.value).length)
      (pre ++ bytesOf t.value) (by rw [hK]; simp) (by simp [hpre]) (fun u hu => hsh u (by simp [hu]))
      (by rw [hlen]; simpa [Nat.add_assoc] using hrest)
    simp only [List.map_cons, List.flatten_cons]
    rw [minusFrom_append, ← p2]
    cases hk : t.kind with
    | element =>
      -- a tag: it begins and ends with a non-whitespace byte, so it is its own core and stays as it is
      simp only [TokShape, hk] at hsht
      obtain ⟨b0, rest, hv, hrest'⟩ := hsht
      obtain ⟨w, c, hwc⟩ := exists_snoc (e0 :: er) (by simp)
      have hcw := hel w c hwc
      have hval : t.value = (d0 :: (dr ++ (b0 :: rest) ++ w)) ++ [c] := by
        rw [hv, hwc]; simp
      obtain ⟨y, hy, hyc⟩ := bytesOf_last (d0 :: (dr ++ (b0 :: rest) ++ w)) c
      rw [← hval] at hy
      have hyw : isWs y = false := by
        rcases hyc with rfl | rfl
        · exact isWs_cont
        · rw [isWs_lead]; exact hcw
      have hhead : (bytesOf t.value).head? = some (.lead d0) := by rw [hv]; exact bytesOf_head d0 _
      obtain ⟨t1, t2, t3⟩ := trim_full (bytesOf t.value) _ y hhead (by rw [isWs_lead]; exact hd0) hy hyw
      have hkeep : minusFrom (bytesOf t.value) off F = bytesOf t.value := by
        apply minusFrom_keep
        intro i hi1 hi2
        rw [t1, t2] at hcore
        exact hcore i (by simpa using hi1) (by simpa using hi2)
      rw [hkeep]
      refine ⟨.tag b0 rest :: ps, ?_, ?_, ?_, ⟨hk, hv, p4⟩⟩
      · intro p hp
        rcases List.mem_cons.mp hp with rfl | hp
        · exact hrest'
        · exact p1 p hp
      · simp only [renderAll, Piece.render]
        rw [← hv, bytesOf_append]
      · simp only [tagsOf, tagValues, List.filter_cons, hk, decide_true, ite_true, List.map_cons]
        rw [← hv]
        congr 1
    | text =>
      simp only [TokShape, hk] at hsht
      obtain ⟨v', hv', hsub, hnw⟩ := minusFrom_encoded F t.value off (by
        intro k hk' hFk
        obtain ⟨y, hy, hyw⟩ := hF (off + k) hFk
        refine ⟨y, ?_, hyw⟩
        rw [hK, List.getElem?_append_right (by omega), hpre] at hy
        simp only [List.map_cons, List.flatten_cons] at hy
        rw [Nat.add_sub_cancel_left, List.getElem?_append_left hk'] at hy
        exact hy)
      rw [hv']
      refine ⟨.text v' :: ps, ?_, ?_, ?_, ⟨hk, hnw, p4⟩⟩
      · intro p hp
        rcases List.mem_cons.mp hp with rfl | hp
        · intro c hc; exact hsht c (hsub c hc)
        · exact p1 p hp
      · simp only [renderAll, Piece.render, bytesOf_append]
      · simp only [tagsOf, tagValues, List.filter_cons, hk]
        simpa [tagValues] using p3

end Chiritori
