import Chiritori.Model.Time
/-
  Calendar arithmetic and the parse of canonical `to` / offset spellings.
-/
namespace Chiritori

/-! ### the calendar -/

structure Date where
  y : Int
  m : Nat
  d : Nat
  deriving DecidableEq, Repr

def Date.valid (x : Date) : Prop := 1 ≤ x.m ∧ x.m ≤ 12 ∧ 1 ≤ x.d ∧ x.d ≤ daysInMonth x.y x.m

def nextDay (x : Date) : Date :=
  if x.d < daysInMonth x.y x.m then ⟨x.y, x.m, x.d + 1⟩
  else if x.m < 12 then ⟨x.y, x.m + 1, 1⟩
  else ⟨x.y + 1, 1, 1⟩

theorem daysFromCivil_epoch : daysFromCivil 1970 1 1 = 0 := by decide

theorem isLeapYear_iff (y : Int) : isLeapYear y = true ↔ (y % 4 = 0 ∧ y % 100 ≠ 0) ∨ y % 400 = 0 := by
  simp [isLeapYear]

theorem daysBeforeYear_succ (y : Int) :
    daysBeforeYear (y + 1) = daysBeforeYear y + (if isLeapYear y then 366 else 365) := by
  unfold daysBeforeYear
  by_cases h : isLeapYear y = true
  · rw [if_pos h]
    rw [isLeapYear_iff] at h
    omega
  · rw [if_neg h]
    rw [isLeapYear_iff] at h
    omega

theorem daysBeforeMonth_13 (y : Int) : daysBeforeMonth y 13 = if isLeapYear y then 366 else 365 := by
  by_cases h : isLeapYear y = true <;> simp [daysBeforeMonth, daysInMonth, h]

/-- The day number increases by exactly one from each valid date to the next:
    with `daysFromCivil 1970 1 1 = 0` this characterises `daysFromCivil` on all valid dates. -/
theorem daysFromCivil_nextDay (x : Date) (h : x.valid) :
    daysFromCivil (nextDay x).y (nextDay x).m (nextDay x).d = daysFromCivil x.y x.m x.d + 1 := by
  obtain ⟨h1, h2, h3, h4⟩ := h
  unfold nextDay
  by_cases hd : x.d < daysInMonth x.y x.m
  · simp only [hd, ite_true, daysFromCivil]
    have : ((x.d + 1 - 1 : Nat) : Int) = ((x.d - 1 : Nat) : Int) + 1 := by omega
    rw [this]; omega
  · simp only [hd, ite_false]
    have hde : x.d = daysInMonth x.y x.m := by omega
    by_cases hm : x.m < 12
    · simp only [hm, ite_true, daysFromCivil]
      have hbm : daysBeforeMonth x.y (x.m + 1) = daysBeforeMonth x.y x.m + daysInMonth x.y x.m := by
        cases hx : x.m with
        | zero => omega
        | succ k => simp [daysBeforeMonth]
      rw [hbm, hde]
      have : 1 ≤ daysInMonth x.y x.m := by omega
      omega
    · simp only [hm, ite_false, daysFromCivil]
      have hm12 : x.m = 12 := by omega
      rw [daysBeforeYear_succ]
      have h13 := daysBeforeMonth_13 x.y
      have hb12 : daysBeforeMonth x.y 13 = daysBeforeMonth x.y 12 + daysInMonth x.y 12 := by
        simp [daysBeforeMonth]
      rw [hm12] at hde ⊢
      simp only [daysBeforeMonth] at h13 hb12 ⊢
      have : 1 ≤ daysInMonth x.y 12 := by simp [daysInMonth]
      split at h13 <;> simp_all <;> omega

theorem nextDay_valid (x : Date) (h : x.valid) : (nextDay x).valid := by
  obtain ⟨h1, h2, h3, h4⟩ := h
  unfold nextDay
  by_cases hd : x.d < daysInMonth x.y x.m
  · simp only [hd, ite_true, Date.valid]
    exact ⟨h1, h2, by omega, by omega⟩
  · simp only [hd, ite_false]
    by_cases hm : x.m < 12
    · simp only [hm, ite_true, Date.valid]
      refine ⟨by omega, by omega, by omega, ?_⟩
      have : x.m + 1 = 2 ∨ x.m + 1 = 3 ∨ x.m + 1 = 4 ∨ x.m + 1 = 5 ∨ x.m + 1 = 6 ∨ x.m + 1 = 7 ∨ x.m + 1 = 8 ∨
          x.m + 1 = 9 ∨ x.m + 1 = 10 ∨ x.m + 1 = 11 ∨ x.m + 1 = 12 := by omega
      rcases this with h | h | h | h | h | h | h | h | h | h | h <;> rw [h] <;> simp [daysInMonth] <;>
        (split <;> omega)
    · simp only [hm, ite_false, Date.valid]
      exact ⟨by omega, by omega, by omega, by simp [daysInMonth]⟩

/-! ### digits -/

def dch (k : Nat) : Char := Char.ofNat (48 + k)

theorem digit_facts : ∀ k : Fin 10,
    isDigit (dch k.val) = true ∧ digitVal (dch k.val) = k.val ∧ isWhitespace (dch k.val) = false ∧
    dch k.val ≠ '-' ∧ dch k.val ≠ '+' ∧ dch k.val ≠ ':' := by decide

theorem isDigit_dch (k : Nat) (h : k < 10) : isDigit (dch k) = true := (digit_facts ⟨k, h⟩).1
theorem digitVal_dch (k : Nat) (h : k < 10) : digitVal (dch k) = k := (digit_facts ⟨k, h⟩).2.1
theorem notWs_dch (k : Nat) (h : k < 10) : isWhitespace (dch k) = false := (digit_facts ⟨k, h⟩).2.2.1
theorem dch_ne_minus (k : Nat) (h : k < 10) : dch k ≠ '-' := (digit_facts ⟨k, h⟩).2.2.2.1
theorem dch_ne_plus (k : Nat) (h : k < 10) : dch k ≠ '+' := (digit_facts ⟨k, h⟩).2.2.2.2.1
theorem dch_ne_colon (k : Nat) (h : k < 10) : dch k ≠ ':' := (digit_facts ⟨k, h⟩).2.2.2.2.2

theorem daysBeforeMonth_le (y : Int) (m : Nat) (h : m ≤ 12) : daysBeforeMonth y m ≤ 335 := by
  have : m = 0 ∨ m = 1 ∨ m = 2 ∨ m = 3 ∨ m = 4 ∨ m = 5 ∨ m = 6 ∨ m = 7 ∨ m = 8 ∨ m = 9 ∨ m = 10 ∨ m = 11 ∨ m = 12 := by
    omega
  rcases this with h | h | h | h | h | h | h | h | h | h | h | h | h <;> subst h <;>
    simp [daysBeforeMonth, daysInMonth] <;> (try split) <;> omega

theorem daysInMonth_le (y : Int) (m : Nat) : daysInMonth y m ≤ 31 := by
  unfold daysInMonth
  split <;> (try split) <;> omega

def d2 (n : Nat) : List Char := [dch (n / 10), dch (n % 10)]
def d4 (n : Nat) : List Char := [dch (n / 1000), dch (n / 100 % 10), dch (n / 10 % 10), dch (n % 10)]

theorem scanNumber_d2 (n : Nat) (h : n < 100) (rest : List Char) :
    scanNumber (d2 n ++ rest) 2 = some (n, rest) := by
  have h1 : n / 10 < 10 := by omega
  have h2 : n % 10 < 10 := by omega
  simp [scanNumber, d2, scanDigits, isDigit_dch _ h1, isDigit_dch _ h2, digitVal_dch _ h1, digitVal_dch _ h2]
  omega

theorem scanNumber_d4 (n : Nat) (h : n < 10000) (rest : List Char) :
    scanNumber (d4 n ++ rest) 4 = some (n, rest) := by
  have h1 : n / 1000 < 10 := by omega
  have h2 : n / 100 % 10 < 10 := by omega
  have h3 : n / 10 % 10 < 10 := by omega
  have h4 : n % 10 < 10 := by omega
  simp [scanNumber, d4, scanDigits, isDigit_dch _ h1, isDigit_dch _ h2, isDigit_dch _ h3, isDigit_dch _ h4,
    digitVal_dch _ h1, digitVal_dch _ h2, digitVal_dch _ h3, digitVal_dch _ h4]
  omega

theorem trimStartWs_d2 (n : Nat) (h : n < 100) (rest : List Char) : trimStartWs (d2 n ++ rest) = d2 n ++ rest := by
  have h1 : n / 10 < 10 := by omega
  simp [d2, trimStartWs, notWs_dch _ h1]

theorem parseNum2_d2 (n : Nat) (h : n < 100) (rest : List Char) : parseNum2 (d2 n ++ rest) = some (n, rest) := by
  rw [parseNum2, trimStartWs_d2 n h, scanNumber_d2 n h]

theorem parseYear_d4 (n : Nat) (h : n < 10000) (rest : List Char) :
    parseYear (d4 n ++ rest) = some ((n : Int), rest) := by
  have h1 : n / 1000 < 10 := by omega
  have hts : trimStartWs (d4 n ++ rest) = d4 n ++ rest := by simp [d4, trimStartWs, notWs_dch _ h1]
  unfold parseYear
  rw [hts]
  have e : d4 n ++ rest = dch (n / 1000) :: ([dch (n / 100 % 10), dch (n / 10 % 10), dch (n % 10)] ++ rest) := by
    simp [d4]
  have hm := dch_ne_minus _ h1
  have hp := dch_ne_plus _ h1
  rw [e]
  split
  · rename_i heq; injection heq with h0 _; exact absurd h0 hm
  · rename_i heq; injection heq with h0 _; exact absurd h0 hp
  · rw [← e, scanNumber_d4 n h]; rfl

end Chiritori
