import Chiritori.Lemmas.Laminar
/-
  Item-level characterisation of the regions (C15, C17): in a document without tags on wrapper lines the merged
  Ready markers are exactly `refRegions (conditionHolds cfg)` and the merged Pending markers exactly
  `refRegions (conditionPending cfg)` - one region per default-strategy element, two per unwrapped element with
  the inner regions between them, in document order.
-/
namespace Chiritori
open Spec

theorem extentOf_of_createRange_none (b : Bytes) (el : Element) (st en : Token) (r : Rng)
    (h1 : 0 < st.bstop) (h2 : en.bstart ≤ b.length) (hcr : createRange b el st en = (r, none))
    (hne : r.isEmpty = false) : extentOf b el st en = [r] := by
  rw [extentOf_eq_createRange b el st en h1 h2, hcr]
  simp [hne]

theorem extentOf_of_createRange_some (b : Bytes) (el : Element) (st en : Token) (r t : Rng)
    (h1 : 0 < st.bstop) (h2 : en.bstart ≤ b.length) (hcr : createRange b el st en = (r, some t)) :
    extentOf b el st en = [r, t] := by
  rw [extentOf_eq_createRange b el st en h1 h2, hcr]

mutual
theorem collect_exact (cfg : Cfg) (b : Bytes) : ∀ (parts : List Part) (lo hi : Nat),
    BSpan (flattenParts parts) lo hi → hi ≤ b.length → WrapFree b parts →
    rangesOf (mergeMarkers (collect cfg b true parts).1 []) = refRegions (conditionHolds cfg) b parts ∧
    rangesOf (mergeMarkers (collect cfg b true parts).2 []) = refRegions (conditionPending cfg) b parts
  | [], _, _, _, _, _ => by simp [collect, mergeMarkers, rangesOf, refRegions]
  | p :: ps, lo, hi, hs, hlen, hw => by
    simp only [flattenParts, BSpan_append] at hs
    obtain ⟨mid, hs1, hs2⟩ := hs
    have hmid := BSpan_le _ mid hi hs2
    simp only [WrapFree] at hw
    obtain ⟨a1, a2⟩ := collectPart_exact cfg b p lo mid hs1 (by omega) hw.1
    obtain ⟨b1, b2⟩ := collect_exact cfg b ps mid hi hs2 hlen hw.2
    simp only [collect, refRegions]
    rw [mergeMarkers_ranges_append, mergeMarkers_ranges_append, a1, a2, b1, b2]
    exact ⟨rfl, rfl⟩
theorem collectPart_exact (cfg : Cfg) (b : Bytes) : ∀ (p : Part) (lo hi : Nat),
    BSpan (flattenPart p) lo hi → hi ≤ b.length → WrapFreePart b p →
    rangesOf (mergeMarkers (collectPart cfg b true p).1 []) = refRegionsPart (conditionHolds cfg) b p ∧
    rangesOf (mergeMarkers (collectPart cfg b true p).2 []) = refRegionsPart (conditionPending cfg) b p
  | .text _, _, _, _, _, _ => by simp [collectPart, mergeMarkers, rangesOf, refRegionsPart]
  | .element el st en ch, lo, hi, hs, hlen, hw => by
    simp only [flattenPart, List.cons_append, BSpan, BSpan_append] at hs
    obtain ⟨hst, hst2, mid, hch, hen1, hen2, hen3⟩ := hs
    have hmid := BSpan_le _ st.bstop mid hch
    simp only [WrapFreePart] at hw
    obtain ⟨hwrap, hwch⟩ := hw
    obtain ⟨ihR, ihP⟩ := collect_exact cfg b ch st.bstop mid hch (by omega) hwch
    obtain ⟨sR, sP⟩ := both_sorted cfg b ch st.bstop mid hch (by omega)
    have gR : RGeo (collect cfg b true ch).1 st.bstop mid := by
      have := (collect_spec cfg b ch st.bstop mid hch (by omega)).1
      rwa [← collect_ready_indep] at this
    have gP : RGeo (collect cfg b true ch).2 st.bstop mid := collect_pending_geo cfg b ch st.bstop mid hch (by omega)
    have hpend_of_holds : conditionHolds cfg el = true → conditionPending cfg el = false := by
      intro h; simp [conditionPending, h]
    simp only [collectPart, refRegionsPart]
    rw [elementRange_eq cfg b true]
    cases hemp : (createRange b el st en).1.isEmpty with
    | true =>
      have hnil := extentOf_nil_of_empty b el st en (by omega) (by omega) (by omega) hemp
      simp only [ite_true, hnil, ite_self]
      exact ⟨ihR, ihP⟩
    | false =>
      cases hcr : createRange b el st en with
      | mk r pr =>
      rw [hcr] at hemp
      have hgeo := createRange_geo b el st en r pr hst2 (by omega) hen2 (by omega) hcr hemp
      have hinner : ∀ t, pr = some t →
          (∀ q ∈ rangesOf (mergeMarkers (collect cfg b true ch).1 []), r.2 ≤ q.1 ∧ q.1 < q.2 ∧ q.2 < t.1) ∧
          (∀ q ∈ rangesOf (mergeMarkers (collect cfg b true ch).2 []), r.2 ≤ q.1 ∧ q.1 < q.2 ∧ q.2 < t.1) := by
        intro t ht
        subst ht
        have hext := extentOf_of_createRange_some b el st en r t (by omega) (by omega) hcr
        have hel := hwrap r t hext
        obtain ⟨u1, u2⟩ := collect_hull cfg b true ch st.bstop mid hch (by omega) r.2 (t.1 - 1)
          (fun e he => ⟨(hel e he).1, by have := (hel e he).2; omega⟩)
        have m1 := mergeMarkers_P _ _ [] u1 (by simp [MAll])
        have m2 := mergeMarkers_P _ _ [] u2 (by simp [MAll])
        constructor
        · intro q hq
          have b1 := rangesOf_iv _ _ _ m1 q hq
          have b2 := rangesOf_bounds _ _ _ sR q hq
          omega
        · intro q hq
          have b1 := rangesOf_iv _ _ _ m2 q hq
          have b2 := rangesOf_bounds _ _ _ sP q hq
          omega
      simp only
      cases hc : conditionHolds cfg el with
      | true =>
        have hp := hpend_of_holds hc
        simp only [Bool.false_eq_true, ite_false, ite_true, mergeMarkers_single, hp]
        refine ⟨?_, ihP⟩
        cases pr with
        | none =>
          have hext := extentOf_of_createRange_none b el st en r (by omega) (by omega) hcr hemp
          simp only at hgeo
          rw [hext]
          simp only
          rw [mergeTree_default _ _ (by rw [hgeo]; exact RGeo_widen _ _ _ _ _ gR (by simp; omega) (by simp; omega))]
          rfl
        | some t =>
          have hext := extentOf_of_createRange_some b el st en r t (by omega) (by omega) hcr
          simp only at hgeo
          obtain ⟨q1, q2, q3, q4, q5⟩ := hgeo
          obtain ⟨iR, _⟩ := hinner t rfl
          rw [hext]
          simp only
          rw [mergeTree_unwrap_clean r t _ q3 (by
            intro c hc
            exact iR (c.start, c.stop) (by simp only [rangesOf, List.mem_map]; exact ⟨c, hc, rfl⟩)), ihR]
      | false =>
        cases hp : conditionPending cfg el with
        | false =>
          simp only [Bool.false_eq_true, ite_false, Bool.and_false]
          exact ⟨ihR, ihP⟩
        | true =>
          simp only [Bool.false_eq_true, ite_false, Bool.and_self, ite_true, mergeMarkers_single]
          refine ⟨ihR, ?_⟩
          cases pr with
          | none =>
            have hext := extentOf_of_createRange_none b el st en r (by omega) (by omega) hcr hemp
            simp only at hgeo
            rw [hext]
            simp only
            rw [mergeTree_default _ _ (by rw [hgeo]; exact RGeo_widen _ _ _ _ _ gP (by simp; omega) (by simp; omega))]
            rfl
          | some t =>
            have hext := extentOf_of_createRange_some b el st en r t (by omega) (by omega) hcr
            simp only at hgeo
            obtain ⟨q1, q2, q3, q4, q5⟩ := hgeo
            obtain ⟨_, iP⟩ := hinner t rfl
            rw [hext]
            simp only
            rw [mergeTree_unwrap_clean r t _ q3 (by
              intro c hc
              exact iP (c.start, c.stop) (by simp only [rangesOf, List.mem_map]; exact ⟨c, hc, rfl⟩)), ihP]
end

end Chiritori
