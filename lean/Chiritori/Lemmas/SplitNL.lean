import Chiritori.Lemmas.KeptTokens
/-
  A finer chain of tokens: every text token is cut into its maximal runs without a line break and its single line
  breaks.  The chain covers the same text, tags are untouched, and every position that stands directly in front of or
  directly behind a line break of a text token is a token boundary of the finer chain - which is where the two parts
  of an unwrapped block begin and end.
-/
namespace Chiritori
open Spec

/-- the maximal runs without a line break, and the line breaks one by one (`cur` = the run collected so far) -/
def nlRuns : List Char → List Char → List (List Char)
  | [], cur => if cur = [] then [] else [cur]
  | c :: cs, cur =>
    if c = '\n' then (if cur = [] then [] else [cur]) ++ (['\n'] :: nlRuns cs [])
    else nlRuns cs (cur ++ [c])

theorem nlRuns_flatten : ∀ (s cur : List Char), (nlRuns s cur).flatten = cur ++ s
  | [], cur => by
    simp only [nlRuns]
    split <;> simp_all
  | c :: cs, cur => by
    simp only [nlRuns]
    split
    · rename_i hc
      subst hc
      split
      · rename_i h; subst h; simp [nlRuns_flatten cs []]
      · simp [nlRuns_flatten cs []]
    · rw [nlRuns_flatten cs (cur ++ [c])]; simp

theorem nlRuns_ne : ∀ (s cur : List Char), ∀ r ∈ nlRuns s cur, r ≠ []
  | [], cur, r, hr => by
    simp only [nlRuns] at hr
    split at hr
    · simp at hr
    · simp only [List.mem_singleton] at hr; subst hr; assumption
  | c :: cs, cur, r, hr => by
    simp only [nlRuns] at hr
    split at hr
    · rw [List.mem_append] at hr
      rcases hr with hr | hr
      · split at hr
        · simp at hr
        · simp only [List.mem_singleton] at hr; subst hr; assumption
      · rcases List.mem_cons.mp hr with rfl | hr
        · simp
        · exact nlRuns_ne cs [] r hr
    · exact nlRuns_ne cs (cur ++ [c]) r hr

/-- every run is a single line break or contains none -/
theorem nlRuns_shape : ∀ (s cur : List Char), (∀ c ∈ cur, c ≠ '\n') →
    ∀ r ∈ nlRuns s cur, r = ['\n'] ∨ ∀ c ∈ r, c ≠ '\n'
  | [], cur, hcur, r, hr => by
    simp only [nlRuns] at hr
    split at hr
    · simp at hr
    · simp only [List.mem_singleton] at hr; subst hr; exact Or.inr hcur
  | c :: cs, cur, hcur, r, hr => by
    simp only [nlRuns] at hr
    split at hr
    · rw [List.mem_append] at hr
      rcases hr with hr | hr
      · split at hr
        · simp at hr
        · simp only [List.mem_singleton] at hr; subst hr; exact Or.inr hcur
      · rcases List.mem_cons.mp hr with rfl | hr
        · exact Or.inl rfl
        · exact nlRuns_shape cs [] (by simp) r hr
    · rename_i hc
      apply nlRuns_shape cs (cur ++ [c]) ?_ r hr
      intro x hx
      rcases List.mem_append.mp hx with hx | hx
      · exact hcur x hx
      · simp only [List.mem_singleton] at hx; subst hx; exact hc

theorem nlRuns_mem (s cur : List Char) : ∀ r ∈ nlRuns s cur, ∀ c ∈ r, c ∈ cur ++ s := by
  intro r hr c hc
  rw [← nlRuns_flatten s cur]
  exact List.mem_flatten.mpr ⟨r, hr, hc⟩

/-- tokens of kind `k` for consecutive pieces of text -/
def mkToks (k : TKind) : List (List Char) → Nat → Nat → List Token
  | [], _, _ => []
  | r :: rs, s, bs => ⟨k, r, s, bs, s + r.length, bs + blen r⟩ :: mkToks k rs (s + r.length) (bs + blen r)

theorem mkToks_chain (k : TKind) : ∀ (rs : List (List Char)) (s bs : Nat), (∀ r ∈ rs, r ≠ []) →
    ChainFrom (mkToks k rs s bs) s bs
  | [], _, _, _ => trivial
  | r :: rs, s, bs, h =>
    ⟨rfl, rfl, h r (by simp), rfl, rfl, mkToks_chain k rs _ _ (fun x hx => h x (by simp [hx]))⟩

theorem flat_mkToks (k : TKind) : ∀ (rs : List (List Char)) (s bs : Nat), flat (mkToks k rs s bs) = rs.flatten
  | [], _, _ => rfl
  | r :: rs, s, bs => by simp [mkToks, flat_mkToks k rs]

theorem mkToks_mem (k : TKind) : ∀ (rs : List (List Char)) (s bs : Nat), ∀ t ∈ mkToks k rs s bs, t.kind = k ∧ t.value ∈ rs
  | [], _, _, t, ht => by simp [mkToks] at ht
  | r :: rs, s, bs, t, ht => by
    simp only [mkToks, List.mem_cons] at ht
    rcases ht with rfl | ht
    · exact ⟨rfl, by simp⟩
    · obtain ⟨h1, h2⟩ := mkToks_mem k rs _ _ t ht
      exact ⟨h1, List.mem_cons_of_mem _ h2⟩

/-- a text token cut at its line breaks; a tag as it is -/
def splitTok (t : Token) : List Token :=
  match t.kind with
  | .text => mkToks .text (nlRuns t.value []) t.start t.bstart
  | .element => [t]

def splitToks : List Token → List Token
  | [] => []
  | t :: ts => splitTok t ++ splitToks ts

theorem flat_splitTok (t : Token) : flat (splitTok t) = t.value := by
  unfold splitTok
  cases t.kind with
  | text => simp only; rw [flat_mkToks, nlRuns_flatten]; simp
  | element => simp [flat]

theorem flat_splitToks : ∀ (T : List Token), flat (splitToks T) = flat T
  | [] => rfl
  | t :: ts => by simp [splitToks, flat_splitTok, flat_splitToks ts]

theorem splitTok_chain (t : Token) (s bs : Nat) (h1 : t.start = s) (h2 : t.bstart = bs) (h3 : t.value ≠ [])
    (h4 : t.stop = s + t.value.length) (h5 : t.bstop = bs + blen t.value) : ChainFrom (splitTok t) s bs := by
  unfold splitTok
  cases hk : t.kind with
  | text => simp only; rw [h1, h2]; exact mkToks_chain .text _ s bs (nlRuns_ne _ _)
  | element => exact ⟨h1, h2, h3, h4, h5, trivial⟩

theorem splitToks_chain : ∀ (T : List Token) (s bs : Nat), ChainFrom T s bs → ChainFrom (splitToks T) s bs
  | [], _, _, _ => trivial
  | t :: ts, s, bs, h => by
    obtain ⟨c1, c2, c3, c4, c5, c6⟩ := h
    simp only [splitToks]
    rw [chainFrom_append]
    refine ⟨splitTok_chain t s bs c1 c2 c3 c4 c5, ?_⟩
    rw [flat_splitTok, ← c4, ← c5]
    exact splitToks_chain ts _ _ c6

/-- the tags of the finer chain are the tags of the chain, as tokens -/
theorem splitToks_tags : ∀ (T : List Token),
    (splitToks T).filter (fun t => t.kind = .element) = T.filter (fun t => t.kind = .element)
  | [] => rfl
  | t :: ts => by
    simp only [splitToks, List.filter_append, splitToks_tags ts, List.filter_cons]
    unfold splitTok
    cases hk : t.kind with
    | text =>
      simp only
      have : (mkToks .text (nlRuns t.value []) t.start t.bstart).filter (fun t => t.kind = .element) = [] := by
        rw [List.filter_eq_nil_iff]
        intro u hu
        have := (mkToks_mem .text _ _ _ u hu).1
        simp [this]
      rw [this]
      simp
    | element => simp [hk]

/-- a token of the finer chain: a tag of the chain, or a piece of a text token that is a single line break or has
    none -/
theorem splitToks_mem : ∀ (T : List Token), ∀ u ∈ splitToks T,
    (u.kind = .element ∧ u ∈ T) ∨
    (u.kind = .text ∧ (u.value = ['\n'] ∨ ∀ c ∈ u.value, c ≠ '\n') ∧ ∃ t ∈ T, t.kind = .text ∧ ∀ c ∈ u.value, c ∈ t.value)
  | [], u, hu => by simp [splitToks] at hu
  | t :: ts, u, hu => by
    simp only [splitToks, List.mem_append] at hu
    rcases hu with hu | hu
    · unfold splitTok at hu
      cases hk : t.kind with
      | text =>
        rw [hk] at hu
        simp only at hu
        obtain ⟨h1, h2⟩ := mkToks_mem .text _ _ _ u hu
        refine Or.inr ⟨h1, nlRuns_shape _ [] (by simp) _ h2, t, by simp, hk, ?_⟩
        intro c hc
        simpa using nlRuns_mem t.value [] _ h2 c hc
      | element =>
        rw [hk] at hu
        simp only [List.mem_singleton] at hu
        subst hu
        exact Or.inl ⟨hk, by simp⟩
    · rcases splitToks_mem ts u hu with ⟨h1, h2⟩ | ⟨h1, h2, t', ht', h3⟩
      · exact Or.inl ⟨h1, List.mem_cons_of_mem _ h2⟩
      · exact Or.inr ⟨h1, h2, t', List.mem_cons_of_mem _ ht', h3⟩

end Chiritori
