import Chiritori.Lemmas.Reparse
/-
  Unwrapping: taking the two tags of an element out and keeping its children.  When the body of every unwrapped
  element has no unclosed opening tag at its top level, the result is again a forest the parser can produce - the
  children pair exactly as before; unwrapping creates no new pairings.  The hypothesis is needed: the two tags of a block
  cut the openers inside it off from closers behind it (known finding D19, second form).
-/
namespace Chiritori
open Spec

mutual
/-- the forest with the elements selected by `P` replaced by their children -/
def spliceParts (P : Element → Bool) : List Part → List Part
  | [] => []
  | p :: ps => splicePart P p ++ spliceParts P ps
def splicePart (P : Element → Bool) : Part → List Part
  | .text t => [.text t]
  | .element el st en ch => if P el then spliceParts P ch else [.element el st en (spliceParts P ch)]
end

mutual
/-- no unwrapped element has an unclosed opening tag at the top level of its body -/
def BodiesClosed (ds de : List Char) (P : Element → Bool) : List Part → Prop
  | [] => True
  | p :: ps => BodyClosed ds de P p ∧ BodiesClosed ds de P ps
def BodyClosed (ds de : List Char) (P : Element → Bool) : Part → Prop
  | .text _ => True
  | .element el _ _ ch => (P el = true → demotedNames ds de ch = []) ∧ BodiesClosed ds de P ch
end

theorem closerCond_mono (el : Element) (names names' : List (List Char)) (hsub : ∀ x, x ∈ names' → x ∈ names)
    (h : ¬ closerCond el names) : ¬ closerCond el names' := by
  intro hc
  apply h
  refine ⟨hc.1, ?_⟩
  obtain ⟨_, h2⟩ := hc
  simp only [List.any_eq_true, beq_iff_eq] at h2 ⊢
  obtain ⟨x, hx, hxe⟩ := h2
  exact ⟨x, hsub x hx, hxe⟩

mutual
/-- fewer open names: still a forest the machine can produce -/
theorem OKS_mono (ds de : List Char) : ∀ (H : List Part) (names names' : List (List Char)),
    (∀ x, x ∈ names' → x ∈ names) → OKS ds de names H → OKS ds de names' H
  | [], _, _, _, _ => by simp [OKS]
  | .text t :: rest, names, names', hsub, h => by
    simp only [OKS] at h ⊢
    refine ⟨?_, ?_⟩
    · have h1 := h.1
      simp only [OKP] at h1 ⊢
      cases he : elparse ds de t with
      | none => simp
      | some el => rw [he] at h1; exact closerCond_mono el names names' hsub h1
    · apply OKS_mono ds de rest _ _ ?_ h.2
      intro x hx
      simp only [ctxOf] at hx ⊢
      cases he : elparse ds de t with
      | none => rw [he] at hx; simp only at hx ⊢; exact hsub x hx
      | some el =>
        rw [he] at hx
        simp only at hx ⊢
        rcases List.mem_cons.mp hx with rfl | hx
        · simp
        · exact List.mem_cons_of_mem _ (hsub x hx)
  | .element el st en ch :: rest, names, names', hsub, h => by
    simp only [OKS, ctxOf] at h ⊢
    obtain ⟨h1, h2⟩ := h
    refine ⟨?_, OKS_mono ds de rest names names' hsub h2⟩
    simp only [OKP] at h1 ⊢
    obtain ⟨a1, a2, a3, a4, a5⟩ := h1
    refine ⟨a1, closerCond_mono el names names' hsub a2, a3, ?_, a5⟩
    apply OKS_mono ds de ch (el.name :: names) (el.name :: names') ?_ a4
    intro x hx
    rcases List.mem_cons.mp hx with rfl | hx
    · simp
    · exact List.mem_cons_of_mem _ (hsub x hx)
end

mutual
theorem demotedNames_splice (ds de : List Char) (P : Element → Bool) : ∀ (H : List Part), BodiesClosed ds de P H →
    demotedNames ds de (spliceParts P H) = demotedNames ds de H
  | [], _ => rfl
  | .text t :: rest, h => by
    simp only [BodiesClosed] at h
    simp only [spliceParts, splicePart, List.singleton_append, demotedNames, demotedNames_splice ds de P rest h.2]
  | .element el st en ch :: rest, h => by
    simp only [BodiesClosed, BodyClosed] at h
    obtain ⟨⟨h1, h2⟩, h3⟩ := h
    simp only [spliceParts, splicePart, demotedNames]
    split
    · rename_i hp
      rw [demotedNames_append, demotedNames_splice ds de P ch h2, h1 hp, demotedNames_splice ds de P rest h3]
      simp
    · simp [demotedNames, demotedNames_splice ds de P rest h3]
end

mutual
theorem OKS_splice (ds de : List Char) (P : Element → Bool) : ∀ (H : List Part) (names : List (List Char)),
    BodiesClosed ds de P H → OKS ds de names H → OKS ds de names (spliceParts P H)
  | [], _, _, _ => by simp [spliceParts, OKS]
  | .text t :: rest, names, hb, h => by
    simp only [BodiesClosed] at hb
    simp only [OKS] at h
    simp only [spliceParts, splicePart, List.singleton_append, OKS]
    exact ⟨h.1, OKS_splice ds de P rest _ hb.2 h.2⟩
  | .element el st en ch :: rest, names, hb, h => by
    simp only [BodiesClosed, BodyClosed] at hb
    obtain ⟨⟨hb1, hb2⟩, hb3⟩ := hb
    simp only [OKS, ctxOf] at h
    obtain ⟨h1, h2⟩ := h
    simp only [OKP] at h1
    obtain ⟨a1, a2, a3, a4, a5⟩ := h1
    have ihch := OKS_splice ds de P ch (el.name :: names) hb2 a4
    have ihrest := OKS_splice ds de P rest names hb3 h2
    simp only [spliceParts, splicePart]
    split
    · rename_i hp
      -- the children take the place of the element: they are fine under fewer names, and leave no opener behind
      have hd : demotedNames ds de (spliceParts P ch) = [] := by
        rw [demotedNames_splice ds de P ch hb2]; exact hb1 hp
      rw [OKS_append_nodemoted ds de _ _ names hd]
      exact ⟨OKS_mono ds de _ (el.name :: names) names (fun x hx => List.mem_cons_of_mem _ hx) ihch, ihrest⟩
    · simp only [List.singleton_append, OKS, ctxOf]
      refine ⟨?_, ihrest⟩
      simp only [OKP]
      exact ⟨a1, a2, a3, ihch, by rw [demotedNames_splice ds de P ch hb2]; exact a5⟩
end

/-- unwrapping creates no new pairings: when no unwrapped element has an unclosed opening tag at the top level of its
    body, parsing what is left of a document after the tags of the selected elements were taken out gives the forest
    with those elements replaced by their children -/
theorem parse_unwrapped (ds de : List Char) (P : Element → Bool) (toks : List Token)
    (h : BodiesClosed ds de P (parse ds de toks)) :
    parse ds de (flattenParts (spliceParts P (parse ds de toks))) = spliceParts P (parse ds de toks) := by
  rw [parse_eq_stackParse ds de (flattenParts _)]
  exact stackParse_flatten_of_OKS ds de _ (OKS_splice ds de P _ [] h (parse_OKS ds de toks))

/-! The hypothesis is needed (the second form of D19): `<tl>` with an unclosed `<rm>` inside and a stray `</rm>` behind
    it. In the forest `<rm>` and `</rm>` are text; without the tags of `<tl>` they pair. And a document whose blocks are
    closed inside satisfies it. -/
def uwBad : List Char := "<tl>\n<rm>\nbody\n</tl>\nx\n</rm>\n".toList
def uwGood : List Char := "<tl>\n<rm>\nbody\n</rm>\n</tl>\nx\n".toList
def isTl (el : Element) : Bool := el.name == "tl".toList

example :
    let G := parse "<".toList ">".toList (tokenize uwBad "<".toList ">".toList)
    (elementsOf G).length = 1 ∧
    (elementsOf (parse "<".toList ">".toList (flattenParts (spliceParts isTl G)))).length = 1 ∧
    (elementsOf (spliceParts isTl G)).length = 0 := by decide +kernel

example :
    let G := parse "<".toList ">".toList (tokenize uwGood "<".toList ">".toList)
    (elementsOf G).length = 2 ∧
    (elementsOf (parse "<".toList ">".toList (flattenParts (spliceParts isTl G)))).map (·.1.name) = ["rm".toList] ∧
    (elementsOf (spliceParts isTl G)).map (·.1.name) = ["rm".toList] := by decide +kernel

end Chiritori
