import Chiritori.Lemmas.MergeMarkers
import Chiritori.Lemmas.Tree
import Chiritori.Lemmas.Lines
import Chiritori.Props.C06
/-
  `collect_removable_ranges`: the range tree of a parse forest is geometrically well formed and covers exactly
  the ready extents of the specification.
-/
namespace Chiritori
open Spec

/-- tokens are contiguous in bytes from `lo` to `hi`, none empty -/
def BSpan : List Token → Nat → Nat → Prop
  | [], lo, hi => lo = hi
  | t :: ts, lo, hi => t.bstart = lo ∧ t.bstart < t.bstop ∧ BSpan ts t.bstop hi

theorem BSpan_le (ts : List Token) (lo hi : Nat) (h : BSpan ts lo hi) : lo ≤ hi := by
  induction ts generalizing lo with
  | nil => simp only [BSpan] at h; omega
  | cons t ts ih =>
    obtain ⟨h1, h2, h3⟩ := h
    have := ih t.bstop h3; omega

theorem BSpan_append (a b : List Token) (lo hi : Nat) :
    BSpan (a ++ b) lo hi ↔ ∃ mid, BSpan a lo mid ∧ BSpan b mid hi := by
  induction a generalizing lo with
  | nil => simp [BSpan]
  | cons t ts ih =>
    simp only [List.cons_append, BSpan, ih]
    constructor
    · rintro ⟨h1, h2, mid, h3, h4⟩; exact ⟨mid, ⟨h1, h2, h3⟩, h4⟩
    · rintro ⟨mid, ⟨h1, h2, h3⟩, h4⟩; exact ⟨h1, h2, mid, h3, h4⟩

theorem BSpan_of_chain (ts : List Token) (s bs : Nat) (h : ChainFrom ts s bs) : BSpan ts bs (bs + blen (flat ts)) := by
  induction ts generalizing s bs with
  | nil => simp [BSpan]
  | cons t ts ih =>
    simp only [ChainFrom] at h
    obtain ⟨_, h2, h3, _, h5, h6⟩ := h
    have hpos := blen_pos_of_ne_nil h3
    refine ⟨h2, by omega, ?_⟩
    have := ih t.stop t.bstop h6
    simp only [flat_cons, blen_append]
    rw [h5] at this ⊢
    rwa [Nat.add_assoc] at this

mutual
theorem RGeo_widen : ∀ (ts : List RTree) (lo hi lo' hi' : Nat), RGeo ts lo hi → lo' ≤ lo → hi ≤ hi' → RGeo ts lo' hi'
  | [], lo, hi, lo', hi', h, h1, h2 => by simp only [RGeo] at h ⊢; omega
  | t :: ts, lo, hi, lo', hi', h, h1, h2 => by
    simp only [RGeo] at h ⊢
    obtain ⟨mid, ht, hts⟩ := h
    exact ⟨mid, RTreeGeo_widenL t lo mid lo' ht h1, RGeo_widen ts mid hi mid hi' hts (Nat.le_refl _) h2⟩
theorem RTreeGeo_widenL : ∀ (t : RTree) (lo hi lo' : Nat), RTreeGeo t lo hi → lo' ≤ lo → RTreeGeo t lo' hi
  | .node r pair ch, lo, hi, lo', h, h1 => by
    cases pair with
    | none =>
      simp only [RTreeGeo] at h ⊢
      exact ⟨by omega, h.2.1, h.2.2.1, h.2.2.2⟩
    | some t =>
      simp only [RTreeGeo] at h ⊢
      exact ⟨by omega, h.2⟩
end

theorem RGeo_le : ∀ (ts : List RTree) (lo hi : Nat), RGeo ts lo hi → lo ≤ hi
  | [], lo, hi, h => by simpa [RGeo] using h
  | t :: ts, lo, hi, h => by
    simp only [RGeo] at h
    obtain ⟨mid, ht, hts⟩ := h
    have := RGeo_le ts mid hi hts
    cases t with
    | node r pair ch =>
      cases pair with
      | none => simp only [RTreeGeo] at ht; omega
      | some t => simp only [RTreeGeo] at ht; omega

theorem RGeo_append : ∀ (a b : List RTree) (lo mid hi : Nat), RGeo a lo mid → RGeo b mid hi → RGeo (a ++ b) lo hi
  | [], b, lo, mid, hi, ha, hb => by
    simp only [RGeo] at ha
    exact RGeo_widen b mid hi lo hi hb ha (Nat.le_refl _)
  | t :: ts, b, lo, mid, hi, ha, hb => by
    simp only [List.cons_append, RGeo] at ha ⊢
    obtain ⟨m, ht, hts⟩ := ha
    exact ⟨m, ht, RGeo_append ts b m mid hi hts hb⟩

theorem rcov_append : ∀ (a b : List RTree) (i : Nat), rcov (a ++ b) i ↔ rcov a i ∨ rcov b i
  | [], b, i => by simp [rcov]
  | t :: ts, b, i => by
    simp only [List.cons_append, rcov, rcov_append ts b i]
    constructor
    · rintro (h | h | h)
      · exact Or.inl (Or.inl h)
      · exact Or.inl (Or.inr h)
      · exact Or.inr h
    · rintro ((h | h) | h)
      · exact Or.inl h
      · exact Or.inr (Or.inl h)
      · exact Or.inr (Or.inr h)

/-! ### the reference extents, unfolded along the forest -/

mutual
def extentsOfParts (cfg : Cfg) (b : Bytes) : List Part → List Rng
  | [] => []
  | p :: ps => extentsOfPart cfg b p ++ extentsOfParts cfg b ps
def extentsOfPart (cfg : Cfg) (b : Bytes) : Part → List Rng
  | .text _ => []
  | .element el st en ch =>
    (if conditionHolds cfg el then extentOf b el st en else []) ++ extentsOfParts cfg b ch
end

mutual
theorem readyExtents_eq : ∀ (cfg : Cfg) (b : Bytes) (parts : List Part),
    readyExtents cfg b parts = extentsOfParts cfg b parts
  | cfg, b, [] => by simp [readyExtents, elementsOf, extentsOfParts]
  | cfg, b, p :: ps => by
    have h1 := readyExtentsPart_eq cfg b p
    have h2 := readyExtents_eq cfg b ps
    simp only [readyExtents, elementsOf, List.flatMap_append, extentsOfParts] at h1 h2 ⊢
    rw [h1, h2]
theorem readyExtentsPart_eq : ∀ (cfg : Cfg) (b : Bytes) (p : Part),
    ((elementsOfPart p).flatMap fun x => if conditionHolds cfg x.1 then extentOf b x.1 x.2.1 x.2.2 else [])
      = extentsOfPart cfg b p
  | cfg, b, .text _ => by simp [elementsOfPart, extentsOfPart]
  | cfg, b, .element el st en ch => by
    have h := readyExtents_eq cfg b ch
    simp only [readyExtents] at h
    simp only [elementsOfPart, List.flatMap_cons, extentsOfPart]
    rw [h]
end

theorem inAny_append (a b : List Rng) (i : Nat) : inAny (a ++ b) i = (inAny a i || inAny b i) := by
  simp [inAny, List.any_append]

theorem inAny_nil (i : Nat) : inAny [] i = false := rfl

/-- properties of the wrapper parts, read off the line table -/
theorem unwrapParts_geo (b : Bytes) (st en : Token) (h : Rng) (t : Rng) (hu : unwrapParts b st en = some (h, t)) :
    h.1 = st.bstart ∧ st.bstop < h.2 ∧ h.2 < t.1 ∧ t.1 < en.bstart ∧ t.2 = en.bstop := by
  unfold unwrapParts at hu
  dsimp only at hu
  cases hp1 : (lineBreaks b).find? (fun p => decide (p ≥ st.bstop)) with
  | none => rw [hp1] at hu; simp at hu
  | some p1 =>
    rw [hp1] at hu
    simp only at hu
    cases hp2 : (lineBreaks b).find? (fun p => decide (p > p1)) with
    | none => rw [hp2] at hu; simp at hu
    | some p2 =>
      rw [hp2] at hu
      simp only at hu
      cases hq1 : ((lineBreaks b).filter (fun p => decide (p < en.bstart ∧ p ≥ 1))).getLast? with
      | none => rw [hq1] at hu; simp at hu
      | some q1 =>
        rw [hq1] at hu
        simp only at hu
        cases hq2 : ((lineBreaks b).filter (fun p => decide (p < q1 ∧ p ≥ 1))).getLast? with
        | none => rw [hq2] at hu; simp at hu
        | some q2 =>
          rw [hq2] at hu
          simp only at hu
          have f1 := List.find?_some hp1
          have f2 := List.find?_some hp2
          have f3 := (List.mem_filter.mp (List.mem_of_getLast? hq1)).2
          have f4 := (List.mem_filter.mp (List.mem_of_getLast? hq2)).2
          simp only [decide_eq_true_eq] at f1 f2 f3 f4
          by_cases hv : q2 ≥ p2
          · rw [if_pos hv] at hu
            injection hu with hu
            injection hu with hu1 hu2
            subst hu1; subst hu2
            refine ⟨rfl, ?_, ?_, ?_, rfl⟩ <;> simp only <;> omega
          · rw [if_neg hv] at hu; simp at hu

end Chiritori

namespace Chiritori
open Spec

/-- the reference extent of an element against the strategy's range pair -/
theorem extentOf_eq_createRange (b : Bytes) (el : Element) (st en : Token)
    (h1 : 0 < st.bstop) (h2 : en.bstart ≤ b.length) :
    extentOf b el st en =
      match createRange b el st en with
      | (r, some t) => [r, t]
      | (r, none) => if r.isEmpty then [] else [r] := by
  unfold extentOf createRange
  have ha : (el.attrs.any fun a => a.name == "unwrap-block".toList) = hasAttr el "unwrap-block" := rfl
  rw [ha]
  cases hu : hasAttr el "unwrap-block" with
  | true =>
    simp only [ite_true]
    rw [buildUnwrap_eq b st en h1 h2]
    cases hp : unwrapParts b st en with
    | none => simp [Rng.isEmpty]
    | some ht => obtain ⟨h, t⟩ := ht; rfl
  | false =>
    simp only [Bool.false_eq_true, ite_false, buildRange, Rng.isEmpty]
    by_cases hlt : st.bstart < en.bstop
    · have : ¬ (st.bstart ≥ en.bstop) := by omega
      simp [hlt, this]
    · have : st.bstart ≥ en.bstop := by omega
      simp [hlt, this]

/-- the (non-empty) range pair the strategy builds for an element spanning `[lo, hi)` -/
theorem createRange_geo (b : Bytes) (el : Element) (st en : Token) (r : Rng) (p : Option Rng)
    (h1 : st.bstart < st.bstop) (h2 : st.bstop ≤ en.bstart) (h3 : en.bstart < en.bstop) (h4 : en.bstart ≤ b.length)
    (hc : createRange b el st en = (r, p)) (hne : r.isEmpty = false) :
    match p with
    | none => r = (st.bstart, en.bstop)
    | some t => r.1 = st.bstart ∧ st.bstop < r.2 ∧ r.2 < t.1 ∧ t.1 < en.bstart ∧ t.2 = en.bstop := by
  unfold createRange at hc
  split at hc
  · rw [buildUnwrap_eq b st en (by omega) h4] at hc
    cases hp : unwrapParts b st en with
    | none =>
      rw [hp] at hc
      injection hc with hc1 hc2
      subst hc1
      simp [Rng.isEmpty] at hne
    | some ht =>
      obtain ⟨h, t⟩ := ht
      rw [hp] at hc
      injection hc with hc1 hc2
      subst hc1; subst hc2
      exact unwrapParts_geo b st en h t hp
  · simp only [buildRange] at hc
    injection hc with hc1 hc2
    subst hc1; subst hc2
    rfl

mutual
theorem collect_spec (cfg : Cfg) (b : Bytes) : ∀ (parts : List Part) (lo hi : Nat),
    BSpan (flattenParts parts) lo hi → hi ≤ b.length →
    RGeo (collect cfg b false parts).1 lo hi ∧
    ∀ i, rcov (collect cfg b false parts).1 i ↔ inAny (extentsOfParts cfg b parts) i = true
  | [], lo, hi, hs, _ => by
    simp only [flattenParts, BSpan] at hs
    simp only [collect, RGeo, extentsOfParts, rcov, inAny_nil]
    exact ⟨by omega, by simp⟩
  | p :: ps, lo, hi, hs, hlen => by
    simp only [flattenParts, BSpan_append] at hs
    obtain ⟨mid, hs1, hs2⟩ := hs
    have hmid := BSpan_le _ mid hi hs2
    obtain ⟨g1, c1⟩ := collectPart_spec cfg b p lo mid hs1 (by omega)
    obtain ⟨g2, c2⟩ := collect_spec cfg b ps mid hi hs2 hlen
    simp only [collect, extentsOfParts]
    refine ⟨RGeo_append _ _ lo mid hi g1 g2, ?_⟩
    intro i
    rw [rcov_append, inAny_append, c1 i, c2 i]
    simp
theorem collectPart_spec (cfg : Cfg) (b : Bytes) : ∀ (p : Part) (lo hi : Nat),
    BSpan (flattenPart p) lo hi → hi ≤ b.length →
    RGeo (collectPart cfg b false p).1 lo hi ∧
    ∀ i, rcov (collectPart cfg b false p).1 i ↔ inAny (extentsOfPart cfg b p) i = true
  | .text t, lo, hi, hs, _ => by
    have := BSpan_le _ lo hi hs
    simp only [collectPart, RGeo, extentsOfPart, rcov, inAny_nil]
    exact ⟨this, by simp⟩
  | .element el st en ch, lo, hi, hs, hlen => by
    simp only [flattenPart, List.cons_append, BSpan, BSpan_append] at hs
    obtain ⟨hst, hst2, mid, hch, hen1, hen2, hen3⟩ := hs
    have hmid := BSpan_le _ st.bstop mid hch
    obtain ⟨gch, cch⟩ := collect_spec cfg b ch st.bstop mid hch (by omega)
    have hext := extentOf_eq_createRange b el st en (by omega) (by omega)
    simp only [collectPart, extentsOfPart]
    cases her : elementRange cfg b false el st en with
    | none =>
      simp only
      refine ⟨RGeo_widen _ st.bstop mid lo hi gch (by omega) (by omega), ?_⟩
      intro i
      rw [cch i, inAny_append]
      -- the element contributes no extent
      have hnone : inAny (if conditionHolds cfg el = true then extentOf b el st en else []) i = false := by
        by_cases hc : conditionHolds cfg el = true
        · rw [if_pos hc, hext]
          have : ¬ (conditionHolds cfg el = true ∧ (createRange b el st en).1.isEmpty = false) := by
            intro hh
            obtain ⟨r, p, hr⟩ := (Props.C06.ready_iff cfg b false el st en).mpr hh
            rw [her] at hr; simp at hr
          have hemp : (createRange b el st en).1.isEmpty = true := by
            cases hx : (createRange b el st en).1.isEmpty with
            | true => rfl
            | false => exact absurd ⟨hc, hx⟩ this
          cases hcr : createRange b el st en with
          | mk r p =>
            rw [hcr] at hemp
            simp only at hemp
            cases p with
            | none => simp [hemp, inAny_nil]
            | some t =>
              -- an unwrap pair always has a non-empty opening part
              exfalso
              have hcr' := hcr
              unfold createRange at hcr'
              split at hcr'
              · rw [buildUnwrap_eq b st en (by omega) (by omega)] at hcr'
                cases hp : unwrapParts b st en with
                | none => rw [hp] at hcr'; simp at hcr'
                | some ht =>
                  obtain ⟨h', t'⟩ := ht
                  rw [hp] at hcr'
                  injection hcr' with e1 e2
                  have := unwrapParts_geo b st en h' t' hp
                  subst e1
                  simp [Rng.isEmpty] at hemp
                  omega
              · simp [buildRange] at hcr'
        · rw [if_neg hc]; rfl
      rw [hnone]; simp
    | some rpb =>
      obtain ⟨r, p, flag⟩ := rpb
      have hflag := elementRange_false_flag cfg b el st en r p flag her
      subst hflag
      obtain ⟨hc, hne⟩ := (Props.C06.ready_iff cfg b false el st en).mp ⟨r, p, her⟩
      -- `elementRange` returns the pair of `createRange`
      have hcr : createRange b el st en = (r, p) := by
        unfold elementRange at her
        cases hs : isSkip el <;> rw [hs] at her
        · cases he : evaluatorFor cfg el.name <;> rw [he] at her
          · simp at her
          · rename_i ev
            cases hv : ev el <;> simp [hv] at her
            cases hcc : createRange b el st en with
            | mk r' p' =>
              rw [hcc] at her
              simp only at her
              obtain ⟨_, e1, e2⟩ := her
              rw [e1, e2]
        · simp at her
      rw [hcr] at hne
      have hgeo := createRange_geo b el st en r p hst2 (by omega) hen2 (by omega) hcr hne
      simp only
      rw [if_pos hc, hext, hcr]
      cases p with
      | none =>
        simp only at hgeo
        subst hgeo
        refine ⟨?_, ?_⟩
        · simp only [RGeo, RTreeGeo]
          refine ⟨hi, ⟨by omega, by omega, by omega, ?_⟩, Nat.le_refl _⟩
          exact RGeo_widen _ st.bstop mid _ _ gch (by omega) (by omega)
        · intro i
          simp only [rcov, rtcov, hne, Bool.false_eq_true, ite_false, inAny_append, cch i, or_false]
          simp [inAny, Rng.contains]
      | some t =>
        simp only at hgeo
        obtain ⟨q1, q2, q3, q4, q5⟩ := hgeo
        refine ⟨?_, ?_⟩
        · simp only [RGeo, RTreeGeo]
          refine ⟨hi, ⟨by omega, by omega, q3, by omega, by omega, st.bstop, mid, by omega, by omega, by omega, by omega,
            gch⟩, Nat.le_refl _⟩
        · intro i
          simp only [rcov, rtcov, inAny_append, cch i, or_false]
          simp [inAny, Rng.contains]
          constructor
          · rintro (h | h | h)
            · exact Or.inl (Or.inl h)
            · exact Or.inl (Or.inr h)
            · exact Or.inr h
          · rintro ((h | h) | h)
            · exact Or.inl h
            · exact Or.inr (Or.inl h)
            · exact Or.inr (Or.inr h)
end

end Chiritori
