import Chiritori.Lemmas.Erase
import Chiritori.Lemmas.Lines
/-
  The lines a list item shows are the lines of the source: the text between the line start in front of the region
  and the line end behind it is a run of whole source lines, and its first `last + 1 - first` lines are the lines
  `first .. last` of the source.
-/
namespace Chiritori
open Spec

/-! ### lines of a text -/

theorem linesT_append_nl : ∀ (W R cur : List Char), linesT (W ++ '\n' :: R) cur = linesT W cur ++ linesT R []
  | [], R, cur => by simp [linesT]
  | c :: cs, R, cur => by
    simp only [List.cons_append, linesT]
    split
    · rw [linesT_append_nl cs R []]; rfl
    · exact linesT_append_nl cs R _

theorem linesT_length : ∀ (W cur : List Char), (linesT W cur).length = W.count '\n' + 1
  | [], _ => rfl
  | c :: cs, cur => by
    simp only [linesT]
    split
    · rename_i h; subst h
      simp [linesT_length cs []]
    · rename_i h
      rw [linesT_length cs _, List.count_cons_of_ne h]

theorem joinWith_linesT : ∀ (y cur : List Char), joinWith ['\n'] (linesT y cur) = cur ++ y
  | [], cur => by simp [linesT, joinWith]
  | c :: cs, cur => by
    simp only [linesT]
    split
    · rename_i h; subst h
      have hne : linesT cs [] ≠ [] := by
        intro hh
        have := linesT_length cs []
        rw [hh] at this; simp at this
      cases hl : linesT cs [] with
      | nil => exact absurd hl hne
      | cons x xs =>
        simp only [joinWith]
        rw [← hl, joinWith_linesT cs []]
        simp
    · rw [joinWith_linesT cs _]; simp

theorem splitInclusive_ne_nil : ∀ (s cur : List Char), s ≠ [] ∨ cur ≠ [] → splitInclusive s cur ≠ []
  | [], [], h => by simp at h
  | [], _ :: _, _ => by simp [splitInclusive]
  | c :: cs, cur, _ => by
    simp only [splitInclusive]
    split
    · simp
    · exact splitInclusive_ne_nil cs _ (Or.inr (by simp))

theorem stripLineEnd_id (l : List Char) (h : l.getLast? ≠ some '\n') : stripLineEnd l = l := by
  unfold stripLineEnd
  split
  · rename_i heq; exact absurd heq h
  · rfl

/-- joining the lines of a text that does not end with a line break gives the text back (no carriage returns) -/
theorem joinWith_rustLines_aux : ∀ (m cur : List Char), (∀ c ∈ m, c ≠ '\r') → (∀ c ∈ cur, c ≠ '\r') →
    (∀ c ∈ cur, c ≠ '\n') → (cur ++ m).getLast? ≠ some '\n' →
    joinWith ['\n'] ((splitInclusive m cur).map stripLineEnd) = cur ++ m
  | [], [], _, _, _, _ => by simp [splitInclusive, joinWith]
  | [], d :: ds, _, _, _, hl => by
    simp only [splitInclusive, List.map_cons, List.map_nil, joinWith, List.append_nil]
    exact stripLineEnd_id _ (by simpa using hl)
  | c :: cs, cur, hm, hc, hn, hl => by
    simp only [splitInclusive]
    split
    · rename_i h; subst h
      have hcs : cs ≠ [] := by
        intro hh; subst hh
        simp at hl
      have hne := splitInclusive_ne_nil cs [] (Or.inl hcs)
      have ih := joinWith_rustLines_aux cs [] (fun d hd => hm d (by simp [hd])) (by simp) (by simp)
        (by
          rcases List.eq_nil_or_concat cs with h | ⟨L, x, h⟩
          · exact absurd h hcs
          · subst h
            simp only [List.concat_eq_append] at hl ⊢
            have e : cur ++ '\n' :: (L ++ [x]) = (cur ++ '\n' :: L) ++ [x] := by simp
            rw [e, List.getLast?_concat] at hl
            simpa using hl)
      simp only [List.map_cons, stripLineEnd_nl cur hc]
      cases hsp : (splitInclusive cs []).map stripLineEnd with
      | nil =>
        have : splitInclusive cs [] = [] := by simpa using hsp
        exact absurd this hne
      | cons x xs =>
        simp only [joinWith]
        rw [← hsp, ih]
        simp
    · rename_i h
      have ih := joinWith_rustLines_aux cs (cur ++ [c]) (fun d hd => hm d (by simp [hd]))
        (by intro d hd
            rcases List.mem_append.mp hd with hd | hd
            · exact hc d hd
            · simp only [List.mem_singleton] at hd; subst hd; exact hm d (by simp))
        (by intro d hd
            rcases List.mem_append.mp hd with hd | hd
            · exact hn d hd
            · simp only [List.mem_singleton] at hd; subst hd; exact h)
        (by simpa using hl)
      rw [ih]; simp

theorem joinWith_rustLines (m : List Char) (hcr : ∀ c ∈ m, c ≠ '\r') (hl : m.getLast? ≠ some '\n') :
    joinWith ['\n'] (rustLines m) = m := by
  have := joinWith_rustLines_aux m [] hcr (by simp) (by simp) (by simpa using hl)
  simpa [rustLines] using this

/-! ### slices -/

theorem slices_concat {α} (l : List α) (i j k : Nat) (hij : i ≤ j) (hjk : j ≤ k) :
    (l.take j).drop i ++ (l.take k).drop j = (l.take k).drop i := by
  apply List.ext_getElem?
  intro n
  by_cases hn : i + n < j
  · by_cases hlen : i + n < l.length
    · rw [List.getElem?_append_left (by simp; omega)]
      simp only [List.getElem?_drop, List.getElem?_take]
      rw [if_pos hn, if_pos (by omega)]
    · rw [List.getElem?_eq_none (by simp; omega), List.getElem?_eq_none (by simp; omega)]
  · have hlen1 : ((l.take j).drop i).length = min j l.length - i := by simp
    by_cases hjl : j ≤ l.length
    · rw [List.getElem?_append_right (by rw [hlen1, Nat.min_eq_left hjl]; omega), hlen1, Nat.min_eq_left hjl]
      simp only [List.getElem?_drop, List.getElem?_take]
      rw [show j + (n - (j - i)) = i + n by omega]
    · have e1 : l.take j = l := List.take_of_length_le (by omega)
      have e2 : l.take k = l := List.take_of_length_le (by omega)
      rw [e1, e2, List.drop_of_length_le (by omega : l.length ≤ j), List.append_nil]

/-! ### counting line breaks -/

theorem count_lineMapAux : ∀ (bs : Bytes) (off k : Nat),
    ((lineMapAux bs off).filter fun p => decide (p < off + k)).length = (bs.take k).count NL
  | [], _, _ => by simp [lineMapAux]
  | x :: rest, off, 0 => by
    simp only [Nat.add_zero, List.take_zero, List.count_nil, List.length_eq_zero_iff, List.filter_eq_nil_iff]
    intro p hp
    have := (mem_lineMapAux (x :: rest) off p).mp hp
    simp; omega
  | x :: rest, off, k + 1 => by
    have ih := count_lineMapAux rest (off + 1) k
    rw [show off + 1 + k = off + (k + 1) by omega] at ih
    cases x with
    | cont =>
      simp only [lineMapAux, List.take_succ_cons, ih]
      rw [List.count_cons_of_ne (by decide)]
    | lead c =>
      simp only [lineMapAux, List.take_succ_cons]
      by_cases hc : c = '\n'
      · subst hc
        simp only [ite_true, List.filter_cons]
        rw [if_pos (by simp)]
        simp only [List.length_cons, ih]
        rw [show (ABy.lead '\n') = NL from rfl, List.count_cons_self]
      · simp only [hc, ite_false, ih]
        rw [List.count_cons_of_ne (by intro h; injection h with h; exact hc h)]

theorem count_lineBreaks (b : Bytes) (x : Nat) :
    ((lineBreaks b).filter fun p => decide (p < x)).length = (b.take x).count NL := by
  have := count_lineMapAux b 0 x
  simpa [lineBreaks, buildLineMap] using this

theorem count_charsOf : ∀ (bs : Bytes), (charsOf bs).count '\n' = bs.count NL
  | [] => rfl
  | .cont :: rest => by
    simp only [charsOf, count_charsOf rest]
    rw [List.count_cons_of_ne (by decide)]
  | .lead c :: rest => by
    simp only [charsOf]
    by_cases hc : c = '\n'
    · subst hc
      rw [List.count_cons_self, show (ABy.lead '\n') = NL from rfl, List.count_cons_self, count_charsOf rest]
    · rw [List.count_cons_of_ne hc, List.count_cons_of_ne (by intro h; injection h with h; exact hc h),
        count_charsOf rest]

theorem count_zero_of_none {α} [DecidableEq α] (l : List α) (x : α) (h : ∀ i : Nat, l[i]? ≠ some x) : l.count x = 0 := by
  rw [List.count_eq_zero]
  intro hx
  obtain ⟨i, hi⟩ := List.getElem?_of_mem hx
  exact h i hi

/-! ### the line start in front of a position and the line end behind it -/

theorem prevScan_false_none : ∀ (rev : Bytes) (cursor : Nat), rev.length = cursor + 1 →
    prevScan false rev cursor = none → ∀ i, i < cursor → rev[i]? ≠ some NL
  | [], _, hlen, _ => by simp at hlen
  | x :: rest, cursor, hlen, h => by
    intro i hi
    simp only [prevScan] at h
    rw [if_neg (by omega)] at h
    cases hc : lbCheck (some x) with
    | found => rw [hc] at h; simp at h
    | skip =>
      rw [hc] at h
      simp only at h
      cases i with
      | zero =>
        simp only [List.getElem?_cons_zero]
        intro hx; injection hx with hx; subst hx
        simp [lbCheck] at hc
      | succ j =>
        simp only [List.getElem?_cons_succ]
        exact prevScan_false_none rest (cursor - 1) (by simp at hlen; omega) h j (by omega)
    | none =>
      rw [hc] at h
      simp only [Bool.false_eq_true, ite_false] at h
      cases i with
      | zero =>
        simp only [List.getElem?_cons_zero]
        intro hx; injection hx with hx; subst hx
        simp [lbCheck] at hc
      | succ j =>
        simp only [List.getElem?_cons_succ]
        exact prevScan_false_none rest (cursor - 1) (by simp at hlen; omega) h j (by omega)

/-- the start of the line of `pos`: 0 or just behind a line break, with no line break between it and `pos` -
    provided the text does not begin with a line break (known finding D8: index 0 is never examined) -/
theorem lineStartOf_spec (b : Bytes) (pos : Nat) (hpos : pos ≤ b.length) (h0 : b[0]? ≠ some NL) :
    lineStartOf b pos ≤ pos ∧ (lineStartOf b pos = 0 ∨ b[lineStartOf b pos - 1]? = some NL) ∧
    ∀ i, lineStartOf b pos ≤ i → i < pos → b[i]? ≠ some NL := by
  unfold lineStartOf
  cases h : findPrevLB b pos false with
  | some v =>
    simp only
    obtain ⟨g1, g2, g3, g4, g5, _⟩ := findPrevLB_some _ _ _ _ h
    exact ⟨by omega, Or.inr (by simpa using g4), fun i hi1 hi2 => g5 i (by omega) hi2⟩
  | none =>
    simp only
    refine ⟨Nat.zero_le _, by simp, ?_⟩
    intro i _ hi
    unfold findPrevLB at h
    split at h
    · omega
    · split at h
      · omega
      · have hlen : (b.take pos).reverse.length = (pos - 1) + 1 := by simp [Nat.min_eq_left hpos]; omega
        have := prevScan_false_none _ _ hlen h
        cases i with
        | zero => exact h0
        | succ j =>
          have h' := this (pos - 1 - (j + 1)) (by omega)
          rw [List.getElem?_reverse (by simp [Nat.min_eq_left hpos]; omega)] at h'
          simp only [List.length_take, Nat.min_eq_left hpos] at h'
          rw [show pos - 1 - (pos - 1 - (j + 1)) = j + 1 by omega, List.getElem?_take] at h'
          rw [if_pos (by omega)] at h'
          exact h'

/-- the end of the line of `pos`: the end of the text or a line break -/
theorem lineEndOf_spec (b : Bytes) (pos : Nat) (hpos : pos ≤ b.length) :
    pos ≤ lineEndOf b pos ∧ lineEndOf b pos ≤ b.length ∧ (lineEndOf b pos = b.length ∨ b[lineEndOf b pos]? = some NL) := by
  unfold lineEndOf
  cases h : findNextLB b pos false with
  | none => exact ⟨hpos, Nat.le_refl _, Or.inl rfl⟩
  | some v =>
    simp only
    obtain ⟨_, g2, g3, g4, _⟩ := findNextLB_some _ _ _ _ h
    exact ⟨g2, by omega, Or.inr g4⟩

end Chiritori
