import Chiritori.Lemmas.PiecesOut
/-
  Parsing up to whitespace: two token streams with the same tags, whose texts between the tags have the same
  non-whitespace characters, parse to forests that are indistinguishable by "remove the elements selected by `P`,
  then read the non-whitespace text" - for every `P` (`parse_rel`).  The relation on forests is stated through
  exactly that observation (`RelParts`), which makes it a congruence for every move of the stack machine.
-/
namespace Chiritori
open Spec

/-- the non-whitespace text of a forest -/
def nwflat (parts : List Part) : List Char := nwC (flat (flattenParts parts))

theorem pruneParts_append (P : Element → Bool) : ∀ (a b : List Part),
    pruneParts P (a ++ b) = pruneParts P a ++ pruneParts P b
  | [], b => by simp [pruneParts]
  | x :: xs, b => by simp [pruneParts, pruneParts_append P xs b, List.append_assoc]

theorem nwflat_append (a b : List Part) : nwflat (a ++ b) = nwflat a ++ nwflat b := by
  simp [nwflat, flattenParts_append, nwC_append]

/-- indistinguishable after any pruning, up to whitespace -/
def RelParts (a b : List Part) : Prop := ∀ P : Element → Bool, nwflat (pruneParts P a) = nwflat (pruneParts P b)

theorem RelParts.refl (a : List Part) : RelParts a a := fun _ => rfl

theorem RelParts.append {a b c d : List Part} (h1 : RelParts a b) (h2 : RelParts c d) : RelParts (a ++ c) (b ++ d) := by
  intro P
  rw [pruneParts_append, pruneParts_append, nwflat_append, nwflat_append, h1 P, h2 P]

theorem pruneParts_texts (P : Element → Bool) : ∀ (B : List Token), pruneParts P (B.map Part.text) = B.map Part.text
  | [] => rfl
  | t :: B => by simp [pruneParts, prunePart, pruneParts_texts P B]

theorem flattenParts_texts : ∀ (B : List Token), flattenParts (B.map Part.text) = B
  | [] => rfl
  | t :: B => by simp [flattenParts, flattenPart, flattenParts_texts B]

theorem RelParts.texts (B B' : List Token) (h : nwC (flat B) = nwC (flat B')) :
    RelParts (B.map Part.text) (B'.map Part.text) := by
  intro P
  simp only [pruneParts_texts, nwflat, flattenParts_texts, h]

theorem flat_one (t : Token) : flat [t] = t.value := by simp [flat]

theorem RelParts.text (t u : Token) (h : t.value = u.value) : RelParts [.text t] [.text u] := by
  have := RelParts.texts [t] [u] (by rw [flat_one, flat_one, h])
  simpa using this

theorem flat_elem (st en : Token) (X : List Token) : flat (st :: X ++ [en]) = st.value ++ flat X ++ en.value := by
  simp [flat]

theorem RelParts.elem (el : Element) (st st' en en' : Token) (ch ch' : List Part) (h1 : st.value = st'.value)
    (h2 : en.value = en'.value) (h3 : RelParts ch ch') : RelParts [.element el st en ch] [.element el st' en' ch'] := by
  intro P
  simp only [pruneParts, prunePart, List.append_nil]
  split
  · rfl
  · have := h3 P
    simp only [nwflat] at this
    simp only [nwflat, flattenParts, flattenPart, List.append_nil]
    rw [flat_elem, flat_elem]
    simp only [nwC_append, h1, h2, this]

/-! ### related machine states -/

def RelFrame (f g : Frame) : Prop := f.el = g.el ∧ f.tok.value = g.tok.value ∧ RelParts f.parts g.parts

def RelStack : List Frame → List Frame → Prop
  | [], [] => True
  | f :: fs, g :: gs => RelFrame f g ∧ RelStack fs gs
  | _, _ => False

def RelState (s t : List Frame × List Part) : Prop := RelStack s.1 t.1 ∧ RelParts s.2 t.2

theorem appendTo_rel (S S' : List Frame) (r r' x x' : List Part) (hS : RelStack S S') (hr : RelParts r r')
    (hx : RelParts x x') : RelState (appendTo S r x) (appendTo S' r' x') := by
  cases S with
  | nil =>
    cases S' with
    | nil => exact ⟨trivial, hr.append hx⟩
    | cons g gs => exact absurd hS (by simp [RelStack])
  | cons f fs =>
    cases S' with
    | nil => exact absurd hS (by simp [RelStack])
    | cons g gs =>
      obtain ⟨⟨a1, a2, a3⟩, hrest⟩ := hS
      exact ⟨⟨⟨a1, a2, a3.append hx⟩, hrest⟩, hr⟩

theorem relStack_any (x : List Char) : ∀ (S S' : List Frame), RelStack S S' →
    S.any (fun f => f.el.name == x) = S'.any (fun f => f.el.name == x)
  | [], [], _ => rfl
  | [], _ :: _, h => absurd h (by simp [RelStack])
  | _ :: _, [], h => absurd h (by simp [RelStack])
  | f :: fs, g :: gs, h => by
    obtain ⟨⟨a1, _, _⟩, hrest⟩ := h
    simp only [List.any_cons, a1, relStack_any x fs gs hrest]

def RelOpt : Option (List Frame × List Part) → Option (List Frame × List Part) → Prop
  | some a, some b => RelState a b
  | none, none => True
  | _, _ => False

theorem closeFrame_rel (name : List Char) (c c' : Token) (hc : c.value = c'.value) :
    ∀ (S S' : List Frame) (r r' h h' : List Part), RelStack S S' → RelParts r r' → RelParts h h' →
    RelOpt (closeFrame name c S r h) (closeFrame name c' S' r' h')
  | [], [], _, _, _, _, _, _, _ => by simp [closeFrame, RelOpt]
  | [], _ :: _, _, _, _, _, hS, _, _ => absurd hS (by simp [RelStack])
  | _ :: _, [], _, _, _, _, hS, _, _ => absurd hS (by simp [RelStack])
  | f :: fs, g :: gs, r, r', h, h', hS, hr, hh => by
    obtain ⟨⟨a1, a2, a3⟩, hrest⟩ := hS
    simp only [closeFrame, ← a1]
    split
    · simp only [RelOpt]
      apply appendTo_rel fs gs r r' _ _ hrest hr
      exact RelParts.elem _ _ _ _ _ _ _ a2 hc (a3.append hh)
    · apply closeFrame_rel name c c' hc fs gs r r' _ _ hrest hr
      have : RelParts ([Part.text f.tok] ++ (f.parts ++ h)) ([Part.text g.tok] ++ (g.parts ++ h')) :=
        (RelParts.text _ _ a2).append (a3.append hh)
      simpa using this

theorem elparse_congr (ds de : List Char) (t u : Token) (hk : t.kind = u.kind) (hv : t.value = u.value) :
    elparse ds de t = elparse ds de u := by
  simp only [elparse, hk, hv]

theorem stackStep_rel (ds de : List Char) (st st' : List Frame × List Part) (t u : Token) (h : RelState st st')
    (hk : t.kind = u.kind) (hv : t.value = u.value) : RelState (stackStep ds de st t) (stackStep ds de st' u) := by
  obtain ⟨S, r⟩ := st
  obtain ⟨S', r'⟩ := st'
  obtain ⟨hS, hr⟩ := h
  simp only at hS hr
  simp only [stackStep, ← elparse_congr ds de t u hk hv]
  cases hel : elparse ds de t with
  | none => exact appendTo_rel S S' r r' _ _ hS hr (RelParts.text t u hv)
  | some el =>
    simp only
    rw [← relStack_any _ S S' hS]
    split
    · have := closeFrame_rel (trimSlashes el.name) t u hv S S' r r' [] [] hS hr (RelParts.refl _)
      revert this
      cases closeFrame (trimSlashes el.name) t S r [] <;> cases closeFrame (trimSlashes el.name) u S' r' [] <;>
        simp only [RelOpt] <;> intro this
      · exact ⟨hS, hr⟩
      · exact this.elim
      · exact this.elim
      · exact this
    · exact ⟨⟨⟨rfl, hv, RelParts.refl _⟩, hS⟩, hr⟩

theorem appendTo_nil (S : List Frame) (r : List Part) : appendTo S r [] = (S, r) := by
  cases S <;> simp [appendTo]

theorem appendTo_appendTo (S : List Frame) (r a b : List Part) :
    appendTo (appendTo S r a).1 (appendTo S r a).2 b = appendTo S r (a ++ b) := by
  cases S <;> simp [appendTo, List.append_assoc]

/-- a block of text tokens is appended as it is -/
theorem runM_texts (ds de : List Char) : ∀ (B : List Token) (S : List Frame) (r : List Part),
    (∀ t ∈ B, t.kind = .text) → runM ds de (S, r) B = appendTo S r (B.map Part.text)
  | [], S, r, _ => by simp [runM, appendTo_nil]
  | t :: B, S, r, h => by
    have ht : elparse ds de t = none := by simp [elparse, h t (by simp)]
    have : runM ds de (S, r) (t :: B) = runM ds de (stackStep ds de (S, r) t) B := by simp [runM]
    rw [this, stackStep_text ds de S r t ht]
    have ih := runM_texts ds de B (appendTo S r [.text t]).1 (appendTo S r [.text t]).2 (fun u hu => h u (by simp [hu]))
    rw [show ((appendTo S r [.text t]).1, (appendTo S r [.text t]).2) = appendTo S r [.text t] from rfl] at ih
    rw [ih, appendTo_appendTo]
    rfl

/-- the same tags, and between them texts with the same non-whitespace -/
inductive TokRel : List Token → List Token → Prop
  | nil : TokRel [] []
  | tag (t u : Token) (a b : List Token) : t.kind = u.kind → t.value = u.value → TokRel a b → TokRel (t :: a) (u :: b)
  | txt (b1 b2 a b : List Token) : (∀ t ∈ b1, t.kind = .text) → (∀ t ∈ b2, t.kind = .text) →
      nwC (flat b1) = nwC (flat b2) → TokRel a b → TokRel (b1 ++ a) (b2 ++ b)

theorem runM_rel (ds de : List Char) (T1 T2 : List Token) (h : TokRel T1 T2) :
    ∀ (st st' : List Frame × List Part), RelState st st' → RelState (runM ds de st T1) (runM ds de st' T2) := by
  induction h with
  | nil => intro st st' hst; exact hst
  | tag t u a b hk hv _ ih =>
    intro st st' hst
    have e1 : runM ds de st (t :: a) = runM ds de (stackStep ds de st t) a := by simp [runM]
    have e2 : runM ds de st' (u :: b) = runM ds de (stackStep ds de st' u) b := by simp [runM]
    rw [e1, e2]
    exact ih _ _ (stackStep_rel ds de st st' t u hst hk hv)
  | txt b1 b2 a b h1 h2 hn _ ih =>
    intro st st' hst
    obtain ⟨S, r⟩ := st
    obtain ⟨S', r'⟩ := st'
    rw [runM_append, runM_append, runM_texts ds de b1 S r h1, runM_texts ds de b2 S' r' h2]
    exact ih _ _ (appendTo_rel S S' r r' _ _ hst.1 hst.2 (RelParts.texts b1 b2 hn))

theorem finishStack_rel : ∀ (S S' : List Frame) (h h' r r' : List Part), RelStack S S' → RelParts h h' → RelParts r r' →
    RelParts (finishStack S h r) (finishStack S' h' r')
  | [], [], _, _, _, _, _, hh, hr => by simp only [finishStack]; exact hr.append hh
  | [], _ :: _, _, _, _, _, hS, _, _ => absurd hS (by simp [RelStack])
  | _ :: _, [], _, _, _, _, hS, _, _ => absurd hS (by simp [RelStack])
  | f :: fs, g :: gs, h, h', r, r', hS, hh, hr => by
    obtain ⟨⟨_, a2, a3⟩, hrest⟩ := hS
    simp only [finishStack]
    apply finishStack_rel fs gs _ _ r r' hrest _ hr
    have : RelParts ([Part.text f.tok] ++ (f.parts ++ h)) ([Part.text g.tok] ++ (g.parts ++ h')) :=
      (RelParts.text _ _ a2).append (a3.append hh)
    simpa using this

/-- parsing respects the relation -/
theorem parse_rel (ds de : List Char) (T1 T2 : List Token) (h : TokRel T1 T2) :
    RelParts (parse ds de T1) (parse ds de T2) := by
  rw [parse_eq_stackParse, parse_eq_stackParse]
  have := runM_rel ds de T1 T2 h ([], []) ([], []) ⟨trivial, RelParts.refl _⟩
  simp only [stackParse]
  simp only [runM] at this
  generalize List.foldl (stackStep ds de) ([], []) T1 = s1 at this ⊢
  generalize List.foldl (stackStep ds de) ([], []) T2 = s2 at this ⊢
  obtain ⟨S, r⟩ := s1
  obtain ⟨S', r'⟩ := s2
  exact finishStack_rel S S' [] [] r r' this.1 (RelParts.refl _) this.2

/-! ### pruning twice -/

mutual
theorem prune_prune (P1 P2 : Element → Bool) (hP : ∀ e, P1 e = true → P2 e = true) : ∀ (a : List Part),
    pruneParts P2 (pruneParts P1 a) = pruneParts P2 a
  | [] => rfl
  | p :: ps => by
    simp only [pruneParts, pruneParts_append, prunePart_prune P1 P2 hP p, prune_prune P1 P2 hP ps]
theorem prunePart_prune (P1 P2 : Element → Bool) (hP : ∀ e, P1 e = true → P2 e = true) : ∀ (p : Part),
    pruneParts P2 (prunePart P1 p) = prunePart P2 p
  | .text t => by simp [prunePart, pruneParts]
  | .element el st en ch => by
    simp only [prunePart]
    by_cases h1 : P1 el = true
    · simp [h1, hP el h1, pruneParts]
    · simp only [h1, Bool.false_eq_true, ite_false, pruneParts, prunePart, List.append_nil, prune_prune P1 P2 hP ch]
end

/-! ### a well-delimited text against the tokens it was made from -/

theorem map_eq_append_split {α β} (f : α → β) : ∀ (l : List α) (a b : List β), l.map f = a ++ b →
    ∃ l1 l2, l = l1 ++ l2 ∧ l1.map f = a ∧ l2.map f = b := by
  intro l a b h
  exact List.map_eq_append_iff.mp h

theorem tokRel_of_pRel (ds de : List Char) : ∀ (ps : List Piece) (L : List Token) (acc : List Char) (B T : List Token),
    PRel ds de ps L → (∀ t ∈ B, t.kind = .text) → nwC (flat B) = nwC acc →
    T.map (fun t => (t.kind, t.value)) = tnorm ds de [] ps acc → TokRel T (B ++ L)
  | [], [], acc, B, T, _, hB, hn, hT => by
    simp only [tnorm, List.append_nil] at hT
    have : TokRel (T ++ []) (B ++ []) := by
      apply TokRel.txt T B [] [] _ hB _ TokRel.nil
      · intro t ht
        split at hT
        · cases T with
          | nil => simp at hT
          | cons x xs =>
            simp only [List.map_cons, List.cons.injEq, Prod.mk.injEq, List.map_eq_nil_iff] at hT
            obtain ⟨⟨hk, _⟩, hxs⟩ := hT
            subst hxs
            simp only [List.mem_singleton] at ht
            subst ht; exact hk
        · simp only [List.map_eq_nil_iff] at hT
          subst hT; simp at ht
      · split at hT
        · cases T with
          | nil => simp at hT
          | cons x xs =>
            simp only [List.map_cons, List.cons.injEq, Prod.mk.injEq, List.map_eq_nil_iff] at hT
            obtain ⟨⟨_, hv⟩, hxs⟩ := hT
            subst hxs
            rw [flat_one, hv, hn]
        · rename_i hacc
          simp only [List.map_eq_nil_iff] at hT
          subst hT
          have : acc = [] := by simpa using hacc
          subst this
          rw [hn]; rfl
    simpa using this
  | [], _ :: _, _, _, _, h, _, _, _ => absurd h (by simp [PRel])
  | .text v :: ps, [], _, _, _, h, _, _, _ => absurd h (by simp [PRel])
  | .tag _ _ :: ps, [], _, _, _, h, _, _, _ => absurd h (by simp [PRel])
  | .text v :: ps, t :: L, acc, B, T, h, hB, hn, hT => by
    obtain ⟨hk, hnv, hrest⟩ := h
    simp only [tnorm] at hT
    have := tokRel_of_pRel ds de ps L (acc ++ v) (B ++ [t]) T hrest
      (by intro u hu; rcases List.mem_append.mp hu with hu | hu
          · exact hB u hu
          · simp only [List.mem_singleton] at hu; subst hu; exact hk)
      (by rw [flat_append, nwC_append, nwC_append, hn, hnv, flat_one]) hT
    simpa using this
  | .tag b0 rest :: ps, t :: L, acc, B, T, h, hB, hn, hT => by
    obtain ⟨hk, hv, hrest⟩ := h
    simp only [tnorm] at hT
    obtain ⟨T12, T3, e1, hT12, hT3⟩ := map_eq_append_split _ T _ _ hT
    obtain ⟨T1, T2, e2, hT1, hT2⟩ := map_eq_append_split _ T12 _ _ hT12
    subst e1 e2
    cases T2 with
    | nil => simp at hT2
    | cons u us =>
      simp only [List.map_cons, List.cons.injEq, Prod.mk.injEq, List.map_eq_nil_iff] at hT2
      obtain ⟨⟨uk, uv⟩, hus⟩ := hT2
      subst hus
      have ih := tokRel_of_pRel ds de ps L [] [] T3 hrest (by simp) rfl hT3
      have htag : TokRel (u :: T3) (t :: L) := TokRel.tag u t T3 L (by rw [uk, hk]) (by rw [uv, hv]) (by simpa using ih)
      have : TokRel (T1 ++ (u :: T3)) (B ++ (t :: L)) := by
        apply TokRel.txt T1 B _ _ _ hB _ htag
        · intro x hx
          split at hT1
          · cases T1 with
            | nil => simp at hx
            | cons y ys =>
              simp only [List.map_cons, List.cons.injEq, Prod.mk.injEq, List.map_eq_nil_iff] at hT1
              obtain ⟨⟨yk, _⟩, hys⟩ := hT1
              subst hys
              simp only [List.mem_singleton] at hx
              subst hx; exact yk
          · simp only [List.map_eq_nil_iff] at hT1
            subst hT1; simp at hx
        · split at hT1
          · cases T1 with
            | nil => simp at hT1
            | cons y ys =>
              simp only [List.map_cons, List.cons.injEq, Prod.mk.injEq, List.map_eq_nil_iff] at hT1
              obtain ⟨⟨_, yv⟩, hys⟩ := hT1
              subst hys
              rw [flat_one, yv, hn]
          · rename_i hacc
            simp only [List.map_eq_nil_iff] at hT1
            subst hT1
            have : acc = [] := by simpa using hacc
            subst this
            rw [hn]; rfl
      simpa using this

end Chiritori
