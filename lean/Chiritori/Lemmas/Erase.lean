import Chiritori.Lemmas.ListTotal
/-
  Colour codes are invisible to the rendering of a list item: a text with colour codes inserted (`Er y x`: `y` is
  `x` with colour codes in some places) goes through line splitting, numbering, tab expansion and joining to a
  text that is again the plain result with colour codes inserted.  Hence the coloured item is the plain item with
  colour codes inserted, and stripping ANSI sequences from it gives the plain item.
-/
namespace Chiritori

def IsCol (k : List Char) : Prop := k = colGreen ∨ k = colRed ∨ k = colYellow ∨ k = colReset

/-- `y` is `x` with colour codes inserted -/
inductive Er : List Char → List Char → Prop
  | nil : Er [] []
  | keep (c : Char) {y x : List Char} : Er y x → Er (c :: y) (c :: x)
  | skip (k : List Char) {y x : List Char} : IsCol k → Er y x → Er (k ++ y) x

theorem Er.refl : ∀ (x : List Char), Er x x
  | [] => .nil
  | c :: cs => .keep c (Er.refl cs)

theorem Er.append {a a' b b' : List Char} (h1 : Er a a') (h2 : Er b b') : Er (a ++ b) (a' ++ b') := by
  induction h1 with
  | nil => simpa using h2
  | keep c _ ih => exact .keep c ih
  | skip k hk _ ih => rw [List.append_assoc]; exact .skip k hk ih

theorem Er.col (k : List Char) (hk : IsCol k) : Er k [] := by
  have := Er.skip k hk Er.nil
  simpa using this

/-- a colour code, or nothing (colouring switched off) -/
def IsColOpt (k : List Char) : Prop := IsCol k ∨ k = []

theorem Er.colOpt (k : List Char) (hk : IsColOpt k) : Er k [] := by
  rcases hk with hk | rfl
  · exact Er.col k hk
  · exact .nil

theorem col_chars (k : List Char) (hk : IsCol k) : ∀ c ∈ k, c ≠ '\n' ∧ c ≠ '\t' ∧ c ≠ '\r' := by
  rcases hk with rfl | rfl | rfl | rfl <;> decide

theorem col_head (k : List Char) (hk : IsCol k) : ∃ d, k = ['\x1b', '[', '3', d, 'm'] ∨ k = ['\x1b', '[', '0', 'm'] := by
  rcases hk with rfl | rfl | rfl | rfl
  · exact ⟨'2', Or.inl rfl⟩
  · exact ⟨'1', Or.inl rfl⟩
  · exact ⟨'3', Or.inl rfl⟩
  · exact ⟨'0', Or.inr rfl⟩

theorem er_mem {y x : List Char} (h : Er y x) : ∀ c ∈ y, c ∈ x ∨ (c ≠ '\n' ∧ c ≠ '\t' ∧ c ≠ '\r') := by
  induction h with
  | nil => simp
  | keep d _ ih =>
    intro c hc
    rcases List.mem_cons.mp hc with rfl | hc
    · exact Or.inl (by simp)
    · rcases ih c hc with h | h
      · exact Or.inl (List.mem_cons_of_mem _ h)
      · exact Or.inr h
  | skip k hk _ ih =>
    intro c hc
    rcases List.mem_append.mp hc with hc | hc
    · exact Or.inr (col_chars k hk c hc)
    · exact ih c hc

/-! ### tab expansion -/

theorem replaceTabs_append : ∀ (a b : List Char), replaceTabs (a ++ b) = replaceTabs a ++ replaceTabs b
  | [], b => rfl
  | c :: cs, b => by
    simp only [List.cons_append, replaceTabs]
    split <;> simp [replaceTabs_append cs b]

theorem replaceTabs_notab : ∀ (k : List Char), (∀ c ∈ k, c ≠ '\t') → replaceTabs k = k
  | [], _ => rfl
  | c :: cs, h => by
    simp only [replaceTabs]
    rw [if_neg (h c (by simp)), replaceTabs_notab cs (fun d hd => h d (by simp [hd]))]

theorem er_replaceTabs {y x : List Char} (h : Er y x) : Er (replaceTabs y) (replaceTabs x) := by
  induction h with
  | nil => exact .nil
  | keep c _ ih =>
    simp only [replaceTabs]
    split
    · exact (Er.refl _).append ih
    · exact .keep c ih
  | skip k hk _ ih =>
    rw [replaceTabs_append, replaceTabs_notab k (fun c hc => (col_chars k hk c hc).2.1)]
    exact .skip k hk ih

/-! ### lines -/

/-- related line by line -/
def ErL : List (List Char) → List (List Char) → Prop
  | [], [] => True
  | a :: as, b :: bs => Er a b ∧ ErL as bs
  | _, _ => False

/-- the lines of a text that a line break follows -/
def linesT : List Char → List Char → List (List Char)
  | [], cur => [cur]
  | c :: cs, cur => if c = '\n' then cur :: linesT cs [] else linesT cs (cur ++ [c])

theorem stripLineEnd_nl (cur : List Char) (h : ∀ c ∈ cur, c ≠ '\r') : stripLineEnd (cur ++ ['\n']) = cur := by
  unfold stripLineEnd
  have h1 : (cur ++ ['\n']).getLast? = some '\n' := by simp
  rw [h1]
  simp only [List.dropLast_concat]
  cases hl : cur.getLast? with
  | none => rfl
  | some d =>
    have hd : d ∈ cur := List.mem_of_getLast? hl
    have := h d hd
    split
    · rename_i heq
      injection heq with heq
      exact absurd heq this
    · rfl

theorem rustLines_terminated : ∀ (y cur : List Char), (∀ c ∈ y, c ≠ '\r') → (∀ c ∈ cur, c ≠ '\r') →
    (splitInclusive (y ++ ['\n']) cur).map stripLineEnd = linesT y cur
  | [], cur, _, hc => by
    simp only [List.nil_append, splitInclusive, linesT, if_true, List.map_cons, List.map_nil, stripLineEnd_nl cur hc]
  | c :: cs, cur, hy, hc => by
    simp only [List.cons_append, splitInclusive, linesT]
    split
    · rename_i hcn
      subst hcn
      simp only [List.map_cons, stripLineEnd_nl cur hc]
      rw [rustLines_terminated cs [] (fun d hd => hy d (by simp [hd])) (by simp)]
    · exact rustLines_terminated cs (cur ++ [c]) (fun d hd => hy d (by simp [hd]))
        (by intro d hd
            rcases List.mem_append.mp hd with hd | hd
            · exact hc d hd
            · simp only [List.mem_singleton] at hd; subst hd; exact hy d (by simp))

theorem linesT_skip : ∀ (k y cur : List Char), (∀ c ∈ k, c ≠ '\n') → linesT (k ++ y) cur = linesT y (cur ++ k)
  | [], y, cur, _ => by simp
  | c :: cs, y, cur, h => by
    simp only [List.cons_append, linesT]
    rw [if_neg (h c (by simp)), linesT_skip cs y _ (fun d hd => h d (by simp [hd]))]
    simp

theorem er_linesT {y x : List Char} (h : Er y x) : ∀ (cur cur' : List Char), Er cur cur' →
    ErL (linesT y cur) (linesT x cur') := by
  induction h with
  | nil => intro cur cur' hc; exact ⟨hc, trivial⟩
  | keep c _ ih =>
    intro cur cur' hc
    simp only [linesT]
    split
    · exact ⟨hc, ih [] [] .nil⟩
    · exact ih _ _ (hc.append (Er.refl [c]))
  | skip k hk _ ih =>
    intro cur cur' hc
    rw [linesT_skip k _ cur (fun c hc => (col_chars k hk c hc).1)]
    apply ih
    have := hc.append (Er.col k hk)
    simpa using this

theorem er_zipLines : ∀ (nums : List Nat) (ls ls' : List (List Char)), ErL ls ls' →
    Er (zipLines nums ls) (zipLines nums ls')
  | [], _, _, _ => by simp only [zipLines]; exact .nil
  | _ :: is, [], [], _ => by simp only [zipLines]; exact er_zipLines is [] [] trivial
  | _ :: _, [], _ :: _, h => absurd h (by simp [ErL])
  | _ :: _, _ :: _, [], h => absurd h (by simp [ErL])
  | i :: is, l :: ls, l' :: ls', h => by
    obtain ⟨h1, h2⟩ := h
    simp only [zipLines]
    exact (((Er.refl _).append h1).append (Er.refl _)).append (er_zipLines is ls ls' h2)

theorem er_joinWith (sep : List Char) : ∀ (A B : List (List Char)), ErL A B → Er (joinWith sep A) (joinWith sep B)
  | [], [], _ => .nil
  | [], _ :: _, h => absurd h (by simp [ErL])
  | _ :: _, [], h => absurd h (by simp [ErL])
  | [a], [b], h => by simp only [joinWith]; exact h.1
  | [_], _ :: _ :: _, h => absurd h.2 (by simp [ErL])
  | _ :: _ :: _, [_], h => absurd h.2 (by simp [ErL])
  | a :: a2 :: as, b :: b2 :: bs, h => by
    simp only [joinWith]
    exact (h.1.append (Er.refl sep)).append (er_joinWith sep (a2 :: as) (b2 :: bs) h.2)

theorem erL_map (f g : List Char → List Char) (hfg : ∀ l, Er (f l) (g l)) : ∀ (L : List (List Char)),
    ErL (L.map f) (L.map g)
  | [] => trivial
  | l :: ls => ⟨hfg l, erL_map f g hfg ls⟩

/-! ### stripping ANSI colour sequences (`ESC [ digits-or-semicolons m`) -/

inductive StripSt where
  | normal
  | esc
  | params (buf : List Char)

def isParamChar (c : Char) : Bool := c.isDigit || c == ';'

/-- remove every match of `\x1b\[[0-9;]*m`, left to right -/
def strip : StripSt → List Char → List Char
  | .normal, [] => []
  | .normal, c :: cs => if c = '\x1b' then strip .esc cs else c :: strip .normal cs
  | .esc, [] => ['\x1b']
  | .esc, c :: cs =>
    if c = '[' then strip (.params []) cs
    else if c = '\x1b' then '\x1b' :: strip .esc cs
    else '\x1b' :: c :: strip .normal cs
  | .params buf, [] => '\x1b' :: '[' :: buf
  | .params buf, c :: cs =>
    if c = 'm' then strip .normal cs
    else if isParamChar c then strip (.params (buf ++ [c])) cs
    else if c = '\x1b' then ('\x1b' :: '[' :: buf) ++ strip .esc cs
    else ('\x1b' :: '[' :: buf) ++ c :: strip .normal cs

def stripAnsi (s : List Char) : List Char := strip .normal s

theorem strip_col (k : List Char) (hk : IsCol k) (rest : List Char) : strip .normal (k ++ rest) = strip .normal rest := by
  rcases hk with rfl | rfl | rfl | rfl <;>
    simp [strip, colGreen, colRed, colYellow, colReset, isParamChar, Char.isDigit]

/-- stripping a text with colour codes inserted gives the text back, if the text itself has no escape character -/
theorem strip_er {y x : List Char} (h : Er y x) (hx : ∀ c ∈ x, c ≠ '\x1b') : stripAnsi y = x := by
  unfold stripAnsi
  induction h with
  | nil => rfl
  | keep c _ ih =>
    simp only [strip]
    rw [if_neg (hx c (by simp)), ih (fun d hd => hx d (by simp [hd]))]
  | skip k hk _ ih =>
    rw [strip_col k hk, ih hx]

/-! ### the item -/

theorem colMarker_opt (coloring : Bool) : IsColOpt (colMarker coloring) := by
  cases coloring
  · exact Or.inr rfl
  · exact Or.inl (Or.inl rfl)

theorem colSpan_opt (coloring isRemoval : Bool) : IsColOpt (colSpan coloring isRemoval) := by
  cases coloring
  · exact Or.inr rfl
  · cases isRemoval
    · exact Or.inl (Or.inr (Or.inr (Or.inl rfl)))
    · exact Or.inl (Or.inr (Or.inl rfl))

theorem colOff_opt (coloring : Bool) : IsColOpt (colOff coloring) := by
  cases coloring
  · exact Or.inr rfl
  · exact Or.inl (Or.inr (Or.inr (Or.inr rfl)))

theorem er_removedText (coloring isRemoval : Bool) (g : ItemGeom) :
    Er (removedText coloring isRemoval g) (removedText false isRemoval g) := by
  unfold removedText
  refine (((Er.refl _).append ?_).append (Er.refl _)).append (Er.refl _)
  apply er_joinWith
  apply erL_map
  intro l
  have h1 := Er.colOpt _ (colSpan_opt coloring isRemoval)
  have h2 := Er.colOpt _ (colOff_opt coloring)
  have := (h1.append (Er.refl l)).append h2
  simpa [colSpan, colOff] using this

theorem charsOf_mem_lead : ∀ (b : Bytes) (c : Char), c ∈ charsOf b → ABy.lead c ∈ b
  | [], _, h => by simp [charsOf] at h
  | .lead d :: bs, c, h => by
    simp only [charsOf, List.mem_cons] at h
    rcases h with rfl | h
    · simp
    · exact List.mem_cons_of_mem _ (charsOf_mem_lead bs c h)
  | .cont :: bs, c, h => by
    simp only [charsOf] at h
    exact List.mem_cons_of_mem _ (charsOf_mem_lead bs c h)

theorem rustLines_mem : ∀ (s cur : List Char) (l : List Char), l ∈ splitInclusive s cur → ∀ c ∈ l, c ∈ s ∨ c ∈ cur
  | [], [], l, h => by simp [splitInclusive] at h
  | [], d :: ds, l, h => by
    simp only [splitInclusive, List.mem_singleton] at h
    subst h
    intro c hc; exact Or.inr hc
  | x :: xs, cur, l, h => by
    simp only [splitInclusive] at h
    intro c hc
    split at h
    · rcases List.mem_cons.mp h with rfl | h
      · rcases List.mem_append.mp hc with hc | hc
        · exact Or.inr hc
        · simp only [List.mem_singleton] at hc; subst hc; exact Or.inl (by simp)
      · rcases rustLines_mem xs [] l h c hc with h' | h'
        · exact Or.inl (List.mem_cons_of_mem _ h')
        · simp at h'
    · rcases rustLines_mem xs (cur ++ [x]) l h c hc with h' | h'
      · exact Or.inl (List.mem_cons_of_mem _ h')
      · rcases List.mem_append.mp h' with h' | h'
        · exact Or.inr h'
        · simp only [List.mem_singleton] at h'; subst h'; exact Or.inl (by simp)

theorem stripLineEnd_subset (l : List Char) : ∀ c ∈ stripLineEnd l, c ∈ l := by
  intro c hc
  unfold stripLineEnd at hc
  split at hc
  · simp only at hc
    split at hc
    · exact List.dropLast_subset _ (List.dropLast_subset _ hc)
    · exact List.dropLast_subset _ hc
  · exact hc

theorem joinWith_mem (sep : List Char) : ∀ (A : List (List Char)) (c : Char), c ∈ joinWith sep A →
    c ∈ sep ∨ ∃ l ∈ A, c ∈ l
  | [], c, h => by simp [joinWith] at h
  | [a], c, h => by simp only [joinWith] at h; exact Or.inr ⟨a, by simp, h⟩
  | a :: a2 :: as, c, h => by
    simp only [joinWith, List.mem_append] at h
    rcases h with (h | h) | h
    · exact Or.inr ⟨a, by simp, h⟩
    · exact Or.inl h
    · rcases joinWith_mem sep (a2 :: as) c h with h | ⟨l, hl, hc⟩
      · exact Or.inl h
      · exact Or.inr ⟨l, List.mem_cons_of_mem _ hl, hc⟩

/-- no carriage return in the plain shown lines, when the slices have none -/
theorem removedText_nocr (isRemoval : Bool) (g : ItemGeom)
    (h : ∀ c, c ∈ charsOf g.pre ∨ c ∈ charsOf g.mid ∨ c ∈ charsOf g.post → c ≠ '\r') :
    ∀ c ∈ (removedText false isRemoval g).dropLast, c ≠ '\r' := by
  unfold removedText
  rw [List.dropLast_concat]
  intro c hc
  simp only [List.mem_append] at hc
  rcases hc with (hc | hc) | hc
  · exact h c (Or.inl hc)
  · rcases joinWith_mem _ _ c hc with hc | ⟨l, hl, hcl⟩
    · simp only [List.mem_singleton] at hc; subst hc; decide
    · obtain ⟨l0, hl0, rfl⟩ := List.mem_map.mp hl
      simp only [colSpan, colOff, Bool.false_eq_true, ite_false, List.nil_append, List.append_nil] at hcl
      unfold rustLines at hl0
      obtain ⟨l1, hl1, rfl⟩ := List.mem_map.mp hl0
      have := stripLineEnd_subset l1 c hcl
      rcases rustLines_mem _ _ l1 hl1 c this with h' | h'
      · exact h c (Or.inr (Or.inl h'))
      · simp at h'
  · exact h c (Or.inr (Or.inr hc))

/-- the coloured item is the plain item with colour codes inserted (LF texts) -/
theorem er_renderItem (coloring isRemoval : Bool) (lineRange : Option (Nat × Nat)) (g : ItemGeom)
    (h : ∀ c, c ∈ charsOf g.pre ∨ c ∈ charsOf g.mid ∨ c ∈ charsOf g.post → c ≠ '\r') :
    Er (renderItem coloring isRemoval lineRange g) (renderItem false isRemoval lineRange g) := by
  have hm := Er.colOpt _ (colMarker_opt coloring)
  have ho := Er.colOpt _ (colOff_opt coloring)
  have hrem := er_removedText coloring isRemoval g
  have hcode : Er (codeBlockOf lineRange (removedText coloring isRemoval g))
      (codeBlockOf lineRange (removedText false isRemoval g)) := by
    cases lineRange with
    | none => exact hrem
    | some az =>
      obtain ⟨a, z⟩ := az
      simp only [codeBlockOf]
      apply er_zipLines
      -- both texts end with a line break
      have e1 : removedText coloring isRemoval g = (removedText coloring isRemoval g).dropLast ++ ['\n'] := by
        unfold removedText; rw [List.dropLast_concat]
      have e2 : removedText false isRemoval g = (removedText false isRemoval g).dropLast ++ ['\n'] := by
        unfold removedText; rw [List.dropLast_concat]
      have hdl : Er (removedText coloring isRemoval g).dropLast (removedText false isRemoval g).dropLast := by
        unfold removedText
        rw [List.dropLast_concat, List.dropLast_concat]
        refine ((Er.refl _).append ?_).append (Er.refl _)
        apply er_joinWith
        apply erL_map
        intro l
        have h1 := Er.colOpt _ (colSpan_opt coloring isRemoval)
        have h2 := Er.colOpt _ (colOff_opt coloring)
        have := (h1.append (Er.refl l)).append h2
        simpa [colSpan, colOff] using this
      have hn2 := removedText_nocr isRemoval g h
      have hn1 : ∀ c ∈ (removedText coloring isRemoval g).dropLast, c ≠ '\r' := by
        intro c hc
        rcases er_mem hdl c hc with h' | h'
        · exact hn2 c h'
        · exact h'.2.2
      unfold rustLines
      rw [e1, e2, rustLines_terminated _ [] hn1 (by simp), rustLines_terminated _ [] hn2 (by simp)]
      exact er_linesT hdl [] [] .nil
  unfold renderItem
  have hpl : colMarker false = [] := rfl
  have hpo : colOff false = [] := rfl
  rw [hpl, hpo]
  have A := (Er.refl ((List.replicate g.startTabs tabspace).flatten ++ List.replicate g.startPad ' ')).append hm
  have B := ((A.append (Er.refl strMarkerStart)).append ho).append (Er.refl ['\n'])
  have C := (B.append (er_replaceTabs hcode)).append
    (Er.refl ((List.replicate g.endTabs tabspace).flatten ++ List.replicate g.endPad ' '))
  have D := ((C.append hm).append (Er.refl strMarkerEnd)).append ho
  simpa [List.append_assoc] using D

/-! ### the plain item contains an escape character only if the source does -/

def NoEsc (l : List Char) : Prop := ∀ c ∈ l, c ≠ '\x1b'

instance (l : List Char) : Decidable (NoEsc l) := by unfold NoEsc; exact inferInstance

theorem NoEsc.append {a b : List Char} (h1 : NoEsc a) (h2 : NoEsc b) : NoEsc (a ++ b) := by
  intro c hc
  rcases List.mem_append.mp hc with h | h
  · exact h1 c h
  · exact h2 c h

theorem noEsc_replicate (n : Nat) (d : Char) (hd : d ≠ '\x1b') : NoEsc (List.replicate n d) := by
  intro c hc
  rw [List.mem_replicate] at hc
  rw [hc.2]; exact hd

theorem noEsc_tabs (n : Nat) : NoEsc (List.replicate n tabspace).flatten := by
  intro c hc
  rw [List.mem_flatten] at hc
  obtain ⟨l, hl, hcl⟩ := hc
  rw [List.mem_replicate] at hl
  rw [hl.2] at hcl
  revert c
  decide

theorem noEsc_digits (n : Nat) : NoEsc (natToDigits n) := by
  intro c hc
  unfold natToDigits at hc
  rw [Nat.toString_eq_ofList_toDigits] at hc
  simp only [String.toList_ofList] at hc
  have := Nat.isDigit_of_mem_toDigits (by decide) (by decide) hc
  intro h
  subst h
  revert this
  decide

theorem noEsc_lineColumn (i : Nat) : NoEsc (lineColumn i) := by
  unfold lineColumn
  exact ((noEsc_replicate _ ' ' (by decide)).append (noEsc_digits i)).append (by decide)

theorem noEsc_replaceTabs : ∀ (l : List Char), NoEsc l → NoEsc (replaceTabs l)
  | [], _ => by simp [replaceTabs, NoEsc]
  | c :: cs, h => by
    simp only [replaceTabs]
    have ih := noEsc_replaceTabs cs (fun d hd => h d (by simp [hd]))
    split
    · exact NoEsc.append (by decide) ih
    · intro d hd
      rcases List.mem_cons.mp hd with rfl | hd
      · exact h d (by simp)
      · exact ih d hd

theorem noEsc_rustLines (s : List Char) (h : NoEsc s) : ∀ l ∈ rustLines s, NoEsc l := by
  intro l hl c hc
  unfold rustLines at hl
  obtain ⟨l1, hl1, rfl⟩ := List.mem_map.mp hl
  have := stripLineEnd_subset l1 c hc
  rcases rustLines_mem _ _ l1 hl1 c this with h' | h'
  · exact h c h'
  · simp at h'

theorem noEsc_zipLines : ∀ (nums : List Nat) (ls : List (List Char)), (∀ l ∈ ls, NoEsc l) → NoEsc (zipLines nums ls)
  | [], _, _ => by simp [zipLines, NoEsc]
  | _ :: is, [], _ => by simp only [zipLines]; exact noEsc_zipLines is [] (by simp)
  | i :: is, l :: ls, h => by
    simp only [zipLines]
    exact (((noEsc_lineColumn i).append (h l (by simp))).append (by decide)).append
      (noEsc_zipLines is ls (fun l' hl' => h l' (by simp [hl'])))

theorem noEsc_joinWith (sep : List Char) (hs : NoEsc sep) (A : List (List Char)) (h : ∀ l ∈ A, NoEsc l) :
    NoEsc (joinWith sep A) := by
  intro c hc
  rcases joinWith_mem sep A c hc with h' | ⟨l, hl, hcl⟩
  · exact hs c h'
  · exact h l hl c hcl

theorem noEsc_renderItem (isRemoval : Bool) (lineRange : Option (Nat × Nat)) (g : ItemGeom)
    (h : ∀ c, c ∈ charsOf g.pre ∨ c ∈ charsOf g.mid ∨ c ∈ charsOf g.post → c ≠ '\x1b') :
    NoEsc (renderItem false isRemoval lineRange g) := by
  have hrem : NoEsc (removedText false isRemoval g) := by
    unfold removedText
    have hp1 : NoEsc (charsOf g.pre) := fun c hc => h c (Or.inl hc)
    have hp3 : NoEsc (charsOf g.post) := fun c hc => h c (Or.inr (Or.inr hc))
    refine ((hp1.append ?_).append hp3).append (by decide)
    apply noEsc_joinWith _ (by decide)
    intro l hl
    obtain ⟨l0, hl0, rfl⟩ := List.mem_map.mp hl
    have : NoEsc l0 := noEsc_rustLines _ (fun c hc => h c (Or.inr (Or.inl hc))) l0 hl0
    simpa [colSpan, colOff] using this
  have hcode : NoEsc (codeBlockOf lineRange (removedText false isRemoval g)) := by
    cases lineRange with
    | none => exact hrem
    | some az => exact noEsc_zipLines _ _ (noEsc_rustLines _ hrem)
  unfold renderItem
  have hpl : colMarker false = [] := rfl
  have hpo : colOff false = [] := rfl
  rw [hpl, hpo]
  have e1 : NoEsc strMarkerStart := by decide
  have e2 : NoEsc strMarkerEnd := by decide
  have e0 : NoEsc ([] : List Char) := by simp [NoEsc]
  have e3 : NoEsc ['\n'] := by decide
  exact (((((((((((noEsc_tabs _).append (noEsc_replicate _ ' ' (by decide))).append e0).append e1).append e0).append e3).append
    (noEsc_replaceTabs _ hcode)).append (noEsc_tabs _)).append (noEsc_replicate _ ' ' (by decide))).append e0).append e2).append e0

end Chiritori
