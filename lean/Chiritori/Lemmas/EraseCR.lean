import Chiritori.Lemmas.Erase
/-
  Colour codes and carriage returns.  `str::lines` strips a carriage return only when it stands directly in front of
  the line break; a colour code between the two hides it (defect D17).  With no colour code directly behind a
  carriage return (`NoCrEsc`), splitting into lines still commutes with inserting colour codes
  (`er_rustLines_cr`), and the coloured item is the plain item with colour codes inserted also for CR LF texts
  (`er_renderItem_cr`).
-/
namespace Chiritori

/-- no carriage return is directly followed by an escape character -/
def NoCrEsc : List Char → Prop
  | [] => True
  | [_] => True
  | a :: b :: rest => ¬(a = '\r' ∧ b = '\x1b') ∧ NoCrEsc (b :: rest)

theorem NoCrEsc_tail (a : Char) (l : List Char) (h : NoCrEsc (a :: l)) : NoCrEsc l := by
  cases l with
  | nil => trivial
  | cons b rest => exact h.2

theorem NoCrEsc_of_noEsc : ∀ (l : List Char), (∀ c ∈ l, c ≠ '\x1b') → NoCrEsc l
  | [], _ => trivial
  | [_], _ => trivial
  | a :: b :: rest, h =>
    ⟨fun hh => h b (by simp) hh.2, NoCrEsc_of_noEsc (b :: rest) (fun c hc => h c (by simp [hc]))⟩

theorem NoCrEsc_append : ∀ (a b : List Char), NoCrEsc a → NoCrEsc b →
    (a.getLast? = some '\r' → b.head? ≠ some '\x1b') → NoCrEsc (a ++ b)
  | [], b, _, hb, _ => by simpa using hb
  | [x], [], _, _, _ => trivial
  | [x], y :: ys, _, hb, hj => by
    refine ⟨?_, hb⟩
    rintro ⟨rfl, rfl⟩
    exact hj (by simp) (by simp)
  | x :: y :: rest, b, ha, hb, hj => by
    refine ⟨ha.1, ?_⟩
    have := NoCrEsc_append (y :: rest) b ha.2 hb (by
      intro h; apply hj
      rw [List.getLast?_cons_cons]; exact h)
    simpa using this

theorem NoCrEsc_left : ∀ (a b : List Char), NoCrEsc (a ++ b) → NoCrEsc a
  | [], _, _ => trivial
  | [_], _, _ => trivial
  | x :: y :: rest, b, h => ⟨h.1, NoCrEsc_left (y :: rest) b h.2⟩

theorem NoCrEsc_right : ∀ (a b : List Char), NoCrEsc (a ++ b) → NoCrEsc b
  | [], _, h => by simpa using h
  | x :: rest, b, h => NoCrEsc_right rest b (NoCrEsc_tail x _ h)

theorem col_head_esc (k : List Char) (hk : IsCol k) : ∃ t, k = '\x1b' :: t := by
  rcases hk with rfl | rfl | rfl | rfl <;> exact ⟨_, rfl⟩

theorem col_last (k : List Char) (hk : IsCol k) : ∃ t, k = t ++ ['m'] := by
  rcases hk with rfl | rfl | rfl | rfl
  · exact ⟨['\x1b', '[', '3', '2'], rfl⟩
  · exact ⟨['\x1b', '[', '3', '1'], rfl⟩
  · exact ⟨['\x1b', '[', '3', '3'], rfl⟩
  · exact ⟨['\x1b', '[', '0'], rfl⟩

theorem er_nil_head {y : List Char} (h : Er y []) : y = [] ∨ y.head? = some '\x1b' := by
  generalize hx : ([] : List Char) = x at h
  induction h with
  | nil => exact Or.inl rfl
  | keep c _ _ => cases hx
  | skip k hk _ _ =>
    obtain ⟨t, rfl⟩ := col_head_esc k hk
    exact Or.inr rfl

/-- the plain text ends with a carriage return: so does the coloured one, when no colour code follows a CR -/
theorem er_snoc_cr {y x : List Char} (h : Er y x) : ∀ x0, x = x0 ++ ['\r'] → NoCrEsc y →
    ∃ y0, y = y0 ++ ['\r'] ∧ Er y0 x0 := by
  induction h with
  | nil => intro x0 hx; simp at hx
  | keep c hyx ih =>
    rename_i y x
    intro x0 hx hn
    cases x0 with
    | nil =>
      simp only [List.nil_append, List.cons.injEq] at hx
      obtain ⟨rfl, rfl⟩ := hx
      rcases er_nil_head hyx with rfl | hh
      · exact ⟨[], rfl, .nil⟩
      · cases y with
        | nil => simp at hh
        | cons b rest =>
          simp only [List.head?_cons, Option.some.injEq] at hh
          subst hh
          exact absurd ⟨rfl, rfl⟩ hn.1
    | cons d x0' =>
      simp only [List.cons_append, List.cons.injEq] at hx
      obtain ⟨rfl, rfl⟩ := hx
      obtain ⟨y0, rfl, hy0⟩ := ih x0' rfl (NoCrEsc_tail _ _ hn)
      exact ⟨c :: y0, rfl, .keep c hy0⟩
  | skip k hk _ ih =>
    intro x0 hx hn
    obtain ⟨y0, rfl, hy0⟩ := ih x0 hx (NoCrEsc_right k _ hn)
    exact ⟨k ++ y0, by simp, .skip k hk hy0⟩

theorem er_of_nil {y x : List Char} (h : Er y x) : y = [] → x = [] := by
  induction h with
  | nil => intro _; rfl
  | keep c _ _ => intro hh; cases hh
  | skip k hk _ _ =>
    intro hh
    obtain ⟨t, rfl⟩ := col_head_esc k hk
    simp at hh

/-- the coloured text ends with a carriage return: so does the plain one -/
theorem er_snoc_inv {y x : List Char} (h : Er y x) : ∀ y0, y = y0 ++ ['\r'] → ∃ x0, x = x0 ++ ['\r'] ∧ Er y0 x0 := by
  induction h with
  | nil => intro y0 hy; simp at hy
  | keep c hyx ih =>
    rename_i y x
    intro y0 hy
    cases y0 with
    | nil =>
      simp only [List.nil_append, List.cons.injEq] at hy
      obtain ⟨rfl, rfl⟩ := hy
      have := er_of_nil hyx rfl
      subst this
      exact ⟨[], rfl, .nil⟩
    | cons d y0' =>
      simp only [List.cons_append, List.cons.injEq] at hy
      obtain ⟨rfl, rfl⟩ := hy
      obtain ⟨x0, rfl, hx0⟩ := ih y0' rfl
      exact ⟨c :: x0, rfl, .keep c hx0⟩
  | skip k hk hyx ih =>
    rename_i y x
    intro y0 hy
    -- `k ++ y = y0 ++ ['\r']`: the colour code ends with `m`, so `y` is not empty
    cases y with
    | nil =>
      obtain ⟨t, rfl⟩ := col_last k hk
      simp only [List.append_nil] at hy
      have := List.append_inj_right' hy rfl
      simp at this
    | cons b rest =>
      rcases List.eq_nil_or_concat (b :: rest) with hnil | ⟨L, z, hL⟩
      · cases hnil
      · rw [hL, List.concat_eq_append, ← List.append_assoc] at hy
        have hz := List.append_inj_right' hy rfl
        have hy0 := List.append_inj_left' hy rfl
        simp only [List.cons.injEq, and_true] at hz
        subst hz
        rw [hL, List.concat_eq_append] at ih
        obtain ⟨x0, rfl, hx0⟩ := ih L rfl
        exact ⟨x0, rfl, by rw [← hy0]; exact .skip k hk hx0⟩

/-! ### lines with their carriage returns stripped -/

def stripCR (l : List Char) : List Char := if l.getLast? = some '\r' then l.dropLast else l

theorem stripLineEnd_piece (w : List Char) : stripLineEnd (w ++ ['\n']) = stripCR w := by
  unfold stripLineEnd stripCR
  have h1 : (w ++ ['\n']).getLast? = some '\n' := by simp
  rw [h1]
  simp only [List.dropLast_concat]
  split
  · rename_i h; rw [if_pos h]
  · rename_i h
    rw [if_neg]
    intro hh
    exact h hh

theorem rustLines_terminated_cr : ∀ (y cur : List Char),
    (splitInclusive (y ++ ['\n']) cur).map stripLineEnd = (linesT y cur).map stripCR
  | [], cur => by
    simp only [List.nil_append, splitInclusive, linesT, if_true, List.map_cons, List.map_nil, stripLineEnd_piece]
  | c :: cs, cur => by
    simp only [List.cons_append, splitInclusive, linesT]
    split
    · rename_i hcn
      subst hcn
      simp only [List.map_cons, stripLineEnd_piece, rustLines_terminated_cr cs []]
    · exact rustLines_terminated_cr cs (cur ++ [c])

theorem linesT_noCrEsc : ∀ (y cur : List Char), NoCrEsc (cur ++ y) → ∀ l ∈ linesT y cur, NoCrEsc l
  | [], cur, h, l, hl => by
    simp only [linesT, List.mem_singleton] at hl
    subst hl; simpa using h
  | c :: cs, cur, h, l, hl => by
    simp only [linesT] at hl
    split at hl
    · rcases List.mem_cons.mp hl with rfl | hl
      · exact NoCrEsc_left _ _ h
      · exact linesT_noCrEsc cs [] (by
          have := NoCrEsc_right (cur ++ [c]) cs (by simpa using h)
          simpa using this) l hl
    · exact linesT_noCrEsc cs (cur ++ [c]) (by simpa using h) l hl

theorem er_stripCR {a b : List Char} (h : Er a b) (hn : NoCrEsc a) : Er (stripCR a) (stripCR b) := by
  unfold stripCR
  by_cases hb : b.getLast? = some '\r'
  · rw [if_pos hb]
    rcases List.eq_nil_or_concat b with rfl | ⟨b0, z, rfl⟩
    · simp at hb
    · simp only [List.concat_eq_append, List.getLast?_concat, Option.some.injEq] at hb
      subst hb
      obtain ⟨a0, rfl, h0⟩ := er_snoc_cr h b0 (by simp) hn
      simp only [List.concat_eq_append, List.getLast?_concat, ite_true, List.dropLast_concat]
      exact h0
  · rw [if_neg hb]
    by_cases ha : a.getLast? = some '\r'
    · exfalso
      rcases List.eq_nil_or_concat a with rfl | ⟨a0, z, rfl⟩
      · simp at ha
      · simp only [List.concat_eq_append, List.getLast?_concat, Option.some.injEq] at ha
        subst ha
        obtain ⟨x0, rfl, _⟩ := er_snoc_inv h a0 (by simp)
        simp at hb
    · rw [if_neg ha]; exact h

theorem erL_stripCR : ∀ (A B : List (List Char)), ErL A B → (∀ a ∈ A, NoCrEsc a) →
    ErL (A.map stripCR) (B.map stripCR)
  | [], [], _, _ => trivial
  | [], _ :: _, h, _ => absurd h (by simp [ErL])
  | _ :: _, [], h, _ => absurd h (by simp [ErL])
  | a :: as, b :: bs, h, hn =>
    ⟨er_stripCR h.1 (hn a (by simp)), erL_stripCR as bs h.2 (fun x hx => hn x (by simp [hx]))⟩

/-- splitting into lines commutes with inserting colour codes, carriage returns included, as long as no colour
    code stands directly behind a carriage return -/
theorem er_rustLines_cr {y x : List Char} (h : Er y x) (hn : NoCrEsc y) :
    ErL (rustLines (y ++ ['\n'])) (rustLines (x ++ ['\n'])) := by
  unfold rustLines
  rw [rustLines_terminated_cr, rustLines_terminated_cr]
  exact erL_stripCR _ _ (er_linesT h [] [] .nil) (linesT_noCrEsc y [] (by simpa using hn))

/-! ### the item -/

theorem NoCrEsc_col (k : List Char) (hk : IsCol k) : NoCrEsc k := by
  rcases hk with rfl | rfl | rfl | rfl <;>
    simp [NoCrEsc, colGreen, colRed, colYellow, colReset]

theorem NoCrEsc_colOpt (k : List Char) (hk : IsColOpt k) : NoCrEsc k := by
  rcases hk with hk | rfl
  · exact NoCrEsc_col k hk
  · trivial

theorem NoCrEsc_wrap (k1 k2 l : List Char) (hk1 : IsColOpt k1) (hk2 : IsColOpt k2)
    (h1 : ∀ c ∈ l, c ≠ '\x1b') (h2 : l.getLast? ≠ some '\r') : NoCrEsc (k1 ++ l ++ k2) := by
  refine NoCrEsc_append _ _ (NoCrEsc_append _ _ (NoCrEsc_colOpt k1 hk1) (NoCrEsc_of_noEsc l h1) ?_) (NoCrEsc_colOpt k2 hk2) ?_
  · intro _
    cases l with
    | nil => simp
    | cons c cs => simp only [List.head?_cons, ne_eq, Option.some.injEq]; exact h1 c (by simp)
  · intro hh
    exfalso
    rcases List.eq_nil_or_concat l with rfl | ⟨l0, z, rfl⟩
    · simp only [List.append_nil] at hh
      rcases hk1 with hk | rfl
      · obtain ⟨t, rfl⟩ := col_last k1 hk
        simp at hh
      · simp at hh
    · simp only [List.concat_eq_append, ← List.append_assoc, List.getLast?_concat, Option.some.injEq] at hh
      subst hh
      simp at h2

theorem NoCrEsc_joinWrap (k1 k2 : List Char) (hk1 : IsColOpt k1) (hk2 : IsColOpt k2) :
    ∀ (Ls : List (List Char)), (∀ l ∈ Ls, (∀ c ∈ l, c ≠ '\x1b') ∧ l.getLast? ≠ some '\r') →
    NoCrEsc (joinWith ['\n'] (Ls.map fun l => k1 ++ l ++ k2))
  | [], _ => trivial
  | [l], h => by
    obtain ⟨h1, h2⟩ := h l (by simp)
    simp only [List.map_cons, List.map_nil, joinWith]
    exact NoCrEsc_wrap k1 k2 l hk1 hk2 h1 h2
  | l :: l2 :: rest, h => by
    have ih := NoCrEsc_joinWrap k1 k2 hk1 hk2 (l2 :: rest) (fun x hx => h x (by simp [hx]))
    obtain ⟨h1, h2⟩ := h l (by simp)
    have h0 := NoCrEsc_wrap k1 k2 l hk1 hk2 h1 h2
    simp only [List.map_cons, joinWith] at ih ⊢
    refine NoCrEsc_append _ _ (NoCrEsc_append _ _ h0 (by trivial) (by simp)) ih ?_
    intro hh
    simp at hh

theorem joinWrap_head (k1 k2 : List Char) (Ls : List (List Char)) (hne : Ls ≠ []) (t : List Char) (hk1 : k1 = '\x1b' :: t) :
    (joinWith ['\n'] (Ls.map fun l => k1 ++ l ++ k2)).head? = some '\x1b' := by
  cases Ls with
  | nil => exact absurd rfl hne
  | cons l rest =>
    cases rest with
    | nil => simp [joinWith, hk1]
    | cons l2 r2 => simp [joinWith, hk1]

theorem joinWrap_last (k1 k2 : List Char) (Ls : List (List Char)) (hne : Ls ≠ []) (t : List Char) (hk2 : k2 = t ++ ['m']) :
    (joinWith ['\n'] (Ls.map fun l => k1 ++ l ++ k2)).getLast? = some 'm' := by
  induction Ls with
  | nil => exact absurd rfl hne
  | cons l rest ih =>
    cases rest with
    | nil => simp [joinWith, hk2, ← List.append_assoc]
    | cons l2 r2 =>
      have := ih (by simp)
      simp only [List.map_cons, joinWith] at this ⊢
      rw [List.getLast?_append, this]
      rfl

/-- the coloured item is the plain item with colour codes inserted - CR LF texts included - provided the text has
    no escape character, the part of the first line in front of the region does not end with a carriage return
    (the region does not begin between CR and LF), and no line of the highlighted span ends with one (which is
    what the D17 repair guarantees for texts whose carriage returns all stand in front of a line break) -/
theorem er_renderItem_cr (coloring isRemoval : Bool) (lineRange : Option (Nat × Nat)) (g : ItemGeom)
    (hesc : ∀ c, c ∈ charsOf g.pre ∨ c ∈ charsOf g.mid ∨ c ∈ charsOf g.post → c ≠ '\x1b')
    (hpre : (charsOf g.pre).getLast? ≠ some '\r')
    (hmid : ∀ l ∈ rustLines (charsOf g.mid), l.getLast? ≠ some '\r') :
    Er (renderItem coloring isRemoval lineRange g) (renderItem false isRemoval lineRange g) := by
  have hm := Er.colOpt _ (colMarker_opt coloring)
  have ho := Er.colOpt _ (colOff_opt coloring)
  have hrem := er_removedText coloring isRemoval g
  have hcode : Er (codeBlockOf lineRange (removedText coloring isRemoval g))
      (codeBlockOf lineRange (removedText false isRemoval g)) := by
    cases lineRange with
    | none => exact hrem
    | some az =>
      obtain ⟨a, z⟩ := az
      simp only [codeBlockOf]
      apply er_zipLines
      have e1 : removedText coloring isRemoval g = (removedText coloring isRemoval g).dropLast ++ ['\n'] := by
        unfold removedText; rw [List.dropLast_concat]
      have e2 : removedText false isRemoval g = (removedText false isRemoval g).dropLast ++ ['\n'] := by
        unfold removedText; rw [List.dropLast_concat]
      have hdl : Er (removedText coloring isRemoval g).dropLast (removedText false isRemoval g).dropLast := by
        unfold removedText
        rw [List.dropLast_concat, List.dropLast_concat]
        refine ((Er.refl _).append ?_).append (Er.refl _)
        apply er_joinWith
        apply erL_map
        intro l
        have h1 := Er.colOpt _ (colSpan_opt coloring isRemoval)
        have h2 := Er.colOpt _ (colOff_opt coloring)
        have := (h1.append (Er.refl l)).append h2
        simpa [colSpan, colOff] using this
      -- no colour code directly behind a carriage return in the coloured text
      have hlines : ∀ l ∈ rustLines (charsOf g.mid), (∀ c ∈ l, c ≠ '\x1b') ∧ l.getLast? ≠ some '\r' := by
        intro l hl
        exact ⟨noEsc_rustLines _ (fun c hc => hesc c (Or.inr (Or.inl hc))) l hl, hmid l hl⟩
      have hJ := NoCrEsc_joinWrap (colSpan coloring isRemoval) (colOff coloring) (colSpan_opt coloring isRemoval)
        (colOff_opt coloring) (rustLines (charsOf g.mid)) hlines
      have hn1 : NoCrEsc (removedText coloring isRemoval g).dropLast := by
        unfold removedText
        rw [List.dropLast_concat]
        have hP : NoCrEsc (charsOf g.pre) := NoCrEsc_of_noEsc _ (fun c hc => hesc c (Or.inl hc))
        have hQ : NoCrEsc (charsOf g.post) := NoCrEsc_of_noEsc _ (fun c hc => hesc c (Or.inr (Or.inr hc)))
        refine NoCrEsc_append _ _ (NoCrEsc_append _ _ hP hJ (fun hh => absurd hh hpre)) hQ ?_
        intro _
        cases hq : charsOf g.post with
        | nil => simp
        | cons c cs =>
          simp only [List.head?_cons, ne_eq, Option.some.injEq]
          exact hesc c (Or.inr (Or.inr (by rw [hq]; simp)))
      unfold rustLines at *
      rw [e1, e2]
      exact er_rustLines_cr hdl hn1
  unfold renderItem
  have hpl : colMarker false = [] := rfl
  have hpo : colOff false = [] := rfl
  rw [hpl, hpo]
  have A := (Er.refl ((List.replicate g.startTabs tabspace).flatten ++ List.replicate g.startPad ' ')).append hm
  have B := ((A.append (Er.refl strMarkerStart)).append ho).append (Er.refl ['\n'])
  have C := (B.append (er_replaceTabs hcode)).append
    (Er.refl ((List.replicate g.endTabs tabspace).flatten ++ List.replicate g.endPad ' '))
  have D := ((C.append hm).append (Er.refl strMarkerEnd)).append ho
  simpa [List.append_assoc] using D

end Chiritori
