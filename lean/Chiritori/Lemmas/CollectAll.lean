import Chiritori.Lemmas.Totality
/-
  `collect_removable_ranges(.., collect_pending_removals = true)`: the Ready tree is the one `clean` uses,
  and the Pending tree is geometrically well formed too.
-/
namespace Chiritori
open Spec

mutual
theorem collect_ready_indep (cfg : Cfg) (b : Bytes) : ∀ (parts : List Part),
    (collect cfg b true parts).1 = (collect cfg b false parts).1
  | [] => rfl
  | p :: ps => by
    simp only [collect]
    rw [collectPart_ready_indep cfg b p, collect_ready_indep cfg b ps]
theorem collectPart_ready_indep (cfg : Cfg) (b : Bytes) : ∀ (p : Part),
    (collectPart cfg b true p).1 = (collectPart cfg b false p).1
  | .text _ => rfl
  | .element el st en ch => by
    have ih := collect_ready_indep cfg b ch
    simp only [collectPart]
    rw [elementRange_eq cfg b true, elementRange_eq cfg b false]
    cases he : (createRange b el st en).1.isEmpty with
    | true => simpa using ih
    | false =>
      cases hc : conditionHolds cfg el with
      | true => simp [ih]
      | false =>
        cases hp : conditionPending cfg el <;> simpa using ih
end

/-- a node built from a non-empty `createRange` pair over well-placed children is well placed -/
theorem node_geo (b : Bytes) (el : Element) (st en : Token) (lo mid hi : Nat) (ch : List RTree)
    (hst : st.bstart = lo) (hst2 : st.bstart < st.bstop) (hmid : st.bstop ≤ mid) (hen1 : en.bstart = mid)
    (hen2 : en.bstart < en.bstop) (hen3 : en.bstop = hi) (hlen : hi ≤ b.length)
    (hne : (createRange b el st en).1.isEmpty = false) (gch : RGeo ch st.bstop mid) :
    RTreeGeo (.node (createRange b el st en).1 (createRange b el st en).2 ch) lo hi := by
  cases hcr : createRange b el st en with
  | mk r p =>
    rw [hcr] at hne
    simp only at hne ⊢
    have hgeo := createRange_geo b el st en r p hst2 (by omega) hen2 (by omega) hcr hne
    cases p with
    | none =>
      simp only at hgeo
      simp only [RTreeGeo]
      rw [hgeo]
      exact ⟨by simp; omega, by simp; omega, by simp; omega,
        RGeo_widen _ st.bstop mid _ _ gch (by simp; omega) (by simp; omega)⟩
    | some t =>
      simp only at hgeo
      obtain ⟨q1, q2, q3, q4, q5⟩ := hgeo
      simp only [RTreeGeo]
      exact ⟨by omega, by omega, q3, by omega, by omega, st.bstop, mid, by omega, by omega, by omega, by omega, gch⟩

theorem node_all (s : List Char) (el : Element) (st en : Token) (ch : List RTree)
    (hst : BPos (bytesOf s) st.bstart ∧ BPos (bytesOf s) st.bstop ∧ 0 < st.bstop)
    (hen : BPos (bytesOf s) en.bstart ∧ BPos (bytesOf s) en.bstop ∧ 0 < en.bstop)
    (hch : RAll (BPos (bytesOf s)) ch) :
    RTreeAll (BPos (bytesOf s)) (.node (createRange (bytesOf s) el st en).1 (createRange (bytesOf s) el st en).2 ch) := by
  simp only [RTreeAll]
  unfold createRange
  split
  · rw [buildUnwrap_eq (bytesOf s) st en hst.2.2 hen.1.2]
    cases hp : unwrapParts (bytesOf s) st en with
    | none => exact ⟨hst.1, hst.1, trivial, hch⟩
    | some ht =>
      obtain ⟨hh, tt⟩ := ht
      simp only
      obtain ⟨n1, n2, n3⟩ := unwrapParts_nl _ st en hh tt hp
      obtain ⟨g1, _, _, _, g5⟩ := unwrapParts_geo _ st en hh tt hp
      have b2 : BPos (bytesOf s) hh.2 :=
        ⟨boundary_after_lead s hh.2 _ n1, by have := lt_of_getElem?_some _ _ _ n1; omega⟩
      have b3 : BPos (bytesOf s) tt.1 := by
        have := nl_next_boundary s (tt.1 - 1) n3
        rw [show tt.1 - 1 + 1 = tt.1 by omega] at this
        exact ⟨this.1, by simp; exact this.2⟩
      exact ⟨by rw [g1]; exact hst.1, b2, ⟨b3, by rw [g5]; exact hen.2.1⟩, hch⟩
  · simp only [buildRange]
    exact ⟨hst.1, hen.2.1, trivial, hch⟩

mutual
theorem collect_pending_geo (cfg : Cfg) (b : Bytes) : ∀ (parts : List Part) (lo hi : Nat),
    BSpan (flattenParts parts) lo hi → hi ≤ b.length → RGeo (collect cfg b true parts).2 lo hi
  | [], lo, hi, hs, _ => by
    simp only [flattenParts, BSpan] at hs
    simp only [collect, RGeo]; omega
  | p :: ps, lo, hi, hs, hlen => by
    simp only [flattenParts, BSpan_append] at hs
    obtain ⟨mid, hs1, hs2⟩ := hs
    have hmid := BSpan_le _ mid hi hs2
    simp only [collect]
    exact RGeo_append _ _ lo mid hi (collectPart_pending_geo cfg b p lo mid hs1 (by omega))
      (collect_pending_geo cfg b ps mid hi hs2 hlen)
theorem collectPart_pending_geo (cfg : Cfg) (b : Bytes) : ∀ (p : Part) (lo hi : Nat),
    BSpan (flattenPart p) lo hi → hi ≤ b.length → RGeo (collectPart cfg b true p).2 lo hi
  | .text t, lo, hi, hs, _ => by
    have := BSpan_le _ lo hi hs
    simpa [collectPart, RGeo] using this
  | .element el st en ch, lo, hi, hs, hlen => by
    simp only [flattenPart, List.cons_append, BSpan, BSpan_append] at hs
    obtain ⟨hst, hst2, mid, hch, hen1, hen2, hen3⟩ := hs
    have hmid := BSpan_le _ st.bstop mid hch
    have gch := collect_pending_geo cfg b ch st.bstop mid hch (by omega)
    have hw := RGeo_widen _ st.bstop mid lo hi gch (by omega) (by omega)
    simp only [collectPart]
    rw [elementRange_eq cfg b true]
    cases he : (createRange b el st en).1.isEmpty with
    | true => simpa using hw
    | false =>
      cases hc : conditionHolds cfg el with
      | true => simpa using hw
      | false =>
        cases hp : conditionPending cfg el with
        | false => simpa using hw
        | true =>
          simp only [Bool.false_eq_true, ite_false, Bool.and_self, ite_true]
          simp only [RGeo]
          exact ⟨hi, node_geo b el st en lo mid hi _ hst hst2 hmid hen1 hen2 hen3 hlen he gch, Nat.le_refl _⟩
end

mutual
theorem collect_pending_RAll (cfg : Cfg) (s : List Char) : ∀ (parts : List Part),
    (∀ t ∈ flattenParts parts, BPos (bytesOf s) t.bstart ∧ BPos (bytesOf s) t.bstop ∧ 0 < t.bstop) →
    RAll (BPos (bytesOf s)) (collect cfg (bytesOf s) true parts).2
  | [], _ => by simp [collect, RAll]
  | p :: ps, h => by
    simp only [collect]
    exact RAll_append _ _ _ (collectPart_pending_RAll cfg s p (fun t ht => h t (by simp [flattenParts, ht])))
      (collect_pending_RAll cfg s ps (fun t ht => h t (by simp [flattenParts, ht])))
theorem collectPart_pending_RAll (cfg : Cfg) (s : List Char) : ∀ (p : Part),
    (∀ t ∈ flattenPart p, BPos (bytesOf s) t.bstart ∧ BPos (bytesOf s) t.bstop ∧ 0 < t.bstop) →
    RAll (BPos (bytesOf s)) (collectPart cfg (bytesOf s) true p).2
  | .text _, _ => by simp [collectPart, RAll]
  | .element el st en ch, h => by
    have hst := h st (by simp [flattenPart])
    have hen := h en (by simp [flattenPart])
    have hch := collect_pending_RAll cfg s ch (fun t ht => h t (by simp [flattenPart, ht]))
    simp only [collectPart]
    rw [elementRange_eq cfg (bytesOf s) true]
    cases he : (createRange (bytesOf s) el st en).1.isEmpty with
    | true => simpa using hch
    | false =>
      cases hc : conditionHolds cfg el with
      | true => simpa using hch
      | false =>
        cases hp : conditionPending cfg el with
        | false => simpa using hch
        | true =>
          simp only [Bool.false_eq_true, ite_false, Bool.and_self, ite_true, RAll, and_true]
          exact node_all s el st en _ hst hen hch
end

end Chiritori
