import Chiritori.Spec.Holds
/-
  The recursive-descent parser: every token appears exactly once, in order.
-/
namespace Chiritori
open Spec

theorem flattenParts_append (a b : List Part) : flattenParts (a ++ b) = flattenParts a ++ flattenParts b := by
  induction a with
  | nil => simp [flattenParts]
  | cons p ps ih => simp [flattenParts, ih]

def closerTok : Option (Token × Element) → List Token
  | some (t, _) => [t]
  | none => []

/-- With enough fuel, `tree` partitions its input: parts, then the closer (if any), then the rest. -/
theorem tree_flatten (ds de : List Char) (fuel : Nat) (toks : List Token) (parents : List (List Char))
    (hf : toks.length < fuel) :
    let r := tree ds de fuel toks parents
    flattenParts r.parts ++ closerTok r.closer ++ r.rest = toks ∧ r.rest.length ≤ toks.length ∧
    (r.closer = none → r.rest = []) := by
  induction fuel generalizing toks parents with
  | zero => omega
  | succ fuel ih =>
    cases toks with
    | nil => simp [tree, flattenParts, closerTok]
    | cons t rest =>
      have hr : rest.length < fuel := by simp at hf; omega
      simp only [tree]
      cases hel : elparse ds de t with
      | none =>
        obtain ⟨h1, h2, h3⟩ := ih rest parents hr
        simp only
        refine ⟨?_, by simp; omega, h3⟩
        simp only [flattenParts, flattenPart, List.cons_append, List.nil_append]
        rw [h1]
      | some el =>
        simp only
        split
        · simp [flattenParts, closerTok]
        · obtain ⟨i1, i2, i3⟩ := ih rest (parents ++ [el.name]) hr
          cases hc : (tree ds de fuel rest (parents ++ [el.name])).closer with
          | none =>
            simp only
            have hrest := i3 hc
            obtain ⟨r1, r2, r3⟩ := ih (tree ds de fuel rest (parents ++ [el.name])).rest parents (by omega)
            rw [hc] at i1
            refine ⟨?_, by simp; omega, r3⟩
            simp only [flattenParts, flattenPart, List.cons_append, List.nil_append, flattenParts_append,
              List.append_assoc]
            rw [List.append_assoc] at r1
            rw [r1]
            simpa [closerTok] using i1
          | some ce =>
            obtain ⟨et, eel⟩ := ce
            simp only
            rw [hc] at i1
            split
            · obtain ⟨r1, r2, r3⟩ := ih (tree ds de fuel rest (parents ++ [el.name])).rest parents (by omega)
              refine ⟨?_, by simp; omega, r3⟩
              simp only [flattenParts, flattenPart, List.cons_append, List.append_assoc, List.nil_append]
              rw [List.append_assoc] at r1
              rw [r1]
              simpa [closerTok, List.append_assoc] using i1
            · refine ⟨?_, by simp; omega, by simp⟩
              simp only [flattenParts, flattenPart, List.cons_append, List.nil_append]
              simpa [closerTok, List.append_assoc] using i1

/-- At the top level no closer can be returned (no parent to match) -/
theorem tree_top_no_closer_aux (ds de : List Char) (fuel : Nat) (toks : List Token) (parents : List (List Char)) :
    ∀ et eel, (tree ds de fuel toks parents).closer = some (et, eel) → parents.any (· == trimSlashes eel.name) = true := by
  induction fuel generalizing toks parents with
  | zero => simp [tree]
  | succ fuel ih =>
    cases toks with
    | nil => simp [tree]
    | cons t rest =>
      intro et eel
      simp only [tree]
      cases hel : elparse ds de t with
      | none => simpa using ih rest parents et eel
      | some el =>
        simp only
        split
        · rename_i hcl
          intro h
          simp at h
          obtain ⟨_, h2⟩ := h
          subst h2
          exact hcl.2
        · cases hc : (tree ds de fuel rest (parents ++ [el.name])).closer with
          | none => simpa using ih _ parents et eel
          | some ce =>
            obtain ⟨et', eel'⟩ := ce
            simp only
            split
            · simpa using ih _ parents et eel
            · rename_i hne
              intro h
              simp at h
              obtain ⟨h1, h2⟩ := h
              subst h1; subst h2
              have := ih rest (parents ++ [el.name]) et' eel' hc
              simp only [List.any_append, List.any_cons, List.any_nil, Bool.or_false, Bool.or_eq_true,
                beq_iff_eq] at this
              rcases this with h | h
              · exact h
              · exact absurd h hne

/-- C10, last sentence: every token appears exactly once, in document order, in the tree. -/
theorem parse_flatten (ds de : List Char) (toks : List Token) : flattenParts (parse ds de toks) = toks := by
  unfold parse
  obtain ⟨h1, _, h3⟩ := tree_flatten ds de (toks.length + 1) toks [] (by omega)
  cases hc : (tree ds de (toks.length + 1) toks []).closer with
  | none =>
    rw [hc, h3 hc] at h1
    simpa [closerTok] using h1
  | some ce =>
    obtain ⟨et, eel⟩ := ce
    have := tree_top_no_closer_aux ds de (toks.length + 1) toks [] et eel hc
    simp at this

end Chiritori
