import Chiritori.Lemmas.FormatMerge
/-
  `occurInOrder` (the greedy matcher of C14) accepts every text in which the patterns occur in order as disjoint
  substrings; and deleting indices that avoid the patterns keeps them so.
-/
namespace Chiritori
open Spec

/-- the patterns occur in `s` in order, as disjoint substrings -/
inductive Embeds : List Bytes → Bytes → Prop
  | nil (s : Bytes) : Embeds [] s
  | cons (g t rest : Bytes) (ps : List Bytes) : Embeds ps rest → Embeds (t :: ps) (g ++ (t ++ rest))

theorem Embeds.prepend {ps : List Bytes} {s : Bytes} (z : Bytes) (h : Embeds ps s) : Embeds ps (z ++ s) := by
  cases h with
  | nil => exact .nil _
  | cons g t rest ps h =>
    rw [← List.append_assoc]
    exact .cons (z ++ g) t rest ps h

theorem isPrefixOf_append_self (p r : Bytes) : p.isPrefixOf (p ++ r) = true := by
  rw [List.isPrefixOf_iff_prefix]
  exact ⟨r, rfl⟩

/-- the first occurrence of a pattern lies at or before any occurrence -/
theorem findBytes_le (pat : Bytes) : ∀ (g r : Bytes), ∃ i, i ≤ g.length ∧ findBytes pat (g ++ (pat ++ r)) = some i
  | [], r => by
    refine ⟨0, Nat.le_refl _, ?_⟩
    simp only [List.nil_append]
    cases h : pat ++ r with
    | nil =>
      have : pat = [] := by
        cases pat with
        | nil => rfl
        | cons _ _ => simp at h
      simp [findBytes, this]
    | cons c cs =>
      simp only [findBytes]
      rw [← h, isPrefixOf_append_self]
      rfl
  | a :: g, r => by
    obtain ⟨i, hi, hf⟩ := findBytes_le pat g r
    simp only [List.cons_append, findBytes]
    by_cases hp : pat.isPrefixOf (a :: (g ++ (pat ++ r))) = true
    · exact ⟨0, Nat.zero_le _, by rw [if_pos hp]⟩
    · refine ⟨i + 1, by simp; omega, ?_⟩
      rw [if_neg hp, hf]
      rfl

theorem occurInOrder_of_embeds : ∀ (ps : List Bytes) (s : Bytes), Embeds ps s → occurInOrder ps s = true
  | [], _, _ => rfl
  | t :: ps, s, h => by
    cases h with
    | cons g t rest ps h =>
      obtain ⟨i, hi, hf⟩ := findBytes_le t g rest
      simp only [occurInOrder, hf]
      apply occurInOrder_of_embeds ps
      -- what follows the first occurrence ends with `rest`
      have e : g ++ (t ++ rest) = (g ++ t) ++ rest := by simp
      rw [e, List.drop_append_of_le_length (by simp; omega)]
      exact h.prepend _

/-! ### deletion that avoids the cores -/

/-- a text laid out as gaps and cores: `g₀ c₀ g₁ c₁ … tail` -/
def layoutBytes : List (Bytes × Bytes) → Bytes → Bytes
  | [], tail => tail
  | (g, c) :: rest, tail => g ++ (c ++ layoutBytes rest tail)

/-- no index of any core (counted from `off`) is deleted -/
def CoresKept (rs : List Rng) : List (Bytes × Bytes) → Nat → Prop
  | [], _ => True
  | (g, c) :: rest, off =>
    (∀ i, off + g.length ≤ i → i < off + g.length + c.length → inAny rs i = false) ∧
    CoresKept rs rest (off + g.length + c.length)

theorem embeds_minusFrom (rs : List Rng) : ∀ (segs : List (Bytes × Bytes)) (tail : Bytes) (off : Nat),
    CoresKept rs segs off → Embeds (segs.map (·.2)) (minusFrom (layoutBytes segs tail) off rs)
  | [], tail, off, _ => .nil _
  | (g, c) :: rest, tail, off, h => by
    obtain ⟨h1, h2⟩ := h
    simp only [layoutBytes, List.map_cons]
    rw [minusFrom_append, minusFrom_append, minusFrom_keep c _ rs h1]
    exact .cons _ c _ _ (by
      have := embeds_minusFrom rs rest tail (off + g.length + c.length) h2
      simpa [Nat.add_assoc] using this)

/-- dropping cores that are empty changes nothing -/
theorem Embeds.filter_nonempty : ∀ (ps : List Bytes) (s : Bytes), Embeds ps s → Embeds (ps.filter (· != [])) s
  | [], s, _ => .nil s
  | t :: ps, s, h => by
    cases h with
    | cons g t rest ps h =>
      have ih := Embeds.filter_nonempty ps rest h
      simp only [List.filter_cons]
      by_cases ht : t = []
      · subst ht
        simp only [bne_self_eq_false, Bool.false_eq_true, ite_false, List.nil_append]
        exact ih.prepend g
      · have : (t != []) = true := by simpa using ht
        rw [if_pos this]
        exact .cons g t rest _ ih

end Chiritori
