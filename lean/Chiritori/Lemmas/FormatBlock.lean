import Chiritori.Lemmas.FormatWs
/-
  The block indent remover, and the collection loop of `format`.
-/
namespace Chiritori

structure RangeOK (s : List Char) (r : Nat × Nat) : Prop where
  le : r.1 ≤ r.2
  len : r.2 ≤ blen s
  ws : WsRange (bytesOf s) r.1 r.2
  b1 : isBoundary (bytesOf s) r.1 = true
  b2 : isBoundary (bytesOf s) r.2 = true

theorem GoodRange.ok {s : List Char} {pos : Nat} {r : Nat × Nat} (g : GoodRange s pos r) : RangeOK s r :=
  ⟨by have := g.le1; have := g.le2; omega, g.len, g.ws, g.b1, g.b2⟩

theorem blockLoop_ok (s : List Char) (endPos ofs len fuel cur : Nat)
    (hb : cur ≤ blen s → isBoundary (bytesOf s) cur = true) :
    ∀ r ∈ blockLoop (bytesOf s) endPos ofs len fuel cur, RangeOK s r := by
  induction fuel generalizing cur with
  | zero => simp [blockLoop]
  | succ fuel ih =>
    intro r hr
    simp only [blockLoop] at hr
    split at hr
    · cases hlb : findNextLB (bytesOf s) cur false with
      | none => rw [hlb] at hr; simp at hr
      | some lb =>
        rw [hlb] at hr
        simp only at hr
        obtain ⟨l0, l1, l2, l3, _, _⟩ := findNextLB_some _ cur lb false hlb
        have hcurlt : cur < blen s := by simp at l2; omega
        have hbcur := hb (by omega)
        split at hr
        · simp at hr
        · rw [List.mem_append] at hr
          rcases hr with hr | hr
          · -- the range of this line
            cases hip : findNextChar (bytesOf s) cur with
            | none => rw [hip] at hr; simp at hr
            | some ip =>
              rw [hip] at hr
              simp only at hr
              split at hr
              · rename_i hne
                simp only [List.mem_singleton] at hr
                subst hr
                obtain ⟨_, c1, c2, c3, c4⟩ := findNextChar_some _ cur ip hip
                have hrun := skip_run_blank s cur ip hbcur c4
                have hiplen : ip ≤ blen s := by simp at c2; omega
                -- sub-runs end at boundaries
                have bnd : ∀ z, cur ≤ z → z ≤ ip → isBoundary (bytesOf s) z = true := by
                  intro z hz1 hz2
                  exact (skip_run_blank s cur z hbcur (fun i h1 h2 => c4 i h1 (by omega))).2 (by omega) hz1
                refine ⟨by omega, by simp only; omega, ?_, bnd _ (by omega) (by omega), bnd _ (by omega) (by omega)⟩
                exact WsRange_sub _ cur ip _ _ (WsRange_of_blank _ _ _ hrun.1) (by omega) (by omega)
              · simp at hr
          · exact ih (lb + 1) (fun _ => (nl_next_boundary s lb l3).1) r hr
    · simp at hr

theorem fmtBlockIndent_ok (s : List Char) (startPos endPos : Nat) :
    ∀ r ∈ fmtBlockIndent (bytesOf s) startPos endPos, RangeOK s r := by
  intro r hr
  unfold fmtBlockIndent at hr
  dsimp only at hr
  cases hf : ((bytesOf s).drop startPos).findIdx? (fun x => x == .lead '\n') with
  | none => rw [hf] at hr; simp at hr
  | some ofs =>
    rw [hf] at hr
    simp only at hr
    have hnl : (bytesOf s)[startPos + ofs]? = some (.lead '\n') := by
      have h1 := List.findIdx?_eq_some_iff_getElem.mp hf
      obtain ⟨hlt, hx, _⟩ := h1
      have : ((bytesOf s).drop startPos)[ofs]? = some (((bytesOf s).drop startPos)[ofs]) :=
        List.getElem?_eq_getElem hlt
      rw [List.getElem?_drop] at this
      rw [this]
      simp only [beq_iff_eq] at hx
      rw [hx]
    exact blockLoop_ok s endPos _ _ _ _ (fun _ => (nl_next_boundary s (startPos + ofs) hnl).1) r hr

/-- `format`'s collection loop: every seam range and every block range is fine, positions are boundaries -/
theorem formatCollect_ok (s : List Char) (all : List (Nat × Option Nat)) (ps : List (Nat × Option Nat))
    (rs bs : List (Nat × Nat))
    (h : formatCollect (bytesOf s) all ps = .ok (rs, bs)) :
    (∀ r ∈ rs, RangeOK s r) ∧ (∀ r ∈ bs, RangeOK s r) := by
  induction ps generalizing rs bs with
  | nil =>
    simp only [formatCollect] at h
    injection h with h
    injection h with h1 h2
    subst h1; subst h2
    simp
  | cons p ps ih =>
    obtain ⟨pos, pair⟩ := p
    simp only [formatCollect] at h
    cases hfb : formatBlock (bytesOf s) pos seamFormatters (pos, pos) with
    | error e => rw [hfb] at h; simp at h
    | ok range =>
      rw [hfb] at h
      simp only at h
      obtain ⟨_, g⟩ := formatBlock_good s pos range hfb
      split at h
      · simp at h
      · rename_i blk hB
        -- whatever the block part is, it only contributes fmtBlockIndent ranges
        have hblk : ∀ r ∈ blk, RangeOK s r := by
          cases pair with
          | none => simp at hB; subst hB; simp
          | some i =>
            simp only at hB
            cases hai : all[i]? with
            | none => rw [hai] at hB; simp at hB
            | some pp =>
              rw [hai] at hB
              obtain ⟨pairStart, q⟩ := pp
              simp only at hB
              split at hB
              · injection hB with hB; subst hB; exact fmtBlockIndent_ok s pos pairStart
              · injection hB with hB; subst hB; simp
        cases hrest : formatCollect (bytesOf s) all ps with
        | error e => rw [hrest] at h; simp at h
        | ok rb =>
          rw [hrest] at h
          obtain ⟨rs', bs'⟩ := rb
          simp only at h
          injection h with h
          injection h with h1 h2
          subst h1; subst h2
          obtain ⟨i1, i2⟩ := ih rs' bs' hrest
          refine ⟨?_, ?_⟩
          · intro r hr
            rcases List.mem_cons.mp hr with hr | hr
            · subst hr; exact g.ok
            · exact i1 r hr
          · intro r hr
            rcases List.mem_append.mp hr with hr | hr
            · exact hblk r hr
            · exact i2 r hr

end Chiritori
