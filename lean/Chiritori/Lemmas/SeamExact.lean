import Chiritori.Lemmas.FindersIntro
/-
  The four seam formatters in closed form at a block-style seam: position `pos` holds the line break that ends a
  line consisting of blanks only (`[ls, pos)`, possibly empty), and that line is not the first of the text.
-/
namespace Chiritori

/-- the residual line of a block-style removal: blanks `[ls, pos)`, the line break at `pos`, a line break before `ls` -/
structure BlockSeam (b : Bytes) (ls pos : Nat) : Prop where
  two : 2 ≤ ls
  le : ls ≤ pos
  nl : b[pos]? = some (.lead '\n')
  ind : ∀ i, ls ≤ i → i < pos → ∃ x, b[i]? = some x ∧ isSkipByte x
  before : b[ls - 1]? = some (.lead '\n')

namespace BlockSeam
variable {b : Bytes} {ls pos : Nat}

theorem lt_len (h : BlockSeam b ls pos) : pos < b.length := lt_of_getElem?_some _ _ _ h.nl

theorem boundary (h : BlockSeam b ls pos) : isBoundary b pos = true := by
  unfold isBoundary; rw [h.nl]; simp

theorem byteIs_nl (h : BlockSeam b ls pos) : byteIs b pos '\n' = true := by
  unfold byteIs; rw [h.nl]; simp

theorem next_self (h : BlockSeam b ls pos) : findNextLB b pos true = some pos :=
  findNextLB_intro b pos pos true (by have := h.two; have := h.le; omega) (Nat.le_refl _)
    (fun i h1 h2 => by omega) h.nl

theorem prev_line (h : BlockSeam b ls pos) : findPrevLB b pos true = some (ls - 1) :=
  findPrevLB_intro b pos (ls - 1) true (by have := h.two; omega) (by have := h.two; have := h.le; omega)
    (by have := h.lt_len; omega) (fun i h1 h2 => h.ind i (by omega) h2) h.before

theorem indent (h : BlockSeam b ls pos) : fmtIndent b pos = .ok (ls, pos) := by
  unfold fmtIndent
  rw [if_neg (by simp [h.boundary, h.byteIs_nl]; exact h.lt_len)]
  have hle : pos ≤ b.length := by have := h.lt_len; omega
  rw [indentScan_intro (pos - ls) _ pos (by have := h.two; have := h.le; omega)]
  · simp only [Except.ok.injEq, Prod.mk.injEq, and_true]
    have := h.le; omega
  · intro i hi
    rw [rev_take_getElem? b pos i hle (by omega)]
    exact h.ind (pos - 1 - i) (by omega) (by omega)
  · rw [rev_take_getElem? b pos _ hle (by have := h.two; have := h.le; omega), show pos - 1 - (pos - ls) = ls - 1 by have := h.le; have := h.two; omega]
    exact h.before

theorem empty (h : BlockSeam b ls pos) :
    fmtEmpty b pos = .ok (if (findNextLB b (pos + 1) true).isNone ∧ (findPrevLB b (ls - 1) true).isNone
      then (pos, pos + 1) else (pos, pos)) := by
  unfold fmtEmpty
  simp only [h.boundary, h.byteIs_nl, Bool.not_true, Bool.false_eq_true, ite_false, h.next_self, h.prev_line,
    Option.bind_some]
  split <;> rfl

theorem prev (h : BlockSeam b ls pos) :
    fmtPrev b pos = .ok (match findPrevLB b (ls - 1) true with | some lb => (lb + 1, pos) | none => (pos, pos)) := by
  unfold fmtPrev
  simp only [h.prev_line, Option.bind_some]
  cases findPrevLB b (ls - 1) true <;> rfl

theorem next (h : BlockSeam b ls pos) :
    fmtNext b pos = .ok (match findNextLB b (pos + 1) true with | some lb => (pos, lb) | none => (pos, pos)) := by
  unfold fmtNext
  simp only [h.next_self, Option.bind_some]
  cases findNextLB b (pos + 1) true <;> rfl

/-- the hull of the four formatters in terms of the two look-arounds -/
theorem hull (h : BlockSeam b ls pos) :
    formatBlock b pos seamFormatters (pos, pos) = .ok
      (match findPrevLB b (ls - 1) true with | some lb => lb + 1 | none => ls,
       match findNextLB b (pos + 1) true with
       | some e => max e pos
       | none => match findPrevLB b (ls - 1) true with | some _ => pos | none => pos + 1) := by
  have hle := h.le
  simp only [seamFormatters, formatBlock, h.indent, h.empty, h.prev, h.next]
  cases hp : findPrevLB b (ls - 1) true with
  | none =>
    cases hn : findNextLB b (pos + 1) true with
    | none =>
      simp only [Option.isNone_none, and_self, ite_true, Except.ok.injEq, Prod.mk.injEq]
      omega
    | some e =>
      simp only [Option.isNone_some, Option.isNone_none, Bool.false_eq_true, false_and, ite_false, Except.ok.injEq,
        Prod.mk.injEq]
      omega
  | some lb =>
    obtain ⟨_, g2, _⟩ := findPrevLB_some _ _ _ _ hp
    cases hn : findNextLB b (pos + 1) true with
    | none =>
      simp only [Option.isNone_none, Option.isNone_some, Bool.false_eq_true, and_false, ite_false, Except.ok.injEq,
        Prod.mk.injEq]
      omega
    | some e =>
      simp only [Option.isNone_some, Bool.false_eq_true, and_self, ite_false, Except.ok.injEq, Prod.mk.injEq]
      omega

end BlockSeam

end Chiritori
