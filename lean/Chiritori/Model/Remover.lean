import Chiritori.Model.Parser
import Chiritori.Model.Finders
import Chiritori.Model.Time
/-
  Model of chiritori/src/code/remover.rs, the evaluators, the marker builders and the wiring of
  `build_remover` in chiritori.rs (after the D3, D6, D10, D12 repairs).
-/
namespace Chiritori

structure Cfg where
  tlName : List Char
  rmName : List Char
  now : Int                 -- floor of the current instant, Unix seconds
  nowNanos : Nat := 0
  offset : List Char
  targets : List (List Char)
  deriving Repr

abbrev Rng := Nat × Nat

def Rng.contains (r : Rng) (x : Nat) : Bool := decide (r.1 ≤ x) && decide (x < r.2)
def Rng.isEmpty (r : Rng) : Bool := decide (r.1 ≥ r.2)

structure Marker where
  start : Nat
  stop : Nat
  pair : Option Nat
  deriving DecidableEq, Repr, Inhabited

/-- `is_skip` -/
def isSkip (el : Element) : Bool := el.attrs.any fun a => a.name == "skip".toList

def firstAttr (el : Element) (n : List Char) : Option Attr := el.attrs.find? fun a => a.name == n

/-- `TimeLimitedEvaluator::is_removal` -/
def timeIsRemoval (cfg : Cfg) (el : Element) : Bool :=
  match firstAttr el "to".toList with
  | none => false
  | some a =>
    match a.value with
    | none => false
    | some v =>
      match chronoParse (v ++ [' '] ++ cfg.offset) with
      | none => false
      | some ex => !(instantLt (cfg.now, cfg.nowNanos) ex)

/-- `MarkerEvaluator::is_removal` -/
def markerIsRemoval (cfg : Cfg) (el : Element) : Bool :=
  match (firstAttr el "name".toList).bind (·.value) with
  | some v => cfg.targets.contains v
  | none => false

/-- the evaluator registry of `build_remover`: a `HashMap` filled by two `insert`s, the
    removal-marker entry last (it wins when both tag names are equal). -/
def evaluatorFor (cfg : Cfg) (name : List Char) : Option (Element → Bool) :=
  if name = cfg.rmName then some (markerIsRemoval cfg)
  else if name = cfg.tlName then some (timeIsRemoval cfg)
  else none

/-- `RangeMarkerBuilder::build` -/
def buildRange (st en : Token) : Rng × Option Rng := ((st.bstart, en.bstop), none)

/-- `UnwrapBlockMarkerBuilder::build` -/
def buildUnwrap (content : Bytes) (st en : Token) : Rng × Option Rng :=
  let e := (findNextLB content st.bstop false).bind fun p => findNextLB content (p + 1) false
  let s := (findPrevLB content en.bstart false).bind fun p => findPrevLB content p false
  match e, s with
  | some e, some s =>
    if s ≥ e then ((st.bstart, e), some (s + 1, en.bstop)) else ((st.bstart, st.bstart), none)
  | _, _ => ((st.bstart, st.bstart), none)

/-- `factory::create` with the strategy list of `build_remover` -/
def createRange (content : Bytes) (el : Element) (st en : Token) : Rng × Option Rng :=
  if el.attrs.any (fun a => a.name == "unwrap-block".toList) then buildUnwrap content st en
  else buildRange st en

inductive RTree where
  | node (range : Rng) (pair : Option Rng) (children : List RTree)
  deriving Repr, Inhabited

/-- the decision taken for one element in `collect_removable_ranges`:
    `some (range, pair, isRemoval)` -/
def elementRange (cfg : Cfg) (content : Bytes) (allPending : Bool) (el : Element) (st en : Token) :
    Option (Rng × Option Rng × Bool) :=
  if isSkip el then none
  else
    match evaluatorFor cfg el.name with
    | none => none
    | some ev =>
      let r : Option (Rng × Option Rng × Bool) :=
        if ev el then
          let (r, p) := createRange content el st en
          some (r, p, true)
        else if allPending then
          let (r, p) := createRange content el st en
          some (r, p, false)
        else none
      match r with
      | some (r, p, b) => if !r.isEmpty then some (r, p, b) else none
      | none => none

mutual
/-- `collect_removable_ranges` -/
def collect (cfg : Cfg) (content : Bytes) (allPending : Bool) : List Part → List RTree × List RTree
  | [] => ([], [])
  | p :: ps =>
    let (a, b) := collectPart cfg content allPending p
    let (a', b') := collect cfg content allPending ps
    (a ++ a', b ++ b')

def collectPart (cfg : Cfg) (content : Bytes) (allPending : Bool) : Part → List RTree × List RTree
  | .text _ => ([], [])
  | .element el st en children =>
    let (ch, pch) := collect cfg content allPending children
    match elementRange cfg content allPending el st en with
    | some (r, p, true) => ([.node r p ch], pch)
    | some (r, p, false) => (ch, [.node r p pch])
    | none => (ch, pch)
end

/-- `merge_child_markers`: returns the number of merged children and the widened range -/
def mergeChildMarkers : List Marker → Rng → Nat × Rng
  | [], m => (0, m)
  | c :: cs, m =>
    if m.contains c.start || m.contains c.stop then
      let (n, m') := mergeChildMarkers cs (min m.1 c.start, max m.2 c.stop)
      (n + 1, m')
    else (0, m)

def rebase (startCursor endCursor current : Nat) (m : Marker) : Marker :=
  let kept := m.pair.filter (fun p => decide (startCursor ≤ p) && decide (p < endCursor))
  ⟨m.start, m.stop, kept.map (fun p => p - startCursor + current + 1)⟩

mutual
/-- `merge_markers` -/
def mergeMarkers : List RTree → List Marker → List Marker
  | [], acc => acc
  | t :: ts, acc => mergeMarkers ts (mergeTree t acc)

def mergeTree : RTree → List Marker → List Marker
  | .node range pair children, acc =>
    let childMarkers := mergeMarkers children []
    let (startCursor, marker) := mergeChildMarkers childMarkers range
    match pair with
    | some endRange =>
      let (n, endMarker) := mergeChildMarkers (childMarkers.drop startCursor).reverse endRange
      let endCursor := childMarkers.length - n
      if marker.2 ≥ endMarker.1 then
        acc ++ [⟨marker.1, endMarker.2, none⟩]
      else
        let current := acc.length
        acc ++ [⟨marker.1, marker.2, some (current + (endCursor - startCursor) + 1)⟩]
            ++ ((childMarkers.drop startCursor).take (endCursor - startCursor)).map
                 (rebase startCursor endCursor current)
            ++ [⟨endMarker.1, endMarker.2, some current⟩]
    | none => acc ++ [⟨marker.1, marker.2, none⟩]
end

/-- `build_remove_marker` -/
def buildRemoveMarker (cfg : Cfg) (content : Bytes) (parts : List Part) : List Marker :=
  mergeMarkers (collect cfg content false parts).1 []

/-- the pending-merge loop of `build_remove_marker_all` for one ready range: pops every pending
    range that starts before `rangeEnd` -/
def popPending (range : Rng) : List Marker → List (Marker × Bool) × List Marker
  | [] => ([], [])
  | p :: ps =>
    if p.start ≥ range.2 then ([], p :: ps)
    else
      let (out, rest) := popPending range ps
      if range.contains p.start && range.contains p.stop then (out, rest)
      else ((p, false) :: out, rest)

def mergePending : List Marker → List Marker → List (Marker × Bool)
  | [], pending => pending.map fun p => (p, false)
  | r :: rs, pending =>
    let (out, rest) := popPending (r.start, r.stop) pending
    out ++ [(r, true)] ++ mergePending rs rest

/-- `build_remove_marker_all` -/
def buildRemoveMarkerAll (cfg : Cfg) (content : Bytes) (parts : List Part) : List (Marker × Bool) :=
  let (ready, pending) := collect cfg content true parts
  mergePending (mergeMarkers ready []) (mergeMarkers pending [])

/-- the reverse-order `replace_range` loop of `remove` -/
def deleteAll (content : Bytes) : List Rng → R Bytes
  | [] => .ok content
  | r :: rs =>
    match deleteAll content rs with
    | .ok c => deleteRange c r.1 r.2
    | .error e => .error e

def removeMarkers (content : Bytes) (ms : List Marker) : R Bytes :=
  deleteAll content (ms.map fun m => (m.start, m.stop))

/-- `get_removed_pos` -/
def removedPosAux : List Marker → Nat → R (List (Nat × Option Nat))
  | [], _ => .ok []
  | m :: ms, removed =>
    match subU m.start removed, subU m.stop m.start with
    | .ok p, .ok l =>
      match removedPosAux ms (removed + l) with
      | .ok r => .ok ((p, m.pair) :: r)
      | .error e => .error e
    | .error e, _ => .error e
    | _, .error e => .error e

def getRemovedPos (ms : List Marker) : R (List (Nat × Option Nat)) := removedPosAux ms 0

end Chiritori
