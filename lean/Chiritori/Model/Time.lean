/-
  Model of what chrono 0.4.38 does for
    DateTime::parse_from_str(s, "%Y-%m-%d %H:%M:%S %z")
  and of the comparison `current_time < expires`.
  chrono is *modelled, not verified*; the model follows format/parse.rs, format/scan.rs,
  format/parsed.rs (leniencies included) and is tied to the real library by the correspondence check.
-/
namespace Chiritori

/-- `char::is_whitespace` (Unicode White_Space) -/
def isWhitespace (c : Char) : Bool :=
  let n := c.toNat
  (9 ≤ n && n ≤ 13) || n == 0x20 || n == 0x85 || n == 0xA0 || n == 0x1680 ||
  (0x2000 ≤ n && n ≤ 0x200A) || n == 0x2028 || n == 0x2029 || n == 0x202F || n == 0x205F || n == 0x3000

/-- `str::trim_start` -/
def trimStartWs : List Char → List Char
  | c :: cs => if isWhitespace c then trimStartWs cs else c :: cs
  | [] => []

def isDigit (c : Char) : Bool := '0' ≤ c && c ≤ '9'
def digitVal (c : Char) : Nat := c.toNat - '0'.toNat

/-- `scan::number(s, 1, max)`: at least one and at most `max` ASCII digits -/
def scanDigits : Nat → List Char → Nat → Nat → (Nat × Nat × List Char)
  | 0, s, acc, n => (acc, n, s)
  | fuel + 1, c :: cs, acc, n =>
    if isDigit c then scanDigits fuel cs (acc * 10 + digitVal c) (n + 1) else (acc, n, c :: cs)
  | _ + 1, [], acc, n => (acc, n, [])

def scanNumber (s : List Char) (max : Nat) : Option (Nat × List Char) :=
  let (v, n, rest) := scanDigits max s 0 0
  if n = 0 then none else some (v, rest)

def literal (c : Char) : List Char → Option (List Char)
  | d :: rest => if d = c then some rest else none
  | [] => none

/-- `colon_or_space` -/
def colonOrSpace : List Char → List Char
  | c :: cs => if c = ':' ∨ isWhitespace c then colonOrSpace cs else c :: cs
  | [] => []

/-- `scan::timezone_offset(s, colon_or_space, false, false, true)`: seconds east and the rest -/
def scanOffset (s : List Char) : Option (Int × List Char) :=
  match s with
  | sign :: h1 :: h2 :: rest =>
    if (sign = '+' ∨ sign = '-' ∨ sign = '−') ∧ isDigit h1 ∧ isDigit h2 then
      match colonOrSpace rest with
      | m1 :: m2 :: rest' =>
        if isDigit m1 ∧ digitVal m1 ≤ 5 ∧ isDigit m2 then
          let secs : Int := ((digitVal h1 * 10 + digitVal h2) * 3600 + (digitVal m1 * 10 + digitVal m2) * 60 : Nat)
          some (if sign = '+' then secs else -secs, rest')
        else none
      | _ => none
    else none
  | _ => none

def isLeapYear (y : Int) : Bool := (y % 4 == 0 && y % 100 != 0) || y % 400 == 0

def daysInMonth (y : Int) (m : Nat) : Nat :=
  match m with
  | 1 => 31 | 2 => if isLeapYear y then 29 else 28 | 3 => 31 | 4 => 30 | 5 => 31 | 6 => 30
  | 7 => 31 | 8 => 31 | 9 => 30 | 10 => 31 | 11 => 30 | 12 => 31
  | _ => 0

/-- days from 1970-01-01 to January 1st of year `y` (proleptic Gregorian) -/
def daysBeforeYear (y : Int) : Int :=
  365 * (y - 1970) + ((y - 1) / 4 - 492) - ((y - 1) / 100 - 19) + ((y - 1) / 400 - 4)

def daysBeforeMonth (y : Int) : Nat → Nat
  | 0 => 0
  | 1 => 0
  | m + 1 => daysBeforeMonth y m + daysInMonth y m

def daysFromCivil (y : Int) (m d : Nat) : Int := daysBeforeYear y + daysBeforeMonth y m + (d - 1 : Nat)

/-- Unix seconds of the wall-clock time at offset 0 -/
def epochOf (y : Int) (mo d h mi s : Nat) : Int :=
  daysFromCivil y mo d * 86400 + (h * 3600 + mi * 60 + s : Nat)

/-- An instant as chrono compares it: whole seconds and a fraction in nanoseconds; a parsed `:60`
    is second 59 with fraction 1_000_000_000. -/
abbrev Instant := Int × Nat

def instantLt (a b : Instant) : Bool := decide (a.1 < b.1) || (a.1 == b.1 && decide (a.2 < b.2))

def minYear : Int := -262143
def maxYear : Int := 262142

structure Fields where
  year : Int
  month : Nat
  day : Nat
  hour : Nat
  minute : Nat
  second : Nat
  off : Int
  deriving Repr, DecidableEq

/-- `%Y`: optional sign (then any number of digits), else at most four digits -/
def parseYear (s : List Char) : Option (Int × List Char) :=
  match trimStartWs s with
  | '-' :: r => (scanNumber r r.length).map fun (v, r') => (-(v : Int), r')
  | '+' :: r => (scanNumber r r.length).map fun (v, r') => ((v : Int), r')
  | s' => (scanNumber s' 4).map fun (v, r') => ((v : Int), r')

/-- a two-digit numeric item: `trim_start`, then one or two digits -/
def parseNum2 (s : List Char) : Option (Nat × List Char) := scanNumber (trimStartWs s) 2

/-- the item loop of `format::parse` for `%Y-%m-%d %H:%M:%S %z`; the whole input must be consumed -/
def parseFields (s : List Char) : Option Fields := do
  let (year, s) ← parseYear s
  let s ← literal '-' s
  let (month, s) ← parseNum2 s
  let s ← literal '-' s
  let (day, s) ← parseNum2 s
  let (hour, s) ← parseNum2 (trimStartWs s)
  let s ← literal ':' s
  let (minute, s) ← parseNum2 s
  let s ← literal ':' s
  let (second, s) ← parseNum2 s
  let (off, s) ← scanOffset (trimStartWs (trimStartWs s))
  if s ≠ [] then none
  some ⟨year, month, day, hour, minute, second, off⟩

/-- the range checks of the `Parsed::set_*` methods and of `Parsed::to_datetime` -/
def resolve (f : Fields) : Option Instant :=
  if f.month < 1 ∨ f.month > 12 then none
  else if f.day < 1 ∨ f.day > 31 then none
  else if f.hour > 23 then none
  else if f.minute > 59 then none
  else if f.second > 60 then none
  else if f.year < minYear ∨ f.year > maxYear then none
  else if f.day > daysInMonth f.year f.month then none
  else if f.off ≤ -86400 ∨ f.off ≥ 86400 then none
  else
    let sec := if f.second = 60 then 59 else f.second
    let frac := if f.second = 60 then 1000000000 else 0
    let utc := epochOf f.year f.month f.day f.hour f.minute sec - f.off
    if utc < daysFromCivil minYear 1 1 * 86400 ∨ utc ≥ (daysFromCivil maxYear 12 31 + 1) * 86400 then none
    else some (utc, frac)

/-- `DateTime::parse_from_str(s, "%Y-%m-%d %H:%M:%S %z")` as an instant -/
def chronoParse (s : List Char) : Option Instant := (parseFields s).bind resolve

end Chiritori
