/-
  Abstract UTF-8 text.

  A source is a `List Char`.  The Rust code indexes *bytes* and asks `is_char_boundary`, so the
  byte view is modelled, but abstractly: a byte is either the lead byte of a character or a
  continuation byte.  The Rust code only ever compares a byte with an ASCII constant
  (`b' '`, `b'\t'`, `b'\n'`); in UTF-8 a byte < 0x80 is always a whole character, so
  `bytes[i] == b' '` is `b[i]? = some (.lead ' ')`.

  Everything in the model files is core Lean only (no imports), so that the driver links.
-/
namespace Chiritori

inductive ABy where
  | lead (c : Char)
  | cont
  deriving DecidableEq, Repr, Inhabited

abbrev Bytes := List ABy

/-- the line break byte -/
abbrev NL : ABy := .lead '\n'

def charBytes (c : Char) : Bytes := .lead c :: List.replicate (c.utf8Size - 1) .cont

def bytesOf : List Char → Bytes
  | [] => []
  | c :: cs => charBytes c ++ bytesOf cs

/-- `str.len()` -/
def blen : List Char → Nat
  | [] => 0
  | c :: cs => c.utf8Size + blen cs

/-- the characters of a byte string (lead bytes only) -/
def charsOf : Bytes → List Char
  | [] => []
  | .lead c :: bs => c :: charsOf bs
  | .cont :: bs => charsOf bs

/-- `str::is_char_boundary` -/
def isBoundary (b : Bytes) (i : Nat) : Bool :=
  i == b.length ||
  match b[i]? with
  | some (.lead _) => true
  | _ => false

/-- `bytes.get(i) == Some(&c)` for an ASCII constant `c` -/
def byteIs (b : Bytes) (i : Nat) (c : Char) : Bool :=
  match b[i]? with
  | some (.lead d) => d == c
  | _ => false

/-- Rust panics, as values. -/
inductive Panic where
  | sliceBoundary   -- str slice / replace_range at a non-boundary or with start > end / end > len
  | indexOob        -- v[i] out of range
  | subUnderflow    -- usize subtraction below zero (overflow checks on)
  | explicit        -- the `panic!` in EmptyLineRemover
  | unwrapNone
  deriving DecidableEq, Repr, Inhabited

abbrev R := Except Panic

def Panic.name : Panic → String
  | .sliceBoundary => "slice-boundary"
  | .indexOob => "index-oob"
  | .subUnderflow => "sub-underflow"
  | .explicit => "explicit"
  | .unwrapNone => "unwrap-none"

/-- `a - b` on `usize` with overflow checks -/
def subU (a b : Nat) : R Nat := if b ≤ a then .ok (a - b) else .error .subUnderflow

def validRange (b : Bytes) (s e : Nat) : Bool :=
  decide (s ≤ e) && decide (e ≤ b.length) && isBoundary b s && isBoundary b e

/-- `&content[s..e]` -/
def slice (b : Bytes) (s e : Nat) : R Bytes :=
  if validRange b s e then .ok ((b.take e).drop s) else .error .sliceBoundary

/-- `content.replace_range(s..e, "")` -/
def deleteRange (b : Bytes) (s e : Nat) : R Bytes :=
  if validRange b s e then .ok (b.take s ++ b.drop e) else .error .sliceBoundary

/-- A byte string is well formed if it is the encoding of some character list. -/
def wellFormed (b : Bytes) : Bool := bytesOf (charsOf b) == b

end Chiritori
