import Chiritori.Model.Api
/-
  Model of chiritori-cli/src/main.rs (after the D9 repair).
  clap's derive parser, `atty`, the file system and chrono's RFC 3339 parser for `--time-limited-current`
  are modelled as data: `Args` is the parsed option record with clap's defaults, the file system is a function
  from paths to contents, and the current instant arrives already parsed (or absent).
-/
namespace Chiritori.Cli

abbrev Path := List Char

structure Args where
  filename : Option Path := none
  output : Option Path := none
  delimiterStart : List Char := "<!-- <".toList
  delimiterEnd : List Char := "> -->".toList
  timeLimitedTagName : List Char := "time-limited".toList
  timeLimitedTimeOffset : List Char := "+00:00".toList
  /-- `--time-limited-current`, parsed (`none` = absent or unparseable: `Local::now()` is used) -/
  timeLimitedCurrent : Option (Int × Nat) := none
  removalMarkerTagName : List Char := "removal-marker".toList
  removalMarkerTargetName : List (List Char) := []
  removalMarkerTargetConfig : Option Path := none
  list : Bool := false
  listAll : Bool := false
  listJson : Bool := false

structure World where
  files : Path → Option (List Char)
  stdin : List Char
  /-- `Local::now()` -/
  now : Int × Nat
  /-- process environment (TZ, locale): present to state that nothing reads it -/
  env : List (List Char × List Char) := []

/-- `BufRead::lines()`: split at '\n', a trailing "\r" of a line is dropped, no empty last line -/
def fileLinesAux : List Char → List Char → List (List Char)
  | [], [] => []
  | [], cur => [cur]
  | c :: cs, cur =>
    if c = '\n' then
      (match cur.getLast? with
       | some '\r' => cur.dropLast
       | _ => cur) :: fileLinesAux cs []
    else fileLinesAux cs (cur ++ [c])

def fileLines (s : List Char) : List (List Char) := fileLinesAux s []

/-- the target set: config-file lines chained with the flag values (a `HashSet`: order and multiplicity are
    irrelevant to membership) -/
def targetsOf (a : Args) (w : World) : List (List Char) :=
  (match a.removalMarkerTargetConfig with
   | some p => (match w.files p with | some c => fileLines c | none => [])
   | none => []) ++ a.removalMarkerTargetName

def configOf (a : Args) (w : World) : Cfg :=
  let now := a.timeLimitedCurrent.getD w.now
  { tlName := a.timeLimitedTagName, rmName := a.removalMarkerTagName, now := now.1, nowNanos := now.2,
    offset := a.timeLimitedTimeOffset, targets := targetsOf a w }

/-- the source text: `--filename` if given, else standard input -/
def contentOf (a : Args) (w : World) : Option (List Char) :=
  match a.filename with
  | some p => w.files p
  | none => some w.stdin

/-- mode dispatch of `main` -/
def resultOf (a : Args) (w : World) (content : List Char) : R (List Char) :=
  let cfg := configOf a w
  if a.list then list content a.delimiterStart a.delimiterEnd cfg a.listJson
  else if a.listAll then listAll content a.delimiterStart a.delimiterEnd cfg a.listJson
  else clean content a.delimiterStart a.delimiterEnd cfg

structure Outcome where
  exit : Nat
  stdout : List Char
  files : Path → Option (List Char)

def writeFile (files : Path → Option (List Char)) (p : Path) (c : List Char) : Path → Option (List Char) :=
  fun q => if q = p then some c else files q

/-- `--removal-marker-target-config` names a file that cannot be opened (`File::open(..).expect("file not found")`) -/
def configMissing (a : Args) (w : World) : Bool :=
  match a.removalMarkerTargetConfig with
  | some p => (w.files p).isNone
  | none => false

/-- `main`: the input is read completely, then the target config file, and only then the output file is created; a
    file that cannot be opened ends the run with a panic (exit status 101) and nothing written -/
def run (a : Args) (w : World) : Outcome :=
  match contentOf a w with
  | none => ⟨101, [], w.files⟩                       -- "file not found" panic
  | some content =>
    if configMissing a w then ⟨101, [], w.files⟩     -- "file not found" panic in load_removal_marker_target_names
    else
      match resultOf a w content with
      | .error _ => ⟨101, [], w.files⟩
      | .ok out =>
        match a.output with
        | some p => ⟨0, [], writeFile w.files p out⟩
        | none => ⟨0, out, w.files⟩

end Chiritori.Cli
