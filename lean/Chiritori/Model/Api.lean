import Chiritori.Model.Formatter
import Chiritori.Model.Listing
/-
  Model of the three API functions of chiritori/src/chiritori.rs.
-/
namespace Chiritori

structure Trace where
  markers : List Marker
  markersAll : List (Marker × Bool)
  removed : Bytes
  removedPos : List (Nat × Option Nat)

def parseSource (src ds de : List Char) : List Part := parse ds de (tokenize src ds de)

/-- `clean` -/
def clean (src ds de : List Char) (cfg : Cfg) : R (List Char) := do
  let content := bytesOf src
  let parts := parseSource src ds de
  let markers := buildRemoveMarker cfg content parts
  let removed ← removeMarkers content markers
  let pos ← getRemovedPos markers
  let out ← format removed pos
  return charsOf out

/-- the hook `verif_trace` -/
def trace (src ds de : List Char) (cfg : Cfg) : R Trace := do
  let content := bytesOf src
  let parts := parseSource src ds de
  let all := buildRemoveMarkerAll cfg content parts
  let markers := buildRemoveMarker cfg content parts
  let removed ← removeMarkers content markers
  let pos ← getRemovedPos markers
  return ⟨markers, all, removed, pos⟩

def listMarkers (src ds de : List Char) (cfg : Cfg) : List (Marker × Bool) :=
  (buildRemoveMarker cfg (bytesOf src) (parseSource src ds de)).map fun m => (m, true)

def listAllMarkers (src ds de : List Char) (cfg : Cfg) : List (Marker × Bool) :=
  buildRemoveMarkerAll cfg (bytesOf src) (parseSource src ds de)

def renderList (src : List Char) (ms : List (Marker × Bool)) (json : Bool) : R (List Char) :=
  let b := bytesOf src
  if json then
    match buildList b (buildLineMap b) ms with
    | .ok items => .ok (jsonList items)
    | .error e => .error e
  else buildPrettyString b ms

/-- `list` -/
def list (src ds de : List Char) (cfg : Cfg) (json : Bool) : R (List Char) :=
  renderList src (listMarkers src ds de cfg) json

/-- `list_all` -/
def listAll (src ds de : List Char) (cfg : Cfg) (json : Bool) : R (List Char) :=
  renderList src (listAllMarkers src ds de cfg) json

end Chiritori
