import Chiritori.Model.Finders
/-
  Model of chiritori/src/code/formatter.rs and formatter/*.rs (after the D13 and D15 repairs).
-/
namespace Chiritori

abbrev Rng' := Nat × Nat

/-- backward loop of `IndentRemover::format`; `rev` = reversed prefix `bytes[0..cursor]`,
    head = `bytes[cursor-1]` -/
def indentScan : Bytes → Nat → Option Nat
  | [], _ => none                         -- cursor == 0 ⇒ not found
  | x :: rest, cursor =>
    match x with
    | .cont => indentScan rest (cursor - 1)
    | .lead c =>
      if c = ' ' ∨ c = '\t' then indentScan rest (cursor - 1)
      else if c = '\n' then some cursor   -- `cursor += 1` after the decrement
      else none

/-- `IndentRemover::format` -/
def fmtIndent (b : Bytes) (pos : Nat) : R Rng' :=
  if pos ≥ b.length ∨ !isBoundary b pos ∨ !byteIs b pos '\n' then .ok (pos, pos)
  else
    match indentScan (b.take pos).reverse pos with
    | some s => .ok (s, pos)
    | none => .ok (pos, pos)

/-- `EmptyLineRemover::format` -/
def fmtEmpty (b : Bytes) (pos : Nat) : R Rng' :=
  if !isBoundary b pos then .error .explicit
  else if !byteIs b pos '\n' then .ok (pos, pos)
  else
    let nextEmpty := (findNextLB b pos true).bind fun p => findNextLB b (p + 1) true
    let prevEmpty := (findPrevLB b pos true).bind fun p => findPrevLB b p true
    if nextEmpty.isNone ∧ prevEmpty.isNone then .ok (pos, pos + 1) else .ok (pos, pos)

/-- `PrevLineBreakRemover::format` -/
def fmtPrev (b : Bytes) (pos : Nat) : R Rng' :=
  match (findPrevLB b pos true).bind fun p => findPrevLB b p true with
  | some lb => .ok (lb + 1, pos)
  | none => .ok (pos, pos)

/-- `NextLineBreakRemover::format` -/
def fmtNext (b : Bytes) (pos : Nat) : R Rng' :=
  match (findNextLB b pos true).bind fun p => findNextLB b (p + 1) true with
  | some lb => .ok (pos, lb)
  | none => .ok (pos, pos)

/-- `build_formatters()` in chiritori.rs, in order -/
def seamFormatters : List (Bytes → Nat → R Rng') := [fmtIndent, fmtEmpty, fmtPrev, fmtNext]

/-- `format_block`: hull of the formatter ranges around `pos` -/
def formatBlock (b : Bytes) (pos : Nat) : List (Bytes → Nat → R Rng') → Rng' → R Rng'
  | [], acc => .ok acc
  | f :: fs, acc =>
    match f b pos with
    | .ok (s, e) => formatBlock b pos fs (min s acc.1, max e acc.2)
    | .error e => .error e

/-- `get_indent_len` -/
def getIndentLen (b : Bytes) (pos : Nat) : Nat :=
  match findPrevLB b pos false with
  | some p =>
    match findNextChar b (p + 1) with
    | some e => e - p - 1
    | none => 0
  | none => 0

/-- the `while` loop of `BlockIndentRemover::format` (fuel = content length + 1) -/
def blockLoop (b : Bytes) (endPos indentOfs indentLen : Nat) : Nat → Nat → List Rng'
  | 0, _ => []
  | fuel + 1, cur =>
    if endPos > cur then
      match findNextLB b cur false with
      | some lb =>
        let pos := lb + 1
        if pos > endPos then []
        else
          let here :=
            match findNextChar b cur with
            | some ip =>
              let s := min (cur + indentOfs) ip
              let e := min (s + indentLen) ip
              if s ≠ e then [(s, e)] else []
            | none => []
          here ++ blockLoop b endPos indentOfs indentLen fuel pos
      | none => []
    else []

/-- `BlockIndentRemover::format` -/
def fmtBlockIndent (b : Bytes) (startPos endPos : Nat) : List Rng' :=
  let indentOfs :=
    match findPrevLB b startPos true with
    | some p => startPos - p - 1
    | none => 0
  -- the first line of the block starts behind the line break that ends the seam's line
  match (b.drop startPos).findIdx? (fun x => x == .lead '\n') with
  | none => []
  | some ofs =>
    let cur := startPos + ofs + 1
    let indentLen := getIndentLen b cur - indentOfs
    blockLoop b endPos indentOfs indentLen (b.length + 1) cur

/-- insertion of one new range, scanning backwards from `cursor` (an index into `ranges`, or none) -/
def findCursor (ranges : List Rng') (newStart : Nat) : Nat → Option Nat
  | 0 => match ranges[0]? with
    | some r => if r.1 < newStart then some 0 else none
    | none => none
  | c + 1 => match ranges[c + 1]? with
    | some r => if r.1 < newStart then some (c + 1) else findCursor ranges newStart c
    | none => none   -- unreachable: the cursor is always a valid index

def insertAt (l : List Rng') (i : Nat) (x : Rng') : List Rng' := l.take i ++ [x] ++ l.drop i

/-- `merge_ranges`: `news` is popped from the back -/
def mergeRangesLoop (ranges : List Rng') (cursor : Option Nat) : List Rng' → List Rng'
  | [] => ranges
  | n :: ns =>
    let cursor' := match cursor with
      | some c => findCursor ranges n.1 c
      | none => none
    match cursor' with
    | some c => mergeRangesLoop (insertAt ranges (c + 1) n) cursor' ns
    | none => mergeRangesLoop (insertAt ranges 0 n) none ns

def mergeRanges (ranges news : List Rng') : List Rng' :=
  if ranges.isEmpty then ranges
  else mergeRangesLoop ranges (some (ranges.length - 1)) news.reverse

def mergeOverlappedGo (cur : Rng') : List Rng' → List Rng'
  | [] => [cur]
  | x :: xs => if cur.2 ≥ x.1 then mergeOverlappedGo (cur.1, max cur.2 x.2) xs else cur :: mergeOverlappedGo x xs

/-- `merge_overlapped_ranges` -/
def mergeOverlapped : List Rng' → List Rng'
  | [] => []
  | r :: rs => mergeOverlappedGo r rs

/-- stable insertion sort by start (`sort_by_key(|r| r.start)` is a stable sort): `foldr` inserts the earlier element
    last, and it goes in front of everything that does not start before it -/
def insertByStart (x : Rng') : List Rng' → List Rng'
  | [] => [x]
  | y :: ys => if x.1 ≤ y.1 then x :: y :: ys else y :: insertByStart x ys

def sortByStart (l : List Rng') : List Rng' := l.foldr insertByStart []

def deleteRanges (content : Bytes) : List Rng' → R Bytes
  | [] => .ok content
  | r :: rs =>
    match deleteRanges content rs with
    | .ok c => deleteRange c r.1 r.2
    | .error e => .error e

/-- the loop of `format` over the removed positions -/
def formatCollect (b : Bytes) (all : List (Nat × Option Nat)) :
    List (Nat × Option Nat) → R (List Rng' × List Rng')
  | [] => .ok ([], [])
  | (pos, pair) :: rest =>
    match formatBlock b pos seamFormatters (pos, pos) with
    | .error e => .error e
    | .ok range =>
      let blockR : R (List Rng') :=
        match pair with
        | some i =>
          match all[i]? with
          | some (pairStart, _) => if pos < pairStart then .ok (fmtBlockIndent b pos pairStart) else .ok []
          | none => .error .indexOob
        | none => .ok []
      match blockR with
      | .error e => .error e
      | .ok blk =>
        match formatCollect b all rest with
        | .error e => .error e
        | .ok (rs, bs) => .ok (range :: rs, blk ++ bs)

/-- `formatter::format` with the formatter lists of `clean` -/
def format (b : Bytes) (removedPos : List (Nat × Option Nat)) : R Bytes :=
  match formatCollect b removedPos removedPos with
  | .error e => .error e
  | .ok (ranges, blocks) =>
    deleteRanges b (mergeOverlapped (mergeRanges ranges (sortByStart blocks)))

end Chiritori
