import Chiritori.Model.Remover
/-
  Model of chiritori/src/code/list.rs and the serde_json rendering of `Vec<ListItem>`.
  Rust `std` (`lines`, `replace`, `repeat`, `format!`) and serde_json are modelled, not verified.
-/
namespace Chiritori

def strMarkerStart : List Char := "_start".toList
def strMarkerEnd : List Char := "‾end".toList
def colGreen : List Char := "\x1b[32m".toList
def colRed : List Char := "\x1b[31m".toList
def colYellow : List Char := "\x1b[33m".toList
def colReset : List Char := "\x1b[0m".toList
def lineColumnWidth : Nat := 9
def tabspace : List Char := "    ".toList

/-- pieces of `split_inclusive('\n')` -/
def splitInclusive : List Char → List Char → List (List Char)
  | [], [] => []
  | [], cur => [cur]
  | c :: cs, cur => if c = '\n' then (cur ++ [c]) :: splitInclusive cs [] else splitInclusive cs (cur ++ [c])

def stripLineEnd (l : List Char) : List Char :=
  match l.getLast? with
  | some '\n' =>
    let l' := l.dropLast
    match l'.getLast? with
    | some '\r' => l'.dropLast
    | _ => l'
  | _ => l

/-- `str::lines` -/
def rustLines (s : List Char) : List (List Char) := (splitInclusive s []).map stripLineEnd

def joinWith (sep : List Char) : List (List Char) → List Char
  | [] => []
  | [x] => x
  | x :: xs => x ++ sep ++ joinWith sep xs

def replaceTabs : List Char → List Char
  | [] => []
  | c :: cs => if c = '\t' then tabspace ++ replaceTabs cs else c :: replaceTabs cs

def natToDigits (n : Nat) : List Char := (toString n).toList

/-- `format!("{:7} |", i)` -/
def lineColumn (i : Nat) : List Char :=
  let d := natToDigits i
  List.replicate (lineColumnWidth - 2 - d.length) ' ' ++ d ++ " |".toList

def zipLines : List Nat → List (List Char) → List Char
  | [], _ => []
  | _ :: is, [] => zipLines is []
  | i :: is, l :: ls => lineColumn i ++ l ++ ['\n'] ++ zipLines is ls

/-- start of the line `pos` lies on (`find_prev_line_break_pos(.., false).map(|v| v + 1).unwrap_or(0)`) -/
def lineStartOf (b : Bytes) (pos : Nat) : Nat :=
  match findPrevLB b pos false with | some v => v + 1 | none => 0

/-- end of the line `pos` lies on (`find_next_line_break_pos(.., false).unwrap_or(len)`) -/
def lineEndOf (b : Bytes) (pos : Nat) : Nat :=
  match findNextLB b pos false with | some v => v | none => b.length

/-- end of the coloured span: the region's end, short of the line break and of the carriage return of a CRLF
    line ending -/
def colorEndOf (b : Bytes) (start stop lineEnd : Nat) : Nat :=
  let ce := min stop lineEnd
  if ce = lineEnd ∧ start < ce ∧ b[ce - 1]? = some (.lead '\r') then ce - 1 else ce

/-- what `build_pretty_string_item` computes from the text and the region before it renders anything: the three
    slices of the shown lines (before, inside, behind the highlighted span) and the paddings of the two marker lines -/
structure ItemGeom where
  pre : Bytes
  mid : Bytes
  post : Bytes
  startTabs : Nat
  startPad : Nat
  endTabs : Nat
  endPad : Nat
  deriving Repr

def lnoOf (lineRange : Option (Nat × Nat)) : Nat :=
  match lineRange with
  | some _ => lineColumnWidth
  | none => 0

/-- the arithmetic and slicing of `build_pretty_string_item`, in its order of evaluation; `none`: nothing to show -/
def itemGeom (b : Bytes) (start stop : Nat) (lineRange : Option (Nat × Nat)) : R (Option ItemGeom) := do
  let len ← subU stop start
  if len = 0 ∨ b.isEmpty then return none
  let lineStart := lineStartOf b start
  let lineEndStart := lineStartOf b (stop - 1)
  let lineEnd := lineEndOf b (stop - 1)
  let colorEnd := colorEndOf b start stop lineEnd
  let _ ← subU lineEnd lineStart
  let pre ← slice b lineStart start
  let mid ← slice b start colorEnd
  let post ← slice b colorEnd lineEnd
  let lno := lnoOf lineRange
  let startOfs ← subU start lineStart
  let startTabs := countTabs (← slice b lineStart start)
  let endOfs ← subU (← subU stop lineEndStart) 1
  let endTabs := countTabs (← slice b lineEndStart stop)
  let startPad ← subU (lno + startOfs) startTabs
  let endPad ← subU (endOfs + lno) endTabs
  return some ⟨pre, mid, post, startTabs, startPad, endTabs, endPad⟩

def colMarker (coloring : Bool) : List Char := if coloring then colGreen else []
def colSpan (coloring isRemoval : Bool) : List Char :=
  if coloring then (if isRemoval then colRed else colYellow) else []
def colOff (coloring : Bool) : List Char := if coloring then colReset else []

/-- the shown lines, the highlighted span wrapped line by line -/
def removedText (coloring isRemoval : Bool) (g : ItemGeom) : List Char :=
  charsOf g.pre
    ++ joinWith ['\n'] ((rustLines (charsOf g.mid)).map fun l => colSpan coloring isRemoval ++ l ++ colOff coloring)
    ++ charsOf g.post ++ ['\n']

def codeBlockOf (lineRange : Option (Nat × Nat)) (removed : List Char) : List Char :=
  match lineRange with
  | some (a, z) => zipLines (List.range' a (z + 1 - a)) (rustLines removed)
  | none => removed

/-- the rendering proper -/
def renderItem (coloring isRemoval : Bool) (lineRange : Option (Nat × Nat)) (g : ItemGeom) : List Char :=
  (List.replicate g.startTabs tabspace).flatten ++ List.replicate g.startPad ' '
    ++ colMarker coloring ++ strMarkerStart ++ colOff coloring ++ ['\n']
    ++ replaceTabs (codeBlockOf lineRange (removedText coloring isRemoval g))
    ++ (List.replicate g.endTabs tabspace).flatten ++ List.replicate g.endPad ' '
    ++ colMarker coloring ++ strMarkerEnd ++ colOff coloring

/-- `build_pretty_string_item` -/
def buildItem (b : Bytes) (start stop : Nat) (isRemoval coloring : Bool) (lineRange : Option (Nat × Nat)) :
    R (List Char) :=
  match itemGeom b start stop lineRange with
  | .error e => .error e
  | .ok none => .ok []
  | .ok (some g) => .ok (renderItem coloring isRemoval lineRange g)

/-- `get_line_range` -/
def getLineRange (lm : List Nat) (start stop : Nat) : R (Nat × Nat) := do
  let e ← subU stop 1
  return (findLine lm start, findLine lm e)

def prettyItems (b : Bytes) (lm : List Nat) : List (Marker × Bool) → Nat → R (List Char)
  | [], _ => .ok []
  | (m, isRemoval) :: rest, idx =>
    match getLineRange lm m.start m.stop with
    | .error e => .error e
    | .ok lr =>
      match buildItem b m.start m.stop isRemoval true (some lr) with
      | .error e => .error e
      | .ok item =>
        match prettyItems b lm rest (idx + 1) with
        | .error e => .error e
        | .ok tail =>
          .ok ("\n-------- [ ".toList ++ natToDigits idx
                ++ (if isRemoval then " ]  Ready  ".toList else " ] Pending ".toList)
                ++ "--------".toList ++ ['\n'] ++ item ++ tail)

/-- `build_pretty_string` with `Some(line_map)` -/
def buildPrettyString (b : Bytes) (ms : List (Marker × Bool)) : R (List Char) :=
  match prettyItems b (buildLineMap b) ms 1 with
  | .ok s => .ok (s ++ ['\n'])
  | .error e => .error e

structure ListItem where
  lineRange : Nat × Nat
  block : List Char
  ready : Bool
  deriving Repr, DecidableEq

/-- `build_list` with `Some(line_map)` -/
def buildList (b : Bytes) (lm : List Nat) : List (Marker × Bool) → R (List ListItem)
  | [] => .ok []
  | (m, isRemoval) :: rest =>
    match getLineRange lm m.start m.stop with
    | .error e => .error e
    | .ok lr =>
      match buildItem b m.start m.stop isRemoval false (some lr) with
      | .error e => .error e
      | .ok item =>
        match buildList b lm rest with
        | .error e => .error e
        | .ok tail => .ok (⟨lr, item, isRemoval⟩ :: tail)

def hexDigit (n : Nat) : Char := if n < 10 then Char.ofNat (48 + n) else Char.ofNat (87 + n)

/-- serde_json string escaping -/
def jsonEscape : List Char → List Char
  | [] => []
  | c :: cs =>
    (if c = '"' then "\\\"".toList
     else if c = '\\' then "\\\\".toList
     else if c = '\n' then "\\n".toList
     else if c = '\r' then "\\r".toList
     else if c = '\t' then "\\t".toList
     else if c.toNat = 8 then "\\b".toList
     else if c.toNat = 12 then "\\f".toList
     else if c.toNat < 32 then "\\u00".toList ++ [hexDigit (c.toNat / 16), hexDigit (c.toNat % 16)]
     else [c]) ++ jsonEscape cs

def jsonItem (i : ListItem) : List Char :=
  "{\"line_range\":[".toList ++ natToDigits i.lineRange.1 ++ [','] ++ natToDigits i.lineRange.2
  ++ "],\"annotated_code_block\":\"".toList ++ jsonEscape i.block
  ++ "\",\"current_status\":\"".toList ++ (if i.ready then "Ready".toList else "Pending".toList)
  ++ "\"}".toList

/-- `serde_json::to_string(&Vec<ListItem>)` -/
def jsonList (items : List ListItem) : List Char :=
  ['['] ++ joinWith [','] (items.map jsonItem) ++ [']']

end Chiritori
