import Chiritori.Model.Tokenizer
/-
  Model of chiritori/src/element_parser.rs (after the D2 and D5 repairs).
-/
namespace Chiritori

structure Attr where
  name : List Char
  value : Option (List Char)
  deriving DecidableEq, Repr, Inhabited

structure Element where
  name : List Char
  attrs : List Attr
  deriving DecidableEq, Repr, Inhabited

/-- `str::trim_start_matches(pat)`: strips every repeated prefix `pat` (fuel = length of `s`). -/
def trimStartMatchesAux (pat : List Char) : Nat → List Char → List Char
  | 0, s => s
  | fuel + 1, s =>
    if pat ≠ [] ∧ pat.isPrefixOf s then trimStartMatchesAux pat fuel (s.drop pat.length) else s

def trimStartMatches (s pat : List Char) : List Char := trimStartMatchesAux pat s.length s

/-- `str::trim_end_matches(pat)` -/
def trimEndMatches (s pat : List Char) : List Char :=
  (trimStartMatches s.reverse pat.reverse).reverse

inductive EState where
  | nameBegin
  | name (acc : List Char)
  | nameEnd
  | valueBegin
  | valueNoQuote
  | valueDq (acc : List Char)
  | valueSq (acc : List Char)
  | parseError
  deriving DecidableEq, Repr, Inhabited

abbrev Pairs := List (List Char × Option (List Char))

/-- `pairs.last_mut().unwrap().1 = Some(v)` (the list is non-empty whenever this is reached:
    `elStep_pairs_nonempty` in Lemmas/ElStepInv.lean). -/
def setLastValue (pairs : Pairs) (v : List Char) : Pairs :=
  match pairs.getLast? with
  | some (n, _) => pairs.dropLast ++ [(n, some v)]
  | none => pairs

def elStep (acc : Pairs × EState) (c : Char) : Pairs × EState :=
  let (pairs, st) := acc
  match st with
  | .nameBegin =>
    if c = ' ' ∨ c = '\n' then (pairs, .nameBegin)
    else if c = '=' ∨ c = '"' ∨ c = '\'' then (pairs, .parseError)
    else (pairs, .name [c])
  | .name a =>
    if c = ' ' ∨ c = '\n' then (pairs ++ [(a, none)], .nameEnd)
    else if c = '=' then (pairs ++ [(a, none)], .valueBegin)
    else (pairs, .name (a ++ [c]))
  | .nameEnd =>
    if c = ' ' ∨ c = '\n' then (pairs, .nameEnd)
    else if c = '=' then (pairs, .valueBegin)
    else (pairs, .name [c])
  | .valueBegin =>
    if c = ' ' then (pairs, .valueBegin)
    else if c = '"' then (pairs, .valueDq [])
    else if c = '\'' then (pairs, .valueSq [])
    else (pairs, .valueNoQuote)
  | .valueDq a =>
    if c = '"' then (setLastValue pairs a, .nameBegin) else (pairs, .valueDq (a ++ [c]))
  | .valueSq a =>
    if c = '\'' then (setLastValue pairs a, .nameBegin) else (pairs, .valueSq (a ++ [c]))
  | .valueNoQuote =>
    if c = ' ' then (pairs, .nameBegin) else (pairs, .valueNoQuote)
  | .parseError => (pairs, .parseError)

/-- the body of `parse` on the stripped tag text -/
def parseBody (target : List Char) : Option Element :=
  let (pairs, last) := target.foldl elStep ([], .nameBegin)
  let pairs := match last with
    | .name a => pairs ++ [(a, none)]
    | _ => pairs
  if last = .parseError then none
  else
    match pairs with
    | [] => none
    | (n, _) :: rest => some ⟨n, rest.map fun (a, v) => ⟨a, v⟩⟩

/-- `element_parser::parse` -/
def elparse (ds de : List Char) (t : Token) : Option Element :=
  match t.kind with
  | .text => none
  | .element => parseBody (trimEndMatches (trimStartMatches t.value ds) de)

end Chiritori
