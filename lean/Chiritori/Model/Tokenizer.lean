import Chiritori.Model.Text
/-
  Model of chiritori/src/tokenizer.rs (after the D1 repair).
  Precondition of every statement about it: both delimiters non-empty
  (Rust `unwrap`s the first delimiter character).
-/
namespace Chiritori

inductive TKind where
  | element
  | text
  deriving DecidableEq, Repr, Inhabited

structure Token where
  kind : TKind
  value : List Char
  start : Nat
  bstart : Nat
  stop : Nat     -- `end`
  bstop : Nat    -- `byte_end`
  deriving DecidableEq, Repr, Inhabited

inductive TState where
  | text
  | dstart (rest : List Char)
  | inDelim
  | dend (rest : List Char)
  deriving DecidableEq, Repr, Inhabited

/-- `check_delimiter_start` -/
def checkDelimiterStart (c : Char) (ds : List Char) : TState :=
  match ds with
  | [] => .text            -- Rust: unwrap on None; excluded by `ds ≠ []`
  | d :: rest => if c = d then .dstart rest else .text

/-- `get_state` -/
def getState (c : Char) (ds de : List Char) : TState → Option TKind × TState
  | .text =>
    match checkDelimiterStart c ds with
    | .dstart r => (some .text, .dstart r)
    | _ => (none, .text)
  | .dstart [] => (none, .inDelim)
  | .dstart (x :: r) => if c = x then (none, .dstart r) else (none, .text)
  | .inDelim =>
    match de with
    | [] => (none, .inDelim)   -- Rust: unwrap on None; excluded by `de ≠ []`
    | d :: r => if c = d then (none, .dend r) else (none, .inDelim)
  | .dend [] => (some .element, checkDelimiterStart c ds)
  | .dend (x :: r) => if c = x then (none, .dend r) else (none, .inDelim)

/-- accumulator of the fold over `char_indices` -/
structure TAcc where
  toks : List Token
  st : TState
  bstart : Nat       -- byte_start_pos
  start : Nat        -- start_pos
  cur : Nat          -- current
  bpos : Nat         -- byte_pos of the next character
  pend : List Char   -- source[byte_start_pos .. byte_pos]
  deriving Repr

def TAcc.init : TAcc := ⟨[], .text, 0, 0, 0, 0, []⟩

def tokStep (ds de : List Char) (a : TAcc) (c : Char) : TAcc :=
  match getState c ds de a.st with
  | (some kind, st') =>
    { toks := if a.bpos - a.bstart > 0
              then a.toks ++ [⟨kind, a.pend, a.start, a.bstart, a.cur, a.bpos⟩]
              else a.toks
      st := st', bstart := a.bpos, start := a.cur, cur := a.cur + 1
      bpos := a.bpos + c.utf8Size, pend := [c] }
  | (none, st') =>
    { a with st := st', cur := a.cur + 1, bpos := a.bpos + c.utf8Size, pend := a.pend ++ [c] }

/-- the token pushed after the fold (`additional_token`) -/
def flushToken (ds de : List Char) (src : List Char) (a : TAcc) : Option Token :=
  if src = [] then none
  else
    match (getState ' ' ds de a.st).1 with
    | none => some ⟨.text, a.pend, a.start, a.bstart, a.cur, blen src⟩
    | some kind => some ⟨kind, a.pend, a.start, a.bstart, a.cur, blen src⟩

/-- the final fold merging adjacent text tokens -/
def mergeStep (acc : List Token) (cur : Token) : List Token :=
  match acc.getLast? with
  | some last =>
    if last.kind = .text ∧ cur.kind = .text then
      acc.dropLast ++ [{ last with value := last.value ++ cur.value, stop := cur.stop, bstop := cur.bstop }]
    else acc ++ [cur]
  | none => acc ++ [cur]

def rawTokens (src ds de : List Char) : List Token :=
  let a := src.foldl (tokStep ds de) TAcc.init
  match flushToken ds de src a with
  | some t => a.toks ++ [t]
  | none => a.toks

def tokenize (src ds de : List Char) : List Token :=
  (rawTokens src ds de).foldl mergeStep []

end Chiritori
