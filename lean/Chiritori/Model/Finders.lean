import Chiritori.Model.Text
/-
  Model of chiritori/src/code/utils/{line_break_pos_finder,char_pos_finder,line_map,blank_counter}.rs
-/
namespace Chiritori

inductive Chk where
  | skip
  | found
  | none
  deriving DecidableEq, Repr

/-- `line_break_pos_finder::check` on the byte under the cursor (`x = bytes.get(cursor)`,
    not a boundary ⇒ Skip). -/
def lbCheck : Option ABy → Chk
  | some .cont => .skip
  | some (.lead c) => if c = ' ' ∨ c = '\t' then .skip else if c = '\n' then .found else .none
  | Option.none => .none

/-- `char_pos_finder::check` -/
def chCheck : Option ABy → Chk
  | some .cont => .skip
  | some (.lead c) => if c = ' ' ∨ c = '\t' then .skip else .found
  | Option.none => .none

/-- forward scan of `find_next_line_break_pos` over the suffix starting at `cursor` -/
def nextScan (pause : Bool) : Bytes → Nat → Option Nat
  | [], _ => none
  | x :: rest, cursor =>
    match lbCheck (some x) with
    | .skip => nextScan pause rest (cursor + 1)
    | .found => some cursor
    | .none => if pause then none else nextScan pause rest (cursor + 1)

/-- `find_next_line_break_pos` -/
def findNextLB (b : Bytes) (pos : Nat) (pause : Bool) : Option Nat :=
  if pos ≥ b.length ∨ pos = 0 then none else nextScan pause (b.drop pos) pos

/-- backward scan: `rev` is the reversed prefix `bytes[0..cursor+1]`, i.e. its head is `bytes[cursor]`;
    index 0 is never examined. -/
def prevScan (pause : Bool) : Bytes → Nat → Option Nat
  | [], _ => none
  | x :: rest, cursor =>
    if cursor = 0 then none
    else
      match lbCheck (some x) with
      | .skip => prevScan pause rest (cursor - 1)
      | .found => some cursor
      | .none => if pause then none else prevScan pause rest (cursor - 1)

/-- `find_prev_line_break_pos` -/
def findPrevLB (b : Bytes) (pos : Nat) (pause : Bool) : Option Nat :=
  if pos = 0 then none
  else if pos - 1 ≥ b.length then none
  else prevScan pause (b.take pos).reverse (pos - 1)

def charScan : Bytes → Nat → Option Nat
  | [], _ => none
  | x :: rest, cursor =>
    match chCheck (some x) with
    | .skip => charScan rest (cursor + 1)
    | .found => some cursor
    | .none => none

/-- `find_next_char_pos` -/
def findNextChar (b : Bytes) (pos : Nat) : Option Nat :=
  if pos ≥ b.length ∨ pos = 0 then none else charScan (b.drop pos) pos

/-- `build_line_map`: byte positions of all line breaks -/
def lineMapAux : Bytes → Nat → List Nat
  | [], _ => []
  | .lead c :: rest, i => if c = '\n' then i :: lineMapAux rest (i + 1) else lineMapAux rest (i + 1)
  | .cont :: rest, i => lineMapAux rest (i + 1)

def buildLineMap (b : Bytes) : List Nat := lineMapAux b 0

/-- `find_line` -/
def findLine (lm : List Nat) (needle : Nat) : Nat :=
  match lm.findIdx? (fun v => v ≥ needle) with
  | some i => i + 1
  | none => lm.length + 1

/-- `blank_counter::count_tabspace` on a byte slice -/
def countTabs (b : Bytes) : Nat := (b.filter fun x => x == .lead '\t').length

end Chiritori
