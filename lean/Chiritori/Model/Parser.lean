import Chiritori.Model.ElementParser
/-
  Model of chiritori/src/parser.rs.
-/
namespace Chiritori

inductive Part where
  | text (t : Token)
  | element (el : Element) (startTok endTok : Token) (children : List Part)
  deriving Repr, Inhabited

/-- `name.trim_start_matches("/")` -/
def trimSlashes : List Char → List Char
  | '/' :: r => trimSlashes r
  | s => s

structure TreeResult where
  parts : List Part
  rest : List Token
  closer : Option (Token × Element)
  deriving Inhabited

/-- `tree()`: the loop is unrolled into recursion on the remaining tokens; `fuel` bounds the number of
    loop iterations plus recursive calls; `tokens.length + 1` suffices: `Props.C10.c10` shows that `parse`, which
    starts with that fuel, equals the fuel-free stack machine on every token list). -/
def tree (ds de : List Char) : Nat → List Token → List (List Char) → TreeResult
  | 0, _, _ => ⟨[], [], none⟩
  | _ + 1, [], _ => ⟨[], [], none⟩
  | fuel + 1, t :: rest, parents =>
    match elparse ds de t with
    | none =>
      let r := tree ds de fuel rest parents
      ⟨.text t :: r.parts, r.rest, r.closer⟩
    | some el =>
      if el.name.head? = some '/' ∧ parents.any (· == trimSlashes el.name) then
        ⟨[], rest, some (t, el)⟩                                   -- Closed
      else
        let inner := tree ds de fuel rest (parents ++ [el.name])
        match inner.closer with
        | some (et, eel) =>
          if el.name = trimSlashes eel.name then
            let r := tree ds de fuel inner.rest parents
            ⟨.element el t et inner.parts :: r.parts, r.rest, r.closer⟩
          else
            ⟨.text t :: inner.parts, inner.rest, some (et, eel)⟩   -- Hoisted
        | none =>
          let r := tree ds de fuel inner.rest parents
          ⟨.text t :: inner.parts ++ r.parts, r.rest, r.closer⟩

/-- `parser::parse` -/
def parse (ds de : List Char) (toks : List Token) : List Part :=
  (tree ds de (toks.length + 1) toks []).parts

end Chiritori
