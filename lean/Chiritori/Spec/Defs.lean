import Chiritori.Model.Api
/-
  Reference definitions shared by the property specifications.  They are deliberately written
  *differently* from the model (line tables instead of byte-wise finder loops, explicit readiness
  formula instead of the evaluator registry, stack machine instead of recursive descent, textbook
  scan instead of the automaton) so that the theorems relating them to the model say something.
-/
namespace Chiritori.Spec
open Chiritori

-- every element of a forest, outermost first, in document order
mutual
def elementsOf : List Part → List (Element × Token × Token)
  | [] => []
  | p :: ps => elementsOfPart p ++ elementsOf ps
def elementsOfPart : Part → List (Element × Token × Token)
  | .text _ => []
  | .element el st en ch => (el, st, en) :: elementsOf ch
end

def hasAttr (el : Element) (n : String) : Bool := el.attrs.any fun a => a.name == n.toList

/-- value of the first attribute called `n`, if it has one -/
def attrValue (el : Element) (n : String) : Option (List Char) :=
  match el.attrs.find? (fun a => a.name == n.toList) with
  | some a => a.value
  | none => none

/-- the `to` value parses and the configured instant is at or after it -/
def expired (cfg : Cfg) (el : Element) : Bool :=
  match attrValue el "to" with
  | some v =>
    match chronoParse (v ++ [' '] ++ cfg.offset) with
    | some ex => !(instantLt (cfg.now, cfg.nowNanos) ex)
    | none => false
  | none => false

def targeted (cfg : Cfg) (el : Element) : Bool :=
  match attrValue el "name" with
  | some v => cfg.targets.contains v
  | none => false

/-- "condition satisfied, not marked skip" -/
def conditionHolds (cfg : Cfg) (el : Element) : Bool :=
  !hasAttr el "skip" &&
  ((el.name == cfg.rmName && targeted cfg el) ||
   (el.name == cfg.tlName && el.name != cfg.rmName && expired cfg el))

/-- registered, not skip, condition false -/
def conditionPending (cfg : Cfg) (el : Element) : Bool :=
  !hasAttr el "skip" && (el.name == cfg.rmName || el.name == cfg.tlName) && !conditionHolds cfg el

/-- positions of all line breaks, ascending -/
def lineBreaks (b : Bytes) : List Nat := buildLineMap b

/-- the two wrapper parts of an unwrap-block (C11): `[o, eol(L_o+1))` and `[bol(L_c-1), ce)` -/
def unwrapParts (b : Bytes) (st en : Token) : Option (Rng × Rng) :=
  let lbs := lineBreaks b
  match lbs.find? (fun p => p ≥ st.bstop) with
  | none => none
  | some p1 =>
    match lbs.find? (fun p => p > p1) with
    | none => none
    | some p2 =>
      match (lbs.filter (fun p => p < en.bstart ∧ p ≥ 1)).getLast? with
      | none => none
      | some q1 =>
        match (lbs.filter (fun p => p < q1 ∧ p ≥ 1)).getLast? with
        | none => none
        | some q2 => if q2 ≥ p2 then some ((st.bstart, p2), (q2 + 1, en.bstop)) else none

/-- removable extent of an element (C02): list of byte ranges; `[]` when an unwrap-block cannot be unwrapped -/
def extentOf (b : Bytes) (el : Element) (st en : Token) : List Rng :=
  if hasAttr el "unwrap-block" then
    match unwrapParts b st en with
    | some (h, t) => [h, t]
    | none => []
  else if st.bstart < en.bstop then [(st.bstart, en.bstop)] else []

/-- ready = condition holds and the extent is not empty -/
def readyExtents (cfg : Cfg) (b : Bytes) (parts : List Part) : List Rng :=
  (elementsOf parts).flatMap fun (el, st, en) => if conditionHolds cfg el then extentOf b el st en else []

/-- the extents of the elements still waiting for their condition (C17) -/
def pendingExtents (cfg : Cfg) (b : Bytes) (parts : List Part) : List Rng :=
  (elementsOf parts).flatMap fun (el, st, en) => if conditionPending cfg el then extentOf b el st en else []

/- C15 / C17 at item level: the regions of the elements selected by `sel`, outermost first, in document order -
    one per default-strategy element (nothing from inside it), opening part / inner regions / closing part per
    unwrapped element, nothing for an unwrap-block that cannot be unwrapped (its inner regions are still listed) -/
mutual
def refRegions (sel : Element → Bool) (b : Bytes) : List Part → List Rng
  | [] => []
  | p :: ps => refRegionsPart sel b p ++ refRegions sel b ps
def refRegionsPart (sel : Element → Bool) (b : Bytes) : Part → List Rng
  | .text _ => []
  | .element el st en ch =>
    if sel el then
      match extentOf b el st en with
      | [r] => [r]
      | [h, t] => [h] ++ refRegions sel b ch ++ [t]
      | _ => refRegions sel b ch
    else refRegions sel b ch
end

def inAny (rs : List Rng) (i : Nat) : Bool := rs.any fun r => r.contains i

/-- `b` with every byte whose index lies in one of the ranges taken out -/
def minusRanges (b : Bytes) (rs : List Rng) : Bytes :=
  (b.zipIdx.filter fun (_, i) => !inAny rs i).map (·.1)

def isWs (x : ABy) : Bool := x == .lead ' ' || x == .lead '\t' || x == .lead '\n'

/-- `out` is `keep` with some whitespace bytes taken out (greedy matching is complete) -/
def wsSubseq : Bytes → Bytes → Bool
  | [], [] => true
  | [], _ :: _ => false
  | k :: ks, [] => isWs k && wsSubseq ks []
  | k :: ks, o :: os => if k == o then wsSubseq ks os else isWs k && wsSubseq ks (o :: os)

end Chiritori.Spec
