import Chiritori.Model.ElementParser
/-
  The tag grammar of C09.
-/
namespace Chiritori.Spec
open Chiritori

def isSep (c : Char) : Bool := c == ' ' || c == '\n'
def nameChar (c : Char) : Bool := !(c == ' ' || c == '\n' || c == '=')
def nameStart (c : Char) : Bool := nameChar c && !(c == '"' || c == '\'')

/-- a name: non-empty, no separator or `=` inside, not starting with a quote -/
def NameOK (n : List Char) : Prop := ∃ c cs, n = c :: cs ∧ nameStart c = true ∧ ∀ x ∈ cs, nameChar x = true

inductive AttrS where
  | bare (n : List Char)
  | quoted (n : List Char) (padL padR : Nat) (q : Char) (v : List Char)

def AttrS.ok : AttrS → Prop
  | .bare n => NameOK n
  | .quoted n _ _ q v => NameOK n ∧ (q = '"' ∨ q = '\'') ∧ q ∉ v

def AttrS.render : AttrS → List Char
  | .bare n => n
  | .quoted n l r q v => n ++ (List.replicate l ' ' ++ ('=' :: (List.replicate r ' ' ++ (q :: (v ++ [q])))))

def AttrS.parsed : AttrS → List Char × Option (List Char)
  | .bare n => (n, none)
  | .quoted n _ _ _ v => (n, some v)

structure TagS where
  padL : Nat
  name : List Char
  attrs : List (List Char × AttrS)     -- separator before the attribute, attribute
  padR : List Char

def TagS.ok (t : TagS) : Prop :=
  NameOK t.name ∧
  (∀ sa ∈ t.attrs, sa.1 ≠ [] ∧ (∀ c ∈ sa.1, isSep c = true) ∧ sa.2.ok) ∧
  (∀ c ∈ t.padR, isSep c = true)

def renderAttrs : List (List Char × AttrS) → List Char
  | [] => []
  | (sep, a) :: rest => sep ++ (a.render ++ renderAttrs rest)

def TagS.render (t : TagS) : List Char :=
  List.replicate t.padL ' ' ++ (t.name ++ (renderAttrs t.attrs ++ t.padR))

def TagS.expected (t : TagS) : Element :=
  ⟨t.name, t.attrs.map fun sa => ⟨sa.2.parsed.1, sa.2.parsed.2⟩⟩

end Chiritori.Spec
