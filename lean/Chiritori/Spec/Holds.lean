import Chiritori.Spec.Defs
/-
  The decidable predicate of each property, evaluated (a) in theorems about the model and
  (b) by the driver on the output the *implementation* produced.
-/
namespace Chiritori.Spec
open Chiritori

/-! ### C02 / C03 -/

def extentsOfSource (src ds de : List Char) (cfg : Cfg) : List Rng :=
  readyExtents cfg (bytesOf src) (parseSource src ds de)

/-- output = input minus the ready extents minus some whitespace -/
def c02c03Holds (src ds de : List Char) (cfg : Cfg) (out : List Char) : Bool :=
  wsSubseq (minusRanges (bytesOf src) (extentsOfSource src ds de cfg)) (bytesOf out)

/-! ### C04 -/

def nothingReady (src ds de : List Char) (cfg : Cfg) : Bool := (extentsOfSource src ds de cfg).isEmpty

def c04Holds (src ds de : List Char) (cfg : Cfg) (out : List Char) : Bool :=
  !nothingReady src ds de cfg || out == src

/-! ### C07 -/

def contiguous : List Token → Bool
  | a :: b :: rest => a.stop == b.start && a.bstop == b.bstart && contiguous (b :: rest)
  | _ => true

def noAdjacentText : List Token → Bool
  | a :: b :: rest => !(a.kind == .text && b.kind == .text) && noAdjacentText (b :: rest)
  | _ => true

def tokenOk (src ds de : List Char) (t : Token) : Bool :=
  t.value != [] &&
  t.stop - t.start == t.value.length && t.start ≤ t.stop &&
  t.bstop - t.bstart == blen t.value && t.bstart ≤ t.bstop &&
  isBoundary (bytesOf src) t.bstart && isBoundary (bytesOf src) t.bstop &&
  (t.kind == .text || (ds.isPrefixOf t.value && de.isSuffixOf t.value))

def c07Holds (src ds de : List Char) (ts : List Token) : Bool :=
  (src == [] && ts == []) ||
  (match ts.head?, ts.getLast? with
   | some h, some l => h.start == 0 && h.bstart == 0 && l.stop == src.length && l.bstop == blen src
   | _, _ => false) &&
  contiguous ts && noAdjacentText ts && ts.all (tokenOk src ds de) &&
  (ts.flatMap (·.value)) == src

/-! ### C08 -/

/-- offset of the first occurrence of `pat` in `s` -/
def findSub (pat : List Char) : List Char → Option Nat
  | [] => if pat.isEmpty then some 0 else none
  | c :: cs =>
    if pat.isPrefixOf (c :: cs) then some 0
    else (findSub pat cs).map (· + 1)

/-- leftmost-shortest scan; fuel = length of the source -/
def textbookAux (ds de : List Char) : Nat → List Char → List Char → List (TKind × List Char)
  | 0, s, pend => if (pend ++ s).isEmpty then [] else [(.text, pend ++ s)]
  | fuel + 1, s, pend =>
    match findSub ds s with
    | none => if (pend ++ s).isEmpty then [] else [(.text, pend ++ s)]
    | some i =>
      let afterDs := s.drop (i + ds.length)
      match afterDs with
      | [] => if (pend ++ s).isEmpty then [] else [(.text, pend ++ s)]
      | _ :: body =>
        match findSub de body with
        | none => if (pend ++ s).isEmpty then [] else [(.text, pend ++ s)]
        | some j =>
          let tagLen := ds.length + 1 + j + de.length
          let txt := pend ++ s.take i
          (if txt.isEmpty then [] else [(.text, txt)]) ++
            [(.element, (s.drop i).take tagLen)] ++
            textbookAux ds de fuel (s.drop (i + tagLen)) []

def textbook (src ds de : List Char) : List (TKind × List Char) := textbookAux ds de src.length src []

def c08Holds (src ds de : List Char) (ts : List Token) : Bool :=
  (ts.map fun t => (t.kind, t.value)) == textbook src ds de

/-! ### C10 -/

structure Frame where
  tok : Token
  el : Element
  parts : List Part        -- children so far, in document order

def appendTo (stack : List Frame) (root : List Part) (ps : List Part) : List Frame × List Part :=
  match stack with
  | [] => ([], root ++ ps)
  | f :: fs => ({ f with parts := f.parts ++ ps } :: fs, root)

/-- close the innermost frame whose name is `name`: every frame above it is demoted (its opener
    becomes text, its children are hoisted); `hoisted` collects what moves down -/
def closeFrame (name : List Char) (closer : Token) :
    List Frame → List Part → List Part → Option (List Frame × List Part)
  | [], _, _ => none
  | f :: fs, root, hoisted =>
    if f.el.name = name then
      some (appendTo fs root [.element f.el f.tok closer (f.parts ++ hoisted)])
    else closeFrame name closer fs root (.text f.tok :: (f.parts ++ hoisted))

def stackStep (ds de : List Char) (st : List Frame × List Part) (t : Token) : List Frame × List Part :=
  let (stack, root) := st
  match elparse ds de t with
  | none => appendTo stack root [.text t]
  | some el =>
    if el.name.head? = some '/' ∧ stack.any (fun f => f.el.name == trimSlashes el.name) then
      match closeFrame (trimSlashes el.name) t stack root [] with
      | some r => r
      | none => (stack, root)   -- unreachable: a matching frame exists
    else (⟨t, el, []⟩ :: stack, root)

/-- end of input: every open frame is demoted -/
def finishStack : List Frame → List Part → List Part → List Part
  | [], hoisted, root => root ++ hoisted
  | f :: fs, hoisted, root => finishStack fs (.text f.tok :: (f.parts ++ hoisted)) root

/-- the left-to-right stack machine of C10 -/
def stackParse (ds de : List Char) (toks : List Token) : List Part :=
  let (stack, root) := toks.foldl (stackStep ds de) ([], [])
  finishStack stack [] root

mutual
def renderParts : List Part → List Nat
  | [] => []
  | p :: ps => renderPart p ++ renderParts ps
def renderPart : Part → List Nat
  | .text t => [0, t.bstart]
  | .element _ st en ch => [1, st.bstart, en.bstart] ++ renderParts ch ++ [2]
end

mutual
def flattenParts : List Part → List Token
  | [] => []
  | p :: ps => flattenPart p ++ flattenParts ps
def flattenPart : Part → List Token
  | .text t => [t]
  | .element _ st en ch => st :: flattenParts ch ++ [en]
end

/-! ### C14 -/

def trimWs (b : Bytes) : Bytes := ((b.dropWhile isWs).reverse.dropWhile isWs).reverse

/-- split on line breaks -/
def splitLines : Bytes → Bytes → List Bytes
  | [], cur => [cur]
  | x :: xs, cur => if x == .lead '\n' then cur :: splitLines xs [] else splitLines xs (cur ++ [x])

/-- maximal runs of bytes outside `ext`; runs inside an unwrapped body are cut at every line break -/
def stretchesAux (ext bodies : List Rng) : List (ABy × Nat) → Bytes → List Bytes
  | [], cur => [cur]
  | (x, i) :: rest, cur =>
    if inAny ext i then cur :: stretchesAux ext bodies rest []
    else if inAny bodies i ∧ x == .lead '\n' then cur :: stretchesAux ext bodies rest []
    else
      -- entering or leaving a body also cuts the stretch
      match rest with
      | (_, j) :: _ =>
        if inAny bodies i != inAny bodies j ∧ !inAny ext j then (cur ++ [x]) :: stretchesAux ext bodies rest []
        else stretchesAux ext bodies rest (cur ++ [x])
      | [] => [cur ++ [x]]

def stretches (b : Bytes) (ext bodies : List Rng) : List Bytes :=
  ((stretchesAux ext bodies b.zipIdx []).map trimWs).filter (· != [])

/-- first offset at which `pat` occurs in `s` -/
def findBytes (pat : Bytes) : Bytes → Option Nat
  | [] => if pat.isEmpty then some 0 else none
  | c :: cs => if pat.isPrefixOf (c :: cs) then some 0 else (findBytes pat cs).map (· + 1)

def occurInOrder : List Bytes → Bytes → Bool
  | [], _ => true
  | p :: ps, s =>
    match findBytes p s with
    | some i => occurInOrder ps (s.drop (i + p.length))
    | none => false

/-- the bodies of the unwrapped ready elements: between head part and tail part -/
def unwrappedBodies (cfg : Cfg) (b : Bytes) (parts : List Part) : List Rng :=
  (elementsOf parts).flatMap fun (el, st, en) =>
    if conditionHolds cfg el ∧ hasAttr el "unwrap-block" then
      match unwrapParts b st en with
      | some (h, t) => [(h.2, t.1)]
      | none => []
    else []

def c14Holds (src ds de : List Char) (cfg : Cfg) (out : List Char) : Bool :=
  let b := bytesOf src
  let parts := parseSource src ds de
  occurInOrder (stretches b (readyExtents cfg b parts) (unwrappedBodies cfg b parts)) (bytesOf out)

/-! ### C15 / C17: the listed regions, item by item -/

-- decidable form of "no tag stands on a wrapper line of an unwrappable unwrap-block" (the C15 space)
mutual
def wrapFreeB (b : Bytes) : List Part → Bool
  | [] => true
  | p :: ps => wrapFreePartB b p && wrapFreeB b ps
def wrapFreePartB (b : Bytes) : Part → Bool
  | .text _ => true
  | .element el st en ch =>
    (match extentOf b el st en with
     | [h, t] => (elementsOf ch).all fun e => decide (h.2 ≤ e.2.1.bstart) && decide (e.2.2.bstop < t.1)
     | _ => true) && wrapFreeB b ch
end


def swallowedBy (rs : List Rng) (p : Rng) : Bool :=
  rs.any fun r => decide (r.1 ≤ p.1) && decide (p.1 < r.2) && (decide (r.1 ≤ p.2) && decide (p.2 < r.2))

def startsSortedB : List (Nat × Nat × Bool) → Nat → Bool
  | [], _ => true
  | x :: xs, lo => decide (lo ≤ x.1) && startsSortedB xs x.1

/-- C15 on an observed list: the regions are the reference regions of the ready elements -/
def c15Holds (src ds de : List Char) (cfg : Cfg) (items : List Rng) : Bool :=
  items == refRegions (conditionHolds cfg) (bytesOf src) (parseSource src ds de)

/-- C17 on an observed full list `(start, stop, isReady)` -/
def c17Holds (src ds de : List Char) (cfg : Cfg) (items : List (Nat × Nat × Bool)) : Bool :=
  let b := bytesOf src
  let parts := parseSource src ds de
  let R := refRegions (conditionHolds cfg) b parts
  let P := refRegions (conditionPending cfg) b parts
  ((items.filter (·.2.2)).map (fun x => (x.1, x.2.1)) == R) &&
  ((items.filter (fun x => !x.2.2)).map (fun x => (x.1, x.2.1)) == P.filter (fun p => !swallowedBy R p)) &&
  startsSortedB items 0

/-! ### C13: lines -/

/-- `split_inclusive('\n')` on bytes -/
def linesT : Bytes → Bytes → List Bytes
  | [], [] => []
  | [], cur => [cur]
  | x :: xs, cur => if x = NL then (cur ++ [x]) :: linesT xs [] else linesT xs (cur ++ [x])

def isBlankLine (l : Bytes) : Bool := l.all isWs

def nbl (l : Bytes) : Bool := !isBlankLine l

/-- the non-blank lines of a text, line breaks included -/
def nonBlankLines (K : Bytes) : List Bytes := (linesT K []).filter nbl

def isBlankB (x : ABy) : Bool := x == .lead ' ' || x == .lead '\t'

/-- the line start in front of `p` when only blanks stand between -/
def lineStartBlank (K : Bytes) : Nat → Nat → Option Nat
  | 0, p => if p = 0 then some 0 else none
  | fuel + 1, p =>
    if p = 0 then some 0
    else match K[p - 1]? with
      | some x => if x == NL then some p else if isBlankB x then lineStartBlank K fuel (p - 1) else none
      | none => none

def blockStyleB (K : Bytes) (pos : List Nat) : Bool :=
  pos.all fun p =>
    (K[p]? == some NL || p == K.length) && decide (p ≤ K.length) &&
    match lineStartBlank K (p + 1) p with
    | some ls => !(ls == 0) || p == 0
    | none => false


def noReadyUnwrapB (cfg : Cfg) (parts : List Part) : Bool :=
  (elementsOf parts).all fun e => !conditionHolds cfg e.1 || !hasAttr e.1 "unwrap-block"

/-- C13 (a) on an observed output: `none` when the source is outside the hypothesis (an unwrapped block, or a removal
    that is not block-style) -/
def c13Holds (src ds de : List Char) (cfg : Cfg) (out : List Char) : Option Bool :=
  let b := bytesOf src
  let parts := parseSource src ds de
  let K := minusRanges b (readyExtents cfg b parts)
  let pos := match getRemovedPos (buildRemoveMarker cfg b parts) with
    | .ok p => p.map (·.1)
    | .error _ => []
  if noReadyUnwrapB cfg parts && blockStyleB K pos then some (nonBlankLines (bytesOf out) == nonBlankLines K)
  else none

end Chiritori.Spec
