import Chiritori.Spec.Holds
import Chiritori.Props.C08Source
/-
  `spec` requests of the driver: evaluate a property's predicate on an observed (implementation) output.
  extra fields: property id, then property-specific fields.
-/
namespace Chiritori.Spec
open Chiritori

def hexVal (c : Char) : Nat :=
  if '0' ≤ c ∧ c ≤ '9' then c.toNat - 48
  else if 'a' ≤ c ∧ c ≤ 'f' then c.toNat - 87 else 0

def unhexBytes : List Char → ByteArray → ByteArray
  | a :: b :: rest, acc => unhexBytes rest (acc.push (UInt8.ofNat (hexVal a * 16 + hexVal b)))
  | _, acc => acc

def unhex (s : String) : List Char :=
  match String.fromUTF8? (unhexBytes s.toList ByteArray.empty) with
  | some str => str.toList
  | none => []

def parseToken (s : String) : Option Token :=
  match s.splitOn ":" with
  | [k, a, b, c, d, v] =>
    some ⟨if k == "E" then .element else .text, unhex v, a.toNat!, c.toNat!, b.toNat!, d.toNat!⟩
  | _ => none

def parseTokens (s : String) : List Token :=
  if s.isEmpty then [] else (s.splitOn " ").filterMap parseToken

mutual
def treeString : List Part → String
  | [] => ""
  | p :: ps => partString p ++ treeString ps
def partString : Part → String
  | .text t => s!"T{t.bstart} "
  | .element _ st en ch => s!"E{st.bstart},{en.bstart}( " ++ treeString ch ++ ") "
end

/-- "a-b:pair[:R|P]" items of a `trace` reply -/
def parseRegion (s : String) : Option (Nat × Nat × Bool) :=
  match s.splitOn ":" with
  | rng :: _ :: rest =>
    match rng.splitOn "-" with
    | [a, z] => some (a.toNat!, z.toNat!, rest != ["P"])
    | _ => none
  | _ => none

def parseRegions (s : String) : List (Nat × Nat × Bool) :=
  if s.isEmpty then [] else (s.splitOn " ").filterMap parseRegion

def b2s (b : Bool) : String := if b then "true" else "false"

def dispatch (extra : List String) (src ds de : List Char) (cfg : Cfg) (_args : List Int) : String :=
  match extra with
  | ["C02C03", out] =>
    let n := (extentsOfSource src ds de cfg).length
    s!"ok\t{b2s (c02c03Holds src ds de cfg (unhex out))} {n}"
  | ["C04", out] =>
    if nothingReady src ds de cfg then s!"ok\t{b2s (c04Holds src ds de cfg (unhex out))}" else "ok\tvacuous"
  | ["C07", toks] => s!"ok\t{b2s (c07Holds src ds de (parseTokens toks))}"
  | ["C08", toks] => s!"ok\t{b2s (c08Holds src ds de (parseTokens toks))}"
  | ["C08fits"] => s!"ok\t{b2s (Props.C08.fitsSource ds de src)}"
  | ["C10", tree] =>
    let exp := treeString (stackParse ds de (tokenize src ds de))
    s!"ok\t{b2s (exp == tree)}"
  | ["C14", out] =>
    let n := (extentsOfSource src ds de cfg).length
    s!"ok\t{b2s (c14Holds src ds de cfg (unhex out))} {n}"
  | ["C13", out] =>
    (match c13Holds src ds de cfg (unhex out) with
     | some r => s!"ok\t{b2s r}"
     | none => "ok\tvacuous")
  | ["C15", items] =>
    if wrapFreeB (bytesOf src) (parseSource src ds de) then
      s!"ok\t{b2s (c15Holds src ds de cfg ((parseRegions items).map fun x => (x.1, x.2.1)))}"
    else "ok\tvacuous"
  | ["C17", items] =>
    if wrapFreeB (bytesOf src) (parseSource src ds de) then
      s!"ok\t{b2s (c17Holds src ds de cfg (parseRegions items))}"
    else "ok\tvacuous"
  | _ => "ok\tno-spec"

end Chiritori.Spec
