import Chiritori.Model.Api
namespace Chiritori.Spec

/-- `spec` requests: evaluate a property's decidable predicate on an observed output.
    extra fields: property id, then property-specific hex fields. -/
def dispatch (_extra : List String) (_src _ds _de : List Char) (_cfg : Cfg) (_args : List Int) : String :=
  "ok\tno-spec"

end Chiritori.Spec
