import Chiritori.Spec.Holds
namespace Chiritori.Props.C05
end Chiritori.Props.C05
