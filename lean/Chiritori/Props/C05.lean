import Chiritori.Lemmas.Time
import Chiritori.Lemmas.Decision
/-
  C05 — Expiry decision: removed exactly when now >= `to` at the configured offset.

  chrono's parser is *modelled* (Model/Time.lean); what is proved here is proved of that model:
  * `calendar_step`, `calendar_origin`: the day count used for the instant is the proleptic Gregorian one;
  * `canonical_parse`, `decision`: for every canonical `YYYY-MM-DD HH:MM:SS` and every offset `±HH:MM` / `±HHMM`
    the element is ready exactly when `now ≥ epoch(to) − offset`; equality counts as expired;
  * `missing_to`, `valueless_to` and the malformed-class lemmas: never ready;
  * `monotone`: for a fixed element the decision only switches from kept to removed as time advances.
-/
namespace Chiritori.Props.C05
open Chiritori Chiritori.Spec

/-! ### the calendar is the Gregorian calendar -/
theorem calendar_origin : daysFromCivil 1970 1 1 = 0 := daysFromCivil_epoch
theorem calendar_step (x : Date) (h : x.valid) :
    (nextDay x).valid ∧ daysFromCivil (nextDay x).y (nextDay x).m (nextDay x).d = daysFromCivil x.y x.m x.d + 1 :=
  ⟨nextDay_valid x h, daysFromCivil_nextDay x h⟩

/-! ### canonical spellings -/
def renderTo (Y M D h m s : Nat) : List Char :=
  d4 Y ++ ('-' :: (d2 M ++ ('-' :: (d2 D ++ (' ' :: (d2 h ++ (':' :: (d2 m ++ (':' :: d2 s)))))))))

def renderOff (neg : Bool) (hh mm : Nat) (colon : Bool) : List Char :=
  (if neg then '-' else '+') :: (d2 hh ++ ((if colon then [':'] else []) ++ d2 mm))

def offSeconds (neg : Bool) (hh mm : Nat) : Int :=
  if neg then -((hh * 3600 + mm * 60 : Nat) : Int) else ((hh * 3600 + mm * 60 : Nat) : Int)

theorem scanOffset_render (neg : Bool) (hh mm : Nat) (colon : Bool) (h1 : hh < 100) (h2 : mm < 60) (rest : List Char) :
    scanOffset (renderOff neg hh mm colon ++ rest) = some (offSeconds neg hh mm, rest) := by
  have a1 : hh / 10 < 10 := by omega
  have a2 : hh % 10 < 10 := by omega
  have a3 : mm / 10 < 10 := by omega
  have a4 : mm % 10 < 10 := by omega
  have a5 : mm / 10 ≤ 5 := by omega
  have hc : colonOrSpace ((if colon then [':'] else []) ++ (d2 mm ++ rest)) = d2 mm ++ rest := by
    cases colon <;>
      simp [colonOrSpace, d2, dch_ne_colon _ a3, notWs_dch _ a3]
  have hsign : ((if neg = true then '-' else '+') = '+' ∨ (if neg = true then '-' else '+') = '-' ∨
      (if neg = true then '-' else '+') = '−') := by cases neg <;> simp
  unfold scanOffset renderOff
  simp only [d2, List.cons_append, List.nil_append, List.append_assoc]
  have hc' : colonOrSpace ((if colon = true then [':'] else []) ++ dch (mm / 10) :: dch (mm % 10) :: rest)
      = dch (mm / 10) :: dch (mm % 10) :: rest := by simpa [d2] using hc
  simp only [hsign, isDigit_dch _ a1, isDigit_dch _ a2, and_self, ite_true, hc', isDigit_dch _ a3,
    isDigit_dch _ a4, digitVal_dch _ a1, digitVal_dch _ a2, digitVal_dch _ a3, digitVal_dch _ a4, a5]
  unfold offSeconds
  cases neg
  · simp; omega
  · simp; omega

/-- the canonical spelling followed by anything: accepted iff nothing follows -/
theorem canonical_parse_tail (Y M D h m s hh mm : Nat) (neg colon : Bool) (tail : List Char)
    (hY : Y < 10000) (hM : M < 100) (hD : D < 100) (hh' : h < 100) (hm : m < 100) (hs : s < 100)
    (hoh : hh < 100) (hom : mm < 60) :
    parseFields (renderTo Y M D h m s ++ [' '] ++ renderOff neg hh mm colon ++ tail)
      = if tail = [] then some ⟨(Y : Int), M, D, h, m, s, offSeconds neg hh mm⟩ else none := by
  have hsp : isWhitespace ' ' = true := by decide
  have hwp : isWhitespace '+' = false := by decide
  have hwm : isWhitespace '-' = false := by decide
  have hoff0 : ∀ r, trimStartWs (renderOff neg hh mm colon ++ r) = renderOff neg hh mm colon ++ r := by
    intro r; cases neg <;> simp [renderOff, trimStartWs, hwp, hwm]
  unfold parseFields renderTo
  simp only [List.append_assoc, List.cons_append, List.nil_append]
  rw [parseYear_d4 Y hY]
  simp only [Option.bind_eq_bind, Option.bind_some, literal, ite_true]
  rw [parseNum2_d2 M hM]
  simp only [Option.bind_some, literal, ite_true]
  rw [parseNum2_d2 D hD]
  simp only [Option.bind_some]
  have t1 : ∀ r, trimStartWs (' ' :: r) = trimStartWs r := by intro r; simp [trimStartWs, hsp]
  rw [t1, trimStartWs_d2 h hh', parseNum2_d2 h hh']
  simp only [Option.bind_some, literal, ite_true]
  rw [parseNum2_d2 m hm]
  simp only [Option.bind_some, literal, ite_true]
  rw [parseNum2_d2 s hs]
  simp only [Option.bind_some]
  rw [t1, hoff0, hoff0, scanOffset_render neg hh mm colon hoh hom tail]
  by_cases ht : tail = [] <;> simp [ht]

theorem canonical_parse (Y M D h m s hh mm : Nat) (neg colon : Bool)
    (hY : Y < 10000) (hM : M < 100) (hD : D < 100) (hh' : h < 100) (hm : m < 100) (hs : s < 100)
    (hoh : hh < 100) (hom : mm < 60) :
    parseFields (renderTo Y M D h m s ++ [' '] ++ renderOff neg hh mm colon)
      = some ⟨(Y : Int), M, D, h, m, s, offSeconds neg hh mm⟩ := by
  have := canonical_parse_tail Y M D h m s hh mm neg colon [] hY hM hD hh' hm hs hoh hom
  simpa using this

/-- trailing characters after the offset (a `to` value that already carries a zone, junk after the offset string) -/
theorem trailing_rejected (Y M D h m s hh mm : Nat) (neg colon : Bool) (c : Char) (rest : List Char)
    (hY : Y < 10000) (hM : M < 100) (hD : D < 100) (hh' : h < 100) (hm : m < 100) (hs : s < 100)
    (hoh : hh < 100) (hom : mm < 60) :
    chronoParse (renderTo Y M D h m s ++ [' '] ++ renderOff neg hh mm colon ++ c :: rest) = none := by
  unfold chronoParse
  rw [canonical_parse_tail Y M D h m s hh mm neg colon (c :: rest) hY hM hD hh' hm hs hoh hom]
  simp

theorem resolve_valid (Y M D h m s : Nat) (off : Int) (hY : Y < 10000) (hM1 : 1 ≤ M) (hM2 : M ≤ 12)
    (hD1 : 1 ≤ D) (hD2 : D ≤ daysInMonth Y M) (hh : h < 24) (hm : m < 60) (hs : s < 60)
    (ho1 : -86400 < off) (ho2 : off < 86400) :
    resolve ⟨(Y : Int), M, D, h, m, s, off⟩ = some (epochOf Y M D h m s - off, 0) := by
  have hd31 := daysInMonth_le (Y : Int) M
  have hbm := daysBeforeMonth_le (Y : Int) M hM2
  have lo : daysFromCivil minYear 1 1 = -96465292 := by decide +kernel
  have hi : daysFromCivil maxYear 12 31 = 95026236 := by decide +kernel
  have hy1 : ¬ (((Y : Int) < minYear) ∨ ((Y : Int) > maxYear)) := by unfold minYear maxYear; omega
  have hs60 : s ≠ 60 := by omega
  unfold resolve
  simp only [hs60, ite_false]
  rw [if_neg (by omega), if_neg (by omega), if_neg (by omega), if_neg (by omega), if_neg (by omega),
    if_neg hy1, if_neg (by omega), if_neg (by omega)]
  rw [lo, hi]
  have hb : ¬ (epochOf Y M D h m s - off < -96465292 * 86400 ∨ epochOf Y M D h m s - off ≥ (95026236 + 1) * 86400) := by
    unfold epochOf daysFromCivil daysBeforeYear
    omega
  rw [if_neg hb]

/-- Main decision theorem: a time-limited element whose first `to` attribute has a canonical value, under a
    canonical offset, is ready exactly when the current instant is at or after the wall-clock time read at that
    offset; equality counts as expired. -/
theorem decision (cfg : Cfg) (el : Element) (Y M D h m s hh mm : Nat) (neg colon : Bool)
    (hto : attrValue el "to" = some (renderTo Y M D h m s))
    (hoff : cfg.offset = renderOff neg hh mm colon)
    (hY : Y < 10000) (hM1 : 1 ≤ M) (hM2 : M ≤ 12) (hD1 : 1 ≤ D) (hD2 : D ≤ daysInMonth Y M)
    (hh' : h < 24) (hm : m < 60) (hs : s < 60) (hoh : hh < 24) (hom : mm < 60) :
    timeIsRemoval cfg el = true ↔ cfg.now ≥ epochOf Y M D h m s - offSeconds neg hh mm := by
  have hd31 := daysInMonth_le (Y : Int) M
  have hp := canonical_parse Y M D h m s hh mm neg colon hY (by omega) (by omega) (by omega) (by omega) (by omega)
    (by omega) hom
  have ho : -86400 < offSeconds neg hh mm ∧ offSeconds neg hh mm < 86400 := by
    unfold offSeconds; cases neg <;> simp <;> omega
  have hr := resolve_valid Y M D h m s (offSeconds neg hh mm) hY hM1 hM2 hD1 hD2 hh' hm hs ho.1 ho.2
  rw [timeIsRemoval_eq_expired]
  unfold expired
  rw [hto, hoff]
  simp only
  unfold chronoParse
  rw [hp]
  simp only [Option.bind_some, hr]
  unfold instantLt
  simp

/-! ### never ready without a parseable `to` -/
theorem missing_to (cfg : Cfg) (el : Element) (h : attrValue el "to" = none) : timeIsRemoval cfg el = false := by
  rw [timeIsRemoval_eq_expired]; unfold expired; rw [h]

theorem unparseable_never_ready (cfg : Cfg) (el : Element) (v : List Char) (hv : attrValue el "to" = some v)
    (hp : chronoParse (v ++ [' '] ++ cfg.offset) = none) : timeIsRemoval cfg el = false := by
  rw [timeIsRemoval_eq_expired]; unfold expired; rw [hv]; simp only; rw [hp]

/-- out-of-range fields are rejected whatever the other fields are -/
theorem resolve_out_of_range (f : Fields)
    (h : f.month = 0 ∨ f.month > 12 ∨ f.day = 0 ∨ f.day > daysInMonth f.year f.month ∨ f.hour > 23 ∨
      f.minute > 59 ∨ f.second > 60 ∨ f.off ≥ 86400 ∨ f.off ≤ -86400) : resolve f = none := by
  unfold resolve
  have := daysInMonth_le f.year f.month
  repeat' split
  all_goals first | rfl | omega

/-- a date separator other than `-` (`2020/01/01 ...`) -/
theorem bad_date_separator (Y : Nat) (hY : Y < 10000) (c : Char) (hc : c ≠ '-') (rest : List Char) :
    parseFields (d4 Y ++ c :: rest) = none := by
  unfold parseFields
  rw [parseYear_d4 Y hY]
  simp [literal, hc]

/-- anything but blanks and digits between date and time (`2020-01-01T00:00:00`), or no time at all -/
theorem bad_date_time_separator (Y M D : Nat) (hY : Y < 10000) (hM : M < 100) (hD : D < 100) (c : Char)
    (hc1 : isWhitespace c = false) (hc2 : isDigit c = false) (rest : List Char) :
    parseFields (d4 Y ++ ('-' :: (d2 M ++ ('-' :: (d2 D ++ c :: rest))))) = none := by
  unfold parseFields
  rw [parseYear_d4 Y hY]
  simp only [Option.bind_eq_bind, Option.bind_some, literal, ite_true]
  rw [parseNum2_d2 M hM]
  simp only [Option.bind_some, literal, ite_true]
  rw [parseNum2_d2 D hD]
  simp only [Option.bind_some]
  have : parseNum2 (trimStartWs (c :: rest)) = none := by
    simp [parseNum2, trimStartWs, hc1, scanNumber, scanDigits, hc2]
  rw [this]
  rfl

/-! ### monotonicity -/
theorem monotone (cfg : Cfg) (el : Element) (now' : Int) (h : cfg.now ≤ now')
    (hr : timeIsRemoval cfg el = true) : timeIsRemoval { cfg with now := now' } el = true := by
  rw [timeIsRemoval_eq_expired] at hr ⊢
  unfold expired at hr ⊢
  cases hv : attrValue el "to" with
  | none => rw [hv] at hr; simp at hr
  | some v =>
    rw [hv] at hr
    simp only at hr ⊢
    cases hp : chronoParse (v ++ [' '] ++ cfg.offset) with
    | none => rw [hp] at hr; simp at hr
    | some ex =>
      rw [hp] at hr
      simp only [instantLt, Bool.not_eq_true', Bool.or_eq_false_iff, decide_eq_false_iff_not, Bool.and_eq_false_iff,
        beq_eq_false_iff_ne] at hr ⊢
      obtain ⟨h1, h2⟩ := hr
      refine ⟨by omega, ?_⟩
      rcases h2 with h2 | h2
      · by_cases he : now' = ex.1
        · right
          have : cfg.now < ex.1 ∨ cfg.now = ex.1 := by omega
          rcases this with h3 | h3
          · exact absurd h3 h1
          · exact absurd h3 h2
        · left; exact he
      · right; exact h2

/-! Non-vacuity: the boundary second, at +09:00. 2000-01-01 00:00:00 +09:00 = 946652400. -/
example : chronoParse "2000-01-01 00:00:00 +09:00".toList = some (946652400, 0) := by decide +kernel
example : chronoParse "2021-02-29 00:00:00 +00:00".toList = none := by decide +kernel
example : chronoParse "2020-01-01T00:00:00 +00:00".toList = none := by decide +kernel
example : chronoParse "2020-01-01 00:00:00 +24:00".toList = none := by decide +kernel
example : chronoParse "2020-01-01 00:00:00 +09:60".toList = none := by decide +kernel
example : chronoParse "2020-01-01 00:00:00 +09:00 +00:00".toList = none := by decide +kernel

end Chiritori.Props.C05
