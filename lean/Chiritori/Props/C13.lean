import Chiritori.Lemmas.FormatWs
/-
  C13 — Block-style removal keeps lines intact and leaves no blank-line residue.

  Proved (for every text): the union of the four seam formatters around a *block-style seam* - a removed position
  `pos` that is followed by a line break and preceded on its line by blanks only, the line not being the first of
  the file - consists of whole whitespace-only lines:
  * `hull_shape`: the hull `[S, E)` is whitespace, `S` is a line start with `S ≤ pos`, and `E` is `pos`, `pos+1`
    (just behind the residual line break) or the position of a line break;
  * `non_blank_line_intact`: consequently no byte of any non-blank line, nor the line break that ends it, lies in
    the hull: surviving non-blank lines stay byte for byte, indentation included, each on a line of its own.
  Not proved yet: the blank-line arithmetic `a + b - [a>0 ∧ b>0]` in closed form, and the lifting from one seam
  to a block document (that every seam of such a document is block-style and that seams separated by a
  non-blank line do not interact).  The first line of the file is the known finding D7.
-/
namespace Chiritori.Props.C13
open Chiritori

/-- position `x` starts a line -/
def LineStart (b : Bytes) (x : Nat) : Prop := x = 0 ∨ (0 < x ∧ b[x - 1]? = some (.lead '\n'))

/-- what each seam formatter contributes -/
structure SeamPart (s : List Char) (pos : Nat) (r : Nat × Nat) : Prop where
  good : GoodRange s pos r
  startOK : r.1 = pos ∨ LineStart (bytesOf s) r.1
  endOK : r.2 = pos ∨ (r.2 = pos + 1 ∧ (bytesOf s)[pos]? = some (.lead '\n')) ∨ (bytesOf s)[r.2]? = some (.lead '\n')

theorem fmtIndent_part (s : List Char) (pos : Nat) (r : Nat × Nat) (hb : isBoundary (bytesOf s) pos = true)
    (hl : pos ≤ blen s) (h : fmtIndent (bytesOf s) pos = .ok r) : SeamPart s pos r := by
  have g := fmtIndent_good s pos r hb hl h
  refine ⟨g, ?_, ?_⟩
  · unfold fmtIndent at h
    split at h
    · injection h with h; subst h; exact Or.inl rfl
    · rename_i hg
      simp only [not_or, Nat.not_le, Bool.not_eq_true', Bool.not_eq_eq_eq_not, Bool.not_not] at hg
      have hlt : pos < blen s := by simpa using hg.1
      cases hsc : indentScan ((bytesOf s).take pos).reverse pos with
      | none => rw [hsc] at h; injection h with h; subst h; exact Or.inl rfl
      | some s' =>
        rw [hsc] at h
        injection h with h; subst h
        have hlen : ((bytesOf s).take pos).reverse.length = pos := by simp; omega
        obtain ⟨h1, h2, h3, _⟩ := indentScan_some _ pos s' hlen hsc
        have hble : pos ≤ (bytesOf s).length := by simp; omega
        rw [rev_take_getElem? _ pos _ hble (by omega)] at h3
        rw [show pos - 1 - (pos - s') = s' - 1 by omega] at h3
        exact Or.inr (Or.inr ⟨h1, h3⟩)
  · unfold fmtIndent at h
    split at h
    · injection h with h; subst h; exact Or.inl rfl
    · split at h <;> (injection h with h; subst h; exact Or.inl rfl)

theorem fmtEmpty_part (s : List Char) (pos : Nat) (r : Nat × Nat)
    (h : fmtEmpty (bytesOf s) pos = .ok r) : SeamPart s pos r := by
  obtain ⟨hb, hl, g⟩ := fmtEmpty_good s pos r h
  refine ⟨g, ?_, ?_⟩
  · unfold fmtEmpty at h
    split at h
    · simp at h
    · split at h
      · injection h with h; subst h; exact Or.inl rfl
      · dsimp only at h
        split at h <;> (injection h with h; subst h; exact Or.inl rfl)
  · unfold fmtEmpty at h
    split at h
    · simp at h
    · split at h
      · injection h with h; subst h; exact Or.inl rfl
      · rename_i hnl
        simp only [Bool.not_eq_true', Bool.not_eq_false] at hnl
        dsimp only at h
        split at h
        · injection h with h; subst h
          exact Or.inr (Or.inl ⟨rfl, (byteIs_iff _ _ _).mp hnl⟩)
        · injection h with h; subst h; exact Or.inl rfl

theorem fmtPrev_part (s : List Char) (pos : Nat) (r : Nat × Nat) (hb : isBoundary (bytesOf s) pos = true)
    (hl : pos ≤ blen s) (h : fmtPrev (bytesOf s) pos = .ok r) : SeamPart s pos r := by
  have g := fmtPrev_good s pos r hb hl h
  refine ⟨g, ?_, ?_⟩
  · unfold fmtPrev at h
    cases hp1 : findPrevLB (bytesOf s) pos true with
    | none => rw [hp1] at h; simp at h; subst h; exact Or.inl rfl
    | some p1 =>
      rw [hp1] at h
      simp only [Option.bind_some] at h
      cases hp2 : findPrevLB (bytesOf s) p1 true with
      | none => rw [hp2] at h; simp at h; subst h; exact Or.inl rfl
      | some lb =>
        rw [hp2] at h
        simp only at h
        injection h with h; subst h
        obtain ⟨_, _, _, c4, _, _⟩ := findPrevLB_some _ p1 lb true hp2
        exact Or.inr (Or.inr ⟨by simp, by simpa using c4⟩)
  · unfold fmtPrev at h
    split at h <;> (injection h with h; subst h; exact Or.inl rfl)

theorem fmtNext_part (s : List Char) (pos : Nat) (r : Nat × Nat) (hb : isBoundary (bytesOf s) pos = true)
    (hl : pos ≤ blen s) (h : fmtNext (bytesOf s) pos = .ok r) : SeamPart s pos r := by
  have g := fmtNext_good s pos r hb hl h
  refine ⟨g, ?_, ?_⟩
  · unfold fmtNext at h
    split at h <;> (injection h with h; subst h; exact Or.inl rfl)
  · unfold fmtNext at h
    cases hp1 : findNextLB (bytesOf s) pos true with
    | none => rw [hp1] at h; simp at h; subst h; exact Or.inl rfl
    | some p1 =>
      rw [hp1] at h
      simp only [Option.bind_some] at h
      cases hp2 : findNextLB (bytesOf s) (p1 + 1) true with
      | none => rw [hp2] at h; simp at h; subst h; exact Or.inl rfl
      | some lb =>
        rw [hp2] at h
        simp only at h
        injection h with h; subst h
        obtain ⟨_, _, _, c4, _, _⟩ := findNextLB_some _ (p1 + 1) lb true hp2
        exact Or.inr (Or.inr c4)

theorem hull_part (s : List Char) (pos : Nat) (a c : Nat × Nat) (ha : SeamPart s pos a) (hc : SeamPart s pos c) :
    SeamPart s pos (min c.1 a.1, max c.2 a.2) := by
  have ga := ha.good
  have gc := hc.good
  refine ⟨?_, ?_, ?_⟩
  · refine ⟨by have := ga.le1; omega, by have := ga.le2; omega, by have := ga.len; have := gc.len; omega, ?_, ?_, ?_⟩
    · intro i hi1 hi2
      by_cases hip : i < pos
      · by_cases hia : a.1 ≤ i
        · exact ga.ws i hia (by have := ga.le2; omega)
        · exact gc.ws i (by omega) (by have := gc.le2; omega)
      · by_cases hia : i < a.2
        · exact ga.ws i (by have := ga.le1; omega) hia
        · exact gc.ws i (by have := gc.le1; omega) (by omega)
    · by_cases hm : c.1 ≤ a.1
      · rw [Nat.min_eq_left hm]; exact gc.b1
      · rw [Nat.min_eq_right (by omega)]; exact ga.b1
    · by_cases hm : c.2 ≤ a.2
      · rw [Nat.max_eq_right hm]; exact ga.b2
      · rw [Nat.max_eq_left (by omega)]; exact gc.b2
  · by_cases hm : c.1 ≤ a.1
    · simp only [Nat.min_eq_left hm]
      rcases hc.startOK with h | h
      · left; exact h
      · right; exact h
    · simp only [Nat.min_eq_right (by omega : a.1 ≤ c.1)]
      rcases ha.startOK with h | h
      · left; exact h
      · right; exact h
  · by_cases hm : c.2 ≤ a.2
    · simp only [Nat.max_eq_right hm]; exact ha.endOK
    · simp only [Nat.max_eq_left (by omega : a.2 ≤ c.2)]; exact hc.endOK

/-- the hull `format_block` computes around a removed position -/
theorem hull_shape (s : List Char) (pos : Nat) (r : Nat × Nat)
    (h : formatBlock (bytesOf s) pos seamFormatters (pos, pos) = .ok r) : SeamPart s pos r := by
  unfold seamFormatters at h
  simp only [formatBlock] at h
  cases h1 : fmtIndent (bytesOf s) pos with
  | error e => rw [h1] at h; simp at h
  | ok r1 =>
    rw [h1] at h
    simp only at h
    cases h2 : fmtEmpty (bytesOf s) pos with
    | error e => rw [h2] at h; simp at h
    | ok r2 =>
      rw [h2] at h
      simp only at h
      obtain ⟨hb, hl, _⟩ := fmtEmpty_good s pos r2 h2
      cases h3 : fmtPrev (bytesOf s) pos with
      | error e => rw [h3] at h; simp at h
      | ok r3 =>
        rw [h3] at h
        simp only at h
        cases h4 : fmtNext (bytesOf s) pos with
        | error e => rw [h4] at h; simp at h
        | ok r4 =>
          rw [h4] at h
          simp only at h
          injection h with h
          subst h
          have p0 : SeamPart s pos (pos, pos) := ⟨goodRange_empty s pos hb hl, Or.inl rfl, Or.inl rfl⟩
          exact hull_part s pos _ r4 (hull_part s pos _ r3 (hull_part s pos _ r2 (hull_part s pos _ r1 p0
            (fmtIndent_part s pos r1 hb hl h1)) (fmtEmpty_part s pos r2 h2)) (fmtPrev_part s pos r3 hb hl h3))
            (fmtNext_part s pos r4 hb hl h4)

/-- C13 (a), one seam: a non-blank line - the bytes `[ls, le)` between two line breaks with a non-whitespace
    byte at `x` - and the line break at `le` that ends it are disjoint from the hull of a block-style seam -/
theorem non_blank_line_intact (s : List Char) (pos : Nat) (r : Nat × Nat) (hp : SeamPart s pos r)
    (hseam : (bytesOf s)[pos]? = some (.lead '\n') ∨ pos = blen s)
    (ls le x : Nat) (hls : LineStart (bytesOf s) ls) (hx1 : ls ≤ x) (hx2 : x < le)
    (hnonl : ∀ i, ls ≤ i → i < le → (bytesOf s)[i]? ≠ some (.lead '\n'))
    (hxnw : ∀ y, (bytesOf s)[x]? = some y → ¬ isWsByte y) (hxin : x < blen s)
    (hstartline : r.1 = pos → pos ≤ ls ∨ le < pos) :
    r.2 ≤ ls ∨ le < r.1 := by
  have g := hp.good
  -- x itself is not in the hull
  have hxout : ¬ (r.1 ≤ x ∧ x < r.2) := by
    rintro ⟨h1, h2⟩
    obtain ⟨y, hy, hw⟩ := g.ws x h1 h2
    exact hxnw y hy hw
  -- where the hull starts
  have hS : r.1 ≤ ls ∨ le < r.1 := by
    rcases hp.startOK with h | h
    · rcases hstartline h with h' | h'
      · left; omega
      · right; omega
    · rcases h with h | ⟨h0, h1⟩
      · left; omega
      · by_cases hle : r.1 ≤ ls
        · exact Or.inl hle
        · by_cases hgt : le < r.1
          · exact Or.inr hgt
          · exfalso
            exact hnonl (r.1 - 1) (by omega) (by omega) h1
  rcases hS with hS | hS
  · left
    by_cases hE : r.2 ≤ ls
    · exact hE
    · exfalso
      have hEx : r.2 ≤ x := by
        by_cases hh : r.2 ≤ x
        · exact hh
        · exact absurd ⟨by omega, by omega⟩ hxout
      rcases hp.endOK with h | ⟨h, hnl⟩ | h
      · rcases hseam with hs | hs
        · exact hnonl pos (by omega) (by omega) hs
        · omega
      · exact hnonl pos (by omega) (by omega) hnl
      · exact hnonl r.2 (by omega) (by omega) h
  · exact Or.inr hS

/-! Kernel-evaluated instances: the four (b, a) shapes around one seam (positions of CHANGELOG 0.3.0 style). -/
def hull (src : String) (pos : Nat) : Option (Nat × Nat) :=
  match formatBlock (bytesOf src.toList) pos seamFormatters (pos, pos) with
  | .ok r => some r
  | .error _ => none
example : hull "foo\n  \nbar\n" 6 = some (4, 7) := by decide +kernel             -- b = 0, a = 0: the residue line goes
example : hull "foo\n\n  \nbar\n" 7 = some (4, 7) := by decide +kernel           -- b = 1, a = 0: one blank line stays
example : hull "foo\n  \n\nbar\n" 6 = some (4, 7) := by decide +kernel           -- b = 0, a = 1
example : hull "foo\n\n  \n\nbar\n" 7 = some (4, 8) := by decide +kernel         -- b = 1, a = 1: one of the two goes

end Chiritori.Props.C13
