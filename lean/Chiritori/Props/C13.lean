import Chiritori.Lemmas.FormatWs
import Chiritori.Lemmas.SeamExact
/-
  C13 — Block-style removal keeps lines intact and leaves no blank-line residue.

  Proved (for every text): the union of the four seam formatters around a *block-style seam* - a removed position
  `pos` that is followed by a line break and preceded on its line by blanks only, the line not being the first of
  the file - consists of whole whitespace-only lines:
  * `hull_shape`: the hull `[S, E)` is whitespace, `S` is a line start with `S ≤ pos`, and `E` is `pos`, `pos+1`
    (just behind the residual line break) or the position of a line break;
  * `non_blank_line_intact`: consequently no byte of any non-blank line, nor the line break that ends it, lies in
    the hull: surviving non-blank lines stay byte for byte, indentation included, each on a line of its own.
  * `seam_exact` (closed form, needs the completeness lemmas of the finders): at a block-style seam the hull is
    exactly `[S, E)` with `S` = start of the blank line before the residue line if there is one, else the start
    of the residue line, and `E` = the line break ending the blank line after it if there is one, else `pos`
    (blank line before) or `pos + 1` (none);
  * `seam_breaks`: so the hull is blanks plus exactly one line break - two when there is a blank line on both
    sides.  With b blank lines before and a after, the b + 1 + a whitespace-only lines between the two non-blank
    neighbours become a + b - [a>0 ∧ b>0]: the blank-line arithmetic of the property, at one seam.
  Clause (a) at document level is in Props/C13Doc.lean (`c13_lines`, `c13_lines_eq`).  Not proved yet: clause (b)
  at document level (the count of blank lines between two surviving lines).  The first line of the file is the
  known finding D7.
-/
namespace Chiritori.Props.C13
open Chiritori

/-- position `x` starts a line -/
def LineStart (b : Bytes) (x : Nat) : Prop := x = 0 ∨ (0 < x ∧ b[x - 1]? = some (.lead '\n'))

/-- what each seam formatter contributes -/
structure SeamPart (s : List Char) (pos : Nat) (r : Nat × Nat) : Prop where
  good : GoodRange s pos r
  startOK : r.1 = pos ∨ LineStart (bytesOf s) r.1
  endOK : r.2 = pos ∨ (r.2 = pos + 1 ∧ (bytesOf s)[pos]? = some (.lead '\n')) ∨ (bytesOf s)[r.2]? = some (.lead '\n')

theorem fmtIndent_part (s : List Char) (pos : Nat) (r : Nat × Nat) (hb : isBoundary (bytesOf s) pos = true)
    (hl : pos ≤ blen s) (h : fmtIndent (bytesOf s) pos = .ok r) : SeamPart s pos r := by
  have g := fmtIndent_good s pos r hb hl h
  refine ⟨g, ?_, ?_⟩
  · unfold fmtIndent at h
    split at h
    · injection h with h; subst h; exact Or.inl rfl
    · rename_i hg
      simp only [not_or, Nat.not_le, Bool.not_eq_true', Bool.not_eq_eq_eq_not, Bool.not_not] at hg
      have hlt : pos < blen s := by simpa using hg.1
      cases hsc : indentScan ((bytesOf s).take pos).reverse pos with
      | none => rw [hsc] at h; injection h with h; subst h; exact Or.inl rfl
      | some s' =>
        rw [hsc] at h
        injection h with h; subst h
        have hlen : ((bytesOf s).take pos).reverse.length = pos := by simp; omega
        obtain ⟨h1, h2, h3, _⟩ := indentScan_some _ pos s' hlen hsc
        have hble : pos ≤ (bytesOf s).length := by simp; omega
        rw [rev_take_getElem? _ pos _ hble (by omega)] at h3
        rw [show pos - 1 - (pos - s') = s' - 1 by omega] at h3
        exact Or.inr (Or.inr ⟨h1, h3⟩)
  · unfold fmtIndent at h
    split at h
    · injection h with h; subst h; exact Or.inl rfl
    · split at h <;> (injection h with h; subst h; exact Or.inl rfl)

theorem fmtEmpty_part (s : List Char) (pos : Nat) (r : Nat × Nat)
    (h : fmtEmpty (bytesOf s) pos = .ok r) : SeamPart s pos r := by
  obtain ⟨hb, hl, g⟩ := fmtEmpty_good s pos r h
  refine ⟨g, ?_, ?_⟩
  · unfold fmtEmpty at h
    split at h
    · simp at h
    · split at h
      · injection h with h; subst h; exact Or.inl rfl
      · dsimp only at h
        split at h <;> (injection h with h; subst h; exact Or.inl rfl)
  · unfold fmtEmpty at h
    split at h
    · simp at h
    · split at h
      · injection h with h; subst h; exact Or.inl rfl
      · rename_i hnl
        simp only [Bool.not_eq_true', Bool.not_eq_false] at hnl
        dsimp only at h
        split at h
        · injection h with h; subst h
          exact Or.inr (Or.inl ⟨rfl, (byteIs_iff _ _ _).mp hnl⟩)
        · injection h with h; subst h; exact Or.inl rfl

theorem fmtPrev_part (s : List Char) (pos : Nat) (r : Nat × Nat) (hb : isBoundary (bytesOf s) pos = true)
    (hl : pos ≤ blen s) (h : fmtPrev (bytesOf s) pos = .ok r) : SeamPart s pos r := by
  have g := fmtPrev_good s pos r hb hl h
  refine ⟨g, ?_, ?_⟩
  · unfold fmtPrev at h
    cases hp1 : findPrevLB (bytesOf s) pos true with
    | none => rw [hp1] at h; simp at h; subst h; exact Or.inl rfl
    | some p1 =>
      rw [hp1] at h
      simp only [Option.bind_some] at h
      cases hp2 : findPrevLB (bytesOf s) p1 true with
      | none => rw [hp2] at h; simp at h; subst h; exact Or.inl rfl
      | some lb =>
        rw [hp2] at h
        simp only at h
        injection h with h; subst h
        obtain ⟨_, _, _, c4, _, _⟩ := findPrevLB_some _ p1 lb true hp2
        exact Or.inr (Or.inr ⟨by simp, by simpa using c4⟩)
  · unfold fmtPrev at h
    split at h <;> (injection h with h; subst h; exact Or.inl rfl)

theorem fmtNext_part (s : List Char) (pos : Nat) (r : Nat × Nat) (hb : isBoundary (bytesOf s) pos = true)
    (hl : pos ≤ blen s) (h : fmtNext (bytesOf s) pos = .ok r) : SeamPart s pos r := by
  have g := fmtNext_good s pos r hb hl h
  refine ⟨g, ?_, ?_⟩
  · unfold fmtNext at h
    split at h <;> (injection h with h; subst h; exact Or.inl rfl)
  · unfold fmtNext at h
    cases hp1 : findNextLB (bytesOf s) pos true with
    | none => rw [hp1] at h; simp at h; subst h; exact Or.inl rfl
    | some p1 =>
      rw [hp1] at h
      simp only [Option.bind_some] at h
      cases hp2 : findNextLB (bytesOf s) (p1 + 1) true with
      | none => rw [hp2] at h; simp at h; subst h; exact Or.inl rfl
      | some lb =>
        rw [hp2] at h
        simp only at h
        injection h with h; subst h
        obtain ⟨_, _, _, c4, _, _⟩ := findNextLB_some _ (p1 + 1) lb true hp2
        exact Or.inr (Or.inr c4)

theorem hull_part (s : List Char) (pos : Nat) (a c : Nat × Nat) (ha : SeamPart s pos a) (hc : SeamPart s pos c) :
    SeamPart s pos (min c.1 a.1, max c.2 a.2) := by
  have ga := ha.good
  have gc := hc.good
  refine ⟨?_, ?_, ?_⟩
  · refine ⟨by have := ga.le1; omega, by have := ga.le2; omega, by have := ga.len; have := gc.len; omega, ?_, ?_, ?_⟩
    · intro i hi1 hi2
      by_cases hip : i < pos
      · by_cases hia : a.1 ≤ i
        · exact ga.ws i hia (by have := ga.le2; omega)
        · exact gc.ws i (by omega) (by have := gc.le2; omega)
      · by_cases hia : i < a.2
        · exact ga.ws i (by have := ga.le1; omega) hia
        · exact gc.ws i (by have := gc.le1; omega) (by omega)
    · by_cases hm : c.1 ≤ a.1
      · rw [Nat.min_eq_left hm]; exact gc.b1
      · rw [Nat.min_eq_right (by omega)]; exact ga.b1
    · by_cases hm : c.2 ≤ a.2
      · rw [Nat.max_eq_right hm]; exact ga.b2
      · rw [Nat.max_eq_left (by omega)]; exact gc.b2
  · by_cases hm : c.1 ≤ a.1
    · simp only [Nat.min_eq_left hm]
      rcases hc.startOK with h | h
      · left; exact h
      · right; exact h
    · simp only [Nat.min_eq_right (by omega : a.1 ≤ c.1)]
      rcases ha.startOK with h | h
      · left; exact h
      · right; exact h
  · by_cases hm : c.2 ≤ a.2
    · simp only [Nat.max_eq_right hm]; exact ha.endOK
    · simp only [Nat.max_eq_left (by omega : a.2 ≤ c.2)]; exact hc.endOK

/-- the hull `format_block` computes around a removed position -/
theorem hull_shape (s : List Char) (pos : Nat) (r : Nat × Nat)
    (h : formatBlock (bytesOf s) pos seamFormatters (pos, pos) = .ok r) : SeamPart s pos r := by
  unfold seamFormatters at h
  simp only [formatBlock] at h
  cases h1 : fmtIndent (bytesOf s) pos with
  | error e => rw [h1] at h; simp at h
  | ok r1 =>
    rw [h1] at h
    simp only at h
    cases h2 : fmtEmpty (bytesOf s) pos with
    | error e => rw [h2] at h; simp at h
    | ok r2 =>
      rw [h2] at h
      simp only at h
      obtain ⟨hb, hl, _⟩ := fmtEmpty_good s pos r2 h2
      cases h3 : fmtPrev (bytesOf s) pos with
      | error e => rw [h3] at h; simp at h
      | ok r3 =>
        rw [h3] at h
        simp only at h
        cases h4 : fmtNext (bytesOf s) pos with
        | error e => rw [h4] at h; simp at h
        | ok r4 =>
          rw [h4] at h
          simp only at h
          injection h with h
          subst h
          have p0 : SeamPart s pos (pos, pos) := ⟨goodRange_empty s pos hb hl, Or.inl rfl, Or.inl rfl⟩
          exact hull_part s pos _ r4 (hull_part s pos _ r3 (hull_part s pos _ r2 (hull_part s pos _ r1 p0
            (fmtIndent_part s pos r1 hb hl h1)) (fmtEmpty_part s pos r2 h2)) (fmtPrev_part s pos r3 hb hl h3))
            (fmtNext_part s pos r4 hb hl h4)

/-- C13 (a), one seam: a non-blank line - the bytes `[ls, le)` between two line breaks with a non-whitespace
    byte at `x` - and the line break at `le` that ends it are disjoint from the hull of a block-style seam -/
theorem non_blank_line_intact (s : List Char) (pos : Nat) (r : Nat × Nat) (hp : SeamPart s pos r)
    (hseam : (bytesOf s)[pos]? = some (.lead '\n') ∨ pos = blen s)
    (ls le x : Nat) (hls : LineStart (bytesOf s) ls) (hx1 : ls ≤ x) (hx2 : x < le)
    (hnonl : ∀ i, ls ≤ i → i < le → (bytesOf s)[i]? ≠ some (.lead '\n'))
    (hxnw : ∀ y, (bytesOf s)[x]? = some y → ¬ isWsByte y) (hxin : x < blen s)
    (hstartline : r.1 = pos → pos ≤ ls ∨ le < pos) :
    r.2 ≤ ls ∨ le < r.1 := by
  have g := hp.good
  -- x itself is not in the hull
  have hxout : ¬ (r.1 ≤ x ∧ x < r.2) := by
    rintro ⟨h1, h2⟩
    obtain ⟨y, hy, hw⟩ := g.ws x h1 h2
    exact hxnw y hy hw
  -- where the hull starts
  have hS : r.1 ≤ ls ∨ le < r.1 := by
    rcases hp.startOK with h | h
    · rcases hstartline h with h' | h'
      · left; omega
      · right; omega
    · rcases h with h | ⟨h0, h1⟩
      · left; omega
      · by_cases hle : r.1 ≤ ls
        · exact Or.inl hle
        · by_cases hgt : le < r.1
          · exact Or.inr hgt
          · exfalso
            exact hnonl (r.1 - 1) (by omega) (by omega) h1
  rcases hS with hS | hS
  · left
    by_cases hE : r.2 ≤ ls
    · exact hE
    · exfalso
      have hEx : r.2 ≤ x := by
        by_cases hh : r.2 ≤ x
        · exact hh
        · exact absurd ⟨by omega, by omega⟩ hxout
      rcases hp.endOK with h | ⟨h, hnl⟩ | h
      · rcases hseam with hs | hs
        · exact hnonl pos (by omega) (by omega) hs
        · omega
      · exact hnonl pos (by omega) (by omega) hnl
      · exact hnonl r.2 (by omega) (by omega) h
  · exact Or.inr hS

/-! ### the hull in closed form -/

/-- the line before the residue line is blank: it starts at `ls'` (not the first line of the text) -/
structure PrevBlank (b : Bytes) (ls ls' : Nat) : Prop where
  two : 2 ≤ ls'
  lt : ls' < ls
  skip : ∀ i, ls' ≤ i → i < ls - 1 → ∃ x, b[i]? = some x ∧ isSkipByte x
  nl : b[ls' - 1]? = some (.lead '\n')

/-- the line before the residue line has text: going back from its line break over blanks one meets a character -/
structure PrevText (b : Bytes) (ls q : Nat) : Prop where
  lt : q < ls - 1
  skip : ∀ i, q < i → i < ls - 1 → ∃ x, b[i]? = some x ∧ isSkipByte x
  stop : q = 0 ∨ ∃ x, b[q]? = some x ∧ isStopByte x

/-- the line after the residue line is blank: its line break is at `e` -/
structure NextBlank (b : Bytes) (pos e : Nat) : Prop where
  le : pos + 1 ≤ e
  skip : ∀ i, pos + 1 ≤ i → i < e → ∃ x, b[i]? = some x ∧ isSkipByte x
  nl : b[e]? = some (.lead '\n')

/-- the line after the residue line has text, or the text ends -/
structure NextText (b : Bytes) (pos q : Nat) : Prop where
  le : pos + 1 ≤ q
  skip : ∀ i, pos + 1 ≤ i → i < q → ∃ x, b[i]? = some x ∧ isSkipByte x
  stop : b[q]? = none ∨ ∃ x, b[q]? = some x ∧ isStopByte x

theorem prevBlank_find {b : Bytes} {ls pos ls' : Nat} (h : BlockSeam b ls pos) (hp : PrevBlank b ls ls') :
    findPrevLB b (ls - 1) true = some (ls' - 1) :=
  findPrevLB_intro b (ls - 1) (ls' - 1) true (by have := hp.two; omega) (by have := hp.lt; have := hp.two; omega)
    (by have := h.lt_len; have := h.le; omega) (fun i h1 h2 => hp.skip i (by omega) h2) hp.nl

theorem prevText_find {b : Bytes} {ls pos q : Nat} (h : BlockSeam b ls pos) (hp : PrevText b ls q) :
    findPrevLB b (ls - 1) true = none :=
  findPrevLB_pause_none b (ls - 1) q hp.lt (by have := h.lt_len; have := h.le; omega) hp.skip hp.stop

theorem nextBlank_find {b : Bytes} {pos e : Nat} (hn : NextBlank b pos e) :
    findNextLB b (pos + 1) true = some e :=
  findNextLB_intro b (pos + 1) e true (by omega) hn.le hn.skip hn.nl

theorem nextText_find {b : Bytes} {pos q : Nat} (hn : NextText b pos q) :
    findNextLB b (pos + 1) true = none :=
  findNextLB_pause_none b (pos + 1) q hn.le hn.skip hn.stop

/-- C13(b), closed form of the hull at a block-style seam, by what stands on the two neighbouring lines -/
theorem seam_exact {b : Bytes} {ls pos : Nat} (h : BlockSeam b ls pos) :
    (∀ q q', PrevText b ls q → NextText b pos q' →
      formatBlock b pos seamFormatters (pos, pos) = .ok (ls, pos + 1)) ∧
    (∀ ls' q', PrevBlank b ls ls' → NextText b pos q' →
      formatBlock b pos seamFormatters (pos, pos) = .ok (ls', pos)) ∧
    (∀ q e, PrevText b ls q → NextBlank b pos e →
      formatBlock b pos seamFormatters (pos, pos) = .ok (ls, e)) ∧
    (∀ ls' e, PrevBlank b ls ls' → NextBlank b pos e →
      formatBlock b pos seamFormatters (pos, pos) = .ok (ls', e)) := by
  refine ⟨?_, ?_, ?_, ?_⟩
  · intro q q' hp hn
    rw [h.hull, prevText_find h hp, nextText_find hn]
  · intro ls' q' hp hn
    rw [h.hull, prevBlank_find h hp, nextText_find hn]
    have := hp.two
    simp only [Except.ok.injEq, Prod.mk.injEq, and_true]; omega
  · intro q e hp hn
    rw [h.hull, prevText_find h hp, nextBlank_find hn]
    have := hn.le
    simp only [Except.ok.injEq, Prod.mk.injEq, true_and]; omega
  · intro ls' e hp hn
    rw [h.hull, prevBlank_find h hp, nextBlank_find hn]
    have := hn.le; have := hp.two
    simp only [Except.ok.injEq, Prod.mk.injEq]; omega

theorem skip_not_nl {b : Bytes} {i : Nat} (h : ∃ x, b[i]? = some x ∧ isSkipByte x) : b[i]? ≠ some (.lead '\n') := by
  obtain ⟨x, hx, hs⟩ := h
  rw [hx]
  rcases hs with rfl | rfl | rfl <;> simp

/-- C13(b), the arithmetic: the hull removes blanks and exactly one line break - two when both neighbouring lines
    are blank.  `L` lists the removed line breaks. -/
theorem seam_breaks {b : Bytes} {ls pos : Nat} (h : BlockSeam b ls pos) (S E : Nat)
    (hh : formatBlock b pos seamFormatters (pos, pos) = .ok (S, E)) :
    (∀ q q', PrevText b ls q → NextText b pos q' → ∀ i, S ≤ i → i < E → (b[i]? = some (.lead '\n') ↔ i = pos)) ∧
    (∀ ls' q', PrevBlank b ls ls' → NextText b pos q' → ∀ i, S ≤ i → i < E → (b[i]? = some (.lead '\n') ↔ i = ls - 1)) ∧
    (∀ q e, PrevText b ls q → NextBlank b pos e → ∀ i, S ≤ i → i < E → (b[i]? = some (.lead '\n') ↔ i = pos)) ∧
    (∀ ls' e, PrevBlank b ls ls' → NextBlank b pos e → ∀ i, S ≤ i → i < E →
      (b[i]? = some (.lead '\n') ↔ i = ls - 1 ∨ i = pos)) := by
  obtain ⟨e1, e2, e3, e4⟩ := seam_exact h
  have h2 := h.two
  have hle := h.le
  refine ⟨?_, ?_, ?_, ?_⟩
  · intro q q' hp hn i hi1 hi2
    rw [e1 q q' hp hn] at hh
    injection hh with hh; injection hh with hS hE; subst hS; subst hE
    constructor
    · intro hnl
      by_cases hc : i = pos
      · exact hc
      · exact absurd hnl (skip_not_nl (h.ind i hi1 (by omega)))
    · rintro rfl; exact h.nl
  · intro ls' q' hp hn i hi1 hi2
    rw [e2 ls' q' hp hn] at hh
    injection hh with hh; injection hh with hS hE; subst hS; subst hE
    have := hp.lt
    constructor
    · intro hnl
      by_cases hc : i = ls - 1
      · exact hc
      · by_cases hlt : i < ls - 1
        · exact absurd hnl (skip_not_nl (hp.skip i hi1 hlt))
        · exact absurd hnl (skip_not_nl (h.ind i (by omega) hi2))
    · rintro rfl; exact h.before
  · intro q e hp hn i hi1 hi2
    rw [e3 q e hp hn] at hh
    injection hh with hh; injection hh with hS hE; subst hS; subst hE
    constructor
    · intro hnl
      by_cases hc : i = pos
      · exact hc
      · by_cases hlt : i < pos
        · exact absurd hnl (skip_not_nl (h.ind i hi1 hlt))
        · exact absurd hnl (skip_not_nl (hn.skip i (by omega) hi2))
    · rintro rfl; exact h.nl
  · intro ls' e hp hn i hi1 hi2
    rw [e4 ls' e hp hn] at hh
    injection hh with hh; injection hh with hS hE; subst hS; subst hE
    have := hp.lt
    constructor
    · intro hnl
      by_cases hc1 : i = ls - 1
      · exact Or.inl hc1
      · by_cases hc2 : i = pos
        · exact Or.inr hc2
        · exfalso
          by_cases hlt : i < ls - 1
          · exact skip_not_nl (hp.skip i hi1 hlt) hnl
          · by_cases hlt2 : i < pos
            · exact skip_not_nl (h.ind i (by omega) hlt2) hnl
            · exact skip_not_nl (hn.skip i (by omega) hi2) hnl
    · rintro (rfl | rfl)
      · exact h.before
      · exact h.nl

/-- the premises are satisfiable: `"foo\n\n  \n\nbar\n"`, residue line `"  "` at 5..7, a blank line on both sides -/
example : BlockSeam (bytesOf "foo\n\n  \n\nbar\n".toList) 5 7 ∧ PrevBlank (bytesOf "foo\n\n  \n\nbar\n".toList) 5 4 ∧
    NextBlank (bytesOf "foo\n\n  \n\nbar\n".toList) 7 8 := by
  refine ⟨⟨by omega, by omega, by decide, ?_, by decide⟩, ⟨by omega, by omega, ?_, by decide⟩, ⟨by omega, ?_, by decide⟩⟩
  · intro i h1 h2
    have : i = 5 ∨ i = 6 := by omega
    rcases this with rfl | rfl <;> exact ⟨.lead ' ', by decide, Or.inr (Or.inl rfl)⟩
  · intro i h1 h2; omega
  · intro i h1 h2; omega

/-! Kernel-evaluated instances: the four (b, a) shapes around one seam (positions of CHANGELOG 0.3.0 style). -/
def hull (src : String) (pos : Nat) : Option (Nat × Nat) :=
  match formatBlock (bytesOf src.toList) pos seamFormatters (pos, pos) with
  | .ok r => some r
  | .error _ => none
example : hull "foo\n  \nbar\n" 6 = some (4, 7) := by decide +kernel             -- b = 0, a = 0: the residue line goes
example : hull "foo\n\n  \nbar\n" 7 = some (4, 7) := by decide +kernel           -- b = 1, a = 0: one blank line stays
example : hull "foo\n  \n\nbar\n" 6 = some (4, 7) := by decide +kernel           -- b = 0, a = 1
example : hull "foo\n\n  \n\nbar\n" 7 = some (4, 8) := by decide +kernel         -- b = 1, a = 1: one of the two goes

end Chiritori.Props.C13
