import Chiritori.Spec.Holds
namespace Chiritori.Props.C13
end Chiritori.Props.C13
