import Chiritori.Props.C02
/-
  C15 — list reports exactly what clean deletes, and changes nothing.

  * `list_regions`: the items of `list` are built from the very marker list `remove` deletes (one item per
    marker, all flagged Ready).
  * `regions_spec`: those regions are sorted, disjoint and cover exactly the ready extents (one per
    default-strategy element, two per unwrapped element, nested regions absorbed) - C02/C03's coverage theorem.
  * `removed_text`: the source minus the listed regions is the text before whitespace tidying.
  * `line_numbers`: the reported line numbers are 1 + the number of line breaks at or before the first /
    last byte of the region.
  * purity: `list` is a function of source and configuration (it is one in the model by construction;
    in Rust it takes an `Rc<String>` and returns a `String`).
  Not yet proved: that the highlighted text of an item equals the text of its region (`buildItem` internals).
-/
namespace Chiritori.Props.C15
open Chiritori Chiritori.Spec

theorem list_regions (src ds de : List Char) (cfg : Cfg) :
    listMarkers src ds de cfg = (buildRemoveMarker cfg (bytesOf src) (parseSource src ds de)).map fun m => (m, true) := rfl

theorem regions_spec (src ds de : List Char) (cfg : Cfg) (hde : de ≠ []) :
    MSorted (buildRemoveMarker cfg (bytesOf src) (parseSource src ds de)) 0 (blen src) ∧
    ∀ i, mcov (buildRemoveMarker cfg (bytesOf src) (parseSource src ds de)) i ↔
      inAny (extentsOfSource src ds de cfg) i = true :=
  buildRemoveMarker_spec src ds de cfg hde

theorem removed_text (src ds de : List Char) (cfg : Cfg) (hde : de ≠ []) (removed : Bytes)
    (h : removeMarkers (bytesOf src) ((listMarkers src ds de cfg).map (·.1)) = .ok removed) :
    removed = minusRanges (bytesOf src) (((listMarkers src ds de cfg).map (·.1)).map fun m => (m.start, m.stop)) := by
  have e : (listMarkers src ds de cfg).map (·.1) = buildRemoveMarker cfg (bytesOf src) (parseSource src ds de) := by
    rw [list_regions, List.map_map]
    exact List.map_id _
  rw [e] at h ⊢
  exact removeMarkers_eq _ _ 0 (blen src) (regions_spec src ds de cfg hde).1 removed h

/-- `find_line` on a sorted table: one more than the number of breaks at or before the needle -/
theorem findLine_spec (lm : List Nat) (hs : lm.Pairwise (· < ·)) (x : Nat) :
    findLine lm x = 1 + (lm.filter fun p => decide (p ≤ x)).length := by
  unfold findLine
  induction lm with
  | nil => simp
  | cons a rest ih =>
    simp only [List.pairwise_cons] at hs
    by_cases ha : a > x
    · have hall : (rest.filter fun p => decide (p ≤ x)) = [] := by
        rw [List.filter_eq_nil_iff]
        intro p hp
        have := hs.1 p hp
        simp; omega
      simp [List.findIdx?_cons, ha, hall]
    · have hle : a ≤ x := by omega
      have ih' := ih hs.2
      simp only [List.findIdx?_cons, ha, decide_false, Bool.false_eq_true, ite_false, List.filter_cons, hle,
        decide_true, ite_true, List.length_cons]
      cases hf : rest.findIdx? (fun v => decide (v > x)) with
      | none => rw [hf] at ih'; simp at ih' ⊢; omega
      | some i => rw [hf] at ih'; simp at ih' ⊢; omega

theorem line_numbers (b : Bytes) (start stop : Nat) (h : 0 < stop) :
    getLineRange (lineBreaks b) start stop =
      .ok (1 + ((lineBreaks b).filter fun p => decide (p ≤ start)).length,
           1 + ((lineBreaks b).filter fun p => decide (p ≤ stop - 1)).length) := by
  unfold getLineRange subU
  rw [if_pos (by omega)]
  simp only [bind, Except.bind, pure, Except.pure]
  rw [findLine_spec _ (lineBreaks_sorted b), findLine_spec _ (lineBreaks_sorted b)]

end Chiritori.Props.C15
