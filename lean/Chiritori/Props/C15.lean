import Chiritori.Props.C02
import Chiritori.Lemmas.Exact
/-
  C15 — list reports exactly what clean deletes, and changes nothing.

  * `list_regions`: the items of `list` are built from the very marker list `remove` deletes (one item per
    marker, all flagged Ready).
  * `regions_spec`: those regions are sorted, disjoint and cover exactly the ready extents (one per
    default-strategy element, two per unwrapped element, nested regions absorbed) - C02/C03's coverage theorem.
  * `removed_text`: the source minus the listed regions is the text before whitespace tidying.
  * `line_numbers`: the reported line numbers are 1 + the number of line breaks before the first /
    last byte of the region.
  * purity: `list` is a function of source and configuration (it is one in the model by construction;
    in Rust it takes an `Rc<String>` and returns a `String`).
  * `regions_exact` (item level, in the property's space: no tag on a wrapper line, `WrapFree`): the regions are
    exactly `refRegions (conditionHolds cfg)` - one per default-strategy ready element and nothing from inside it,
    opening part / inner regions / closing part per unwrapped ready element, in document order; `item_count`
    is the count clause.
  Not yet proved: that the highlighted text of an item equals the text of its region (`buildItem` internals).
-/
namespace Chiritori.Props.C15
open Chiritori Chiritori.Spec

theorem list_regions (src ds de : List Char) (cfg : Cfg) :
    listMarkers src ds de cfg = (buildRemoveMarker cfg (bytesOf src) (parseSource src ds de)).map fun m => (m, true) := rfl

theorem regions_spec (src ds de : List Char) (cfg : Cfg) (hde : de ≠ []) :
    MSorted (buildRemoveMarker cfg (bytesOf src) (parseSource src ds de)) 0 (blen src) ∧
    ∀ i, mcov (buildRemoveMarker cfg (bytesOf src) (parseSource src ds de)) i ↔
      inAny (extentsOfSource src ds de cfg) i = true :=
  buildRemoveMarker_spec src ds de cfg hde

theorem removed_text (src ds de : List Char) (cfg : Cfg) (hde : de ≠ []) (removed : Bytes)
    (h : removeMarkers (bytesOf src) ((listMarkers src ds de cfg).map (·.1)) = .ok removed) :
    removed = minusRanges (bytesOf src) (((listMarkers src ds de cfg).map (·.1)).map fun m => (m.start, m.stop)) := by
  have e : (listMarkers src ds de cfg).map (·.1) = buildRemoveMarker cfg (bytesOf src) (parseSource src ds de) := by
    rw [list_regions, List.map_map]
    exact List.map_id _
  rw [e] at h ⊢
  exact removeMarkers_eq _ _ 0 (blen src) (regions_spec src ds de cfg hde).1 removed h

/-- item level: which regions are listed, in the space the property quantifies over -/
theorem regions_exact (src ds de : List Char) (cfg : Cfg) (hde : de ≠ [])
    (hw : WrapFree (bytesOf src) (parseSource src ds de)) :
    (listMarkers src ds de cfg).map (fun x => (x.1.start, x.1.stop)) =
      refRegions (conditionHolds cfg) (bytesOf src) (parseSource src ds de) := by
  obtain ⟨hok, _⟩ := tokenize_ok src ds de hde
  have hfl : flattenParts (parseSource src ds de) = tokenize src ds de := parse_flatten ds de _
  have hspan : BSpan (flattenParts (parseSource src ds de)) 0 (blen src) := by
    have := BSpan_of_chain _ 0 0 hok.chain
    rw [hok.flatEq, Nat.zero_add] at this
    rw [hfl]; exact this
  have h := (collect_exact cfg (bytesOf src) _ 0 (blen src) hspan (by simp) hw).1
  rw [collect_ready_indep] at h
  rw [← h, list_regions, List.map_map]
  rfl

/-- the predicate the check evaluates on the implementation's regions (`Spec.c15Holds`) is a theorem of the model -/
theorem c15Holds_model (src ds de : List Char) (cfg : Cfg) (hde : de ≠ [])
    (hw : wrapFreeB (bytesOf src) (parseSource src ds de) = true) :
    c15Holds src ds de cfg ((listMarkers src ds de cfg).map fun x => (x.1.start, x.1.stop)) = true := by
  unfold c15Holds
  rw [regions_exact src ds de cfg hde (wrapFreeB_sound _ _ hw)]
  simp

/-- the count clause: as many items as the reference lists regions -/
theorem item_count (src ds de : List Char) (cfg : Cfg) (hde : de ≠ [])
    (hw : WrapFree (bytesOf src) (parseSource src ds de)) :
    (listMarkers src ds de cfg).length =
      (refRegions (conditionHolds cfg) (bytesOf src) (parseSource src ds de)).length := by
  rw [← regions_exact src ds de cfg hde hw, List.length_map]

/-- `find_line` on a sorted table: one more than the number of breaks before the needle (a line break belongs to
    the line it ends) -/
theorem findLine_spec (lm : List Nat) (hs : lm.Pairwise (· < ·)) (x : Nat) :
    findLine lm x = 1 + (lm.filter fun p => decide (p < x)).length := by
  unfold findLine
  induction lm with
  | nil => simp
  | cons a rest ih =>
    simp only [List.pairwise_cons] at hs
    by_cases ha : a ≥ x
    · have hall : (rest.filter fun p => decide (p < x)) = [] := by
        rw [List.filter_eq_nil_iff]
        intro p hp
        have := hs.1 p hp
        simp; omega
      have hna : ¬ a < x := by omega
      simp [List.findIdx?_cons, ha, hall, hna]
    · have hle : a < x := by omega
      have ih' := ih hs.2
      simp only [List.findIdx?_cons, ha, decide_false, Bool.false_eq_true, ite_false, List.filter_cons, hle,
        decide_true, ite_true, List.length_cons]
      cases hf : rest.findIdx? (fun v => decide (v ≥ x)) with
      | none => rw [hf] at ih'; simp at ih' ⊢; omega
      | some i => rw [hf] at ih'; simp at ih' ⊢; omega

theorem line_numbers (b : Bytes) (start stop : Nat) (h : 0 < stop) :
    getLineRange (lineBreaks b) start stop =
      .ok (1 + ((lineBreaks b).filter fun p => decide (p < start)).length,
           1 + ((lineBreaks b).filter fun p => decide (p < stop - 1)).length) := by
  unfold getLineRange subU
  rw [if_pos (by omega)]
  simp only [bind, Except.bind, pure, Except.pure]
  rw [findLine_spec _ (lineBreaks_sorted b), findLine_spec _ (lineBreaks_sorted b)]

end Chiritori.Props.C15
