import Chiritori.Spec.Holds
namespace Chiritori.Props.C15
end Chiritori.Props.C15
