import Chiritori.Props.C05
/-
  C05, the rejection half stated once and for all: what the (modelled) chrono parser accepts for
  `%Y-%m-%d %H:%M:%S %z` has one shape, and everything of another shape is rejected - so it never makes an
  element ready (`unparseable_never_ready`).

  `accepted_shape`: if `parseFields s = some f` then `s` is
      ws  [sign] digits  '-'  ws digits{1,2}  '-'  ws digits{1,2}  ws digits{1,2}  ':'  ws digits{1,2}  ':'
      ws digits{1,2}  ws  sign digit digit  (':' | ws)*  digit digit
  with nothing behind it (an unsigned year has at most four digits).  The malformed classes of the property are
  corollaries: a value without two colons in front of the offset, a value whose date part is followed by anything
  but whitespace and a digit, an offset that does not begin with a sign or has fewer than four digits, a zone name.
-/
namespace Chiritori.Props.C05
open Chiritori Chiritori.Spec

def IsWs (w : List Char) : Prop := ∀ c ∈ w, isWhitespace c = true
def IsDigits (d : List Char) : Prop := d ≠ [] ∧ ∀ c ∈ d, isDigit c = true
def IsSign (c : Char) : Prop := c = '+' ∨ c = '-' ∨ c = '−'

theorem trimStartWs_spec : ∀ (s : List Char), ∃ w, s = w ++ trimStartWs s ∧ IsWs w
  | [] => ⟨[], rfl, by simp [IsWs]⟩
  | c :: cs => by
    simp only [trimStartWs]
    split
    · rename_i hc
      obtain ⟨w, hw, hws⟩ := trimStartWs_spec cs
      refine ⟨c :: w, by rw [List.cons_append, ← hw], ?_⟩
      intro d hd
      rcases List.mem_cons.mp hd with rfl | hd
      · exact hc
      · exact hws d hd
    · exact ⟨[], rfl, by simp [IsWs]⟩

theorem scanDigits_spec : ∀ (fuel : Nat) (s : List Char) (acc n : Nat) (v n' : Nat) (rest : List Char),
    scanDigits fuel s acc n = (v, n', rest) →
    ∃ ds, s = ds ++ rest ∧ (∀ c ∈ ds, isDigit c = true) ∧ n' = n + ds.length ∧ ds.length ≤ fuel
  | 0, s, acc, n, v, n', rest, h => by
    simp only [scanDigits, Prod.mk.injEq] at h
    obtain ⟨_, rfl, rfl⟩ := h
    exact ⟨[], rfl, by simp, by simp, by simp⟩
  | fuel + 1, [], acc, n, v, n', rest, h => by
    simp only [scanDigits, Prod.mk.injEq] at h
    obtain ⟨_, rfl, rfl⟩ := h
    exact ⟨[], rfl, by simp, by simp, by simp⟩
  | fuel + 1, c :: cs, acc, n, v, n', rest, h => by
    simp only [scanDigits] at h
    split at h
    · rename_i hc
      obtain ⟨ds, e1, e2, e3, e4⟩ := scanDigits_spec fuel cs _ _ v n' rest h
      refine ⟨c :: ds, by rw [List.cons_append, ← e1], ?_, by simp [e3]; omega, by simp; omega⟩
      intro d hd
      rcases List.mem_cons.mp hd with rfl | hd
      · exact hc
      · exact e2 d hd
    · simp only [Prod.mk.injEq] at h
      obtain ⟨_, rfl, rfl⟩ := h
      exact ⟨[], rfl, by simp, by simp, by simp⟩

theorem scanNumber_spec (s : List Char) (max v : Nat) (rest : List Char) (h : scanNumber s max = some (v, rest)) :
    ∃ ds, s = ds ++ rest ∧ IsDigits ds ∧ ds.length ≤ max := by
  unfold scanNumber at h
  generalize hsd : scanDigits max s 0 0 = r at h
  obtain ⟨v', n', rest'⟩ := r
  simp only at h
  split at h
  · simp at h
  · rename_i hn
    simp only [Option.some.injEq, Prod.mk.injEq] at h
    obtain ⟨_, rfl⟩ := h
    obtain ⟨ds, e1, e2, e3, e4⟩ := scanDigits_spec max s 0 0 v' n' rest' hsd
    refine ⟨ds, e1, ⟨?_, e2⟩, e4⟩
    intro hd
    subst hd
    simp at e3
    exact hn e3

theorem literal_spec (c : Char) (s rest : List Char) (h : literal c s = some rest) : s = c :: rest := by
  cases s with
  | nil => simp [literal] at h
  | cons d ds =>
    simp only [literal] at h
    split at h
    · rename_i hd
      injection h with h
      rw [hd, h]
    · simp at h

theorem colonOrSpace_spec : ∀ (s : List Char), ∃ cs, s = cs ++ colonOrSpace s ∧ ∀ c ∈ cs, c = ':' ∨ isWhitespace c = true
  | [] => ⟨[], rfl, by simp⟩
  | c :: rest => by
    simp only [colonOrSpace]
    split
    · rename_i hc
      obtain ⟨cs, e1, e2⟩ := colonOrSpace_spec rest
      refine ⟨c :: cs, by rw [List.cons_append, ← e1], ?_⟩
      intro d hd
      rcases List.mem_cons.mp hd with rfl | hd
      · exact hc
      · exact e2 d hd
    · exact ⟨[], rfl, by simp⟩

theorem scanOffset_spec (s : List Char) (o : Int) (rest : List Char) (h : scanOffset s = some (o, rest)) :
    ∃ sg h1 h2 cs m1 m2, s = [sg, h1, h2] ++ cs ++ [m1, m2] ++ rest ∧ IsSign sg ∧ isDigit h1 = true ∧
      isDigit h2 = true ∧ (∀ c ∈ cs, c = ':' ∨ isWhitespace c = true) ∧ isDigit m1 = true ∧ isDigit m2 = true := by
  unfold scanOffset at h
  split at h
  · rename_i sg h1 h2 r
    split at h
    · rename_i hc
      obtain ⟨cs, e1, e2⟩ := colonOrSpace_spec r
      split at h
      · rename_i m1 m2 r' hcr
        split at h
        · rename_i hm
          simp only [Option.some.injEq, Prod.mk.injEq] at h
          obtain ⟨_, rfl⟩ := h
          refine ⟨sg, h1, h2, cs, m1, m2, ?_, hc.1, hc.2.1, hc.2.2, e2, hm.1, hm.2.2⟩
          rw [hcr] at e1
          simp [e1]
        · simp at h
      · simp at h
    · simp at h
  · simp at h

theorem parseNum2_spec (s : List Char) (v : Nat) (rest : List Char) (h : parseNum2 s = some (v, rest)) :
    ∃ w ds, s = w ++ ds ++ rest ∧ IsWs w ∧ IsDigits ds ∧ ds.length ≤ 2 := by
  unfold parseNum2 at h
  obtain ⟨w, e1, e2⟩ := trimStartWs_spec s
  obtain ⟨ds, d1, d2, d3⟩ := scanNumber_spec _ _ _ _ h
  exact ⟨w, ds, by rw [List.append_assoc, ← d1, ← e1], e2, d2, d3⟩

theorem parseYear_spec (s : List Char) (y : Int) (rest : List Char) (h : parseYear s = some (y, rest)) :
    ∃ w sy ds, s = w ++ sy ++ ds ++ rest ∧ IsWs w ∧ IsDigits ds ∧
      ((sy = [] ∧ ds.length ≤ 4) ∨ sy = ['-'] ∨ sy = ['+']) := by
  unfold parseYear at h
  obtain ⟨w, e1, e2⟩ := trimStartWs_spec s
  split at h
  · rename_i r hr
    cases hs : scanNumber r r.length with
    | none => rw [hs] at h; simp at h
    | some p =>
      obtain ⟨v, r'⟩ := p
      rw [hs] at h
      simp only [Option.map_some, Option.some.injEq, Prod.mk.injEq] at h
      obtain ⟨_, rfl⟩ := h
      obtain ⟨ds, d1, d2, _⟩ := scanNumber_spec _ _ _ _ hs
      exact ⟨w, ['-'], ds, by rw [e1, hr, d1]; simp, e2, d2, Or.inr (Or.inl rfl)⟩
  · rename_i r hr
    cases hs : scanNumber r r.length with
    | none => rw [hs] at h; simp at h
    | some p =>
      obtain ⟨v, r'⟩ := p
      rw [hs] at h
      simp only [Option.map_some, Option.some.injEq, Prod.mk.injEq] at h
      obtain ⟨_, rfl⟩ := h
      obtain ⟨ds, d1, d2, _⟩ := scanNumber_spec _ _ _ _ hs
      exact ⟨w, ['+'], ds, by rw [e1, hr, d1]; simp, e2, d2, Or.inr (Or.inr rfl)⟩
  · cases hs : scanNumber (trimStartWs s) 4 with
    | none => rw [hs] at h; simp at h
    | some p =>
      obtain ⟨v, r'⟩ := p
      rw [hs] at h
      simp only [Option.map_some, Option.some.injEq, Prod.mk.injEq] at h
      obtain ⟨_, rfl⟩ := h
      obtain ⟨ds, d1, d2, d3⟩ := scanNumber_spec _ _ _ _ hs
      exact ⟨w, [], ds, by rw [List.append_nil, List.append_assoc, ← d1, ← e1], e2, d2, Or.inl ⟨rfl, d3⟩⟩

/-- the shape of everything the parser accepts -/
structure Accepted (s : List Char) : Prop where
  shape : ∃ w0 sy Y w1 M w2 D w3 H w4 Mi w5 S w6 sg h1 h2 cs m1 m2,
    s = w0 ++ sy ++ Y ++ '-' :: (w1 ++ M ++ '-' :: (w2 ++ D ++ (w3 ++ H ++ ':' :: (w4 ++ Mi ++ ':' :: (w5 ++ S ++
          (w6 ++ ([sg, h1, h2] ++ cs ++ [m1, m2]))))))) ∧
    IsWs w0 ∧ IsWs w1 ∧ IsWs w2 ∧ IsWs w3 ∧ IsWs w4 ∧ IsWs w5 ∧ IsWs w6 ∧
    ((sy = [] ∧ Y.length ≤ 4) ∨ sy = ['-'] ∨ sy = ['+']) ∧
    IsDigits Y ∧ IsDigits M ∧ M.length ≤ 2 ∧ IsDigits D ∧ D.length ≤ 2 ∧ IsDigits H ∧ H.length ≤ 2 ∧
    IsDigits Mi ∧ Mi.length ≤ 2 ∧ IsDigits S ∧ S.length ≤ 2 ∧
    IsSign sg ∧ isDigit h1 = true ∧ isDigit h2 = true ∧ (∀ c ∈ cs, c = ':' ∨ isWhitespace c = true) ∧
    isDigit m1 = true ∧ isDigit m2 = true

theorem IsWs.append {a b : List Char} (h1 : IsWs a) (h2 : IsWs b) : IsWs (a ++ b) := by
  intro c hc
  rcases List.mem_append.mp hc with h | h
  · exact h1 c h
  · exact h2 c h

theorem accepted_shape (s : List Char) (f : Fields) (h : parseFields s = some f) : Accepted s := by
  unfold parseFields at h
  simp only [bind, Option.bind] at h
  cases hy : parseYear s with
  | none => rw [hy] at h; simp at h
  | some py =>
    obtain ⟨year, s1⟩ := py
    rw [hy] at h
    simp only at h
    cases hl1 : literal '-' s1 with
    | none => rw [hl1] at h; simp at h
    | some s2 =>
      rw [hl1] at h
      simp only at h
      cases hm : parseNum2 s2 with
      | none => rw [hm] at h; simp at h
      | some pm =>
        obtain ⟨month, s3⟩ := pm
        rw [hm] at h
        simp only at h
        cases hl2 : literal '-' s3 with
        | none => rw [hl2] at h; simp at h
        | some s4 =>
          rw [hl2] at h
          simp only at h
          cases hd : parseNum2 s4 with
          | none => rw [hd] at h; simp at h
          | some pd =>
            obtain ⟨day, s5⟩ := pd
            rw [hd] at h
            simp only at h
            cases hh : parseNum2 (trimStartWs s5) with
            | none => rw [hh] at h; simp at h
            | some ph =>
              obtain ⟨hour, s6⟩ := ph
              rw [hh] at h
              simp only at h
              cases hl3 : literal ':' s6 with
              | none => rw [hl3] at h; simp at h
              | some s7 =>
                rw [hl3] at h
                simp only at h
                cases hmi : parseNum2 s7 with
                | none => rw [hmi] at h; simp at h
                | some pmi =>
                  obtain ⟨minute, s8⟩ := pmi
                  rw [hmi] at h
                  simp only at h
                  cases hl4 : literal ':' s8 with
                  | none => rw [hl4] at h; simp at h
                  | some s9 =>
                    rw [hl4] at h
                    simp only at h
                    cases hs : parseNum2 s9 with
                    | none => rw [hs] at h; simp at h
                    | some ps =>
                      obtain ⟨second, s10⟩ := ps
                      rw [hs] at h
                      simp only at h
                      cases ho : scanOffset (trimStartWs (trimStartWs s10)) with
                      | none => rw [ho] at h; simp at h
                      | some po =>
                        obtain ⟨off, s11⟩ := po
                        rw [ho] at h
                        simp only at h
                        have hnil : s11 = [] := by
                          cases s11 with
                          | nil => rfl
                          | cons x xs => simp at h
                        subst hnil
                        obtain ⟨w0, sy, Y, y1, y2, y3, y4⟩ := parseYear_spec _ _ _ hy
                        have l1 := literal_spec _ _ _ hl1
                        obtain ⟨w1, M, m1', m2', m3', m4'⟩ := parseNum2_spec _ _ _ hm
                        have l2 := literal_spec _ _ _ hl2
                        obtain ⟨w2, D, d1, d2, d3, d4⟩ := parseNum2_spec _ _ _ hd
                        obtain ⟨w3a, t1, t2⟩ := trimStartWs_spec s5
                        obtain ⟨w3b, H, hh1, hh2, hh3, hh4⟩ := parseNum2_spec _ _ _ hh
                        have l3 := literal_spec _ _ _ hl3
                        obtain ⟨w4, Mi, mi1, mi2, mi3, mi4⟩ := parseNum2_spec _ _ _ hmi
                        have l4 := literal_spec _ _ _ hl4
                        obtain ⟨w5, S, ss1, ss2, ss3, ss4⟩ := parseNum2_spec _ _ _ hs
                        obtain ⟨w6a, u1, u2⟩ := trimStartWs_spec s10
                        obtain ⟨w6b, u3, u4⟩ := trimStartWs_spec (trimStartWs s10)
                        obtain ⟨sg, h1, h2, cs, mm1, mm2, o1, o2, o3, o4, o5, o6, o7⟩ := scanOffset_spec _ _ _ ho
                        refine ⟨⟨w0, sy, Y, w1, M, w2, D, w3a ++ w3b, H, w4, Mi, w5, S, w6a ++ w6b, sg, h1, h2, cs, mm1, mm2,
                          ?_, y2, m2', d2, t2.append hh2, mi2, ss2, u2.append u4, y4, y3, m3', m4', d3, d4, hh3, hh4,
                          mi3, mi4, ss3, ss4, o2, o3, o4, o5, o6, o7⟩⟩
                        rw [y1, l1, m1', l2, d1, t1, hh1, l3, mi1, l4, ss1, u1, u3, o1]
                        simp [List.append_assoc]

/-- the rejection half of C05 in one statement: a `to` value (with the configured offset appended) that does not
    have the accepted shape never makes the element ready -/
theorem not_accepted_never_ready (cfg : Cfg) (el : Element) (v : List Char) (hv : attrValue el "to" = some v)
    (h : ¬ Accepted (v ++ ' ' :: cfg.offset)) : timeIsRemoval cfg el = false := by
  apply unparseable_never_ready cfg el v hv
  cases hp : parseFields (v ++ ' ' :: cfg.offset) with
  | none => simp [chronoParse, hp]
  | some f => exact absurd (accepted_shape _ f hp) h

/-! ### corollaries: the malformed classes -/

theorem count_ws_colon (w : List Char) (hw : IsWs w) : w.count ':' = 0 := by
  rw [List.count_eq_zero]
  intro hm
  have := hw ':' hm
  revert this; decide

theorem count_digits_colon (d : List Char) (hd : ∀ c ∈ d, isDigit c = true) : d.count ':' = 0 := by
  rw [List.count_eq_zero]
  intro hm
  have := hd ':' hm
  revert this; decide

/-- fewer than two colons (a missing time part, `00:00` without seconds is caught by `needs_sign` instead): rejected -/
theorem needs_two_colons (s : List Char) (h : s.count ':' < 2) : ¬ Accepted s := by
  intro ⟨w0, sy, Y, w1, M, w2, D, w3, H, w4, Mi, w5, S, w6, sg, h1, h2, cs, m1, m2, hs, _⟩
  rw [hs] at h
  simp only [List.count_append, List.count_cons] at h
  simp at h
  omega

/-- the characters of an accepted value are whitespace, digits, signs, `-` and `:` - a zone name (`UTC`, `Z`, `JST`),
    a `T` or `/` separator, a decimal point are all rejected -/
theorem accepted_alphabet (s : List Char) (h : Accepted s) :
    ∀ c ∈ s, isWhitespace c = true ∨ isDigit c = true ∨ c = '+' ∨ c = '-' ∨ c = '−' ∨ c = ':' := by
  obtain ⟨w0, sy, Y, w1, M, w2, D, w3, H, w4, Mi, w5, S, w6, sg, h1, h2, cs, m1, m2, hs, a0, a1, a2, a3, a4, a5, a6, hy,
    ⟨_, dY⟩, ⟨_, dM⟩, _, ⟨_, dD⟩, _, ⟨_, dH⟩, _, ⟨_, dMi⟩, _, ⟨_, dS⟩, _, hsg, dh1, dh2, hcs, dm1, dm2⟩ := h
  intro c hc
  rw [hs] at hc
  simp only [List.mem_append, List.mem_cons, List.mem_nil_iff, or_false] at hc
  have W : ∀ w, IsWs w → c ∈ w → isWhitespace c = true ∨ isDigit c = true ∨ c = '+' ∨ c = '-' ∨ c = '−' ∨ c = ':' :=
    fun w hw hm => Or.inl (hw c hm)
  have Dg : ∀ d : List Char, (∀ x ∈ d, isDigit x = true) → c ∈ d →
      isWhitespace c = true ∨ isDigit c = true ∨ c = '+' ∨ c = '-' ∨ c = '−' ∨ c = ':' :=
    fun d hd hm => Or.inr (Or.inl (hd c hm))
  have Sy : c ∈ sy → isWhitespace c = true ∨ isDigit c = true ∨ c = '+' ∨ c = '-' ∨ c = '−' ∨ c = ':' := by
    intro hm
    rcases hy with ⟨rfl, _⟩ | rfl | rfl
    · simp at hm
    · simp only [List.mem_singleton] at hm; subst hm; exact Or.inr (Or.inr (Or.inr (Or.inl rfl)))
    · simp only [List.mem_singleton] at hm; subst hm; exact Or.inr (Or.inr (Or.inl rfl))
  have Sg : c = sg → isWhitespace c = true ∨ isDigit c = true ∨ c = '+' ∨ c = '-' ∨ c = '−' ∨ c = ':' := by
    intro hm; subst hm
    rcases hsg with h | h | h
    · exact Or.inr (Or.inr (Or.inl h))
    · exact Or.inr (Or.inr (Or.inr (Or.inl h)))
    · exact Or.inr (Or.inr (Or.inr (Or.inr (Or.inl h))))
  have Dash : c = '-' → isWhitespace c = true ∨ isDigit c = true ∨ c = '+' ∨ c = '-' ∨ c = '−' ∨ c = ':' :=
    fun h => Or.inr (Or.inr (Or.inr (Or.inl h)))
  have Col : c = ':' → isWhitespace c = true ∨ isDigit c = true ∨ c = '+' ∨ c = '-' ∨ c = '−' ∨ c = ':' :=
    fun h => Or.inr (Or.inr (Or.inr (Or.inr (Or.inr h))))
  have D1 : ∀ x : Char, isDigit x = true → c = x →
      isWhitespace c = true ∨ isDigit c = true ∨ c = '+' ∨ c = '-' ∨ c = '−' ∨ c = ':' :=
    fun x hx h => Or.inr (Or.inl (by rw [h]; exact hx))
  have Cs : c ∈ cs → isWhitespace c = true ∨ isDigit c = true ∨ c = '+' ∨ c = '-' ∨ c = '−' ∨ c = ':' := by
    intro hm
    rcases hcs c hm with h | h
    · exact Col h
    · exact Or.inl h
  rcases hc with ((hc | hc) | hc) | hc | hc
  · exact W _ a0 hc
  · exact Sy hc
  · exact Dg _ dY hc
  · exact Dash hc
  · rcases hc with ((hc | hc) | hc)
    · exact W _ a1 hc
    · exact Dg _ dM hc
    · rcases hc with hc | hc
      · exact Dash hc
      · rcases hc with ((hc | hc) | hc)
        · exact W _ a2 hc
        · exact Dg _ dD hc
        · rcases hc with ((hc | hc) | hc)
          · exact W _ a3 hc
          · exact Dg _ dH hc
          · rcases hc with hc | hc
            · exact Col hc
            · rcases hc with ((hc | hc) | hc)
              · exact W _ a4 hc
              · exact Dg _ dMi hc
              · rcases hc with hc | hc
                · exact Col hc
                · rcases hc with ((hc | hc) | hc)
                  · exact W _ a5 hc
                  · exact Dg _ dS hc
                  · rcases hc with hc | hc
                    · exact W _ a6 hc
                    · rcases hc with ((hc | hc | hc) | hc) | hc
                      · exact Sg hc
                      · exact D1 _ dh1 hc
                      · exact D1 _ dh2 hc
                      · exact Cs hc
                      · rcases hc with hc | hc
                        · exact D1 _ dm1 hc
                        · exact D1 _ dm2 hc

/-- an accepted value ends with two digits, preceded (after optional colons / whitespace) by two digits and a sign:
    its last five characters at least are `sign digit digit … digit digit` - an offset such as `+9`, `+0900Z`,
    `0900` or a zone name in the configuration makes every `to` value unparseable -/
theorem accepted_ends_with_offset (s : List Char) (h : Accepted s) :
    ∃ pre sg h1 h2 cs m1 m2, s = pre ++ ([sg, h1, h2] ++ cs ++ [m1, m2]) ∧ IsSign sg ∧ isDigit h1 = true ∧
      isDigit h2 = true ∧ (∀ c ∈ cs, c = ':' ∨ isWhitespace c = true) ∧ isDigit m1 = true ∧ isDigit m2 = true := by
  obtain ⟨w0, sy, Y, w1, M, w2, D, w3, H, w4, Mi, w5, S, w6, sg, h1, h2, cs, m1, m2, hs, _, _, _, _, _, _, _, _,
    _, _, _, _, _, _, _, _, _, _, _, hsg, dh1, dh2, hcs, dm1, dm2⟩ := h
  refine ⟨w0 ++ sy ++ Y ++ '-' :: (w1 ++ M ++ '-' :: (w2 ++ D ++ (w3 ++ H ++ ':' :: (w4 ++ Mi ++ ':' :: (w5 ++ S ++ w6))))),
    sg, h1, h2, cs, m1, m2, ?_, hsg, dh1, dh2, hcs, dm1, dm2⟩
  rw [hs]
  simp [List.append_assoc]

/-! Instances of the classes named in the property, through the shape theorem. -/
example : ¬ Accepted "2020-01-01 +00:00".toList := needs_two_colons _ (by decide)
example : ¬ Accepted "2020-01-01T00:00:00 +00:00".toList := fun h => by
  have := accepted_alphabet _ h 'T' (by decide)
  revert this; decide
example : ¬ Accepted "2020-01-01 00:00:00 UTC".toList := fun h => by
  have := accepted_alphabet _ h 'U' (by decide)
  revert this; decide
example : ¬ Accepted "2020/01/01 00:00:00 +00:00".toList := fun h => by
  have := accepted_alphabet _ h '/' (by decide)
  revert this; decide

end Chiritori.Props.C05
