import Chiritori.Spec.Holds
namespace Chiritori.Props.C06
end Chiritori.Props.C06
