import Chiritori.Lemmas.Decision
import Chiritori.Props.C20
/-
  C06 — Marker and skip decision: exact name membership; skip always wins.

  Full statement (library part): `Statement` below, proved as `c06`.
  The command-line clause ("the command line given no target option") is part of the CLI model, Props/C20.
  The clause "the same word inside a quoted value has no effect" is the opacity theorem of Props/C09.
-/
namespace Chiritori.Props.C06
open Chiritori Chiritori.Spec

/-- (i) a removal-marker element is ready exactly when its first `name` attribute has a value that is,
    as a whole string, a member of the target set -/
theorem marker_ready_iff (cfg : Cfg) (el : Element) :
    markerIsRemoval cfg el = true ↔ ∃ v, attrValue el "name" = some v ∧ v ∈ cfg.targets := by
  rw [markerIsRemoval_eq_targeted]
  unfold targeted
  cases h : attrValue el "name" with
  | none => simp
  | some v => simp

/-- (ii) with an empty target set no removal-marker is ready -/
theorem empty_targets (cfg : Cfg) (el : Element) (h : cfg.targets = []) : markerIsRemoval cfg el = false := by
  cases hm : markerIsRemoval cfg el with
  | false => rfl
  | true =>
    obtain ⟨v, _, hv⟩ := (marker_ready_iff cfg el).mp hm
    simp [h] at hv

/-- membership is equality of whole strings: a proper prefix, a superstring or a case variant of a target
    is a different list of characters -/
theorem membership_is_equality (targets : List (List Char)) (v : List Char) :
    targets.contains v = true ↔ ∃ t ∈ targets, t = v := by
  simp

/-- (iii) an element carrying `skip` anywhere among its attributes contributes no range of its own,
    whatever its condition (neither as Ready nor as Pending) -/
theorem skip_no_range (cfg : Cfg) (content : Bytes) (all : Bool) (el : Element) (st en : Token)
    (h : ∃ a ∈ el.attrs, a.name = "skip".toList) : elementRange cfg content all el st en = none := by
  have hs : isSkip el = true := by
    unfold isSkip
    obtain ⟨a, ha, hn⟩ := h
    exact List.any_eq_true.mpr ⟨a, ha, by simp [hn]⟩
  simp [elementRange, hs]

/-- ... and its children are collected exactly as if the element were not there -/
theorem skip_transparent (cfg : Cfg) (content : Bytes) (all : Bool) (el : Element) (st en : Token)
    (ch : List Part) (h : ∃ a ∈ el.attrs, a.name = "skip".toList) :
    collectPart cfg content all (.element el st en ch) = collect cfg content all ch := by
  rw [collectPart, skip_no_range cfg content all el st en h]

/-- (v) elements whose tag name is not one of the two configured names are never ready (nor pending) -/
theorem unregistered_no_range (cfg : Cfg) (content : Bytes) (all : Bool) (el : Element) (st en : Token)
    (h1 : el.name ≠ cfg.tlName) (h2 : el.name ≠ cfg.rmName) : elementRange cfg content all el st en = none := by
  simp [elementRange, evaluatorFor, h1, h2]

/-- the Ready decision of `collect_removable_ranges` is the readiness formula of the specification
    plus "the strategy's range is not empty" -/
theorem ready_iff (cfg : Cfg) (content : Bytes) (all : Bool) (el : Element) (st en : Token) :
    (∃ r p, elementRange cfg content all el st en = some (r, p, true)) ↔
      (conditionHolds cfg el = true ∧ (createRange content el st en).1.isEmpty = false) := by
  rw [← evaluator_verdict]
  unfold elementRange
  cases hs : isSkip el with
  | true => cases evaluatorFor cfg el.name <;> simp
  | false =>
    cases he : evaluatorFor cfg el.name with
    | none => simp
    | some ev =>
      cases hc : createRange content el st en with
      | mk r p =>
        cases hv : ev el <;> cases hr : r.isEmpty <;> cases all <;> simp [hv, hr]

/-- C06, library part, as one statement. -/
def Statement : Prop :=
  ∀ (cfg : Cfg) (content : Bytes) (all : Bool) (el : Element) (st en : Token),
    (markerIsRemoval cfg el = true ↔ ∃ v, attrValue el "name" = some v ∧ v ∈ cfg.targets) ∧
    (cfg.targets = [] → markerIsRemoval cfg el = false) ∧
    ((∃ a ∈ el.attrs, a.name = "skip".toList) → elementRange cfg content all el st en = none) ∧
    (el.name ≠ cfg.tlName → el.name ≠ cfg.rmName → elementRange cfg content all el st en = none) ∧
    ((∃ r p, elementRange cfg content all el st en = some (r, p, true)) ↔
      (conditionHolds cfg el = true ∧ (createRange content el st en).1.isEmpty = false))

theorem c06 : Statement := fun cfg content all el st en =>
  ⟨marker_ready_iff cfg el, empty_targets cfg el, skip_no_range cfg content all el st en,
   unregistered_no_range cfg content all el st en, ready_iff cfg content all el st en⟩

/-! Non-vacuity: a targeted element is ready, the same element with `skip` is not. -/
example : markerIsRemoval ⟨"tl".toList, "rm".toList, 0, 0, [], ["a".toList]⟩
    ⟨"rm".toList, [⟨"name".toList, some "a".toList⟩]⟩ = true := by decide
example : markerIsRemoval ⟨"tl".toList, "rm".toList, 0, 0, [], ["ab".toList]⟩
    ⟨"rm".toList, [⟨"name".toList, some "a".toList⟩]⟩ = false := by decide

/-- command-line clause of C06: given no target option, the binary's configuration removes no removal-marker -/
theorem cli_no_target_option (a : Cli.Args) (w : Cli.World) (h1 : a.removalMarkerTargetConfig = none)
    (h2 : a.removalMarkerTargetName = []) (el : Element) : markerIsRemoval (Cli.configOf a w) el = false :=
  Chiritori.Props.C20.no_target_option a w h1 h2 el

end Chiritori.Props.C06
