import Chiritori.Props.C13Doc
import Chiritori.Props.C12Source
/-
  The hypothesis of the document-level statements of C12 / C13 (`BlockStyleK`: every seam stands, in the text after
  removal, on a line of its own that is not the first) from a condition on the *source*: every removed range begins
  behind nothing but blanks on its line - a line that is not the first - and ends in front of a line break (or at the end
  of the text), and no removed range begins on a line break.
-/
namespace Chiritori.Props.C13
open Chiritori Chiritori.Spec Chiritori.Props.C12

/-- the removed ranges of a block document, in the source -/
def BlockMarkers (b : Bytes) (M : List Marker) : Prop :=
  ∀ m ∈ M, (b[m.stop]? = some NL ∨ m.stop = b.length) ∧ b[m.start]? ≠ some NL ∧
    ∃ u, u ≤ m.start ∧ ((0 < u ∧ b[u - 1]? = some NL) ∨ (u = 0 ∧ m.start = 0)) ∧
      ∀ i, u ≤ i → i < m.start → ∃ x, b[i]? = some x ∧ isBlankByte x

theorem msorted_apart : ∀ (ms : List Marker) (lo hi : Nat), MSorted ms lo hi → ∀ m ∈ ms, ∀ m' ∈ ms,
    m = m' ∨ m.stop ≤ m'.start ∨ m'.stop ≤ m.start
  | [], _, _, _, m, hm, _, _ => by cases hm
  | a :: as, lo, hi, h, m, hm, m', hm' => by
    obtain ⟨g1, g2, g3⟩ := h
    have hb := MSorted_bounds as a.stop hi g3
    rcases List.mem_cons.mp hm with e1 | h1
    · rcases List.mem_cons.mp hm' with e2 | h2
      · exact Or.inl (by rw [e1, e2])
      · exact Or.inr (Or.inl (by rw [e1]; exact (hb m' h2).1))
    · rcases List.mem_cons.mp hm' with e2 | h2
      · exact Or.inr (Or.inr (by rw [e2]; exact (hb m h1).1))
      · exact msorted_apart as a.stop hi g3 m h1 m' h2

theorem koffTo_len (X : List Rng) (b : Bytes) : koffTo X b b.length = (minusRanges b X).length := by
  rw [minusRanges_eq_keptOf]
  unfold keptOf koffTo koff
  rw [List.length_map, List.take_of_length_le (by simp)]

/-- a block document in the source gives block-style seams in the text after removal -/
theorem blockStyle_of_blockMarkers (X : List Rng) (b : Bytes) (M : List Marker) (hs : MSorted M 0 b.length)
    (hcov : ∀ i, inAny X i = true ↔ mcov M i) (hbm : BlockMarkers b M) :
    BlockStyleK (minusRanges b X) (M.map fun m => koffTo X b m.start) := by
  intro p hp
  obtain ⟨m, hm, rfl⟩ := List.mem_map.mp hp
  obtain ⟨hstop, hnonl, u, hu1, hu2, hu3⟩ := hbm m hm
  obtain ⟨b1, b2, b3⟩ := MSorted_bounds M 0 b.length hs m hm
  -- nothing between `u - 1` and the range is covered, nor is the byte behind the range
  have hfree : ∀ i, u - 1 ≤ i → i < m.start → inAny X i = false := by
    intro i hi1 hi2
    cases hx : inAny X i with
    | false => rfl
    | true =>
      exfalso
      obtain ⟨m', hm', c1, c2⟩ := (hcov i).mp hx
      obtain ⟨hstop', hnonl', _⟩ := hbm m' hm'
      obtain ⟨d1, d2, d3⟩ := MSorted_bounds M 0 b.length hs m' hm'
      rcases msorted_apart M 0 b.length hs m hm m' hm' with rfl | h | h
      · omega
      · omega
      · -- `m'` ends inside the blank prefix, or exactly where `m` begins
        rcases hstop' with hnl | hend
        · by_cases he : m'.stop = m.start
          · rw [he] at hnl; exact hnonl hnl
          · rcases hu2 with ⟨hu0, hunl⟩ | ⟨hu0, hm0⟩
            · obtain ⟨x, hx1, hx2⟩ := hu3 m'.stop (by omega) (by omega)
              rw [hnl] at hx1
              injection hx1 with hx1
              subst hx1
              rcases hx2 with h' | h' <;> simp [NL] at h'
            · omega
        · omega
  have hstopfree : m.stop < b.length → inAny X m.stop = false := by
    intro hlt
    cases hx : inAny X m.stop with
    | false => rfl
    | true =>
      exfalso
      obtain ⟨m', hm', c1, c2⟩ := (hcov m.stop).mp hx
      obtain ⟨_, hnonl', _⟩ := hbm m' hm'
      rcases msorted_apart M 0 b.length hs m hm m' hm' with rfl | h | h
      · omega
      · have : m'.start = m.stop := by omega
        rcases hstop with hnl | hend
        · rw [← this] at hnl; exact hnonl' hnl
        · omega
      · obtain ⟨d1, d2, d3⟩ := MSorted_bounds M 0 b.length hs m' hm'
        omega
  -- the range itself is covered
  have hdrop : koffTo X b m.stop = koffTo X b m.start := by
    have := koffTo_drop X b m.start (m.stop - m.start) (by
      intro i hi1 hi2
      exact (hcov i).mpr ⟨m, hm, hi1, by omega⟩)
    rwa [show m.start + (m.stop - m.start) = m.stop by omega] at this
  have hple : koffTo X b m.start ≤ (minusRanges b X).length := by
    rw [← koffTo_len]; exact koffTo_mono X b m.start b.length (by omega)
  refine ⟨?_, hple, ?_⟩
  · -- the byte at the seam
    rcases hstop with hnl | hend
    · left
      have hlt : m.stop < b.length := lt_of_getElem?_some _ _ _ hnl
      rw [← hdrop]
      exact kept_at X b m.stop NL hnl (hstopfree hlt)
    · right
      rw [← hdrop, hend, koffTo_len]
  · -- the line of the seam
    rcases hu2 with ⟨hu0, hunl⟩ | ⟨hu0, hm0⟩
    · have hoff : ∀ k, k ≤ m.start - (u - 1) → koffTo X b (u - 1 + k) = koffTo X b (u - 1) + k := by
        intro k hk
        exact koffTo_keep X b (u - 1) k (by omega) (fun i h1 h2 => hfree i h1 (by omega))
      have hA : koffTo X b m.start = koffTo X b (u - 1) + (m.start - (u - 1)) := by
        have := hoff (m.start - (u - 1)) (Nat.le_refl _)
        rwa [show u - 1 + (m.start - (u - 1)) = m.start by omega] at this
      have hK : ∀ k, k < m.start - (u - 1) → (minusRanges b X)[koffTo X b (u - 1) + k]? = b[u - 1 + k]? := by
        intro k hk
        have hlt : u - 1 + k < b.length := by omega
        rw [← hoff k (by omega), List.getElem?_eq_getElem hlt]
        exact kept_at X b (u - 1 + k) _ (List.getElem?_eq_getElem hlt) (hfree _ (by omega) (by omega))
      refine ⟨koffTo X b (u - 1) + 1, by omega, Or.inr ?_, ?_, by omega⟩
      · have := hK 0 (by omega)
        simpa [hunl] using this
      · intro i hi1 hi2
        have := hK (i - koffTo X b (u - 1)) (by omega)
        rw [show koffTo X b (u - 1) + (i - koffTo X b (u - 1)) = i by omega] at this
        rw [this]
        obtain ⟨x, hx1, hx2⟩ := hu3 (u - 1 + (i - koffTo X b (u - 1))) (by omega) (by omega)
        exact ⟨x, hx1, hx2⟩
    · refine ⟨0, Nat.zero_le _, Or.inl rfl, ?_, fun _ => by rw [hm0, koffTo_zero]⟩
      intro i _ hi2
      rw [hm0, koffTo_zero] at hi2
      omega

/-- ... for the markers and seam positions `clean` computes -/
theorem blockStyle_of_blockDoc (src ds de : List Char) (cfg : Cfg) (hde : de ≠ [])
    (hbm : BlockMarkers (bytesOf src) (buildRemoveMarker cfg (bytesOf src) (parseSource src ds de))) :
    BlockStyleK (minusRanges (bytesOf src) (extentsOfSource src ds de cfg))
      (positions (buildRemoveMarker cfg (bytesOf src) (parseSource src ds de)) 0) := by
  obtain ⟨hs, hcov⟩ := buildRemoveMarker_spec src ds de cfg hde
  rw [positions_are_offsets src ds de cfg hde]
  exact blockStyle_of_blockMarkers _ _ _ (by simpa using hs) (fun i => (hcov i).symm) hbm

/-! A decidable form, and the example of `c13_lines_eq` as an instance. -/
def blockMarkerB (b : Bytes) (m : Marker) : Bool :=
  (b[m.stop]? == some NL || m.stop == b.length) && (b[m.start]? != some NL) &&
    (match lineStartBlank b m.start m.start with
     | some u => (decide (0 < u) && b[u - 1]? == some NL) || (u == 0 && m.start == 0)
     | none => false)

theorem blockMarkerB_sound (b : Bytes) (M : List Marker) (h : M.all (blockMarkerB b) = true) : BlockMarkers b M := by
  intro m hm
  have hmB := List.all_eq_true.mp h m hm
  simp only [blockMarkerB, Bool.and_eq_true, Bool.or_eq_true, beq_iff_eq, bne_iff_ne, ne_eq] at hmB
  obtain ⟨⟨h1, h2⟩, h3⟩ := hmB
  refine ⟨h1, h2, ?_⟩
  cases hl : lineStartBlank b m.start m.start with
  | none => rw [hl] at h3; simp at h3
  | some u =>
    rw [hl] at h3
    simp only [Bool.or_eq_true, Bool.and_eq_true, decide_eq_true_eq, beq_iff_eq] at h3
    obtain ⟨g1, _, g3⟩ := lineStartBlank_spec b m.start m.start u hl
    refine ⟨u, g1, ?_, g3⟩
    rcases h3 with ⟨a, c⟩ | ⟨a, c⟩
    · exact Or.inl ⟨a, c⟩
    · exact Or.inr ⟨a, c⟩

example : BlockMarkers (bytesOf exSrc) (buildRemoveMarker exCfg (bytesOf exSrc) (parseSource exSrc "<".toList ">".toList)) :=
  blockMarkerB_sound _ _ (by decide +kernel)

end Chiritori.Props.C13
