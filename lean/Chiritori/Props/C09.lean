import Chiritori.Lemmas.Grammar
import Chiritori.Model.Remover
/-
  C09 — Tag grammar: name and attributes round-trip; quoted values are opaque.

  `Spec.TagS` (Spec/Tag.lean) is the grammar: optional spaces, a name, then attributes each preceded by a
  non-empty separator of spaces / line breaks, an attribute being a bare word or `name [spaces] = [spaces] q value q`
  with q one of the two quote characters and the value free of q only; optional trailing separators.
  `c09`: every such tag parses to exactly its name and, in order, its attribute names and values - for any number
  of attributes and any values (spaces, `=`, the other quote, line breaks, keywords, the start delimiter).
  `opaque`: changing quoted values changes neither the name nor the attribute names, hence no decision that looks
  at names only (`skip`, `unwrap-block`).
-/
namespace Chiritori.Props.C09
open Chiritori Chiritori.Spec

def Statement : Prop := ∀ t : TagS, t.ok → parseBody t.render = some t.expected

theorem c09 : Statement := parseBody_render

/-- stripping the delimiters from a token whose body neither starts with the start delimiter nor ends with
    the end delimiter gives the body -/
theorem trimStartMatches_once (ds body : List Char) (hds : ds ≠ []) (hb : body ≠ [])
    (hnp : ds.isPrefixOf body = false) : trimStartMatches (ds ++ body) ds = body := by
  unfold trimStartMatches
  have hlen : (ds ++ body).length = (ds.length + body.length - 2) + 1 + 1 := by
    have h1 : 0 < ds.length := List.length_pos_iff.mpr hds
    have h2 : 0 < body.length := List.length_pos_iff.mpr hb
    simp; omega
  rw [hlen]
  simp only [trimStartMatchesAux]
  have hp : ds.isPrefixOf (ds ++ body) = true := by
    rw [List.isPrefixOf_iff_prefix]; exact List.prefix_append _ _
  simp [hds, hp, hnp]

theorem elparse_of_body (ds de body : List Char) (t : Token) (hds : ds ≠ []) (hde : de ≠ []) (hb : body ≠ [])
    (hk : t.kind = .element) (hv : t.value = ds ++ body ++ de)
    (h1 : ds.isPrefixOf (body ++ de) = false) (h2 : de.reverse.isPrefixOf body.reverse = false) :
    elparse ds de t = parseBody body := by
  unfold elparse
  rw [hk]
  simp only
  rw [hv, List.append_assoc, trimStartMatches_once ds (body ++ de) hds (by simp [hb]) h1]
  unfold trimEndMatches
  rw [List.reverse_append, trimStartMatches_once de.reverse body.reverse (by simpa using hde) (by simpa using hb) h2]
  simp

/-- opacity: two grammar tags that differ only in their quoted values have the same name and the same
    attribute names, in the same order -/
def sameShape : AttrS → AttrS → Prop
  | .bare n, .bare n' => n = n'
  | .quoted n _ _ _ _, .quoted n' _ _ _ _ => n = n'
  | _, _ => False

inductive SameShapes : List (List Char × AttrS) → List (List Char × AttrS) → Prop
  | nil : SameShapes [] []
  | cons {a a' : List Char × AttrS} {as as' : List (List Char × AttrS)} :
      sameShape a.2 a'.2 → SameShapes as as' → SameShapes (a :: as) (a' :: as')

theorem opaque_names (t t' : TagS) (ht : t.ok) (ht' : t'.ok) (hname : t.name = t'.name)
    (hattrs : SameShapes t.attrs t'.attrs) :
    ∃ e e', parseBody t.render = some e ∧ parseBody t'.render = some e' ∧ e.name = e'.name ∧
      e.attrs.map (·.name) = e'.attrs.map (·.name) := by
  refine ⟨t.expected, t'.expected, c09 t ht, c09 t' ht', hname, ?_⟩
  simp only [TagS.expected, List.map_map]
  generalize t.attrs = l at hattrs
  generalize t'.attrs = l' at hattrs
  induction hattrs with
  | nil => rfl
  | @cons a a' as as' h _ ih =>
    simp only [List.map_cons, ih]
    congr 1
    obtain ⟨_, x⟩ := a
    obtain ⟨_, x'⟩ := a'
    cases x <;> cases x' <;> simp_all [sameShape, AttrS.parsed]

/-- a word inside a quoted value never becomes an attribute: the element is skipped iff some attribute of the
    grammar tag is *named* `skip` -/
theorem skip_iff (t : TagS) (ht : t.ok) :
    ∃ e, parseBody t.render = some e ∧
      (isSkip e = true ↔ ∃ sa ∈ t.attrs, sa.2.parsed.1 = "skip".toList) := by
  refine ⟨t.expected, c09 t ht, ?_⟩
  simp [isSkip, TagS.expected, List.any_eq_true]

/-! Kernel-evaluated instances: the README continuation style and the D5 witness. -/
example : parseBody "rm name='a'\nskip".toList = some ⟨"rm".toList, [⟨"name".toList, some "a".toList⟩, ⟨"skip".toList, none⟩]⟩ := by
  decide +kernel
example : parseBody "tl to=\"2024-01-01 00:00:00\" c = 'skip unwrap-block = \"x\"'".toList
    = some ⟨"tl".toList, [⟨"to".toList, some "2024-01-01 00:00:00".toList⟩,
        ⟨"c".toList, some "skip unwrap-block = \"x\"".toList⟩]⟩ := by decide +kernel

end Chiritori.Props.C09
