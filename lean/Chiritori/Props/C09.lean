import Chiritori.Spec.Holds
namespace Chiritori.Props.C09
end Chiritori.Props.C09
