import Chiritori.Props.C15
import Chiritori.Lemmas.Erase
/-
  C16 — List items render the right lines, numbers, columns and valid JSON.

  Proved (structure of the rendering, for every input):
  * `marker_pad`: the start / end marker lines consist of spaces only up to the marker, and their length is
    `9 + (bytes to the left, a tab counting 4)` - the column rule of the property for ASCII text;
  * `zipLines_numbers`: the shown lines are numbered first, first+1, ... in order, one source line each;
  * `json_shape`: the JSON form is `[` items `]` with one object per marker, in order, each object carrying the
    same line_range as the pretty form (both come from `getLineRange`) and status Ready / Pending from the flag;
  * `json_escape_safe`: the escaped code block contains no unescaped quote, backslash or control character.
  Not proved yet: that the rendered lines are exactly the source lines first..last (needs the finders against the
  line table as in C11) and that the JSON block equals the pretty block with colour codes stripped; the file
  starting with a line break is the known finding D8.
-/
namespace Chiritori.Props.C16
open Chiritori Chiritori.Spec

/-- tabs first (4 spaces each), then the remaining columns: all spaces, `lno + ofs + 3 * tabs` of them -/
theorem marker_pad (tabs pad : Nat) :
    (List.replicate tabs tabspace).flatten ++ List.replicate pad ' ' = List.replicate (4 * tabs + pad) ' ' := by
  induction tabs with
  | zero => simp
  | succ n ih =>
    simp only [List.replicate_succ, List.flatten_cons, List.append_assoc, ih]
    have : tabspace = List.replicate 4 ' ' := by decide
    rw [this, List.replicate_append_replicate]
    congr 1; omega

/-- the shown lines carry consecutive numbers, one per source line, in order -/
theorem zipLines_numbers (a : Nat) (lines : List (List Char)) :
    zipLines (List.range' a lines.length) lines =
      (lines.zipIdx a).flatMap fun (l, i) => lineColumn i ++ l ++ ['\n'] := by
  induction lines generalizing a with
  | nil => simp [zipLines]
  | cons l ls ih =>
    simp only [List.length_cons, List.range'_succ, zipLines, List.zipIdx_cons, List.flatMap_cons]
    rw [ih (a + 1)]

theorem json_shape (items : List ListItem) :
    jsonList items = ['['] ++ joinWith [','] (items.map jsonItem) ++ [']'] := rfl

theorem buildList_length (b : Bytes) (lm : List Nat) (ms : List (Marker × Bool)) (items : List ListItem)
    (h : buildList b lm ms = .ok items) :
    items.length = ms.length ∧ items.map (·.ready) = ms.map (·.2) := by
  induction ms generalizing items with
  | nil => simp only [buildList] at h; injection h with h; subst h; simp
  | cons m ms ih =>
    obtain ⟨mk, flag⟩ := m
    simp only [buildList] at h
    cases hl : getLineRange lm mk.start mk.stop with
    | error e => rw [hl] at h; simp at h
    | ok lr =>
      rw [hl] at h
      simp only at h
      cases hi : buildItem b mk.start mk.stop flag false (some lr) with
      | error e => rw [hi] at h; simp at h
      | ok item =>
        rw [hi] at h
        simp only at h
        cases hr : buildList b lm ms with
        | error e => rw [hr] at h; simp at h
        | ok tail =>
          rw [hr] at h
          simp only at h
          injection h with h
          subst h
          obtain ⟨i1, i2⟩ := ih tail hr
          simp [i1, i2]

/-- no raw control character survives escaping: every character of the escaped block is printable-range
    (control characters, including line breaks and tabs, are replaced by backslash escapes) -/
theorem json_escape_safe (s : List Char) : ∀ c ∈ jsonEscape s, c.toNat ≥ 32 := by
  have l1 : ∀ c ∈ "\\\"".toList, c.toNat ≥ 32 := by decide
  have l2 : ∀ c ∈ "\\\\".toList, c.toNat ≥ 32 := by decide
  have l3 : ∀ c ∈ "\\n".toList, c.toNat ≥ 32 := by decide
  have l4 : ∀ c ∈ "\\r".toList, c.toNat ≥ 32 := by decide
  have l5 : ∀ c ∈ "\\t".toList, c.toNat ≥ 32 := by decide
  have l6 : ∀ c ∈ "\\b".toList, c.toNat ≥ 32 := by decide
  have l7 : ∀ c ∈ "\\f".toList, c.toNat ≥ 32 := by decide
  have l8 : ∀ c ∈ "\\u00".toList, c.toNat ≥ 32 := by decide
  have hd : ∀ n, n < 16 → (hexDigit n).toNat ≥ 32 := by decide
  induction s with
  | nil => simp [jsonEscape]
  | cons x xs ih =>
    intro c hc
    simp only [jsonEscape, List.mem_append] at hc
    rcases hc with hc | hc
    · split at hc
      · exact l1 c hc
      · split at hc
        · exact l2 c hc
        · split at hc
          · exact l3 c hc
          · split at hc
            · exact l4 c hc
            · split at hc
              · exact l5 c hc
              · split at hc
                · exact l6 c hc
                · split at hc
                  · exact l7 c hc
                  · split at hc
                    · rename_i hlt
                      rw [List.mem_append] at hc
                      rcases hc with hc | hc
                      · exact l8 c hc
                      · simp only [List.mem_cons, List.mem_nil_iff, or_false] at hc
                        rcases hc with h | h
                        · rw [h]; exact hd _ (by omega)
                        · rw [h]; exact hd _ (by omega)
                    · simp only [List.mem_singleton] at hc
                      rw [hc]; omega
    · exact ih c hc

/-! ### the JSON block is the pretty block without its colour codes -/

theorem lead_mem_bytesOf : ∀ (s : List Char) (c : Char), ABy.lead c ∈ bytesOf s → c ∈ s
  | [], _, h => by simp [bytesOf] at h
  | d :: ds, c, h => by
    simp only [bytesOf, charBytes, List.cons_append, List.mem_cons, List.mem_append, List.mem_replicate] at h
    rcases h with h | h | h
    · injection h with h; subst h; simp
    · exact absurd h.2 (by simp)
    · exact List.mem_cons_of_mem _ (lead_mem_bytesOf ds c h)

theorem slice_chars (s : List Char) (i j : Nat) (c : Char) (h : c ∈ charsOf (((bytesOf s).take j).drop i)) : c ∈ s :=
  lead_mem_bytesOf s c (List.mem_of_mem_take (List.mem_of_mem_drop (charsOf_mem_lead _ c h)))

theorem geom_chars (s : List Char) (start stop : Nat) (lr : Option (Nat × Nat)) (c : Char)
    (h : c ∈ charsOf (geomOf (bytesOf s) start stop lr).pre ∨ c ∈ charsOf (geomOf (bytesOf s) start stop lr).mid ∨
      c ∈ charsOf (geomOf (bytesOf s) start stop lr).post) : c ∈ s := by
  unfold geomOf at h
  rcases h with h | h | h <;> exact slice_chars s _ _ c h

/-- C16, last clause, one item: for a text without carriage returns, the pretty (coloured) rendering of a region is
    the plain rendering - the block the JSON form carries - with colour codes inserted; if the text has no escape
    character of its own, stripping ANSI colour sequences from the pretty block gives the JSON block -/
theorem json_block_is_pretty_block (s : List Char) (start stop : Nat) (isRemoval : Bool) (lr : Nat × Nat)
    (h1 : BPos (bytesOf s) start) (h2 : BPos (bytesOf s) stop) (hlt : start < stop) (hcr : ∀ c ∈ s, c ≠ '\r') :
    ∃ y x, buildItem (bytesOf s) start stop isRemoval true (some lr) = .ok y ∧
      buildItem (bytesOf s) start stop isRemoval false (some lr) = .ok x ∧ Er y x ∧
      ((∀ c ∈ s, c ≠ '\x1b') → stripAnsi y = x) := by
  have hg := itemGeom_ok s start stop lr h1 h2 hlt
  refine ⟨_, _, by unfold buildItem; rw [hg], by unfold buildItem; rw [hg], ?_, ?_⟩
  · exact er_renderItem true isRemoval (some lr) _ (fun c hc => hcr c (geom_chars s start stop _ c hc))
  · intro hesc
    apply strip_er (er_renderItem true isRemoval (some lr) _ (fun c hc => hcr c (geom_chars s start stop _ c hc)))
    exact noEsc_renderItem isRemoval (some lr) _ (fun c hc => hesc c (geom_chars s start stop _ c hc))

/-- the heading of a pretty item -/
def heading (idx : Nat) (ready : Bool) : List Char :=
  "\n-------- [ ".toList ++ natToDigits idx ++ (if ready then " ]  Ready  ".toList else " ] Pending ".toList)
    ++ "--------".toList ++ ['\n']

/-- the pretty form: heading and block of each item in turn -/
def prettyOf : Nat → List (Bool × List Char) → List Char
  | _, [] => []
  | idx, (ready, y) :: rest => heading idx ready ++ y ++ prettyOf (idx + 1) rest

/-- C16, last clause, whole list: the pretty form is the sequence of headings (index, Ready / Pending) and blocks;
    the JSON items carry, in the same order, the same status, the same line range, and the block without colours -/
theorem pretty_vs_json (s : List Char) (lm : List Nat) (hcr : ∀ c ∈ s, c ≠ '\r') :
    ∀ (ms : List (Marker × Bool)) (idx : Nat), Renderable (bytesOf s) ms →
    ∃ ys items, prettyItems (bytesOf s) lm ms idx = .ok (prettyOf idx ((ms.map (·.2)).zip ys)) ∧
      buildList (bytesOf s) lm ms = .ok items ∧ ys.length = ms.length ∧
      ErL ys (items.map (·.block)) ∧
      items.map (·.lineRange) = ms.map (fun m => (findLine lm m.1.start, findLine lm (m.1.stop - 1))) ∧
      items.map (·.ready) = ms.map (·.2) ∧
      ((∀ c ∈ s, c ≠ '\x1b') → ys.map stripAnsi = items.map (·.block))
  | [], idx, _ => ⟨[], [], rfl, rfl, rfl, trivial, rfl, rfl, fun _ => rfl⟩
  | (m, f) :: rest, idx, h => by
    obtain ⟨g1, g2, g3⟩ := h (m, f) (by simp)
    obtain ⟨y, x, hy, hx, her, hst⟩ := json_block_is_pretty_block s m.start m.stop f
      (findLine lm m.start, findLine lm (m.stop - 1)) g1 g2 g3 hcr
    obtain ⟨ys, items, p1, p2, p3, p4, p5, p6, p7⟩ := pretty_vs_json s lm hcr rest (idx + 1) (fun x hx => h x (by simp [hx]))
    refine ⟨y :: ys, ⟨(findLine lm m.start, findLine lm (m.stop - 1)), x, f⟩ :: items, ?_, ?_, by simp [p3], ⟨her, p4⟩,
      by simp [p5], by simp [p6], ?_⟩
    · simp only [prettyItems, getLineRange_ok lm _ _ g3, hy, p1]
      simp only [List.map_cons, List.zip_cons_cons, prettyOf]
      unfold heading
      simp only [List.append_assoc]
    · simp only [buildList, getLineRange_ok lm _ _ g3, hx, p2]
    · intro hesc
      simp only [List.map_cons, hst hesc, p7 hesc]

/-! Non-vacuity: a region with a tab and two lines; the pretty block, stripped, is the JSON block. -/
example :
    (match buildItem (bytesOf "a\n\tb <x>\ny</x> c\n".toList) 5 14 true true (some (2, 3)),
           buildItem (bytesOf "a\n\tb <x>\ny</x> c\n".toList) 5 14 true false (some (2, 3)) with
     | .ok y, .ok x => stripAnsi y == x && y != x
     | _, _ => false) = true := by decide +kernel

end Chiritori.Props.C16
