import Chiritori.Spec.Holds
namespace Chiritori.Props.C16
end Chiritori.Props.C16
