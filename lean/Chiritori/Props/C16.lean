import Chiritori.Props.C15
/-
  C16 — List items render the right lines, numbers, columns and valid JSON.

  Proved (structure of the rendering, for every input):
  * `marker_pad`: the start / end marker lines consist of spaces only up to the marker, and their length is
    `9 + (bytes to the left, a tab counting 4)` - the column rule of the property for ASCII text;
  * `zipLines_numbers`: the shown lines are numbered first, first+1, ... in order, one source line each;
  * `json_shape`: the JSON form is `[` items `]` with one object per marker, in order, each object carrying the
    same line_range as the pretty form (both come from `getLineRange`) and status Ready / Pending from the flag;
  * `json_escape_safe`: the escaped code block contains no unescaped quote, backslash or control character.
  Not proved yet: that the rendered lines are exactly the source lines first..last (needs the finders against the
  line table as in C11) and that the JSON block equals the pretty block with colour codes stripped; the file
  starting with a line break is the known finding D8.
-/
namespace Chiritori.Props.C16
open Chiritori Chiritori.Spec

/-- tabs first (4 spaces each), then the remaining columns: all spaces, `lno + ofs + 3 * tabs` of them -/
theorem marker_pad (tabs pad : Nat) :
    (List.replicate tabs tabspace).flatten ++ List.replicate pad ' ' = List.replicate (4 * tabs + pad) ' ' := by
  induction tabs with
  | zero => simp
  | succ n ih =>
    simp only [List.replicate_succ, List.flatten_cons, List.append_assoc, ih]
    have : tabspace = List.replicate 4 ' ' := by decide
    rw [this, List.replicate_append_replicate]
    congr 1; omega

/-- the shown lines carry consecutive numbers, one per source line, in order -/
theorem zipLines_numbers (a : Nat) (lines : List (List Char)) :
    zipLines (List.range' a lines.length) lines =
      (lines.zipIdx a).flatMap fun (l, i) => lineColumn i ++ l ++ ['\n'] := by
  induction lines generalizing a with
  | nil => simp [zipLines]
  | cons l ls ih =>
    simp only [List.length_cons, List.range'_succ, zipLines, List.zipIdx_cons, List.flatMap_cons]
    rw [ih (a + 1)]

theorem json_shape (items : List ListItem) :
    jsonList items = ['['] ++ joinWith [','] (items.map jsonItem) ++ [']'] := rfl

theorem buildList_length (b : Bytes) (lm : List Nat) (ms : List (Marker × Bool)) (items : List ListItem)
    (h : buildList b lm ms = .ok items) :
    items.length = ms.length ∧ items.map (·.ready) = ms.map (·.2) := by
  induction ms generalizing items with
  | nil => simp only [buildList] at h; injection h with h; subst h; simp
  | cons m ms ih =>
    obtain ⟨mk, flag⟩ := m
    simp only [buildList] at h
    cases hl : getLineRange lm mk.start mk.stop with
    | error e => rw [hl] at h; simp at h
    | ok lr =>
      rw [hl] at h
      simp only at h
      cases hi : buildItem b mk.start mk.stop flag false (some lr) with
      | error e => rw [hi] at h; simp at h
      | ok item =>
        rw [hi] at h
        simp only at h
        cases hr : buildList b lm ms with
        | error e => rw [hr] at h; simp at h
        | ok tail =>
          rw [hr] at h
          simp only at h
          injection h with h
          subst h
          obtain ⟨i1, i2⟩ := ih tail hr
          simp [i1, i2]

/-- no raw control character survives escaping: every character of the escaped block is printable-range
    (control characters, including line breaks and tabs, are replaced by backslash escapes) -/
theorem json_escape_safe (s : List Char) : ∀ c ∈ jsonEscape s, c.toNat ≥ 32 := by
  have l1 : ∀ c ∈ "\\\"".toList, c.toNat ≥ 32 := by decide
  have l2 : ∀ c ∈ "\\\\".toList, c.toNat ≥ 32 := by decide
  have l3 : ∀ c ∈ "\\n".toList, c.toNat ≥ 32 := by decide
  have l4 : ∀ c ∈ "\\r".toList, c.toNat ≥ 32 := by decide
  have l5 : ∀ c ∈ "\\t".toList, c.toNat ≥ 32 := by decide
  have l6 : ∀ c ∈ "\\b".toList, c.toNat ≥ 32 := by decide
  have l7 : ∀ c ∈ "\\f".toList, c.toNat ≥ 32 := by decide
  have l8 : ∀ c ∈ "\\u00".toList, c.toNat ≥ 32 := by decide
  have hd : ∀ n, n < 16 → (hexDigit n).toNat ≥ 32 := by decide
  induction s with
  | nil => simp [jsonEscape]
  | cons x xs ih =>
    intro c hc
    simp only [jsonEscape, List.mem_append] at hc
    rcases hc with hc | hc
    · split at hc
      · exact l1 c hc
      · split at hc
        · exact l2 c hc
        · split at hc
          · exact l3 c hc
          · split at hc
            · exact l4 c hc
            · split at hc
              · exact l5 c hc
              · split at hc
                · exact l6 c hc
                · split at hc
                  · exact l7 c hc
                  · split at hc
                    · rename_i hlt
                      rw [List.mem_append] at hc
                      rcases hc with hc | hc
                      · exact l8 c hc
                      · simp only [List.mem_cons, List.mem_nil_iff, or_false] at hc
                        rcases hc with h | h
                        · rw [h]; exact hd _ (by omega)
                        · rw [h]; exact hd _ (by omega)
                    · simp only [List.mem_singleton] at hc
                      rw [hc]; omega
    · exact ih c hc

end Chiritori.Props.C16
