import Chiritori.Props.C15
import Chiritori.Lemmas.Erase
import Chiritori.Lemmas.EraseCR
import Chiritori.Lemmas.ItemLines
import Chiritori.Lemmas.PiecesOut
/-
  C16 — List items render the right lines, numbers, columns and valid JSON.

  Proved:
  * `item_shows_source_lines`: for a text without carriage returns that does not begin with a line break (known
    finding D8) and a region whose highlighted span does not end with a line break (`mid_of_last_char`: whenever
    the region's last character is not one), the plain item is the start marker line, exactly the source lines
    `first .. last` (`last + 1 - first` of them, from the text split at its line breaks), each behind its number in
    the fixed-width column with tabs expanded, and the end marker line;
  * `marker_pad`: the marker lines consist of spaces only up to the marker, `9 + (bytes to the left, a tab counting
    4)` of them - the column rule of the property for ASCII text;
  * `json_block_is_pretty_block`, `pretty_vs_json`: the pretty (coloured) form is, item by item, the JSON block with
    colour codes inserted, under the same status and line range; if the text has no escape character of its own,
    stripping ANSI colour sequences from a pretty block gives the JSON block;
  * `json_shape`, `buildList_length`, `json_escape_safe`: one JSON object per region, in order; the escaped block
    contains no unescaped quote, backslash or control character.
  * `highlight_is_region` (C15's last clause): what stands between the colour codes is the text of the region.
  * `json_block_is_pretty_block_cr`, `lines_no_trailing_cr`: the single-item statement for CR LF texts, under the
    premises the D17 repair provides.
  Not proved: the whole-list and source-line statements for CRLF texts (correspondence and reference renderer), serde_json
  itself (modelled), the file starting with a line break (D8).  D18 (a line-break byte numbered with the next line)
  was found while stating `item_shows_source_lines` and repaired.
-/
namespace Chiritori.Props.C16
open Chiritori Chiritori.Spec

/-- tabs first (4 spaces each), then the remaining columns: all spaces, `lno + ofs + 3 * tabs` of them -/
theorem marker_pad (tabs pad : Nat) :
    (List.replicate tabs tabspace).flatten ++ List.replicate pad ' ' = List.replicate (4 * tabs + pad) ' ' := by
  induction tabs with
  | zero => simp
  | succ n ih =>
    simp only [List.replicate_succ, List.flatten_cons, List.append_assoc, ih]
    have : tabspace = List.replicate 4 ' ' := by decide
    rw [this, List.replicate_append_replicate]
    congr 1; omega

/-- the shown lines carry consecutive numbers, one per source line, in order -/
theorem zipLines_numbers (a : Nat) (lines : List (List Char)) :
    zipLines (List.range' a lines.length) lines =
      (lines.zipIdx a).flatMap fun (l, i) => lineColumn i ++ l ++ ['\n'] := by
  induction lines generalizing a with
  | nil => simp [zipLines]
  | cons l ls ih =>
    simp only [List.length_cons, List.range'_succ, zipLines, List.zipIdx_cons, List.flatMap_cons]
    rw [ih (a + 1)]

theorem json_shape (items : List ListItem) :
    jsonList items = ['['] ++ joinWith [','] (items.map jsonItem) ++ [']'] := rfl

theorem buildList_length (b : Bytes) (lm : List Nat) (ms : List (Marker × Bool)) (items : List ListItem)
    (h : buildList b lm ms = .ok items) :
    items.length = ms.length ∧ items.map (·.ready) = ms.map (·.2) := by
  induction ms generalizing items with
  | nil => simp only [buildList] at h; injection h with h; subst h; simp
  | cons m ms ih =>
    obtain ⟨mk, flag⟩ := m
    simp only [buildList] at h
    cases hl : getLineRange lm mk.start mk.stop with
    | error e => rw [hl] at h; simp at h
    | ok lr =>
      rw [hl] at h
      simp only at h
      cases hi : buildItem b mk.start mk.stop flag false (some lr) with
      | error e => rw [hi] at h; simp at h
      | ok item =>
        rw [hi] at h
        simp only at h
        cases hr : buildList b lm ms with
        | error e => rw [hr] at h; simp at h
        | ok tail =>
          rw [hr] at h
          simp only at h
          injection h with h
          subst h
          obtain ⟨i1, i2⟩ := ih tail hr
          simp [i1, i2]

/-- no raw control character survives escaping: every character of the escaped block is printable-range
    (control characters, including line breaks and tabs, are replaced by backslash escapes) -/
theorem json_escape_safe (s : List Char) : ∀ c ∈ jsonEscape s, c.toNat ≥ 32 := by
  have l1 : ∀ c ∈ "\\\"".toList, c.toNat ≥ 32 := by decide
  have l2 : ∀ c ∈ "\\\\".toList, c.toNat ≥ 32 := by decide
  have l3 : ∀ c ∈ "\\n".toList, c.toNat ≥ 32 := by decide
  have l4 : ∀ c ∈ "\\r".toList, c.toNat ≥ 32 := by decide
  have l5 : ∀ c ∈ "\\t".toList, c.toNat ≥ 32 := by decide
  have l6 : ∀ c ∈ "\\b".toList, c.toNat ≥ 32 := by decide
  have l7 : ∀ c ∈ "\\f".toList, c.toNat ≥ 32 := by decide
  have l8 : ∀ c ∈ "\\u00".toList, c.toNat ≥ 32 := by decide
  have hd : ∀ n, n < 16 → (hexDigit n).toNat ≥ 32 := by decide
  induction s with
  | nil => simp [jsonEscape]
  | cons x xs ih =>
    intro c hc
    simp only [jsonEscape, List.mem_append] at hc
    rcases hc with hc | hc
    · split at hc
      · exact l1 c hc
      · split at hc
        · exact l2 c hc
        · split at hc
          · exact l3 c hc
          · split at hc
            · exact l4 c hc
            · split at hc
              · exact l5 c hc
              · split at hc
                · exact l6 c hc
                · split at hc
                  · exact l7 c hc
                  · split at hc
                    · rename_i hlt
                      rw [List.mem_append] at hc
                      rcases hc with hc | hc
                      · exact l8 c hc
                      · simp only [List.mem_cons, List.mem_nil_iff, or_false] at hc
                        rcases hc with h | h
                        · rw [h]; exact hd _ (by omega)
                        · rw [h]; exact hd _ (by omega)
                    · simp only [List.mem_singleton] at hc
                      rw [hc]; omega
    · exact ih c hc

/-! ### the JSON block is the pretty block without its colour codes -/

theorem lead_mem_bytesOf : ∀ (s : List Char) (c : Char), ABy.lead c ∈ bytesOf s → c ∈ s
  | [], _, h => by simp [bytesOf] at h
  | d :: ds, c, h => by
    simp only [bytesOf, charBytes, List.cons_append, List.mem_cons, List.mem_append, List.mem_replicate] at h
    rcases h with h | h | h
    · injection h with h; subst h; simp
    · exact absurd h.2 (by simp)
    · exact List.mem_cons_of_mem _ (lead_mem_bytesOf ds c h)

theorem slice_chars (s : List Char) (i j : Nat) (c : Char) (h : c ∈ charsOf (((bytesOf s).take j).drop i)) : c ∈ s :=
  lead_mem_bytesOf s c (List.mem_of_mem_take (List.mem_of_mem_drop (charsOf_mem_lead _ c h)))

theorem geom_chars (s : List Char) (start stop : Nat) (lr : Option (Nat × Nat)) (c : Char)
    (h : c ∈ charsOf (geomOf (bytesOf s) start stop lr).pre ∨ c ∈ charsOf (geomOf (bytesOf s) start stop lr).mid ∨
      c ∈ charsOf (geomOf (bytesOf s) start stop lr).post) : c ∈ s := by
  unfold geomOf at h
  rcases h with h | h | h <;> exact slice_chars s _ _ c h

/-- C16, last clause, one item: for a text without carriage returns, the pretty (coloured) rendering of a region is
    the plain rendering - the block the JSON form carries - with colour codes inserted; if the text has no escape
    character of its own, stripping ANSI colour sequences from the pretty block gives the JSON block -/
theorem json_block_is_pretty_block (s : List Char) (start stop : Nat) (isRemoval : Bool) (lr : Nat × Nat)
    (h1 : BPos (bytesOf s) start) (h2 : BPos (bytesOf s) stop) (hlt : start < stop) (hcr : ∀ c ∈ s, c ≠ '\r') :
    ∃ y x, buildItem (bytesOf s) start stop isRemoval true (some lr) = .ok y ∧
      buildItem (bytesOf s) start stop isRemoval false (some lr) = .ok x ∧ Er y x ∧
      ((∀ c ∈ s, c ≠ '\x1b') → stripAnsi y = x) := by
  have hg := itemGeom_ok s start stop lr h1 h2 hlt
  refine ⟨_, _, by unfold buildItem; rw [hg], by unfold buildItem; rw [hg], ?_, ?_⟩
  · exact er_renderItem true isRemoval (some lr) _ (fun c hc => hcr c (geom_chars s start stop _ c hc))
  · intro hesc
    apply strip_er (er_renderItem true isRemoval (some lr) _ (fun c hc => hcr c (geom_chars s start stop _ c hc)))
    exact noEsc_renderItem isRemoval (some lr) _ (fun c hc => hesc c (geom_chars s start stop _ c hc))

/-- the heading of a pretty item -/
def heading (idx : Nat) (ready : Bool) : List Char :=
  "\n-------- [ ".toList ++ natToDigits idx ++ (if ready then " ]  Ready  ".toList else " ] Pending ".toList)
    ++ "--------".toList ++ ['\n']

/-- the pretty form: heading and block of each item in turn -/
def prettyOf : Nat → List (Bool × List Char) → List Char
  | _, [] => []
  | idx, (ready, y) :: rest => heading idx ready ++ y ++ prettyOf (idx + 1) rest

/-- C16, last clause, whole list: the pretty form is the sequence of headings (index, Ready / Pending) and blocks;
    the JSON items carry, in the same order, the same status, the same line range, and the block without colours -/
theorem pretty_vs_json (s : List Char) (lm : List Nat) (hcr : ∀ c ∈ s, c ≠ '\r') :
    ∀ (ms : List (Marker × Bool)) (idx : Nat), Renderable (bytesOf s) ms →
    ∃ ys items, prettyItems (bytesOf s) lm ms idx = .ok (prettyOf idx ((ms.map (·.2)).zip ys)) ∧
      buildList (bytesOf s) lm ms = .ok items ∧ ys.length = ms.length ∧
      ErL ys (items.map (·.block)) ∧
      items.map (·.lineRange) = ms.map (fun m => (findLine lm m.1.start, findLine lm (m.1.stop - 1))) ∧
      items.map (·.ready) = ms.map (·.2) ∧
      ((∀ c ∈ s, c ≠ '\x1b') → ys.map stripAnsi = items.map (·.block))
  | [], idx, _ => ⟨[], [], rfl, rfl, rfl, trivial, rfl, rfl, fun _ => rfl⟩
  | (m, f) :: rest, idx, h => by
    obtain ⟨g1, g2, g3⟩ := h (m, f) (by simp)
    obtain ⟨y, x, hy, hx, her, hst⟩ := json_block_is_pretty_block s m.start m.stop f
      (findLine lm m.start, findLine lm (m.stop - 1)) g1 g2 g3 hcr
    obtain ⟨ys, items, p1, p2, p3, p4, p5, p6, p7⟩ := pretty_vs_json s lm hcr rest (idx + 1) (fun x hx => h x (by simp [hx]))
    refine ⟨y :: ys, ⟨(findLine lm m.start, findLine lm (m.stop - 1)), x, f⟩ :: items, ?_, ?_, by simp [p3], ⟨her, p4⟩,
      by simp [p5], by simp [p6], ?_⟩
    · simp only [prettyItems, getLineRange_ok lm _ _ g3, hy, p1]
      simp only [List.map_cons, List.zip_cons_cons, prettyOf]
      unfold heading
      simp only [List.append_assoc]
    · simp only [buildList, getLineRange_ok lm _ _ g3, hx, p2]
    · intro hesc
      simp only [List.map_cons, hst hesc, p7 hesc]

/-! Non-vacuity: a region with a tab and two lines; the pretty block, stripped, is the JSON block. -/
example :
    (match buildItem (bytesOf "a\n\tb <x>\ny</x> c\n".toList) 5 14 true true (some (2, 3)),
           buildItem (bytesOf "a\n\tb <x>\ny</x> c\n".toList) 5 14 true false (some (2, 3)) with
     | .ok y, .ok x => stripAnsi y == x && y != x
     | _, _ => false) = true := by decide +kernel

/-! ### the item shows the source lines first .. last -/

theorem zipLines_nil : ∀ (nums : List Nat), zipLines nums [] = []
  | [] => rfl
  | _ :: is => by simp only [zipLines]; exact zipLines_nil is

/-- numbering with truncation: the first `n` lines, numbered from `a` -/
theorem zipLines_take : ∀ (n a : Nat) (ls : List (List Char)),
    zipLines (List.range' a n) ls = ((ls.take n).zipIdx a).flatMap fun (l, i) => lineColumn i ++ l ++ ['\n']
  | 0, _, _ => by simp [zipLines]
  | n + 1, a, [] => by simp [zipLines_nil]
  | n + 1, a, l :: ls => by
    simp only [List.range'_succ, zipLines, List.take_succ_cons, List.zipIdx_cons, List.flatMap_cons]
    rw [zipLines_take n (a + 1) ls]

theorem count_take_of_none (b : Bytes) (i j : Nat) (hij : i ≤ j) (h : ∀ k, i ≤ k → k < j → b[k]? ≠ some NL) :
    (b.take j).count NL = (b.take i).count NL := by
  have e : b.take j = b.take i ++ (b.take j).drop i := by
    have := List.take_append_drop i (b.take j)
    rw [List.take_take, Nat.min_eq_left hij] at this
    exact this.symm
  have hz : ((b.take j).drop i).count NL = 0 := by
    apply count_zero_of_none
    intro k
    rw [List.getElem?_drop, List.getElem?_take]
    split
    · exact h (i + k) (by omega) (by omega)
    · simp
  conv => lhs; rw [e]
  rw [List.count_append, hz]
  simp

theorem marker_pad' (tabs pad : Nat) (rest : List Char) :
    (List.replicate tabs tabspace).flatten ++ (List.replicate pad ' ' ++ rest) =
      List.replicate (4 * tabs + pad) ' ' ++ rest := by
  rw [← List.append_assoc, marker_pad]

/-- the lines of the source: the text split at its line breaks -/
def srcLines (s : List Char) : List (List Char) := linesT s []

/-- C16, first clause: for a text without carriage returns that does not begin with a line break (known finding
    D8), and a region whose highlighted span does not end with a line break, the plain item is the start marker
    line, the source lines `first .. last` - exactly those, `last + 1 - first` of them - each behind its number,
    tabs expanded, and the end marker line.  `first` / `last` are the line numbers `list` reports (`line_numbers`). -/
theorem item_shows_source_lines (s : List Char) (start stop : Nat) (isRemoval : Bool)
    (h1 : BPos (bytesOf s) start) (h2 : BPos (bytesOf s) stop) (hlt : start < stop)
    (hcr : ∀ c ∈ s, c ≠ '\r') (h0 : (bytesOf s)[0]? ≠ some NL)
    (a z : Nat) (ha : a = 1 + ((lineBreaks (bytesOf s)).filter fun p => decide (p < start)).length)
    (hz : z = 1 + ((lineBreaks (bytesOf s)).filter fun p => decide (p < stop - 1)).length)
    (hmid : (charsOf (geomOf (bytesOf s) start stop (some (a, z))).mid).getLast? ≠ some '\n') :
    (((srcLines s).drop (a - 1)).take (z + 1 - a)).length = z + 1 - a ∧
    buildItem (bytesOf s) start stop isRemoval false (some (a, z)) = .ok (
      List.replicate (4 * (geomOf (bytesOf s) start stop (some (a, z))).startTabs
        + (geomOf (bytesOf s) start stop (some (a, z))).startPad) ' ' ++ strMarkerStart ++ ['\n']
      ++ replaceTabs (((((srcLines s).drop (a - 1)).take (z + 1 - a)).zipIdx a).flatMap
          fun (l, i) => lineColumn i ++ l ++ ['\n'])
      ++ List.replicate (4 * (geomOf (bytesOf s) start stop (some (a, z))).endTabs
        + (geomOf (bytesOf s) start stop (some (a, z))).endPad) ' ' ++ strMarkerEnd) := by
  have hlenb : (bytesOf s).length = blen s := length_bytesOf s
  have hstartle : start ≤ (bytesOf s).length := by have := h2.2; omega
  obtain ⟨a1, a2, a3⟩ := lineStartOf_spec (bytesOf s) start hstartle h0
  obtain ⟨c1, c2, c3⟩ := lineEndOf_spec (bytesOf s) (stop - 1) (by have := h2.2; omega)
  obtain ⟨lc1, _⟩ := lineEnd_facts s (stop - 1) (by have := h2.2; rw [hlenb] at this; omega)
  obtain ⟨_, hce1, hce2⟩ := colorEnd_facts s start stop _ h2 lc1 hlt c1
  have hg := itemGeom_ok s start stop (a, z) h1 h2 hlt
  generalize hG : geomOf (bytesOf s) start stop (some (a, z)) = g at hmid hg ⊢
  generalize hls : lineStartOf (bytesOf s) start = ls at a1 a2 a3
  generalize hle : lineEndOf (bytesOf s) (stop - 1) = le at c1 c2 c3 hce1 hce2
  generalize hcev : colorEndOf (bytesOf s) start stop le = ce at hce1 hce2
  have hpre : g.pre = ((bytesOf s).take start).drop ls := by rw [← hG]; simp only [geomOf, hls]
  have hmidE : g.mid = ((bytesOf s).take ce).drop start := by rw [← hG]; simp only [geomOf, hle, hcev]
  have hpost : g.post = ((bytesOf s).take le).drop ce := by rw [← hG]; simp only [geomOf, hle, hcev]
  -- the shown text: the bytes from the line start to the line end
  generalize hW : charsOf (((bytesOf s).take le).drop ls) = W
  have hWs : ∀ c ∈ W, c ∈ s := by
    intro c hc; rw [← hW] at hc; exact slice_chars s _ _ c hc
  have hrem : removedText false isRemoval g = W ++ ['\n'] := by
    unfold removedText
    have hid : (fun l => colSpan false isRemoval ++ l ++ colOff false) = (fun l : List Char => l) := by
      funext l; simp [colSpan, colOff]
    rw [hid, List.map_id', joinWith_rustLines _ (fun c hc => hcr c (by rw [hmidE] at hc; exact slice_chars s _ _ c hc)) hmid]
    rw [← charsOf_append, ← charsOf_append, hpre, hmidE, hpost, slices_concat _ ls start ce a1 hce1,
      slices_concat _ ls ce le (by omega) hce2, hW]
  have hlinesW : rustLines (W ++ ['\n']) = linesT W [] :=
    rustLines_terminated W [] (fun c hc => hcr c (hWs c hc)) (by simp)
  -- counting line breaks
  have hcA : a - 1 = ((bytesOf s).take ls).count NL := by
    rw [ha, count_lineBreaks, count_take_of_none _ ls start a1 a3]; omega
  have hcZ : z - 1 = ((bytesOf s).take (stop - 1)).count NL := by
    rw [hz, count_lineBreaks]; omega
  have hsplit1 : (bytesOf s).take (stop - 1) = (bytesOf s).take ls ++ ((bytesOf s).take (stop - 1)).drop ls := by
    have := List.take_append_drop ls ((bytesOf s).take (stop - 1))
    rw [List.take_take, Nat.min_eq_left (by omega)] at this
    exact this.symm
  have hsplit2 : ((bytesOf s).take (stop - 1)).drop ls ++ ((bytesOf s).take le).drop (stop - 1) =
      ((bytesOf s).take le).drop ls := slices_concat _ ls (stop - 1) le (by omega) c1
  have hk : z + 1 - a ≤ (linesT W []).length := by
    rw [linesT_length, ← hW, count_charsOf, ← hsplit2, List.count_append]
    have : ((bytesOf s).take (stop - 1)).count NL =
        ((bytesOf s).take ls).count NL + (((bytesOf s).take (stop - 1)).drop ls).count NL := by
      conv => lhs; rw [hsplit1]
      rw [List.count_append]
    omega
  -- the source lines
  have hs : s = charsOf ((bytesOf s).take ls) ++ (W ++ charsOf ((bytesOf s).drop le)) := by
    have e1 : bytesOf s = (bytesOf s).take ls ++ (((bytesOf s).take le).drop ls ++ (bytesOf s).drop le) := by
      have t1 := List.take_append_drop le (bytesOf s)
      have t2 := List.take_append_drop ls ((bytesOf s).take le)
      rw [List.take_take, Nat.min_eq_left (by omega)] at t2
      rw [← List.append_assoc, t2, t1]
    conv => lhs; rw [← charsOf_bytesOf s, e1]
    rw [charsOf_append, charsOf_append, hW]
  have hdrop : (srcLines s).drop (a - 1) = linesT (W ++ charsOf ((bytesOf s).drop le)) [] := by
    unfold srcLines
    rcases a2 with a2 | a2
    · -- the region starts on the first line
      have : ((bytesOf s).take ls).count NL = 0 := by rw [a2]; simp
      rw [hcA, this, List.drop_zero]
      conv => lhs; rw [hs, a2]
      simp [charsOf]
    · have hlspos : 0 < ls := by
        cases hl0 : ls with
        | zero => rw [hl0] at a2; simp at a2; exact absurd a2 h0
        | succ n => omega
      have e2 : (bytesOf s).take ls = (bytesOf s).take (ls - 1) ++ [NL] := by
        have := List.take_succ (l := bytesOf s) (i := ls - 1)
        rw [show ls - 1 + 1 = ls by omega, a2] at this
        simpa using this
      conv => lhs; rw [hs, e2, charsOf_append]
      have : charsOf [NL] = ['\n'] := rfl
      rw [this, List.append_assoc, List.singleton_append, linesT_append_nl]
      have hlen : (linesT (charsOf ((bytesOf s).take (ls - 1))) []).length = a - 1 := by
        rw [linesT_length, count_charsOf, hcA, e2, List.count_append]
        simp
      rw [List.drop_append_of_le_length (by omega), ← hlen, List.drop_length, List.nil_append]
  have htake : ((srcLines s).drop (a - 1)).take (z + 1 - a) = (linesT W []).take (z + 1 - a) := by
    rw [hdrop]
    rcases c3 with c3 | c3
    · rw [c3, List.drop_length]
      simp [charsOf]
    · have e3 : (bytesOf s).drop le = NL :: (bytesOf s).drop (le + 1) := by
        have hlt' := lt_of_getElem?_some _ _ _ c3
        rw [List.drop_eq_getElem_cons hlt']
        congr 1
        rw [List.getElem?_eq_getElem hlt'] at c3
        injection c3
      rw [e3]
      have : charsOf (NL :: (bytesOf s).drop (le + 1)) = '\n' :: charsOf ((bytesOf s).drop (le + 1)) := rfl
      rw [this, linesT_append_nl, List.take_append_of_le_length hk]
  refine ⟨by rw [htake, List.length_take, Nat.min_eq_left hk], ?_⟩
  unfold buildItem
  rw [hg]
  simp only
  unfold renderItem
  have hpl : colMarker false = [] := rfl
  have hpo : colOff false = [] := rfl
  simp only [hpl, hpo, List.append_nil, List.nil_append, List.append_assoc]
  rw [marker_pad', marker_pad']
  simp only [codeBlockOf, hrem, hlinesW, zipLines_take, htake, List.append_assoc]

/-- the premise on the highlighted span holds for every region whose last character is not a line break (every
    default-strategy region: it ends with the end delimiter; every wrapper part with a non-empty wrapper line);
    the span is then the region itself -/
theorem mid_of_last_char (s1 w s3 : List Char) (c : Char) (hc : c ≠ '\n') (hcr : c ≠ '\r') (lr : Option (Nat × Nat)) :
    (geomOf (bytesOf (s1 ++ (w ++ [c]) ++ s3)) (blen s1) (blen s1 + blen (w ++ [c])) lr).mid = bytesOf (w ++ [c]) ∧
    (charsOf (geomOf (bytesOf (s1 ++ (w ++ [c]) ++ s3)) (blen s1) (blen s1 + blen (w ++ [c])) lr).mid).getLast?
      ≠ some '\n' := by
  generalize hb : bytesOf (s1 ++ (w ++ [c]) ++ s3) = b
  have hbe : b = bytesOf s1 ++ (bytesOf (w ++ [c]) ++ bytesOf s3) := by
    rw [← hb, bytesOf_append, bytesOf_append, List.append_assoc]
  have hl1 : (bytesOf s1).length = blen s1 := length_bytesOf _
  have hl2 : (bytesOf (w ++ [c])).length = blen (w ++ [c]) := length_bytesOf _
  have hpos2 : 0 < blen (w ++ [c]) := by
    rw [blen_append]; simp only [blen]; have := Char.utf8Size_pos c; omega
  obtain ⟨y, hy, hyc⟩ := bytesOf_last w c
  -- the last byte of the region
  have hlast : b[blen s1 + blen (w ++ [c]) - 1]? = some y := by
    rw [hbe, List.getElem?_append_right (by omega), List.getElem?_append_left (by omega), hl1]
    rw [List.getLast?_eq_getElem?, hl2] at hy
    rw [show blen s1 + blen (w ++ [c]) - 1 - blen s1 = blen (w ++ [c]) - 1 by omega]
    exact hy
  have hyn : y ≠ NL := by
    rcases hyc with rfl | rfl
    · decide
    · intro h; injection h with h; exact hc h
  have hyr : y ≠ .lead '\r' := by
    rcases hyc with rfl | rfl
    · decide
    · intro h; injection h with h; exact hcr h
  have hstop : blen s1 + blen (w ++ [c]) ≤ b.length := by
    rw [hbe]; simp only [List.length_append, hl1, hl2]; omega
  obtain ⟨c1, c2, c3⟩ := lineEndOf_spec b (blen s1 + blen (w ++ [c]) - 1) (by omega)
  have hle : blen s1 + blen (w ++ [c]) ≤ lineEndOf b (blen s1 + blen (w ++ [c]) - 1) := by
    rcases c3 with c3 | c3
    · omega
    · by_cases he : lineEndOf b (blen s1 + blen (w ++ [c]) - 1) = blen s1 + blen (w ++ [c]) - 1
      · rw [he, hlast] at c3
        injection c3 with c3
        exact absurd c3 hyn
      · omega
  have hce : colorEndOf b (blen s1) (blen s1 + blen (w ++ [c])) (lineEndOf b (blen s1 + blen (w ++ [c]) - 1)) =
      blen s1 + blen (w ++ [c]) := by
    unfold colorEndOf
    simp only [Nat.min_eq_left hle]
    rw [if_neg]
    intro ⟨_, _, h3⟩
    rw [hlast] at h3
    injection h3 with h3
    exact hyr h3
  have hmid : (geomOf b (blen s1) (blen s1 + blen (w ++ [c])) lr).mid = bytesOf (w ++ [c]) := by
    simp only [geomOf, hce]
    rw [hbe, ← List.append_assoc, List.take_append_of_le_length (by simp [hl1, hl2]),
      List.take_of_length_le (by simp [hl1, hl2]), List.drop_append_of_le_length (by omega), ← hl1, List.drop_length]
    simp
  refine ⟨hmid, ?_⟩
  rw [hmid, charsOf_bytesOf, List.getLast?_concat]
  intro h; injection h with h; exact hc h

/-- C15, last clause: the highlighted text of an item - what stands between the colour codes, line by line - is the
    text of its region (a region whose last character is not a line break, in a text without carriage returns) -/
theorem highlight_is_region (s1 w s3 : List Char) (c : Char) (hc : c ≠ '\n') (hcr : ∀ d ∈ w ++ [c], d ≠ '\r')
    (lr : Option (Nat × Nat)) (coloring isRemoval : Bool) :
    let g := geomOf (bytesOf (s1 ++ (w ++ [c]) ++ s3)) (blen s1) (blen s1 + blen (w ++ [c])) lr
    removedText coloring isRemoval g = charsOf g.pre
      ++ joinWith ['\n'] ((rustLines (charsOf g.mid)).map fun l => colSpan coloring isRemoval ++ l ++ colOff coloring)
      ++ charsOf g.post ++ ['\n'] ∧
    joinWith ['\n'] (rustLines (charsOf g.mid)) = w ++ [c] := by
  obtain ⟨hm, hl⟩ := mid_of_last_char s1 w s3 c hc (hcr c (by simp)) lr
  refine ⟨rfl, ?_⟩
  rw [hm, charsOf_bytesOf]
  exact joinWith_rustLines _ hcr (by rw [List.getLast?_concat]; intro h; injection h with h; exact hc h)

/-! Non-vacuity: the region `<x>` .. `</x>` over two lines of a four-line text, a tab in front of it. -/
example :
    let s := "a\n\tb <x>\ny</x> c\nd\n".toList
    (bytesOf s)[0]? ≠ some NL ∧ (∀ c ∈ s, c ≠ '\r') ∧
    (1 + ((lineBreaks (bytesOf s)).filter fun p => decide (p < 5)).length,
     1 + ((lineBreaks (bytesOf s)).filter fun p => decide (p < 14 - 1)).length) = (2, 3) ∧
    ((srcLines s).drop (2 - 1)).take (3 + 1 - 2) = ["\tb <x>".toList, "y</x> c".toList] ∧
    (charsOf (geomOf (bytesOf s) 5 14 (some (2, 3))).mid).getLast? ≠ some '\n' := by
  refine ⟨by decide, by decide, by decide +kernel, by decide +kernel, by decide +kernel⟩

/-! ### CR LF texts -/

/-- a text in which no carriage return is followed by another one and which does not end with one: no line of it
    (as `str::lines` reads it) ends with a carriage return -/
theorem lines_no_trailing_cr : ∀ (m cur : List Char),
    (∀ u v, cur ++ m ≠ u ++ '\r' :: '\r' :: v) → (cur ++ m).getLast? ≠ some '\r' → (∀ c ∈ cur, c ≠ '\n') →
    ∀ l ∈ (splitInclusive m cur).map stripLineEnd, l.getLast? ≠ some '\r'
  | [], [], _, _, _, l, hl => by simp [splitInclusive] at hl
  | [], d :: ds, _, hlast, hn, l, hl => by
    simp only [splitInclusive, List.map_cons, List.map_nil, List.mem_singleton] at hl
    subst hl
    rw [stripLineEnd_id _ (by
      intro hh
      have := List.mem_of_getLast? hh
      exact hn _ this rfl)]
    simpa using hlast
  | c :: cs, cur, hrr, hlast, hn, l, hl => by
    simp only [splitInclusive] at hl
    split at hl
    · rename_i hc
      subst hc
      simp only [List.map_cons, List.mem_cons] at hl
      rcases hl with rfl | hl
      · rw [stripLineEnd_piece]
        unfold stripCR
        split
        · rename_i hcr
          intro hh
          -- cur ends with two carriage returns
          rcases List.eq_nil_or_concat cur with rfl | ⟨c0, z, rfl⟩
          · simp at hcr
          · simp only [List.concat_eq_append, List.getLast?_concat, Option.some.injEq] at hcr
            subst hcr
            simp only [List.concat_eq_append, List.dropLast_concat] at hh
            rcases List.eq_nil_or_concat c0 with rfl | ⟨c1, z2, rfl⟩
            · simp at hh
            · simp only [List.concat_eq_append, List.getLast?_concat, Option.some.injEq] at hh
              subst hh
              exact hrr c1 ('\n' :: cs) (by simp)
        · rename_i hcr; exact hcr
      · apply lines_no_trailing_cr cs [] _ _ (by simp) l hl
        · intro u v hh
          exact hrr (cur ++ '\n' :: u) v (by rw [List.nil_append] at hh; rw [hh]; simp)
        · intro hh
          apply hlast
          rw [List.nil_append] at hh
          cases cs with
          | nil => simp at hh
          | cons d ds =>
            rw [show cur ++ '\n' :: d :: ds = (cur ++ ['\n']) ++ (d :: ds) by simp,
              List.getLast?_append, hh]; rfl
    · rename_i hc
      apply lines_no_trailing_cr cs (cur ++ [c]) _ _ _ l hl
      · intro u v hh; exact hrr u v (by simpa using hh)
      · simpa using hlast
      · intro d hd
        rcases List.mem_append.mp hd with hd | hd
        · exact hn d hd
        · simp only [List.mem_singleton] at hd; subst hd; exact hc

/-- C16, last clause, CR LF texts included: the pretty item is the JSON block with colour codes inserted, and stripping
    them gives it back - for a text without escape characters, a region that does not begin between a CR and its LF,
    and a highlighted span none of whose lines ends with a CR (`lines_no_trailing_cr`: no CR CR in the span, and the
    span does not end with a CR - the D17 repair) -/
theorem json_block_is_pretty_block_cr (s : List Char) (start stop : Nat) (isRemoval : Bool) (lr : Nat × Nat)
    (h1 : BPos (bytesOf s) start) (h2 : BPos (bytesOf s) stop) (hlt : start < stop) (hesc : ∀ c ∈ s, c ≠ '\x1b')
    (hpre : (charsOf (geomOf (bytesOf s) start stop (some lr)).pre).getLast? ≠ some '\r')
    (hmid : ∀ l ∈ rustLines (charsOf (geomOf (bytesOf s) start stop (some lr)).mid), l.getLast? ≠ some '\r') :
    ∃ y x, buildItem (bytesOf s) start stop isRemoval true (some lr) = .ok y ∧
      buildItem (bytesOf s) start stop isRemoval false (some lr) = .ok x ∧ Er y x ∧ stripAnsi y = x := by
  have hg := itemGeom_ok s start stop lr h1 h2 hlt
  have her := er_renderItem_cr true isRemoval (some lr) _
    (fun c hc => hesc c (geom_chars s start stop _ c hc)) hpre hmid
  refine ⟨_, _, by unfold buildItem; rw [hg], by unfold buildItem; rw [hg], her, ?_⟩
  exact strip_er her (noEsc_renderItem isRemoval (some lr) _ (fun c hc => hesc c (geom_chars s start stop _ c hc)))

/-! Non-vacuity: the opening part of an unwrap-block in a CR LF text (the witness of D17): the region ends in front of
    the CR LF of the wrapper line; with the repaired `colorEndOf` the premises hold and the two forms agree. -/
example :
    let s := "a\r\n<x>\r\n{\r\n  y\r\n".toList
    (charsOf (geomOf (bytesOf s) 3 10 (some (2, 3))).pre).getLast? ≠ some '\r' ∧
    (rustLines (charsOf (geomOf (bytesOf s) 3 10 (some (2, 3))).mid)).all (fun l => l.getLast? != some '\r') = true ∧
    (match buildItem (bytesOf s) 3 10 true true (some (2, 3)), buildItem (bytesOf s) 3 10 true false (some (2, 3)) with
     | .ok y, .ok x => stripAnsi y == x && y != x
     | _, _ => false) = true := by
  refine ⟨by decide +kernel, by decide +kernel, by decide +kernel⟩

end Chiritori.Props.C16
