import Chiritori.Props.C13Doc
/-
  C13 (b) at document level: how many line breaks of a block of blank lines survive.

  Ingredients: the hull of a seam reaches left over at most one line break (`hull_one_nl`), hence the hulls of
  block-style seams are sorted by start (`hulls_sorted`) and `merge_overlapped_ranges` loses none of their points
  (`mergeOverlapped_cover`); a hull is a whitespace run around its seam, so it stays inside the block of blank lines
  its seam stands in.
-/
namespace Chiritori.Props.C13
open Chiritori Chiritori.Spec

/-! ### `merge_overlapped_ranges` keeps every point of a list sorted by start -/

def StartSorted : List Rng' → Prop
  | [] => True
  | [_] => True
  | x :: y :: rest => x.1 ≤ y.1 ∧ StartSorted (y :: rest)

theorem StartSorted_tail (x : Rng') (xs : List Rng') (h : StartSorted (x :: xs)) : StartSorted xs := by
  cases xs with
  | nil => trivial
  | cons y ys => exact h.2

theorem StartSorted_head_le (x : Rng') : ∀ (xs : List Rng'), StartSorted (x :: xs) → ∀ y ∈ xs, x.1 ≤ y.1
  | [], _, y, hy => by simp at hy
  | z :: zs, h, y, hy => by
    obtain ⟨h1, h2⟩ := h
    rcases List.mem_cons.mp hy with rfl | hy
    · exact h1
    · have := StartSorted_head_le z zs h2 y hy; omega

theorem mergeOverlappedGo_cover (xs : List Rng') : ∀ (cur : Rng'), (∀ x ∈ xs, cur.1 ≤ x.1) → StartSorted xs →
    ∀ d, (Rng.contains cur d = true ∨ inAny xs d = true) → inAny (mergeOverlappedGo cur xs) d = true := by
  induction xs with
  | nil =>
    intro cur _ _ d hd
    rcases hd with hd | hd
    · simp [mergeOverlappedGo, inAny, hd]
    · simp [inAny] at hd
  | cons x xs ih =>
    intro cur hle hs d hd
    have hx := hle x (by simp)
    have hs' := StartSorted_tail x xs hs
    have hxle := StartSorted_head_le x xs hs
    simp only [mergeOverlappedGo]
    split
    · rename_i hov
      apply ih (cur.1, max cur.2 x.2) (fun y hy => hle y (by simp [hy])) hs' d
      rcases hd with hd | hd
      · left
        simp only [Rng.contains, Bool.and_eq_true, decide_eq_true_eq] at hd ⊢
        omega
      · rw [inAny_cons] at hd
        simp only [Bool.or_eq_true] at hd
        rcases hd with hd | hd
        · left
          simp only [Rng.contains, Bool.and_eq_true, decide_eq_true_eq] at hd ⊢
          omega
        · exact Or.inr hd
    · rw [inAny_cons]
      simp only [Bool.or_eq_true]
      rcases hd with hd | hd
      · exact Or.inl hd
      · right
        apply ih x hxle hs' d
        rw [inAny_cons] at hd
        simp only [Bool.or_eq_true] at hd
        exact hd

theorem mergeOverlapped_cover (l : List Rng') (hs : StartSorted l) (d : Nat) (h : inAny l d = true) :
    inAny (mergeOverlapped l) d = true := by
  cases l with
  | nil => simp [inAny] at h
  | cons c cs =>
    apply mergeOverlappedGo_cover cs c (StartSorted_head_le c cs hs) (StartSorted_tail c cs hs) d
    rw [inAny_cons] at h
    simpa using h

/-! ### a hull reaches left over at most one line break -/

def LeftOneNL (b : Bytes) (pos S : Nat) : Prop :=
  ∀ i j, S ≤ i → i < j → j < pos → b[i]? = some NL → b[j]? = some NL → False

theorem LeftOneNL_min (b : Bytes) (pos a c : Nat) (ha : LeftOneNL b pos a) (hc : LeftOneNL b pos c) :
    LeftOneNL b pos (min a c) := by
  rcases Nat.le_total a c with h | h
  · rw [Nat.min_eq_left h]; exact ha
  · rw [Nat.min_eq_right h]; exact hc

theorem LeftOneNL_self (b : Bytes) (pos : Nat) : LeftOneNL b pos pos := by
  intro i j h1 h2 h3; omega

theorem skip_ne_NL {x : ABy} (h : isSkipByte x) : x ≠ NL := by
  rcases h with h | h | h <;> (subst h; simp [NL])

theorem fmtIndent_left (b : Bytes) (pos : Nat) (r : Rng') (h : fmtIndent b pos = .ok r) : LeftOneNL b pos r.1 := by
  unfold fmtIndent at h
  split at h
  · injection h with h; subst h; exact LeftOneNL_self b pos
  · rename_i hg
    simp only [not_or, Nat.not_le, Bool.not_eq_true', Bool.not_eq_eq_eq_not, Bool.not_not] at hg
    cases hsc : indentScan (b.take pos).reverse pos with
    | none => rw [hsc] at h; injection h with h; subst h; exact LeftOneNL_self b pos
    | some s' =>
      rw [hsc] at h
      injection h with h; subst h
      have hlen : (b.take pos).reverse.length = pos := by simp; omega
      obtain ⟨h1, h2, _, h4⟩ := indentScan_some _ pos s' hlen hsc
      intro i j hi hij hj hni _
      obtain ⟨x, hx, hxs⟩ := h4 (pos - 1 - i) (by simp only at hi; omega)
      rw [rev_take_getElem? b pos _ (by omega) (by omega), show pos - 1 - (pos - 1 - i) = i by omega, hni] at hx
      injection hx with hx
      exact skip_ne_NL hxs hx.symm

theorem fmtPrev_left (b : Bytes) (pos : Nat) (r : Rng') (h : fmtPrev b pos = .ok r) : LeftOneNL b pos r.1 := by
  unfold fmtPrev at h
  cases hp1 : findPrevLB b pos true with
  | none => rw [hp1] at h; simp at h; subst h; exact LeftOneNL_self b pos
  | some p1 =>
    rw [hp1] at h
    simp only [Option.bind_some] at h
    cases hp2 : findPrevLB b p1 true with
    | none => rw [hp2] at h; simp at h; subst h; exact LeftOneNL_self b pos
    | some lb =>
      rw [hp2] at h
      simp only at h
      injection h with h; subst h
      obtain ⟨_, a2, _, _, a5, _⟩ := findPrevLB_some _ pos p1 true hp1
      obtain ⟨_, c2, _, _, c5, _⟩ := findPrevLB_some _ p1 lb true hp2
      intro i j hi hij hj hni hnj
      simp only at hi
      -- both line breaks would have to be `p1`
      have hi1 : i = p1 := by
        rcases Nat.lt_trichotomy i p1 with hlt | heq | hgt
        · exact absurd hni (c5 i (by omega) hlt)
        · exact heq
        · exact absurd hni (a5 i hgt (by omega))
      have hj1 : j = p1 := by
        rcases Nat.lt_trichotomy j p1 with hlt | heq | hgt
        · exact absurd hnj (c5 j (by omega) hlt)
        · exact heq
        · exact absurd hnj (a5 j hgt hj)
      omega

theorem fmtEmpty_start (b : Bytes) (pos : Nat) (r : Rng') (h : fmtEmpty b pos = .ok r) : r.1 = pos := by
  unfold fmtEmpty at h
  split at h
  · simp at h
  · split at h
    · injection h with h; subst h; rfl
    · dsimp only at h
      split at h <;> (injection h with h; subst h; rfl)

theorem fmtNext_start (b : Bytes) (pos : Nat) (r : Rng') (h : fmtNext b pos = .ok r) : r.1 = pos := by
  unfold fmtNext at h
  split at h <;> (injection h with h; subst h; rfl)

theorem hull_one_nl (b : Bytes) (pos : Nat) (r : Rng')
    (h : formatBlock b pos seamFormatters (pos, pos) = .ok r) : LeftOneNL b pos r.1 := by
  unfold seamFormatters at h
  simp only [formatBlock] at h
  cases h1 : fmtIndent b pos with
  | error e => rw [h1] at h; simp at h
  | ok r1 =>
    rw [h1] at h
    simp only at h
    cases h2 : fmtEmpty b pos with
    | error e => rw [h2] at h; simp at h
    | ok r2 =>
      rw [h2] at h
      simp only at h
      cases h3 : fmtPrev b pos with
      | error e => rw [h3] at h; simp at h
      | ok r3 =>
        rw [h3] at h
        simp only at h
        cases h4 : fmtNext b pos with
        | error e => rw [h4] at h; simp at h
        | ok r4 =>
          rw [h4] at h
          simp only at h
          injection h with h
          subst h
          simp only
          have e2 := fmtEmpty_start b pos r2 h2
          have e4 := fmtNext_start b pos r4 h4
          rw [e2, e4]
          exact LeftOneNL_min _ _ _ _ (LeftOneNL_self b pos)
            (LeftOneNL_min _ _ _ _ (fmtPrev_left b pos r3 h3)
              (LeftOneNL_min _ _ _ _ (LeftOneNL_self b pos)
                (LeftOneNL_min _ _ _ _ (fmtIndent_left b pos r1 h1) (LeftOneNL_self b pos))))

/-! ### the hulls of block-style seams are sorted by start -/

theorem hull_le_ls (s : List Char) (pos ls : Nat) (r : Rng')
    (hnl : (bytesOf s)[pos]? = some NL) (h1 : ls ≤ pos) (h2 : IsLS (bytesOf s) ls)
    (h3 : ∀ i, ls ≤ i → i < pos → ∃ x, (bytesOf s)[i]? = some x ∧ isBlankByte x) (h4 : ls = 0 → pos = 0)
    (h : formatBlock (bytesOf s) pos seamFormatters (pos, pos) = .ok r) : r.1 ≤ ls := by
  have hp := hull_shape s pos r h
  by_cases hlp : ls = pos
  · have := hp.good.le1; omega
  · have hls0 : ls ≠ 0 := fun h0 => by have := h4 h0; omega
    have hnlb : (bytesOf s)[ls - 1]? = some NL := by
      rcases h2 with h2 | h2
      · exact absurd h2 hls0
      · exact h2
    have hlt := lt_of_getElem?_some _ _ _ hnl
    have hind : fmtIndent (bytesOf s) pos = .ok (ls, pos) := by
      unfold fmtIndent
      have hb : isBoundary (bytesOf s) pos = true := by unfold isBoundary; rw [hnl]; simp
      have hbi : byteIs (bytesOf s) pos '\n' = true := by unfold byteIs; rw [hnl]; simp
      rw [if_neg (by simp [hb, hbi]; simpa using hlt)]
      rw [indentScan_intro (pos - ls) _ pos (by omega)]
      · simp only [Except.ok.injEq, Prod.mk.injEq, and_true]; omega
      · intro i hi
        rw [rev_take_getElem? _ pos i (by omega) (by omega)]
        obtain ⟨z, hz, hzb⟩ := h3 (pos - 1 - i) (by omega) (by omega)
        exact ⟨z, hz, Or.inr hzb⟩
      · rw [rev_take_getElem? _ pos _ (by omega) (by omega), show pos - 1 - (pos - ls) = ls - 1 by omega]
        exact hnlb
    exact hull_le_indent (bytesOf s) pos r ls pos h hind

/-- two block-style seams, the left one first: its hull starts no later -/
theorem hull_sorted_pair (s : List Char) (p q : Nat) (rp rq : Rng')
    (hbp : BlockStyleK (bytesOf s) [p]) (hpq : p ≤ q) (hqlen : q ≤ (bytesOf s).length)
    (hp : formatBlock (bytesOf s) p seamFormatters (p, p) = .ok rp)
    (hq : formatBlock (bytesOf s) q seamFormatters (q, q) = .ok rq) : rp.1 ≤ rq.1 := by
  by_cases heq : p = q
  · subst heq
    rw [hp] at hq
    injection hq with hq
    rw [hq]; exact Nat.le_refl _
  · have hlt : p < q := by omega
    obtain ⟨hnl, _, ls, l1, l2, l3, l4⟩ := hbp p (by simp)
    have hnl' : (bytesOf s)[p]? = some NL := by
      rcases hnl with h | h
      · exact h
      · omega
    have hle := hull_le_ls s p ls rp hnl' l1 l2 l3 l4 hp
    by_cases hc : rp.1 ≤ rq.1
    · exact hc
    · exfalso
      have hls0 : ls ≠ 0 := by omega
      have hnlb : (bytesOf s)[ls - 1]? = some NL := by
        rcases l2 with h | h
        · exact absurd h hls0
        · exact h
      exact hull_one_nl (bytesOf s) q rq hq (ls - 1) p (by omega) (by omega) hlt hnlb hnl'

def PosSorted : List (Nat × Option Nat) → Prop
  | [] => True
  | [_] => True
  | x :: y :: rest => x.1 ≤ y.1 ∧ PosSorted (y :: rest)

theorem formatCollect_sorted (s : List Char) (all : List (Nat × Option Nat)) : ∀ (ps : List (Nat × Option Nat))
    (rs bs : List Rng'), formatCollect (bytesOf s) all ps = .ok (rs, bs) → PosSorted ps →
    (∀ p ∈ ps, BlockStyleK (bytesOf s) [p.1]) →
    StartSorted rs ∧ (∀ r, rs.head? = some r → ∃ p, ps.head? = some p ∧
      formatBlock (bytesOf s) p.1 seamFormatters (p.1, p.1) = .ok r)
  | [], rs, bs, h, _, _ => by
    simp only [formatCollect] at h
    injection h with h
    injection h with h1 _
    rw [← h1]; exact ⟨trivial, by simp⟩
  | (pos, pair) :: rest, rs, bs, h, hps, hbs => by
    simp only [formatCollect] at h
    cases h1 : formatBlock (bytesOf s) pos seamFormatters (pos, pos) with
    | error e => rw [h1] at h; simp at h
    | ok range =>
      rw [h1] at h
      simp only at h
      split at h
      · simp at h
      · cases h2 : formatCollect (bytesOf s) all rest with
        | error e => rw [h2] at h; simp at h
        | ok rb =>
          obtain ⟨rs', bs'⟩ := rb
          rw [h2] at h
          simp only at h
          injection h with h
          injection h with hrs _
          rw [← hrs]
          have hps' : PosSorted rest := by
            cases rest with
            | nil => trivial
            | cons y ys => exact hps.2
          obtain ⟨ih1, ih2⟩ := formatCollect_sorted s all rest rs' bs' h2 hps' (fun p hp => hbs p (by simp [hp]))
          refine ⟨?_, ?_⟩
          · cases hrs' : rs' with
            | nil => trivial
            | cons r2 rs2 =>
              rw [hrs'] at ih1 ih2
              refine ⟨?_, ih1⟩
              obtain ⟨p2, hp2, hfb2⟩ := ih2 r2 rfl
              cases rest with
              | nil => simp at hp2
              | cons y ys =>
                simp only [List.head?_cons, Option.some.injEq] at hp2
                subst hp2
                have hq := hbs y (by simp)
                obtain ⟨_, hylen, _⟩ := hq y.1 (by simp)
                exact hull_sorted_pair s pos y.1 range r2 (hbs (pos, pair) (by simp)) hps.1 hylen h1 hfb2
          · intro r hr
            simp only [List.head?_cons, Option.some.injEq] at hr
            subst hr
            exact ⟨(pos, pair), rfl, h1⟩

/-! ### counting line breaks -/

def nlCount (l : Bytes) : Nat := l.countP (· == NL)

theorem minusFrom_cons (x : ABy) (xs : Bytes) (off : Nat) (F : List Rng) :
    minusFrom (x :: xs) off F = if inAny F off then minusFrom xs (off + 1) F else x :: minusFrom xs (off + 1) F := by
  simp only [minusFrom, List.zipIdx_cons, List.filter_cons]
  cases inAny F off <;> simp

/-- the line breaks of a stretch that survive, plus those that are deleted, are all of them -/
theorem nlCount_minusFrom (F : List Rng) : ∀ (g : Bytes) (off : Nat),
    nlCount (minusFrom g off F) + (g.zipIdx off).countP (fun x => inAny F x.2 && x.1 == NL) = nlCount g
  | [], _ => rfl
  | x :: xs, off => by
    have ih := nlCount_minusFrom F xs (off + 1)
    rw [minusFrom_cons, List.zipIdx_cons, List.countP_cons]
    unfold nlCount at ih ⊢
    rw [List.countP_cons]
    cases hF : inAny F off with
    | true =>
      simp only [ite_true, Bool.true_and]
      cases hx : (x == NL) <;> simp only [Bool.false_eq_true, ite_false, ite_true] <;> omega
    | false =>
      simp only [Bool.false_eq_true, ite_false, Bool.false_and, List.countP_cons]
      cases hx : (x == NL) <;> simp only [Bool.false_eq_true, ite_false, ite_true] <;> omega

/-- how many positions of a stretch satisfy a predicate on the index that holds for exactly the listed indices -/
theorem countP_index_one (g : Bytes) (off a : Nat) (q : ABy × Nat → Bool)
    (ha1 : off ≤ a) (ha2 : a < off + g.length)
    (hq : ∀ x ∈ g.zipIdx off, q x = true ↔ x.2 = a) : (g.zipIdx off).countP q = 1 := by
  induction g generalizing off with
  | nil => simp at ha2; omega
  | cons y ys ih =>
    simp only [List.zipIdx_cons, List.countP_cons]
    by_cases h0 : a = off
    · subst h0
      have h1 : q (y, a) = true := (hq (y, a) (by simp)).mpr rfl
      have h2 : (ys.zipIdx (a + 1)).countP q = 0 := by
        rw [List.countP_eq_zero]
        intro x hx hqx
        have := (hq x (by simp [hx])).mp hqx
        have := List.le_snd_of_mem_zipIdx hx
        omega
      simp [h1, h2]
    · have h1 : q (y, off) = false := by
        cases hc : q (y, off) with
        | false => rfl
        | true => exact absurd ((hq (y, off) (by simp)).mp hc).symm h0
      have := ih (off + 1) (by omega) (by simp at ha2; omega) (fun x hx => hq x (by simp [hx]))
      simp [h1, this]

theorem countP_index_two (g : Bytes) (off a c : Nat) (q : ABy × Nat → Bool)
    (ha1 : off ≤ a) (hac : a < c) (hc2 : c < off + g.length)
    (hq : ∀ x ∈ g.zipIdx off, q x = true ↔ (x.2 = a ∨ x.2 = c)) : (g.zipIdx off).countP q = 2 := by
  induction g generalizing off with
  | nil => simp at hc2; omega
  | cons y ys ih =>
    simp only [List.zipIdx_cons, List.countP_cons]
    by_cases h0 : a = off
    · subst h0
      have h1 : q (y, a) = true := (hq (y, a) (by simp)).mpr (Or.inl rfl)
      have h2 : (ys.zipIdx (a + 1)).countP q = 1 := by
        apply countP_index_one ys (a + 1) c q (by omega) (by simp at hc2; omega)
        intro x hx
        rw [hq x (by simp [hx])]
        have := List.le_snd_of_mem_zipIdx hx
        constructor
        · rintro (h | h)
          · omega
          · exact h
        · intro h; exact Or.inr h
      simp [h1, h2]
    · have h1 : q (y, off) = false := by
        cases hc : q (y, off) with
        | false => rfl
        | true =>
          rcases (hq (y, off) (by simp)).mp hc with h | h
          · exact absurd h.symm h0
          · simp only at h; omega
      have := ih (off + 1) (by omega) (by simp at hc2; omega) (fun x hx => hq x (by simp [hx]))
      simp [h1, this]

/-! ### the deletions inside an isolated block of blank lines -/

theorem ranges_complete (b : Bytes) (all : List (Nat × Option Nat)) : ∀ (ps : List (Nat × Option Nat))
    (rs bs : List Rng'), formatCollect b all ps = .ok (rs, bs) →
    ∀ p ∈ ps, ∃ r ∈ rs, formatBlock b p.1 seamFormatters (p.1, p.1) = .ok r
  | [], _, _, _, p, hp => by simp at hp
  | (pos, pair) :: rest, rs, bs, h, p, hp => by
    simp only [formatCollect] at h
    cases h1 : formatBlock b pos seamFormatters (pos, pos) with
    | error e => rw [h1] at h; simp at h
    | ok range =>
      rw [h1] at h
      simp only at h
      split at h
      · simp at h
      · cases h2 : formatCollect b all rest with
        | error e => rw [h2] at h; simp at h
        | ok rb =>
          obtain ⟨rs', bs'⟩ := rb
          rw [h2] at h
          simp only at h
          injection h with h
          injection h with hrs _
          rw [← hrs]
          rcases List.mem_cons.mp hp with rfl | hp
          · exact ⟨range, by simp, h1⟩
          · obtain ⟨r, hr, g⟩ := ranges_complete b all rest rs' bs' h2 p hp
            exact ⟨r, by simp [hr], g⟩

/-- the setting of clause (b): a block-style seam `p` inside a stretch of whitespace `(xb, xa)` bounded by two
    non-whitespace bytes, with no other seam in it -/
structure Isolated (K : Bytes) (pos : List Nat) (p xb xa : Nat) : Prop where
  lt1 : xb < p
  lt2 : p < xa
  left : ∃ y, K[xb]? = some y ∧ isWs y = false
  right : ∃ y, K[xa]? = some y ∧ isWs y = false
  ws : ∀ i, xb < i → i < xa → ∃ y, K[i]? = some y ∧ isWs y = true
  alone : ∀ q ∈ pos, q ≤ xb ∨ q = p ∨ xa < q

/-- what `format` deletes between `xb` and `xa` is exactly the hull of the seam `p` -/
theorem format_isolated (s1 : List Char) (pos : List (Nat × Option Nat)) (o : Bytes)
    (hnp : ∀ p ∈ pos, p.2 = none) (hbs : BlockStyleK (bytesOf s1) (pos.map (·.1))) (hsort : PosSorted pos)
    (hf : format (bytesOf s1) pos = .ok o) (p xb xa : Nat) (hp : p ∈ pos.map (·.1))
    (hiso : Isolated (bytesOf s1) (pos.map (·.1)) p xb xa) :
    ∃ F S E, o = minusFrom (bytesOf s1) 0 F ∧
      formatBlock (bytesOf s1) p seamFormatters (p, p) = .ok (S, E) ∧ xb < S ∧ E ≤ xa ∧
      ∀ d, xb < d → d < xa → (inAny F d = true ↔ (S ≤ d ∧ d < E)) := by
  unfold format at hf
  cases hfc : formatCollect (bytesOf s1) pos pos with
  | error e => rw [hfc] at hf; simp at hf
  | ok rb =>
    obtain ⟨ranges, blocks⟩ := rb
    rw [hfc] at hf
    simp only at hf
    have hblocks : blocks = [] := formatCollect_noblocks _ pos pos ranges blocks hnp hfc
    subst hblocks
    obtain ⟨ok1, _⟩ := formatCollect_ok s1 pos pos ranges [] hfc
    have horig := ranges_origin _ pos pos ranges [] hfc
    have hcomp := ranges_complete _ pos pos ranges [] hfc
    have hbs1 : ∀ q ∈ pos, BlockStyleK (bytesOf s1) [q.1] := by
      intro q hq x hx
      simp only [List.mem_singleton] at hx
      subst hx
      exact hbs q.1 (List.mem_map.mpr ⟨q, hq, rfl⟩)
    obtain ⟨hss, _⟩ := formatCollect_sorted s1 pos pos ranges [] hfc hsort hbs1
    have hmr : mergeRanges ranges (sortByStart []) = ranges := by
      simp only [sortByStart, List.foldr_nil, mergeRanges]
      split
      · rfl
      · simp [mergeRangesLoop]
    rw [hmr] at hf
    have hall : ∀ x ∈ ranges, RangeOK s1 x := ok1
    obtain ⟨m1, m2⟩ := mergeOverlapped_spec s1 _ hall
    rw [deleteRanges_eq_deleteAll] at hf
    have hrsF := RSorted_of_OSorted s1 _ m1 m2 0 (fun _ _ => Nat.zero_le _)
    have heq := deleteAll_eq (bytesOf s1) _ 0 hrsF o hf
    simp only [List.take_zero, List.drop_zero, List.nil_append] at heq
    -- the hull of p
    obtain ⟨pp, hpp, hpe⟩ := List.mem_map.mp hp
    obtain ⟨r, hr, hfb⟩ := hcomp pp hpp
    rw [hpe] at hfb
    have hgp := (hull_shape s1 p r hfb).good
    obtain ⟨yb, hyb, hybw⟩ := hiso.left
    obtain ⟨ya, hya, hyaw⟩ := hiso.right
    have hS : xb < r.1 := by
      rcases Nat.lt_or_ge xb r.1 with h | h
      · exact h
      · exfalso
        obtain ⟨z, hz, hzw⟩ := hgp.ws xb h (by have := hgp.le2; have := hiso.lt1; omega)
        rw [hyb] at hz
        injection hz with hz
        subst hz
        have := isWs_of_isWsByte _ hzw
        rw [hybw] at this; exact absurd this (by simp)
    have hE : r.2 ≤ xa := by
      rcases Nat.lt_or_ge xa r.2 with h | h
      · exfalso
        obtain ⟨z, hz, hzw⟩ := hgp.ws xa (by have := hgp.le1; have := hiso.lt2; omega) h
        rw [hya] at hz
        injection hz with hz
        subst hz
        have := isWs_of_isWsByte _ hzw
        rw [hyaw] at this; exact absurd this (by simp)
      · exact h
    refine ⟨mergeOverlapped ranges, r.1, r.2, heq, hfb, hS, hE, ?_⟩
    intro d hd1 hd2
    constructor
    · intro hF
      have hd' := C14.merged_subset _ d hF
      simp only [inAny, List.any_eq_true] at hd'
      obtain ⟨h, hh, hhd⟩ := hd'
      simp only [Rng.contains, Bool.and_eq_true, decide_eq_true_eq] at hhd
      obtain ⟨q, hq, hfq⟩ := horig h hh
      have hgq := (hull_shape s1 q.1 h hfq).good
      rcases hiso.alone q.1 (List.mem_map.mpr ⟨q, hq, rfl⟩) with hq1 | hq1 | hq1
      · -- a seam at or left of xb: its hull would cover xb
        exfalso
        obtain ⟨z, hz, hzw⟩ := hgq.ws xb (by have := hgq.le1; omega) (by omega)
        rw [hyb] at hz
        injection hz with hz
        subst hz
        have := isWs_of_isWsByte _ hzw
        rw [hybw] at this; exact absurd this (by simp)
      · rw [hq1, hfb] at hfq
        injection hfq with hfq
        rw [hfq]; exact hhd
      · exfalso
        obtain ⟨z, hz, hzw⟩ := hgq.ws xa (by omega) (by have := hgq.le2; omega)
        rw [hya] at hz
        injection hz with hz
        subst hz
        have := isWs_of_isWsByte _ hzw
        rw [hyaw] at this; exact absurd this (by simp)
    · intro hd
      apply mergeOverlapped_cover ranges hss d
      simp only [inAny, List.any_eq_true]
      exact ⟨r, hr, by simp [Rng.contains]; exact hd⟩

/-- the stretch of `K` strictly between `xb` and `xa` -/
def between (K : Bytes) (xb xa : Nat) : Bytes := (K.take xa).drop (xb + 1)

theorem between_zip (K : Bytes) (xb xa : Nat) (hxa : xa ≤ K.length) (x : ABy × Nat)
    (hx : x ∈ (between K xb xa).zipIdx (xb + 1)) : xb < x.2 ∧ x.2 < xa ∧ K[x.2]? = some x.1 := by
  obtain ⟨h1, h2⟩ := List.mem_zipIdx_iff_le_and_getElem?_sub.mp hx
  have hlt := lt_of_getElem?_some _ _ _ h2
  simp only [between, List.length_drop, List.length_take] at hlt
  refine ⟨by omega, by omega, ?_⟩
  simp only [between, List.getElem?_drop] at h2
  rw [List.getElem?_take_of_lt (by omega)] at h2
  rw [show xb + 1 + (x.2 - (xb + 1)) = x.2 by omega] at h2
  exact h2

/-- C13 (b) for the formatting pass: in an isolated block of blank lines the deletion takes out exactly one line
    break, two when there is a blank line on both sides of the residue line -/
theorem format_gap_count (s1 : List Char) (pos : List (Nat × Option Nat)) (o : Bytes)
    (hnp : ∀ p ∈ pos, p.2 = none) (hbs : BlockStyleK (bytesOf s1) (pos.map (·.1))) (hsort : PosSorted pos)
    (hf : format (bytesOf s1) pos = .ok o) (p ls xb xa : Nat) (hp : p ∈ pos.map (·.1))
    (hseam : BlockSeam (bytesOf s1) ls p) (hiso : Isolated (bytesOf s1) (pos.map (·.1)) p xb xa) :
    ∃ F, o = minusFrom (bytesOf s1) 0 F ∧
      (∀ q q', PrevText (bytesOf s1) ls q → NextText (bytesOf s1) p q' →
        nlCount (minusFrom (between (bytesOf s1) xb xa) (xb + 1) F) + 1 = nlCount (between (bytesOf s1) xb xa)) ∧
      (∀ ls' q', PrevBlank (bytesOf s1) ls ls' → NextText (bytesOf s1) p q' →
        nlCount (minusFrom (between (bytesOf s1) xb xa) (xb + 1) F) + 1 = nlCount (between (bytesOf s1) xb xa)) ∧
      (∀ q e, PrevText (bytesOf s1) ls q → NextBlank (bytesOf s1) p e →
        nlCount (minusFrom (between (bytesOf s1) xb xa) (xb + 1) F) + 1 = nlCount (between (bytesOf s1) xb xa)) ∧
      (∀ ls' e, PrevBlank (bytesOf s1) ls ls' → NextBlank (bytesOf s1) p e →
        nlCount (minusFrom (between (bytesOf s1) xb xa) (xb + 1) F) + 2 = nlCount (between (bytesOf s1) xb xa)) := by
  obtain ⟨F, S, E, ho, hfb, hS, hE, hin⟩ := format_isolated s1 pos o hnp hbs hsort hf p xb xa hp hiso
  obtain ⟨b1, b2, b3, b4⟩ := seam_breaks hseam S E hfb
  have hxa : xa ≤ (bytesOf s1).length := by
    obtain ⟨y, hy, _⟩ := hiso.right
    have := lt_of_getElem?_some _ _ _ hy
    omega
  have hcount := nlCount_minusFrom F (between (bytesOf s1) xb xa) (xb + 1)
  have hblen : (between (bytesOf s1) xb xa).length = xa - (xb + 1) := by
    simp only [between, List.length_drop, List.length_take]; omega
  have h2 := hseam.two
  have hle := hseam.le
  -- the predicate counted: deleted and a line break
  have hpred : ∀ (L : Nat → Prop), (∀ i, S ≤ i → i < E → ((bytesOf s1)[i]? = some NL ↔ L i)) →
      ∀ x ∈ (between (bytesOf s1) xb xa).zipIdx (xb + 1),
        ((inAny F x.2 && x.1 == NL) = true ↔ (S ≤ x.2 ∧ x.2 < E ∧ L x.2)) := by
    intro L hL x hx
    obtain ⟨g1, g2, g3⟩ := between_zip _ xb xa hxa x hx
    simp only [Bool.and_eq_true, beq_iff_eq]
    rw [hin x.2 g1 g2]
    constructor
    · rintro ⟨⟨a1, a2⟩, a3⟩
      exact ⟨a1, a2, (hL x.2 a1 a2).mp (by rw [g3, a3])⟩
    · rintro ⟨a1, a2, a3⟩
      have := (hL x.2 a1 a2).mpr a3
      rw [g3] at this
      exact ⟨⟨a1, a2⟩, Option.some.inj this⟩
  refine ⟨F, ho, ?_, ?_, ?_, ?_⟩
  · intro q q' hpt hnt
    obtain ⟨e1, _, _, _⟩ := seam_exact hseam
    have hSE := e1 q q' hpt hnt
    rw [hfb] at hSE
    injection hSE with hSE; injection hSE with hS' hE'
    have := countP_index_one (between (bytesOf s1) xb xa) (xb + 1) p _ (by omega) (by rw [hblen]; have := hiso.lt2; omega)
      (fun x hx => by
        rw [hpred (fun i => i = p) (b1 q q' hpt hnt) x hx]
        constructor
        · rintro ⟨_, _, h⟩; exact h
        · intro h; rw [h]; omega)
    omega
  · intro ls' q' hpb hnt
    obtain ⟨_, e2, _, _⟩ := seam_exact hseam
    have hSE := e2 ls' q' hpb hnt
    rw [hfb] at hSE
    injection hSE with hSE; injection hSE with hS' hE'
    have := hpb.lt
    have := countP_index_one (between (bytesOf s1) xb xa) (xb + 1) (ls - 1) _ (by omega) (by rw [hblen]; have := hiso.lt2; omega)
      (fun x hx => by
        rw [hpred (fun i => i = ls - 1) (b2 ls' q' hpb hnt) x hx]
        constructor
        · rintro ⟨_, _, h⟩; exact h
        · intro h; rw [h]; omega)
    omega
  · intro q e hpt hnb
    obtain ⟨_, _, e3, _⟩ := seam_exact hseam
    have hSE := e3 q e hpt hnb
    rw [hfb] at hSE
    injection hSE with hSE; injection hSE with hS' hE'
    have := hnb.le
    have := countP_index_one (between (bytesOf s1) xb xa) (xb + 1) p _ (by omega) (by rw [hblen]; have := hiso.lt2; omega)
      (fun x hx => by
        rw [hpred (fun i => i = p) (b3 q e hpt hnb) x hx]
        constructor
        · rintro ⟨_, _, h⟩; exact h
        · intro h; rw [h]; omega)
    omega
  · intro ls' e hpb hnb
    obtain ⟨_, _, _, e4⟩ := seam_exact hseam
    have hSE := e4 ls' e hpb hnb
    rw [hfb] at hSE
    injection hSE with hSE; injection hSE with hS' hE'
    have := hpb.lt
    have := hnb.le
    have := countP_index_two (between (bytesOf s1) xb xa) (xb + 1) (ls - 1) p _ (by omega) (by omega)
      (by rw [hblen]; have := hiso.lt2; omega)
      (fun x hx => by
        rw [hpred (fun i => i = ls - 1 ∨ i = p) (b4 ls' e hpb hnb) x hx]
        constructor
        · rintro ⟨_, _, h⟩; exact h
        · intro h; rcases h with h | h <;> (rw [h]; omega))
    omega

theorem posSorted_zip : ∀ (ms : List Marker) (k lo hi : Nat), MSorted ms lo hi → k ≤ lo →
    PosSorted ((positions ms k).zip (ms.map (·.pair))) ∧
    (∀ x, ((positions ms k).zip (ms.map (·.pair))).head? = some x → lo - k ≤ x.1)
  | [], _, _, _, _, _ => ⟨trivial, by simp [positions]⟩
  | m :: ms, k, lo, hi, hs, hk => by
    obtain ⟨h1, h2, h3⟩ := hs
    obtain ⟨ih1, ih2⟩ := posSorted_zip ms (k + (m.stop - m.start)) m.stop hi h3 (by omega)
    simp only [positions, List.map_cons, List.zip_cons_cons]
    refine ⟨?_, ?_⟩
    · cases hz : (positions ms (k + (m.stop - m.start))).zip (ms.map (·.pair)) with
      | nil => trivial
      | cons y ys =>
        rw [hz] at ih1 ih2
        refine ⟨?_, ih1⟩
        have := ih2 y rfl
        simp only
        omega
    · intro x hx
      simp only [List.head?_cons, Option.some.injEq] at hx
      subst hx
      simp only
      omega

/-- C13 (b) at document level: when all removals are block-style, nothing is unwrapped, and a removed block stands
    alone between a non-whitespace byte before it and one behind it, the blank lines around it lose exactly one
    line break - two when there is a blank line on both sides -/
theorem c13_blank_count (src ds de : List Char) (cfg : Cfg) (out : List Char) (hde : de ≠ [])
    (hnu : NoReadyUnwrap cfg (parseSource src ds de))
    (hbs : BlockStyleK (minusRanges (bytesOf src) (extentsOfSource src ds de cfg))
      (positions (buildRemoveMarker cfg (bytesOf src) (parseSource src ds de)) 0))
    (h : clean src ds de cfg = .ok out) (p ls xb xa : Nat)
    (hp : p ∈ positions (buildRemoveMarker cfg (bytesOf src) (parseSource src ds de)) 0)
    (hseam : BlockSeam (minusRanges (bytesOf src) (extentsOfSource src ds de cfg)) ls p)
    (hiso : Isolated (minusRanges (bytesOf src) (extentsOfSource src ds de cfg))
      (positions (buildRemoveMarker cfg (bytesOf src) (parseSource src ds de)) 0) p xb xa) :
    let K := minusRanges (bytesOf src) (extentsOfSource src ds de cfg)
    ∃ F, bytesOf out = minusFrom K 0 F ∧
      (∀ q q', PrevText K ls q → NextText K p q' →
        nlCount (minusFrom (between K xb xa) (xb + 1) F) + 1 = nlCount (between K xb xa)) ∧
      (∀ ls' q', PrevBlank K ls ls' → NextText K p q' →
        nlCount (minusFrom (between K xb xa) (xb + 1) F) + 1 = nlCount (between K xb xa)) ∧
      (∀ q e, PrevText K ls q → NextBlank K p e →
        nlCount (minusFrom (between K xb xa) (xb + 1) F) + 1 = nlCount (between K xb xa)) ∧
      (∀ ls' e, PrevBlank K ls ls' → NextBlank K p e →
        nlCount (minusFrom (between K xb xa) (xb + 1) F) + 2 = nlCount (between K xb xa)) := by
  intro K
  unfold clean at h
  simp only [bind, Except.bind, pure, Except.pure] at h
  generalize hM : buildRemoveMarker cfg (bytesOf src) (parseSource src ds de) = M at h hbs hp hiso
  cases hrm : removeMarkers (bytesOf src) M with
  | error e => rw [hrm] at h; simp at h
  | ok removed =>
    rw [hrm] at h
    simp only at h
    cases hpos : getRemovedPos M with
    | error e => rw [hpos] at h; simp at h
    | ok pos =>
      rw [hpos] at h
      simp only at h
      cases hf : format removed pos with
      | error e => rw [hf] at h; simp at h
      | ok o =>
        rw [hf] at h
        simp only at h
        injection h with h
        subst h
        obtain ⟨hs, _⟩ := buildRemoveMarker_spec src ds de cfg hde
        rw [hM] at hs
        have hnp : ∀ m ∈ M, m.pair = none := by
          rw [← hM]
          exact mergeMarkers_nopair _ [] (collect_nopairs cfg (bytesOf src) _ hnu) (by simp)
        have hremoved := C02.removed_eq src ds de cfg hde removed (by rw [hM]; exact hrm)
        have hpos' := removedPosAux_eq M 0 0 (blen src) hs (Nat.le_refl _)
        unfold getRemovedPos at hpos
        rw [hpos'] at hpos
        injection hpos with hpos
        obtain ⟨s1, hs1⟩ := deleteAll_wellFormed src _ removed hrm
        have hKeq : K = bytesOf s1 := by
          show minusRanges (bytesOf src) (extentsOfSource src ds de cfg) = _
          rw [← hremoved, hs1]
        have hplen : ∀ (ms : List Marker) (k : Nat), (positions ms k).length = ms.length := by
          intro ms; induction ms with
          | nil => intro k; rfl
          | cons m ms ih => intro k; simp [positions, ih]
        have hmapfst : pos.map (·.1) = positions M 0 := by
          rw [← hpos, List.map_fst_zip]
          simp [hplen]
        rw [hs1] at hf
        obtain ⟨_, s2, hs2⟩ := format_wsSub s1 pos o hf
        have hres := format_gap_count s1 pos o
          (by
            intro q hq
            rw [← hpos] at hq
            have := (List.of_mem_zip hq).2
            obtain ⟨m, hm, hmp⟩ := List.mem_map.mp this
            rw [← hmp]; exact hnp m hm)
          (by rw [hmapfst, ← hKeq]; exact hbs)
          (by rw [← hpos]; exact (posSorted_zip M 0 0 (blen src) hs (Nat.le_refl _)).1)
          hf p ls xb xa (by rw [hmapfst]; exact hp) (by rw [← hKeq]; exact hseam)
          (by rw [hmapfst, ← hKeq]; exact hiso)
        rw [← hKeq] at hres
        rw [hs2, charsOf_bytesOf, ← hs2]
        exact hres

/-- the premises are satisfiable: the residue line `"  "` at 5..7 of `"foo\n\n  \n\nbar\n"` stands alone between
    `o` (index 2) and `b` (index 9) -/
example : Isolated (bytesOf "foo\n\n  \n\nbar\n".toList) [7] 7 2 9 := by
  refine ⟨by omega, by omega, ⟨.lead 'o', by decide, by decide⟩, ⟨.lead 'b', by decide, by decide⟩, ?_, by simp⟩
  intro i h1 h2
  have : i = 3 ∨ i = 4 ∨ i = 5 ∨ i = 6 ∨ i = 7 ∨ i = 8 := by omega
  rcases this with rfl | rfl | rfl | rfl | rfl | rfl
  · exact ⟨NL, by decide, by decide⟩
  · exact ⟨NL, by decide, by decide⟩
  · exact ⟨.lead ' ', by decide, by decide⟩
  · exact ⟨.lead ' ', by decide, by decide⟩
  · exact ⟨NL, by decide, by decide⟩
  · exact ⟨NL, by decide, by decide⟩

end Chiritori.Props.C13
