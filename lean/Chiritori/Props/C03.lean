import Chiritori.Props.C02
/-
  C03 — No under-removal: proved together with C02 (Props/C02.lean, theorem `c02_c03`).
  Here: the statement in C03's own words, as a corollary.
-/
namespace Chiritori.Props.C03
open Chiritori Chiritori.Spec

/-- every byte of the source whose index lies in a ready extent is deleted by `remove`, and nothing else is:
    the text before whitespace tidying is the source minus the ready extents -/
theorem removed_is_source_minus_extents (src ds de : List Char) (cfg : Cfg) (hde : de ≠ []) (removed : Bytes)
    (h : removeMarkers (bytesOf src) (buildRemoveMarker cfg (bytesOf src) (parseSource src ds de)) = .ok removed) :
    removed = minusRanges (bytesOf src) (extentsOfSource src ds de cfg) :=
  C02.removed_eq src ds de cfg hde removed h

def Statement : Prop := C02.Statement
theorem c03 : Statement := C02.c02_c03

end Chiritori.Props.C03
