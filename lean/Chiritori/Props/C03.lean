import Chiritori.Spec.Holds
namespace Chiritori.Props.C03
end Chiritori.Props.C03
