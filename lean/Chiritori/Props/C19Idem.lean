import Chiritori.Props.C14
import Chiritori.Props.C04
import Chiritori.Lemmas.RelParse
import Chiritori.Props.C19
/-
  C19, first clause, for default-strategy removals in well-delimited sources: cleaning the output again with the
  same configuration changes nothing.

  `idempotent_default`: let the source be a sequence of well-delimited pieces (text free of the first character of
  the start delimiter, tag bodies free of the first character of the end delimiter after their first character -
  every document the AST generator renders; `c08_wellDelimited_partial`), let the start delimiter begin and the end
  delimiter end with a non-whitespace character, and let no element whose condition holds carry `unwrap-block`.
  Then `clean (clean src) = clean src`.

  The proof is the refinement chain the other properties lacked: the ready extents cover whole tokens, exactly
  those of the elements whose condition holds (`prune_tokens`); the text after removal is the concatenation of the
  surviving tokens (`minusFrom_tokens`); the seams are token boundaries (`koffTo_covered`), so whitespace tidying
  never reaches into a tag (`coresKept_of_anchored`, a tag being its own trimmed core) and the output is again a
  well-delimited text with the same tags (`pieces_after`); the same tags in the same order parse to the same
  element skeleton (`skel_congr`), which is the skeleton of the pruned forest because removals create no new
  pairings (`parse_pruned`); the pruned forest has no element whose condition holds, so nothing is ready in the
  output and cleaning it is the identity (C04).

  `compose_default` (second clause, same domain): for `CfgLe cfg1 cfg2`, `clean cfg2 (clean cfg1 src)` and
  `clean cfg2 src` have the same non-whitespace characters.  The output of the first run is, piece by piece, the
  token list of the pruned forest - tags as they were, texts up to whitespace (`clean_shape`); two token streams
  related that way parse to forests that no pruning followed by reading the non-whitespace text can tell apart
  (`parse_rel`, Lemmas/RelParse.lean); the forest of what is left is what is left of the forest (`parse_pruned`);
  and pruning by the later, larger predicate absorbs the earlier pruning (`prune_prune`, `ready_monotone`).
-/
namespace Chiritori.Props.C19
open Chiritori Chiritori.Spec

/-- what the formatting pass deletes when no marker has a pair: whitespace, in runs that touch a seam -/
theorem format_anchored (s1 : List Char) (pos : List (Nat × Option Nat)) (o : Bytes)
    (hnp : ∀ p ∈ pos, p.2 = none) (hf : format (bytesOf s1) pos = .ok o) (bnds : List Nat)
    (hb : ∀ p ∈ pos, p.1 = 0 ∨ p.1 ∈ bnds) :
    ∃ F, o = minusFrom (bytesOf s1) 0 F ∧ Anchored F (bytesOf s1) bnds 0 ∧
      ∀ d, inAny F d = true → ∃ y, (bytesOf s1)[d]? = some y ∧ isWs y = true := by
  unfold format at hf
  cases hfc : formatCollect (bytesOf s1) pos pos with
  | error e => rw [hfc] at hf; simp at hf
  | ok rb =>
    obtain ⟨ranges, blocks⟩ := rb
    rw [hfc] at hf
    simp only at hf
    have hblocks : blocks = [] := formatCollect_noblocks _ pos pos ranges blocks hnp hfc
    subst hblocks
    obtain ⟨ok1, _⟩ := formatCollect_ok s1 pos pos ranges [] hfc
    obtain ⟨loc1, _⟩ := C14.ranges_local s1 pos pos ranges [] hfc
    have hall : ∀ x ∈ mergeRanges ranges (sortByStart []), RangeOK s1 x := by
      intro x hx
      rcases mem_mergeRanges _ _ _ hx with hx | hx
      · exact ok1 x hx
      · simp [sortByStart] at hx
    obtain ⟨m1, m2⟩ := mergeOverlapped_spec s1 _ hall
    rw [deleteRanges_eq_deleteAll] at hf
    have hrsF := RSorted_of_OSorted s1 _ m1 m2 0 (fun _ _ => Nat.zero_le _)
    have heq := deleteAll_eq (bytesOf s1) _ 0 hrsF o hf
    simp only [List.take_zero, List.drop_zero, List.nil_append] at heq
    refine ⟨_, heq, ?_, ?_⟩
    · intro d hd
      have hd2 := C14.merged_subset _ d hd
      simp only [inAny, List.any_eq_true] at hd2
      obtain ⟨x, hx, hxd⟩ := hd2
      have hxr : x ∈ ranges := by
        rcases mem_mergeRanges _ _ _ hx with hx | hx
        · exact hx
        · simp [sortByStart] at hx
      obtain ⟨p, hp, g⟩ := loc1 x hxr
      simp only [Rng.contains, Bool.and_eq_true, decide_eq_true_eq] at hxd
      refine ⟨x.1, x.2, p.1, hxd.1, hxd.2, g.le1, g.le2, ?_, ?_⟩
      · intro i hi1 hi2
        obtain ⟨y, hy, hyw⟩ := g.ws i hi1 hi2
        exact ⟨y, hy, isWs_of_isWsByte y hyw⟩
      · rcases hb p hp with h | h
        · exact Or.inl (by omega)
        · exact Or.inr h
    · intro d hd
      simp only [inAny, List.any_eq_true] at hd
      obtain ⟨r, hr, hrd⟩ := hd
      simp only [Rng.contains, Bool.and_eq_true, decide_eq_true_eq] at hrd
      obtain ⟨y, hy, hyw⟩ := (m1 r hr).ws d hrd.1 hrd.2
      exact ⟨y, hy, isWs_of_isWsByte y hyw⟩

/-! ### the elements of a forest, read off its skeleton -/

mutual
def skelEls : List Skel → List Element
  | [] => []
  | s :: ss => skelEl s ++ skelEls ss
def skelEl : Skel → List Element
  | .tag _ => []
  | .elem el _ _ ch => el :: skelEls ch
end

theorem skelEls_append : ∀ (a b : List Skel), skelEls (a ++ b) = skelEls a ++ skelEls b
  | [], b => by simp [skelEls]
  | s :: ss, b => by simp [skelEls, skelEls_append ss b, List.append_assoc]

mutual
theorem elementsOf_skel : ∀ (parts : List Part), (elementsOf parts).map (·.1) = skelEls (skelParts parts)
  | [] => rfl
  | p :: ps => by
    simp only [elementsOf, List.map_append, skelParts, skelEls_append, elementsOfPart_skel p, elementsOf_skel ps]
theorem elementsOfPart_skel : ∀ (p : Part), (elementsOfPart p).map (·.1) = skelEls (skelPart p)
  | .text t => by
    simp only [elementsOfPart, List.map_nil, skelPart]
    split <;> simp [skelEls, skelEl]
  | .element el st en ch => by
    simp only [elementsOfPart, List.map_cons, skelPart, skelEls, skelEl, List.append_nil, elementsOf_skel ch]
end

mutual
theorem prune_no_ready (P : Element → Bool) : ∀ (parts : List Part),
    ∀ e ∈ elementsOf (pruneParts P parts), P e.1 = false
  | [], e, he => by simp [pruneParts, elementsOf] at he
  | p :: ps, e, he => by
    simp only [pruneParts] at he
    have : elementsOf (prunePart P p ++ pruneParts P ps) = elementsOf (prunePart P p) ++ elementsOf (pruneParts P ps) := by
      have app : ∀ (a b : List Part), elementsOf (a ++ b) = elementsOf a ++ elementsOf b := by
        intro a
        induction a with
        | nil => intro b; simp [elementsOf]
        | cons x xs ih => intro b; simp [elementsOf, ih, List.append_assoc]
      exact app _ _
    rw [this, List.mem_append] at he
    rcases he with he | he
    · exact prunePart_no_ready P p e he
    · exact prune_no_ready P ps e he
theorem prunePart_no_ready (P : Element → Bool) : ∀ (p : Part),
    ∀ e ∈ elementsOf (prunePart P p), P e.1 = false
  | .text t, e, he => by simp [prunePart, elementsOf, elementsOfPart] at he
  | .element el st en ch, e, he => by
    simp only [prunePart] at he
    split at he
    · simp [elementsOf] at he
    · rename_i hP
      simp only [elementsOf, elementsOfPart, List.append_nil, List.mem_cons] at he
      rcases he with rfl | he
      · simpa using hP
      · exact prune_no_ready P ch e he
end

/-- what cleaning a well-delimited source with default-strategy removals gives: again a well-delimited text, whose
    pieces are, one by one, the tokens of the pruned forest - the tags as they were, the texts up to whitespace -/
theorem clean_shape (d0 : Char) (dr : List Char) (e0 : Char) (er : List Char)
    (hd0 : wsChar d0 = false) (hel : ∀ w c, (e0 :: er) = w ++ [c] → wsChar c = false)
    (ps : List Piece) (hok : ∀ p ∈ ps, p.ok d0 e0) (cfg : Cfg) (out : List Char)
    (hnu : NoReadyUnwrap cfg (parseSource (renderAll (d0 :: dr) (e0 :: er) ps) (d0 :: dr) (e0 :: er)))
    (h : clean (renderAll (d0 :: dr) (e0 :: er) ps) (d0 :: dr) (e0 :: er) cfg = .ok out) :
    ∃ ps', (∀ p ∈ ps', p.ok d0 e0) ∧ out = renderAll (d0 :: dr) (e0 :: er) ps' ∧
      PRel (d0 :: dr) (e0 :: er) ps' (flattenParts (pruneParts (conditionHolds cfg)
        (parseSource (renderAll (d0 :: dr) (e0 :: er) ps) (d0 :: dr) (e0 :: er)))) := by
  generalize hsrc : renderAll (d0 :: dr) (e0 :: er) ps = src at h hnu ⊢
  have hde : (e0 :: er) ≠ [] := by simp
  have hdsn : (d0 :: dr) ≠ [] := by simp
  -- the tokens and the forest of the source
  obtain ⟨hok', _⟩ := tokenize_ok src (d0 :: dr) (e0 :: er) hde
  have hfl : flattenParts (parseSource src (d0 :: dr) (e0 :: er)) = tokenize src (d0 :: dr) (e0 :: er) := parse_flatten (d0 :: dr) (e0 :: er) _
  have hspan : BSpan (flattenParts (parseSource src (d0 :: dr) (e0 :: er))) 0 (blen src) := by
    have := BSpan_of_chain _ 0 0 hok'.chain
    rw [hok'.flatEq, Nat.zero_add] at this
    rw [hfl]; exact this
  generalize hX : readyExtents cfg (bytesOf src) (parseSource src (d0 :: dr) (e0 :: er)) = X
  obtain ⟨hA, hW⟩ := prune_tokens cfg (bytesOf src) X (parseSource src (d0 :: dr) (e0 :: er)) 0 (blen src) hspan hnu
    (fun i _ _ => by rw [← hX, readyExtents_eq])
  rw [hfl] at hA hW
  -- clean, step by step
  unfold clean at h
  simp only [bind, Except.bind, pure, Except.pure] at h
  generalize hM : buildRemoveMarker cfg (bytesOf src) (parseSource src (d0 :: dr) (e0 :: er)) = M at h
  cases hrm : removeMarkers (bytesOf src) M with
  | error e => rw [hrm] at h; simp at h
  | ok removed =>
    rw [hrm] at h
    simp only at h
    cases hpos : getRemovedPos M with
    | error e => rw [hpos] at h; simp at h
    | ok pos =>
      rw [hpos] at h
      simp only at h
      cases hf : format removed pos with
      | error e => rw [hf] at h; simp at h
      | ok o =>
        rw [hf] at h
        simp only at h
        injection h with h
        subst h
        obtain ⟨hs, hcov⟩ := buildRemoveMarker_spec src (d0 :: dr) (e0 :: er) cfg hde
        rw [hM] at hs hcov
        have hcov' : ∀ i, inAny X i = true ↔ mcov M i := by
          intro i; rw [hcov i, ← hX]; rfl
        have hnp : ∀ m ∈ M, m.pair = none := by
          rw [← hM]
          exact mergeMarkers_nopair _ [] (collect_nopairs cfg (bytesOf src) _ hnu) (by simp)
        -- the text after removal is the concatenation of the surviving tokens
        have hremoved : removed = (tokSegs X (tokenize src (d0 :: dr) (e0 :: er))).flatten := by
          have h1 := C02.removed_eq src (d0 :: dr) (e0 :: er) cfg hde removed (by rw [hM]; exact hrm)
          rw [h1, minusRanges_eq_minusFrom]
          have : extentsOfSource src (d0 :: dr) (e0 :: er) cfg = X := hX
          rw [this, tokSegs_flatten]
          have := minusFrom_tokens X (tokenize src (d0 :: dr) (e0 :: er)) 0 0 hok'.chain hW
          rw [hok'.flatEq] at this
          exact this
        -- the seam positions are token boundaries
        have hpos' := removedPosAux_eq M 0 0 (blen src) hs (Nat.le_refl _)
        unfold getRemovedPos at hpos
        rw [hpos'] at hpos
        injection hpos with hpos
        have hposk := positions_koffTo X (bytesOf src) M 0 0 (blen src) hs (by simp)
          (fun i _ => hcov' i) (by simp [koffTo_zero])
        obtain ⟨s1, hs1⟩ := deleteAll_wellFormed src _ removed hrm
        rw [hs1] at hf
        obtain ⟨F, ho, hanch, hFws⟩ := format_anchored s1 pos o
          (by
            intro p hp
            rw [← hpos] at hp
            have := (List.of_mem_zip hp).2
            obtain ⟨m, hm, hmp⟩ := List.mem_map.mp this
            rw [← hmp]; exact hnp m hm)
          hf (segEnds (tokSegs X (tokenize src (d0 :: dr) (e0 :: er))) 0)
          (by
            intro p hp
            rw [← hpos] at hp
            have hp1 := (List.of_mem_zip hp).1
            rw [hposk] at hp1
            obtain ⟨m, hm, hmp⟩ := List.mem_map.mp hp1
            obtain ⟨g1, g2, g3⟩ := MSorted_bounds M 0 (blen src) hs m hm
            have := koffTo_covered X (tokenize src (d0 :: dr) (e0 :: er)) hok'.chain hW m.start
              (by rw [hok'.flatEq]; omega) ((hcov' m.start).mpr ⟨m, hm, Nat.le_refl _, g2⟩)
            rw [hok'.flatEq] at this
            rw [← hmp]; exact this)
        rw [← hs1] at ho hanch hFws
        -- so the deletions stay out of the trimmed cores of the tokens
        have hck := coresKept_of_anchored F removed (tokSegs X (tokenize src (d0 :: dr) (e0 :: er))) 0 [] (by simpa using hremoved) rfl
          (by rw [hremoved] at hanch; rw [hremoved]; exact hanch)
        -- the output is a well-delimited text with the tags of the surviving tokens
        have hshape : ∀ t ∈ (tokenize src (d0 :: dr) (e0 :: er)).filter (keepTok X), TokShape d0 e0 (d0 :: dr) (e0 :: er) (t.kind, t.value) := by
          intro t ht
          have htm : t ∈ tokenize src (d0 :: dr) (e0 :: er) := (List.mem_filter.mp ht).1
          have hkv : (t.kind, t.value) ∈ (tokenize src (d0 :: dr) (e0 :: er)).map (fun t => (t.kind, t.value)) :=
            List.mem_map.mpr ⟨t, htm, rfl⟩
          rw [← hsrc, tokens_tnorm d0 dr e0 er ps hok] at hkv
          exact tnorm_shape d0 e0 _ _ ps [] hok (by simp) _ hkv
        obtain ⟨ps', q1, q2, _, q4⟩ := (pieces_after d0 dr e0 er hd0 hel F removed hFws)
          ((tokenize src (d0 :: dr) (e0 :: er)).filter (keepTok X)) 0 [] (by simpa [tokSegs] using hremoved) rfl hshape
          (by simpa [tokSegs] using hck)
        have hout : charsOf o = renderAll (d0 :: dr) (e0 :: er) ps' := by
          rw [ho, hremoved]
          have : (tokSegs X (tokenize src (d0 :: dr) (e0 :: er))).flatten =
              (((tokenize src (d0 :: dr) (e0 :: er)).filter (keepTok X)).map fun t => bytesOf t.value).flatten := rfl
          rw [this, ← q2, charsOf_bytesOf]
        refine ⟨ps', q1, hout, ?_⟩
        rw [hA]
        exact q4

theorem tagsOf_of_pRel (ds de : List Char) : ∀ (ps : List Piece) (L : List Token), PRel ds de ps L →
    tagsOf ds de ps = tagValues L
  | [], [], _ => rfl
  | [], _ :: _, h => absurd h (by simp [PRel])
  | .text _ :: _, [], h => absurd h (by simp [PRel])
  | .tag _ _ :: _, [], h => absurd h (by simp [PRel])
  | .text v :: ps, t :: L, h => by
    obtain ⟨hk, _, hrest⟩ := h
    simp only [tagsOf, tagValues, List.filter_cons, hk]
    simpa [tagValues] using tagsOf_of_pRel ds de ps L hrest
  | .tag b0 rest :: ps, t :: L, h => by
    obtain ⟨hk, hv, hrest⟩ := h
    simp only [tagsOf, tagValues, List.filter_cons, hk, decide_true, ite_true, List.map_cons, hv]
    congr 1
    simpa [tagValues] using tagsOf_of_pRel ds de ps L hrest

theorem nw_of_pRel (ds de : List Char) : ∀ (ps : List Piece) (L : List Token), PRel ds de ps L →
    nwC (renderAll ds de ps) = nwC (flat L)
  | [], [], _ => rfl
  | [], _ :: _, h => absurd h (by simp [PRel])
  | .text _ :: _, [], h => absurd h (by simp [PRel])
  | .tag _ _ :: _, [], h => absurd h (by simp [PRel])
  | .text v :: ps, t :: L, h => by
    obtain ⟨_, hn, hrest⟩ := h
    simp only [renderAll, Piece.render, flat_cons, nwC_append, hn, nw_of_pRel ds de ps L hrest]
  | .tag b0 rest :: ps, t :: L, h => by
    obtain ⟨_, hv, hrest⟩ := h
    simp only [renderAll, Piece.render, flat_cons, nwC_append, hv, nw_of_pRel ds de ps L hrest]

/-- the forest of the cleaned text has the elements of the pruned forest -/
theorem elements_after (d0 : Char) (dr : List Char) (e0 : Char) (er : List Char) (ps' : List Piece)
    (hok : ∀ p ∈ ps', p.ok d0 e0) (P : Element → Bool) (toks : List Token)
    (hrel : PRel (d0 :: dr) (e0 :: er) ps' (flattenParts (pruneParts P (parse (d0 :: dr) (e0 :: er) toks)))) :
    (elementsOf (parseSource (renderAll (d0 :: dr) (e0 :: er) ps') (d0 :: dr) (e0 :: er))).map (·.1) =
      (elementsOf (pruneParts P (parse (d0 :: dr) (e0 :: er) toks))).map (·.1) := by
  have htags : tagValues (tokenize (renderAll (d0 :: dr) (e0 :: er) ps') (d0 :: dr) (e0 :: er)) =
      tagValues (flattenParts (pruneParts P (parse (d0 :: dr) (e0 :: er) toks))) := by
    rw [tagValues_render d0 dr e0 er ps' hok, tagsOf_of_pRel _ _ _ _ hrel]
  have hskel := skel_congr (d0 :: dr) (e0 :: er) _ _ htags
  rw [elementsOf_skel, elementsOf_skel]
  unfold parseSource
  rw [hskel, parse_pruned]

mutual
theorem elementsOf_prune_subset (P : Element → Bool) : ∀ (parts : List Part),
    ∀ e ∈ elementsOf (pruneParts P parts), e ∈ elementsOf parts
  | [], e, he => by simp [pruneParts, elementsOf] at he
  | p :: ps, e, he => by
    have app : ∀ (a b : List Part), elementsOf (a ++ b) = elementsOf a ++ elementsOf b := by
      intro a
      induction a with
      | nil => intro b; simp [elementsOf]
      | cons x xs ih => intro b; simp [elementsOf, ih, List.append_assoc]
    simp only [pruneParts, app, List.mem_append] at he
    simp only [elementsOf, List.mem_append]
    rcases he with he | he
    · exact Or.inl (elementsOfPart_prune_subset P p e he)
    · exact Or.inr (elementsOf_prune_subset P ps e he)
theorem elementsOfPart_prune_subset (P : Element → Bool) : ∀ (p : Part),
    ∀ e ∈ elementsOf (prunePart P p), e ∈ elementsOfPart p
  | .text t, e, he => by simp [prunePart, elementsOf, elementsOfPart] at he
  | .element el st en ch, e, he => by
    simp only [prunePart] at he
    split at he
    · simp [elementsOf] at he
    · simp only [elementsOf, elementsOfPart, List.append_nil, List.mem_cons] at he ⊢
      rcases he with rfl | he
      · exact Or.inl rfl
      · exact Or.inr (elementsOf_prune_subset P ch e he)
end

/-- C19 (first clause) for default-strategy removals in well-delimited sources -/
theorem idempotent_default (d0 : Char) (dr : List Char) (e0 : Char) (er : List Char)
    (hd0 : wsChar d0 = false) (hel : ∀ w c, (e0 :: er) = w ++ [c] → wsChar c = false)
    (ps : List Piece) (hok : ∀ p ∈ ps, p.ok d0 e0) (cfg : Cfg) (out : List Char)
    (hnu : NoReadyUnwrap cfg (parseSource (renderAll (d0 :: dr) (e0 :: er) ps) (d0 :: dr) (e0 :: er)))
    (h : clean (renderAll (d0 :: dr) (e0 :: er) ps) (d0 :: dr) (e0 :: er) cfg = .ok out) :
    clean out (d0 :: dr) (e0 :: er) cfg = .ok out := by
  obtain ⟨ps', q1, hout, q4⟩ := clean_shape d0 dr e0 er hd0 hel ps hok cfg out hnu h
  subst hout
  -- the elements of the output's forest are those of the pruned forest: none of them is ready
  have hels := elements_after d0 dr e0 er ps' q1 (conditionHolds cfg) _ q4
  have hnone : nothingReady (renderAll (d0 :: dr) (e0 :: er) ps') (d0 :: dr) (e0 :: er) cfg = true := by
    unfold nothingReady extentsOfSource readyExtents
    rw [List.isEmpty_iff, List.flatMap_eq_nil_iff]
    intro e he
    have hel' : e.1 ∈ (elementsOf (parseSource (renderAll (d0 :: dr) (e0 :: er) ps') (d0 :: dr) (e0 :: er))).map (·.1) :=
      List.mem_map.mpr ⟨e, he, rfl⟩
    rw [hels] at hel'
    obtain ⟨e', he', hee⟩ := List.mem_map.mp hel'
    have := prune_no_ready (conditionHolds cfg) _ e' he'
    obtain ⟨el, st, en⟩ := e
    simp only at hee ⊢
    rw [← hee, this]
    simp
  exact C04.c04 (renderAll (d0 :: dr) (e0 :: er) ps') (d0 :: dr) (e0 :: er) cfg (by simp) (by simp) hnone

/-- the non-whitespace text of the cleaned document is that of the pruned forest -/
theorem clean_nw (d0 : Char) (dr : List Char) (e0 : Char) (er : List Char)
    (hd0 : wsChar d0 = false) (hel : ∀ w c, (e0 :: er) = w ++ [c] → wsChar c = false)
    (ps : List Piece) (hok : ∀ p ∈ ps, p.ok d0 e0) (cfg : Cfg) (out : List Char)
    (hnu : NoReadyUnwrap cfg (parseSource (renderAll (d0 :: dr) (e0 :: er) ps) (d0 :: dr) (e0 :: er)))
    (h : clean (renderAll (d0 :: dr) (e0 :: er) ps) (d0 :: dr) (e0 :: er) cfg = .ok out) :
    nwC out = nwflat (pruneParts (conditionHolds cfg)
      (parseSource (renderAll (d0 :: dr) (e0 :: er) ps) (d0 :: dr) (e0 :: er))) := by
  obtain ⟨ps', _, hout, q4⟩ := clean_shape d0 dr e0 er hd0 hel ps hok cfg out hnu h
  rw [hout, nw_of_pRel _ _ _ _ q4]
  rfl

/-- C19 (second clause) for default-strategy removals in well-delimited sources: cleaning with an earlier
    configuration and then with a later one gives, up to whitespace, what cleaning with the later one gives.
    "Later" is `CfgLe`: the clock does not go back and no removal target is withdrawn. -/
theorem compose_default (d0 : Char) (dr : List Char) (e0 : Char) (er : List Char)
    (hd0 : wsChar d0 = false) (hel : ∀ w c, (e0 :: er) = w ++ [c] → wsChar c = false)
    (ps : List Piece) (hok : ∀ p ∈ ps, p.ok d0 e0) (cfg1 cfg2 : Cfg) (hle : CfgLe cfg1 cfg2)
    (out1 out12 out2 : List Char)
    (hnu : NoReadyUnwrap cfg2 (parseSource (renderAll (d0 :: dr) (e0 :: er) ps) (d0 :: dr) (e0 :: er)))
    (h1 : clean (renderAll (d0 :: dr) (e0 :: er) ps) (d0 :: dr) (e0 :: er) cfg1 = .ok out1)
    (h12 : clean out1 (d0 :: dr) (e0 :: er) cfg2 = .ok out12)
    (h2 : clean (renderAll (d0 :: dr) (e0 :: er) ps) (d0 :: dr) (e0 :: er) cfg2 = .ok out2) :
    nwC out12 = nwC out2 := by
  have hmono : ∀ e, conditionHolds cfg1 e = true → conditionHolds cfg2 e = true := ready_monotone cfg1 cfg2 hle
  have hnu1 : NoReadyUnwrap cfg1 (parseSource (renderAll (d0 :: dr) (e0 :: er) ps) (d0 :: dr) (e0 :: er)) :=
    fun e he hc => hnu e he (hmono _ hc)
  obtain ⟨ps1, q1, hout1, q4⟩ := clean_shape d0 dr e0 er hd0 hel ps hok cfg1 out1 hnu1 h1
  subst hout1
  rw [clean_nw d0 dr e0 er hd0 hel ps hok cfg2 out2 hnu h2]
  -- the intermediate document: its elements are among those of the source
  have hels := elements_after d0 dr e0 er ps1 q1 (conditionHolds cfg1) _ q4
  have hnu12 : NoReadyUnwrap cfg2 (parseSource (renderAll (d0 :: dr) (e0 :: er) ps1) (d0 :: dr) (e0 :: er)) := by
    intro e he hc
    have hm : e.1 ∈ (elementsOf (parseSource (renderAll (d0 :: dr) (e0 :: er) ps1) (d0 :: dr) (e0 :: er))).map (·.1) :=
      List.mem_map.mpr ⟨e, he, rfl⟩
    rw [hels] at hm
    obtain ⟨e', he', hee⟩ := List.mem_map.mp hm
    have := hnu e' (elementsOf_prune_subset _ _ e' he')
    rw [hee] at this
    exact this hc
  rw [clean_nw d0 dr e0 er hd0 hel ps1 q1 cfg2 out12 hnu12 h12]
  -- its forest is, up to whitespace, the pruned forest of the source
  have htr : TokRel (tokenize (renderAll (d0 :: dr) (e0 :: er) ps1) (d0 :: dr) (e0 :: er))
      (flattenParts (pruneParts (conditionHolds cfg1)
        (parseSource (renderAll (d0 :: dr) (e0 :: er) ps) (d0 :: dr) (e0 :: er)))) := by
    have := tokRel_of_pRel (d0 :: dr) (e0 :: er) ps1 _ [] [] _ q4 (by simp) rfl (tokens_tnorm d0 dr e0 er ps1 q1)
    simpa using this
  have hrel := parse_rel (d0 :: dr) (e0 :: er) _ _ htr
  unfold parseSource at hrel ⊢
  rw [parse_pruned] at hrel
  rw [hrel (conditionHolds cfg2), prune_prune _ _ hmono]

/-! Non-vacuity: a concrete well-delimited source with a ready element (inside a pending one) meets every premise. -/
def exPs : List Piece :=
  [.text "a\n".toList, .tag 'r' "m name='b'".toList, .text "\n  ".toList, .tag 't' "l to='2000-01-01 00:00:00'".toList,
   .text "\n  x\n  ".toList, .tag '/' "tl".toList, .text "\ny\n".toList, .tag '/' "rm".toList, .text "\nz\n".toList]
def exCfg : Cfg := ⟨"tl".toList, "rm".toList, 1577836800, 0, "+00:00".toList, ["a".toList]⟩

theorem noReadyUnwrapB_sound' (cfg : Cfg) (parts : List Part) (h : noReadyUnwrapB cfg parts = true) :
    NoReadyUnwrap cfg parts := by
  intro e he hc
  simp only [noReadyUnwrapB, List.all_eq_true] at h
  have := h e he
  simp only [hc, Bool.not_true, Bool.false_or, Bool.not_eq_true'] at this
  exact this

def okB (d0 e0 : Char) : Piece → Bool
  | .text s => s.all (· != d0)
  | .tag _ rest => rest.all (· != e0)

theorem okB_sound (d0 e0 : Char) (p : Piece) (h : okB d0 e0 p = true) : p.ok d0 e0 := by
  cases p with
  | text s =>
    simp only [okB, List.all_eq_true, bne_iff_ne, ne_eq] at h
    exact h
  | tag b0 rest =>
    simp only [okB, List.all_eq_true, bne_iff_ne, ne_eq] at h
    exact h

example : (∀ p ∈ exPs, p.ok '<' '>') ∧ wsChar '<' = false ∧
    NoReadyUnwrap exCfg (parseSource (renderAll "<".toList ">".toList exPs) "<".toList ">".toList) ∧
    (match clean (renderAll "<".toList ">".toList exPs) "<".toList ">".toList exCfg with
      | .ok o => o == "a\n<rm name='b'>\ny\n</rm>\nz\n".toList
      | .error _ => false) = true := by
  refine ⟨?_, by decide, noReadyUnwrapB_sound' _ _ (by decide +kernel), by decide +kernel⟩
  intro p hp
  apply okB_sound
  have : exPs.all (okB '<' '>') = true := by decide +kernel
  exact List.all_eq_true.mp this p hp

/-! Non-vacuity of `compose_default`: two configurations, the later one removes more (a newly expired marker and a
    newly targeted one); every premise holds and the three runs succeed, the first one leaving work for the second. -/
def exPs2 : List Piece :=
  [.text "a\n".toList, .tag 't' "l to='2001-01-01 00:00:00'".toList, .text "\n  x\n".toList, .tag '/' "tl".toList,
   .text "\nm\n".toList, .tag 't' "l to='2003-01-01 00:00:00'".toList, .text " y ".toList, .tag '/' "tl".toList,
   .text "\n".toList, .tag 'r' "m name='b'".toList, .text "k".toList, .tag '/' "rm".toList, .text "\nz\n".toList]
def exC1 : Cfg := ⟨"tl".toList, "rm".toList, 1009843200, 0, "+00:00".toList, []⟩
def exC2 : Cfg := ⟨"tl".toList, "rm".toList, 1072915200, 0, "+00:00".toList, ["b".toList]⟩

def outIs (r : Except Panic (List Char)) (s : String) : Bool :=
  match r with
  | .ok o => o == s.toList
  | .error _ => false

example : CfgLe exC1 exC2 ∧ (∀ p ∈ exPs2, p.ok '<' '>') ∧
    NoReadyUnwrap exC2 (parseSource (renderAll "<".toList ">".toList exPs2) "<".toList ">".toList) ∧
    outIs (clean (renderAll "<".toList ">".toList exPs2) "<".toList ">".toList exC1)
      "a\nm\n<tl to='2003-01-01 00:00:00'> y </tl>\n<rm name='b'>k</rm>\nz\n" = true ∧
    outIs (clean (renderAll "<".toList ">".toList exPs2) "<".toList ">".toList exC2) "a\nm\n\nz\n" = true := by
  refine ⟨⟨rfl, rfl, rfl, Or.inl (by decide), by intro t ht; simp [exC1] at ht⟩, ?_,
    noReadyUnwrapB_sound' _ _ (by decide +kernel), by decide +kernel, by decide +kernel⟩
  intro p hp
  apply okB_sound
  have : exPs2.all (okB '<' '>') = true := by decide +kernel
  exact List.all_eq_true.mp this p hp

end Chiritori.Props.C19
