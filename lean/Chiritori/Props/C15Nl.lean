import Chiritori.Props.C16
/-
  C15, last clause, for a region that ENDS WITH A LINE BREAK (the end delimiter ends with one): the highlighted span is
  the region without that final line break - `mid_of_final_nl`, `highlight_is_region_nl` - the complement of
  `mid_of_last_char` / `highlight_is_region` for LF texts.  (A region that ends with two line breaks shows one line
  less than its line range; that case stays excluded.)
-/
namespace Chiritori.Props.C16
open Chiritori Chiritori.Spec

/-- the line of a line break ends at that line break -/
theorem lineEndOf_at_nl (b : Bytes) (p : Nat) (hp : 0 < p) (h : b[p]? = some NL) : lineEndOf b p = p := by
  unfold lineEndOf
  cases hf : findNextLB b p false with
  | none => exact absurd h (findNextLB_none_false b p hp hf p (Nat.le_refl _))
  | some v =>
    simp only
    obtain ⟨_, g2, _, _, g5, _⟩ := findNextLB_some _ _ _ _ hf
    by_cases hv : v = p
    · exact hv
    · exact absurd h (g5 p (Nat.le_refl _) (by omega))

/-- a region `w ++ "\n"` (`w` not empty, not ending with a line break or a carriage return): the highlighted span is `w` -/
theorem mid_of_final_nl (s1 w s3 : List Char) (c : Char) (hcr : c ≠ '\r') (lr : Option (Nat × Nat)) :
    (geomOf (bytesOf (s1 ++ ((w ++ [c]) ++ ['\n']) ++ s3)) (blen s1) (blen s1 + blen ((w ++ [c]) ++ ['\n'])) lr).mid
      = bytesOf (w ++ [c]) := by
  generalize hb : bytesOf (s1 ++ ((w ++ [c]) ++ ['\n']) ++ s3) = b
  have hbe : b = bytesOf s1 ++ (bytesOf (w ++ [c]) ++ (NL :: bytesOf s3)) := by
    rw [← hb, bytesOf_append, bytesOf_append, bytesOf_append, List.append_assoc, List.append_assoc]
    rfl
  have hl1 : (bytesOf s1).length = blen s1 := length_bytesOf _
  have hl2 : (bytesOf (w ++ [c])).length = blen (w ++ [c]) := length_bytesOf _
  have hpos2 : 0 < blen (w ++ [c]) := by
    rw [blen_append]; simp only [blen]; have := Char.utf8Size_pos c; omega
  have hblen : blen ((w ++ [c]) ++ ['\n']) = blen (w ++ [c]) + 1 := by
    rw [blen_append]; rfl
  obtain ⟨y, hy, hyc⟩ := bytesOf_last w c
  -- the byte at the end of the region is the line break; the one in front of it is the last byte of `c`
  have hnl : b[blen s1 + blen (w ++ [c])]? = some NL := by
    rw [hbe, List.getElem?_append_right (by omega), List.getElem?_append_right (by omega), hl1, hl2]
    simp
  have hlast : b[blen s1 + blen (w ++ [c]) - 1]? = some y := by
    rw [hbe, List.getElem?_append_right (by omega), List.getElem?_append_left (by omega), hl1]
    rw [List.getLast?_eq_getElem?, hl2] at hy
    rw [show blen s1 + blen (w ++ [c]) - 1 - blen s1 = blen (w ++ [c]) - 1 by omega]
    exact hy
  have hyr : y ≠ .lead '\r' := by
    rcases hyc with rfl | rfl
    · decide
    · intro h; injection h with h; exact hcr h
  have hle : lineEndOf b (blen s1 + blen ((w ++ [c]) ++ ['\n']) - 1) = blen s1 + blen (w ++ [c]) := by
    rw [hblen, show blen s1 + (blen (w ++ [c]) + 1) - 1 = blen s1 + blen (w ++ [c]) by omega]
    exact lineEndOf_at_nl b _ (by omega) hnl
  have hce : colorEndOf b (blen s1) (blen s1 + blen ((w ++ [c]) ++ ['\n'])) (blen s1 + blen (w ++ [c])) =
      blen s1 + blen (w ++ [c]) := by
    unfold colorEndOf
    rw [hblen]
    simp only [show min (blen s1 + (blen (w ++ [c]) + 1)) (blen s1 + blen (w ++ [c])) = blen s1 + blen (w ++ [c]) by omega]
    rw [if_neg]
    intro ⟨_, _, h3⟩
    rw [hlast] at h3
    injection h3 with h3
    exact hyr h3
  simp only [geomOf, hle, hce]
  rw [hbe, ← List.append_assoc, List.take_append_of_le_length (by simp [hl1, hl2]),
    List.take_of_length_le (by simp [hl1, hl2]), List.drop_append_of_le_length (by omega), ← hl1, List.drop_length]
  simp

/-- C15, last clause, for a region ending with a line break: the highlighted text is the region without it -/
theorem highlight_is_region_nl (s1 w s3 : List Char) (c : Char) (hc : c ≠ '\n') (hcr : ∀ d ∈ w ++ [c], d ≠ '\r')
    (lr : Option (Nat × Nat)) :
    joinWith ['\n'] (rustLines (charsOf
      (geomOf (bytesOf (s1 ++ ((w ++ [c]) ++ ['\n']) ++ s3)) (blen s1) (blen s1 + blen ((w ++ [c]) ++ ['\n'])) lr).mid))
      = w ++ [c] := by
  rw [mid_of_final_nl s1 w s3 c (hcr c (by simp)) lr, charsOf_bytesOf]
  exact joinWith_rustLines _ hcr (by rw [List.getLast?_concat]; intro h; injection h with h; exact hc h)

/-! instance: delimiters `<` and `>\n`: the region of the element is `<x>\ny</x>\n`; the highlighted span stops in front of
    the final line break -/
example :
    let s := "a\nb <x>\ny</x>\nd\n".toList
    charsOf (geomOf (bytesOf s) 4 14 (some (2, 3))).mid = "<x>\ny</x>".toList ∧ (bytesOf s)[13]? = some NL := by
  decide +kernel

end Chiritori.Props.C16
